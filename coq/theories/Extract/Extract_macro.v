From Coq Require Import ExtrOcamlBasic.
From JV Require Import Model.Macro Spec.MacroSpec.
Extraction "macro_x.ml" Macro.macro_call Macro.macro_body_sig Macro.invoke Macro.slots_ok
  MacroSpec.spec_bind MacroSpec.flatten MacroSpec.final_value Macro.macro_entry.
