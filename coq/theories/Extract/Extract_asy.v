From Coq Require Import ExtrOcamlBasic.
From JV Require Import Model.Asy.
Extraction "asy_x.ml" Asy.run_chain Asy.chain_guard Asy.has_async_variant Asy.lazy_producer.
