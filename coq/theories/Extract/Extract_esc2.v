From Coq Require Import ExtrOcamlBasic.
From JV Require Import Model.EscMarkup Model.EscLang2.
Extraction "esc2_x.ml" EscLang2.render EscLang2.block_table EscLang2.c16_ok EscLang2.c15_ok EscLang2.top_ok.
