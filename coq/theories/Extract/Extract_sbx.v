From Coq Require Import ExtrOcamlBasic.
From JV Require Import Model.SbxAttr Model.SbxMutable Spec.SbxMutators Model.SbxAccess Model.SbxGen Model.SbxCall.
Extraction "sbx_x.ml" SbxAttr.is_internal_attribute SbxAttr.is_safe_attribute
  SbxMutable.modifies_known_mutable SbxMutable.immutable_is_safe_attribute SbxMutators.mutates
  SbxAccess.sandbox_getattr SbxAccess.sandbox_getitem SbxAccess.do_attr SbxAccess.walk
  SbxGen.gen SbxGen.show SbxGen.count_calls SbxGen.count_gates SbxGen.no_raw SbxGen.gated
  SbxCall.is_safe_callable_default SbxCall.gate_events.
