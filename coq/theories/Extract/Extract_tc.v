From Coq Require Import ExtrOcamlBasic.
From JV Require Import Model.Tc.
Extraction "tc_x.ml" Tc.new_env Tc.run Tc.put.
