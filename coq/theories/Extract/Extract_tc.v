From Coq Require Import ExtrOcamlBasic.
From JV Require Import Model.Tc Model.TcLay.
Extraction "tc_x.ml" Tc.new_env Tc.run Tc.put TcLay.new_lenv TcLay.lrun.
