From Coq Require Import ExtrOcamlBasic.
From JV Require Import Model.EscMarkup Model.I18nModel.
Extraction "i18n_x.ml" I18nModel.render_trans I18nModel.trans_call I18nModel.pyformat I18nModel.escape_percent
  I18nModel.trim_ws I18nModel.undouble.
