From Coq Require Import ExtrOcamlBasic.
From JV Require Import Model.LRU Spec.LRUSpec.
Extraction "lru_x.ml" LRU.run LRU.init LRUSpec.srun.
