From Coq Require Import ExtrOcamlBasic.
From JV Require Import Model.FramesExec.
Extraction "framesexec_x.ml" FramesExec.crun FramesExec.csched_wf.
