From Coq Require Import ExtrOcamlBasic.
From JV Require Import Model.Imp Spec.ImpSpec.
Extraction "imp_x.ml" Imp.render Imp.module_of ImpSpec.spec_render ImpSpec.spec_module ImpSpec.exported_spec ImpSpec.known_render ImpSpec.known_module.
