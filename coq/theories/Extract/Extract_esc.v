From Coq Require Import ExtrOcamlBasic.
From JV Require Import Model.EscMarkup Model.EscLang.
Extraction "esc_x.ml" EscLang.render EscMarkup.unescape5 EscMarkup.escape EscMarkup.escape_spec EscMarkup.clean
  EscLang.select_autoescape EscLang.apply_filter EscLang.c16_ok EscLang.c15_ok EscLang.top_ok
  EscMarkup.markup_join EscMarkup.mk_add EscMarkup.mk_join EscMarkup.mk_replace.
