From Coq Require Import ExtrOcamlBasic.
From JV Require Import Model.LexBase Model.LexTokeniter Spec.LexPlainSpec Spec.LexTrimSpec.
Extraction "lex_x.ml" LexBase.ascii_digit LexBase.ascii_word LexBase.is_space LexBase.mkcfg
  LexTokeniter.tokeniter LexTokeniter.normalize LexTokeniter.render_data LexTokeniter.raw_tokens
  LexPlainSpec.spec_plain LexPlainSpec.no_start_delim
  LexTrimSpec.spec_trim LexTrimSpec.unparse LexTrimSpec.skel_wf.
