From Coq Require Import ExtrOcamlBasic.
From JV Require Import Model.ScopeAst Model.ScopeIdTrack Model.ScopeFrameExec Spec.ScopeSpecStmt Model.ScopeGuards Model.ScopeMeta Model.ScopeIdTrackF.
Extraction "scope_x.ml" ScopeFrameExec.frender ScopeFrameExec.frender_st ScopeFrameExec.fresolves
  ScopeSpecStmt.srender ScopeIdTrack.frames_of ScopeIdTrack.find_undeclared
  ScopeGuards.core_prog ScopeGuards.core2_prog ScopeGuards.core3_prog ScopeGuards.wf_names ScopeGuards.noalias ScopeGuards.guard_rbw
  ScopeIdTrackF.frames_setblock_f ScopeMeta.meta_undeclared ScopeMeta.nocall_l ScopeMeta.referenced ScopeMeta.requested.
