From Coq Require Import ExtrOcamlBasic.
From JV Require Import Model.Stream.
Extraction "stream_x.ml" Stream.stream_buffered Stream.render Stream.concat Stream.srun Stream.sdrain.
