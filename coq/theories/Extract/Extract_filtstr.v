From Coq Require Import ExtrOcamlBasic.
From JV Require Import Model.FiltStr.
Extraction "filtstr_x.ml" FiltStr.do_truncate FiltStr.do_indent FiltStr.do_center FiltStr.do_wordcount
  FiltStr.ascii_word FiltStr.splitlines FiltStr.do_filesizeformat FiltStr.int_shape FiltStr.float_shape
  FiltStr.show_Z FiltStr.read_Z FiltStr.all_kinds.
