From Coq Require Import ExtrOcamlBasic.
From JV Require Import Model.PyWf.
Extraction "pywf_x.ml" PyWf.gens PyWf.facts PyWf.py_ok.
