From Coq Require Import ExtrOcamlBasic.
From JV Require Import Model.Bc.
Extraction "bc_x.ml" Bc.toy_load Bc.toy_pk Bc.toy_mk Bc.crash_after Bc.fault_after Bc.hrun Bc.world0.
