From Coq Require Import ExtrOcamlBasic.
From JV Require Import Model.Ldr Spec.LdrSpec.
Extraction "ldr_x.ml" Ldr.split_template_path Ldr.posix_join Ldr.posix_normpath Ldr.nt_normpath
  Ldr.get_source Ldr.split_on Ldr.posix Ldr.nt Ldr.split_once LdrSpec.route LdrSpec.first_found.
