From Coq Require Import ExtrOcamlBasic.
From JV Require Import Model.Inh Spec.InhSpec.
Extraction "inh_x.ml" Inh.render InhSpec.spec_render Inh.blocks_of_chain Inh.chain_wf InhSpec.strip_child.
