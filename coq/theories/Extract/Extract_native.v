From Coq Require Import ExtrOcamlBasic.
From JV Require Import Model.Native Spec.NativeSpec.
Extraction "native_x.ml" Native.native_render Native.group_consts NativeSpec.spec_native NativeSpec.valid_entry.
