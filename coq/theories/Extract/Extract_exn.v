From Coq Require Import ExtrOcamlBasic.
From JV Require Import Model.Exn.
Extraction "exn_x.ml" Exn.propagate Exn.foreign Exn.signals Exn.try_ok Exn.subclass.
