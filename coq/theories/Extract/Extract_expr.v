From Coq Require Import ExtrOcamlBasic.
From JV Require Import Model.ExprAst Model.ExprPrim Spec.ExprSpec Model.ExprTarget Model.ExprFold Model.ExprConcrete Model.ExprParser Model.ExprUnparse Model.ExprStmtParser.
Extraction "expr_x.ml" ExprConcrete.mk_cfg ExprConcrete.run_spec ExprConcrete.run_py ExprConcrete.run_render
  ExprConcrete.run_spec_text ExprConcrete.run_gen ExprConcrete.run_gen_expr ExprConcrete.run_fold
  ExprSpec.depth ExprPrim.filter_kind ExprSpec.subst ExprPrim.int_str ExprParser.parse_expr ExprParser.parse_print ExprUnparse.unparse ExprUnparse.wf ExprStmtParser.parse.
