From Coq Require Import ExtrOcamlBasic.
From JV Require Import Model.FiltColl Model.FiltCollRun.
Extraction "filtcoll_x.ml" FiltCollRun.run_sync FiltCollRun.run_async.
