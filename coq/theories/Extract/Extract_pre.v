From Coq Require Import ExtrOcamlBasic.
From JV Require Import Model.Pre.
Extraction "pre_x.ml" Pre.probe_case Pre.template_key Pre.module_filename.
