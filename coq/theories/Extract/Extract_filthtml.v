From Coq Require Import ExtrOcamlBasic.
From JV Require Import Model.FiltStr Model.FiltHtml.
Extraction "filthtml_x.ml" FiltHtml.escape FiltHtml.replace4 FiltHtml.do_xmlattr FiltHtml.indent_markup
  FiltHtml.replace_markup FiltHtml.join_markup FiltHtml.payload FiltHtml.truncate_markup
  FiltStr.read_Z.
