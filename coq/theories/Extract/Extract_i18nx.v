From Coq Require Import ExtrOcamlBasic.
From JV Require Import Model.EscMarkup Model.I18nModel Model.I18nTrim.
Extraction "i18nx_x.ml" I18nTrim.extract I18nTrim.trim_block I18nModel.parse_block I18nModel.fmt_of.
