From Coq Require Import ExtrOcamlBasic.
From JV Require Import Model.Lit Spec.LitSpec.
Extraction "lit_x.ml" Lit.lex_number Lit.lex_integer Lit.lex_float Lit.jinja_int Lit.remove_us Lit.lex_string Lit.convert Lit.literal Lit.parse_strings LitSpec.py_int LitSpec.py_float_ok.
