From Coq Require Import ExtrOcamlBasic.
From JV Require Import Model.Undef Spec.UndefSpec.
Extraction "undef_x.ml" Undef.dispatch Undef.message Undef.debug_str Undef.simple UndefSpec.spec UndefSpec.agrees UndefSpec.all_cells.
