From Coq Require Import ExtrOcamlBasic.
From JV Require Import Model.Loop Spec.LoopSpec.
Extraction "loop_x.ml" Loop.run Loop.run_for Loop.rec_forest LoopSpec.spec LoopSpec.levels.
