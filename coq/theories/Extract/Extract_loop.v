From Coq Require Import ExtrOcamlBasic.
From JV Require Import Model.Loop Spec.LoopSpec Model.LoopGen.
Extraction "loop_x.ml" Loop.run Loop.run_for Loop.run_for_ctl Loop.rec_forest LoopSpec.spec LoopSpec.levels LoopSpec.cut LoopGen.for_trace.
