From Coq Require Import ExtrOcamlBasic.
From JV Require Import Model.Dbg.
Extraction "dbg_x.ml" Dbg.run_lines Dbg.init Dbg.corresponding Dbg.token_lines.
