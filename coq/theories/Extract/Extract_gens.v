From Coq Require Import ExtrOcamlBasic.
From JV Require Import Model.Gens.
Extraction "gens_x.ml" Gens.leak_up Gens.leak_down Gens.leaked Gens.all_guarded.
