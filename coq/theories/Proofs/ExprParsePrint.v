(* C02 parse_unparse, part 2: facts about the printer alone (first and second token). *)
From Coq Require Import List NArith ZArith Bool Lia Arith.
Import ListNotations.
From JV Require Import Model.ExprAst Model.ExprPrim Spec.ExprSpec Model.ExprParser Model.ExprUnparse
  Proofs.ExprFoldProofs Proofs.ExprParseBase.

Definition startok (t : tok) : bool :=
  match t with
  | KName _ | KInt _ | KStr _ | KFloat => true
  | KOp (OLParen | OLBracket | OLBrace | OSub | OAdd) => true
  | _ => false
  end.

Definition HD (e : expr) : Prop :=
  forall L r, exists t rest, pr L e ++ r = t :: rest /\ startok t = true /\
    (4 <= L -> t <> KName k_not) /\ (11 <= L -> t <> KOp OSub /\ t <> KOp OAdd).

Definition noassign_hd (r : list tok) : bool := match r with KOp OAssign :: _ => false | _ => true end.
Definition no_assign2 (ts : list tok) : bool := match ts with _ :: KOp OAssign :: _ => false | _ => true end.
Definition NA (e : expr) : Prop := forall L r, noassign_hd r = true -> no_assign2 (pr L e ++ r) = true.

Lemma pr_raw L e : L <= lvl e -> pr L e = raw e.
Proof. intros H. unfold pr. apply Nat.leb_le in H. rewrite H. reflexivity. Qed.
Lemma pr_paren L e : lvl e < L -> pr L e = paren (raw e).
Proof. intros H. unfold pr. apply Nat.leb_gt in H. rewrite H. reflexivity. Qed.
Lemma pr_succ L e : lvl e <> L -> pr L e = pr (S L) e.
Proof.
  intros H. unfold pr. destruct (Nat.leb_spec L (lvl e)), (Nat.leb_spec (S L) (lvl e)); try reflexivity; lia.
Qed.

Lemma startok_noassign t : startok t = true -> t <> KOp OAssign.
Proof. intros H E. subst t. discriminate. Qed.

Lemma reserved_not x : reserved x = false -> KName x <> KName k_not.
Proof.
  intros H E. injection E as ->. vm_compute in H. discriminate.
Qed.

(* transfer along "raw e = pr L' a ++ more" *)
Lemma hd_via L' a more L r :
  HD a -> (4 <= L -> 4 <= L') -> (11 <= L -> 11 <= L') ->
  exists t rest, (pr L' a ++ more) ++ r = t :: rest /\ startok t = true /\
    (4 <= L -> t <> KName k_not) /\ (11 <= L -> t <> KOp OSub /\ t <> KOp OAdd).
Proof.
  intros Ha H4 H11. rewrite <- app_assoc. destruct (Ha L' (more ++ r)) as [t [rest [E [S1 [S2 S3]]]]].
  exists t, rest. repeat split; auto.
  - apply S3; auto.
  - apply S3; auto.
Qed.

Lemma na_via L' a more r : NA a -> noassign_hd (more ++ r) = true -> no_assign2 ((pr L' a ++ more) ++ r) = true.
Proof. intros Ha H. rewrite <- app_assoc. apply Ha. exact H. Qed.

(* a node printed as  tok :: pr L' a ++ more  *)
Lemma na_tok t L' a more : HD a -> no_assign2 (t :: pr L' a ++ more) = true.
Proof.
  intros Ha. destruct (Ha L' more) as [t1 [rest [E [S1 _]]]]. rewrite E. cbn.
  destruct t1; try reflexivity. destruct o; try reflexivity; discriminate.
Qed.

Lemma commas_hd (f : expr -> list tok) x xs more :
  commas (map f (x :: xs)) ++ more = f x ++ (match xs with [] => [] | _ => KOp OComma :: commas (map f xs) end) ++ more.
Proof. cbn [map commas]. destruct xs; [reflexivity|]. cbn [map]. rewrite <- app_assoc. reflexivity. Qed.

Theorem print_facts : forall n e, depth e <= n -> wf e = true -> HD e /\ NA e.
Proof.
  induction n as [|n IH]; intros e Hd Hw; [pose proof (depth_pos e); lia|].
  assert (IHD : forall x, depth x <= n -> wf x = true -> HD x) by (intros x H1 H2; apply (IH x H1 H2)).
  assert (INA : forall x, depth x <= n -> wf x = true -> NA x) by (intros x H1 H2; apply (IH x H1 H2)).
  (* raw-level facts *)
  assert (RAW : (forall L r, L <= lvl e -> exists t rest, raw e ++ r = t :: rest /\ startok t = true /\
                   (4 <= L -> t <> KName k_not) /\ (11 <= L -> t <> KOp OSub /\ t <> KOp OAdd)) /\
                (forall r, noassign_hd r = true -> no_assign2 (raw e ++ r) = true)).
  { destruct e; cbn [depth wf lvl] in Hd, Hw |- *; cbn [raw];
      repeat match goal with |- context [if Nat.leb ?L (lvl ?x) then raw ?x else paren (raw ?x)] => change (if Nat.leb L (lvl x) then raw x else paren (raw x)) with (pr L x) end.
    - (* EConst *) split.
      + intros L r _. exists (const_tok v), r. split; [reflexivity|]. destruct v; try discriminate; try destruct b; cbn; repeat split; try discriminate; intros _; discriminate.
      + intros r Hr. cbn. destruct r as [|[| | | |[]]]; try reflexivity; discriminate.
    - (* EName *) apply negb_true_iff in Hw. split.
      + intros L r _. exists (KName x), r. repeat split; try discriminate. intros _. apply reserved_not. exact Hw.
      + intros r Hr. cbn. destruct r as [|[| | | |[]]]; try reflexivity; discriminate.
    - (* EBin *) apply andb_true_iff in Hw. destruct Hw as [W1 W2]. split.
      + intros L r HL. apply hd_via; [apply IHD; [lia|exact W1]| |]; destruct op; cbn in *; lia.
      + intros r Hr. apply na_via; [apply INA; [lia|exact W1]|destruct op; reflexivity].
    - (* EUn *) split.
      + intros L r HL. eexists _, _. split; [reflexivity|]. destruct op; cbn; repeat split; try discriminate; lia.
      + intros r Hr. cbn [app]. apply na_tok. apply IHD; [lia|exact Hw].
    - (* ENot *) split.
      + intros L r HL. eexists _, _. split; [reflexivity|]. repeat split; try discriminate; lia.
      + intros r Hr. cbn [app]. apply na_tok. apply IHD; [lia|exact Hw].
    - (* EAnd *) apply andb_true_iff in Hw. destruct Hw as [W1 W2]. split.
      + intros L r HL. apply hd_via; [apply IHD; [lia|exact W1]| |]; lia.
      + intros r Hr. apply na_via; [apply INA; [lia|exact W1]|reflexivity].
    - (* EOr *) apply andb_true_iff in Hw. destruct Hw as [W1 W2]. split.
      + intros L r HL. apply hd_via; [apply IHD; [lia|exact W1]| |]; lia.
      + intros r Hr. apply na_via; [apply INA; [lia|exact W1]|reflexivity].
    - (* EConcat *) apply andb_true_iff in Hw. destruct Hw as [W0 W1].
      destruct es as [|x [|y es]]; try discriminate. cbn [forallb] in W1. apply andb_true_iff in W1. destruct W1 as [Wx _].
      assert (Dx : depth x <= n) by (cbn in Hd; lia).
      cbn [map tildes]. split.
      + intros L r HL. apply hd_via; [apply IHD; assumption| |]; lia.
      + intros r Hr. apply na_via; [apply INA; assumption|reflexivity].
    - (* ECompare *) apply andb_true_iff in Hw. destruct Hw as [W01 W2]. apply andb_true_iff in W01. destruct W01 as [W0 W1].
      destruct ops as [|[c y] ops]; [discriminate|]. split.
      + intros L r HL. apply hd_via; [apply IHD; [lia|exact W0]| |]; lia.
      + intros r Hr. apply na_via; [apply INA; [lia|exact W0]|]. cbn. destruct c; reflexivity.
    - (* ECond *) apply andb_true_iff in Hw. destruct Hw as [W01 W2]. apply andb_true_iff in W01. destruct W01 as [W0 W1]. split.
      + intros L r HL. apply hd_via; [apply IHD; [lia|exact W1]| |]; lia.
      + intros r Hr. apply na_via; [apply INA; [lia|exact W1]|reflexivity].
    - (* EGetattr *) split.
      + intros L r HL. apply hd_via; [apply IHD; [lia|exact Hw]| |]; lia.
      + intros r Hr. apply na_via; [apply INA; [lia|exact Hw]|reflexivity].
    - (* EGetitem *) apply andb_true_iff in Hw. destruct Hw as [W1 W2]. split.
      + intros L r HL. apply hd_via; [apply IHD; [lia|exact W1]| |]; lia.
      + intros r Hr. apply na_via; [apply INA; [lia|exact W1]|reflexivity].
    - (* ESlice *) repeat (apply andb_true_iff in Hw; destruct Hw as [Hw ?]). split.
      + intros L r HL. apply hd_via; [apply IHD; [lia|exact Hw]| |]; lia.
      + intros r Hr. apply na_via; [apply INA; [lia|exact Hw]|reflexivity].
    - (* EList *) split.
      + intros L r _. eexists _, _. split; [reflexivity|]. repeat split; try discriminate; lia.
      + intros r Hr. destruct es as [|x es]; [reflexivity|]. cbn [forallb] in Hw. apply andb_true_iff in Hw. destruct Hw as [Wx _].
        assert (Dx : depth x <= n) by (cbn in Hd; lia).
        cbn [app]. rewrite <- app_assoc, commas_hd. apply na_tok. apply IHD; assumption.
    - (* ETuple *) split.
      + intros L r _. destruct es as [|x [|y es]]; eexists _, _; (split; [reflexivity|]); repeat split; try discriminate; lia.
      + intros r Hr. destruct es as [|x es]; [reflexivity|]. cbn [forallb] in Hw. apply andb_true_iff in Hw. destruct Hw as [Wx _].
        assert (Dx : depth x <= n) by (cbn in Hd; lia).
        destruct es as [|y es].
        * cbn [app]. rewrite <- app_assoc. apply na_tok. apply IHD; assumption.
        * cbn [app]. rewrite <- app_assoc, commas_hd. apply na_tok. apply IHD; assumption.
    - (* EDict *) split.
      + intros L r _. eexists _, _. split; [reflexivity|]. repeat split; try discriminate; lia.
      + intros r Hr. destruct kvs as [|[k x] kvs]; [reflexivity|]. cbn [forallb fst snd] in Hw. apply andb_true_iff in Hw. destruct Hw as [Wx _].
        apply andb_true_iff in Wx. destruct Wx as [Wk _].
        assert (Dk : depth k <= n) by (cbn in Hd; lia).
        cbn [app]. rewrite <- app_assoc. cbn [map fst snd commas].
        repeat match goal with |- context [if Nat.leb ?L (lvl ?y) then raw ?y else paren (raw ?y)] =>
          change (if Nat.leb L (lvl y) then raw y else paren (raw y)) with (pr L y) end.
        match goal with |- context [match ?t with [] => _ | _ :: _ => _ end] => destruct t end;
          rewrite <- ?app_assoc; apply na_tok; apply IHD; assumption.
    - (* ECall *) apply andb_true_iff in Hw. destruct Hw as [W01 W2]. apply andb_true_iff in W01. destruct W01 as [W0 W1]. split.
      + intros L r HL. apply hd_via; [apply IHD; [lia|exact W0]| |]; lia.
      + intros r Hr. apply na_via; [apply INA; [lia|exact W0]|reflexivity].
    - (* EFilter *) apply andb_true_iff in Hw. destruct Hw as [W0 W1]. split.
      + intros L r HL. apply hd_via; [apply IHD; [lia|exact W0]| |]; lia.
      + intros r Hr. apply na_via; [apply INA; [lia|exact W0]|reflexivity].
    - (* ETest *) apply andb_true_iff in Hw. destruct Hw as [W0 W1]. apply andb_true_iff in W0. destruct W0 as [_ W0]. split.
      + intros L r HL. apply hd_via; [apply IHD; [lia|exact W0]| |]; lia.
      + intros r Hr. apply na_via; [apply INA; [lia|exact W0]|reflexivity]. }
  destruct RAW as [R1 R2]. split.
  - intros L r. destruct (Nat.leb_spec L (lvl e)) as [HL|HL].
    + rewrite pr_raw by exact HL. apply R1. exact HL.
    + rewrite pr_paren by exact HL. eexists _, _. split; [reflexivity|]. repeat split; try discriminate.
  - intros L r Hr. destruct (Nat.leb_spec L (lvl e)) as [HL|HL].
    + rewrite pr_raw by exact HL. apply R2. exact Hr.
    + rewrite pr_paren by exact HL. unfold paren. cbn [app]. rewrite <- app_assoc.
      destruct (R1 0 ([KOp ORParen] ++ r) ltac:(lia)) as [t1 [rest [E [S1 _]]]]. rewrite E. cbn.
      destruct t1; try reflexivity. destruct o; try reflexivity; discriminate.
Qed.
