(* Lemmas about the routing model of the code generator (C17 codegen_no_raw_attr, C18 calls_gated). *)
From Coq Require Import List Bool String Arith Lia.
Import ListNotations.
From JV Require Import Model.SbxGen.

(* ---- induction principle for the nested inductive [expr] *)
Definition OptP (P : expr -> Prop) (o : option expr) : Prop := match o with Some x => P x | None => True end.

Section ExprInd.
  Variable P : expr -> Prop.
  Hypothesis HName : forall n, P (EName n).
  Hypothesis HConst : forall c, P (EConst c).
  Hypothesis HGetattr : forall e a, P e -> P (EGetattr e a).
  Hypothesis HGetitem : forall e i, P e -> P i -> P (EGetitem e i).
  Hypothesis HSlice : forall e lo hi st, P e -> OptP P lo -> OptP P hi -> OptP P st -> P (ESlice e lo hi st).
  Hypothesis HCall : forall f args kw dyn dynkw, P f -> Forall P args -> Forall (fun p => P (snd p)) kw ->
    OptP P dyn -> OptP P dynkw -> P (ECall f args kw dyn dynkw).
  Hypothesis HFilter : forall n e args kw, P e -> Forall P args -> Forall (fun p => P (snd p)) kw -> P (EFilter n e args kw).
  Hypothesis HTest : forall n e args, P e -> Forall P args -> P (ETest n e args).
  Hypothesis HOp : forall op es, Forall P es -> P (EOp op es).

  Fixpoint expr_ind' (e : expr) : P e :=
    let many := fix many (l : list expr) : Forall P l :=
      match l with [] => Forall_nil P | x :: r => Forall_cons x (expr_ind' x) (many r) end in
    let manykw := fix manykw (l : list (string * expr)) : Forall (fun p => P (snd p)) l :=
      match l with
      | [] => Forall_nil _
      | p :: r => Forall_cons p (match p return P (snd p) with (k, v) => expr_ind' v end) (manykw r)
      end in
    let opt := fun (o : option expr) => match o return OptP P o with Some x => expr_ind' x | None => I end in
    match e with
    | EName n => HName n
    | EConst c => HConst c
    | EGetattr e a => HGetattr e a (expr_ind' e)
    | EGetitem e i => HGetitem e i (expr_ind' e) (expr_ind' i)
    | ESlice e lo hi st => HSlice e lo hi st (expr_ind' e) (opt lo) (opt hi) (opt st)
    | ECall f args kw dyn dynkw => HCall f args kw dyn dynkw (expr_ind' f) (many args) (manykw kw) (opt dyn) (opt dynkw)
    | EFilter n e args kw => HFilter n e args kw (expr_ind' e) (many args) (manykw kw)
    | ETest n e args => HTest n e args (expr_ind' e) (many args)
    | EOp op es => HOp op es (many es)
    end.
End ExprInd.

(* ---- helpers *)
Lemma forallb_map_Forall : forall (A B : Type) (f : A -> B) (p : B -> bool) (Q : A -> Prop) l,
  (forall x, Q x -> p (f x) = true) -> Forall Q l -> forallb p (map f l) = true.
Proof.
  intros A B f p Q l H HF. induction HF as [|x r Hx _ IH]; [reflexivity|].
  cbn. rewrite (H x Hx), IH. reflexivity.
Qed.

Lemma sum_map_Forall : forall (A B : Type) (f : A -> B) (g : B -> nat) (h : A -> nat) (Q : A -> Prop) l,
  (forall x, Q x -> g (f x) = h x) -> Forall Q l -> sum_list (map g (map f l)) = sum_list (map h l).
Proof.
  intros A B f g h Q l H HF. induction HF as [|x r Hx _ IH]; [reflexivity|].
  cbn. rewrite (H x Hx). unfold sum_list in IH. rewrite IH. reflexivity.
Qed.

Lemma no_raw_aw : forall m t, no_raw (aw m t) = no_raw t.
Proof. intros m t. unfold aw. destruct (is_async m); reflexivity. Qed.
Lemma gated_aw : forall m t, gated (aw m t) = gated t.
Proof. intros m t. unfold aw. destruct (is_async m); reflexivity. Qed.
Lemma count_gates_aw : forall m t, count_gates (aw m t) = count_gates t.
Proof. intros m t. unfold aw. destruct (is_async m); reflexivity. Qed.

Lemma oall_map : forall (p : texpr -> bool) (f : expr -> texpr) (Q : expr -> Prop) o,
  (forall x, Q x -> p (f x) = true) -> OptP Q o -> oall p (option_map f o) = true.
Proof. intros p f Q [x|] H Ho; cbn; [exact (H x Ho)|reflexivity]. Qed.

Lemma osum_map : forall (g : texpr -> nat) (f : expr -> texpr) (h : expr -> nat) (Q : expr -> Prop) o,
  (forall x, Q x -> g (f x) = h x) -> OptP Q o -> osum g (option_map f o) = osum h o.
Proof. intros g f h Q [x|] H Ho; cbn; [exact (H x Ho)|reflexivity]. Qed.

Definition kwmap (m : mode) (kw : list (string * expr)) : list (string * texpr) :=
  map (fun p => match p with (k, v) => (k, gen m v) end) kw.

Lemma forallb_kw : forall m (p : texpr -> bool) kw,
  Forall (fun q => p (gen m (snd q)) = true) kw -> forallb (fun q => p (snd q)) (kwmap m kw) = true.
Proof.
  intros m p kw HF. unfold kwmap. induction HF as [|[k v] r Hx _ IH]; [reflexivity|].
  cbn [map forallb snd] in *. rewrite Hx, IH. reflexivity.
Qed.

Lemma sum_kw : forall m (g : texpr -> nat) (h : expr -> nat) kw,
  Forall (fun q => g (gen m (snd q)) = h (snd q)) kw ->
  sum_list (map (fun q => g (snd q)) (kwmap m kw)) = sum_list (map (fun q => h (snd q)) kw).
Proof.
  intros m g h kw HF. unfold kwmap. induction HF as [|[k v] r Hx _ IH]; [reflexivity|].
  cbn [map snd] in *. unfold sum_list in *. cbn [fold_right]. rewrite Hx, IH. reflexivity.
Qed.

(* ---- C17: the generator emits no raw attribute access / subscript / direct call *)
Lemma gen_no_raw : forall m e, no_raw (gen m e) = true.
Proof.
  intros m e. induction e using expr_ind'; cbn [gen].
  - reflexivity.
  - reflexivity.
  - rewrite no_raw_aw. cbn. assumption.
  - rewrite no_raw_aw. cbn. rewrite IHe1, IHe2. reflexivity.
  - cbn. rewrite IHe.
    rewrite (oall_map no_raw (gen m) _ lo (fun x Hx => Hx) H), (oall_map no_raw (gen m) _ hi (fun x Hx => Hx) H0),
            (oall_map no_raw (gen m) _ st (fun x Hx => Hx) H1). reflexivity.
  - rewrite no_raw_aw.
    assert (Ha : forallb no_raw (map (gen m) args) = true) by (eapply forallb_map_Forall; [|exact H]; auto).
    assert (Hk : forallb (fun q => no_raw (snd q)) (kwmap m kw) = true) by (apply forallb_kw; exact H0).
    assert (Hd : oall no_raw (option_map (gen m) dyn) = true) by (eapply oall_map; [|exact H1]; auto).
    assert (Hd2 : oall no_raw (option_map (gen m) dynkw) = true) by (eapply oall_map; [|exact H2]; auto).
    unfold kwmap in Hk. destruct (sandboxed m); cbn; rewrite IHe, Ha, Hk, Hd, Hd2; reflexivity.
  - rewrite no_raw_aw. cbn.
    assert (Ha : forallb no_raw (map (gen m) args) = true) by (eapply forallb_map_Forall; [|exact H]; auto).
    assert (Hk : forallb (fun q => no_raw (snd q)) (kwmap m kw) = true) by (apply forallb_kw; exact H0).
    unfold kwmap in Hk. rewrite IHe, Ha, Hk. reflexivity.
  - rewrite no_raw_aw. cbn.
    assert (Ha : forallb no_raw (map (gen m) args) = true) by (eapply forallb_map_Forall; [|exact H]; auto).
    rewrite IHe, Ha. reflexivity.
  - cbn. eapply forallb_map_Forall; [|exact H]. auto.
Qed.

(* ---- C18: in sandboxed mode every Call node becomes an environment.call gate *)
Lemma gen_gated : forall m e, sandboxed m = true -> gated (gen m e) = true.
Proof.
  intros m e Hs. induction e using expr_ind'; cbn [gen].
  - reflexivity.
  - reflexivity.
  - rewrite gated_aw. cbn. assumption.
  - rewrite gated_aw. cbn. rewrite IHe1, IHe2. reflexivity.
  - cbn. rewrite IHe.
    rewrite (oall_map gated (gen m) _ lo (fun x Hx => Hx) H), (oall_map gated (gen m) _ hi (fun x Hx => Hx) H0),
            (oall_map gated (gen m) _ st (fun x Hx => Hx) H1). reflexivity.
  - rewrite gated_aw, Hs.
    assert (Ha : forallb gated (map (gen m) args) = true) by (eapply forallb_map_Forall; [|exact H]; auto).
    assert (Hk : forallb (fun q => gated (snd q)) (kwmap m kw) = true) by (apply forallb_kw; exact H0).
    assert (Hd : oall gated (option_map (gen m) dyn) = true) by (eapply oall_map; [|exact H1]; auto).
    assert (Hd2 : oall gated (option_map (gen m) dynkw) = true) by (eapply oall_map; [|exact H2]; auto).
    unfold kwmap in Hk. cbn. rewrite IHe, Ha, Hk, Hd, Hd2. reflexivity.
  - rewrite gated_aw. cbn.
    assert (Ha : forallb gated (map (gen m) args) = true) by (eapply forallb_map_Forall; [|exact H]; auto).
    assert (Hk : forallb (fun q => gated (snd q)) (kwmap m kw) = true) by (apply forallb_kw; exact H0).
    unfold kwmap in Hk. rewrite IHe, Ha, Hk. reflexivity.
  - rewrite gated_aw. cbn.
    assert (Ha : forallb gated (map (gen m) args) = true) by (eapply forallb_map_Forall; [|exact H]; auto).
    rewrite IHe, Ha. reflexivity.
  - cbn. eapply forallb_map_Forall; [|exact H]. auto.
Qed.

(* ... and no Call node is dropped or duplicated: gates are in bijection with Call nodes *)
Lemma gen_count : forall m e, sandboxed m = true -> count_gates (gen m e) = count_calls e.
Proof.
  intros m e Hs. induction e using expr_ind'; cbn [gen].
  - reflexivity.
  - reflexivity.
  - rewrite count_gates_aw. cbn. assumption.
  - rewrite count_gates_aw. cbn. rewrite IHe1, IHe2. reflexivity.
  - cbn. rewrite IHe.
    rewrite (osum_map count_gates (gen m) count_calls _ lo (fun x Hx => Hx) H),
            (osum_map count_gates (gen m) count_calls _ hi (fun x Hx => Hx) H0),
            (osum_map count_gates (gen m) count_calls _ st (fun x Hx => Hx) H1). reflexivity.
  - rewrite count_gates_aw, Hs.
    assert (Ha : sum_list (map count_gates (map (gen m) args)) = sum_list (map count_calls args))
      by (eapply sum_map_Forall; [|exact H]; auto).
    assert (Hk : sum_list (map (fun q => count_gates (snd q)) (kwmap m kw)) = sum_list (map (fun q => count_calls (snd q)) kw))
      by (apply sum_kw; exact H0).
    assert (Hd : osum count_gates (option_map (gen m) dyn) = osum count_calls dyn) by (eapply osum_map; [|exact H1]; auto).
    assert (Hd2 : osum count_gates (option_map (gen m) dynkw) = osum count_calls dynkw) by (eapply osum_map; [|exact H2]; auto).
    unfold kwmap in Hk. cbn. rewrite IHe, Ha, Hk, Hd, Hd2. reflexivity.
  - rewrite count_gates_aw. cbn.
    assert (Ha : sum_list (map count_gates (map (gen m) args)) = sum_list (map count_calls args))
      by (eapply sum_map_Forall; [|exact H]; auto).
    assert (Hk : sum_list (map (fun q => count_gates (snd q)) (kwmap m kw)) = sum_list (map (fun q => count_calls (snd q)) kw))
      by (apply sum_kw; exact H0).
    unfold kwmap in Hk. rewrite IHe, Ha, Hk. reflexivity.
  - rewrite count_gates_aw. cbn.
    assert (Ha : sum_list (map count_gates (map (gen m) args)) = sum_list (map count_calls args))
      by (eapply sum_map_Forall; [|exact H]; auto).
    rewrite IHe, Ha. reflexivity.
  - cbn. eapply sum_map_Forall; [|exact H]. auto.
Qed.

(* ---- templates: every expression position of every statement *)
Lemma gen_template_no_raw : forall m body, Forall (fun t => no_raw t = true) (gen_template m body).
Proof.
  intros m body. unfold gen_template. apply Forall_forall. intros t Hin.
  apply in_map_iff in Hin as [e [<- _]]. apply gen_no_raw.
Qed.

Lemma gen_template_gated : forall m body, sandboxed m = true ->
  Forall (fun t => gated t = true) (gen_template m body).
Proof.
  intros m body Hs. unfold gen_template. apply Forall_forall. intros t Hin.
  apply in_map_iff in Hin as [e [<- _]]. apply gen_gated; assumption.
Qed.

Lemma gen_template_count : forall m body, sandboxed m = true ->
  sum_list (map count_gates (gen_template m body)) = sum_list (map count_calls (template_exprs body)).
Proof.
  intros m body Hs. unfold gen_template. induction (template_exprs body) as [|e r IH]; [reflexivity|].
  cbn. rewrite (gen_count m e Hs). unfold sum_list in IH. rewrite IH. reflexivity.
Qed.
