(* The skeleton induction (C12 / C13): for a configuration whose delimiters satisfy a bundle of
   local facts ([skel_cfg]), the lexer model's data output on the template text of ANY well-formed
   skeleton equals spec_trim.  Big-step relation [Lex] over [run], compositional lemma for
   text ++ tag ++ rest with delimiter-free text, induction over the segments threading
   line_starting. *)
From Coq Require Import List NArith Bool Arith Lia.
Import ListNotations.
From JV Require Import Model.LexBase Model.LexTokeniter Spec.LexPlainSpec Spec.LexTrimSpec
  Proofs.LexInv Proofs.LexPlain Proofs.LexTotal Proofs.LexTrim Proofs.LexSkelA.
Open Scope N_scope.

(* ------------------------------------------------------------------ fuel monotonicity *)
Lemma run_mono_S : forall c rules f st bal line pos prev ls s its e,
  run c rules f st bal line pos prev ls s = (its, e) -> e <> EFuel ->
  run c rules (S f) st bal line pos prev ls s = (its, e).
Proof.
  intros c rules f. induction f as [|f IH]; intros st bal line pos prev ls s its e H He.
  - cbn [run] in H. injection H as _ <-. contradiction.
  - cbn [run] in H. change (run c rules (S (S f)) st bal line pos prev ls s) with
      (match step c rules st bal line pos prev ls s with
       | SEnd e0 => ([], e0)
       | SGo its0 n st' bal' line' =>
           let m := firstn n s in
           let prev' := match last_opt m with Some x => Some x | None => prev end in
           let ls' := match last_opt m with Some x => x =? 10 | None => false end in
           let '(rest, e1) := run c rules (S f) st' bal' line' (pos + N.of_nat (length m)) prev' ls' (skipn n s) in
           (its0 ++ rest, e1)
       end).
    destruct (step c rules st bal line pos prev ls s) as [e0|its0 n st' bal' line']; [exact H|].
    cbv zeta in *.
    destruct (run c rules f st' bal' line' _ _ _ (skipn n s)) as [rest e1] eqn:Er.
    injection H as <- <-. rewrite (IH _ _ _ _ _ _ _ _ _ Er He). reflexivity.
Qed.

Lemma run_mono : forall c rules f f' st bal line pos prev ls s its e,
  (f <= f')%nat -> run c rules f st bal line pos prev ls s = (its, e) -> e <> EFuel ->
  run c rules f' st bal line pos prev ls s = (its, e).
Proof.
  intros c rules f f' st bal line pos prev ls s its e Hle H He.
  induction Hle as [|f' Hle IH]; [exact H|]. apply run_mono_S; assumption.
Qed.

(* ------------------------------------------------------------------ big-step relation *)
Definition prevof (prev : option N) (m : str) : option N :=
  match last_opt m with Some x => Some x | None => prev end.

(* from state st (empty balancing stack) the rest s is tokenised to the end and outputs d *)
Definition Lex (c : cfg) (st : lstate) (prev : option N) (ls : bool) (s d : str) : Prop :=
  forall line pos, exists f its,
    run c (compile_rules c) f st [] line pos prev ls s = (its, EOk) /\ data_of [10] its = d.

Lemma data_of_app : forall seq a b, data_of seq (a ++ b) = data_of seq a ++ data_of seq b.
Proof.
  intros seq a b. induction a as [|i a IH]; [reflexivity|].
  destruct i as [ln ty v p|g w]; cbn [app data_of]; [|exact IH].
  destruct ty; try exact IH. rewrite IH, app_assoc. reflexivity.
Qed.

Lemma Lex_step : forall c st prev ls s n st' d0 d1,
  (forall line pos, exists its0 line',
     step c (compile_rules c) st [] line pos prev ls s = SGo its0 n st' [] line' /\ data_of [10] its0 = d0) ->
  Lex c st' (prevof prev (firstn n s)) (lsof (firstn n s)) (skipn n s) d1 ->
  Lex c st prev ls s (d0 ++ d1).
Proof.
  intros c st prev ls s n st' d0 d1 H1 H2 line pos.
  destruct (H1 line pos) as (its0 & line' & Hs & Hd).
  destruct (H2 line' (pos + N.of_nat (length (firstn n s)))) as (f & its & Hr & Hd2).
  exists (S f), (its0 ++ its). cbn [run]. rewrite Hs. cbv zeta.
  unfold prevof, lsof in Hr. rewrite Hr. split; [reflexivity|].
  rewrite data_of_app, Hd, Hd2. reflexivity.
Qed.

Lemma Lex_end : forall c st prev ls s,
  (forall line pos, step c (compile_rules c) st [] line pos prev ls s = SEnd EOk) -> Lex c st prev ls s [].
Proof. intros c st prev ls s H line pos. exists 1%nat, []. cbn [run]. rewrite H. split; reflexivity. Qed.

(* ------------------------------------------------------------------ small list facts *)
Lemma firstn_app_len : forall (a b : str), firstn (length a) (a ++ b) = a.
Proof. intros a b. rewrite firstn_app, firstn_all, Nat.sub_diag. cbn [firstn]. apply app_nil_r. Qed.

Lemma skipn_add_app : forall (a : str) (n : nat) (b : str), skipn (length a + n) (a ++ b) = skipn n b.
Proof. intros a n b. rewrite skipn_add, skipn_app_len. reflexivity. Qed.

Lemma firstn_add_app : forall (a : str) (n : nat) (b : str), firstn (length a + n) (a ++ b) = a ++ firstn n b.
Proof. intros. apply firstn_app_r. Qed.

Lemma lsof_app : forall a b, b <> [] -> lsof (a ++ b) = lsof b.
Proof.
  intros a b Hb. unfold lsof. rewrite last_opt_app. destruct (last_opt b) eqn:E; [reflexivity|].
  apply last_opt_none in E. contradiction.
Qed.

Lemma lsof_app_nil : forall a, lsof (a ++ []) = lsof a.
Proof. intros a. rewrite app_nil_r. reflexivity. Qed.

Definition sign_of (m : md) : sign := match m with MNone => SgNone | MMinus => SgMinus | MPlus => SgPlus end.
Lemma md_of_sign_of : forall m, md_of (sign_of m) = m.
Proof. destruct m; reflexivity. Qed.

Lemma left_rule_nil : forall lstrip R ls, left_rule lstrip R ls [] = [].
Proof. intros lstrip [|al []] ls; try reflexivity; destruct al; try reflexivity; destruct lstrip; reflexivity. Qed.

Lemma forallb_right_rule : forall (p : N -> bool) trim L s, forallb p s = true -> forallb p (right_rule trim L s) = true.
Proof.
  intros p trim L s H. destruct L as [|at_ rm]; [exact H|]. destruct rm; cbn [right_rule].
  - destruct at_; [|exact H]. destruct trim; [|exact H]. destruct s as [|x r]; [exact H|]. cbn [drop_one_nl].
    destruct (x =? 10); [|exact H]. cbn [forallb] in H. apply andb_true_iff in H as [_ H]. exact H.
  - assert (G : forallb p (drop_ws s) = true) by (rewrite drop_ws_skipn; apply forallb_skipn; exact H).
    destruct at_; exact G.
  - destruct at_; exact H.
Qed.

(* data of the tokens of an OptionalLStrip rule = the documented left rule on the text *)
Lemma emit_data : forall c sg var ls line pos text tag ty its line',
  emit_text_tag c sg var ls line pos text tag ty = (its, line') -> ty <> TData ->
  data_of [10] its = left_rule (c_lstrip c) (RTag (negb var) (md_of sg)) ls text.
Proof.
  intros c sg var ls line pos text tag ty its line' H Hty. unfold emit_text_tag in H.
  destruct (strip_text c sg var ls text) as [[k why] nls] eqn:Es.
  apply strip_text_left_rule in Es. injection H as <- _. rewrite <- Es.
  rewrite !data_of_app. unfold tok_nonempty, gap_nonempty.
  assert (Hg : data_of [10] (if nonempty (skipn k text) then [IGap (skipn k text) why] else []) = [])
    by (destruct (nonempty _); reflexivity).
  assert (Ht : data_of [10] [ITok (line + count_nl (firstn k text) + nls) ty tag (pos + N.of_nat (length text))] = [])
    by (destruct ty; try reflexivity; contradiction).
  rewrite Hg, Ht, !app_nil_r. destruct (firstn k text) as [|x r] eqn:Ek; [reflexivity|].
  cbn [nonempty data_of]. rewrite app_nil_r. apply nl_subst_id.
Qed.

(* ------------------------------------------------------------------ end-of-tag match *)
(* an end string may start with '-' when it cannot be mistaken for "'-' followed by itself":
   it differs from its own tail somewhere inside the tail (e.g. "-->": "-->" vs "->") *)
Fixpoint mismatch_within (e b : str) : bool :=
  match b, e with
  | y :: b', x :: e' => negb (x =? y) || mismatch_within e' b'
  | _, _ => false
  end.

Definition end_head_ok (e : str) : bool :=
  match e with
  | x :: e' => negb (x =? 43) && (negb (x =? 45) || mismatch_within e e')
  | [] => false
  end.

Lemma prefixb_mismatch : forall b e Y, mismatch_within e b = true -> prefixb e (b ++ Y) = false.
Proof.
  induction b as [|y b IH]; intros e Y H; [destruct e; discriminate|].
  destruct e as [|x e']; [discriminate|]. cbn [mismatch_within] in H. cbn [app prefixb].
  destruct (x =? y) eqn:E; [|reflexivity]. cbn [negb orb andb] in *. apply IH. exact H.
Qed.

Lemma head_not_sign_end_head_ok : forall e, head_not_sign e = true -> end_head_ok e = true.
Proof.
  intros [|x e] H; [discriminate|]. cbn [head_not_sign end_head_ok] in *.
  apply andb_true_iff in H as [H1 H2]. rewrite H1, H2. reflexivity.
Qed.

Definition endstr_ok (e : str) : bool := end_head_ok e && negb (lsof e).

Lemma endstr_nonempty : forall e, endstr_ok e = true -> e <> [].
Proof. intros [|x e] H; [discriminate|discriminate]. Qed.

Lemma lsof_pre_end : forall X e eaten, endstr_ok e = true ->
  lsof (X ++ e ++ eaten) = if nonempty eaten then lsof eaten else false.
Proof.
  intros X e eaten He. destruct eaten as [|y r].
  - rewrite app_nil_r. cbn [nonempty]. rewrite lsof_app by (apply endstr_nonempty; exact He).
    unfold endstr_ok in He. apply andb_true_iff in He as [_ He]. apply negb_true_iff in He. exact He.
  - cbn [nonempty]. rewrite app_assoc. apply lsof_app. discriminate.
Qed.

Lemma end_alts_plain : forall po tr E Y, end_head_ok E = true ->
  end_alts po tr E (E ++ Y) = Some (length E + (if tr then nl_head Y else 0))%nat.
Proof.
  intros po tr E Y H. destruct E as [|x e]; [discriminate|]. cbn [end_head_ok] in H.
  apply andb_true_iff in H as [H43 H45]. apply negb_true_iff in H43.
  change ((x :: e) ++ Y) with (x :: (e ++ Y)). unfold end_alts. rewrite H43, andb_false_r. cbn [andb].
  assert (H2 : (x =? 45) && prefixb (x :: e) (e ++ Y) = false).
  { destruct (x =? 45); [|reflexivity]. cbn [negb orb andb] in *. apply prefixb_mismatch. exact H45. }
  rewrite H2. change (x :: e ++ Y) with ((x :: e) ++ Y). rewrite prefixb_app, skipn_app_len. reflexivity.
Qed.

Lemma end_alts_minus : forall po tr E Y,
  end_alts po tr E (45 :: E ++ Y) = Some (S (length E + span is_space Y)).
Proof.
  intros po tr E Y. unfold end_alts. change (45 =? 43) with false. rewrite andb_false_r. cbn [andb].
  rewrite N.eqb_refl, prefixb_app, skipn_app_len. reflexivity.
Qed.

Lemma end_alts_plus : forall tr E Y, end_alts true tr E (43 :: E ++ Y) = Some (S (length E)).
Proof. intros tr E Y. unfold end_alts. cbn [andb]. rewrite N.eqb_refl, prefixb_app. reflexivity. Qed.

(* block / comment / endraw end:  (?:\+E|\-E\s*|E\n?) *)
Lemma end_match : forall trim e m Y, endstr_ok e = true ->
  exists n, end_alts true trim e (md_str m ++ e ++ Y) = Some n /\
    skipn n (md_str m ++ e ++ Y) = right_rule trim (LTag true m) Y /\
    (forall X, lsof (X ++ firstn n (md_str m ++ e ++ Y)) = ls_ctx trim (LTag true m) Y).
Proof.
  intros trim e m Y He. pose proof He as He0. unfold endstr_ok in He. apply andb_true_iff in He as [Hh _].
  destruct m; cbn [md_str app].
  - eexists. split; [apply end_alts_plain; exact Hh|]. rewrite skipn_add_app, firstn_add_app. split.
    + cbn [right_rule]. destruct trim; [|reflexivity]. unfold nl_head, drop_one_nl.
      destruct Y as [|y r]; [reflexivity|]. destruct (y =? 10); reflexivity.
    + intros X. rewrite lsof_pre_end by exact He0. cbn [ls_ctx]. destruct trim; cbn [andb]; [|reflexivity].
      destruct Y as [|y r]; [reflexivity|]. cbn [nl_head nl_headb]. destruct (y =? 10) eqn:E; cbn [firstn nonempty]; [|reflexivity].
      unfold lsof. cbn [last_opt]. exact E.
  - eexists. split; [apply end_alts_minus|].
    change (45 :: e ++ Y) with ([45] ++ e ++ Y).
    change (S (length e + span is_space Y)) with (length [45%N] + (length e + span is_space Y))%nat.
    rewrite !skipn_add_app, !firstn_add_app. split; [cbn [right_rule]; apply skipn_span_ws|].
    intros X. rewrite app_assoc, lsof_pre_end by exact He0. cbn [ls_ctx].
    destruct (firstn (span is_space Y) Y) eqn:Ef; reflexivity.
  - eexists. split; [apply end_alts_plus|].
    change (43 :: e ++ Y) with ([43] ++ e ++ Y).
    replace (S (length e)) with (length [43%N] + (length e + 0))%nat by (cbn [length]; lia).
    rewrite !skipn_add_app, !firstn_add_app. cbn [skipn firstn]. split; [reflexivity|].
    intros X. rewrite app_assoc, lsof_pre_end by exact He0. reflexivity.
Qed.

(* variable / raw-begin end:  (?:\-E\s*|E) *)
Lemma end_match_var : forall e m Y, endstr_ok e = true -> m <> MPlus ->
  exists n, end_alts false false e (md_str m ++ e ++ Y) = Some n /\
    skipn n (md_str m ++ e ++ Y) = right_rule false (LTag false m) Y /\
    firstn n (md_str m ++ e ++ Y) = md_str m ++ e ++ (match m with MMinus => firstn (span is_space Y) Y | _ => [] end) /\
    (forall X, lsof (X ++ firstn n (md_str m ++ e ++ Y)) = ls_ctx false (LTag false m) Y).
Proof.
  intros e m Y He Hm. pose proof He as He0. unfold endstr_ok in He. apply andb_true_iff in He as [Hh _].
  destruct m; [| |contradiction]; cbn [md_str app].
  - eexists. split; [apply end_alts_plain; exact Hh|]. rewrite skipn_add_app, firstn_add_app. cbn [skipn firstn right_rule].
    split; [reflexivity|]. split; [reflexivity|]. intros X. rewrite lsof_pre_end by exact He0. reflexivity.
  - eexists. split; [apply end_alts_minus|].
    change (45 :: e ++ Y) with ([45] ++ e ++ Y).
    change (S (length e + span is_space Y)) with (length [45%N] + (length e + span is_space Y))%nat.
    rewrite !skipn_add_app, !firstn_add_app. cbn [right_rule].
    split; [apply skipn_span_ws|]. split; [reflexivity|]. intros X.
    rewrite app_assoc, lsof_pre_end by exact He0. cbn [ls_ctx].
    destruct (firstn (span is_space Y) Y) eqn:Ef; reflexivity.
Qed.
