From Coq Require Import List NArith Bool Arith Lia.
Import ListNotations.
From JV Require Import Model.Stream Proofs.StreamProofs.

Lemma next_chunk_go_spec size : forall ps buf c,
  buffered_go size buf c ps =
  match next_chunk_go size buf c ps with None => [] | Some (ch, r) => ch :: buffered_go size [] 0 r end.
Proof.
  induction ps as [|x r IH]; intros buf c; cbn [buffered_go next_chunk_go].
  - destruct (Nat.eqb c 0); reflexivity.
  - destruct (Nat.ltb (if nonempty x then S c else c) size); [apply IH|reflexivity].
Qed.

Lemma next_chunk_spec size ps :
  buffered_go size [] 0 ps = match next_chunk size ps with None => [] | Some (ch, r) => ch :: buffered_go size [] 0 r end.
Proof. exact (next_chunk_go_spec size ps [] 0). Qed.

Lemma next_chunk_go_shorter size : forall ps buf c ch r, next_chunk_go size buf c ps = Some (ch, r) -> length r <= length ps.
Proof.
  induction ps as [|x q IH]; intros buf c ch r H; cbn [next_chunk_go] in H.
  - destruct (Nat.eqb c 0); [discriminate|]. injection H as _ <-. cbn. lia.
  - destruct (Nat.ltb (if nonempty x then S c else c) size).
    + specialize (IH _ _ _ _ H). cbn [length]. lia.
    + injection H as _ <-. cbn [length]. lia.
Qed.
Lemma next_chunk_shorter size ps ch r : next_chunk size ps = Some (ch, r) -> ps <> [] -> length r < length ps.
Proof.
  unfold next_chunk. destruct ps as [|x q]; [congruence|]. intros H _. cbn [next_chunk_go] in H.
  destruct (Nat.ltb (if nonempty x then 1 else 0) size).
  - apply next_chunk_go_shorter in H. cbn [length]. lia.
  - injection H as _ <-. cbn [length]. lia.
Qed.

(* the text of a chunk plus the text left is the text there was *)
Lemma next_chunk_text size ps :
  match next_chunk size ps with
  | None => concat ps = []
  | Some (ch, r) => ch ++ concat r = concat ps
  end.
Proof.
  pose proof (buffered_concat_gen size ps) as H. rewrite next_chunk_spec in H.
  destruct (next_chunk size ps) as [[ch r]|]; cbn [concat] in H.
  - rewrite (buffered_concat_gen size r) in H. exact H.
  - symmetry. exact H.
Qed.

Lemma sstep_text st o : out_text (snd (sstep st o)) ++ concat (rest (fst (sstep st o))) = concat (rest st).
Proof.
  destruct st as [md rs]. destruct o as [n| |]; cbn [sstep mode rest].
  - destruct (Nat.leb n 1); reflexivity.
  - reflexivity.
  - destruct md as [n|].
    + pose proof (next_chunk_text n rs) as H. destruct (next_chunk n rs) as [[ch r]|]; cbn; [exact H|now rewrite H].
    + destruct rs as [|p r]; reflexivity.
Qed.

(* no history of mode switches and next() calls loses or duplicates text *)
Theorem srun_lossless : forall ops st,
  concat (map out_text (snd (srun st ops))) ++ concat (rest (fst (srun st ops))) = concat (rest st).
Proof.
  induction ops as [|o r IH]; intros st; cbn [srun].
  - reflexivity.
  - pose proof (sstep_text st o) as Hs. destruct (sstep st o) as [st1 x]. cbn [fst snd] in Hs.
    specialize (IH st1). destruct (srun st1 r) as [st2 xs]. cbn [fst snd map concat] in *.
    rewrite <- Hs, <- IH, app_assoc. reflexivity.
Qed.

Lemma sdrain_text st : concat (sdrain st) = concat (rest st).
Proof. unfold sdrain. destruct (mode st); [apply buffered_concat_gen|reflexivity]. Qed.

(* everything the stream ever yields, over any history, followed by iterating it to the end *)
Theorem history_text : forall ops pieces,
  let '(st, outs) := srun {| mode := None; rest := pieces |} ops in
  concat (map out_text outs) ++ concat (sdrain st) = render pieces.
Proof.
  intros ops pieces. pose proof (srun_lossless ops {| mode := None; rest := pieces |}) as H.
  destruct (srun _ ops) as [st outs]. cbn [fst snd] in H. rewrite sdrain_text. exact H.
Qed.

(* next() calls in buffered mode yield exactly the chunks of the buffered generator over what was left
   when buffering was (last) enabled *)
Fixpoint nexts (k : nat) (st : sstate) : list str :=
  match k with
  | 0 => []
  | S k' => match sstep st ONext with
            | (st1, SChunk c) => c :: nexts k' st1
            | _ => []
            end
  end.

Theorem nexts_buffered n : forall m ps k, length ps <= m -> m < k ->
  nexts k {| mode := Some n; rest := ps |} = buffered_go n [] 0 ps.
Proof.
  induction m as [|m IH]; intros ps k Hm Hk; (destruct k as [|k]; [lia|]); cbn [nexts sstep mode rest]; rewrite next_chunk_spec.
  - destruct ps; [|cbn in Hm; lia]. reflexivity.
  - destruct (next_chunk n ps) as [[ch r]|] eqn:E; [|reflexivity].
    destruct ps as [|p q]; [discriminate|].
    pose proof (next_chunk_shorter n (p :: q) ch r E ltac:(discriminate)) as Hl.
    rewrite (IH r k); [reflexivity|cbn [length] in *; lia|lia].
Qed.
