(* C35 -- the debug_info pairs written by the generator's line bookkeeping map every code
   line back to the template line of the node whose statement starts there. *)
From Coq Require Import List NArith Bool Lia ZifyN ZifyBool.
Import ListNotations.
From JV Require Import Model.Dbg.
Open Scope N_scope.

Definition Inv (s : st) : Prop :=
  Forall (fun p => snd p <= code_line s) (dbg s) /\
  match wdi s with
  | Some l => last_line s = l
  | None => (last_line s = 0 /\ dbg s = []) \/ exists c r, dbg s = (last_line s, c) :: r
  end.

Lemma inv_init : Inv init.
Proof. split; [constructor|]. left. split; reflexivity. Qed.

Lemma forall_le_mono : forall (d : list (N * N)) a b, a <= b ->
  Forall (fun p => snd p <= a) d -> Forall (fun p => snd p <= b) d.
Proof. intros d a b Hab H. eapply Forall_impl; [|exact H]. cbv beta. intros p Hp. lia. Qed.

Lemma step_inv : forall s e, Inv s -> Inv (step s e).
Proof.
  intros s e [HA HB]. destruct e as [|node extra]; unfold step.
  - destruct (new_lines s =? 0) eqn:En; [split; assumption|].
    destruct (first s); [split; assumption|].
    destruct (wdi s) as [l|] eqn:Ew; split; cbn [dbg code_line wdi last_line].
    + constructor; [cbn; lia|]. apply (forall_le_mono _ (code_line s)); [lia|exact HA].
    + right. rewrite HB. eauto.
    + apply (forall_le_mono _ (code_line s)); [lia|exact HA].
    + exact HB.
  - destruct node as [l|]; [|split; assumption].
    destruct (l =? last_line s) eqn:El; [split; assumption|].
    split; cbn [dbg code_line wdi last_line]; [exact HA|reflexivity].
Qed.

Lemma run_inv : forall evs s, Inv s -> Inv (run s evs).
Proof. induction evs as [|e evs IH]; intros s H; [exact H|]. cbn [run fold_left]. apply IH, step_inv, H. Qed.

(* later events only add pairs with larger code lines *)
Lemma step_ext : forall s e, code_line s <= code_line (step s e) /\
  exists new, dbg (step s e) = new ++ dbg s /\ Forall (fun p => code_line s < snd p) new.
Proof.
  intros s e. destruct e as [|node extra]; unfold step.
  - destruct (new_lines s =? 0) eqn:En; [split; [lia|exists []; split; [reflexivity|constructor]]|].
    apply N.eqb_neq in En.
    destruct (first s); [split; [cbn; lia|exists []; split; [reflexivity|constructor]]|].
    destruct (wdi s) as [l|]; cbn [dbg code_line]; (split; [lia|]).
    + exists [(l, code_line s + new_lines s)]. split; [reflexivity|]. constructor; [cbn; lia|constructor].
    + exists []. split; [reflexivity|constructor].
  - destruct node as [l|]; [destruct (l =? last_line s)|]; cbn [dbg code_line];
      (split; [lia|exists []; split; [reflexivity|constructor]]).
Qed.

Lemma run_ext : forall evs s, code_line s <= code_line (run s evs) /\
  exists new, dbg (run s evs) = new ++ dbg s /\ Forall (fun p => code_line s < snd p) new.
Proof.
  induction evs as [|e evs IH]; intro s.
  - split; [cbn; lia|]. exists []. split; [reflexivity|constructor].
  - cbn [run fold_left]. destruct (step_ext s e) as (H1 & n1 & E1 & F1).
    destruct (IH (step s e)) as (H2 & n2 & E2 & F2). split; [unfold run in *; lia|].
    exists (n2 ++ n1). unfold run in *. rewrite E2, E1, app_assoc. split; [reflexivity|].
    apply Forall_app. split; [|exact F1].
    eapply Forall_impl; [|exact F2]. cbv beta. intros p Hp. lia.
Qed.

Lemma corresponding_skip : forall new d c, Forall (fun p => c < snd p) new ->
  corresponding (new ++ d) c = corresponding d c.
Proof.
  induction new as [|[tl cl] new IH]; intros d c H; [reflexivity|].
  inversion H as [|? ? Hp Hr]; subst. cbn [app corresponding]. cbn in Hp.
  assert ((cl <=? c) = false) as -> by (apply N.leb_gt; lia). exact (IH d c Hr).
Qed.

Lemma last_node_acc : forall evs acc,
  last_node acc evs = match last_node None evs with Some l => Some l | None => acc end.
Proof.
  induction evs as [|e evs IH]; intro acc; [reflexivity|].
  destruct e as [|[l|] extra]; cbn [last_node]; [apply IH| |apply IH].
  rewrite (IH (Some l)). destruct (last_node None evs); reflexivity.
Qed.

Lemma last_line_step_newline : forall s l extra, last_line (step s (ENewline (Some l) extra)) = l.
Proof.
  intros s l extra. unfold step. destruct (l =? last_line s) eqn:E; [|reflexivity].
  apply N.eqb_eq in E. now subst.
Qed.

Lemma last_line_step_write : forall s, last_line (step s EWrite) = last_line s.
Proof.
  intro s. unfold step. destruct (new_lines s =? 0); [reflexivity|]. destruct (first s); [reflexivity|].
  destruct (wdi s); reflexivity.
Qed.

Lemma last_line_run : forall evs s,
  last_line (run s evs) = match last_node None evs with Some l => l | None => last_line s end.
Proof.
  induction evs as [|e evs IH]; intro s; [reflexivity|].
  cbn [run fold_left]. change (fold_left step evs (step s e)) with (run (step s e) evs). rewrite IH.
  destruct e as [|[l|] extra]; cbn [last_node].
  - now rewrite last_line_step_write.
  - rewrite (last_node_acc evs (Some l)), last_line_step_newline. destruct (last_node None evs); reflexivity.
  - reflexivity.
Qed.

Lemma no_node_run : forall evs s, last_node None evs = None -> wdi s = None ->
  wdi (run s evs) = None /\ dbg (run s evs) = dbg s.
Proof.
  induction evs as [|e evs IH]; intros s H Hw; [split; [exact Hw|reflexivity]|].
  cbn [run fold_left]. destruct e as [|[l|] extra]; cbn [last_node] in H.
  - assert (wdi (step s EWrite) = None /\ dbg (step s EWrite) = dbg s) as [W D].
    { unfold step. destruct (new_lines s =? 0); [auto|]. destruct (first s); [auto|]. rewrite Hw. auto. }
    destruct (IH (step s EWrite) H W) as [A B]. unfold run in *. rewrite A, B, D. auto.
  - exfalso. rewrite (last_node_acc evs (Some l)) in H. destruct (last_node None evs); discriminate.
  - destruct (IH (step s (ENewline None extra)) H Hw) as [A B]. unfold run in *. rewrite A, B. auto.
Qed.

(* the statement: a write that starts a new code line (not the very first write), after the
   events evs1, lands on code line c; whatever is generated afterwards, the finished debug_info
   maps c to the line of the most recent node handed to newline (1 if there was none) *)
Lemma debug_info_sound_lemma : forall evs1 evs2,
  let s0 := run init evs1 in
  let s1 := step s0 EWrite in
  new_lines s0 <> 0 -> first s0 = false ->
  corresponding (dbg (run s1 evs2)) (code_line s1) =
    match last_node None evs1 with Some l => if l =? 0 then corresponding (dbg s1) (code_line s1) else l | None => 1 end.
Proof.
  intros evs1 evs2 s0 s1 Hn Hf.
  assert (I1 : Inv s1) by (apply step_inv, run_inv, inv_init).
  destruct (run_ext evs2 s1) as (_ & new & E & F). rewrite E, corresponding_skip by exact F.
  assert (W1 : wdi s1 = None).
  { unfold s1, step. apply N.eqb_neq in Hn. rewrite Hn, Hf. destruct (wdi s0); reflexivity. }
  assert (L1 : last_line s1 = last_line s0).
  { unfold s1, step. destruct (new_lines s0 =? 0); [reflexivity|]. rewrite Hf. destruct (wdi s0); reflexivity. }
  pose proof (last_line_run evs1 init) as LL. fold s0 in LL. cbn [last_line init] in LL.
  destruct I1 as [HA HB]. rewrite W1 in HB.
  destruct (last_node None evs1) as [l|] eqn:Eln.
  - destruct (l =? 0) eqn:E0; [reflexivity|]. apply N.eqb_neq in E0.
    destruct HB as [[Z _]|(c & r & D)]; [rewrite L1, LL in Z; contradiction|].
    rewrite D in HA. apply Forall_inv in HA. cbn [snd] in HA. rewrite D. cbn [corresponding].
    assert ((c <=? code_line s1) = true) as -> by (apply N.leb_le; exact HA). now rewrite L1, LL.
  - destruct (no_node_run evs1 init Eln eq_refl) as [Wn Dn]. fold s0 in Wn, Dn.
    assert (dbg s1 = []) as ->; [|reflexivity].
    unfold s1, step. destruct (new_lines s0 =? 0); [exact Dn|]. rewrite Hf, Wn. exact Dn.
Qed.

(* ---- token lines *)
Lemma count_nl_app : forall a b, count_nl (a ++ b) = count_nl a + count_nl b.
Proof. intros a b. unfold count_nl. rewrite filter_app, app_length. lia. Qed.

Lemma token_lines_nth : forall toks line k t, nth_error toks k = Some t ->
  nth_error (token_lines line toks) k = Some (line + count_nl (concat (firstn k toks))).
Proof.
  induction toks as [|t0 toks IH]; intros line k t H; [destruct k; discriminate|].
  destruct k as [|k]; cbn [token_lines nth_error firstn concat].
  - f_equal. unfold count_nl. cbn. lia.
  - cbn [nth_error] in H. rewrite (IH _ _ _ H), count_nl_app. f_equal. lia.
Qed.
