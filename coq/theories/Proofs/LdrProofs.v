(* C28 — lemmas about the loader path model. *)
From Coq Require Import List NArith Bool Lia.
Import ListNotations.
From JV Require Import Model.Ldr Spec.LdrSpec.
Open Scope N_scope.

(* ------------------------------------------------------------------ strings *)
Lemma str_eqb_eq a : forall b, str_eqb a b = true <-> a = b.
Proof.
  induction a as [|x a IH]; intros [|y b]; cbn; split; intro H; try reflexivity; try discriminate.
  - apply andb_true_iff in H as [H1 H2]. apply N.eqb_eq in H1. apply IH in H2. now subst.
  - injection H as -> ->. rewrite N.eqb_refl. cbn. now apply IH.
Qed.
Lemma str_eqb_refl a : str_eqb a a = true.
Proof. now apply str_eqb_eq. Qed.
Lemma str_eqb_neq a b : str_eqb a b = false <-> a <> b.
Proof.
  split.
  - intros H E. apply str_eqb_eq in E. congruence.
  - intros H. destruct (str_eqb a b) eqn:E; [apply str_eqb_eq in E; contradiction|reflexivity].
Qed.

(* ------------------------------------------------------------------ split_on *)
Lemma split_on_nonnil c s : split_on c s <> [].
Proof.
  destruct s as [|x r]; cbn; [discriminate|].
  destruct (x =? c); [discriminate|]. destruct (split_on c r); discriminate.
Qed.

Lemma split_on_app c a : forall b, split_on c (a ++ c :: b) = split_on c a ++ split_on c b.
Proof.
  induction a as [|x a IH]; intros b; cbn.
  - now rewrite N.eqb_refl.
  - destruct (x =? c) eqn:E.
    + now rewrite IH.
    + rewrite IH. destruct (split_on c a) eqn:Ea; [now apply split_on_nonnil in Ea|]. reflexivity.
Qed.

Lemma split_on_none c b : existsb (N.eqb c) b = false -> split_on c b = [b].
Proof.
  induction b as [|x b IH]; cbn; intros H; [reflexivity|].
  apply orb_false_iff in H as [H1 H2]. rewrite N.eqb_sym in H1. rewrite H1, (IH H2). reflexivity.
Qed.

Lemma split_on_pieces c s : forall p, In p (split_on c s) -> existsb (N.eqb c) p = false.
Proof.
  induction s as [|x r IH]; cbn; intros p Hp.
  - destruct Hp as [<-|[]]. reflexivity.
  - destruct (x =? c) eqn:E.
    + destruct Hp as [<-|Hp]; [reflexivity|now apply IH].
    + destruct (split_on c r) as [|h t] eqn:Er; [now apply split_on_nonnil in Er|].
      destruct Hp as [<-|Hp].
      * cbn. rewrite N.eqb_sym, E. cbn. apply IH. now left.
      * apply IH. now right.
Qed.

(* ------------------------------------------------------------------ split_template_path *)
Lemma stp_go_safe cv pieces : forall ps,
  (forall p, In p pieces -> existsb (N.eqb c_slash) p = false) ->
  stp_go cv pieces = Some ps -> Forall (safe cv) ps.
Proof.
  induction pieces as [|p r IH]; cbn; intros ps Hs H.
  - injection H as <-. constructor.
  - destruct (bad_piece cv p) eqn:Eb; [discriminate|].
    destruct (stp_go cv r) as [l|] eqn:Er; [|discriminate].
    assert (Hl : Forall (safe cv) l) by (apply IH; [intros q Hq; apply Hs; now right|reflexivity]).
    destruct (keep_piece p) eqn:Ek; injection H as <-; [|exact Hl].
    constructor; [|exact Hl].
    unfold safe, safe_piece. unfold bad_piece in Eb. apply orb_false_iff in Eb as [E1 E2].
    unfold keep_piece in Ek. apply andb_true_iff in Ek as [E3 E4].
    rewrite E1, E2, E3, E4, (Hs p (or_introl eq_refl)). reflexivity.
Qed.

Lemma split_safe cv name ps : split_template_path cv name = Some ps -> Forall (safe cv) ps.
Proof.
  unfold split_template_path. intros H. apply (stp_go_safe cv (split_on c_slash name) ps); [|exact H].
  intros p Hp. exact (split_on_pieces c_slash name p Hp).
Qed.

Lemma stp_go_none cv pieces : stp_go cv pieces = None <-> exists p, In p pieces /\ bad_piece cv p = true.
Proof.
  induction pieces as [|p r IH]; cbn.
  - split; [discriminate|intros [p [[] _]]].
  - destruct (bad_piece cv p) eqn:Eb.
    + split; [intros _; exists p; split; [now left|exact Eb]|reflexivity].
    + destruct (stp_go cv r) as [l|] eqn:Er.
      * split.
        -- destruct (keep_piece p); discriminate.
        -- intros [q [[<-|Hq] Hb]]; [congruence|].
           assert (X : Some l = None) by (apply IH; exists q; split; assumption). discriminate.
      * split; [|reflexivity]. intros _. destruct (proj1 IH eq_refl) as [q [Hq Hb]].
        exists q. split; [now right|exact Hb].
Qed.

Lemma rejects_iff cv name :
  split_template_path cv name = None <-> exists p, In p (split_on c_slash name) /\ bad_piece cv p = true.
Proof. exact (stp_go_none cv (split_on c_slash name)). Qed.

(* ------------------------------------------------------------------ posixpath.join on safe pieces *)
Lemma safe_parts cv b : safe cv b ->
  existsb (N.eqb c_slash) b = false /\ str_eqb b [] = false /\ str_eqb b s_dot = false /\ str_eqb b s_dotdot = false
  /\ existsb (is_sep cv) b = false.
Proof.
  unfold safe, safe_piece. intros H.
  repeat (apply andb_true_iff in H as [H ?]).
  repeat match goal with X : negb _ = true |- _ => apply negb_true_iff in X end.
  repeat split; assumption.
Qed.

Lemma safe_first cv b : safe cv b -> exists x r, b = x :: r /\ x <> c_slash.
Proof.
  intros H. destruct (safe_parts cv b H) as (H1 & H2 & _).
  destruct b as [|x r]; [discriminate|]. exists x, r. split; [reflexivity|].
  change (existsb (N.eqb c_slash) (x :: r)) with (N.eqb c_slash x || existsb (N.eqb c_slash) r) in H1.
  apply orb_false_iff in H1 as [H1 _]. apply N.eqb_neq in H1. congruence.
Qed.

Lemma safe_starts cv b : safe cv b -> starts_slash b = false.
Proof. intros H. destruct (safe_first cv b H) as (x & r & -> & Hx). cbn. now apply N.eqb_neq. Qed.

Lemma ends_slash_inv s : ends_slash s = true -> exists s', s = s' ++ [c_slash].
Proof.
  unfold ends_slash. intros H. destruct (rev s) as [|x r] eqn:E; [discriminate|].
  apply N.eqb_eq in H. subst x. exists (rev r).
  rewrite <- (rev_involutive s), E. reflexivity.
Qed.

Lemma ends_slash_false s : s <> [] -> ends_slash s = false -> exists s' l, s = s' ++ [l] /\ l <> c_slash.
Proof.
  unfold ends_slash. intros Hs H. destruct (rev s) as [|x r] eqn:E.
  - destruct s; [contradiction|]. apply (f_equal (@length N)) in E. rewrite rev_length in E. discriminate.
  - exists (rev r), x. split; [rewrite <- (rev_involutive s), E; reflexivity|now apply N.eqb_neq].
Qed.

(* the fold state of normpath after reading the components of s *)
Definition cstate (rooted : bool) (s : str) : list str := fold_left (norm_step rooted) (split_on c_slash s) [].

Lemma norm_step_safe cv rooted st b : safe cv b -> norm_step rooted st b = b :: st.
Proof.
  intros H. destruct (safe_parts cv b H) as (_ & H2 & H3 & H4 & _).
  unfold norm_step. now rewrite H2, H3, H4.
Qed.

Lemma join1_cases cv s b : safe cv b ->
  (s = [] /\ join1 s b = b) \/
  (exists s', s = s' ++ [c_slash] /\ join1 s b = s' ++ c_slash :: b) \/
  (s <> [] /\ ends_slash s = false /\ join1 s b = s ++ c_slash :: b).
Proof.
  intros H. unfold join1. rewrite (safe_starts cv b H).
  destruct s as [|x s0]; [left; split; reflexivity|].
  right. cbn [str_eqb orb]. destruct (ends_slash (x :: s0)) eqn:E.
  - left. destruct (ends_slash_inv _ E) as [s' Hs']. exists s'. split; [exact Hs'|].
    rewrite Hs', <- app_assoc. reflexivity.
  - right. split; [discriminate|]. split; reflexivity.
Qed.

Lemma join1_state cv rooted s b : safe cv b -> cstate rooted (join1 s b) = b :: cstate rooted s.
Proof.
  intros H. destruct (safe_parts cv b H) as (H1 & _).
  destruct (join1_cases cv s b H) as [[-> ->]|[[s' [-> ->]]|[_ [_ ->]]]]; unfold cstate.
  - rewrite (split_on_none _ _ H1). cbn. exact (norm_step_safe cv rooted [] b H).
  - rewrite !split_on_app, (split_on_none _ _ H1), !fold_left_app. cbn.
    exact (norm_step_safe cv rooted _ b H).
  - rewrite split_on_app, (split_on_none _ _ H1), fold_left_app. cbn.
    exact (norm_step_safe cv rooted _ b H).
Qed.

Lemma initial_slashes_mid s x0 t : x0 <> c_slash -> initial_slashes (s ++ x0 :: t) = initial_slashes s.
Proof.
  intros Hx. apply N.eqb_neq in Hx.
  destruct s as [|a [|b [|c r]]]; cbn; try rewrite Hx; try reflexivity;
    destruct (a =? c_slash); try reflexivity; destruct (b =? c_slash); reflexivity.
Qed.

Lemma join1_slashes cv s b : safe cv b -> initial_slashes (join1 s b) = initial_slashes s.
Proof.
  intros H. destruct (safe_first cv b H) as (x & r & Hb & Hx).
  destruct (join1_cases cv s b H) as [[-> ->]|[[s' [-> ->]]|[Hs [He ->]]]].
  - subst b. cbn. apply N.eqb_neq in Hx. now rewrite Hx.
  - subst b. replace (s' ++ c_slash :: x :: r) with ((s' ++ [c_slash]) ++ x :: r) by now rewrite <- app_assoc.
    now apply initial_slashes_mid.
  - destruct (ends_slash_false s Hs He) as (s' & l & -> & Hl).
    rewrite <- app_assoc. cbn. rewrite initial_slashes_mid by exact Hl.
    symmetry. now apply initial_slashes_mid.
Qed.

Lemma posix_join_parts cv ps : forall root, Forall (safe cv) ps ->
  posix_parts (posix_join root ps) = (fst (posix_parts root), snd (posix_parts root) ++ ps).
Proof.
  induction ps as [|b ps IH]; intros root Hs.
  - cbn. rewrite app_nil_r. reflexivity.
  - inversion Hs as [|? ? Hb Hps]; subst. cbn [posix_join fold_left].
    change (fold_left join1 ps (join1 root b)) with (posix_join (join1 root b) ps).
    rewrite (IH _ Hps). unfold posix_parts. cbn [fst snd].
    rewrite (join1_slashes cv root b Hb). f_equal.
    unfold norm_comps. change (fold_left (norm_step ?r) (split_on c_slash ?s) []) with (cstate r s).
    rewrite (join1_state cv _ root b Hb). cbn [rev]. rewrite <- app_assoc. reflexivity.
Qed.

(* ------------------------------------------------------------------ the Windows convention *)
Lemma nt_safe_parts b : safe nt b ->
  map nt_norm_char b = b /\ existsb (N.eqb c_bslash) b = false /\
  exists x r, b = x :: r /\ x <> c_bslash.
Proof.
  intros H. destruct (safe_parts nt b H) as (H1 & H2 & _ & _ & H5).
  assert (A : forall l, existsb (is_sep nt) l = false ->
              map nt_norm_char l = l /\ existsb (N.eqb c_bslash) l = false).
  { induction l as [|x l IH]; [split; reflexivity|].
    change (existsb (is_sep nt) (x :: l)) with (is_sep nt x || existsb (is_sep nt) l).
    intros E. apply orb_false_iff in E as [E1 E2]. destruct (IH E2) as [I1 I2].
    unfold is_sep in E1. cbn [sep altsep nt] in E1. apply orb_false_iff in E1 as [E1a E1b].
    change (map nt_norm_char (x :: l)) with (nt_norm_char x :: map nt_norm_char l).
    change (existsb (N.eqb c_bslash) (x :: l)) with (N.eqb c_bslash x || existsb (N.eqb c_bslash) l).
    rewrite I1, I2. unfold nt_norm_char. change c_slash with 47. rewrite E1b.
    change c_bslash with 92. rewrite (N.eqb_sym 92 x), E1a. split; reflexivity. }
  destruct (A b H5) as [A1 A2]. split; [exact A1|]. split; [exact A2|].
  destruct b as [|x r]; [discriminate|]. exists x, r. split; [reflexivity|].
  change (existsb (N.eqb c_bslash) (x :: r)) with (N.eqb c_bslash x || existsb (N.eqb c_bslash) r) in A2.
  apply orb_false_iff in A2 as [A2 _]. apply N.eqb_neq in A2. congruence.
Qed.

Lemma nt_splitroot_suffix p d r tl : nt_splitroot p = (d, r, tl) -> exists pre, p = pre ++ tl.
Proof.
  unfold nt_splitroot. intros H.
  destruct p as [|a r1]; [injection H as <- <- <-; now exists []|].
  destruct (a =? c_bslash).
  - destruct r1 as [|b r2]; [injection H as <- <- <-; now exists [a]|].
    destruct (b =? c_bslash).
    + destruct (find_from c_bslash (a :: b :: r2) _ 0) as [i|]; [|injection H as <- <- <-; exists (a :: b :: r2); now rewrite app_nil_r].
      destruct (find_from c_bslash (a :: b :: r2) (i + 1) 0) as [i2|]; [|injection H as <- <- <-; exists (a :: b :: r2); now rewrite app_nil_r].
      injection H as <- <- <-. exists (takeN (i2 + 1) (a :: b :: r2)). unfold takeN, dropN. now rewrite firstn_skipn.
    + injection H as <- <- <-. now exists [a].
  - destruct r1 as [|b r2]; [injection H as <- <- <-; now exists []|].
    destruct (b =? c_colon); [|injection H as <- <- <-; now exists []].
    destruct r2 as [|c r3]; [injection H as <- <- <-; exists [a; b]; reflexivity|].
    destruct (c =? c_bslash); injection H as <- <- <-; [now exists [a; b; c]|now exists [a; b]].
Qed.

Lemma suffix_last (p' pre tl : str) x : p' ++ [x] = pre ++ tl -> tl = [] \/ exists tl', tl = tl' ++ [x].
Proof.
  intros H. destruct tl as [|t0 tl0]; [now left|].
  destruct (@exists_last _ (t0 :: tl0)) as (tl' & y & E); [discriminate|].
  rewrite E in *. right. exists tl'. rewrite app_assoc in H. apply app_inj_tail in H as [_ ->]. reflexivity.
Qed.

(* condition under which appending t leaves drive and root of p unchanged *)
Definition ext_ok (p t : str) : Prop :=
  match p with
  | [] => False
  | [a] => if a =? c_bslash then exists x t', t = x :: t' /\ x <> c_bslash else exists t', t = c_bslash :: t'
  | a :: b :: r => if a =? c_bslash then b <> c_bslash else if b =? c_colon then r <> [] else True
  end.

Lemma nt_splitroot_ext p t d r tl : ext_ok p t -> nt_splitroot p = (d, r, tl) -> nt_splitroot (p ++ t) = (d, r, tl ++ t).
Proof.
  unfold ext_ok, nt_splitroot. intros G H.
  destruct p as [|a [|b r2]]; [contradiction| |].
  - destruct (a =? c_bslash) eqn:Ea.
    + destruct G as (x & t' & -> & Hx). injection H as <- <- <-. cbn [app]. rewrite Ea.
      apply N.eqb_neq in Hx. rewrite Hx. reflexivity.
    + destruct G as (t' & ->). injection H as <- <- <-. cbn [app]. rewrite Ea. reflexivity.
  - cbn [app]. destruct (a =? c_bslash) eqn:Ea.
    + apply N.eqb_neq in G. rewrite G in *. injection H as <- <- <-. reflexivity.
    + destruct (b =? c_colon) eqn:Eb; [|injection H as <- <- <-; reflexivity].
      destruct r2 as [|c r3]; [contradiction|]. cbn [app].
      destruct (c =? c_bslash); injection H as <- <- <-; reflexivity.
Qed.

Lemma fold_tail_ext rooted (tl b : str) :
  safe nt b -> (tl = [] \/ exists tl', tl = tl' ++ [c_bslash]) ->
  fold_left (norm_step rooted) (split_on c_bslash (tl ++ b)) [] =
  b :: fold_left (norm_step rooted) (split_on c_bslash tl) [].
Proof.
  intros Hb H. destruct (nt_safe_parts b Hb) as (_ & Hn & _).
  destruct H as [->|[tl' ->]].
  - cbn [app]. rewrite (split_on_none _ _ Hn). cbn. exact (norm_step_safe nt rooted [] b Hb).
  - rewrite <- app_assoc. cbn [app]. rewrite !split_on_app, (split_on_none _ _ Hn), !fold_left_app.
    cbn. exact (norm_step_safe nt rooted _ b Hb).
Qed.

Lemma nt_plain_nonempty s : nt_plain s = true -> s <> [].
Proof. intros H ->. discriminate. Qed.

Lemma map_snoc (f : N -> N) s x : map f (s ++ [x]) = map f s ++ [f x].
Proof. now rewrite map_app. Qed.

Lemma nt_join1_parts s b : safe nt b -> nt_plain s = true ->
  nt_parts (join1 s b) = (fst (nt_parts s), snd (nt_parts s) ++ [b]) /\ nt_plain (join1 s b) = true.
Proof.
  intros Hb G. destruct (nt_safe_parts b Hb) as (Hm & Hn & x & rb & Eb & Hx).
  pose proof (nt_plain_nonempty s G) as Hne.
  destruct (join1_cases nt s b Hb) as [[-> _]|[[s' [Es Ej]]|[_ [He Ej]]]]; [contradiction| |].
  - (* s ends with "/": joined = s ++ b *)
    rewrite Ej. unfold nt_parts.
    assert (Ep : map nt_norm_char (s' ++ c_slash :: b) = map nt_norm_char s ++ b).
    { rewrite Es, !map_app, <- app_assoc. cbn [map app]. now rewrite Hm. }
    rewrite Ep. destruct (nt_splitroot (map nt_norm_char s)) as [[d r] tl] eqn:Esr.
    assert (Gx : ext_ok (map nt_norm_char s) b).
    { unfold nt_plain in G. unfold ext_ok. rewrite Es in *. rewrite map_snoc in *.
      change (nt_norm_char c_slash) with c_bslash in *.
      destruct (map nt_norm_char s') as [|a [|b' r']]; cbn [app] in *.
      - rewrite N.eqb_refl. exists x, rb. split; assumption.
      - destruct (a =? c_bslash); [|exact I]. cbn in G. discriminate.
      - destruct (a =? c_bslash); [now apply N.eqb_neq, negb_true_iff|].
        destruct (b' =? c_colon); [|exact I]. destruct r'; discriminate. }
    rewrite (nt_splitroot_ext _ _ _ _ _ Gx Esr). cbn [fst snd].
    destruct (nt_splitroot_suffix _ _ _ _ Esr) as [pre Hpre].
    rewrite Es, map_snoc in Hpre. change (nt_norm_char c_slash) with c_bslash in Hpre.
    pose proof (suffix_last _ _ _ _ Hpre) as Hl.
    split.
    + f_equal. unfold norm_comps. rewrite (fold_tail_ext _ tl b Hb Hl). reflexivity.
    + unfold nt_plain. rewrite Ep. unfold nt_plain in G. rewrite Es, map_snoc in *.
      change (nt_norm_char c_slash) with c_bslash in *. subst b.
      destruct (map nt_norm_char s') as [|a [|b' r']]; cbn [app] in *.
      * rewrite N.eqb_refl. apply N.eqb_neq in Hx. now rewrite Hx.
      * exact G.
      * destruct (a =? c_bslash); [exact G|]. destruct (b' =? c_colon); [|reflexivity].
        destruct r'; reflexivity.
  - (* joined = s ++ "/" ++ b *)
    rewrite Ej. unfold nt_parts.
    assert (Ep : map nt_norm_char (s ++ c_slash :: b) = map nt_norm_char s ++ c_bslash :: b).
    { rewrite map_app. cbn [map]. now rewrite Hm. }
    rewrite Ep. destruct (nt_splitroot (map nt_norm_char s)) as [[d r] tl] eqn:Esr.
    assert (Gx : ext_ok (map nt_norm_char s) (c_bslash :: b)).
    { unfold nt_plain in G. unfold ext_ok. rewrite He in G.
      destruct (map nt_norm_char s) as [|a [|b' r']]; [discriminate| |].
      - rewrite orb_false_r in G. apply negb_true_iff in G. rewrite G. now exists b.
      - destruct (a =? c_bslash); [now apply N.eqb_neq, negb_true_iff|].
        destruct (b' =? c_colon); [|exact I]. destruct r'; discriminate. }
    rewrite (nt_splitroot_ext _ _ _ _ _ Gx Esr). cbn [fst snd].
    split.
    + f_equal. unfold norm_comps. rewrite split_on_app, (split_on_none _ _ Hn), fold_left_app.
      cbn [fold_left]. rewrite (norm_step_safe nt _ _ b Hb). cbn [rev]. reflexivity.
    + unfold nt_plain. rewrite Ep. unfold nt_plain in G. rewrite He in G.
      destruct (map nt_norm_char s) as [|a [|b' r']]; [discriminate| |]; cbn [app].
      * rewrite orb_false_r in G. apply negb_true_iff in G. rewrite G. reflexivity.
      * destruct (a =? c_bslash); [exact G|]. destruct (b' =? c_colon); [|reflexivity].
        destruct r'; [discriminate|reflexivity].
Qed.

Lemma nt_join_parts ps : forall root, Forall (safe nt) ps -> nt_plain root = true ->
  nt_parts (posix_join root ps) = (fst (nt_parts root), snd (nt_parts root) ++ ps).
Proof.
  induction ps as [|b ps IH]; intros root Hs G.
  - cbn. rewrite app_nil_r. now destruct (nt_parts root).
  - inversion Hs as [|? ? Hb Hps]; subst. cbn [posix_join fold_left].
    change (fold_left join1 ps (join1 root b)) with (posix_join (join1 root b) ps).
    destruct (nt_join1_parts root b Hb G) as [E1 G1].
    rewrite (IH _ Hps G1), E1. cbn [fst snd]. rewrite <- app_assoc. reflexivity.
Qed.

(* ------------------------------------------------------------------ the directory tree *)
Lemma walk_app fs a : forall cur b,
  walk fs cur (a ++ b) = match walk fs cur a with Some n => walk fs n b | None => None end.
Proof.
  induction a as [|c a IH]; intros cur b; cbn [app walk]; [reflexivity|].
  destruct (negb (fs_isdir fs cur)); [reflexivity|].
  destruct (str_eqb c [] || str_eqb c s_dot); [apply IH|].
  destruct (str_eqb c s_dotdot); [apply IH|].
  destruct (fs_exists fs (cur ++ [c])); [apply IH|reflexivity].
Qed.

Lemma walk_safe1 cv fs d b n : safe cv b -> walk fs d [b] = Some n -> fs_isdir fs d = true /\ n = d ++ [b].
Proof.
  intros H. destruct (safe_parts cv b H) as (_ & H2 & H3 & H4 & _). cbn [walk].
  destruct (fs_isdir fs d); cbn [negb]; [|discriminate]. rewrite H2, H3, H4. cbn [orb].
  destruct (fs_exists fs (d ++ [b])); [|discriminate]. intros E. injection E as <-. split; reflexivity.
Qed.

Lemma walk_empty1 fs d : fs_isdir fs d = true -> walk fs d [[]] = Some d.
Proof. intros H. cbn. now rewrite H. Qed.

Lemma walk_join1 cv fs s b n : safe cv b -> fs_resolve_dir fs (join1 s b) = Some n ->
  exists d, fs_resolve_dir fs s = Some d /\ n = d ++ [b].
Proof.
  intros H. destruct (safe_parts cv b H) as (H1 & _). unfold fs_resolve_dir.
  destruct (join1_cases cv s b H) as [[-> ->]|[[s' [-> ->]]|[_ [_ ->]]]].
  - rewrite (split_on_none _ _ H1). intros E. destruct (walk_safe1 cv fs [] b n H E) as [Hd ->].
    exists []. split; [exact (walk_empty1 fs [] Hd)|reflexivity].
  - rewrite !split_on_app, (split_on_none _ _ H1), !walk_app.
    destruct (walk fs [] (split_on c_slash s')) as [d|]; [|discriminate].
    intros E. destruct (walk_safe1 cv fs d b n H E) as [Hd ->].
    exists d. split; [exact (walk_empty1 fs d Hd)|reflexivity].
  - rewrite split_on_app, (split_on_none _ _ H1), walk_app.
    destruct (walk fs [] (split_on c_slash s)) as [d|]; [|discriminate].
    intros E. destruct (walk_safe1 cv fs d b n H E) as [Hd ->]. exists d. split; reflexivity.
Qed.

Lemma walk_join cv fs ps : forall s n, Forall (safe cv) ps -> fs_resolve_dir fs (posix_join s ps) = Some n ->
  exists d, fs_resolve_dir fs s = Some d /\ n = d ++ ps.
Proof.
  induction ps as [|b ps IH]; intros s n Hs E.
  - exists n. split; [exact E|now rewrite app_nil_r].
  - inversion Hs as [|? ? Hb Hps]; subst. cbn [posix_join fold_left] in E.
    change (fold_left join1 ps (join1 s b)) with (posix_join (join1 s b) ps) in E.
    destruct (IH _ _ Hps E) as (d1 & E1 & ->).
    destruct (walk_join1 cv fs s b d1 Hb E1) as (d & E0 & ->).
    exists d. split; [exact E0|now rewrite <- app_assoc].
Qed.

Lemma os_read_resolve fs f c : os_read fs f = Some c ->
  exists n, fs_resolve_dir fs f = Some n /\ fs_file fs n = Some c.
Proof.
  unfold os_read, fs_resolve, fs_resolve_dir. destruct f as [|x r]; [discriminate|].
  destruct (walk fs [] (split_on c_slash (x :: r))) as [n|]; [|discriminate].
  intros E. now exists n.
Qed.

(* ------------------------------------------------------------------ FileSystemLoader *)
Lemma fs_first_found fs ps : forall sps o fn c, fs_first fs sps ps = Found o fn c ->
  exists l1 sp l2, sps = l1 ++ sp :: l2 /\
    Forall (fun sp' => os_read fs (posix_join sp' ps) = None) l1 /\
    os_read fs (posix_join sp ps) = Some c /\
    o = Some (posix_join sp ps) /\ fn = Some (posix_normpath (posix_join sp ps)).
Proof.
  induction sps as [|sp r IH]; cbn; intros o fn c H; [discriminate|].
  destruct (os_read fs (posix_join sp ps)) as [c'|] eqn:E.
  - injection H as <- <- <-. exists [], sp, r. repeat split; [constructor|exact E].
  - destruct (IH _ _ _ H) as (l1 & sp' & l2 & -> & H1 & H2 & H3 & H4).
    exists (sp :: l1), sp', l2. repeat split; try assumption. now constructor.
Qed.

Lemma fs_first_notfound fs ps : forall sps,
  fs_first fs sps ps = NotFound <-> Forall (fun sp => os_read fs (posix_join sp ps) = None) sps.
Proof.
  induction sps as [|sp r IH]; cbn; [split; [constructor|reflexivity]|].
  destruct (os_read fs (posix_join sp ps)) as [c'|] eqn:E.
  - split; [discriminate|]. intros H. inversion H; congruence.
  - rewrite IH. split; [intros H; now constructor|intros H; now inversion H].
Qed.

(* ------------------------------------------------------------------ composition *)
Lemma first_found_app a : forall b,
  first_found (a ++ b) = match first_found a with NotFound => first_found b | x => x end.
Proof. induction a as [|[|o fn c] a IH]; intros b; cbn; [reflexivity|apply IH|reflexivity]. Qed.

Lemma get_source_choice cv fs ls n :
  get_source cv fs (LChoice ls) n = first_found (map (fun l => get_source cv fs l n) ls).
Proof.
  cbn [get_source]. induction ls as [|l r IH]; [reflexivity|].
  cbn [map first_found]. destruct (get_source cv fs l n); [exact IH|reflexivity].
Qed.

Lemma first_found_spec rs o fn c : first_found rs = Found o fn c <->
  exists l1 l2, rs = l1 ++ Found o fn c :: l2 /\ Forall (fun r => r = NotFound) l1.
Proof.
  induction rs as [|[|o' fn' c'] rs IH]; cbn.
  - split; [discriminate|]. intros (l1 & l2 & E & _). destruct l1; discriminate.
  - rewrite IH. split.
    + intros (l1 & l2 & -> & H). exists (NotFound :: l1), l2. split; [reflexivity|now constructor].
    + intros (l1 & l2 & E & H). destruct l1 as [|x l1]; [discriminate|].
      cbn [app] in E. injection E as <- ->. exists l1, l2. split; [reflexivity|now inversion H].
  - split.
    + intros E. injection E as -> -> ->. exists [], rs. split; [reflexivity|constructor].
    + intros (l1 & l2 & E & H). destruct l1 as [|x l1]; [now injection E as -> -> ->|].
      injection E as <- _. inversion H; discriminate.
Qed.

Lemma first_found_none rs : first_found rs = NotFound <-> Forall (fun r => r = NotFound) rs.
Proof.
  induction rs as [|[|o fn c] rs IH]; cbn.
  - split; [constructor|reflexivity].
  - rewrite IH. split; [now constructor|intros H; now inversion H].
  - split; [discriminate|intros H; inversion H; discriminate].
Qed.

Lemma get_source_prefix cv fs d m n :
  get_source cv fs (LPrefix d m) n =
  match split_once d n with
  | None => NotFound
  | Some (p, rest) => match prefix_lookup p m with Some l => get_source cv fs l rest | None => NotFound end
  end.
Proof.
  cbn [get_source]. destruct (split_once d n) as [[p rest]|]; [|reflexivity].
  induction m as [|[q l] r IH]; [reflexivity|]. cbn [prefix_lookup].
  destruct (str_eqb q p); [reflexivity|exact IH].
Qed.

(* split(delimiter, 1): the first occurrence *)
Lemma strip_prefix_spec d : forall n rest, strip_prefix d n = Some rest <-> n = d ++ rest.
Proof.
  induction d as [|x d IH]; intros n rest; cbn.
  - split; [now intros [= ->]|now intros ->].
  - destruct n as [|y n]; [split; discriminate|].
    destruct (x =? y) eqn:E.
    + apply N.eqb_eq in E. subst y. rewrite IH. split; [now intros ->|now intros [= ->]].
    + split; [discriminate|]. intros [= -> _]. now rewrite N.eqb_refl in E.
Qed.

Lemma find_split_some d : forall n a b, find_split d n = Some (a, b) ->
  n = a ++ d ++ b /\ forall a' b', n = a' ++ d ++ b' -> (length a <= length a')%nat.
Proof.
  induction n as [|x r IH]; intros a b; cbn [find_split].
  - destruct (strip_prefix d []) as [rest|] eqn:E; [|discriminate].
    intros [= <- <-]. apply strip_prefix_spec in E. split; [exact E|intros; cbn; lia].
  - destruct (strip_prefix d (x :: r)) as [rest|] eqn:E.
    + intros [= <- <-]. apply strip_prefix_spec in E. split; [exact E|intros; cbn; lia].
    + destruct (find_split d r) as [[a0 b0]|] eqn:Er; [|discriminate].
      intros [= <- <-]. destruct (IH _ _ eq_refl) as [E1 E2]. split; [now rewrite E1|].
      intros a' b' H. destruct a' as [|y a''].
      * cbn in H. assert (X : strip_prefix d (x :: r) = Some b') by now apply strip_prefix_spec. congruence.
      * injection H as -> H. cbn. apply le_n_S. exact (E2 _ _ H).
Qed.

Lemma find_split_none d : forall n, find_split d n = None -> forall a' b', n <> a' ++ d ++ b'.
Proof.
  induction n as [|x r IH]; cbn [find_split]; intros H a' b' E.
  - destruct (strip_prefix d []) eqn:E0; [discriminate|].
    destruct a'; [|discriminate]. cbn in E.
    assert (X : strip_prefix d [] = Some b') by now apply strip_prefix_spec. congruence.
  - destruct (strip_prefix d (x :: r)) eqn:E0; [discriminate|].
    destruct (find_split d r) as [[a0 b0]|] eqn:Er; [discriminate|].
    destruct a' as [|y a''].
    + cbn in E. assert (X : strip_prefix d (x :: r) = Some b') by now apply strip_prefix_spec. congruence.
    + injection E as -> E. exact (IH eq_refl _ _ E).
Qed.

(* induction principle for the nested loader type *)
Section LoaderInd.
  Variable P : loader -> Prop.
  Hypothesis Hfs : forall sps, P (LFs sps).
  Hypothesis Hpkg : forall r, P (LPkg r).
  Hypothesis Hdict : forall m, P (LDict m).
  Hypothesis Hchoice : forall ls, Forall P ls -> P (LChoice ls).
  Hypothesis Hprefix : forall d m, Forall (fun ql => P (snd ql)) m -> P (LPrefix d m).
  Fixpoint loader_ind' (l : loader) : P l :=
    match l with
    | LFs sps => Hfs sps
    | LPkg r => Hpkg r
    | LDict m => Hdict m
    | LChoice ls => Hchoice ls ((fix go (ls : list loader) : Forall P ls :=
                                   match ls with
                                   | [] => Forall_nil P
                                   | x :: r => Forall_cons x (loader_ind' x) (go r)
                                   end) ls)
    | LPrefix d m => Hprefix d m ((fix go (m : list (str * loader)) : Forall (fun ql => P (snd ql)) m :=
                                     match m with
                                     | [] => Forall_nil _
                                     | x :: r => Forall_cons x (loader_ind' (snd x)) (go r)
                                     end) m)
    end.
End LoaderInd.

Lemma route_choice ls n : route (LChoice ls) n = flat_map (fun l => route l n) ls.
Proof. cbn [route]. induction ls as [|l r IH]; [reflexivity|]. cbn [flat_map]. now rewrite IH. Qed.

Lemma route_prefix d m n : route (LPrefix d m) n =
  match split_once d n with
  | None => []
  | Some (p, rest) => match prefix_lookup p m with Some l => route l rest | None => [] end
  end.
Proof.
  cbn [route]. destruct (split_once d n) as [[p rest]|]; [|reflexivity].
  induction m as [|[q l] r IH]; [reflexivity|]. cbn [prefix_lookup].
  destruct (str_eqb q p); [reflexivity|exact IH].
Qed.

Lemma prefix_lookup_in p m l : prefix_lookup p m = Some l -> In l (map snd m).
Proof.
  induction m as [|[q l'] r IH]; cbn; [discriminate|].
  destruct (str_eqb q p); [intros [= ->]; now left|intros H; right; now apply IH].
Qed.

Definition leaf_results cv fs (rt : list (loader * str)) : list res :=
  map (fun ln => get_source cv fs (fst ln) (snd ln)) rt.

Lemma get_source_route cv fs l : forall n,
  get_source cv fs l n = first_found (leaf_results cv fs (route l n)).
Proof.
  induction l as [sps|r|m|ls IH|d m IH] using loader_ind'; intros n.
  - cbn [route leaf_results map first_found fst snd]. now destruct (get_source cv fs (LFs sps) n).
  - cbn [route leaf_results map first_found fst snd]. now destruct (get_source cv fs (LPkg r) n).
  - cbn [route leaf_results map first_found fst snd]. now destruct (get_source cv fs (LDict m) n).
  - rewrite get_source_choice, route_choice. unfold leaf_results.
    induction ls as [|l r IHr]; [reflexivity|]. inversion IH as [|? ? Hl Hr]; subst.
    cbn [map flat_map first_found]. rewrite map_app, first_found_app.
    change (map (fun ln => get_source cv fs (fst ln) (snd ln)) (route l n)) with (leaf_results cv fs (route l n)).
    rewrite <- (Hl n). destruct (get_source cv fs l n); [exact (IHr Hr)|reflexivity].
  - rewrite get_source_prefix, route_prefix.
    destruct (split_once d n) as [[p rest]|]; [|reflexivity].
    destruct (prefix_lookup p m) as [l|] eqn:E; [|reflexivity].
    apply prefix_lookup_in in E. rewrite Forall_forall in IH.
    apply in_map_iff in E as ([q l'] & E1 & E2). cbn in E1. subst l'.
    exact (IH _ E2 rest).
Qed.

(* proof of Properties.C28_rejects_escape *)
Lemma C28_rejects_escape_proof : forall cv name,
  (split_template_path cv name = None <->
   exists p, In p (split_on c_slash name) /\ (existsb (is_sep cv) p = true \/ p = s_dotdot)) /\
  (split_template_path cv name = None ->
   forall fs sps root, get_source cv fs (LFs sps) name = NotFound /\ get_source cv fs (LPkg root) name = NotFound).
Proof.
  intros cv name. split.
  - rewrite rejects_iff. split; intros (p & Hp & Hb); exists p; (split; [exact Hp|]).
    + unfold bad_piece in Hb. apply orb_true_iff in Hb as [Hb|Hb]; [now left|right; now apply str_eqb_eq].
    + unfold bad_piece. apply orb_true_iff. destruct Hb as [Hb|Hb]; [now left|right; now apply str_eqb_eq].
  - intros H fs sps root. cbn [get_source]. rewrite H. split; reflexivity.
Qed.

(* proof of Properties.C28_fs_contained *)
Lemma C28_fs_contained_proof : forall cv fs sps name f fn c,
  get_source cv fs (LFs sps) name = Found (Some f) fn c ->
  exists sp ps d, In sp sps /\ split_template_path cv name = Some ps /\ Forall (safe cv) ps /\
    f = posix_join sp ps /\ contained_posix sp f ps /\
    fs_resolve_dir fs sp = Some d /\ fs_resolve_dir fs f = Some (d ++ ps) /\ fs_file fs (d ++ ps) = Some c.
Proof.
  intros cv fs sps name f fn c H. cbn [get_source] in H.
  destruct (split_template_path cv name) as [ps|] eqn:Es; [|discriminate].
  destruct (fs_first_found fs ps sps _ _ _ H) as (l1 & sp & l2 & -> & _ & Hr & Ho & _).
  injection Ho as ->. pose proof (split_safe cv name ps Es) as Hs.
  destruct (os_read_resolve fs _ c Hr) as (n & Hn & Hc).
  destruct (walk_join cv fs ps sp n Hs Hn) as (d & Hd & ->).
  exists sp, ps, d. repeat split; try assumption; try reflexivity.
  - apply in_or_app. right. now left.
  - exact (posix_join_parts cv ps sp Hs).
Qed.

(* proof of Properties.C28_choice_first *)
Lemma C28_choice_first_proof : forall cv fs ls name o fn c,
  get_source cv fs (LChoice ls) name = Found o fn c <->
  exists l1 l l2, ls = l1 ++ l :: l2 /\
    Forall (fun l' => get_source cv fs l' name = NotFound) l1 /\ get_source cv fs l name = Found o fn c.
Proof.
  intros cv fs ls name o fn c. rewrite get_source_choice, first_found_spec. split.
  - intros (r1 & r2 & E & H).
    apply map_eq_app in E as (l1 & lr & -> & <- & E2).
    apply map_eq_cons in E2 as (l & l2 & -> & E3 & _).
    exists l1, l, l2. split; [reflexivity|]. split; [|exact E3].
    apply Forall_map in H. exact H.
  - intros (l1 & l & l2 & -> & H1 & H2).
    exists (map (fun l => get_source cv fs l name) l1), (map (fun l => get_source cv fs l name) l2).
    rewrite map_app. cbn [map]. rewrite H2. split; [reflexivity|]. apply Forall_map. exact H1.
Qed.

(* proof of Properties.C28_prefix_route *)
Lemma C28_prefix_route_proof : forall cv fs d m name,
  (forall p rest, split_once d name = Some (p, rest) ->
     d <> [] /\ name = p ++ d ++ rest /\
     (forall p' rest', name = p' ++ d ++ rest' -> (length p <= length p')%nat) /\
     get_source cv fs (LPrefix d m) name =
       match prefix_lookup p m with Some l => get_source cv fs l rest | None => NotFound end) /\
  (split_once d name = None ->
     (d = [] \/ forall p' rest', name <> p' ++ d ++ rest') /\ get_source cv fs (LPrefix d m) name = NotFound).
Proof.
  intros cv fs d m name. split.
  - intros p rest H. rewrite get_source_prefix, H. unfold split_once in H.
    destruct d as [|x d']; [discriminate|]. destruct (find_split_some _ _ _ _ H) as [E1 E2].
    repeat split; [discriminate|exact E1|exact E2].
  - intros H. rewrite get_source_prefix, H. split; [|reflexivity]. unfold split_once in H.
    destruct d as [|x d']; [now left|right]. exact (find_split_none _ _ H).
Qed.
