(* The concrete instance satisfies the hypotheses of the non-interference theorems. *)
From Coq Require Import List NArith Bool Lia.
Import ListNotations.
From JV Require Import Model.Frames Model.FramesSched Model.FramesExec Proofs.FramesProofs Proofs.FramesSchedProofs.
Open Scope N_scope.

Lemma Gc_ro : forall c h1 h2, (forall l, ro l = true -> h1 l = h2 l) -> Gc c h1 = Gc c h2.
Proof. intros c h1 h2 H. unfold Gc. now rewrite (H (EnvGlobals, snd c) eq_refl). Qed.

Lemma ceval_oblivious e : cexp_wf e = true -> forall v h1 h2, sim Gc h1 h2 -> ceval e v h1 = ceval e v h2.
Proof.
  induction e as [n|l|n|a IHa b IHb|c]; intros W v h1 h2 S; cbn [ceval cexp_wf] in *; try reflexivity.
  - destruct S as [A _]. exact (A l W).
  - apply andb_true_iff in W as [Wa Wb]. now rewrite (IHa Wa v h1 h2 S), (IHb Wb v h1 h2 S).
  - destruct S as [A [I1 I2]]. pose proof (Gc_ro c h1 h2 A) as EG.
    destruct (I1 c W) as [Z1|V1], (I2 c W) as [Z2|V2].
    + rewrite Z1, Z2. cbn. exact EG.
    + rewrite Z1. cbn. rewrite V2. destruct (N.eqb (Gc c h2) 0) eqn:E; [|exact EG]. apply N.eqb_eq in E. now rewrite EG.
    + rewrite Z2. cbn. rewrite V1. destruct (N.eqb (Gc c h1) 0) eqn:E; [|exact EG]. apply N.eqb_eq in E. now rewrite <- EG.
    + rewrite V1, V2, EG. reflexivity.
Qed.

Lemma ceval_view_ext e : forall v1 v2 h, (forall n, v1 n = v2 n) -> ceval e v1 h = ceval e v2 h.
Proof.
  induction e as [n|l|n|a IHa b IHb|c]; intros v1 v2 h H; cbn [ceval]; try reflexivity; [exact (H n)|].
  now rewrite (IHa v1 v2 h H), (IHb v1 v2 h H).
Qed.

Lemma wf_sched_ok s : csched_wf s = true -> sched_ok Gc (denote_sched s).
Proof.
  unfold csched_wf, sched_ok, footprint_ok, sched_oblivious, denote_sched. intros W.
  rewrite forallb_forall in W. split; [|split].
  - apply forallb_forall. intros ts Hin. apply in_map_iff in Hin as [[r st] [<- Hin]]. cbn [snd].
    specialize (W _ Hin). cbn [snd] in W. destruct st; cbn in *; try exact W; try discriminate; reflexivity.
  - rewrite Forall_map. apply Forall_forall. intros [r st] Hin. cbn [snd]. specialize (W _ Hin). cbn [snd] in W.
    destruct st as [n e|c|n e|c e]; cbn in *; try exact I; try discriminate. exact (ceval_oblivious e W).
  - rewrite Forall_map. apply Forall_forall. intros [r st] Hin. cbn [snd].
    destruct st as [n e|c|n e|c e]; cbn; try exact I; intros v1 v2 h H; exact (ceval_view_ext e v1 v2 h H).
Qed.

(* only-projection commutes with the denotation *)
Lemma only_denote a s : only a (denote_sched s) = denote_sched (filter (fun ts => N.eqb (fst ts) a) s).
Proof.
  unfold only, denote_sched. induction s as [|[r st] s IH]; [reflexivity|]. cbn [map filter fst].
  destruct (N.eqb r a); cbn [map]; now rewrite IH.
Qed.

(* an initial heap that mentions no cache cell has every cache empty *)
Lemma cache_inv_heap_of init :
  forallb (fun lv => negb (is_cache (fst lv))) init = true -> cache_inv Gc (heap_of init).
Proof.
  intros H c Hc. left. induction init as [|[l v] r IH]; cbn [heap_of]; [reflexivity|].
  cbn [forallb fst] in H. apply andb_true_iff in H as [Hl Hr]. apply negb_true_iff in Hl.
  rewrite upd_other; [exact (IH Hr)|]. intros ->. congruence.
Qed.
