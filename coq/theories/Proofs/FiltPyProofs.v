(* Lemmas relating the primitives of the deep embedding Lib/PyFilt.v (Z-indexed slicing,
   list repetition, comparisons on Z.of_N values) to the ones the hand-written models use.
   Used by the generated equations Gen_filt_*.v. *)
From Coq Require Import List ZArith NArith Bool String Lia.
Import ListNotations.
From JV Require Import Model.FiltColl Lib.PyFilt.
Open Scope Z_scope.

Lemma Z_ltb_N a b : (Z.of_N a <? Z.of_N b) = (a <? b)%N.
Proof. destruct (Z.ltb_spec (Z.of_N a) (Z.of_N b)), (N.ltb_spec a b); try reflexivity; lia. Qed.
Lemma Z_geb_N a b : (Z.of_N a >=? Z.of_N b) = (b <=? a)%N.
Proof. rewrite Z.geb_leb. destruct (Z.leb_spec (Z.of_N b) (Z.of_N a)), (N.leb_spec b a); try reflexivity; lia. Qed.
Lemma Z_eqb_N0 a : (Z.of_N a =? 0) = (a =? 0)%N.
Proof. destruct (Z.eqb_spec (Z.of_N a) 0), (N.eqb_spec a 0); try reflexivity; lia. Qed.

Section Lists.
  Variable A : Type.

  Lemma pyslice_z_N (a b : N) (l : list A) :
    pyslice_z A (Some (Z.of_N a)) (Some (Z.of_N b)) l = pyslice a b l.
  Proof.
    unfold pyslice_z, pyslice, norm_index.
    destruct (Z.ltb_spec (Z.of_N a) 0) as [H|_]; [lia|]. destruct (Z.ltb_spec (Z.of_N b) 0) as [H|_]; [lia|].
    set (len := Z.of_nat (List.length l)).
    destruct (Z.le_gt_cases len (Z.of_N a)) as [Ha|Ha].
    - rewrite (skipn_all2 (n := Z.to_nat (Z.min (Z.of_N a) len))) by (unfold len in *; lia).
      rewrite (skipn_all2 (n := N.to_nat a)) by (unfold len in *; lia). now rewrite !firstn_nil.
    - replace (Z.to_nat (Z.min (Z.of_N a) len)) with (N.to_nat a) by lia.
      destruct (Z.le_gt_cases (Z.of_N b) len) as [Hb|Hb].
      + f_equal. lia.
      + rewrite !firstn_all2; [reflexivity| |]; rewrite skipn_length; unfold len in *; lia.
  Qed.

  (* s[:k] for k >= 0 *)
  Lemma pyslice_z_prefix (k : Z) (l : list A) : 0 <= k ->
    pyslice_z A None (Some k) l = firstn (Z.to_nat k) l.
  Proof.
    intros Hk. unfold pyslice_z, norm_index. destruct (Z.ltb_spec k 0) as [H|_]; [lia|]. cbn [skipn Z.to_nat].
    rewrite Z.sub_0_r. set (len := Z.of_nat (List.length l)).
    destruct (Z.le_gt_cases k len) as [H|H].
    - now rewrite Z.min_l by exact H.
    - rewrite Z.min_r by lia. rewrite !firstn_all2; [reflexivity| |]; unfold len in *; lia.
  Qed.

  Lemma repeat_list_single (x : A) n : repeat_list A [x] n = repeat x n.
  Proof. induction n as [|n IH]; [reflexivity|]. cbn [repeat_list repeat app]. now rewrite IH. Qed.

  Lemma range_list_N (n : N) : range_list (Z.of_N n) = map Z.of_nat (seq 0 (N.to_nat n)).
  Proof. unfold range_list. f_equal. f_equal. lia. Qed.
  Lemma range_list_neg (n : Z) : n <= 0 -> range_list n = [].
  Proof. intros H. unfold range_list. replace (Z.to_nat n) with O by lia. reflexivity. Qed.
End Lists.

(* one-step unfolding equations of the interpreter (all by computation), so that generated
   proofs can step through a function body without unfolding loop bodies *)
Section Steps.
  Variable A : Type.
  Variable rs : list A -> list A.
  Lemma execs_nil st : execs A rs BNil st = Fall st.
  Proof. reflexivity. Qed.
  Lemma execs_cons s r st :
    execs A rs (BCons s r) st = match exec A rs s st with Fall st' => execs A rs r st' | other => other end.
  Proof. reflexivity. Qed.
  Lemma exec_assign x e st :
    exec A rs (SAssign x e) st = match eval A rs e (vars A st) with Good v => Fall (upd A x v st) | Bad e1 => Raise e1 end.
  Proof. reflexivity. Qed.
  Lemma exec_for_range x n body st :
    exec A rs (SForRange x n body) st =
    match eval A rs n (vars A st) with
    | Good (VZ k) => loop_over A (fun i st' => execs A rs body (upd A x (VZ i) st')) (range_list k) st
    | Good _ => Raise PStuck
    | Bad e1 => Raise e1
    end.
  Proof. reflexivity. Qed.
  Lemma exec_for_in x it body st :
    exec A rs (SForIn x it body) st =
    match eval A rs it (vars A st) with
    | Good (VL l) => loop_over A (fun a st' => execs A rs body (upd A x (VItem a) st')) l st
    | Good _ => Raise PStuck
    | Bad e1 => Raise e1
    end.
  Proof. reflexivity. Qed.
  Lemma exec_if c t e st :
    exec A rs (SIf c t e) st =
    match eval A rs c (vars A st) with
    | Good v => match truthy A v with
                | Some true => execs A rs t st
                | Some false => execs A rs e st
                | None => Raise PStuck
                end
    | Bad e1 => Raise e1
    end.
  Proof. reflexivity. Qed.
End Steps.

(* do_batch's model split into its loop and its final flush *)
Section BatchSplit.
  Variable A : Type.
  Fixpoint batch_loop (n : Z) (tmp : list A) (xs : list A) : list (list A) * list A :=
    match xs with
    | [] => ([], tmp)
    | x :: r =>
        if Z.of_nat (List.length tmp) =? n
        then let '(ys, t) := batch_loop n [x] r in (tmp :: ys, t)
        else batch_loop n (tmp ++ [x]) r
    end.
  Definition batch_final (n : Z) (fill : option A) (tmp : list A) : list (list A) :=
    match tmp with
    | [] => []
    | _ => let k := Z.of_nat (List.length tmp) in
           [match fill with
            | Some x => if k <? n then tmp ++ repeat x (Z.to_nat (n - k)) else tmp
            | None => tmp
            end]
    end.
  Lemma batch_go_split n fill : forall xs tmp,
    batch_go n fill tmp xs = fst (batch_loop n tmp xs) ++ batch_final n fill (snd (batch_loop n tmp xs)).
  Proof.
    induction xs as [|x r IH]; intros tmp; cbn [batch_go batch_loop fst snd app]; [reflexivity|].
    destruct (Z.of_nat (List.length tmp) =? n).
    - rewrite IH. destruct (batch_loop n [x] r). reflexivity.
    - apply IH.
  Qed.
End BatchSplit.

Lemma Z_geb_ltb a b : (a >=? b) = negb (a <? b).
Proof. rewrite Z.geb_leb. destruct (Z.leb_spec b a), (Z.ltb_spec a b); try reflexivity; lia. Qed.
