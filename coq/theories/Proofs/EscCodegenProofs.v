From Coq Require Import List Bool NArith.
From JV Require Import Model.EscMarkup Model.EscLang2 Model.EscCodegen.
Import ListNotations.

Lemma eqb_true : forall a b, Bool.eqb a b = true -> a = b.
Proof. intros [] []; cbn; congruence. Qed.

Lemma ow_tbl_sound : forall t, ow_tbl_ok t = true -> forall vol ae,
  exists w, find2 t vol ae = Some w /\ forall rt, ow_on w rt = mode_on vol ae rt.
Proof.
  intros t H vol ae. unfold ow_tbl_ok, all2, bools in H. cbn [forallb] in H.
  repeat rewrite andb_true_iff in H.
  assert (G : match find2 t vol ae with
              | Some w => forallb (fun rt => Bool.eqb (ow_on w rt) (mode_on vol ae rt)) [false; true]
              | None => false end = true).
  { destruct vol, ae; tauto. }
  destruct (find2 t vol ae) as [w|]; [|discriminate]. exists w. split; [reflexivity|].
  cbn [forallb] in G. repeat rewrite andb_true_iff in G. destruct G as (G0 & G1 & _).
  intros [|]; now apply eqb_true.
Qed.

Lemma bw_tbl_sound : forall t, bw_tbl_ok t = true -> forall vol ae,
  exists w, find2 t vol ae = Some w /\ forall rt, bw_on w rt = mode_on vol ae rt.
Proof.
  intros t H vol ae. unfold bw_tbl_ok, all2, bools in H. cbn [forallb] in H.
  repeat rewrite andb_true_iff in H.
  assert (G : match find2 t vol ae with
              | Some w => forallb (fun rt => Bool.eqb (bw_on w rt) (mode_on vol ae rt)) [false; true]
              | None => false end = true).
  { destruct vol, ae; tauto. }
  destruct (find2 t vol ae) as [w|]; [|discriminate]. exists w. split; [reflexivity|].
  cbn [forallb] in G. repeat rewrite andb_true_iff in G. destruct G as (G0 & G1 & _).
  intros [|]; now apply eqb_true.
Qed.

Lemma flag_tbl_sound : forall t, flag_tbl_ok t = true -> forall rt, find1 t rt = Some rt.
Proof.
  intros t H rt. unfold flag_tbl_ok, bools in H. cbn [forallb] in H. repeat rewrite andb_true_iff in H.
  assert (G : match find1 t rt with Some b => Bool.eqb b rt | None => false end = true) by (destruct rt; tauto).
  destruct (find1 t rt) as [b|]; [|discriminate]. f_equal. now apply eqb_true.
Qed.

(* what the evaluator of Model/EscLang2.v assumes about the generated code, as consequences of the
   regenerated table *)
Record sound (f : facts) : Prop := {
  (* an output child compiled under (vol, ae), run with flag rt, emits out_piece (mode_on ..) *)
  s_out : forall vol ae, exists w, find2 (f_out f) vol ae = Some w /\
          forall rt v, ow_sem w rt v = out_piece (mode_on vol ae rt) v;
  (* a filter block's result goes through the same selection *)
  s_fblock : forall vol ae, exists w, find2 (f_fblock f) vol ae = Some w /\
          forall rt v, ow_sem w rt v = out_piece (mode_on vol ae rt) v;
  (* the buffer handed to a block filter is wrap (mode_on ..) *)
  s_fbuf : forall vol ae, exists w, find2 (f_fbuf f) vol ae = Some w /\
          forall rt o, bw_sem w rt o = wrap (mode_on vol ae rt) o;
  (* ~ is markup_join exactly when escaping is in effect *)
  s_concat : forall vol ae, exists w, find2 (f_concat f) vol ae = Some w /\
          forall rt a b, join_sem w rt a b = if mode_on vol ae rt then markup_join [a; b] else str_join [a; b];
  (* set blocks: Markup by the runtime flag; with a filter: escape by the runtime flag *)
  s_assign_plain : forall rt o, aw_sem (f_assign_plain f) rt (Plain o) = wrap rt o;
  s_assign_filter : forall rt v, aw_sem (f_assign_filter f) rt v = if rt then esc v else v;
  (* macro / call-block bodies return plain text, Macro._invoke and BlockReference wrap by the flag *)
  s_tdata : f_tdata_no_finalize f = true;
  s_macro_forced : f_macro_forced f = true;
  s_macro_default : f_macro_default_rt f = true;
  s_callblock : forall vol ae, exists w, find2 (f_callblock f) vol ae = Some w /\
          forall rt v, ow_sem w rt v = out_piece (mode_on vol ae rt) v;
  s_invoke : forall rt, find1 (f_invoke f) rt = Some rt;
  s_blockref : forall rt, find1 (f_blockref f) rt = Some rt;
  (* constants are folded only outside volatile frames and then escaped iff autoescape is on *)
  s_const : forall vol ae td ef esc fin, In (vol, ae, td, ef, CFold esc fin) (f_const f) -> vol = false /\ esc = ae
}.

Theorem codegen_sound : forall f, facts_ok f = true -> sound f.
Proof.
  intros f H. unfold facts_ok in H. repeat rewrite andb_true_iff in H.
  destruct H as (((((((((((((((Hout & Hbal) & Htd) & Hconst) & Hlen) & Hfb) & Hbuf) & Hret) & Hap) & Haf) & Hcat) & Hmf) & Hmd) & Hcb) & Hinv) & Hblk).
  constructor.
  - intros vol ae. destruct (ow_tbl_sound _ Hout vol ae) as (w & E & Hw). exists w. split; [exact E|].
    intros rt v. unfold ow_sem. now rewrite Hw.
  - intros vol ae. destruct (ow_tbl_sound _ Hfb vol ae) as (w & E & Hw). exists w. split; [exact E|].
    intros rt v. unfold ow_sem. now rewrite Hw.
  - intros vol ae. destruct (bw_tbl_sound _ Hbuf vol ae) as (w & E & Hw). exists w. split; [exact E|].
    intros rt o. unfold bw_sem. now rewrite Hw.
  - intros vol ae. destruct (bw_tbl_sound _ Hcat vol ae) as (w & E & Hw). exists w. split; [exact E|].
    intros rt a b. unfold join_sem. now rewrite Hw.
  - intros rt o. destruct (f_assign_plain f); [|discriminate]. cbn. destruct rt; reflexivity.
  - intros rt v. destruct (f_assign_filter f); [discriminate|]. reflexivity.
  - exact Htd.
  - exact Hmf.
  - exact Hmd.
  - intros vol ae. destruct (ow_tbl_sound _ Hcb vol ae) as (w & E & Hw). exists w. split; [exact E|].
    intros rt v. unfold ow_sem. now rewrite Hw.
  - now apply flag_tbl_sound.
  - now apply flag_tbl_sound.
  - intros vol ae td ef esc fin Hin.
    pose proof (proj1 (forallb_forall _ _) Hconst _ Hin) as Hr. cbn in Hr.
    repeat rewrite andb_true_iff in Hr. destruct Hr as ((Hv & He) & _).
    split; [now destruct vol|now apply eqb_true].
Qed.

(* the obligation itself: whenever autoescaping may be on for a piece of generated code, every
   output child and every filter-block result goes through escape *)
Theorem output_escapes_when_on : forall f, facts_ok f = true ->
  forall vol ae rt v, mode_on vol ae rt = true ->
  (exists w, find2 (f_out f) vol ae = Some w /\ ow_sem w rt v = esc_str v) /\
  (exists w, find2 (f_fblock f) vol ae = Some w /\ ow_sem w rt v = esc_str v).
Proof.
  intros f H vol ae rt v Hon. destruct (codegen_sound f H) as [So Sf _ _ _ _ _ _ _ _ _ _ _].
  split.
  - destruct (So vol ae) as (w & E & Hw). exists w. split; [exact E|]. rewrite Hw, Hon. reflexivity.
  - destruct (Sf vol ae) as (w & E & Hw). exists w. split; [exact E|]. rewrite Hw, Hon. reflexivity.
Qed.

(* link with the evaluator: its mode decision is mode_on of the descriptor's (volatile, autoescape) *)
Lemma on_now_mode : forall ae ce rt, on_now ae ce rt = mode_on (ce_vol ce) (ce_ae ae ce) rt.
Proof. intros ae [tid|b|] rt; reflexivity. Qed.
