(* C01 (parser half): the statement parser never leaves the outcomes {tree, TemplateSyntaxError at a
   line of the template, out of fuel}; statement-level fuel adequacy. *)
From Coq Require Import List NArith ZArith Bool Arith Lia.
Import ListNotations.
From JV Require Import Model.ExprAst Model.ExprParser Model.ExprStmtParser.

Section Lines.
  Variable L : nat -> Prop.          (* the admissible error lines *)
  Variable FS : Prop.                (* whether running out of statement-level fuel is admissible *)

  Definition LOK (ts : list ltok) : Prop := Forall (fun t => L (snd t)) ts.
  Definition EOK (e : option nat) : Prop := forall l, e = Some l -> L l.
  Definition COK (c : tagctx) : Prop := EOK (endl c) /\ L (eofl c).

  (* the result is a tree satisfying P, a syntax error at an admissible line, or a fuel / unsupported
     outcome -- never Internal *)
  Definition R {A} (P : A -> Prop) (r : sres A) : Prop :=
    match r with SOk a => P a | SSyntaxErr l => L l | SInternal _ => False | SFuelStmt => FS | _ => True end.

  Lemma R_bind {A B} (P : A -> Prop) (Q : B -> Prop) (m : sres A) (f : A -> sres B) :
    R P m -> (forall a, P a -> R Q (f a)) -> R Q (sbind m f).
  Proof. destruct m; cbn; auto. Qed.
  Lemma R_weaken {A} (P Q : A -> Prop) r : R P r -> (forall a, P a -> Q a) -> R Q r.
  Proof. destruct r; cbn; auto. Qed.

  Lemma LOK_tl ts : LOK ts -> LOK (tl ts).
  Proof. destruct ts; cbn; [auto|]. intros H. inversion H; assumption. Qed.
  Lemma LOK_skipn k : forall ts, LOK ts -> LOK (skipn k ts).
  Proof. induction k; intros ts H; [exact H|]. destruct ts; [exact H|]. cbn. apply IHk. inversion H; assumption. Qed.
  Lemma cline_ok c ts : COK c -> LOK ts -> L (cline c ts).
  Proof.
    intros [He Hf] Ht. unfold cline. destruct ts as [|[t l] r]; [|inversion Ht; assumption].
    destruct (endl c) eqn:E; [apply He; reflexivity|exact Hf].
  Qed.
  Lemma LOK_nil : LOK [].
  Proof. constructor. Qed.
  Hint Resolve LOK_tl LOK_skipn cline_ok LOK_nil : rk.

  Definition rest_ok {A} (x : A * list ltok) : Prop := LOK (snd x).

  Lemma expect_op_ok c o ts : COK c -> LOK ts -> R LOK (expect_op c o ts).
  Proof. intros. unfold expect_op. destruct (hd_op o ts); cbn [R fst snd rest_ok]; auto with rk. Qed.
  Lemma expect_kw_ok c k ts : COK c -> LOK ts -> R LOK (expect_kw c k ts).
  Proof. intros. unfold expect_kw. destruct (hd_name k ts); cbn [R fst snd rest_ok]; auto with rk. Qed.
  Lemma expect_name_ok c ts : COK c -> LOK ts -> R (fun x => L (snd (fst x)) /\ LOK (snd x)) (expect_name c ts).
  Proof.
    intros Hc Ht. unfold expect_name. destruct ts as [|[t l] r]; [cbn [R fst snd rest_ok]; auto with rk|].
    destruct t; try (apply (cline_ok c _ Hc Ht)). inversion Ht; subst. split; assumption.
  Qed.
  Lemma skip_kw_ok k ts : LOK ts -> LOK (snd (skip_kw k ts)).
  Proof. intros. unfold skip_kw. destruct (hd_name k ts); cbn [snd]; auto with rk. Qed.

  Lemma run_e_ok {A} c (f : kit -> list tok -> pres A) ts : COK c -> LOK ts -> R rest_ok (run_e c f ts).
  Proof.
    intros Hc Ht. unfold run_e. destruct (f _ _); cbn [R fst snd rest_ok]; auto with rk. unfold rest_ok. cbn. auto with rk.
  Qed.
  Hint Resolve expect_op_ok expect_kw_ok expect_name_ok skip_kw_ok run_e_ok : rk.

  (* ---- parse_tuple ---- *)
  Definition elems_ok {X} (args : list (X * nat)) : Prop := Forall (fun a => L (snd a)) args.
  Definition elem_spec {X} (elem : list ltok -> sres (X * nat * list ltok)) : Prop :=
    forall ts, LOK ts -> R (fun x => L (snd (fst x)) /\ LOK (snd x)) (elem ts).

  Lemma tuple_loop_ok {X} c (elem : list ltok -> sres (X * nat * list ltok)) extra :
    COK c -> elem_spec elem ->
    forall n args is_tuple lineno ts, elems_ok args -> L lineno -> LOK ts ->
      R (fun x => elems_ok (fst (fst (fst x))) /\ L (snd (fst x)) /\ LOK (snd x)) (tuple_loop c elem extra n args is_tuple lineno ts).
  Proof.
    intros Hc He. induction n as [|n IH]; intros args is_tuple lineno ts Ha Hl Ht; [exact I|]. cbn [tuple_loop].
    eapply R_bind with (P := LOK); [destruct args; cbn [R fst snd rest_ok]; auto with rk|]. intros ts1 H1.
    destruct (tuple_end_x extra ts1); [cbn [R fst snd rest_ok]; auto|].
    eapply R_bind; [apply He; exact H1|]. intros [[x l] ts2] [Hx H2]. cbn in Hx, H2.
    assert (Ha' : elems_ok (args ++ [(x, l)])) by (apply Forall_app; split; [exact Ha|constructor; [exact Hx|constructor]]).
    destruct (hd_op OComma ts2); [apply IH; auto with rk|cbn; auto].
  Qed.

  Lemma e_elem_ok c condexpr : COK c -> elem_spec (e_elem c condexpr).
  Proof.
    intros Hc ts Ht. unfold e_elem. eapply R_bind; [apply run_e_ok; assumption|]. intros [e r] Hr. cbn. split; [auto with rk|exact Hr].
  Qed.

  Lemma e_tuple_ok c condexpr extra ts : COK c -> LOK ts -> R rest_ok (e_tuple c condexpr extra ts).
  Proof.
    intros Hc Ht. unfold e_tuple.
    eapply R_bind; [apply tuple_loop_ok; auto using e_elem_ok with rk; constructor|].
    intros [[[args it] ln] r] [Ha [Hl Hr]]. cbn in *.
    destruct it; [exact Hr|]. destruct args as [|[e l] args]; cbn [R fst snd rest_ok]; auto with rk.
  Qed.

  Lemma t_elem_ok c with_ns : COK c -> elem_spec (t_elem c with_ns).
  Proof.
    intros Hc ts Ht. unfold t_elem.
    assert (G : R (fun x => L (snd (fst x)) /\ LOK (snd x)) (do* '(e, r1) <- run_e c p_primary ts; SOk (TE e, cline c ts, r1))).
    { eapply R_bind; [apply run_e_ok; assumption|]. intros [e r] Hr. cbn. split; [auto with rk|exact Hr]. }
    destruct ts as [|[t l] r]; [exact G|]. destruct t; try exact G.
    destruct r as [|[t2 l2] r2]; [exact G|]. destruct t2; try exact G. destruct o; try exact G.
    inversion Ht as [|? ? Hl Hr]; subst. cbn in Hl.
    destruct (with_ns && negb (const_name s)).
    - inversion Hr as [|? ? _ Hr2]; subst. destruct r2 as [|[t3 l3] r3]; [cbn [R fst snd rest_ok]; auto with rk|].
      destruct t3; try (apply (cline_ok c _ Hc Hr2)). inversion Hr2; subst. split; assumption.
    - eapply R_bind; [apply run_e_ok; assumption|]. intros [e r1] Hr1. cbn. split; assumption.
  Qed.

  Lemma assign_target_ok c extra with_ns ts : COK c -> LOK ts -> R rest_ok (assign_target c extra with_ns ts).
  Proof.
    intros Hc Ht. unfold assign_target.
    eapply R_bind; [apply tuple_loop_ok; auto using t_elem_ok with rk; constructor|].
    intros [[[args it] ln] r] [Ha [Hl Hr]]. cbn in *.
    destruct it.
    - destruct (all_targets (map fst args)); cbn [R fst snd rest_ok]; auto.
    - destruct args as [|[t l] args]; cbn [R fst snd rest_ok]; auto with rk. inversion Ha; subst. cbn in *.
      destruct (texpr_target t); cbn [R fst snd rest_ok]; auto.
  Qed.

  Lemma name_target_ok c ts : COK c -> LOK ts -> R (fun x => L (snd (fst x)) /\ LOK (snd x)) (name_target c ts).
  Proof.
    intros Hc Ht. unfold name_target. eapply R_bind; [apply expect_name_ok; assumption|].
    intros [[s l] r] [Hl Hr]. cbn in *. destruct (const_name s); cbn [R fst snd rest_ok]; auto.
  Qed.
  Hint Resolve e_tuple_ok assign_target_ok name_target_ok : rk.

  (* ---- filters, signatures ---- *)
  Lemma filter_loop_ok c : COK c -> forall n node ts, LOK ts -> R rest_ok (filter_loop c n node ts).
  Proof.
    intros Hc. induction n as [|n IH]; intros node ts Ht; [exact I|]. cbn [filter_loop].
    destruct (hd_op OPipe ts); [|exact Ht].
    eapply R_bind; [apply run_e_ok; assumption|]. intros [e r] Hr. apply IH. exact Hr.
  Qed.
  Lemma filter_chain_ok c si ts : COK c -> LOK ts -> R rest_ok (filter_chain c si ts).
  Proof.
    intros Hc Ht. unfold filter_chain. eapply R_bind.
    - apply filter_loop_ok; [exact Hc|]. destruct si; [constructor; [cbn [snd]; auto with rk|exact Ht]|exact Ht].
    - intros [e r] Hr. exact Hr.
  Qed.

  Lemma sig_loop_ok c : COK c -> forall n args defaults ts, LOK ts -> R (fun x => LOK (snd x)) (sig_loop c n args defaults ts).
  Proof.
    intros Hc. induction n as [|n IH]; intros args defaults ts Ht; [exact I|]. cbn [sig_loop].
    destruct (hd_op ORParen ts); [cbn [R fst snd rest_ok]; auto with rk|].
    eapply R_bind with (P := LOK); [destruct args; cbn [R fst snd rest_ok]; auto with rk|]. intros ts1 H1.
    eapply R_bind; [apply name_target_ok; assumption|]. intros [[a l] ts2] [Hl H2]. cbn in Hl, H2.
    destruct (existsb (str_eqb a) args); [exact Hl|].
    destruct (hd_op OAssign ts2).
    - eapply R_bind; [apply run_e_ok; auto with rk|]. intros [d ts3] H3. apply IH. exact H3.
    - destruct defaults; [apply IH; exact H2|cbn [R fst snd rest_ok]; auto with rk].
  Qed.
  Lemma signature_ok c ts : COK c -> LOK ts -> R (fun x => LOK (snd x)) (signature c ts).
  Proof. intros Hc Ht. unfold signature. eapply R_bind; [apply expect_op_ok; assumption|]. intros. apply sig_loop_ok; assumption. Qed.

  Lemma import_context_ok d ts : LOK ts -> LOK (snd (import_context d ts)).
  Proof.
    intros Ht. unfold import_context. destruct ts as [|[t l] [|[t2 l2] r]]; try exact Ht; destruct t; try exact Ht; destruct t2; try exact Ht.
    destruct (_ && _); cbn; [|exact Ht]. inversion Ht as [|? ? _ H1]; subst. inversion H1; assumption.
  Qed.
  Hint Resolve filter_chain_ok signature_ok import_context_ok : rk.

  (* ---- statements ---- *)
  Variable eofline : nat.
  Hypothesis Heof : L eofline.
  Hypothesis HFS : FS.

  Definition SEG_ok (g : seg) : Prop :=
    match g with GData _ l => L l | GVar ts e => LOK ts /\ EOK e | GBlock ts e => LOK ts /\ EOK e end.
  Definition SEGS_ok (segs : list seg) : Prop := Forall SEG_ok segs.
  Definition ST_ok (st : tagstate) : Prop := LOK (fst (fst st)) /\ EOK (snd (fst st)) /\ SEGS_ok (snd st).
  Definition SUB_ok (x : subres) : Prop := match snd x with None => True | Some st => ST_ok st end.
  Definition sub_spec (sub : option (list str) -> list seg -> sres subres) : Prop :=
    forall ends segs, SEGS_ok segs -> R SUB_ok (sub ends segs).

  Lemma ctx_ok e : EOK e -> COK (ctx_of eofline e).
  Proof. intros H. split; [exact H|exact Heof]. Qed.
  Hint Resolve ctx_ok : rk.

  Ltac rk1 := first
    [ exact I
    | match goal with |- R _ (sbind _ _) => eapply R_bind; [solve [eauto 7 with rk] | intros] end
    | match goal with |- R _ (if ?b then _ else _) => destruct b eqn:? end
    | match goal with |- R _ (match ?x with _ => _ end) => destruct x eqn:? end
    | match goal with p : (_ * _)%type |- _ => destruct p end
    | progress cbn [R fst snd rest_ok] in *
    | match goal with H : _ /\ _ |- _ => destruct H end
    | solve [eauto 7 with rk] ].

  Lemma with_loop_ok c : COK c -> forall n tgs vals ts, LOK ts -> R (fun x => LOK (snd x)) (with_loop c n tgs vals ts).
  Proof.
    intros Hc. induction n as [|n IH]; intros tgs vals ts Ht; [exact I|]. cbn [with_loop].
    destruct (at_block_end c ts); [exact Ht|].
    eapply R_bind with (P := LOK); [destruct tgs; cbn [R fst snd rest_ok]; auto with rk|]. intros ts1 H1.
    eapply R_bind; [apply assign_target_ok; assumption|]. intros [tg ts2] H2.
    eapply R_bind; [apply expect_op_ok; [assumption|exact H2]|]. intros ts3 H3.
    eapply R_bind; [apply run_e_ok; assumption|]. intros [v ts4] H4. apply IH. exact H4.
  Qed.

  Lemma print_loop_ok c : COK c -> forall n items ts, LOK ts -> R (fun x => LOK (snd x)) (print_loop c n items ts).
  Proof.
    intros Hc. induction n as [|n IH]; intros items ts Ht; [exact I|]. cbn [print_loop].
    destruct (at_block_end c ts); [exact Ht|].
    eapply R_bind with (P := LOK); [destruct items; cbn [R fst snd rest_ok]; auto with rk|]. intros ts1 H1.
    eapply R_bind; [apply run_e_ok; assumption|]. intros [v ts2] H2. apply IH. exact H2.
  Qed.

  Lemma from_loop_ok c : COK c -> forall n names ts, LOK ts -> R (fun x => LOK (snd x)) (from_loop c n names ts).
  Proof.
    intros Hc. induction n as [|n IH]; intros names ts Ht; [exact I|]. cbn [from_loop].
    eapply R_bind with (P := LOK); [destruct names; cbn [R fst snd rest_ok]; auto with rk|]. intros ts1 H1.
    assert (CTXM : forall t, LOK t -> forall wc r2,
              match t with
              | (KName a, _) :: (KName b, _) :: r2 =>
                  if (str_eqb a w_with || str_eqb a w_without) && str_eqb b w_context then Some (str_eqb a w_with, r2) else None
              | _ => None
              end = Some (wc, r2) -> LOK r2).
    { intros t Htt wc r2 E. destruct t as [|[t1 l1] [|[t2 l2] r]]; try discriminate; destruct t1; try discriminate; destruct t2; try discriminate.
      destruct (_ && _); [|discriminate]. injection E as _ <-. inversion Htt as [|? ? _ H']; subst. inversion H'; assumption. }
    destruct ts1 as [|[t l] r]; [cbn [R fst snd rest_ok]; auto with rk|].
    destruct t; try (cbn [R]; apply (cline_ok c _ Hc H1)).
    match goal with |- R _ (match ?m with _ => _ end) => destruct m as [[wc r2]|] eqn:E end.
    - cbn [R snd]. eapply CTXM; [exact H1|exact E].
    - eapply R_bind; [apply name_target_ok; assumption|]. intros [[nm l1] ts2] [Hl1 H2]. cbn [fst snd] in *.
      destruct (match nm with [] => false | ch :: _ => N.eqb ch 95 end); [exact Hl1|].
      eapply R_bind with (P := fun x => LOK (snd x)).
      + destruct (hd_name w_as ts2); [|exact H2].
        eapply R_bind; [apply name_target_ok; auto with rk|]. intros [[al l2] t3] [_ H3]. exact H3.
      + intros [entry ts3] H3. cbn [snd] in H3.
        match goal with |- R _ (match ?m with _ => _ end) => destruct m as [[wc r2]|] eqn:E2 end.
        * cbn [R snd]. eapply CTXM; [exact H3|exact E2].
        * destruct (hd_op OComma ts3); [apply IH; exact H3|exact H3].
  Qed.
  Hint Resolve with_loop_ok print_loop_ok from_loop_ok : rk.

  Section WithSub.
    Variable sub : option (list str) -> list seg -> sres subres.
    Hypothesis Hsub : sub_spec sub.

    Lemma parse_statements_ok ends drop st : ST_ok st -> R (fun x => ST_ok (snd x)) (parse_statements eofline sub ends drop st).
    Proof.
      destruct st as [[ts e] segs]. intros [Ht [He Hs]]. cbn [fst snd] in *. unfold parse_statements.
      assert (H1 : LOK (if hd_op OColon ts then tl ts else ts)) by (destruct (hd_op OColon ts); auto with rk).
      destruct (negb _); [cbn [R]; auto with rk|].
      eapply R_bind; [apply Hsub; exact Hs|]. intros [body st2] H2. unfold SUB_ok in H2. cbn [snd] in H2.
      destruct st2 as [[[ts2 e2] segs2]|]; [|exact Heof].
      destruct H2 as [A [B C]]. cbn [fst snd] in *. cbn [R snd]. split; [destruct drop; cbn [fst]; auto with rk|split; assumption].
    Qed.

    Lemma if_chain_ok : forall k st, ST_ok st -> R (fun x => ST_ok (snd x)) (if_chain eofline sub k st).
    Proof.
      induction k as [|k IH]; intros st Hst; [exact HFS|]. destruct st as [[ts e] segs]. destruct Hst as [Ht [He Hs]]. cbn [fst snd] in *.
      cbn [if_chain].
      eapply R_bind; [apply e_tuple_ok; auto with rk|]. intros [test ts1] H1.
      eapply R_bind; [apply parse_statements_ok; split; [exact H1|split; assumption]|].
      intros [body [[ts2 e2] segs2]] [A [B C]]. cbn [fst snd] in *.
      destruct (hd_name w_elif ts2).
      - eapply R_bind; [apply IH; split; [cbn; auto with rk|split; assumption]|].
        intros [[[[t2 b2] elifs] else_] st3] H3. exact H3.
      - destruct (hd_name w_else ts2).
        + eapply R_bind; [apply parse_statements_ok; split; [cbn; auto with rk|split; assumption]|].
          intros [else_ st3] H3. exact H3.
        + cbn [R snd]. split; [cbn; auto with rk|split; assumption].
    Qed.

    Lemma parse_statement_ok st : ST_ok st -> R (fun x => ST_ok (snd x)) (parse_statement eofline sub st).
    Proof.
      destruct st as [[ts e] segs]. intros [Ht [He Hs]]. cbn [fst snd] in *. unfold parse_statement.
      assert (Hc : COK (ctx_of eofline e)) by auto with rk.
      destruct ts as [|[t tagl] ts0]; [cbn [R]; auto with rk|].
      destruct t; try (cbn [R]; apply (cline_ok _ _ Hc Ht)).
      inversion Ht as [|? ? Htl Ht0]; subst. cbn [snd] in Htl.
      assert (PS : forall ends drop ts' , LOK ts' -> R (fun x => ST_ok (snd x)) (parse_statements eofline sub ends drop (ts', e, segs)))
        by (intros; apply parse_statements_ok; split; [assumption|split; assumption]).
      assert (PS2 : forall ends drop st', ST_ok st' -> R (fun x => ST_ok (snd x)) (parse_statements eofline sub ends drop st'))
        by (intros; apply parse_statements_ok; assumption).
      assert (STK : forall ts', LOK ts' -> ST_ok (ts', e, segs)) by (intros; split; [assumption|split; assumption]).
      repeat match goal with |- R _ (if str_eqb s ?w then _ else _) => destruct (str_eqb s w) end.
      all: try exact Htl.
      - (* for *)
        eapply R_bind; [apply assign_target_ok; assumption|]. intros [tg ts1] H1.
        eapply R_bind; [apply expect_kw_ok; [assumption|exact H1]|]. intros ts2 H2.
        eapply R_bind; [apply e_tuple_ok; assumption|]. intros [iter ts3] H3. cbn [rest_ok snd] in H3.
        eapply R_bind with (P := fun x => LOK (snd x)).
        { destruct (hd_name k_if ts3); [|exact H3]. eapply R_bind; [apply run_e_ok; auto with rk|]. intros [t r] Hr. exact Hr. }
        intros [test ts4] H4. cbn [snd] in H4.
        pose proof (skip_kw_ok w_recursive ts4 H4) as H5. destruct (skip_kw w_recursive ts4) as [recursive ts5]. cbn [snd] in H5.
        eapply R_bind; [apply PS; exact H5|]. intros [body [[ts6 e6] segs6]] [A [B C]]. cbn [fst snd] in *.
        destruct (hd_name w_endfor ts6).
        + cbn [R snd]. split; [cbn; auto with rk|split; assumption].
        + eapply R_bind; [apply PS2; split; [cbn; auto with rk|split; assumption]|]. intros [else_ st7] H7. exact H7.
      - (* if *)
        eapply R_bind; [apply if_chain_ok; apply STK; exact Ht0|]. intros [[[[test body] elifs] else_] st2] H2. exact H2.
      - (* set *)
        eapply R_bind; [apply assign_target_ok; assumption|]. intros [tg ts1] H1. cbn [rest_ok snd] in H1.
        destruct (hd_op OAssign ts1).
        + eapply R_bind; [apply e_tuple_ok; auto with rk|]. intros [v ts2] H2. cbn [R snd]. apply STK. exact H2.
        + eapply R_bind; [apply filter_chain_ok; assumption|]. intros [f ts2] H2.
          eapply R_bind; [apply PS; exact H2|]. intros [body st3] H3. exact H3.
      - (* with *)
        eapply R_bind; [apply with_loop_ok; assumption|]. intros [[tgs vals] ts1] H1.
        eapply R_bind; [apply PS; exact H1|]. intros [body st2] H2. exact H2.
      - (* autoescape *)
        eapply R_bind; [apply run_e_ok; assumption|]. intros [v ts1] H1.
        eapply R_bind; [apply PS; exact H1|]. intros [body st2] H2. exact H2.
      - (* block *)
        eapply R_bind; [apply expect_name_ok; assumption|]. intros [[name l] ts1] [_ H1]. cbn [fst snd] in H1.
        pose proof (skip_kw_ok w_scoped ts1 H1) as H2. destruct (skip_kw w_scoped ts1) as [scoped ts2]. cbn [snd] in H2.
        pose proof (skip_kw_ok w_required ts2 H2) as H3. destruct (skip_kw w_required ts2) as [required ts3]. cbn [snd] in H3.
        destruct (hd_op OSub ts3); [cbn [R]; auto with rk|].
        eapply R_bind; [apply PS; exact H3|]. intros [body [[ts4 e4] segs4]] [A [B C]]. cbn [fst snd] in *.
        destruct (required && _); [cbn [R]; auto with rk|].
        cbn [R snd]. split; [cbn [fst]; apply skip_kw_ok; exact A|split; assumption].
      - (* extends *)
        eapply R_bind; [apply run_e_ok; assumption|]. intros [v ts1] H1. cbn [R snd]. apply STK. exact H1.
      - (* include *)
        eapply R_bind; [apply run_e_ok; assumption|]. intros [v ts1] H1. cbn [rest_ok snd] in H1.
        match goal with |- R _ (let '(_, _) := ?m in _) => assert (HM : LOK (snd m)); [|destruct m as [ign ts2]] end.
        { destruct ts1 as [|[t1 l1] [|[t2 l2] r]]; try exact H1; destruct t1; try exact H1; destruct t2; try exact H1.
          destruct (_ && _); cbn [snd]; [|exact H1]. inversion H1 as [|? ? _ H']; subst. inversion H'; assumption. }
        cbn [snd] in HM. pose proof (import_context_ok true ts2 HM) as H3. destruct (import_context true ts2) as [wc ts3].
        cbn [R snd]. apply STK. exact H3.
      - (* import *)
        eapply R_bind; [apply run_e_ok; assumption|]. intros [v ts1] H1.
        eapply R_bind; [apply expect_kw_ok; [assumption|exact H1]|]. intros ts2 H2.
        eapply R_bind; [apply name_target_ok; assumption|]. intros [[nm l] ts3] [_ H3]. cbn [fst snd] in H3.
        pose proof (import_context_ok false ts3 H3) as H4. destruct (import_context false ts3) as [wc ts4].
        cbn [R snd]. apply STK. exact H4.
      - (* from *)
        eapply R_bind; [apply run_e_ok; assumption|]. intros [v ts1] H1.
        eapply R_bind; [apply expect_kw_ok; [assumption|exact H1]|]. intros ts2 H2.
        eapply R_bind; [apply from_loop_ok; assumption|]. intros [[names wc] ts3] H3. cbn [R snd]. apply STK. exact H3.
      - (* macro *)
        eapply R_bind; [apply name_target_ok; assumption|]. intros [[nm l] ts1] [_ H1]. cbn [fst snd] in H1.
        eapply R_bind; [apply signature_ok; assumption|]. intros [[args defaults] ts2] H2.
        eapply R_bind; [apply PS; exact H2|]. intros [body st3] H3. exact H3.
      - (* call *)
        eapply R_bind with (P := fun x => LOK (snd x)).
        { destruct (hd_op OLParen ts0); [apply signature_ok; assumption|exact Ht0]. }
        intros [[args defaults] ts1] H1. cbn [snd] in H1.
        eapply R_bind; [apply run_e_ok; assumption|]. intros [cl ts2] H2.
        destruct cl; try exact Htl.
        eapply R_bind; [apply PS; exact H2|]. intros [body st3] H3. exact H3.
      - (* filter *)
        eapply R_bind; [apply filter_chain_ok; assumption|]. intros [f ts1] H1.
        eapply R_bind; [apply PS; exact H1|]. intros [body st2] H2. exact H2.
      - (* print *)
        eapply R_bind; [apply print_loop_ok; assumption|]. intros [items ts1] H1. cbn [R snd]. apply STK. exact H1.
    Qed.
  End WithSub.

  Theorem subparse_ok : forall n ends segs buf body, SEGS_ok segs -> R SUB_ok (subparse eofline n ends segs buf body).
  Proof.
    induction n as [|n IH]; intros ends segs buf body Hs; [exact HFS|]. cbn [subparse].
    destruct segs as [|g r]; [exact I|]. inversion Hs as [|? ? Hg Hr]; subst.
    destruct g as [s l|ts e|ts e].
    - apply IH. exact Hr.
    - destruct Hg as [Ht He].
      eapply R_bind; [apply e_tuple_ok; [split; [exact He|exact Heof]|exact Ht]|]. intros [v ts1] H1.
      destruct (at_block_end _ ts1); [apply IH; exact Hr|]. cbn [R]. apply cline_ok; [split; [exact He|exact Heof]|exact H1].
    - destruct Hg as [Ht He].
      match goal with |- R _ (if ?b then _ else _) => destruct b end.
      + cbn [R]. unfold SUB_ok. cbn [snd]. split; [exact Ht|split; assumption].
      + eapply R_bind.
        * apply parse_statement_ok; [intros en sg Hsg; apply IH; exact Hsg|split; [exact Ht|split; assumption]].
        * intros [s [[ts1 e1] r1]] [A [B C]]. cbn [fst snd] in *.
          destruct (at_block_end _ ts1); [apply IH; exact C|]. cbn [R]. apply cline_ok; [split; [exact B|exact Heof]|exact A].
  Qed.
End Lines.

(* ---- from the token stream to segments ---- *)
Definition Lts (ts : list lstok) (l : nat) : Prop := In l (map snd ts) \/ l = eof_line ts.

Lemma segs_go_ok (L : nat -> Prop) : forall ts cur acc segs,
  (forall t, In t ts -> L (snd t)) ->
  (forall b toks, cur = Some (b, toks) -> LOK L toks) ->
  Forall (SEG_ok L) acc ->
  segs_go ts cur acc = Some segs -> SEGS_ok L segs.
Proof.
  induction ts as [|[t l] r IH]; intros cur acc segs Hts Hcur Hacc E; cbn [segs_go] in E.
  - destruct cur as [[b toks]|]; injection E as <-; [|apply Forall_rev; exact Hacc].
    unfold SEGS_ok. cbn [rev]. apply Forall_app. split; [apply Forall_rev; exact Hacc|]. constructor; [|constructor].
    unfold close_seg. destruct b; cbn; (split; [apply Forall_rev; apply (Hcur _ _ eq_refl)|discriminate]).
  - assert (Hl : L l) by (apply (Hts (t, l)); left; reflexivity).
    assert (Hr : forall t0, In t0 r -> L (snd t0)) by (intros; apply Hts; right; assumption).
    destruct cur as [[b toks]|].
    + pose proof (Hcur _ _ eq_refl) as Hk.
      destruct t; try discriminate.
      * destruct b; [discriminate|]. apply (IH None (GVar (rev toks) (Some l) :: acc) segs Hr); [discriminate| |exact E].
        constructor; [|exact Hacc]. cbn. split; [apply Forall_rev; exact Hk|intros l0 H0; injection H0 as <-; exact Hl].
      * destruct b; [|discriminate]. apply (IH None (GBlock (rev toks) (Some l) :: acc) segs Hr); [discriminate| |exact E].
        constructor; [|exact Hacc]. cbn. split; [apply Forall_rev; exact Hk|intros l0 H0; injection H0 as <-; exact Hl].
      * apply (IH (Some (b, (t, l) :: toks)) acc segs Hr); [|exact Hacc|exact E].
        intros b0 toks0 H0. injection H0 as <- <-. constructor; [exact Hl|exact Hk].
    + destruct t; try discriminate.
      * apply (IH None (GData s l :: acc) segs Hr); [discriminate| |exact E]. constructor; [exact Hl|exact Hacc].
      * apply (IH (Some (false, [])) acc segs Hr); [|exact Hacc|exact E]. intros b toks H0. injection H0 as <- <-. constructor.
      * apply (IH (Some (true, [])) acc segs Hr); [|exact Hacc|exact E]. intros b toks H0. injection H0 as <- <-. constructor.
Qed.

(* parse_total_no_internal: on every stream of the shape the lexer emits, with any fuel, the parser
   returns a tree, or a TemplateSyntaxError whose line is the line of a token of the stream (or of the
   eof token), or an unsupported / out-of-fuel outcome -- never Internal *)
Theorem parse_total_no_internal : forall (ts : list lstok) (n : nat),
  wf_stream ts = true ->
  match parse_with n ts with
  | SOk _ => True
  | SSyntaxErr l => In l (map snd ts) \/ l = eof_line ts
  | SInternal _ => False
  | SUnsup | SFuelStmt | SFuelTag | SFuelExpr => True
  end.
Proof.
  intros ts n Hwf. unfold parse_with, wf_stream in *. destruct (segments ts) as [segs|] eqn:E; [|discriminate].
  assert (Hs : SEGS_ok (Lts ts) segs).
  { apply (segs_go_ok (Lts ts) ts None [] segs); [|discriminate|constructor|exact E].
    intros t Hin. left. apply in_map. exact Hin. }
  pose proof (subparse_ok (Lts ts) True (eof_line ts) (or_intror eq_refl) I n None segs [] [] Hs) as H.
  destruct (subparse (eof_line ts) n None segs [] []) as [[body st]| | | | | |]; cbn in *; auto.
Qed.

(* ---- statement-level fuel: one unit per segment is enough ---- *)
Section Fuel.
  Let Lt : nat -> Prop := fun _ => True.
  Definition RT {A} (P : A -> Prop) (r : sres A) : Prop := R Lt False P r.
  Lemma LOK_true ts : LOK Lt ts.
  Proof. apply Forall_forall. intros; exact I. Qed.
  Lemma COK_true c : COK Lt c.
  Proof. split; [intros l _; exact I|exact I]. Qed.
  Hint Resolve LOK_true COK_true : rk.
  Variable eofline : nat.

  Definition post (n0 : nat) (x : subres) : Prop :=
    match snd x with Some st => length (snd st) < n0 | None => True end.
  Definition sub_len (m : nat) (sub : option (list str) -> list seg -> sres subres) : Prop :=
    forall ends sg, length sg < m -> RT (post (length sg)) (sub ends sg).

  Ltac inner lem := eapply R_bind; [apply lem; auto with rk|intros].

  Section WithSub.
    Variable sub : option (list str) -> list seg -> sres subres.
    Variable m : nat.
    Hypothesis Hsub : sub_len m sub.

    Lemma parse_statements_len ends drop ts e segs : length segs < m ->
      RT (fun x => length (snd (snd x)) < length segs) (parse_statements eofline sub ends drop (ts, e, segs)).
    Proof.
      intros Hm. unfold parse_statements. destruct (negb _); [exact I|].
      eapply R_bind; [apply Hsub; exact Hm|]. intros [body st2] H2. unfold post in H2. cbn [snd] in H2.
      destruct st2 as [[[ts2 e2] segs2]|]; [|exact I]. cbn in *. exact H2.
    Qed.

    Lemma if_chain_len : forall k ts e segs, length segs < k -> length segs < m ->
      RT (fun x => length (snd (snd x)) < length segs) (if_chain eofline sub k (ts, e, segs)).
    Proof.
      induction k as [|k IH]; intros ts e segs Hk Hm; [lia|]. cbn [if_chain].
      inner e_tuple_ok. destruct a as [test ts1].
      eapply R_bind; [apply parse_statements_len; exact Hm|]. intros [body [[ts2 e2] segs2]] H2. cbn [snd] in H2.
      destruct (hd_name w_elif ts2).
      - eapply R_bind; [apply IH; lia|]. intros [[[[t2 b2] elifs] else_] [[ts3 e3] segs3]] H3. cbn in *. lia.
      - destruct (hd_name w_else ts2).
        + eapply R_bind; [apply parse_statements_len; lia|]. intros [else_ [[ts3 e3] segs3]] H3. cbn in *. lia.
        + cbn. exact H2.
    Qed.

    Lemma parse_statement_len ts e segs : length segs < m ->
      RT (fun x => length (snd (snd x)) <= length segs) (parse_statement eofline sub (ts, e, segs)).
    Proof.
      intros Hm. unfold parse_statement.
      destruct ts as [|[t tagl] ts0]; [exact I|]. destruct t; try exact I.
      assert (PS : forall ends drop ts', RT (fun x => length (snd (snd x)) <= length segs) (parse_statements eofline sub ends drop (ts', e, segs))).
      { intros. eapply R_weaken; [apply parse_statements_len; exact Hm|]. intros a Ha. cbn beta in *. lia. }
      assert (PS2 : forall ends drop ts' e' segs', length segs' < length segs ->
                 RT (fun x => length (snd (snd x)) <= length segs) (parse_statements eofline sub ends drop (ts', e', segs'))).
      { intros. eapply R_weaken; [apply parse_statements_len; lia|]. intros a Ha. cbn beta in *. lia. }
      unfold RT. repeat match goal with |- R _ _ _ (if str_eqb s ?w then _ else _) => destruct (str_eqb s w) end.
      all: try exact I.
      - inner assign_target_ok. destruct a as [tg ts1]. inner expect_kw_ok. inner e_tuple_ok. destruct a0 as [iter ts3].
        eapply R_bind with (P := fun _ => True).
        { destruct (hd_name k_if ts3); [|exact I]. inner run_e_ok. destruct a0. exact I. }
        intros [test ts4] _. destruct (skip_kw w_recursive ts4) as [recursive ts5].
        eapply R_bind; [apply parse_statements_len; exact Hm|]. intros [body [[ts6 e6] segs6]] H6. cbn [snd] in H6.
        destruct (hd_name w_endfor ts6); [cbn; lia|].
        eapply R_bind; [apply PS2; exact H6|]. intros [else_ st7] H7. exact H7.
      - eapply R_bind; [apply if_chain_len; [lia|exact Hm]|]. intros [[[[test body] elifs] else_] st2] H2. cbn in *. lia.
      - inner assign_target_ok. destruct a as [tg ts1]. destruct (hd_op OAssign ts1).
        + inner e_tuple_ok. destruct a as [v ts2]. cbn. lia.
        + inner filter_chain_ok. destruct a as [f ts2]. eapply R_bind; [apply PS|]. intros [body st3] H3. exact H3.
      - inner with_loop_ok. destruct a as [[tgs vals] ts1]. eapply R_bind; [apply PS|]. intros [body st2] H2. exact H2.
      - inner run_e_ok. destruct a as [v ts1]. eapply R_bind; [apply PS|]. intros [body st2] H2. exact H2.
      - inner expect_name_ok. destruct a as [[name l] ts1].
        destruct (skip_kw w_scoped ts1) as [scoped ts2]. destruct (skip_kw w_required ts2) as [required ts3].
        destruct (hd_op OSub ts3); [exact I|].
        eapply R_bind; [apply PS|]. intros [body [[ts4 e4] segs4]] H4. destruct (required && _); [exact I|]. cbn in *. exact H4.
      - inner run_e_ok. destruct a as [v ts1]. cbn. lia.
      - inner run_e_ok. destruct a as [v ts1].
        match goal with |- R _ _ _ (let '(_, _) := ?mm in _) => destruct mm as [ign ts2] end.
        destruct (import_context true ts2) as [wc ts3]. cbn. lia.
      - inner run_e_ok. destruct a as [v ts1]. inner expect_kw_ok. inner name_target_ok. destruct a0 as [[nm l] ts3].
        destruct (import_context false ts3) as [wc ts4]. cbn. lia.
      - inner run_e_ok. destruct a as [v ts1]. inner expect_kw_ok. inner from_loop_ok. destruct a0 as [[names wc] ts3]. cbn. lia.
      - inner name_target_ok. destruct a as [[nm l] ts1]. inner signature_ok. destruct a as [[args defaults] ts2].
        eapply R_bind; [apply PS|]. intros [body st3] H3. exact H3.
      - eapply R_bind with (P := fun _ => True).
        { destruct (hd_op OLParen ts0); [|exact I]. eapply R_weaken; [apply signature_ok; auto with rk|]. intros; exact I. }
        intros [[args defaults] ts1] _. inner run_e_ok. destruct a as [cl ts2]. destruct cl; try exact I.
        eapply R_bind; [apply PS|]. intros [body st3] H3. exact H3.
      - inner filter_chain_ok. destruct a as [f ts1]. eapply R_bind; [apply PS|]. intros [body st2] H2. exact H2.
      - inner print_loop_ok. destruct a as [items ts1]. cbn. lia.
    Qed.
  End WithSub.

  Theorem subparse_len : forall n ends segs buf body, length segs < n ->
    RT (post (length segs)) (subparse eofline n ends segs buf body).
  Proof.
    induction n as [|n IH]; intros ends segs buf body Hn; [lia|]. cbn [subparse].
    destruct segs as [|g r]; [exact I|]. cbn [length] in Hn.
    assert (W : forall r1 buf1 body1, length r1 <= length r -> RT (post (length (g :: r))) (subparse eofline n ends r1 buf1 body1)).
    { intros r1 buf1 body1 Hl. eapply R_weaken; [apply IH; lia|]. intros [b st] Hp. unfold post in *. cbn [snd length] in *.
      destruct st as [[[? ?] ?]|]; [cbn in *; lia|exact I]. }
    destruct g as [s l|ts e|ts e].
    - apply W. lia.
    - inner e_tuple_ok. destruct a as [v ts1]. destruct (at_block_end _ ts1); [apply W; lia|exact I].
    - unfold RT. match goal with |- R _ _ _ (if ?b then _ else _) => destruct b end.
      + unfold post. cbn. lia.
      + eapply R_bind.
        * apply (parse_statement_len (fun en sg => subparse eofline n en sg [] []) n); [|lia].
          intros en sg Hsg. apply IH. exact Hsg.
        * intros [s [[ts1 e1] r1]] H1. cbn [snd] in H1. destruct (at_block_end _ ts1); [apply W; exact H1|exact I].
  Qed.
End Fuel.

(* parse_fuel_adequate (statement level): with one unit of fuel per token (any bound above the
   number of segments) the statement parser never runs out of ITS fuel.  What remains outside:
   SFuelTag (loops inside one tag, fuel = tokens of the tag + 2) and SFuelExpr (the expression
   parser's default fuel 40 * (tokens + 2)); K-parse checks on every explored stream that neither occurs. *)
Lemma segs_go_length : forall ts cur acc segs, segs_go ts cur acc = Some segs -> length segs <= length ts + length acc + 1.
Proof.
  induction ts as [|[t l] r IH]; intros cur acc segs E; cbn [segs_go] in E.
  - destruct cur as [[b toks]|]; injection E as <-; cbn [rev]; rewrite ?app_length, ?rev_length; cbn [length]; lia.
  - destruct cur as [[b toks]|]; destruct t; try discriminate; try (destruct b; try discriminate);
      apply IH in E; cbn [length] in *; lia.
Qed.

Theorem parse_fuel_adequate_stmt : forall (ts : list lstok) (n : nat),
  length ts + 2 <= n -> parse_with n ts <> SFuelStmt.
Proof.
  intros ts n Hn. unfold parse_with. destruct (segments ts) as [segs|] eqn:E; [|discriminate].
  pose proof (segs_go_length ts None [] segs E) as Hl. cbn in Hl.
  pose proof (subparse_len (eof_line ts) n None segs [] [] ltac:(lia)) as H.
  destruct (subparse (eof_line ts) n None segs [] []) as [[body st]| | | | | |]; cbn in *; try discriminate. contradiction.
Qed.
