(* C13 lemmas: compile_rules orders the start rules by decreasing length, so at one position
   the longest matching start string wins. *)
From Coq Require Import List NArith Bool Arith Lia Sorted.
Import ListNotations.
From JV Require Import Model.LexBase Model.LexTokeniter.
Open Scope N_scope.

Definition len_ge (a b : tagk * str) : Prop := (length (snd b) <= length (snd a))%nat.

Lemma rule_before_true : forall a b, rule_before a b = true -> len_ge a b.
Proof.
  intros a b H. unfold rule_before in H. unfold len_ge. apply orb_true_iff in H as [H|H].
  - apply Nat.ltb_lt in H. lia.
  - apply andb_true_iff in H as [H _]. apply Nat.eqb_eq in H. lia.
Qed.

Lemma rule_before_false : forall a b, rule_before a b = false -> len_ge b a.
Proof.
  intros a b H. unfold rule_before in H. unfold len_ge. apply orb_false_iff in H as [H _].
  apply Nat.ltb_ge in H. lia.
Qed.

Lemma rule_insert_forall : forall (P : tagk * str -> Prop) a l, P a -> Forall P l -> Forall P (rule_insert a l).
Proof.
  intros P a l Ha Hl. induction Hl as [|b r Hb Hr IH]; cbn [rule_insert]; [constructor; auto|].
  destruct (rule_before a b); constructor; auto.
Qed.

Lemma rule_insert_sorted : forall a l, StronglySorted len_ge l -> StronglySorted len_ge (rule_insert a l).
Proof.
  intros a l H. induction H as [|b r Hs IH Hall]; cbn [rule_insert]; [repeat constructor|].
  destruct (rule_before a b) eqn:E.
  - constructor; [constructor; assumption|]. apply rule_before_true in E. constructor; [exact E|].
    eapply Forall_impl; [|exact Hall]. intros x Hx. unfold len_ge in *. lia.
  - constructor; [exact IH|]. apply rule_insert_forall; [apply rule_before_false; exact E|exact Hall].
Qed.

Lemma compile_rules_sorted : forall c, StronglySorted len_ge (compile_rules c).
Proof.
  intros c. unfold compile_rules. generalize (match c_lcp c with
    | Some p => (match c_lsp c with Some p0 => [(KComment, c_cs c); (KBlock, c_bs c); (KVar, c_vs c)] ++ [(KLs, p0)]
                                  | None => [(KComment, c_cs c); (KBlock, c_bs c); (KVar, c_vs c)] end) ++ [(KLc, p)]
    | None => match c_lsp c with Some p0 => [(KComment, c_cs c); (KBlock, c_bs c); (KVar, c_vs c)] ++ [(KLs, p0)]
                                | None => [(KComment, c_cs c); (KBlock, c_bs c); (KVar, c_vs c)] end end).
  intros l. induction l as [|a l IH]; cbn [fold_right]; [constructor|]. apply rule_insert_sorted. exact IH.
Qed.

(* the rule chosen at a position is the first matching one of a length-sorted list:
   no matching rule has a longer start string *)
Lemma try_alts_longest : forall c rules prev s k n sg,
  StronglySorted len_ge rules ->
  try_alts c rules prev s = Some (k, n, sg) ->
  exists d, In (k, d) rules /\ try_alt c prev s (k, d) = Some (n, sg) /\
    forall k' d', In (k', d') rules -> try_alt c prev s (k', d') <> None -> (length d' <= length d)%nat.
Proof.
  intros c rules prev s k n sg Hs. induction Hs as [|[k0 d0] r Hs IH Hall]; intros H; [discriminate|].
  cbn [try_alts] in H. destruct (try_alt c prev s (k0, d0)) as [[n0 sg0]|] eqn:E.
  - injection H as <- <- <-. exists d0. split; [left; reflexivity|]. split; [exact E|].
    intros k' d' [Hin|Hin] _.
    + injection Hin as _ <-. lia.
    + rewrite Forall_forall in Hall. apply (Hall (k', d') Hin).
  - apply IH in H as (d & Hin & Hm & Hmax). exists d. split; [right; exact Hin|]. split; [exact Hm|].
    intros k' d' [Hin'|Hin'] Hne.
    + injection Hin' as <- <-. rewrite E in Hne. contradiction.
    + apply (Hmax k' d' Hin' Hne).
Qed.
