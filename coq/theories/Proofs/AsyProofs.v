(* Lemmas for C09 (Model/Asy.v). *)
From Coq Require Import List ZArith Bool Lia.
Import ListNotations.
From JV Require Import Model.Asy.
Open Scope Z_scope.

(* ---------------------------------------------------------------- part 1 *)
Lemma erase_decorate s : plain s = true -> erase (decorate s) = s.
Proof.
  induction s as [z|x|a IHa b IHb|f a IHa|e IHe|asy ai it IHit body IHb]; cbn; intros P; try reflexivity.
  - apply andb_true_iff in P as [Pa Pb]. now rewrite IHa, IHb.
  - now rewrite IHa.
  - discriminate.
  - apply andb_true_iff in P as [P Pb]. apply andb_true_iff in P as [P Pi]. apply andb_true_iff in P as [Pa Pai].
    apply negb_true_iff in Pa, Pai. subst. now rewrite IHit, IHb.
Qed.

Lemma erase_plain e : plain (erase e) = true.
Proof.
  induction e as [z|x|a IHa b IHb|f a IHa|e IHe|asy ai it IHit body IHb]; cbn; try reflexivity; try assumption.
  - now rewrite IHa, IHb.
  - now rewrite IHit, IHb.
Qed.

Lemma unwrap_wrap v : sync_val v = true -> unwrapv (wrapv v) = v.
Proof.
  destruct v as [z|a l|v]; cbn; intros H; [reflexivity| |discriminate]. apply negb_true_iff in H. now subst.
Qed.

Definition fn_sync (fn : nat -> val -> val) : Prop := forall f v, sync_val v = true -> sync_val (fn f v) = true.
Definition rho_sync (rho : list val) : Prop := Forall (fun v => sync_val v = true) rho.

Lemma sum_body_int ev rho l : forall acc v, sum_body ev rho l acc = Some v -> exists z, v = VInt z.
Proof.
  induction l as [|x r IH]; intros acc v H; cbn in H.
  - injection H as <-. now exists acc.
  - destruct (ev (VInt x :: rho)) as [[y| |]|]; try discriminate. exact (IH _ _ H).
Qed.

(* a plain program over plain data computes plain values *)
Lemma eval_sync_val fn s : fn_sync fn -> forall rho v, plain s = true -> rho_sync rho -> eval fn rho s = Some v -> sync_val v = true.
Proof.
  intros F. induction s as [z|x|a IHa b IHb|f a IHa|e IHe|asy ai it IHit body IHb]; intros rho v P R H; cbn in *.
  - injection H as <-. reflexivity.
  - unfold rho_sync in R. rewrite Forall_forall in R. apply R. exact (nth_error_In _ _ H).
  - destruct (eval fn rho a) as [[x| |]|]; try discriminate. destruct (eval fn rho b) as [[y| |]|]; try discriminate.
    injection H as <-. reflexivity.
  - destruct (eval fn rho a) as [va|] eqn:Ea; [|discriminate]. injection H as <-. apply F. exact (IHa rho va P R Ea).
  - discriminate.
  - destruct (eval fn rho it) as [[z|af l|c]|]; try discriminate. destruct (iter_ok asy ai af); [|discriminate].
    destruct (sum_body_int _ _ _ _ _ H) as [z ->]. reflexivity.
Qed.

Lemma sum_body_ext ev1 ev2 rho1 rho2 l : forall acc,
  (forall x, ev1 (VInt x :: rho1) = option_map wrapv (ev2 (VInt x :: rho2))) ->
  sum_body ev1 rho1 l acc = option_map wrapv (sum_body ev2 rho2 l acc).
Proof.
  induction l as [|x r IH]; intros acc E; cbn; [reflexivity|].
  rewrite (E x). destruct (ev2 (VInt x :: rho2)) as [[y|a l'|c]|]; cbn; try reflexivity. exact (IH _ E).
Qed.

(* await erasure: the decorated program on wrapped data computes the wrapped result of the plain
   program on plain data *)
Lemma await_erasure_gen fn s : fn_sync fn -> forall rho, plain s = true -> rho_sync rho ->
  eval (wrap_fn fn) (map wrapv rho) (decorate s) = option_map wrapv (eval fn rho s).
Proof.
  intros F. induction s as [z|x|a IHa b IHb|f a IHa|e IHe|asy ai it IHit body IHb]; intros rho P R; cbn [decorate eval plain] in *.
  - reflexivity.
  - apply nth_error_map.
  - apply andb_true_iff in P as [Pa Pb]. rewrite (IHa rho Pa R), (IHb rho Pb R).
    destruct (eval fn rho a) as [[x|af l|c]|]; cbn; try reflexivity;
    destruct (eval fn rho b) as [[y|bf l'|c']|]; cbn; reflexivity.
  - rewrite (IHa rho P R). destruct (eval fn rho a) as [va|] eqn:Ea; cbn; [|reflexivity].
    unfold wrap_fn. rewrite (unwrap_wrap va (eval_sync_val fn a F rho va P R Ea)). reflexivity.
  - discriminate.
  - apply andb_true_iff in P as [P Pb]. apply andb_true_iff in P as [P Pi]. apply andb_true_iff in P as [Pa Pai].
    apply negb_true_iff in Pa, Pai. subst asy ai.
    rewrite (IHit rho Pi R). destruct (eval fn rho it) as [[z|af l|c]|] eqn:Ei; cbn; try reflexivity.
    pose proof (eval_sync_val fn it F rho _ Pi R Ei) as S. cbn in S. apply negb_true_iff in S. subst af. cbn.
    apply sum_body_ext. intros x. change (VInt x :: map wrapv rho) with (map wrapv (VInt x :: rho)).
    apply IHb; [exact Pb|]. constructor; [reflexivity|exact R].
Qed.

(* async mode over plain data: auto_await and auto_aiter let everything through *)
Definition no_coro (fn : nat -> val -> val) : Prop := forall f v, match fn f v with VCoro _ => False | _ => True end.

Lemma sum_body_ext_id ev1 ev2 rho l : forall acc,
  (forall x, ev1 (VInt x :: rho) = ev2 (VInt x :: rho)) -> sum_body ev1 rho l acc = sum_body ev2 rho l acc.
Proof.
  induction l as [|x r IH]; intros acc E; cbn; [reflexivity|]. rewrite (E x).
  destruct (ev2 (VInt x :: rho)) as [[y|a l'|c]|]; try reflexivity. exact (IH _ E).
Qed.

Lemma async_over_plain_data fn s : fn_sync fn -> forall rho, plain s = true -> rho_sync rho ->
  eval fn rho (decorate s) = eval fn rho s.
Proof.
  intros F. induction s as [z|x|a IHa b IHb|f a IHa|e IHe|asy ai it IHit body IHb]; intros rho P R; cbn [decorate eval plain] in *;
    try reflexivity.
  - apply andb_true_iff in P as [Pa Pb]. now rewrite (IHa rho Pa R), (IHb rho Pb R).
  - rewrite (IHa rho P R). destruct (eval fn rho a) as [va|] eqn:Ea; [|reflexivity].
    pose proof (F f va (eval_sync_val fn a F rho va P R Ea)) as S. destruct (fn f va); try reflexivity. discriminate.
  - discriminate.
  - apply andb_true_iff in P as [P Pb]. apply andb_true_iff in P as [P Pi]. apply andb_true_iff in P as [Pa Pai].
    apply negb_true_iff in Pa, Pai. subst asy ai. rewrite (IHit rho Pi R).
    destruct (eval fn rho it) as [[z|af l|c]|] eqn:Ei; try reflexivity.
    pose proof (eval_sync_val fn it F rho _ Pi R Ei) as S. cbn in S. apply negb_true_iff in S. subst af. cbn.
    apply sum_body_ext_id. intros x. apply IHb; [exact Pb|]. constructor; [reflexivity|exact R].
Qed.

(* ---------------------------------------------------------------- part 2 *)
Lemma variant_agree f l : has_async_variant f = true ->
  run_chain true KAGen l [f] = run_chain false KSeq l [f] /\ run_chain true KSeq l [f] = run_chain false KSeq l [f].
Proof.
  intros H. cbn [run_chain accepts]. rewrite H. split; destruct (sem f l); reflexivity.
Qed.

(* kinds that correspond between the two modes *)
Definition krel (lazy : bool) (ka ks : kind) : Prop :=
  if lazy then ka = KAGen /\ ks = KGen else ka = ks /\ ka <> KAGen.

Lemma out_kind_rel f lazy ka ks : krel lazy ka ks -> accepts f ka = true ->
  krel (lazy_producer f) (out_kind true f ka) (out_kind false f ks).
Proof.
  unfold krel. destruct lazy.
  - intros [-> ->] A. cbn in A. destruct f; cbn in *; try discriminate; repeat split; congruence.
  - intros [-> N] _. destruct f, ks; cbn; repeat split; congruence.
Qed.

Lemma chain_parity_gen c : forall lazy ka ks l,
  krel lazy ka ks -> chain_guard lazy c = true -> run_chain true ka l c = run_chain false ks l c.
Proof.
  induction c as [|f r IH]; intros lazy ka ks l K G; [reflexivity|].
  cbn [chain_guard] in G. apply andb_true_iff in G as [G1 G2]. cbn [run_chain].
  assert (A : accepts f ka = accepts f ks).
  { unfold krel in K. destruct lazy.
    - destruct K as [-> ->]. cbn in G1. cbn [accepts]. rewrite G1. destruct f; try reflexivity; discriminate.
    - destruct K as [-> _]. reflexivity. }
  destruct (accepts f ka) eqn:Ea; rewrite <- A; [|reflexivity].
  destruct (sem f l) as [l'|z| |n|]; try reflexivity.
  exact (IH _ _ _ l' (out_kind_rel f lazy ka ks K Ea) G2).
Qed.

Lemma chain_parity_guarded c l : chain_guard false c = true -> run_chain true KSeq l c = run_chain false KSeq l c.
Proof. intros G. apply (chain_parity_gen c false); [split; congruence|exact G]. Qed.

(* since every consumer but length has an async variant, and length fails on any generator in
   both modes, no guard is needed any more *)
Lemma chain_parity_all c : forall lazy ka ks l,
  krel lazy ka ks -> run_chain true ka l c = run_chain false ks l c.
Proof.
  induction c as [|f r IH]; intros lazy ka ks l K; [reflexivity|]. cbn [run_chain].
  assert (A : accepts f ka = accepts f ks).
  { unfold krel in K. destruct lazy.
    - destruct K as [-> ->]. destruct f; reflexivity.
    - destruct K as [-> _]. reflexivity. }
  destruct (accepts f ka) eqn:Ea; rewrite <- A; [|reflexivity].
  destruct (sem f l) as [l'|z| |n|]; try reflexivity.
  exact (IH _ _ _ l' (out_kind_rel f lazy ka ks K Ea)).
Qed.

Lemma chain_parity_full c l : run_chain true KSeq l c = run_chain false KSeq l c.
Proof. apply (chain_parity_all c false). split; congruence. Qed.

