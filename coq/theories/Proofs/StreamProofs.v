From Coq Require Import List NArith Bool Arith Lia.
Import ListNotations.
From JV Require Import Model.Stream.

Lemma concat_app a b : concat (a ++ b) = concat a ++ concat b.
Proof. induction a as [|x a IH]; cbn [concat app]; [reflexivity|]. now rewrite IH, app_assoc. Qed.

Fixpoint flat (gs : list (list str)) : list str :=
  match gs with [] => [] | g :: r => g ++ flat r end.

Lemma cn_app a b : count_nonempty (a ++ b) = count_nonempty a + count_nonempty b.
Proof. unfold count_nonempty. now rewrite filter_app, app_length. Qed.

Lemma cn_rev a : count_nonempty (rev a) = count_nonempty a.
Proof.
  induction a as [|x a IH]; [reflexivity|]. cbn [rev]. rewrite cn_app, IH.
  unfold count_nonempty. cbn [filter]. destruct (nonempty x); cbn [length]; lia.
Qed.

Lemma cn_cons x a : count_nonempty (x :: a) = (if nonempty x then S (count_nonempty a) else count_nonempty a).
Proof. unfold count_nonempty. cbn [filter]. now destruct (nonempty x). Qed.

Lemma cn0_concat a : count_nonempty a = 0 -> concat a = [].
Proof.
  induction a as [|x a IH]; [reflexivity|]. rewrite cn_cons.
  destruct x as [|n x]; cbn [nonempty]; [intros H; cbn [concat app]; auto | discriminate].
Qed.

Lemma cn0_forall a : count_nonempty a = 0 -> Forall (fun s => nonempty s = false) a.
Proof.
  induction a as [|x a IH]; [constructor|]. rewrite cn_cons.
  destruct (nonempty x) eqn:E; [discriminate|]. intros H; constructor; auto.
Qed.

Lemma buffered_groups size buf c ps :
  buffered_go size buf c ps = map concat (groups_go size buf c ps).
Proof.
  revert buf c; induction ps as [|x r IH]; intros buf c; cbn [buffered_go groups_go].
  - destruct (Nat.eqb c 0); reflexivity.
  - destruct (Nat.ltb _ size); [apply IH|]. cbn [map]. now rewrite IH.
Qed.

Lemma groups_flat size buf ps :
  exists tail, rev buf ++ ps = flat (groups_go size buf (count_nonempty buf) ps) ++ tail
               /\ Forall (fun s => nonempty s = false) tail.
Proof.
  revert buf; induction ps as [|x r IH]; intros buf; cbn [groups_go].
  - destruct (Nat.eqb _ 0) eqn:E.
    + apply Nat.eqb_eq in E. exists (rev buf). split; [now rewrite app_nil_r|].
      apply cn0_forall. now rewrite cn_rev.
    + exists []. cbn [flat]. split; [now rewrite !app_nil_r|constructor].
  - rewrite <- cn_cons.
    destruct (Nat.ltb _ size).
    + destruct (IH (x :: buf)) as [tail [H1 H2]]. exists tail. split; [|exact H2].
      rewrite <- H1. cbn [rev]. now rewrite <- app_assoc.
    + destruct (IH []) as [tail [H1 H2]]. exists tail. split; [|exact H2].
      cbn [flat rev count_nonempty filter length app] in *. rewrite <- app_assoc. cbn [app].
      rewrite <- app_assoc. f_equal. cbn [app]. f_equal. exact H1.
Qed.

Lemma concat_flat gs : concat (flat gs) = concat (map concat gs).
Proof. induction gs as [|g r IH]; [reflexivity|]. cbn [flat map concat]. now rewrite concat_app, IH. Qed.

Lemma buffered_concat_gen size ps : concat (buffered_go size [] 0 ps) = concat ps.
Proof.
  destruct (groups_flat size [] ps) as [tail [H1 H2]].
  cbn [rev app count_nonempty filter length] in H1.
  rewrite buffered_groups, <- concat_flat.
  set (G := groups_go size [] 0 ps) in *.
  assert (Ht : concat tail = []).
  { clear H1. induction H2 as [|s t Hs _ IHt]; [reflexivity|].
    destruct s; [exact IHt|discriminate]. }
  rewrite H1 at 1. now rewrite concat_app, Ht, app_nil_r.
Qed.

(* every group but the last holds exactly [size] non-empty pieces; the last holds 1..size *)
Fixpoint chunks_ok (size : nat) (gs : list (list str)) : Prop :=
  match gs with
  | [] => True
  | g :: r => match r with
              | [] => 1 <= count_nonempty g <= size
              | _ => count_nonempty g = size /\ chunks_ok size r
              end
  end.

Lemma chunks_ok_cons size g r :
  1 <= size -> count_nonempty g = size -> chunks_ok size r -> chunks_ok size (g :: r).
Proof. intros Hs Hg Hr. destruct r as [|g' r']; cbn [chunks_ok]; [lia|]. split; assumption. Qed.

Lemma groups_chunks size buf ps :
  1 <= size -> count_nonempty buf < size ->
  chunks_ok size (groups_go size buf (count_nonempty buf) ps).
Proof.
  intros Hs. revert buf; induction ps as [|x r IH]; intros buf Hb; cbn [groups_go].
  - destruct (Nat.eqb _ 0) eqn:E; cbn [chunks_ok]; [exact I|].
    apply Nat.eqb_neq in E. rewrite cn_rev. lia.
  - rewrite <- cn_cons. destruct (Nat.ltb_spec (count_nonempty (x :: buf)) size) as [Hlt|Hge].
    + apply IH. exact Hlt.
    + apply chunks_ok_cons; [exact Hs| |].
      * rewrite cn_rev. rewrite cn_cons in *. destruct (nonempty x); lia.
      * apply (IH []). cbn. lia.
Qed.

(* each non-final chunk ends with a non-empty piece: it is emitted as soon as the
   size-th non-empty piece arrives *)

Section Enc.
  Variables (B St : Type).
  Variable feed : St -> str -> St * list B.
  Variable flush : St -> list B.
  (* the law of an incremental encoder: feeding a ++ b equals feeding a then b; feeding the
     empty text changes nothing *)
  Hypothesis feed_nil : forall st, feed st [] = (st, []).
  Hypothesis feed_app : forall st a b,
    feed st (a ++ b) = let '(s1, x) := feed st a in let '(s2, y) := feed s1 b in (s2, x ++ y).
  Lemma dump_feed_concat chunks : forall st, dump_feed B St feed st chunks = feed st (concat chunks).
  Proof.
    induction chunks as [|c r IH]; intros st; cbn [dump_feed concat]; [now rewrite feed_nil|].
    rewrite feed_app. destruct (feed st c) as [s1 x]. rewrite IH. reflexivity.
  Qed.
  Lemma dump_enc_concat st0 chunks : dump_enc B St feed flush st0 chunks = encode_all B St feed flush st0 (concat chunks).
  Proof. unfold dump_enc, encode_all. now rewrite dump_feed_concat. Qed.
End Enc.
