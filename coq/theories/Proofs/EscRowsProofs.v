From Coq Require Import List NArith Bool.
From JV Require Import Model.EscMarkup Model.EscRows Proofs.EscMarkupProofs.
Import ListNotations.

Definition piece_ok (p : piece) : Prop :=
  match p with
  | Own s => Clean s
  | FromArg _ tr => forall s, Clean s -> Clean (tr s)
  end.

Lemma flows_safe_nth : forall taints fl i t,
  flows_safe taints fl = true -> nth_error taints i = Some t -> nth_error fl i = Some FlRaw -> t = true.
Proof.
  induction taints as [|t0 ts IH]; intros fl i t H Ht Hf.
  - destruct i; discriminate.
  - destruct fl as [|f fs]; [discriminate|]. cbn [flows_safe] in H. apply andb_true_iff in H as [H1 H2].
    destruct i as [|i]; cbn in Ht, Hf.
    + injection Ht as <-. injection Hf as ->. exact H1.
    + exact (IH fs i t H2 Ht Hf).
Qed.

(* a safe case yields a Clean Markup result whenever the Markup arguments are Clean —
   whatever the plain arguments contain *)
Theorem row_case_clean : forall taints fl args ps,
  flows_safe taints fl = true ->
  map is_mk args = taints ->
  Forall MkClean args ->
  Forall piece_ok ps ->
  Clean (render_pieces args fl ps).
Proof.
  intros taints fl args ps Hs Ht Ha Hp. unfold render_pieces. apply Clean_concat.
  induction Hp as [|p ps Hp Hps IH]; [constructor|]. cbn [map]. constructor; [|exact IH].
  destruct p as [s|i tr]; cbn [render_piece]; [exact Hp|].
  destruct (nth_error args i) as [a|] eqn:Ea; [|reflexivity].
  assert (Hma : MkClean a) by (apply (proj1 (Forall_forall _ _) Ha); eapply nth_error_In; exact Ea).
  destruct (nth_error fl i) as [[| |]|] eqn:Ef; try reflexivity.
  - apply Hp. now apply Clean_esc_str.
  - apply Hp.
    assert (Et : nth_error taints i = Some (is_mk a)) by (rewrite <- Ht; now apply map_nth_error).
    pose proof (flows_safe_nth taints fl i (is_mk a) Hs Et Ef) as Hm.
    destruct a as [s|s]; [discriminate Hm|exact Hma].
Qed.

(* an unsafe case has a witness: a plain argument copied raw into a Markup result *)
Theorem row_case_unsafe_witness :
  exists args ps, Forall MkClean args /\ Forall piece_ok ps /\
    ~ Clean (render_pieces args [FlRaw] ps).
Proof.
  exists [Plain [LT]], [FromArg 0 (fun s => s)]. split; [repeat constructor|].
  split; [repeat constructor; intros s H; exact H|]. cbn. unfold Clean. cbn. discriminate.
Qed.

(* ---------------------------------------------------------------- non-string arguments *)
Definition cMkClean (a : carg) : Prop := match a with CStr v => MkClean v | CObj _ => True end.

Lemma Clean_c_esc_str : forall a, cMkClean a -> Clean (c_esc_str a).
Proof. intros [v|t] H; cbn; [now apply Clean_esc_str|apply Clean_escape]. Qed.

(* the row theorem with arguments of ANY kind: a safe case yields a Clean Markup result whatever the
   plain strings AND the non-string objects (containers, objects with __str__) carry *)
Theorem row_case_clean_c : forall taints fl args ps,
  flows_safe taints fl = true ->
  map c_is_mk args = taints ->
  Forall cMkClean args ->
  Forall piece_ok ps ->
  Clean (render_pieces_c args fl ps).
Proof.
  intros taints fl args ps Hs Ht Ha Hp. unfold render_pieces_c. apply Clean_concat.
  induction Hp as [|p ps Hp Hps IH]; [constructor|]. cbn [map]. constructor; [|exact IH].
  destruct p as [s|i tr]; cbn [render_piece_c]; [exact Hp|].
  destruct (nth_error args i) as [a|] eqn:Ea; [|reflexivity].
  assert (Hma : cMkClean a) by (apply (proj1 (Forall_forall _ _) Ha); eapply nth_error_In; exact Ea).
  destruct (nth_error fl i) as [[| |]|] eqn:Ef; try reflexivity.
  - apply Hp. now apply Clean_c_esc_str.
  - apply Hp.
    assert (Et : nth_error taints i = Some (c_is_mk a)) by (rewrite <- Ht; now apply map_nth_error).
    pose proof (flows_safe_nth taints fl i (c_is_mk a) Hs Et Ef) as Hm.
    destruct a as [[s|s]|t]; try discriminate Hm. exact Hma.
Qed.

(* string arguments are the special case *)
Lemma render_pieces_c_str : forall args fl ps,
  render_pieces_c (map CStr args) fl ps = render_pieces args fl ps.
Proof.
  intros args fl ps. unfold render_pieces_c, render_pieces. f_equal. apply map_ext. intros [s|i tr]; [reflexivity|].
  cbn [render_piece_c render_piece]. rewrite nth_error_map. destruct (nth_error args i) as [a|]; reflexivity.
Qed.

(* an object copied raw into a Markup result leaks (the xmlattr change of seeded C15_b) *)
Theorem row_case_carrier_raw_witness :
  exists args ps, Forall cMkClean args /\ Forall piece_ok ps /\ map c_is_mk args = [false] /\
    ~ Clean (render_pieces_c args [FlRaw] ps).
Proof.
  exists [CObj [91; 39; LT; 39; 93]], [FromArg 0 (fun s => s)]. split; [repeat constructor|].
  split; [repeat constructor; intros s H; exact H|]. split; [reflexivity|]. cbn. unfold Clean. cbn. discriminate.
Qed.

(* a whole table (the one regenerated from the running jinja2, with string AND carrier rows) *)
Theorem rows_table_clean : forall rows, row_safe rows = true ->
  forall taints fl, In (taints, true, fl) rows ->
  forall args ps, map c_is_mk args = taints -> Forall cMkClean args -> Forall piece_ok ps ->
  Clean (render_pieces_c args fl ps).
Proof.
  intros rows H taints fl Hin args ps Ht Ha Hp. unfold row_safe in H.
  pose proof (proj1 (forallb_forall _ _) H _ Hin) as Hc. cbn in Hc.
  now apply (row_case_clean_c taints fl args ps).
Qed.
