(* Spec-side lemmas for the skeleton induction (C12 / C13): the documented left and right
   rules commute the way the lexer applies them (the previous tag's end rule eats part of
   the text first, then the next tag's sign / lstrip_blocks acts on the remainder with the
   lexer's line_starting flag), and the rules are local to a text (what follows is a tag). *)
From Coq Require Import List NArith Bool Arith Lia.
Import ListNotations.
From JV Require Import Model.LexBase Model.LexTokeniter Spec.LexTrimSpec Proofs.LexTrim.
Open Scope N_scope.

Definition lsof (m : str) : bool := match last_opt m with Some x => x =? 10 | None => false end.
Definition nl_headb (s : str) : bool := match s with x :: _ => x =? 10 | [] => false end.

(* the lexer's line_starting flag when it reaches the text s after the tag on its left *)
Definition ls_ctx (trim : bool) (L : ltag) (s : str) : bool :=
  match L with
  | LStart => true
  | LTag _ MMinus => lsof (firstn (span is_space s) s)
  | LTag true MNone => trim && nl_headb s
  | _ => false
  end.

Definition at_start (L : ltag) : bool := match L with LStart => true | _ => false end.

(* ------------------------------------------------------------------ basic facts *)
Lemma drop_ws_allws : forall s, forallb is_space s = true -> drop_ws s = [].
Proof. induction s as [|c r IH]; intros H; [reflexivity|]. cbn [forallb] in H. apply andb_true_iff in H as [H1 H2]. cbn [drop_ws]. rewrite H1. auto. Qed.

Lemma rstrip_spec_allws : forall s, forallb is_space s = true -> rstrip_spec s = [].
Proof. destruct s as [|c r]; intros H; [reflexivity|]. cbn [rstrip_spec]. rewrite H. reflexivity. Qed.

Lemma forallb_firstn : forall (p : N -> bool) k s, forallb p s = true -> forallb p (firstn k s) = true.
Proof.
  intros p k. induction k as [|k IH]; intros s H; [reflexivity|]. destruct s as [|c r]; [reflexivity|].
  cbn [forallb firstn] in *. apply andb_true_iff in H as [H1 H2]. rewrite H1. cbn. auto.
Qed.

Lemma forallb_skipn : forall (p : N -> bool) k s, forallb p s = true -> forallb p (skipn k s) = true.
Proof.
  intros p k. induction k as [|k IH]; intros s H; [exact H|]. destruct s as [|c r]; [reflexivity|].
  cbn [forallb skipn] in *. apply andb_true_iff in H as [H1 H2]. auto.
Qed.

Lemma drop_ws_skipn : forall s, drop_ws s = skipn (span is_space s) s.
Proof. intros s. symmetry. apply skipn_span_ws. Qed.

Lemma span_prefix_ws : forall s, forallb is_space (firstn (span is_space s) s) = true.
Proof. induction s as [|c r IH]; [reflexivity|]. cbn [span]. destruct (is_space c) eqn:E; cbn [firstn forallb]; [rewrite E; exact IH|reflexivity]. Qed.

Lemma drop_ws_head : forall s x r, drop_ws s = x :: r -> is_space x = false.
Proof.
  induction s as [|c s IH]; intros x r H; [discriminate|]. cbn [drop_ws] in H.
  destruct (is_space c) eqn:E; [eauto|]. injection H as <- _. exact E.
Qed.

Lemma drop_ws_app_ws : forall w y, forallb is_space w = true -> drop_ws (w ++ y) = drop_ws y.
Proof. induction w as [|c w IH]; intros y H; [reflexivity|]. cbn [forallb] in H. apply andb_true_iff in H as [H1 H2]. cbn [app drop_ws]. rewrite H1. auto. Qed.

Lemma ws_split : forall s, s = firstn (span is_space s) s ++ drop_ws s.
Proof. intros s. rewrite drop_ws_skipn. symmetry. apply firstn_skipn. Qed.

Lemma line_tail_nonl : forall s, has_nl s = false -> line_tail s = s.
Proof. destruct s as [|c r]; intros H; [reflexivity|]. cbn [line_tail]. rewrite H. reflexivity. Qed.

Lemma has_nl_app : forall a b, has_nl (a ++ b) = has_nl a || has_nl b.
Proof. intros. unfold has_nl. apply existsb_app. Qed.

Lemma line_tail_app : forall a b, line_tail (a ++ b) = if has_nl b then line_tail b else line_tail a ++ b.
Proof.
  induction a as [|c a IH]; intros b.
  - cbn [app]. destruct (has_nl b) eqn:E; [reflexivity|]. apply line_tail_nonl. exact E.
  - cbn [app line_tail]. change (c :: a ++ b) with ((c :: a) ++ b). rewrite has_nl_app.
    destruct (has_nl b) eqn:Eb.
    + rewrite orb_true_r, IH, Eb. reflexivity.
    + rewrite orb_false_r. destruct (has_nl (c :: a)) eqn:Ea.
      * rewrite IH, Eb. reflexivity.
      * reflexivity.
Qed.

Lemma line_tail_length : forall s, (length (line_tail s) <= length s)%nat.
Proof. induction s as [|c r IH]; [cbn; lia|]. cbn [line_tail]. destruct (has_nl (c :: r)); cbn [length]; lia. Qed.

Lemma line_tail_length_lt : forall s, has_nl s = true -> (length (line_tail s) < length s)%nat.
Proof. destruct s as [|c r]; intros H; [discriminate|]. cbn [line_tail]. rewrite H. pose proof (line_tail_length r). cbn [length]. lia. Qed.

Lemma firstn_app_l : forall (k : nat) (a b : str), (k <= length a)%nat -> firstn k (a ++ b) = firstn k a.
Proof. intros k a b H. rewrite firstn_app. replace (k - length a)%nat with 0%nat by lia. cbn [firstn]. apply app_nil_r. Qed.

Lemma firstn_app_r : forall (k : nat) (a b : str), firstn (length a + k) (a ++ b) = a ++ firstn k b.
Proof. intros k a b. rewrite firstn_app. rewrite firstn_all2 by lia. f_equal. f_equal. lia. Qed.

(* ------------------------------------------------------------------ '-' on the right commutes *)
Lemma rstrip_drop_ws : forall s, rstrip_spec (drop_ws s) = drop_ws (rstrip_spec s).
Proof.
  induction s as [|c r IH]; [reflexivity|]. cbn [drop_ws]. destruct (is_space c) eqn:Ec.
  - cbn [rstrip_spec forallb]. rewrite Ec. cbn [andb]. destruct (forallb is_space r) eqn:Er.
    + rewrite IH, rstrip_spec_allws by exact Er. reflexivity.
    + cbn [drop_ws]. rewrite Ec. exact IH.
  - cbn [rstrip_spec forallb]. rewrite Ec. cbn [andb drop_ws]. rewrite Ec. reflexivity.
Qed.

Lemma rstrip_drop_one_nl : forall s, rstrip_spec (drop_one_nl s) = drop_one_nl (rstrip_spec s).
Proof.
  destruct s as [|c r]; [reflexivity|]. cbn [drop_one_nl]. destruct (c =? 10) eqn:E.
  - apply N.eqb_eq in E. subst c. cbn [rstrip_spec forallb]. change (is_space 10) with true. cbn [andb].
    destruct (forallb is_space r) eqn:Er; [apply rstrip_spec_allws; exact Er|]. cbn [drop_one_nl]. reflexivity.
  - cbn [rstrip_spec]. destruct (forallb is_space (c :: r)); [reflexivity|]. cbn [drop_one_nl]. rewrite E. reflexivity.
Qed.

(* ------------------------------------------------------------------ lstrip_blocks on the right commutes *)
Definition lstrip_rule (ls : bool) (s : str) : str :=
  let t := line_tail s in
  if nonempty t && forallb is_space t && (has_nl s || ls) then firstn (length s - length t) s else s.

Lemma lstrip_rule_allws_l : forall ls w x r,
  forallb is_space w = true -> is_space x = false ->
  drop_ws (lstrip_rule false (w ++ x :: r)) = lstrip_rule ls (x :: r).
Proof.
  intros ls w x r Hw Hx. unfold lstrip_rule. rewrite line_tail_app, has_nl_app.
  destruct (has_nl (x :: r)) eqn:En.
  - rewrite orb_true_r. cbn [orb]. rewrite !andb_true_r.
    destruct (nonempty (line_tail (x :: r)) && forallb is_space (line_tail (x :: r))).
    + pose proof (line_tail_length_lt _ En) as Hl. rewrite app_length.
      replace (length w + length (x :: r) - length (line_tail (x :: r)))%nat
        with (length w + (length (x :: r) - length (line_tail (x :: r))))%nat by lia.
      rewrite firstn_app_r, drop_ws_app_ws by exact Hw.
      destruct (length (x :: r) - length (line_tail (x :: r)))%nat as [|k] eqn:Ek; [lia|].
      cbn [firstn drop_ws]. rewrite Hx. reflexivity.
    + rewrite drop_ws_app_ws by exact Hw. cbn [drop_ws]. rewrite Hx. reflexivity.
  - rewrite orb_false_r.
    assert (H1 : forallb is_space (line_tail w ++ x :: r) = false).
    { rewrite forallb_app. cbn [forallb]. rewrite Hx. cbn [andb]. apply andb_false_r. }
    rewrite H1, andb_false_r. cbn [andb].
    rewrite (line_tail_nonl _ En). cbn [nonempty forallb]. rewrite Hx. cbn [andb].
    rewrite drop_ws_app_ws by exact Hw. cbn [drop_ws]. rewrite Hx. reflexivity.
Qed.

Lemma lstrip_rule_nil : forall ls, lstrip_rule ls [] = [].
Proof. intros ls. reflexivity. Qed.

Lemma lstrip_rule_prefix_ws : forall ls s, forallb is_space s = true -> forallb is_space (lstrip_rule ls s) = true.
Proof. intros ls s H. unfold lstrip_rule. destruct (_ && _ && _); [apply forallb_firstn; exact H|exact H]. Qed.

Lemma lstrip_drop_ws : forall s,
  lstrip_rule (lsof (firstn (span is_space s) s)) (drop_ws s) = drop_ws (lstrip_rule false s).
Proof.
  intros s. destruct (drop_ws s) as [|x r] eqn:Ed.
  - (* s is all whitespace *)
    assert (Hs : forallb is_space s = true).
    { rewrite (ws_split s), Ed, app_nil_r. apply span_prefix_ws. }
    rewrite lstrip_rule_nil. symmetry. apply drop_ws_allws. apply lstrip_rule_prefix_ws. exact Hs.
  - pose proof (drop_ws_head _ _ _ Ed) as Hx. rewrite (ws_split s) at 3. rewrite Ed.
    symmetry. apply lstrip_rule_allws_l; [apply span_prefix_ws|exact Hx].
Qed.

Lemma lstrip_drop_one_nl : forall r, lstrip_rule true r = drop_one_nl (lstrip_rule false (10 :: r)).
Proof.
  intros r. unfold lstrip_rule. cbn [line_tail]. change (has_nl (10 :: r)) with true. cbn [orb].
  rewrite orb_true_r. destruct (nonempty (line_tail r) && forallb is_space (line_tail r) && true).
  - pose proof (line_tail_length r). cbn [length].
    replace (S (length r) - length (line_tail r))%nat with (S (length r - length (line_tail r))) by lia.
    reflexivity.
  - reflexivity.
Qed.

Lemma left_rule_lstrip : forall lstrip ls s,
  left_rule lstrip (RTag true MNone) ls s = if lstrip then lstrip_rule ls s else s.
Proof. reflexivity. Qed.

(* the crux: the lexer order (previous tag eats first, flag = its line_starting) gives
   the documented result (rules applied to the original text, at_start = start of template) *)
Lemma rules_commute : forall trim lstrip L R s,
  left_rule lstrip R (ls_ctx trim L s) (right_rule trim L s)
  = right_rule trim L (left_rule lstrip R (at_start L) s).
Proof.
  intros trim lstrip L R s.
  destruct R as [|al lm]; [reflexivity|].
  destruct lm.
  - (* no sign on the right tag *)
    destruct al; [|reflexivity]. rewrite !left_rule_lstrip. destruct lstrip; [|reflexivity].
    destruct L as [|at_ rm]; [reflexivity|].
    destruct rm; cbn [right_rule ls_ctx at_start].
    + destruct at_; [|reflexivity]. destruct trim; [|reflexivity]. cbn [andb].
      destruct s as [|c r]; [reflexivity|]. cbn [nl_headb drop_one_nl].
      destruct (c =? 10) eqn:E; [apply N.eqb_eq in E; subst c; apply lstrip_drop_one_nl|].
      unfold lstrip_rule. destruct (_ && _ && _); [|cbn [drop_one_nl]; rewrite E; reflexivity].
      destruct (length (c :: r) - length (line_tail (c :: r)))%nat; cbn [firstn drop_one_nl]; [reflexivity|].
      rewrite E. reflexivity.
    + destruct at_; apply lstrip_drop_ws.
    + destruct at_; reflexivity.
  - (* '-' on the right tag *)
    assert (Hl : forall b ls x, left_rule lstrip (RTag b MMinus) ls x = rstrip_spec x) by (intros [] ? ?; reflexivity).
    rewrite !Hl. destruct L as [|at_ rm]; [reflexivity|].
    destruct rm; cbn [right_rule].
    + destruct at_; [|reflexivity]. destruct trim; [apply rstrip_drop_one_nl|reflexivity].
    + destruct at_; apply rstrip_drop_ws.
    + destruct at_; reflexivity.
  - (* '+' *)
    destruct al; reflexivity.
Qed.

(* ------------------------------------------------------------------ locality: what follows a text is a tag *)
(* U is empty or starts with a non-whitespace character *)
Definition tagstart (U : str) : Prop := U = [] \/ exists x U', U = x :: U' /\ is_space x = false.

Lemma span_app_tagstart : forall s U, tagstart U -> span is_space (s ++ U) = span is_space s.
Proof.
  intros s U HU. induction s as [|c r IH]; cbn [app span].
  - destruct HU as [->|(x & U' & -> & Hx)]; [reflexivity|]. cbn [span]. rewrite Hx. reflexivity.
  - destruct (is_space c); [rewrite IH; reflexivity|reflexivity].
Qed.

Lemma span_le : forall p (s : str), (span p s <= length s)%nat.
Proof. induction s as [|c r IH]; cbn [span length]; [lia|]. destruct (p c); lia. Qed.

Lemma drop_ws_app_tagstart : forall s U, tagstart U -> drop_ws (s ++ U) = drop_ws s ++ U.
Proof.
  intros s U HU. rewrite !drop_ws_skipn, span_app_tagstart by exact HU.
  rewrite skipn_app. replace (span is_space s - length s)%nat with 0%nat by (pose proof (span_le is_space s); lia).
  reflexivity.
Qed.

Lemma firstn_span_app_tagstart : forall s U, tagstart U ->
  firstn (span is_space (s ++ U)) (s ++ U) = firstn (span is_space s) s.
Proof. intros s U HU. rewrite span_app_tagstart by exact HU. apply firstn_app_l. apply span_le. Qed.

Lemma nl_head_app_tagstart : forall s U, tagstart U -> nl_head (s ++ U) = nl_head s.
Proof.
  intros s U HU. destruct s as [|c r]; [|reflexivity]. cbn [app nl_head].
  destruct HU as [->|(x & U' & -> & Hx)]; [reflexivity|]. cbn [nl_head].
  destruct (x =? 10) eqn:E; [|reflexivity]. apply N.eqb_eq in E. subst x. vm_compute in Hx. discriminate.
Qed.

Lemma drop_one_nl_app_tagstart : forall s U, tagstart U -> drop_one_nl (s ++ U) = drop_one_nl s ++ U.
Proof.
  intros s U HU. destruct s as [|c r]; cbn [app drop_one_nl].
  - destruct HU as [->|(x & U' & -> & Hx)]; [reflexivity|]. cbn [drop_one_nl].
    destruct (x =? 10) eqn:E; [|reflexivity]. apply N.eqb_eq in E. subst x. vm_compute in Hx. discriminate.
  - destruct (c =? 10); reflexivity.
Qed.

Lemma right_rule_app_tagstart : forall trim L s U, tagstart U ->
  right_rule trim L (s ++ U) = right_rule trim L s ++ U.
Proof.
  intros trim L s U HU. destruct L as [|at_ rm]; [reflexivity|].
  destruct rm; cbn [right_rule].
  - destruct at_; [|reflexivity]. destruct trim; [apply drop_one_nl_app_tagstart; exact HU|reflexivity].
  - destruct at_; apply drop_ws_app_tagstart; exact HU.
  - destruct at_; reflexivity.
Qed.

Lemma ls_ctx_app_tagstart : forall trim L s U, tagstart U -> ls_ctx trim L (s ++ U) = ls_ctx trim L s.
Proof.
  intros trim L s U HU. destruct L as [|at_ rm]; [reflexivity|]. destruct rm; cbn [ls_ctx].
  - destruct at_; [|reflexivity]. f_equal. destruct s as [|c r]; [|reflexivity]. cbn [app nl_headb].
    destruct HU as [->|(x & U' & -> & Hx)]; [reflexivity|]. cbn [nl_headb].
    destruct (x =? 10) eqn:E; [|reflexivity]. apply N.eqb_eq in E. subst x. vm_compute in Hx. discriminate.
  - rewrite firstn_span_app_tagstart by exact HU. destruct at_; reflexivity.
  - destruct at_; reflexivity.
Qed.

Lemma last_opt_none : forall s, last_opt s = None -> s = [].
Proof. induction s as [|c r IH]; intros H; [reflexivity|]. destruct r as [|d r']; [discriminate|]. change (last_opt (c :: d :: r')) with (last_opt (d :: r')) in H. apply IH in H. discriminate. Qed.

Lemma last_opt_app : forall a b, last_opt (a ++ b) = match last_opt b with Some x => Some x | None => last_opt a end.
Proof.
  induction a as [|c a IH]; intros b; cbn [app].
  - destruct (last_opt b); reflexivity.
  - destruct (a ++ b) as [|y l] eqn:E.
    + apply app_eq_nil in E as [-> ->]. reflexivity.
    + change (last_opt (c :: y :: l)) with (last_opt (y :: l)). rewrite <- E, IH.
      destruct (last_opt b) eqn:Eb; [reflexivity|]. apply last_opt_none in Eb. subst b. rewrite app_nil_r in E. subst a. reflexivity.
Qed.
