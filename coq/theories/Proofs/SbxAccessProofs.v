(* Lemmas for C17 (attribute access through the sandbox). *)
From Coq Require Import List Bool String ZArith.
Import ListNotations.
From JV Require Import Model.SbxAttr Model.SbxAccess.
Open Scope string_scope.

(* One legitimate hop from an object to something it exposes:
   an item of it, a safe attribute of it, or the sandboxed wrapper of a safe attribute that is a
   bound str.format / format_map. *)
Inductive hop (tb : tables) : value -> value -> Prop :=
  | hop_item : forall o k w, py_getitem o k = Some w -> hop tb o w
  | hop_attr : forall o a w, py_getattr o a = Some w ->
      is_safe_attribute tb (kind_of o) a = true -> hop tb o w
  | hop_fmt : forall o a s m, py_getattr o a = Some (VFmt s m) ->
      is_safe_attribute tb (kind_of o) a = true -> hop tb o (VWrap s m).

Inductive reach (tb : tables) : value -> value -> Prop :=
  | reach_refl : forall a, reach tb a a
  | reach_step : forall a b c, reach tb a b -> hop tb b c -> reach tb a c.

Lemma reach_trans_hop_first : forall tb a b c, hop tb a b -> reach tb b c -> reach tb a c.
Proof.
  intros tb a b c Hab Hbc. induction Hbc as [b|b c d Hbc IH Hcd].
  - eapply reach_step; [apply reach_refl|exact Hab].
  - eapply reach_step; [exact (IH Hab)|exact Hcd].
Qed.

Definition is_handout (r : result) (v : value) : Prop := r = RValue v \/ r = RItem v \/ r = RFormat v.

(* ---- the attribute branch *)
Lemma attr_branch_value : forall tb o a v w, attr_branch tb o a v = RValue w ->
  w = v /\ is_safe_attribute tb (kind_of o) a = true.
Proof.
  intros tb o a v w H. unfold attr_branch in H.
  destruct (is_safe_attribute tb (kind_of o) a) eqn:Es; [|discriminate].
  destruct (wrap_str_format v) eqn:Ew; [discriminate|]. injection H as <-. auto.
Qed.

Lemma attr_branch_format : forall tb o a v w, attr_branch tb o a v = RFormat w ->
  (exists s m, v = VFmt s m /\ w = VWrap s m) /\ is_safe_attribute tb (kind_of o) a = true.
Proof.
  intros tb o a v w H. unfold attr_branch in H.
  destruct (is_safe_attribute tb (kind_of o) a) eqn:Es; [|discriminate].
  destruct v; cbn in H; try discriminate. injection H as <-. split; [eauto|reflexivity].
Qed.

Lemma attr_branch_not_item : forall tb o a v w, attr_branch tb o a v <> RItem w.
Proof.
  intros tb o a v w. unfold attr_branch.
  destruct (is_safe_attribute tb (kind_of o) a); [destruct (wrap_str_format v)|]; discriminate.
Qed.

Lemma attr_branch_hop : forall tb o a v w, py_getattr o a = Some v ->
  is_handout (attr_branch tb o a v) w -> hop tb o w.
Proof.
  intros tb o a v w Hg [H|[H|H]].
  - apply attr_branch_value in H as [-> Hs]. eapply hop_attr; eauto.
  - exfalso. exact (attr_branch_not_item _ _ _ _ _ H).
  - apply attr_branch_format in H as [[s [m [-> ->]]] Hs]. eapply hop_fmt; eauto.
Qed.

(* ---- getattr / getitem: what can come out, and from where *)
Lemma getattr_hop : forall tb o a w, is_handout (sandbox_getattr tb o a) w -> hop tb o w.
Proof.
  intros tb o a w H. unfold sandbox_getattr in H.
  destruct (py_getattr o a) as [v|] eqn:Ea.
  - assert (Hb : is_handout (attr_branch tb o a v) w).
    { destruct o; try exact H; destruct H as [H|[H|H]]; discriminate. }
    exact (attr_branch_hop tb o a v w Ea Hb).
  - destruct (py_getitem o (KStr a)) as [v|] eqn:Ei.
    + assert (Hw : v = w).
      { destruct o; destruct H as [H|[H|H]]; try discriminate; injection H; auto. }
      subst. eapply hop_item; eauto.
    + destruct o; destruct H as [H|[H|H]]; discriminate.
Qed.

Lemma getitem_hop : forall tb o k w, is_handout (sandbox_getitem tb o k) w -> hop tb o w.
Proof.
  intros tb o k w H. unfold sandbox_getitem in H.
  destruct (py_getitem o k) as [v|] eqn:Ei.
  - assert (Hw : v = w).
    { destruct o; destruct H as [H|[H|H]]; try discriminate; injection H; auto. }
    subst. eapply hop_item; eauto.
  - destruct k as [a|z|c a].
    + destruct (py_getattr o a) as [v|] eqn:Ea.
      * assert (Hb : is_handout (attr_branch tb o a v) w).
        { destruct o; try exact H; destruct H as [H|[H|H]]; discriminate. }
        exact (attr_branch_hop tb o a v w Ea Hb).
      * destruct o; destruct H as [H|[H|H]]; discriminate.
    + destruct o; destruct H as [H|[H|H]]; discriminate.
    + destruct (py_getattr o a) as [v|] eqn:Ea.
      * assert (Hb : is_handout (attr_branch tb o a v) w).
        { destruct o; try exact H; destruct H as [H|[H|H]]; discriminate. }
        exact (attr_branch_hop tb o a v w Ea Hb).
      * destruct o; destruct H as [H|[H|H]]; discriminate.
Qed.

(* the attribute VALUE (or its format wrapper) is handed out only for safe names *)
Lemma getattr_value_safe : forall tb o a v,
  sandbox_getattr tb o a = RValue v \/ sandbox_getattr tb o a = RFormat v ->
  is_safe_attribute tb (kind_of o) a = true.
Proof.
  intros tb o a v H. unfold sandbox_getattr in H.
  destruct (py_getattr o a) as [x|] eqn:Ea.
  - assert (Hb : attr_branch tb o a x = RValue v \/ attr_branch tb o a x = RFormat v).
    { destruct o; try exact H; destruct H as [H|H]; discriminate. }
    destruct Hb as [Hb|Hb]; [apply attr_branch_value in Hb|apply attr_branch_format in Hb]; tauto.
  - destruct (py_getitem o (KStr a)); destruct o; destruct H as [H|H]; discriminate.
Qed.

Lemma getitem_value_safe : forall tb o a v,
  sandbox_getitem tb o (KStr a) = RValue v \/ sandbox_getitem tb o (KStr a) = RFormat v ->
  is_safe_attribute tb (kind_of o) a = true.
Proof.
  intros tb o a v H. unfold sandbox_getitem in H.
  destruct (py_getitem o (KStr a)) as [x|] eqn:Ei.
  - destruct o; destruct H as [H|H]; discriminate.
  - destruct (py_getattr o a) as [x|] eqn:Ea.
    + assert (Hb : attr_branch tb o a x = RValue v \/ attr_branch tb o a x = RFormat v).
      { destruct o; try exact H; destruct H as [H|H]; discriminate. }
      destruct Hb as [Hb|Hb]; [apply attr_branch_value in Hb|apply attr_branch_format in Hb]; tauto.
    + destruct o; destruct H as [H|H]; discriminate.
Qed.

(* a str-subclass key: the attribute is fetched under str(key) and that is the name checked *)
Lemma getitem_subkey_value_safe : forall tb o c a v,
  sandbox_getitem tb o (KSub c a) = RValue v \/ sandbox_getitem tb o (KSub c a) = RFormat v ->
  is_safe_attribute tb (kind_of o) a = true.
Proof.
  intros tb o c a v H. unfold sandbox_getitem in H.
  destruct (py_getitem o (KSub c a)) as [x|] eqn:Ei.
  - destruct o; destruct H as [H|H]; discriminate.
  - destruct (py_getattr o a) as [x|] eqn:Ea.
    + assert (Hb : attr_branch tb o a x = RValue v \/ attr_branch tb o a x = RFormat v).
      { destruct o; try exact H; destruct H as [H|H]; discriminate. }
      destruct Hb as [Hb|Hb]; [apply attr_branch_value in Hb|apply attr_branch_format in Hb]; tauto.
    + destruct o; destruct H as [H|H]; discriminate.
Qed.

Lemma getitem_int_never_attr : forall tb o z v,
  sandbox_getitem tb o (KInt z) <> RValue v /\ sandbox_getitem tb o (KInt z) <> RFormat v.
Proof.
  intros tb o z v. unfold sandbox_getitem.
  destruct (py_getitem o (KInt z)); destruct o; split; discriminate.
Qed.

Lemma safe_means_public : forall tb k a, is_safe_attribute tb k a = true ->
  starts_underscore a = false /\ is_internal_attribute tb k a = false.
Proof.
  intros tb k a H. unfold is_safe_attribute in H. apply negb_true_iff in H.
  apply orb_false_iff in H. exact H.
Qed.

Lemma do_attr_hop : forall tb o a w, is_handout (do_attr tb o a) w -> hop tb o w.
Proof.
  intros tb o a w H. unfold do_attr in H.
  destruct (py_getattr o a) eqn:Ea.
  - apply (getattr_hop tb o a w). destruct o; try exact H; destruct H as [H|[H|H]]; discriminate.
  - destruct o; destruct H as [H|[H|H]]; discriminate.
Qed.

Lemma do_attr_value_safe : forall tb o a v,
  do_attr tb o a = RValue v \/ do_attr tb o a = RFormat v -> is_safe_attribute tb (kind_of o) a = true.
Proof.
  intros tb o a v H. unfold do_attr in H.
  destruct (py_getattr o a) eqn:Ea.
  - apply (getattr_value_safe tb o a v). destruct o; try exact H; destruct H as [H|H]; discriminate.
  - destruct o; destruct H as [H|H]; discriminate.
Qed.

(* do_attr never falls back to items *)
Lemma do_attr_no_item : forall tb o a v, do_attr tb o a = RItem v -> False.
Proof.
  intros tb o a v H. unfold do_attr in H.
  destruct (py_getattr o a) as [x|] eqn:Ea.
  - unfold sandbox_getattr in H. rewrite Ea in H.
    destruct o; try discriminate; exact (attr_branch_not_item _ _ _ _ _ H).
  - destruct o; discriminate.
Qed.

(* ---- paths *)
Lemma do_step_hop : forall tb o s w, is_handout (do_step tb o s) w -> hop tb o w.
Proof. intros tb o [a|k] w H; [exact (getattr_hop _ _ _ _ H)|exact (getitem_hop _ _ _ _ H)]. Qed.

Lemma step_on_undefined : forall tb s, do_step tb VUndef s = RRaise EUndefinedError.
Proof. intros tb [a|k]; reflexivity. Qed.

Lemma step_on_unsafe : forall tb s, do_step tb VUnsafe s = RRaise ESecurityError.
Proof. intros tb [a|k]; reflexivity. Qed.

Lemma walk_undefined : forall tb p w, p <> [] -> ~ is_handout (walk tb VUndef p) w.
Proof.
  intros tb p w Hp H. destruct p as [|s r]; [congruence|].
  assert (Hw : walk tb VUndef (s :: r) = RRaise EUndefinedError).
  { destruct r; cbn [walk]; rewrite step_on_undefined; reflexivity. }
  rewrite Hw in H. destruct H as [H|[H|H]]; discriminate.
Qed.

Lemma walk_unsafe : forall tb p w, p <> [] -> ~ is_handout (walk tb VUnsafe p) w.
Proof.
  intros tb p w Hp H. destruct p as [|s r]; [congruence|].
  assert (Hw : walk tb VUnsafe (s :: r) = RRaise ESecurityError).
  { destruct r; cbn [walk]; rewrite step_on_unsafe; reflexivity. }
  rewrite Hw in H. destruct H as [H|[H|H]]; discriminate.
Qed.

Lemma value_of_handout : forall r v, value_of r = Some v ->
  is_handout r v \/ (r = RUndefined /\ v = VUndef) \/ (r = RUnsafe /\ v = VUnsafe).
Proof.
  intros r v H. destruct r; cbn in H; try discriminate; injection H as <-; unfold is_handout; auto.
Qed.

(* everything a path walk hands out is reachable from the root by legitimate hops *)
Lemma walk_reach : forall tb p o w, is_handout (walk tb o p) w -> reach tb o w.
Proof.
  intros tb p. induction p as [|s r IH]; intros o w H.
  - cbn in H. destruct H as [H|[H|H]]; try discriminate. injection H as <-. apply reach_refl.
  - destruct r as [|s2 r2].
    + cbn [walk] in H. eapply reach_step; [apply reach_refl|exact (do_step_hop _ _ _ _ H)].
    + cbn [walk] in H. fold walk in H.
      destruct (value_of (do_step tb o s)) as [v|] eqn:Ev.
      * apply value_of_handout in Ev as [Hh|[[_ ->]|[_ ->]]].
        -- eapply reach_trans_hop_first; [exact (do_step_hop _ _ _ _ Hh)|exact (IH v w H)].
        -- exfalso. exact (walk_undefined tb (s2 :: r2) w ltac:(discriminate) H).
        -- exfalso. exact (walk_unsafe tb (s2 :: r2) w ltac:(discriminate) H).
      * eapply reach_step; [apply reach_refl|exact (do_step_hop _ _ _ _ H)].
Qed.

Lemma get_field_reach : forall tb args kwargs first rest w,
  is_handout (get_field tb args kwargs first rest) w ->
  exists root, get_value args kwargs first = Some root /\ reach tb root w.
Proof.
  intros tb args kwargs first rest w H. unfold get_field in H.
  destruct (get_value args kwargs first) as [o|] eqn:Eg.
  - exists o. split; [reflexivity|exact (walk_reach _ _ _ _ H)].
  - destruct H as [H|[H|H]]; discriminate.
Qed.

(* ---- secrecy: a value that sits only behind unsafe names is not reachable.
   [guarded tb secret o]: within o, [secret] occurs only under attributes that are not safe. *)
Lemma hop_cases : forall tb o w, hop tb o w ->
  (exists k, py_getitem o k = Some w) \/
  (exists a, py_getattr o a = Some w /\ is_safe_attribute tb (kind_of o) a = true) \/
  (exists a s m, w = VWrap s m /\ py_getattr o a = Some (VFmt s m) /\ is_safe_attribute tb (kind_of o) a = true).
Proof. intros tb o w H. destruct H; eauto 8. Qed.
