(* Lemmas for the constant-folding part of C17. *)
From Coq Require Import List Bool String ZArith.
Import ListNotations.
From JV Require Import Model.SbxAttr Model.SbxAccess Proofs.SbxAccessProofs.
From JV Require Import Model.SbxFold.

(* folding never produces a value the run-time code would not produce *)
Lemma fold_eq_runtime : forall tb e v, as_const tb e = Some v -> run_chain tb e = RtVal v.
Proof.
  intros tb e. induction e as [w|e IH a|e IH k]; intros v H; cbn in *.
  - injection H as <-. reflexivity.
  - destruct (as_const tb e) as [o|]; [|discriminate]. rewrite (IH o eq_refl).
    destruct (sandbox_getattr tb o a); cbn in *; try discriminate; injection H as <-; reflexivity.
  - destruct (as_const tb e) as [o|]; [|discriminate]. rewrite (IH o eq_refl).
    destruct (sandbox_getitem tb o k); cbn in *; try discriminate; injection H as <-; reflexivity.
Qed.

Lemma handout_or_undef : forall r v, (forall x, r <> RRaise x) -> value_of r = Some v ->
  is_handout r v \/ v = VUndef \/ v = VUnsafe.
Proof.
  intros r v _ H. destruct (value_of_handout r v H) as [Hh|[[_ ->]|[_ ->]]]; auto.
Qed.

(* a folded value is an undefined, or reachable from the literal by legitimate hops only *)
Lemma fold_reach : forall tb e v, as_const tb e = Some v ->
  v = VUndef \/ v = VUnsafe \/ reach tb (root e) v.
Proof.
  intros tb e. induction e as [w|e IH a|e IH k]; intros v H; cbn in *.
  - injection H as <-. right. right. apply reach_refl.
  - destruct (as_const tb e) as [o|] eqn:Eo; [|discriminate].
    assert (Hv : value_of (sandbox_getattr tb o a) = Some v /\ forall x, sandbox_getattr tb o a <> RRaise x).
    { destruct (sandbox_getattr tb o a); try discriminate; split; try exact H; intros x Hx; discriminate. }
    destruct Hv as [Hv Hn].
    destruct (value_of_handout _ v Hv) as [Hh|[[_ ->]|[_ ->]]]; auto.
    right. right. destruct (IH o eq_refl) as [->|[->|Hr]].
    + exfalso. destruct Hh as [Hh|[Hh|Hh]]; discriminate.
    + exfalso. destruct Hh as [Hh|[Hh|Hh]]; discriminate.
    + eapply reach_step; [exact Hr|exact (getattr_hop _ _ _ _ Hh)].
  - destruct (as_const tb e) as [o|] eqn:Eo; [|discriminate].
    assert (Hv : value_of (sandbox_getitem tb o k) = Some v).
    { destruct (sandbox_getitem tb o k); try discriminate; exact H. }
    destruct (value_of_handout _ v Hv) as [Hh|[[_ ->]|[_ ->]]]; auto.
    right. right. destruct (IH o eq_refl) as [->|[->|Hr]].
    + exfalso. destruct Hh as [Hh|[Hh|Hh]]; discriminate.
    + exfalso. destruct Hh as [Hh|[Hh|Hh]]; discriminate.
    + eapply reach_step; [exact Hr|exact (getitem_hop _ _ _ _ Hh)].
Qed.

(* in particular the value of an unsafe attribute of a literal is never folded into the code *)
Lemma fold_attr_safe : forall tb e a o v, as_const tb e = Some o -> as_const tb (CAttr e a) = Some v ->
  v = VUndef \/ v = VUnsafe \/ py_getitem o (KStr a) = Some v \/
  (is_safe_attribute tb (kind_of o) a = true /\ (py_getattr o a = Some v \/ exists s m, v = VWrap s m /\ py_getattr o a = Some (VFmt s m))).
Proof.
  intros tb e a o v Ho H. cbn in H. rewrite Ho in H.
  assert (Hv : value_of (sandbox_getattr tb o a) = Some v).
  { destruct (sandbox_getattr tb o a); try discriminate; exact H. }
  destruct (sandbox_getattr tb o a) as [w|w|w| | |x] eqn:Er; cbn in Hv; try discriminate; try (injection Hv as <-); auto.
  - right. right. right. split; [exact (getattr_value_safe tb o a w (or_introl Er))|].
    unfold sandbox_getattr in Er. destruct (py_getattr o a) as [x|] eqn:Ea.
    + assert (Hb : attr_branch tb o a x = RValue w) by (destruct o; try exact Er; discriminate).
      apply attr_branch_value in Hb as [-> _]. left. reflexivity.
    + destruct (py_getitem o (KStr a)); destruct o; discriminate.
  - right. right. left. unfold sandbox_getattr in Er. destruct (py_getattr o a) as [x|] eqn:Ea.
    + exfalso. assert (Hb : attr_branch tb o a x = RItem w) by (destruct o; try exact Er; discriminate).
      exact (attr_branch_not_item _ _ _ _ _ Hb).
    + destruct (py_getitem o (KStr a)) as [y|]; destruct o; try discriminate; injection Er as <-; reflexivity.
  - right. right. right. split; [exact (getattr_value_safe tb o a w (or_intror Er))|].
    unfold sandbox_getattr in Er. destruct (py_getattr o a) as [x|] eqn:Ea.
    + assert (Hb : attr_branch tb o a x = RFormat w) by (destruct o; try exact Er; discriminate).
      apply attr_branch_format in Hb as [[s [m [-> ->]]] _]. right. eauto.
    + destruct (py_getitem o (KStr a)); destruct o; discriminate.
Qed.
