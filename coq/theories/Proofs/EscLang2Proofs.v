(* C16 / C15 for the extended language of Model/EscLang2.v (template sets: set block with a
   filter, include, import, blocks with inheritance and super()). *)
From Coq Require Import List NArith Bool Lia.
From JV Require Import Model.EscMarkup Model.EscLang2 Proofs.EscMarkupProofs.
Import ListNotations.
Open Scope N_scope.

(* one-step unfolding equations of the evaluator (the text of Model/EscLang2.v at fuel S n) *)
Lemma eval_e_S : forall (ae : N -> bool) (flag : bool) (dl : list (N * list str)) (tt : list (N * list stmt)) (bt : list (N * bstack)) (n : nat) (ce : cexp) (rt : bool) (mu : menv) (k : option callerclo) (sup : option bstack) (r : env) (e : expr),
  eval_e ae flag dl tt bt (S n) ce rt mu k sup r e =
      match e with
      | EVar x => Some (lookup r x)
      | ELit s => Some (Plain s)
      | ECat a b =>
          match eval_e ae flag dl tt bt n ce rt mu k sup r a with None => None | Some va =>
          match eval_e ae flag dl tt bt n ce rt mu k sup r b with None => None | Some vb =>
            Some (if on_now ae ce rt then markup_join [va; vb] else str_join [va; vb])
          end end
      | EFilt f a args =>
          match eval_e ae flag dl tt bt n ce rt mu k sup r a with None => None | Some va =>
          match eval_es ae flag dl tt bt n ce rt mu k sup r args with None => None | Some vs =>
            apply_filter rt f va vs
          end end
      | ECond c a b =>
          match eval_e ae flag dl tt bt n ce rt mu k sup r c with None => None | Some vc =>
            if truthy vc then eval_e ae flag dl tt bt n ce rt mu k sup r a else eval_e ae flag dl tt bt n ce rt mu k sup r b
          end
      | ECall m args =>
          match eval_es ae flag dl tt bt n ce rt mu k sup r args with None => None | Some vs =>
          match lookup_mac mu m with None => None | Some (ps, body, ce', home) =>
          match bind ps vs with None => None | Some pr =>
          let rtb := match home with Some tid => ae tid | None => rt end in
          match eval_ss ae flag dl tt bt n ce' rtb mu None None (pr ++ r) body with None => None | Some (o, _, _) =>
            Some (wrap rt o)
          end end end end
      | ECaller =>
          match k with None => None | Some (CC body ce' frt) =>
          let rtb := match frt with Some b => b | None => rt end in
          match eval_ss ae flag dl tt bt n ce' rtb mu None None r body with None => None | Some (o, _, _) =>
            Some (wrap rt o)
          end end
      | ESuper =>
          match sup with
          | Some ((body, ce') :: rest) =>
              match eval_ss ae flag dl tt bt n ce' rt mu None (Some rest) r body with None => None | Some (o, _, _) =>
                Some (wrap rt o)
              end
          | _ => None
          end
      | EJoin sep items =>
          match eval_es ae flag dl tt bt n ce rt mu k sup r items with None => None | Some vs =>
          match eval_e ae flag dl tt bt n ce rt mu k sup r sep with None => None | Some vsep =>
            Some (join_val rt vsep vs)
          end end
      end.
Proof. reflexivity. Qed.

Lemma eval_es_S : forall (ae : N -> bool) (flag : bool) (dl : list (N * list str)) (tt : list (N * list stmt)) (bt : list (N * bstack)) (n : nat) (ce : cexp) (rt : bool) (mu : menv) (k : option callerclo) (sup : option bstack) (r : env) (es : list expr),
  eval_es ae flag dl tt bt (S n) ce rt mu k sup r es =
      match es with
      | [] => Some []
      | e :: es' =>
          match eval_e ae flag dl tt bt n ce rt mu k sup r e with None => None | Some v =>
          match eval_es ae flag dl tt bt n ce rt mu k sup r es' with None => None | Some vs => Some (v :: vs)
          end end
      end.
Proof. reflexivity. Qed.

Lemma eval_ss_S : forall (ae : N -> bool) (flag : bool) (dl : list (N * list str)) (tt : list (N * list stmt)) (bt : list (N * bstack)) (n : nat) (ce : cexp) (rt : bool) (mu : menv) (k : option callerclo) (sup : option bstack) (r : env) (ss : list stmt),
  eval_ss ae flag dl tt bt (S n) ce rt mu k sup r ss =
      match ss with
      | [] => Some ([], r, mu)
      | s :: ss' =>
          match eval_s ae flag dl tt bt n ce rt mu k sup r s with None => None | Some (o1, r1, mu1) =>
          match eval_ss ae flag dl tt bt n ce rt mu1 k sup r1 ss' with None => None | Some (o2, r2, mu2) =>
            Some (o1 ++ o2, r2, mu2)
          end end
      end.
Proof. reflexivity. Qed.

Lemma eval_s_S : forall (ae : N -> bool) (flag : bool) (dl : list (N * list str)) (tt : list (N * list stmt)) (bt : list (N * bstack)) (n : nat) (ce : cexp) (rt : bool) (mu : menv) (k : option callerclo) (sup : option bstack) (r : env) (s : stmt),
  eval_s ae flag dl tt bt (S n) ce rt mu k sup r s =
      match s with
      | SText t => Some (t, r, mu)
      | SOut e =>
          match eval_e ae flag dl tt bt n ce rt mu k sup r e with None => None | Some v =>
            Some (out_piece (on_now ae ce rt) v, r, mu)
          end
      | SIf c t f =>
          match eval_e ae flag dl tt bt n ce rt mu k sup r c with None => None | Some vc =>
            if truthy vc then eval_ss ae flag dl tt bt n ce rt mu k sup r t else eval_ss ae flag dl tt bt n ce rt mu k sup r f
          end
      | SFor x l body =>
          match eval_for ae flag dl tt bt n ce rt mu k sup r x (lookup_list dl l) body with None => None | Some o =>
            Some (o, r, mu)
          end
      | SSet x e =>
          match eval_e ae flag dl tt bt n ce rt mu k sup r e with None => None | Some v => Some ([], (x, v) :: r, mu) end
      | SSetBlock x body =>
          match eval_ss ae flag dl tt bt n ce rt mu k sup r body with None => None | Some (o, _, _) =>
            Some ([], (x, wrap rt o) :: r, mu)
          end
      | SSetBlockF x f args body =>
          match eval_ss ae flag dl tt bt n ce rt mu k sup r body with None => None | Some (o, _, _) =>
          match eval_es ae flag dl tt bt n ce rt mu k sup r args with None => None | Some vs =>
          match apply_filter rt f (wrap (on_now ae ce rt) o) vs with None => None | Some v =>
            Some ([], (x, if rt then esc v else v) :: r, mu)
          end end end
      | SMacro m ps body => Some ([], r, (m, (ps, body, ce, None)) :: mu)
      | SCallBlock m args body =>
          match eval_es ae flag dl tt bt n ce rt mu k sup r args with None => None | Some vs =>
          match lookup_mac mu m with None => None | Some (ps, mbody, ce', home) =>
          match bind ps vs with None => None | Some pr =>
          let rtb := match home with Some tid => ae tid | None => rt end in
          let frt := match home with Some _ => Some rt | None => None end in
          match eval_ss ae flag dl tt bt n ce' rtb mu (Some (CC body ce frt)) None (pr ++ r) mbody with None => None
          | Some (o, _, _) => Some (out_piece (on_now ae ce rt) (wrap rt o), r, mu)
          end end end end
      | SFilterBlock f args body =>
          match eval_ss ae flag dl tt bt n ce rt mu k sup r body with None => None | Some (o, _, _) =>
          match eval_es ae flag dl tt bt n ce rt mu k sup r args with None => None | Some vs =>
          match apply_filter rt f (wrap (on_now ae ce rt) o) vs with None => None | Some v =>
            Some (out_piece (on_now ae ce rt) v, r, mu)
          end end end
      | SAutoescape a body =>
          match eval_ss ae flag dl tt bt n (ce_enter ce a) (rt_enter flag a) mu k sup r body with None => None
          | Some (o, _, _) => Some (o, r, mu)
          end
      | SInclude tid =>
          match lookup_tpl tt tid with None => None | Some body =>
          match eval_ss ae flag dl tt bt n (CTop tid) (ae tid) [] None None r body with None => None
          | Some (o, _, _) => Some (o, r, mu)
          end end
      | SImport tid =>
          match lookup_tpl tt tid with None => None | Some body => Some ([], r, exports tid body ++ mu) end
      | SBlock name body =>
          match lookup_blk bt name with
          | Some ((b0, ce') :: rest) =>
              match eval_ss ae flag dl tt bt n ce' rt mu None (Some rest) r b0 with None => None
              | Some (o, _, _) => Some (o, r, mu)
              end
          | _ => None
          end
      end.
Proof. reflexivity. Qed.

Lemma eval_for_S : forall (ae : N -> bool) (flag : bool) (dl : list (N * list str)) (tt : list (N * list stmt)) (bt : list (N * bstack)) (n : nat) (ce : cexp) (rt : bool) (mu : menv) (k : option callerclo) (sup : option bstack) (r : env) (x : N) (items : list str) (body : list stmt),
  eval_for ae flag dl tt bt (S n) ce rt mu k sup r x items body =
      match items with
      | [] => Some []
      | it :: items' =>
          match eval_ss ae flag dl tt bt n ce rt mu k sup ((x, Plain it) :: r) body with None => None | Some (o1, _, _) =>
          match eval_for ae flag dl tt bt n ce rt mu k sup r x items' body with None => None | Some o2 => Some (o1 ++ o2)
          end end
      end.
Proof. reflexivity. Qed.

Ltac unf := rewrite ?eval_e_S, ?eval_es_S, ?eval_ss_S, ?eval_s_S, ?eval_for_S; cbv beta iota.
Ltac unf_in E := rewrite ?eval_e_S, ?eval_es_S, ?eval_ss_S, ?eval_s_S, ?eval_for_S in E; cbv beta iota in E.

Definition orel {A B : Type} (R : A -> B -> Prop) (x : option A) (y : option B) : Prop :=
  match x, y with
  | Some a, Some b => R a b
  | None, None => True
  | _, _ => False
  end.

(* ================================================================== C16 *)
Definition srel (a b : str) : Prop := Aligned a /\ unescape5 a = b.
Definition vrel (v1 v2 : tstr) : Prop :=
  match v1, v2 with
  | Plain a, Plain b => a = b
  | Mk a, Plain b => srel a b
  | _, Mk _ => False
  end.
Definition prel (p q : N * tstr) : Prop := fst p = fst q /\ vrel (snd p) (snd q).
Definition erel (r1 r2 : env) : Prop := Forall2 prel r1 r2.

Definition oke16 := ok_e neutral_filter (fun _ : str => true).
Definition oks16 := ok_s neutral_filter amp_free (fun _ : str => true) pa16 (fun _ : N => true).

Definition ce_ok (ce : cexp) : Prop := match ce with CConst _ => False | _ => True end.
Definition mac_ok (c : N * (list N * list stmt * cexp * option N)) : Prop :=
  let '(_, (_, body, ce, _)) := c in forallb oks16 body = true /\ ce_ok ce.
Definition mu_ok (mu : menv) : Prop := Forall mac_ok mu.
Definition blk_ok (b : list stmt * cexp) : Prop := forallb oks16 (fst b) = true /\ ce_ok (snd b).
Definition sup_ok (s : option bstack) : Prop := match s with None => True | Some l => Forall blk_ok l end.
Definition tt_ok (tt : list (N * list stmt)) : Prop := Forall (fun p => forallb oks16 (snd p) = true) tt.
Definition bt_ok (bt : list (N * bstack)) : Prop := Forall (fun p => Forall blk_ok (snd p)) bt.
(* caller closures of the two runs: same code, call-site flags true / false *)
Definition krel (k1 k2 : option callerclo) : Prop :=
  match k1, k2 with
  | None, None => True
  | Some (CC b1 c1 f1), Some (CC b2 c2 f2) =>
      b1 = b2 /\ c1 = c2 /\ forallb oks16 b1 = true /\ ce_ok c1 /\
      match f1, f2 with None, None => True | Some x, Some y => x = true /\ y = false | _, _ => False end
  | _, _ => False
  end.

Definition sres_rel (x y : str * env * menv) : Prop :=
  let '(o1, r1, m1) := x in let '(o2, r2, m2) := y in
  srel o1 o2 /\ erel r1 r2 /\ m1 = m2 /\ mu_ok m1.

Lemma sres_intro : forall o1 o2 r1 r2 mu, srel o1 o2 -> erel r1 r2 -> mu_ok mu ->
  sres_rel (o1, r1, mu) (o2, r2, mu).
Proof. intros o1 o2 r1 r2 mu H1 H2 H3. cbn. exact (conj H1 (conj H2 (conj eq_refl H3))). Qed.

Lemma srel_nil : srel [] [].
Proof. split; [constructor|reflexivity]. Qed.

Lemma srel_app : forall a b c d, srel a b -> srel c d -> srel (a ++ c) (b ++ d).
Proof.
  intros a b c d [Ha Ea] [Hc Ec]. split; [now apply aligned_app|].
  rewrite unescape_app_aligned by assumption. now rewrite Ea, Ec.
Qed.

Lemma srel_text : forall t, amp_free t = true -> srel t t.
Proof. intros t H. split; [now apply aligned_amp_free|now apply unescape5_amp_free]. Qed.

Lemma esc_rel : forall v1 v2, vrel v1 v2 -> srel (esc_str v1) (raw v2).
Proof.
  intros [a|a] [b|b] H; cbn in H; try contradiction; cbn [esc_str esc raw].
  - subst b. split; [apply aligned_escape|apply unescape_escape].
  - exact H.
Qed.

Lemma vrel_esc : forall v1 v2, vrel v1 v2 -> vrel (esc v1) v2.
Proof.
  intros v1 v2 H. pose proof (esc_rel v1 v2 H) as E. destruct v1 as [a|a], v2 as [b|b]; cbn in H; try contradiction; exact E.
Qed.

Lemma vrel_truthy : forall v1 v2, vrel v1 v2 -> truthy v1 = truthy v2.
Proof.
  intros [a|a] [b|b] H; cbn in H; try contradiction; unfold truthy; cbn [raw].
  - now subst b.
  - destruct H as [Ha E]. destruct a as [|x a'].
    + cbn in E. now subst b.
    + destruct b as [|y b']; [|reflexivity].
      apply unescape5_nil_aligned in E; [discriminate|exact Ha].
Qed.

Lemma cat_rel : forall va va2 vb vb2, vrel va va2 -> vrel vb vb2 ->
  vrel (markup_join [va; vb]) (str_join [va2; vb2]).
Proof.
  intros va va2 vb vb2 Ha Hb.
  assert (Hs : srel (esc_str va ++ esc_str vb ++ []) (raw va2 ++ raw vb2 ++ [])).
  { apply srel_app; [now apply esc_rel|]. apply srel_app; [now apply esc_rel|apply srel_nil]. }
  destruct va as [a|a], va2 as [a2|a2]; cbn in Ha; try contradiction;
  destruct vb as [b|b], vb2 as [b2|b2]; cbn in Hb; try contradiction;
  unfold markup_join, str_join; cbn [existsb is_mk orb map concat vrel]; try exact Hs.
  subst a2 b2. reflexivity.
Qed.

Lemma join_str_rel : forall s1 s2 l1 l2, srel s1 s2 -> Forall2 srel l1 l2 -> srel (join_str s1 l1) (join_str s2 l2).
Proof.
  intros s1 s2 l1 l2 Hs H. induction H as [|x y l1 l2 Hx Hl IH]; [apply srel_nil|].
  cbn [join_str]. destruct Hl as [|x' y' l1' l2' Hx' Hl']; [exact Hx|].
  apply srel_app; [exact Hx|]. apply srel_app; [exact Hs|exact IH].
Qed.

Lemma join_rel : forall sep1 sep2 vs1 vs2, vrel sep1 sep2 -> Forall2 vrel vs1 vs2 ->
  vrel (join_val true sep1 vs1) (join_val false sep2 vs2).
Proof.
  intros sep1 sep2 vs1 vs2 Hs Hv. unfold join_val. cbn [andb].
  assert (Hesc : Forall2 srel (map esc_str vs1) (map raw vs2)).
  { induction Hv as [|a b l1 l2 Hab Hl IH]; [constructor|]. cbn [map]. constructor; [now apply esc_rel|exact IH]. }
  destruct (is_mk sep1 || existsb is_mk vs1) eqn:E.
  - cbn [vrel]. apply join_str_rel; [now apply esc_rel|exact Hesc].
  - apply orb_false_iff in E as [E1 E2]. cbn [vrel]. clear Hesc.
    assert (Hraw : map raw vs1 = map raw vs2).
    { induction Hv as [|a b l1 l2 Hab Hl IH]; [reflexivity|]. cbn [existsb] in E2. apply orb_false_iff in E2 as [Ea El].
      cbn [map]. rewrite (IH El). f_equal. destruct a as [x|x], b as [y|y]; cbn in Hab, Ea; try contradiction; try discriminate. now subst. }
    rewrite Hraw. destruct sep1 as [x|x], sep2 as [y|y]; cbn in Hs, E1; try contradiction; try discriminate. now subst.
Qed.

Lemma lookup_rel : forall r1 r2 x, erel r1 r2 -> vrel (lookup r1 x) (lookup r2 x).
Proof.
  intros r1 r2 x H. induction H as [|[y1 v1] [y2 v2] r1 r2 [Hy Hv] Hr IH]; [reflexivity|].
  cbn in Hy, Hv. subst y2. cbn [lookup]. destruct (x =? y1); assumption.
Qed.

Lemma bind_rel : forall ps vs1 vs2, Forall2 vrel vs1 vs2 -> orel erel (bind ps vs1) (bind ps vs2).
Proof.
  induction ps as [|p ps IH]; intros vs1 vs2 H.
  - destruct H; cbn; [constructor|exact I].
  - destruct H as [|v1 v2 vs1 vs2 Hv Hvs].
    + cbn [bind]. specialize (IH [] [] (Forall2_nil _)).
      destruct (bind ps []) as [r|]; cbn in IH |- *; [|exact I].
      constructor; [split; reflexivity|exact IH].
    + cbn [bind]. specialize (IH vs1 vs2 Hvs).
      destruct (bind ps vs1) as [r1|], (bind ps vs2) as [r2|]; cbn in IH |- *; try contradiction; [|exact I].
      constructor; [split; [reflexivity|exact Hv]|exact IH].
Qed.

Lemma filt_rel : forall f v1 v2 a1 a2, neutral_filter f = true -> vrel v1 v2 -> Forall2 vrel a1 a2 ->
  orel vrel (apply_filter true f v1 a1) (apply_filter false f v2 a2).
Proof.
  intros f v1 v2 a1 a2 Hf Hv Ha. destruct f; try discriminate Hf.
  - destruct Ha; cbn; [exact Hv|exact I].
  - destruct Ha; cbn; [|exact I].
    destruct v1 as [a|a], v2 as [b|b]; cbn in Hv; try contradiction; cbn.
    + now subst b.
    + destruct Hv as [Hal E]. destruct (lower_unescape_aligned a Hal) as [H1 H2].
      split; [exact H1|]. now rewrite H2, E.
  - destruct Ha as [|d1 d2 a1 a2 Hd Ha]; cbn; [exact I|].
    destruct Ha; cbn; [|exact I].
    rewrite (vrel_truthy v1 v2 Hv). destruct (truthy v2); assumption.
Qed.

Lemma lookup_mac_ok : forall mu m ps body ce home, mu_ok mu -> lookup_mac mu m = Some (ps, body, ce, home) ->
  forallb oks16 body = true /\ ce_ok ce.
Proof.
  intros mu m ps body ce home H. induction H as [|[y [[[ps' b'] ce'] h']] mu Hc Hmu IH]; [discriminate|].
  cbn [lookup_mac]. destruct (m =? y); [|exact IH].
  intros E. injection E as -> -> -> ->. exact Hc.
Qed.

Lemma lookup_tpl_ok : forall tt tid body, tt_ok tt -> lookup_tpl tt tid = Some body -> forallb oks16 body = true.
Proof.
  intros tt tid body H. induction H as [|[y b] tt Hc Htt IH]; [discriminate|].
  cbn [lookup_tpl]. destruct (tid =? y); [|exact IH]. intros E. injection E as ->. exact Hc.
Qed.

Lemma lookup_blk_ok : forall bt nm st, bt_ok bt -> lookup_blk bt nm = Some st -> Forall blk_ok st.
Proof.
  intros bt nm st H. induction H as [|[y b] bt Hc Hbt IH]; [discriminate|].
  cbn [lookup_blk]. destruct (nm =? y); [|exact IH]. intros E. injection E as ->. exact Hc.
Qed.

Lemma exports_ok : forall tid body, forallb oks16 body = true -> mu_ok (exports tid body).
Proof.
  intros tid. induction body as [|s r IH]; intros H; [constructor|].
  cbn [forallb] in H. apply andb_true_iff in H as [Hs Hr]. specialize (IH Hr).
  destruct s; cbn [exports]; try exact IH.
  apply Forall_app. split; [exact IH|]. constructor; [|constructor].
  cbn [oks16 ok_s] in Hs. split; [exact Hs|exact I].
Qed.

Lemma on_now_on : forall ce, ce_ok ce -> on_now (fun _ => true) ce true = true.
Proof. intros [t|b|] H; [reflexivity|contradiction|reflexivity]. Qed.
Lemma on_now_off : forall ce, ce_ok ce -> on_now (fun _ => false) ce false = false.
Proof. intros [t|b|] H; [reflexivity|contradiction|reflexivity]. Qed.

Section C16.
  Variable dl : list (N * list str).
  Variable tt : list (N * list stmt).
  Variable bt : list (N * bstack).
  Hypothesis Htt : tt_ok tt.
  Hypothesis Hbt : bt_ok bt.

  Notation ev1_e := (eval_e (fun _ => true) true dl tt bt).
  Notation ev2_e := (eval_e (fun _ => false) false dl tt bt).
  Notation ev1_es := (eval_es (fun _ => true) true dl tt bt).
  Notation ev2_es := (eval_es (fun _ => false) false dl tt bt).
  Notation ev1_ss := (eval_ss (fun _ => true) true dl tt bt).
  Notation ev2_ss := (eval_ss (fun _ => false) false dl tt bt).
  Notation ev1_s := (eval_s (fun _ => true) true dl tt bt).
  Notation ev2_s := (eval_s (fun _ => false) false dl tt bt).
  Notation ev1_for := (eval_for (fun _ => true) true dl tt bt).
  Notation ev2_for := (eval_for (fun _ => false) false dl tt bt).

  Definition P_e (n : nat) : Prop := forall ce mu k1 k2 sup r1 r2 e,
    ce_ok ce -> mu_ok mu -> krel k1 k2 -> sup_ok sup -> erel r1 r2 -> oke16 e = true ->
    orel vrel (ev1_e n ce true mu k1 sup r1 e) (ev2_e n ce false mu k2 sup r2 e).
  Definition P_es (n : nat) : Prop := forall ce mu k1 k2 sup r1 r2 es,
    ce_ok ce -> mu_ok mu -> krel k1 k2 -> sup_ok sup -> erel r1 r2 -> forallb oke16 es = true ->
    orel (Forall2 vrel) (ev1_es n ce true mu k1 sup r1 es) (ev2_es n ce false mu k2 sup r2 es).
  Definition P_ss (n : nat) : Prop := forall ce mu k1 k2 sup r1 r2 ss,
    ce_ok ce -> mu_ok mu -> krel k1 k2 -> sup_ok sup -> erel r1 r2 -> forallb oks16 ss = true ->
    orel sres_rel (ev1_ss n ce true mu k1 sup r1 ss) (ev2_ss n ce false mu k2 sup r2 ss).
  Definition P_s (n : nat) : Prop := forall ce mu k1 k2 sup r1 r2 s,
    ce_ok ce -> mu_ok mu -> krel k1 k2 -> sup_ok sup -> erel r1 r2 -> oks16 s = true ->
    orel sres_rel (ev1_s n ce true mu k1 sup r1 s) (ev2_s n ce false mu k2 sup r2 s).
  Definition P_for (n : nat) : Prop := forall ce mu k1 k2 sup r1 r2 x items body,
    ce_ok ce -> mu_ok mu -> krel k1 k2 -> sup_ok sup -> erel r1 r2 -> forallb oks16 body = true ->
    orel srel (ev1_for n ce true mu k1 sup r1 x items body) (ev2_for n ce false mu k2 sup r2 x items body).

  Tactic Notation "both" hyp(H) "as" ident(a) ident(b) :=
    match type of H with
    | orel _ ?x ?y =>
        destruct x as [a|], y as [b|]; cbn [orel] in H; try contradiction; try exact I
    end.

  Lemma rel_all : forall n, P_e n /\ P_es n /\ P_ss n /\ P_s n /\ P_for n.
  Proof.
    induction n as [|n (IHe & IHes & IHss & IHs & IHfor)].
    { repeat split; repeat intro; exact I. }
    repeat split.
    - (* expressions *)
      intros ce mu k1 k2 sup r1 r2 e Hce Hmu Hk Hsup Hr He. destruct e as [x|s|a b|f a args|c a b|m args| | |sep items].
      + unf. now apply lookup_rel.
      + unf. reflexivity.
      + cbn [oke16 ok_e] in He. fold oke16 in He. apply andb_true_iff in He as [Ha Hb]. unf.
        pose proof (IHe ce mu k1 k2 sup r1 r2 a Hce Hmu Hk Hsup Hr Ha) as Ra. both Ra as va1 va2.
        pose proof (IHe ce mu k1 k2 sup r1 r2 b Hce Hmu Hk Hsup Hr Hb) as Rb. both Rb as vb1 vb2.
        rewrite on_now_on, on_now_off by assumption. cbn [orel]. now apply cat_rel.
      + cbn [oke16 ok_e] in He. fold oke16 in He.
        apply andb_true_iff in He as [He Hargs]. apply andb_true_iff in He as [Hf Ha]. unf.
        pose proof (IHe ce mu k1 k2 sup r1 r2 a Hce Hmu Hk Hsup Hr Ha) as Ra. both Ra as va1 va2.
        pose proof (IHes ce mu k1 k2 sup r1 r2 args Hce Hmu Hk Hsup Hr Hargs) as Rs. both Rs as vs1 vs2.
        now apply filt_rel.
      + cbn [oke16 ok_e] in He. fold oke16 in He.
        apply andb_true_iff in He as [He Hb]. apply andb_true_iff in He as [Hc Ha]. unf.
        pose proof (IHe ce mu k1 k2 sup r1 r2 c Hce Hmu Hk Hsup Hr Hc) as Rc. both Rc as vc1 vc2.
        rewrite (vrel_truthy _ _ Rc). destruct (truthy vc2); now apply IHe.
      + cbn [oke16 ok_e] in He. fold oke16 in He. unf.
        pose proof (IHes ce mu k1 k2 sup r1 r2 args Hce Hmu Hk Hsup Hr He) as Rs. both Rs as vs1 vs2.
        destruct (lookup_mac mu m) as [[[[ps body] ce'] home]|] eqn:El; [|exact I].
        destruct (lookup_mac_ok mu m ps body ce' home Hmu El) as [Hb Hce'].
        pose proof (bind_rel ps vs1 vs2 Rs) as Rb. both Rb as pr1 pr2.
        assert (Hr' : erel (pr1 ++ r1) (pr2 ++ r2)) by (now apply Forall2_app).
        assert (E1 : match home with Some _ => true | None => true end = true) by (destruct home; reflexivity).
        assert (E2 : match home with Some _ => false | None => false end = false) by (destruct home; reflexivity).
        rewrite ?E1, ?E2; cbv zeta.
        pose proof (IHss ce' mu None None None (pr1 ++ r1) (pr2 ++ r2) body Hce' Hmu I I Hr' Hb) as Rss.
        both Rss as x1 x2.
        destruct x1 as [[o1 r1'] m1], x2 as [[o2 r2'] m2]. cbn in Rss. destruct Rss as (Ho & _).
        cbn. exact Ho.
      + unf. destruct k1 as [[b1 c1 f1]|], k2 as [[b2 c2 f2]|]; cbn in Hk; try contradiction; [|exact I].
        destruct Hk as (<- & <- & Hb & Hc1 & Hf).
        assert (E : (match f1 with Some b => b | None => true end = true) /\ (match f2 with Some b => b | None => false end = false)).
        { destruct f1, f2; try contradiction; [destruct Hf as [-> ->]|]; split; reflexivity. }
        destruct E as [E1 E2]. rewrite ?E1, ?E2; cbv zeta.
        pose proof (IHss c1 mu None None None r1 r2 b1 Hc1 Hmu I I Hr Hb) as Rss. both Rss as x1 x2.
        destruct x1 as [[o1 r1'] m1], x2 as [[o2 r2'] m2]. cbn in Rss. destruct Rss as (Ho & _).
        cbn. exact Ho.
      + unf. destruct sup as [[|[b0 ce'] rest]|]; try exact I.
        cbn in Hsup. inversion Hsup as [|? ? Hb0 Hrest]; subst. destruct Hb0 as [Hb Hce']. cbn in Hb, Hce'.
        pose proof (IHss ce' mu None None (Some rest) r1 r2 b0 Hce' Hmu I Hrest Hr Hb) as Rss. both Rss as x1 x2.
        destruct x1 as [[o1 r1'] m1], x2 as [[o2 r2'] m2]. cbn in Rss. destruct Rss as (Ho & _).
        cbn. exact Ho.
      + cbn [oke16 ok_e] in He. fold oke16 in He. apply andb_true_iff in He as [Hsep Hit]. unf.
        pose proof (IHes ce mu k1 k2 sup r1 r2 items Hce Hmu Hk Hsup Hr Hit) as Rs. both Rs as vs1 vs2.
        pose proof (IHe ce mu k1 k2 sup r1 r2 sep Hce Hmu Hk Hsup Hr Hsep) as Ra. both Ra as s1 s2.
        cbn [orel]. now apply join_rel.
    - (* expression lists *)
      intros ce mu k1 k2 sup r1 r2 es Hce Hmu Hk Hsup Hr He. destruct es as [|e es].
      + unf. constructor.
      + cbn [forallb] in He. apply andb_true_iff in He as [He Hes]. unf.
        pose proof (IHe ce mu k1 k2 sup r1 r2 e Hce Hmu Hk Hsup Hr He) as Ra. both Ra as v1 v2.
        pose proof (IHes ce mu k1 k2 sup r1 r2 es Hce Hmu Hk Hsup Hr Hes) as Rs. both Rs as vs1 vs2.
        cbn. now constructor.
    - (* statement lists *)
      intros ce mu k1 k2 sup r1 r2 ss Hce Hmu Hk Hsup Hr Hs. destruct ss as [|s ss].
      + unf. cbn [orel]. apply sres_intro; [apply srel_nil|assumption|assumption].
      + cbn [forallb] in Hs. apply andb_true_iff in Hs as [Hs Hss]. unf.
        pose proof (IHs ce mu k1 k2 sup r1 r2 s Hce Hmu Hk Hsup Hr Hs) as Ra. both Ra as x1 x2.
        destruct x1 as [[o1 r1'] m1], x2 as [[o2 r2'] m2]. cbn in Ra. destruct Ra as (Ho & Hr' & -> & Hm).
        pose proof (IHss ce m2 k1 k2 sup r1' r2' ss Hce Hm Hk Hsup Hr' Hss) as Rb. both Rb as y1 y2.
        destruct y1 as [[o1' r1''] m1'], y2 as [[o2' r2''] m2']. cbn in Rb. destruct Rb as (Ho' & Hr'' & -> & Hm').
        cbn [orel]. apply sres_intro; [now apply srel_app|assumption|assumption].
    - (* statements *)
      intros ce mu k1 k2 sup r1 r2 s Hce Hmu Hk Hsup Hr Hs.
      destruct s as [t|e|c t f|x l body|x e|x body|x f args body|m ps body|m args body|f args body|a body|tid|tid|nm body].
      + cbn [oks16 ok_s] in Hs. unf. cbn [orel].
        apply sres_intro; [now apply srel_text|assumption|assumption].
      + cbn [oks16 ok_s] in Hs. fold oke16 in Hs. unf.
        pose proof (IHe ce mu k1 k2 sup r1 r2 e Hce Hmu Hk Hsup Hr Hs) as Ra. both Ra as v1 v2.
        rewrite on_now_on, on_now_off by assumption. cbn [orel out_piece].
        apply sres_intro; [now apply esc_rel|assumption|assumption].
      + cbn [oks16 ok_s] in Hs. fold oke16 oks16 in Hs.
        apply andb_true_iff in Hs as [Hs Hf]. apply andb_true_iff in Hs as [Hc Ht]. unf.
        pose proof (IHe ce mu k1 k2 sup r1 r2 c Hce Hmu Hk Hsup Hr Hc) as Rc. both Rc as vc1 vc2.
        rewrite (vrel_truthy _ _ Rc). destruct (truthy vc2); now apply IHss.
      + cbn [oks16 ok_s] in Hs. fold oks16 in Hs. unf.
        pose proof (IHfor ce mu k1 k2 sup r1 r2 x (lookup_list dl l) body Hce Hmu Hk Hsup Hr Hs) as Rf. both Rf as o1 o2.
        cbn [orel]. apply sres_intro; assumption.
      + cbn [oks16 ok_s] in Hs. fold oke16 in Hs. unf.
        pose proof (IHe ce mu k1 k2 sup r1 r2 e Hce Hmu Hk Hsup Hr Hs) as Ra. both Ra as v1 v2.
        cbn [orel]. apply sres_intro; [apply srel_nil| |assumption].
        constructor; [split; [reflexivity|exact Ra]|exact Hr].
      + cbn [oks16 ok_s] in Hs. fold oks16 in Hs. unf.
        pose proof (IHss ce mu k1 k2 sup r1 r2 body Hce Hmu Hk Hsup Hr Hs) as Rb. both Rb as x1 x2.
        destruct x1 as [[o1 r1'] m1], x2 as [[o2 r2'] m2]. cbn in Rb. destruct Rb as (Ho & _).
        cbn [orel wrap]. apply sres_intro; [apply srel_nil| |assumption].
        constructor; [split; [reflexivity|exact Ho]|exact Hr].
      + (* set block with a filter *)
        cbn [oks16 ok_s] in Hs. fold oke16 oks16 in Hs.
        apply andb_true_iff in Hs as [Hs Hbody]. apply andb_true_iff in Hs as [Hf Hargs]. unf.
        pose proof (IHss ce mu k1 k2 sup r1 r2 body Hce Hmu Hk Hsup Hr Hbody) as Rb. both Rb as x1 x2.
        destruct x1 as [[o1 r1'] m1], x2 as [[o2 r2'] m2]. cbn in Rb. destruct Rb as (Ho & _).
        pose proof (IHes ce mu k1 k2 sup r1 r2 args Hce Hmu Hk Hsup Hr Hargs) as Rs. both Rs as vs1 vs2.
        rewrite on_now_on, on_now_off by assumption. cbn [wrap].
        pose proof (filt_rel f (Mk o1) (Plain o2) vs1 vs2 Hf Ho Rs) as Rf. both Rf as w1 w2.
        cbn [orel]. apply sres_intro; [apply srel_nil| |assumption].
        constructor; [split; [reflexivity|now apply vrel_esc]|exact Hr].
      + cbn [oks16 ok_s] in Hs. fold oks16 in Hs. unf. cbn [orel].
        apply sres_intro; [apply srel_nil|assumption|].
        constructor; [split; assumption|exact Hmu].
      + cbn [oks16 ok_s] in Hs. fold oke16 oks16 in Hs. apply andb_true_iff in Hs as [Hargs Hbody]. unf.
        pose proof (IHes ce mu k1 k2 sup r1 r2 args Hce Hmu Hk Hsup Hr Hargs) as Rs. both Rs as vs1 vs2.
        destruct (lookup_mac mu m) as [[[[ps mbody] ce'] home]|] eqn:El; [|exact I].
        destruct (lookup_mac_ok mu m ps mbody ce' home Hmu El) as [Hb Hce'].
        pose proof (bind_rel ps vs1 vs2 Rs) as Rb. both Rb as pr1 pr2.
        assert (Hr' : erel (pr1 ++ r1) (pr2 ++ r2)) by (now apply Forall2_app).
        assert (E1 : match home with Some _ => true | None => true end = true) by (destruct home; reflexivity).
        assert (E2 : match home with Some _ => false | None => false end = false) by (destruct home; reflexivity).
        rewrite ?E1, ?E2; cbv zeta.
        assert (Hk' : krel (Some (CC body ce match home with Some _ => Some true | None => None end))
                           (Some (CC body ce match home with Some _ => Some false | None => None end))).
        { cbn. repeat split; try assumption. destruct home; [split; reflexivity|exact I]. }
        pose proof (IHss ce' mu _ _ None (pr1 ++ r1) (pr2 ++ r2) mbody Hce' Hmu Hk' I Hr' Hb) as Rss.
        both Rss as x1 x2.
        destruct x1 as [[o1 r1'] m1], x2 as [[o2 r2'] m2]. cbn in Rss. destruct Rss as (Ho & _).
        rewrite on_now_on, on_now_off by assumption. cbn [orel out_piece wrap esc_str esc raw]. apply sres_intro; assumption.
      + cbn [oks16 ok_s] in Hs. fold oke16 oks16 in Hs.
        apply andb_true_iff in Hs as [Hs Hbody]. apply andb_true_iff in Hs as [Hf Hargs]. unf.
        pose proof (IHss ce mu k1 k2 sup r1 r2 body Hce Hmu Hk Hsup Hr Hbody) as Rb. both Rb as x1 x2.
        destruct x1 as [[o1 r1'] m1], x2 as [[o2 r2'] m2]. cbn in Rb. destruct Rb as (Ho & _).
        pose proof (IHes ce mu k1 k2 sup r1 r2 args Hce Hmu Hk Hsup Hr Hargs) as Rs. both Rs as vs1 vs2.
        rewrite on_now_on, on_now_off by assumption. cbn [wrap].
        pose proof (filt_rel f (Mk o1) (Plain o2) vs1 vs2 Hf Ho Rs) as Rf. both Rf as w1 w2.
        cbn [orel out_piece]. apply sres_intro; [now apply esc_rel|assumption|assumption].
      + cbn [oks16 ok_s] in Hs. fold oks16 in Hs. apply andb_true_iff in Hs as [Ha Hbody].
        destruct a as [b|]; [discriminate Ha|]. unf. cbn [ce_enter rt_enter].
        pose proof (IHss CVol mu k1 k2 sup r1 r2 body I Hmu Hk Hsup Hr Hbody) as Rb. both Rb as x1 x2.
        destruct x1 as [[o1 r1'] m1], x2 as [[o2 r2'] m2]. cbn in Rb. destruct Rb as (Ho & _).
        cbn [orel]. apply sres_intro; assumption.
      + (* include *)
        unf. destruct (lookup_tpl tt tid) as [body|] eqn:El; [|exact I].
        pose proof (lookup_tpl_ok tt tid body Htt El) as Hb.
        pose proof (IHss (CTop tid) [] None None None r1 r2 body I (Forall_nil _) I I Hr Hb) as Rb. both Rb as x1 x2.
        destruct x1 as [[o1 r1'] m1], x2 as [[o2 r2'] m2]. cbn in Rb. destruct Rb as (Ho & _).
        cbn [orel]. apply sres_intro; assumption.
      + (* import *)
        unf. destruct (lookup_tpl tt tid) as [body|] eqn:El; [|exact I].
        pose proof (lookup_tpl_ok tt tid body Htt El) as Hb.
        cbn [orel]. apply sres_intro; [apply srel_nil|assumption|].
        apply Forall_app. split; [now apply exports_ok|exact Hmu].
      + (* block *)
        unf. destruct (lookup_blk bt nm) as [[|[b0 ce'] rest]|] eqn:El; try exact I.
        pose proof (lookup_blk_ok bt nm _ Hbt El) as Hst. inversion Hst as [|? ? Hb0 Hrest]; subst.
        destruct Hb0 as [Hb Hce']. cbn in Hb, Hce'.
        pose proof (IHss ce' mu None None (Some rest) r1 r2 b0 Hce' Hmu I Hrest Hr Hb) as Rb. both Rb as x1 x2.
        destruct x1 as [[o1 r1'] m1], x2 as [[o2 r2'] m2]. cbn in Rb. destruct Rb as (Ho & _).
        cbn [orel]. apply sres_intro; assumption.
    - (* for *)
      intros ce mu k1 k2 sup r1 r2 x items body Hce Hmu Hk Hsup Hr Hb. destruct items as [|it items].
      + unf. apply srel_nil.
      + unf.
        assert (Hr' : erel ((x, Plain it) :: r1) ((x, Plain it) :: r2)).
        { constructor; [split; reflexivity|exact Hr]. }
        pose proof (IHss ce mu k1 k2 sup _ _ body Hce Hmu Hk Hsup Hr' Hb) as Rb. both Rb as x1 x2.
        destruct x1 as [[o1 r1'] m1], x2 as [[o2 r2'] m2]. cbn in Rb. destruct Rb as (Ho & _).
        pose proof (IHfor ce mu k1 k2 sup r1 r2 x items body Hce Hmu Hk Hsup Hr Hb) as Rf. both Rf as p1 p2.
        cbn. now apply srel_app.
  Qed.

  Lemma init_env_rel : forall d, erel (init_env d) (init_env d).
  Proof.
    induction d as [|[x s] d IH]; [constructor|].
    cbn. constructor; [split; reflexivity|exact IH].
  Qed.

  Theorem escape_once_sets : forall n main base root d, forallb oks16 root = true ->
    orel srel (render (fun _ => true) true dl tt bt n main base root d)
              (render (fun _ => false) false dl tt bt n main base root d).
  Proof.
    intros n main base root d H. unfold render.
    destruct (rel_all n) as (_ & _ & Hss & _).
    pose proof (Hss (CTop base) [] None None None (init_env d) (init_env d) root I (Forall_nil _) I I
                    (init_env_rel d) H) as R.
    destruct (eval_ss (fun _ => true) true dl tt bt n (CTop base) true [] None None (init_env d) root) as [[[o1 r1] m1]|],
             (eval_ss (fun _ => false) false dl tt bt n (CTop base) false [] None None (init_env d) root) as [[[o2 r2] m2]|];
      cbn in R |- *; try contradiction; try exact I.
    apply R.
  Qed.
End C16.

(* ================================================================== C15 *)
Definition oke15 := ok_e pf15 (fun _ : str => true).
Definition env_ok (r : env) : Prop := Forall (fun p : N * tstr => MkClean (snd p)) r.

Lemma lookup_ok : forall r x, env_ok r -> MkClean (lookup r x).
Proof.
  intros r x H. induction H as [|[y v] r Hv Hr IH]; [exact I|].
  cbn [lookup]. destruct (x =? y); assumption.
Qed.

Lemma bind_ok : forall ps vs r, Forall MkClean vs -> bind ps vs = Some r -> env_ok r.
Proof.
  induction ps as [|p ps IH]; intros vs r H E.
  - destruct vs; [|discriminate]. injection E as <-. constructor.
  - destruct H as [|v vs Hv Hvs]; cbn [bind] in E.
    + destruct (bind ps []) as [r'|] eqn:Eb; [|discriminate]. injection E as <-.
      constructor; [exact I|]. exact (IH [] r' (Forall_nil _) Eb).
    + destruct (bind ps vs) as [r'|] eqn:Eb; [|discriminate]. injection E as <-.
      constructor; [exact Hv|]. exact (IH vs r' Hvs Eb).
Qed.

Lemma filt_clean : forall f v args r, pf15 f = true -> MkClean v -> Forall MkClean args ->
  apply_filter true f v args = Some r -> MkClean r.
Proof.
  intros f v args r Hf Hv Ha E. destruct f; try discriminate Hf; cbn [apply_filter] in E.
  - destruct args; [|discriminate]. injection E as <-. exact Hv.
  - destruct args; [|discriminate]. injection E as <-. apply MkClean_mk_map; [exact Clean_lower|exact Hv].
  - destruct args; [|discriminate]. injection E as <-. apply MkClean_mk_map; [exact Clean_upper|exact Hv].
  - destruct args; [|discriminate]. injection E as <-. now apply MkClean_esc.
  - destruct args; [|discriminate]. injection E as <-. apply Clean_escape.
  - destruct args as [|d [|]]; try discriminate. injection E as <-.
    destruct (truthy v); [exact Hv|now inversion Ha].
  - destruct args as [|old [|new [|]]]; try discriminate. injection E as <-.
    apply MkClean_mk_replace; [|inversion Ha as [|? ? ? H2]; now inversion H2].
    destruct (is_mk old || (is_mk new && negb (is_mk v))); [now apply MkClean_esc|exact Hv].
Qed.

Section C15.
  Variable ae : N -> bool.
  Variable dl : list (N * list str).
  Variable tt : list (N * list stmt).
  Variable bt : list (N * bstack).

  Definition oks15 := ok_s pf15 clean (fun _ : str => true) pa15 ae.
  Definition ce_on (ce : cexp) : Prop := on_now ae ce true = true.
  Definition mac_on (c : N * (list N * list stmt * cexp * option N)) : Prop :=
    let '(_, (_, body, ce, home)) := c in
    forallb oks15 body = true /\ ce_on ce /\ match home with Some tid => ae tid = true | None => True end.
  Definition mu_on (mu : menv) : Prop := Forall mac_on mu.
  Definition k_on (k : option callerclo) : Prop :=
    match k with None => True | Some (CC body ce frt) =>
      forallb oks15 body = true /\ ce_on ce /\ match frt with Some b => b = true | None => True end end.
  Definition blk_on (b : list stmt * cexp) : Prop := forallb oks15 (fst b) = true /\ ce_on (snd b).
  Definition sup_on (s : option bstack) : Prop := match s with None => True | Some l => Forall blk_on l end.
  Definition tt_on : Prop := Forall (fun p : N * list stmt => forallb oks15 (snd p) = true) tt.
  Definition bt_on : Prop := Forall (fun p : N * bstack => Forall blk_on (snd p)) bt.
  Definition sres_ok (x : str * env * menv) : Prop :=
    let '(o, r, m) := x in Clean o /\ env_ok r /\ mu_on m.

  Hypothesis Htt : tt_on.
  Hypothesis Hbt : bt_on.

  Lemma sres_ok_intro : forall o r m, Clean o -> env_ok r -> mu_on m -> sres_ok (o, r, m).
  Proof. intros o r m H1 H2 H3. exact (conj H1 (conj H2 H3)). Qed.

  Lemma lookup_mac_on : forall mu m ps body ce home, mu_on mu -> lookup_mac mu m = Some (ps, body, ce, home) ->
    forallb oks15 body = true /\ ce_on ce /\ match home with Some tid => ae tid = true | None => True end.
  Proof.
    intros mu m ps body ce home H. induction H as [|[y [[[ps' b'] ce'] h']] mu Hc Hmu IH]; [discriminate|].
    cbn [lookup_mac]. destruct (m =? y); [|exact IH].
    intros E. injection E as -> -> -> ->. exact Hc.
  Qed.

  Lemma lookup_tpl_on : forall tid body, lookup_tpl tt tid = Some body -> forallb oks15 body = true.
  Proof.
    intros tid body. unfold tt_on in Htt. revert Htt. generalize tt as l.
    induction l as [|[y b] l IH]; intros H; [discriminate|]. inversion H as [|? ? Hc Hl]; subst.
    cbn [lookup_tpl]. destruct (tid =? y); [|exact (IH Hl)]. intros E. injection E as ->. exact Hc.
  Qed.

  Lemma lookup_blk_on : forall nm st, lookup_blk bt nm = Some st -> Forall blk_on st.
  Proof.
    intros nm st. unfold bt_on in Hbt. revert Hbt. generalize bt as l.
    induction l as [|[y b] l IH]; intros H; [discriminate|]. inversion H as [|? ? Hc Hl]; subst.
    cbn [lookup_blk]. destruct (nm =? y); [|exact (IH Hl)]. intros E. injection E as ->. exact Hc.
  Qed.

  Lemma exports_on : forall tid body, ae tid = true -> forallb oks15 body = true -> mu_on (exports tid body).
  Proof.
    intros tid body Ha. induction body as [|s r IH]; intros H; [constructor|].
    cbn [forallb] in H. apply andb_true_iff in H as [Hs Hr]. specialize (IH Hr).
    destruct s; cbn [exports]; try exact IH.
    apply Forall_app. split; [exact IH|]. constructor; [|constructor].
    cbn [oks15 ok_s] in Hs. split; [exact Hs|]. split; [exact Ha|exact Ha].
  Qed.

  Lemma ce_enter_on : forall ce a, pa15 a = true -> ce_on (ce_enter ce a).
  Proof.
    intros ce a H. unfold ce_on. destruct a as [[|]|]; [|discriminate H|]; [|reflexivity].
    destruct ce; reflexivity.
  Qed.
  Lemma rt_enter_on : forall a, pa15 a = true -> rt_enter true a = true.
  Proof. intros [[|]|] H; [reflexivity|discriminate H|reflexivity]. Qed.

  Notation ev_e := (eval_e ae true dl tt bt).
  Notation ev_es := (eval_es ae true dl tt bt).
  Notation ev_ss := (eval_ss ae true dl tt bt).
  Notation ev_s := (eval_s ae true dl tt bt).
  Notation ev_for := (eval_for ae true dl tt bt).

  Definition Q_e (n : nat) : Prop := forall ce mu k sup r e v,
    ce_on ce -> mu_on mu -> k_on k -> sup_on sup -> env_ok r -> oke15 e = true ->
    ev_e n ce true mu k sup r e = Some v -> MkClean v.
  Definition Q_es (n : nat) : Prop := forall ce mu k sup r es vs,
    ce_on ce -> mu_on mu -> k_on k -> sup_on sup -> env_ok r -> forallb oke15 es = true ->
    ev_es n ce true mu k sup r es = Some vs -> Forall MkClean vs.
  Definition Q_ss (n : nat) : Prop := forall ce mu k sup r ss x,
    ce_on ce -> mu_on mu -> k_on k -> sup_on sup -> env_ok r -> forallb oks15 ss = true ->
    ev_ss n ce true mu k sup r ss = Some x -> sres_ok x.
  Definition Q_s (n : nat) : Prop := forall ce mu k sup r s x,
    ce_on ce -> mu_on mu -> k_on k -> sup_on sup -> env_ok r -> oks15 s = true ->
    ev_s n ce true mu k sup r s = Some x -> sres_ok x.
  Definition Q_for (n : nat) : Prop := forall ce mu k sup r x items body o,
    ce_on ce -> mu_on mu -> k_on k -> sup_on sup -> env_ok r -> forallb oks15 body = true ->
    ev_for n ce true mu k sup r x items body = Some o -> Clean o.

  Lemma inv_all : forall n, Q_e n /\ Q_es n /\ Q_ss n /\ Q_s n /\ Q_for n.
  Proof.
    induction n as [|n (IHe & IHes & IHss & IHs & IHfor)].
    { repeat split; repeat intro; discriminate. }
    repeat split.
    - intros ce mu k sup r e v Hce Hmu Hk Hsup Hr He E.
      destruct e as [x|s|a b|f a args|c a b|m args| | |sep items]; unf_in E.
      + injection E as <-. now apply lookup_ok.
      + injection E as <-. exact I.
      + cbn [oke15 ok_e] in He. fold oke15 in He. apply andb_true_iff in He as [Ha Hb].
        destruct (ev_e n ce true mu k sup r a) as [va|] eqn:Ea; [|discriminate].
        destruct (ev_e n ce true mu k sup r b) as [vb|] eqn:Eb; [|discriminate].
        unfold ce_on in Hce. rewrite Hce in E. injection E as <-.
        apply MkClean_markup_join. repeat constructor.
        * exact (IHe _ _ _ _ _ _ _ Hce Hmu Hk Hsup Hr Ha Ea).
        * exact (IHe _ _ _ _ _ _ _ Hce Hmu Hk Hsup Hr Hb Eb).
      + cbn [oke15 ok_e] in He. fold oke15 in He.
        apply andb_true_iff in He as [He Hargs]. apply andb_true_iff in He as [Hf Ha].
        destruct (ev_e n ce true mu k sup r a) as [va|] eqn:Ea; [|discriminate].
        destruct (ev_es n ce true mu k sup r args) as [vs|] eqn:Es; [|discriminate].
        apply (filt_clean f va vs v Hf); [|exact (IHes _ _ _ _ _ _ _ Hce Hmu Hk Hsup Hr Hargs Es)|exact E].
        exact (IHe _ _ _ _ _ _ _ Hce Hmu Hk Hsup Hr Ha Ea).
      + cbn [oke15 ok_e] in He. fold oke15 in He.
        apply andb_true_iff in He as [He Hb]. apply andb_true_iff in He as [Hc Ha].
        destruct (ev_e n ce true mu k sup r c) as [vc|] eqn:Ec; [|discriminate].
        destruct (truthy vc).
        * exact (IHe _ _ _ _ _ _ _ Hce Hmu Hk Hsup Hr Ha E).
        * exact (IHe _ _ _ _ _ _ _ Hce Hmu Hk Hsup Hr Hb E).
      + cbn [oke15 ok_e] in He. fold oke15 in He.
        destruct (ev_es n ce true mu k sup r args) as [vs|] eqn:Es; [|discriminate].
        destruct (lookup_mac mu m) as [[[[ps body] ce'] home]|] eqn:El; [|discriminate].
        destruct (lookup_mac_on mu m ps body ce' home Hmu El) as (Hb & Hce' & Hh).
        destruct (bind ps vs) as [pr|] eqn:Eb; [|discriminate]. cbv zeta in E.
        assert (Ert : match home with Some tid => ae tid | None => true end = true) by (destruct home; [exact Hh|reflexivity]).
        rewrite Ert in E.
        destruct (ev_ss n ce' true mu None None (pr ++ r) body) as [[[o r'] m']|] eqn:Ess; [|discriminate].
        injection E as <-.
        assert (Hr' : env_ok (pr ++ r)).
        { apply Forall_app. split; [|exact Hr].
          apply (bind_ok ps vs pr); [|exact Eb]. exact (IHes _ _ _ _ _ _ _ Hce Hmu Hk Hsup Hr He Es). }
        destruct (IHss ce' mu None None (pr ++ r) body _ Hce' Hmu I I Hr' Hb Ess) as (Ho & _). exact Ho.
      + destruct k as [[body ce' frt]|]; [|discriminate]. cbn in Hk. destruct Hk as (Hb & Hce' & Hf).
        cbv zeta in E.
        assert (Ert : match frt with Some b => b | None => true end = true) by (destruct frt; [exact Hf|reflexivity]).
        rewrite Ert in E.
        destruct (ev_ss n ce' true mu None None r body) as [[[o r'] m']|] eqn:Ess; [|discriminate].
        injection E as <-.
        destruct (IHss ce' mu None None r body _ Hce' Hmu I I Hr Hb Ess) as (Ho & _). exact Ho.
      + destruct sup as [[|[b0 ce'] rest]|]; try discriminate.
        cbn in Hsup. inversion Hsup as [|? ? Hb0 Hrest]; subst. destruct Hb0 as [Hb Hce']. cbn in Hb, Hce'.
        destruct (ev_ss n ce' true mu None (Some rest) r b0) as [[[o r'] m']|] eqn:Ess; [|discriminate].
        injection E as <-.
        destruct (IHss ce' mu None (Some rest) r b0 _ Hce' Hmu I Hrest Hr Hb Ess) as (Ho & _). exact Ho.
      + cbn [oke15 ok_e] in He. fold oke15 in He. apply andb_true_iff in He as [Hsep Hit].
        destruct (ev_es n ce true mu k sup r items) as [vs|] eqn:Es; [|discriminate].
        destruct (ev_e n ce true mu k sup r sep) as [vsep|] eqn:Ea; [|discriminate].
        injection E as <-. unfold join_val. destruct (true && (is_mk vsep || existsb is_mk vs)); [|exact I].
        cbn [MkClean]. apply Clean_join_str.
        * apply Clean_esc_str. exact (IHe _ _ _ _ _ _ _ Hce Hmu Hk Hsup Hr Hsep Ea).
        * pose proof (IHes _ _ _ _ _ _ _ Hce Hmu Hk Hsup Hr Hit Es) as Hvs. clear Es.
          induction Hvs as [|v l Hv Hl IHl]; [constructor|]. cbn [map]. constructor; [now apply Clean_esc_str|exact IHl].
    - intros ce mu k sup r es vs Hce Hmu Hk Hsup Hr He E. destruct es as [|e es]; unf_in E.
      + injection E as <-. constructor.
      + cbn [forallb] in He. apply andb_true_iff in He as [He Hes].
        destruct (ev_e n ce true mu k sup r e) as [v|] eqn:Ee; [|discriminate].
        destruct (ev_es n ce true mu k sup r es) as [vs'|] eqn:Es; [|discriminate].
        injection E as <-. constructor.
        * exact (IHe _ _ _ _ _ _ _ Hce Hmu Hk Hsup Hr He Ee).
        * exact (IHes _ _ _ _ _ _ _ Hce Hmu Hk Hsup Hr Hes Es).
    - intros ce mu k sup r ss x Hce Hmu Hk Hsup Hr Hs E. destruct ss as [|s ss]; unf_in E.
      + injection E as <-. apply sres_ok_intro; [reflexivity|assumption|assumption].
      + cbn [forallb] in Hs. apply andb_true_iff in Hs as [Hs Hss].
        destruct (ev_s n ce true mu k sup r s) as [[[o1 r1] m1]|] eqn:E1; [|discriminate].
        destruct (IHs _ _ _ _ _ _ _ Hce Hmu Hk Hsup Hr Hs E1) as (Ho1 & Hr1 & Hm1).
        destruct (ev_ss n ce true m1 k sup r1 ss) as [[[o2 r2] m2]|] eqn:E2; [|discriminate].
        destruct (IHss _ _ _ _ _ _ _ Hce Hm1 Hk Hsup Hr1 Hss E2) as (Ho2 & Hr2 & Hm2).
        injection E as <-. apply sres_ok_intro; [now apply Clean_app|assumption|assumption].
    - intros ce mu k sup r s x Hce Hmu Hk Hsup Hr Hs E.
      destruct s as [t|e|c t f|y l body|y e|y body|y f args body|m ps body|m args body|f args body|a body|tid|tid|nm body];
        unf_in E.
      + injection E as <-. cbn [oks15 ok_s] in Hs. apply sres_ok_intro; assumption.
      + cbn [oks15 ok_s] in Hs. fold oke15 in Hs.
        destruct (ev_e n ce true mu k sup r e) as [v|] eqn:Ee; [|discriminate].
        injection E as <-. unfold ce_on in Hce. rewrite Hce. cbn [out_piece].
        apply sres_ok_intro; try assumption. apply Clean_esc_str.
        exact (IHe _ _ _ _ _ _ _ Hce Hmu Hk Hsup Hr Hs Ee).
      + cbn [oks15 ok_s] in Hs. fold oke15 oks15 in Hs.
        apply andb_true_iff in Hs as [Hs Hf]. apply andb_true_iff in Hs as [Hc Ht].
        destruct (ev_e n ce true mu k sup r c) as [vc|] eqn:Ec; [|discriminate].
        destruct (truthy vc).
        * exact (IHss _ _ _ _ _ _ _ Hce Hmu Hk Hsup Hr Ht E).
        * exact (IHss _ _ _ _ _ _ _ Hce Hmu Hk Hsup Hr Hf E).
      + cbn [oks15 ok_s] in Hs. fold oks15 in Hs.
        destruct (ev_for n ce true mu k sup r y (lookup_list dl l) body) as [o|] eqn:Ef; [|discriminate].
        injection E as <-. apply sres_ok_intro; try assumption.
        exact (IHfor _ _ _ _ _ _ _ _ _ Hce Hmu Hk Hsup Hr Hs Ef).
      + cbn [oks15 ok_s] in Hs. fold oke15 in Hs.
        destruct (ev_e n ce true mu k sup r e) as [v|] eqn:Ee; [|discriminate].
        injection E as <-. apply sres_ok_intro; [reflexivity| |assumption].
        constructor; [exact (IHe _ _ _ _ _ _ _ Hce Hmu Hk Hsup Hr Hs Ee)|exact Hr].
      + cbn [oks15 ok_s] in Hs. fold oks15 in Hs.
        destruct (ev_ss n ce true mu k sup r body) as [[[o r'] m']|] eqn:Ess; [|discriminate].
        injection E as <-. destruct (IHss _ _ _ _ _ _ _ Hce Hmu Hk Hsup Hr Hs Ess) as (Ho & _).
        apply sres_ok_intro; [reflexivity| |assumption]. constructor; [exact Ho|exact Hr].
      + (* set block with a filter *)
        cbn [oks15 ok_s] in Hs. fold oke15 oks15 in Hs.
        apply andb_true_iff in Hs as [Hs Hbody]. apply andb_true_iff in Hs as [Hf Hargs].
        destruct (ev_ss n ce true mu k sup r body) as [[[o r'] m']|] eqn:Ess; [|discriminate].
        destruct (IHss _ _ _ _ _ _ _ Hce Hmu Hk Hsup Hr Hbody Ess) as (Ho & _).
        destruct (ev_es n ce true mu k sup r args) as [vs|] eqn:Es; [|discriminate].
        unfold ce_on in Hce. rewrite Hce in E. cbn [wrap] in E.
        destruct (apply_filter true f (Mk o) vs) as [v|] eqn:Ef; [|discriminate].
        injection E as <-. apply sres_ok_intro; [reflexivity| |assumption].
        constructor; [|exact Hr]. cbn [snd]. apply MkClean_esc.
        apply (filt_clean f (Mk o) vs v Hf Ho); [|exact Ef].
        exact (IHes _ _ _ _ _ _ _ Hce Hmu Hk Hsup Hr Hargs Es).
      + cbn [oks15 ok_s] in Hs. fold oks15 in Hs. injection E as <-.
        apply sres_ok_intro; [reflexivity|assumption|]. constructor; [|exact Hmu].
        split; [assumption|]. split; [assumption|exact I].
      + cbn [oks15 ok_s] in Hs. fold oke15 oks15 in Hs. apply andb_true_iff in Hs as [Hargs Hbody].
        destruct (ev_es n ce true mu k sup r args) as [vs|] eqn:Es; [|discriminate].
        destruct (lookup_mac mu m) as [[[[ps mbody] ce'] home]|] eqn:El; [|discriminate].
        destruct (lookup_mac_on mu m ps mbody ce' home Hmu El) as (Hb & Hce' & Hh).
        destruct (bind ps vs) as [pr|] eqn:Eb; [|discriminate]. cbv zeta in E.
        assert (Ert : match home with Some tid => ae tid | None => true end = true) by (destruct home; [exact Hh|reflexivity]).
        rewrite Ert in E.
        destruct (ev_ss n ce' true mu (Some (CC body ce match home with Some _ => Some true | None => None end)) None (pr ++ r) mbody)
          as [[[o r'] m']|] eqn:Ess; [|discriminate].
        injection E as <-.
        assert (Hr' : env_ok (pr ++ r)).
        { apply Forall_app. split; [|exact Hr].
          apply (bind_ok ps vs pr); [|exact Eb]. exact (IHes _ _ _ _ _ _ _ Hce Hmu Hk Hsup Hr Hargs Es). }
        assert (Hk' : k_on (Some (CC body ce match home with Some _ => Some true | None => None end))).
        { cbn. split; [assumption|]. split; [assumption|]. destruct home; [reflexivity|exact I]. }
        destruct (IHss ce' mu _ None (pr ++ r) mbody _ Hce' Hmu Hk' I Hr' Hb Ess) as (Ho & _).
        unfold ce_on in Hce. rewrite Hce. cbn [out_piece wrap esc_str esc raw]. apply sres_ok_intro; assumption.
      + cbn [oks15 ok_s] in Hs. fold oke15 oks15 in Hs.
        apply andb_true_iff in Hs as [Hs Hbody]. apply andb_true_iff in Hs as [Hf Hargs].
        destruct (ev_ss n ce true mu k sup r body) as [[[o r'] m']|] eqn:Ess; [|discriminate].
        destruct (IHss _ _ _ _ _ _ _ Hce Hmu Hk Hsup Hr Hbody Ess) as (Ho & _).
        destruct (ev_es n ce true mu k sup r args) as [vs|] eqn:Es; [|discriminate].
        unfold ce_on in Hce. rewrite Hce in E. cbn [wrap] in E.
        destruct (apply_filter true f (Mk o) vs) as [v|] eqn:Ef; [|discriminate].
        injection E as <-. cbn [out_piece]. apply sres_ok_intro; try assumption.
        apply Clean_esc_str. apply (filt_clean f (Mk o) vs v Hf Ho); [|exact Ef].
        exact (IHes _ _ _ _ _ _ _ Hce Hmu Hk Hsup Hr Hargs Es).
      + cbn [oks15 ok_s] in Hs. fold oks15 in Hs. apply andb_true_iff in Hs as [Ha Hbody].
        rewrite (rt_enter_on a Ha) in E.
        destruct (ev_ss n (ce_enter ce a) true mu k sup r body) as [[[o r'] m']|] eqn:Ess; [|discriminate].
        injection E as <-.
        destruct (IHss _ _ _ _ _ _ _ (ce_enter_on ce a Ha) Hmu Hk Hsup Hr Hbody Ess) as (Ho & _).
        apply sres_ok_intro; assumption.
      + (* include: the included template is autoescaped itself (guard ae tid = true) *)
        cbn [oks15 ok_s] in Hs.
        destruct (lookup_tpl tt tid) as [body|] eqn:El; [|discriminate].
        rewrite Hs in E.
        destruct (ev_ss n (CTop tid) true [] None None r body) as [[[o r'] m']|] eqn:Ess; [|discriminate].
        injection E as <-.
        assert (Hc : ce_on (CTop tid)) by exact Hs.
        destruct (IHss (CTop tid) [] None None r body _ Hc (Forall_nil _) I I Hr (lookup_tpl_on tid body El) Ess) as (Ho & _).
        apply sres_ok_intro; assumption.
      + (* import *)
        cbn [oks15 ok_s] in Hs.
        destruct (lookup_tpl tt tid) as [body|] eqn:El; [|discriminate].
        injection E as <-. apply sres_ok_intro; [reflexivity|assumption|].
        apply Forall_app. split; [|exact Hmu]. apply exports_on; [exact Hs|exact (lookup_tpl_on tid body El)].
      + (* block *)
        destruct (lookup_blk bt nm) as [[|[b0 ce'] rest]|] eqn:El; try discriminate.
        pose proof (lookup_blk_on nm _ El) as Hst. inversion Hst as [|? ? Hb0 Hrest]; subst.
        destruct Hb0 as [Hb Hce']. cbn in Hb, Hce'.
        destruct (ev_ss n ce' true mu None (Some rest) r b0) as [[[o r'] m']|] eqn:Ess; [|discriminate].
        injection E as <-.
        destruct (IHss ce' mu None (Some rest) r b0 _ Hce' Hmu I Hrest Hr Hb Ess) as (Ho & _).
        apply sres_ok_intro; assumption.
    - intros ce mu k sup r x items body o Hce Hmu Hk Hsup Hr Hb E. destruct items as [|it items]; unf_in E.
      + injection E as <-. reflexivity.
      + destruct (ev_ss n ce true mu k sup ((x, Plain it) :: r) body) as [[[o1 r1] m1]|] eqn:E1; [|discriminate].
        destruct (ev_for n ce true mu k sup r x items body) as [o2|] eqn:E2; [|discriminate].
        injection E as <-.
        assert (Hr' : env_ok ((x, Plain it) :: r)) by (constructor; [exact I|exact Hr]).
        destruct (IHss _ _ _ _ _ _ _ Hce Hmu Hk Hsup Hr' Hb E1) as (Ho1 & _).
        apply Clean_app; [exact Ho1|]. exact (IHfor _ _ _ _ _ _ _ _ _ Hce Hmu Hk Hsup Hr Hb E2).
  Qed.

  Lemma init_env_ok : forall d, env_ok (init_env d).
  Proof. induction d as [|[x s] d IH]; constructor; [exact I|exact IH]. Qed.

  (* template sets whose main and base templates are autoescaped themselves *)
  Theorem autoescape_safe_sets : forall n main base root d o,
    ae main = true -> ae base = true -> forallb oks15 root = true ->
    render ae true dl tt bt n main base root d = Some o -> Clean o.
  Proof.
    intros n main base root d o Hm Hb Hok E. unfold render in E. rewrite Hm in E.
    destruct (ev_ss n (CTop base) true [] None None (init_env d) root) as [[[o' r'] m']|] eqn:Ess; [|discriminate].
    injection E as <-. destruct (inv_all n) as (_ & _ & Qss & _).
    assert (Hc : ce_on (CTop base)) by exact Hb.
    destruct (Qss (CTop base) [] None None (init_env d) root _ Hc (Forall_nil _) I I (init_env_ok d) Hok Ess) as (Ho & _). exact Ho.
  Qed.
End C15.
