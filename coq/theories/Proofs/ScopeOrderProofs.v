(* C30 — the result of every set-iteration site is independent of the iteration order. *)
From Coq Require Import List NArith ZArith Bool Arith Lia Permutation.
Import ListNotations.
From JV Require Import Model.ScopeAst Model.ScopeIdTrack Model.ScopeOrder
  Proofs.ScopeDictProofs Proofs.ScopeSymProofs.

(* ------------------------------------------------------------ sorted() *)
Lemma insert_comm : forall x y l, insert x (insert y l) = insert y (insert x l).
Proof.
  intros x y l. induction l as [|h t IH]; cbn [insert].
  - destruct (N.leb_spec x y), (N.leb_spec y x); try reflexivity; try lia.
    assert (x = y) by lia. subst. reflexivity.
  - destruct (N.leb_spec y h), (N.leb_spec x h); cbn [insert];
      repeat match goal with |- context [N.leb ?a ?b] => destruct (N.leb_spec a b) end;
      try reflexivity; try lia; try (rewrite IH; reflexivity).
    assert (x = y) by lia. subst. reflexivity.
Qed.
Lemma isort_perm : forall l l', Permutation l l' -> isort l = isort l'.
Proof.
  intros l l' H. induction H; cbn [isort fold_right] in *.
  - reflexivity.
  - fold (isort l). fold (isort l'). rewrite IHPermutation. reflexivity.
  - fold (isort l). apply insert_comm.
  - congruence.
Qed.

Definition is_perm (ord : list name -> list name) : Prop := forall l, Permutation (ord l) l.
Lemma perm2 : forall ord ord' l, is_perm ord -> is_perm ord' -> Permutation (ord l) (ord' l).
Proof. intros ord ord' l H H'. eapply Permutation_trans; [apply H|apply Permutation_sym; apply H']. Qed.

(* ------------------------------------------------------------ code generator sites *)
Lemma deps_lines_indep : forall ord ord' names next, is_perm ord -> is_perm ord' ->
  deps_lines ord names next = deps_lines ord' names next.
Proof.
  intros ord ord' names next H H'. unfold deps_lines.
  pose proof (isort_perm _ _ (perm2 ord ord' names H H')) as E. rewrite E. reflexivity.
Qed.

Lemma perm_filter : forall (f : name -> bool) l l', Permutation l l' -> Permutation (filter f l) (filter f l').
Proof.
  intros f l l' H. induction H; cbn [filter].
  - constructor.
  - destruct (f x); [constructor|]; assumption.
  - destruct (f x), (f y); first [apply perm_swap|apply Permutation_refl].
  - eapply Permutation_trans; eauto.
Qed.
Lemma perm_shape : forall (A : Type) (l l' : list name) (a : A) (b : name -> A) (c : A),
  Permutation l l' ->
  match l with [] => a | [x] => b x | _ => c end = match l' with [] => a | [x] => b x | _ => c end.
Proof.
  intros A l l' a b c H. pose proof (Permutation_length H) as L.
  destruct l as [|x [|y r]].
  - apply Permutation_nil in H. subst. reflexivity.
  - apply Permutation_length_1_inv in H. subst. reflexivity.
  - destruct l' as [|x' [|y' r']]; cbn in L; try discriminate. reflexivity.
Qed.
Lemma pop_lines_indep : forall ord ord' priv k vars, is_perm ord -> is_perm ord' ->
  pop_lines ord priv k vars = pop_lines ord' priv k vars.
Proof.
  intros ord ord' priv k vars H H'. unfold pop_lines.
  pose proof (perm2 ord ord' vars H H') as P. set (vs := ord vars) in *. set (vs' := ord' vars) in *.
  pose proof (perm_filter (fun x => negb (priv x)) vs vs' P) as PF.
  assert (E1 : match vs with [x] => [LSet1 k x] | _ => [LUpdate k (isort vs)] end =
               match vs' with [x] => [LSet1 k x] | _ => [LUpdate k (isort vs')] end).
  { rewrite (isort_perm vs vs' P).
    pose proof (perm_shape (list aline) vs vs' [LUpdate k (isort vs')] (fun x => [LSet1 k x]) [LUpdate k (isort vs')] P) as S.
    destruct vs as [|a [|b r]], vs' as [|a' [|b' r']]; exact S. }
  assert (E2 : match filter (fun x => negb (priv x)) vs with [] => [] | [x] => [LExportAdd x] | _ => [LExportUpdate (isort (filter (fun x => negb (priv x)) vs))] end =
               match filter (fun x => negb (priv x)) vs' with [] => [] | [x] => [LExportAdd x] | _ => [LExportUpdate (isort (filter (fun x => negb (priv x)) vs'))] end).
  { rewrite (isort_perm _ _ PF). apply perm_shape. exact PF. }
  destruct vs as [|a r], vs' as [|a' r'].
  - reflexivity.
  - apply Permutation_nil in P. discriminate.
  - apply Permutation_sym, Permutation_nil in P. discriminate.
  - rewrite E1. destruct k; try reflexivity. rewrite E2. reflexivity.
Qed.
Lemma dump_stores_indep : forall ord ord' chain, is_perm ord -> is_perm ord' ->
  dump_stores ord chain = dump_stores ord' chain.
Proof.
  intros ord ord' chain H H'. unfold dump_stores.
  set (step := fun (rv : list (name * ident)) (x : name) =>
                 if dhas N.eqb x rv then rv
                 else match find_ref chain x with Some id => rv ++ [(x, id)] | None => rv end).
  assert (E : forall l (rv : list (name * ident)),
            fold_left (fun rv node => fold_left step (isort (ord (s_stores node))) rv) l rv =
            fold_left (fun rv node => fold_left step (isort (ord' (s_stores node))) rv) l rv).
  { induction l as [|node r IH]; intros rv; cbn [fold_left]; [reflexivity|].
    pose proof (isort_perm _ _ (perm2 ord ord' (s_stores node) H H')) as E. rewrite E. apply IH. }
  apply E.
Qed.

(* ------------------------------------------------------------ branch_update *)
Lemma fold_left_perm : forall (A B : Type) (f : A -> B -> A) (Inv : A -> Prop) (Px : B -> Prop),
  (forall a x, Inv a -> Px x -> Inv (f a x)) ->
  (forall a x y, Inv a -> Px x -> Px y -> f (f a x) y = f (f a y) x) ->
  forall l l', Permutation l l' -> forall a, Forall Px l -> Inv a -> fold_left f l a = fold_left f l' a.
Proof.
  intros A B f Inv Px Hp Hc l l' H. induction H; intros a HF HI; cbn [fold_left].
  - reflexivity.
  - inversion HF; subst. apply IHPermutation; auto.
  - inversion HF as [|? ? Py HF']; subst. inversion HF' as [|? ? Pxx HF'']; subst. rewrite (Hc a y x); auto.
  - rewrite IHPermutation1; auto. apply IHPermutation2; auto.
    apply Forall_forall. intros z Hz. rewrite Forall_forall in HF. apply HF. eapply Permutation_in; [apply Permutation_sym; exact H|exact Hz].
Qed.

Lemma dset_comm : forall (k1 k2 : ident) (v1 v2 : loadk) m, k1 <> k2 ->
  dhas ident_eqb k1 m = true -> dhas ident_eqb k2 m = true ->
  dset ident_eqb k1 v1 (dset ident_eqb k2 v2 m) = dset ident_eqb k2 v2 (dset ident_eqb k1 v1 m).
Proof.
  intros k1 k2 v1 v2 m Hne.
  assert (E3 : ident_eqb k2 k1 = false) by (apply ident_eqb_neq; congruence).
  assert (E4 : ident_eqb k1 k2 = false) by (apply ident_eqb_neq; congruence).
  induction m as [|[k v] r IH]; intros H1 H2; [discriminate|].
  unfold dhas in *. cbn [dget] in H1, H2.
  destruct (ident_eqb k1 k) eqn:E1, (ident_eqb k2 k) eqn:E2.
  - apply ident_eqb_eq in E1, E2. congruence.
  - cbn [dset]. rewrite E1, E2. cbn [dset]. rewrite E1, E3. reflexivity.
  - cbn [dset]. rewrite E1, E2. cbn [dset]. rewrite E2, E4. reflexivity.
  - cbn [dset]. rewrite E1, E2. cbn [dset]. rewrite E1, E2. f_equal. apply IH; assumption.
Qed.

Definition newl (P : list symbols) (x : name) : loadk :=
  match find_ref P x with Some outer => LAlias outer | None => LResolve x end.
Lemma ovr_eq : forall P acc x, dget N.eqb x (s_refs acc) = Some (s_level acc, x) ->
  ovr P acc x = mkSym (s_level acc) (s_refs acc) (dset ident_eqb (s_level acc, x) (newl P x) (s_loads acc)) (s_stores acc).
Proof. intros P acc x H. unfold ovr. cbn [find_ref]. rewrite H. reflexivity. Qed.

Lemma branch_update_indep : forall ord ps P s bs, is_perm ord -> WF ps P s ->
  (forall b, In b bs -> WF ps P b /\ s_level b = s_level s) ->
  branch_update ord P s bs = branch_update oid P s bs.
Proof.
  intros ord ps P s bs Hperm W Hb.
  change (branch_update ord P s bs) with (fold_left (ovr P) (ord (bu_stores s bs)) (fold_left merge1 bs s)).
  rewrite branch_update_eq.
  destruct (merge_all ps P bs s W Hb) as [W1 [L1 [R1 S1]]]. set (s1 := fold_left merge1 bs s) in *.
  apply (fold_left_perm symbols name (ovr P)
           (fun a => s_refs a = s_refs s1 /\ s_level a = s_level s1 /\
                     forall x, hasref s1 x -> dhas ident_eqb (s_level s1, x) (s_loads a) = true)
           (fun x => hasref s1 x)).
  - intros a x [A1 [A2 A3]] Hx.
    assert (D : dget N.eqb x (s_refs a) = Some (s_level a, x)) by (rewrite A1, A2; apply (WF_ref ps P s1 x W1 Hx)).
    rewrite (ovr_eq P a x D). cbn [s_refs s_level s_loads]. split; [exact A1|]. split; [exact A2|].
    intros y Hy. rewrite (dhas_dset ident_eqb ident_eqb_eq). rewrite (A3 y Hy). apply orb_true_r.
  - intros a x y [A1 [A2 A3]] Hx Hy.
    assert (Dx : dget N.eqb x (s_refs a) = Some (s_level a, x)) by (rewrite A1, A2; apply (WF_ref ps P s1 x W1 Hx)).
    assert (Dy : dget N.eqb y (s_refs a) = Some (s_level a, y)) by (rewrite A1, A2; apply (WF_ref ps P s1 y W1 Hy)).
    rewrite (ovr_eq P a x Dx), (ovr_eq P a y Dy).
    rewrite (ovr_eq P _ y); [|exact Dy]. rewrite (ovr_eq P _ x); [|exact Dx]. cbn [s_refs s_level s_loads s_stores].
    destruct (N.eqb_spec x y) as [->|Hne]; [reflexivity|]. f_equal.
    apply dset_comm.
    + intros E. injection E as E. auto.
    + rewrite A2. apply A3. exact Hy.
    + rewrite A2. apply A3. exact Hx.
  - apply Hperm.
  - apply Forall_forall. intros x Hx.
    assert (Hx' : In x (bu_stores s bs)) by (eapply Permutation_in; [apply Hperm|exact Hx]).
    apply In_bu_stores in Hx'. destruct Hx' as [[b [Hin Hst]] _].
    apply R1. right. exists b. split; [exact Hin|]. apply (wf_stores _ _ _ (proj1 (Hb b Hin)) x Hst).
  - split; [reflexivity|]. split; [reflexivity|]. intros x Hx. apply (wf_loads _ _ _ W1 x Hx).
Qed.

(* the visitor *)
Lemma fsv_indep : forall ord, is_perm ord -> forall st ps P s, WF ps P s -> fsv ord P s st = fsv oid P s st.
Proof.
  intros ord Hperm st. pattern st.
  apply (stmt_ind2 _ (fun l => forall ps P s, WF ps P s -> fsv_list ord P s l = fsv_list oid P s l)); clear st;
    try (intros; reflexivity).
  - intros t b ei el Hb Hei Hel ps P s W. rewrite !fsv_if. cbv zeta. set (s0 := sym_loads P s (expr_names t)).
    assert (W0 : WF ps P s0) by (apply WF_loads_op; auto).
    rewrite (Hb ps P s0 W0), (Hei ps P s0 W0), (Hel ps P s0 W0).
    apply (branch_update_indep ord ps); auto.
    intros b' [<-|[<-|[<-|[]]]]; [destruct (WF_fsv_list b ps P s0 W0) as [A [B _]]|destruct (WF_fsv_list ei ps P s0 W0) as [A [B _]]|destruct (WF_fsv_list el ps P s0 W0) as [A [B _]]]; auto.
  - intros st l Hs Hl ps P s W. cbn [fsv_list]. rewrite (Hs ps P s W). apply (Hl ps). apply (WF_fsv st ps P s W).
Qed.
Lemma fsv_list_indep : forall ord, is_perm ord -> forall l ps P s, WF ps P s -> fsv_list ord P s l = fsv_list oid P s l.
Proof.
  intros ord Hperm l. induction l as [|st l IH]; intros ps P s W; cbn [fsv_list]; [reflexivity|].
  rewrite (fsv_indep ord Hperm st ps P s W). apply (IH ps). apply (WF_fsv st ps P s W).
Qed.

(* ------------------------------------------------------------ frames *)
Lemma In_dset_strong : forall (k : ident) (v : loadk) m kv, NoDup (keys m) ->
  In kv (dset ident_eqb k v m) -> kv = (k, v) \/ (fst kv <> k /\ In kv m).
Proof.
  intros k v m kv. induction m as [|[k2 v2] r IH]; intros Hnd Hin; cbn [dset] in Hin.
  - destruct Hin as [<-|[]]. auto.
  - cbn [keys map fst] in Hnd. inversion Hnd as [|? ? Hn Hnd']; subst.
    destruct (ident_eqb k k2) eqn:E.
    + apply ident_eqb_eq in E. subst k2. destruct Hin as [<-|Hin]; [auto|]. right. split; [|right; exact Hin].
      intros Ek. apply Hn. rewrite <- Ek. change (In (fst kv) (map fst r)). apply in_map. exact Hin.
    + destruct Hin as [<-|Hin].
      * right. split; [|left; reflexivity]. cbn. intros Ek. subst. rewrite ident_eqb_refl in E. discriminate.
      * destruct (IH Hnd' Hin) as [H|[H1 H2]]; [auto|]. right. split; [exact H1|right; exact H2].
Qed.

Lemma lok_cons : forall x ps P y l, y <> x -> lok ps P y l -> lok (x :: ps) P y l.
Proof.
  intros x ps P y l Hne L. unfold lok in *. cbn [nmem]. destruct (N.eqb_spec y x); [contradiction|]. exact L.
Qed.

Lemma WF_newparam : forall ps P s x, WF ps P s -> WF (x :: ps) P (sym_param s x).
Proof.
  intros ps P s x W.
  assert (HR : forall y, hasref (sym_param s x) y <-> y = x \/ hasref s y).
  { intros y. unfold sym_param. rewrite hasref_define. unfold hasref, add_store; cbn [s_refs]. tauto. }
  constructor; unfold sym_param, define_ref, add_store; cbn [s_level s_refs s_loads s_stores].
  - intros y id Hin. apply (In_dset N.eqb) in Hin. destruct Hin as [E|Hin]; [injection E as -> ->; reflexivity|apply (wf_refs _ _ _ W _ _ Hin)].
  - intros y Hy. change (hasref (sym_param s x) y) in Hy. apply HR in Hy. rewrite (dhas_dset ident_eqb ident_eqb_eq).
    destruct Hy as [->|Hy]; [rewrite ident_eqb_refl; reflexivity|rewrite (wf_loads _ _ _ W y Hy); apply orb_true_r].
  - intros id l Hin. apply In_dset_strong in Hin; [|apply (wf_nodup _ _ _ W)]. destruct Hin as [E|[Hne Hin]].
    + injection E as -> ->. exists x. split; [reflexivity|]. split; [change (hasref (sym_param s x) x); apply HR; auto|].
      unfold lok. cbn [nmem]. rewrite N.eqb_refl. reflexivity.
    + destruct (wf_keys _ _ _ W _ _ Hin) as [y [E [Hy L]]]. exists y. split; [exact E|]. split; [change (hasref (sym_param s x) y); apply HR; auto|].
      apply lok_cons; [|exact L]. intros ->. apply Hne. cbn. exact E.
  - apply (nodup_dset ident_eqb ident_eqb_eq). apply (wf_nodup _ _ _ W).
  - intros y [<-|Hy].
    + split; [change (hasref (sym_param s x) x); apply HR; auto|apply In_nadd; auto].
    + destruct (wf_ps _ _ _ W y Hy) as [A B]. split; [change (hasref (sym_param s x) y); apply HR; auto|apply In_nadd; auto].
  - intros y Hy. apply In_nadd in Hy. change (hasref (sym_param s x) y). apply HR.
    destruct Hy as [->|Hy]; [auto|right; apply (wf_stores _ _ _ W y Hy)].
Qed.

Lemma WF_ps_equiv : forall ps ps' P s, (forall y, In y ps <-> In y ps') -> WF ps P s -> WF ps' P s.
Proof.
  intros ps ps' P s H W.
  assert (Hn : forall y, nmem y ps' = nmem y ps).
  { intros y. destruct (nmem y ps) eqn:E.
    - apply nmem_In. apply H. apply nmem_In. exact E.
    - apply nmem_false. intros Hc. apply H in Hc. apply nmem_In in Hc. congruence. }
  constructor; try apply W.
  - intros id l Hin. destruct (wf_keys _ _ _ W _ _ Hin) as [y [E [Hy L]]]. exists y. split; [exact E|]. split; [exact Hy|].
    unfold lok in *. rewrite Hn. exact L.
  - intros y Hy. apply (wf_ps _ _ _ W y). apply H. exact Hy.
Qed.
Lemma WF_reparam : forall ps P s x, WF ps P s -> In x ps -> WF ps P (sym_param s x).
Proof.
  intros ps P s x W Hx. apply (WF_ps_equiv (x :: ps) ps); [|apply WF_newparam; exact W].
  intros y. cbn. split; [intros [<-|H]; auto|auto].
Qed.
Lemma WF_reparams : forall ps P qs s, WF ps P s -> incl qs ps -> WF ps P (sym_params s qs).
Proof.
  unfold sym_params. intros ps P qs. induction qs as [|q r IH]; intros s W Hi; cbn [fold_left]; [exact W|].
  apply IH; [apply WF_reparam; [exact W|apply Hi; left; reflexivity]|intros y Hy; apply Hi; right; exact Hy].
Qed.

Section Frames.
  Variable ord : list name -> list name.
  Hypothesis Hperm : is_perm ord.

  Lemma mk_frame_indep : forall P ps body, fsv_list ord P (sym_params (sym_new P) ps) body = mk_frame P ps body.
  Proof.
    intros P ps body. unfold mk_frame.
    destruct (I1_params ps ps (sym_new P) (I1_new ps P) (incl_refl ps)) as [I [H _]].
    apply (fsv_list_indep ord Hperm body ps). apply I1_WF; auto.
  Qed.

  Lemma frame_for_body_indep : forall P tg body, frame_for_body ord P tg body = frame_for_body oid P tg body.
  Proof.
    intros. rewrite frame_for_body_eq. unfold frame_for_body, an_for_body, loop_ps.
    destruct (extended_loop body); [apply (mk_frame_indep P [n_loop; tg])|apply (mk_frame_indep P [tg])].
  Qed.
  Lemma frame_for_else_indep : forall P els, frame_for_else ord P els = frame_for_else oid P els.
  Proof. intros. apply (mk_frame_indep P []). Qed.
  Lemma frame_with_indep : forall P tgs body, frame_with ord P tgs body = frame_with oid P tgs body.
  Proof. intros. apply (mk_frame_indep P tgs). Qed.
  Lemma frame_body_indep : forall P body, frame_body ord P body = frame_body oid P body.
  Proof. intros. apply (mk_frame_indep P []). Qed.
  Lemma frame_root_indep : forall body, frame_root ord body = frame_root oid body.
  Proof.
    intros. rewrite frame_root_eq. unfold frame_root, an_template, root_ps.
    destruct (nmem n_self (find_undeclared body [n_self])); [apply (mk_frame_indep [] [n_self])|apply (mk_frame_indep [] [])].
  Qed.

  Lemma frame_macro_indep : forall P params body, frame_macro ord P params body = frame_macro oid P params body.
  Proof.
    intros P params body. unfold frame_macro, an_macro.
    rewrite (mk_frame_indep P params body). change (fsv_list oid P (sym_params (sym_new P) params) body) with (mk_frame P params body).
    destruct (mk_frame_ok P params body) as [W0 _].
    set (u := find_undeclared body [n_caller; n_kwargs; n_varargs]).
    set (s1 := if nmem n_caller u then if nmem n_caller params then mk_frame P params body else sym_param (mk_frame P params body) n_caller
               else mk_frame P params body).
    assert (W1 : exists ps1, WF ps1 P s1 /\ incl params ps1).
    { unfold s1. destruct (nmem n_caller u); [destruct (nmem n_caller params)|].
      - exists params. split; [exact W0|apply incl_refl].
      - exists (n_caller :: params). split; [apply WF_newparam; exact W0|intros y Hy; right; exact Hy].
      - exists params. split; [exact W0|apply incl_refl]. }
    destruct W1 as [ps1 [W1 I1']].
    set (s2 := if nmem n_kwargs u && negb (nmem n_kwargs params) then sym_param s1 n_kwargs else s1).
    assert (W2 : exists ps2, WF ps2 P s2 /\ incl params ps2).
    { unfold s2. destruct (nmem n_kwargs u && negb (nmem n_kwargs params)).
      - exists (n_kwargs :: ps1). split; [apply WF_newparam; exact W1|intros y Hy; right; apply I1'; exact Hy].
      - exists ps1. auto. }
    destruct W2 as [ps2 [W2 I2]].
    set (s3 := if nmem n_varargs u && negb (nmem n_varargs params) then sym_param s2 n_varargs else s2).
    assert (W3 : exists ps3, WF ps3 P s3 /\ incl params ps3).
    { unfold s3. destruct (nmem n_varargs u && negb (nmem n_varargs params)).
      - exists (n_varargs :: ps2). split; [apply WF_newparam; exact W2|intros y Hy; right; apply I2; exact Hy].
      - exists ps2. auto. }
    destruct W3 as [ps3 [W3 I3]].
    apply (fsv_list_indep ord Hperm body ps3). apply WF_reparams; auto.
  Qed.

  Lemma frames_stmt_indep : forall st chain, frames_stmt ord chain st = frames_stmt oid chain st.
  Proof.
    intros st. pattern st.
    apply (stmt_ind2 _ (fun l => forall chain, frames_list ord chain l = frames_list oid chain l)); clear st;
      try (intros; reflexivity).
    - intros t b ei el Hb Hei Hel chain. cbn [frames_stmt].
      assert (G : forall ord0 ch l, (fix go (chain : list symbols) (l : list stmt) : list (list symbols) :=
                   match l with [] => [] | x :: r => frames_stmt ord0 chain x ++ go chain r end) ch l = frames_list ord0 ch l).
      { intros ord0 ch l. induction l as [|x r IH]; cbn; [reflexivity|rewrite IH; reflexivity]. }
      rewrite !G, Hb, Hei, Hel. reflexivity.
    - intros tg it te b el Hb Hel chain. cbn [frames_stmt].
      assert (G : forall ord0 ch l, (fix go (chain : list symbols) (l : list stmt) : list (list symbols) :=
                   match l with [] => [] | x :: r => frames_stmt ord0 chain x ++ go chain r end) ch l = frames_list ord0 ch l).
      { intros ord0 ch l. induction l as [|x r IH]; cbn; [reflexivity|rewrite IH; reflexivity]. }
      rewrite !G, frame_for_body_indep, frame_for_else_indep, Hb, Hel. reflexivity.
    - intros x b Hb chain. cbn [frames_stmt].
      assert (G : forall ord0 ch l, (fix go (chain : list symbols) (l : list stmt) : list (list symbols) :=
                   match l with [] => [] | x :: r => frames_stmt ord0 chain x ++ go chain r end) ch l = frames_list ord0 ch l).
      { intros ord0 ch l. induction l as [|y r IH]; cbn; [reflexivity|rewrite IH; reflexivity]. }
      rewrite !G, frame_body_indep, Hb. reflexivity.
    - intros bs b Hb chain. cbn [frames_stmt].
      assert (G : forall ord0 ch l, (fix go (chain : list symbols) (l : list stmt) : list (list symbols) :=
                   match l with [] => [] | x :: r => frames_stmt ord0 chain x ++ go chain r end) ch l = frames_list ord0 ch l).
      { intros ord0 ch l. induction l as [|y r IH]; cbn; [reflexivity|rewrite IH; reflexivity]. }
      rewrite !G, frame_with_indep, Hb. reflexivity.
    - intros k b Hb chain. cbn [frames_stmt].
      assert (G : forall ord0 ch l, (fix go (chain : list symbols) (l : list stmt) : list (list symbols) :=
                   match l with [] => [] | x :: r => frames_stmt ord0 chain x ++ go chain r end) ch l = frames_list ord0 ch l).
      { intros ord0 ch l. induction l as [|y r IH]; cbn; [reflexivity|rewrite IH; reflexivity]. }
      rewrite !G, frame_body_indep, Hb. reflexivity.
    - intros m ps b Hb chain. cbn [frames_stmt].
      assert (G : forall ord0 ch l, (fix go (chain : list symbols) (l : list stmt) : list (list symbols) :=
                   match l with [] => [] | x :: r => frames_stmt ord0 chain x ++ go chain r end) ch l = frames_list ord0 ch l).
      { intros ord0 ch l. induction l as [|y r IH]; cbn; [reflexivity|rewrite IH; reflexivity]. }
      rewrite !G, frame_macro_indep, Hb. reflexivity.
    - intros ps g args b Hb chain. cbn [frames_stmt].
      assert (G : forall ord0 ch l, (fix go (chain : list symbols) (l : list stmt) : list (list symbols) :=
                   match l with [] => [] | x :: r => frames_stmt ord0 chain x ++ go chain r end) ch l = frames_list ord0 ch l).
      { intros ord0 ch l. induction l as [|y r IH]; cbn; [reflexivity|rewrite IH; reflexivity]. }
      rewrite !G, frame_macro_indep, Hb. reflexivity.
    - intros st l Hs Hl chain. cbn [frames_list]. rewrite Hs, Hl. reflexivity.
  Qed.
  Lemma frames_list_indep : forall l chain, frames_list ord chain l = frames_list oid chain l.
  Proof. induction l as [|st l IH]; intros chain; cbn [frames_list]; [reflexivity|]. rewrite frames_stmt_indep, IH. reflexivity. Qed.
  Theorem frames_of_indep : forall p, frames_of ord p = frames_of oid p.
  Proof. intros p. unfold frames_of. rewrite frame_root_indep, frames_list_indep. reflexivity. Qed.
End Frames.
