(* C03 — from the decidable guards of Model/ScopeGuards.v to the simulation theorem, the
   static binding theorem, and the refutation witnesses. *)
From Coq Require Import List NArith ZArith Bool Arith Lia.
Import ListNotations.
From JV Require Import Model.ScopeAst Model.ScopeIdTrack Model.ScopeGuards Model.ScopeFrameExec
  Spec.ScopeSpecStmt Proofs.ScopeDictProofs Proofs.ScopeSymProofs Proofs.ScopeEraseProofs Proofs.ScopeSimProofs.

Lemma noalias_inj : forall pynorm p, noalias pynorm p = true ->
  forall x y, In x (n_loop :: names_of p) -> In y (n_loop :: names_of p) -> pynorm x = pynorm y -> x = y.
Proof.
  intros pynorm p H x y Hx Hy E. unfold noalias in H. rewrite forallb_forall in H.
  specialize (H x Hx). rewrite forallb_forall in H. specialize (H y Hy).
  rewrite E, N.eqb_refl in H. cbn in H. apply N.eqb_eq. exact H.
Qed.

Lemma guard_rbw_gok : forall p d, guard_rbw p d = true -> Forall (gok d) (frames_of oid p).
Proof.
  intros p d H. unfold guard_rbw in H. rewrite forallb_forall in H. apply Forall_forall. intros ch Hin.
  specialize (H ch Hin). destruct ch as [|s r]; [exact I|]. cbn [gok]. rewrite forallb_forall in H.
  intros x Hx. specialize (H x Hx). apply andb_true_iff in H. destruct H as [H1 H2].
  unfold dhas in H1, H2. split.
  - destruct (dget N.eqb x d); [discriminate|reflexivity].
  - change spec_globals with [(n_namespace, VNsCtor)]. destruct (dget N.eqb x [(n_namespace, VNsCtor)]); [discriminate|reflexivity].
Qed.

Lemma core2_go' : forall l, (fix go (l : list stmt) : bool := match l with [] => true | x :: r => core2_stmt x && go r end) l = core2_prog l.
Proof. induction l as [|x r IH]; cbn; [reflexivity|rewrite IH; reflexivity]. Qed.
Lemma core2_incl3_stmt : forall s tl, core2_stmt s = true -> core3_stmt tl s = true.
Proof.
  intros s. pattern s.
  apply (stmt_ind2 _ (fun l => forall tl, core2_prog l = true -> core3_prog tl l = true)); clear s; try (intros; cbn in *; try discriminate; auto; fail).
  - intros t b ei el Hb Hei Hel tl H. cbn [core2_stmt core3_stmt] in *. rewrite (core2_go' b), (core2_go' ei), (core2_go' el) in H.
    rewrite (core3_go tl b), (core3_go tl ei), (core3_go tl el).
    apply andb_true_iff in H. destruct H as [H H3]. apply andb_true_iff in H. destruct H as [H1 H2].
    rewrite (Hb tl H1), (Hei tl H2), (Hel tl H3). reflexivity.
  - intros tg it te b el Hb Hel tl H. cbn [core2_stmt core3_stmt] in *. rewrite (core2_go' b), (core2_go' el) in H.
    rewrite (core3_go false b), (core3_go false el).
    apply andb_true_iff in H. destruct H as [H1 H2]. rewrite (Hb false H1), (Hel false H2). reflexivity.
  all: try (intros ? b Hb tl H; cbn [core2_stmt core3_stmt] in *; rewrite (core2_go' b) in H; rewrite (core3_go false b); auto; fail).
  - intros st l Hs Hl tl H. cbn [core2_prog core3_prog] in *. apply andb_true_iff in H. destruct H as [H1 H2]. rewrite (Hs tl H1), (Hl tl H2). reflexivity.
Qed.
Lemma core2_incl3 : forall p tl, core2_prog p = true -> core3_prog tl p = true.
Proof.
  induction p as [|s r IH]; intros tl H; [reflexivity|]. cbn [core2_prog core3_prog] in *.
  apply andb_true_iff in H. destruct H as [H1 H2]. rewrite (core2_incl3_stmt s tl H1), (IH tl H2). reflexivity.
Qed.

(* the instrumented reference interpreter is the reference interpreter where no macro is defined *)
Lemma sxi_eq_sx : forall d Sr fuel env ss l, core3_prog false l = true -> sxi d Sr fuel env ss l = sx d fuel env ss l.
Proof.
  intros d Sr. induction fuel as [|f IH]; intros env ss l Hc; [reflexivity|].
  destruct l as [|s rest]; [reflexivity|].
  cbn [core3_prog] in Hc. apply andb_true_iff in Hc. destruct Hc as [Hcs Hcr].
  cbn [sx sxi].
  assert (Step : forall X X', X' = X ->
            (do (st1, o1) <- X'; do (st2, o2) <- sxi d Sr f env st1 rest; Ok (st2, o1 ++ o2)) =
            (do (st1, o1) <- X; do (st2, o2) <- sx d f env st1 rest; Ok (st2, o1 ++ o2))).
  { intros X X' ->. destruct X as [[st1 o1]|e]; cbn [bind]; [|reflexivity]. rewrite (IH env st1 rest Hcr). reflexivity. }
  apply Step. clear Step.
  destruct s as [es|t b ei el|tg it te b el|x e|x a e|x kvs|x b|bs b|k b|m ps b|g args|ps g args b]; cbn [core3_stmt] in Hcs; try discriminate; try reflexivity.
  - rewrite (core3_go false b), (core3_go false ei), (core3_go false el) in Hcs.
    apply andb_true_iff in Hcs. destruct Hcs as [Hcs H3]. apply andb_true_iff in Hcs. destruct Hcs as [H1 H2].
    destruct (eval (slk d env ss) (s_heap ss) t) as [v|e]; cbn [bind]; [|reflexivity].
    destruct (truthy v); [apply IH; exact H1|].
    clear H1. induction ei as [|s r IHr]; [apply IH; exact H3|].
    cbn [core3_prog] in H2. apply andb_true_iff in H2. destruct H2 as [H2a H2b].
    destruct s; try (apply IHr; exact H2b).
    destruct (eval (slk d env ss) (s_heap ss) test) as [v2|e]; cbn [bind]; [|reflexivity].
    destruct (truthy v2); [|apply IHr; exact H2b].
    apply IH. cbn [core3_stmt] in H2a. rewrite (core3_go false body) in H2a.
    apply andb_true_iff in H2a. destruct H2a as [H2a _]. apply andb_true_iff in H2a. destruct H2a as [H2a _]. exact H2a.
  - rewrite (core3_go false b), (core3_go false el) in Hcs. apply andb_true_iff in Hcs. destruct Hcs as [H1 H2].
    destruct (eval (slk d env ss) (s_heap ss) it) as [v|e]; cbn [bind]; [|reflexivity].
    destruct (iter_items v) as [items|e]; cbn [bind]; [|reflexivity].
    match goal with |- (do r <- ?A items 0%N ss []; _) = (do r <- ?B items 0%N ss []; _) =>
      assert (It : forall items idx st out, A items idx st out = B items idx st out) end.
    { induction items0 as [|item more IHm]; intros idx st out; [reflexivity|].
      destruct (match te with
                | Some t => let '(i, stt) := new_scope st [(tg, item)] in
                            do tv <- eval (slk d (i :: env) stt) (s_heap stt) t; Ok (truthy tv)
                | None => Ok true
                end) as [ok|e]; cbn [bind]; [|reflexivity].
      destruct ok; [|apply IHm].
      destruct (new_scope st [(tg, item); (n_loop, VLoop (idx + 1))]) as [i st0].
      rewrite (IH _ _ b H1). destruct (sx d f (i :: env) st0 b) as [[st1 o]|e]; cbn [bind]; [|reflexivity]. apply IHm. }
    rewrite It. clear It.
    match goal with |- context [bind ?X _] => destruct X as [[[st1 out] n]|e] end; cbn [bind]; [|reflexivity].
    destruct el as [|e0 el']; [reflexivity|]. destruct (N.eqb n 0); [|reflexivity].
    destruct (new_scope st1 []) as [i st2]. rewrite (IH _ _ (e0 :: el') H2). reflexivity.
  - rewrite (core3_go false b) in Hcs. destruct (new_scope ss []) as [i st1]. rewrite (IH _ _ b Hcs). reflexivity.
  - rewrite (core3_go false b) in Hcs.
    destruct (eval_list (slk d env ss) (s_heap ss) (map snd bs)) as [vs|e]; cbn [bind]; [|reflexivity].
    destruct (new_scope ss _) as [i st1]. rewrite (IH _ _ b Hcs). reflexivity.
  - rewrite (core3_go false b) in Hcs. destruct (new_scope ss []) as [i st1]. rewrite (IH _ _ b Hcs). reflexivity.
Qed.

Lemma sexported_erase : forall priv ss, sexported priv (estate ss) = sexported priv ss.
Proof.
  intros priv ss. unfold sexported, estate; cbn [s_scopes]. rewrite nth_e. generalize (nth 0 (s_scopes ss) []). intros sc.
  unfold escope. induction sc as [|[k v] r IH]; cbn [map filter fst snd]; [reflexivity|].
  destruct (negb (priv k)); cbn [map fst snd]; rewrite IH; [rewrite to_text_erase|]; reflexivity.
Qed.

(* macro definitions at top level (never called): through the instrumented interpreter and its erasure *)
Theorem scoping_correct_macrodefs_thm : forall (pynorm : name -> name) (priv : name -> bool) d p,
  core3_prog true p = true -> wf_names p = true -> noalias pynorm p = true -> guard_rbw p d = true ->
  (forall x v, dget N.eqb x d = Some v -> cfree' v) ->
  forall fuel, frender pynorm priv d fuel p = srender priv d fuel p.
Proof.
  intros pynorm priv d p Hc Hw Hn Hg Hd fuel.
  rewrite (core_render_agree pynorm priv d (mk_frame [] [] p) (n_loop :: names_of p) (noalias_inj pynorm p Hn)
             (or_introl eq_refl) fuel p Hc eq_refl).
  - unfold srender_i, srender.
    change (mkS [[]] []) with (estate (mkS [[]] [])) at 2.
    rewrite (sx_erase d (mk_frame [] [] p) Hd fuel true [0] (mkS [[]] []) p Hc).
    destruct (sxi d (mk_frame [] [] p) fuel [0] (mkS [[]] []) p) as [[ss o]|e]; cbn [eres bind]; [|reflexivity].
    rewrite sexported_erase. reflexivity.
  - unfold okocc. unfold wf_names in Hw. rewrite forallb_forall in Hw. apply Forall_forall. exact Hw.
  - intros x Hx. right. exact Hx.
  - apply guard_rbw_gok. exact Hg.
Qed.

(* without macro definitions no hypothesis on the render arguments is needed *)
Theorem scoping_correct_ext_thm : forall (pynorm : name -> name) (priv : name -> bool) d p,
  core2_prog p = true -> wf_names p = true -> noalias pynorm p = true -> guard_rbw p d = true ->
  forall fuel, frender pynorm priv d fuel p = srender priv d fuel p.
Proof.
  intros pynorm priv d p Hc Hw Hn Hg fuel.
  assert (H3 : forall tl, core3_prog tl p = true) by (intros tl; apply core2_incl3; exact Hc).
  rewrite (core_render_agree pynorm priv d (mk_frame [] [] p) (n_loop :: names_of p) (noalias_inj pynorm p Hn)
             (or_introl eq_refl) fuel p (H3 true) eq_refl).
  - unfold srender_i, srender. rewrite (sxi_eq_sx d (mk_frame [] [] p) fuel [0] (mkS [[]] []) p (H3 false)). reflexivity.
  - unfold okocc. unfold wf_names in Hw. rewrite forallb_forall in Hw. apply Forall_forall. exact Hw.
  - intros x Hx. right. exact Hx.
  - apply guard_rbw_gok. exact Hg.
Qed.

(* the core fragment is part of the extended one *)
Lemma core_go' : forall l, (fix go (l : list stmt) : bool := match l with [] => true | x :: r => core_stmt x && go r end) l = core_prog l.
Proof. induction l as [|x r IH]; cbn; [reflexivity|rewrite IH; reflexivity]. Qed.
Lemma core_incl_stmt : forall s, core_stmt s = true -> core2_stmt s = true.
Proof.
  intros s. pattern s.
  apply (stmt_ind2 _ (fun l => core_prog l = true -> core2_prog l = true)); clear s; try (intros; cbn in *; try discriminate; auto; fail).
  - intros t b ei el Hb Hei Hel H. cbn [core_stmt core2_stmt] in *. rewrite (core_go' b), (core_go' ei), (core_go' el) in H. rewrite (core2_go' b), (core2_go' ei), (core2_go' el).
    apply andb_true_iff in H. destruct H as [H H3]. apply andb_true_iff in H. destruct H as [H1 H2].
    rewrite (Hb H1), (Hei H2), (Hel H3). reflexivity.
  - intros tg it te b el Hb Hel H. cbn [core_stmt core2_stmt] in *. destruct te; [discriminate|]. rewrite (core_go' b), (core_go' el) in H. rewrite (core2_go' b), (core2_go' el).
    apply andb_true_iff in H. destruct H as [H1 H2]. rewrite (Hb H1), (Hel H2). reflexivity.
  - intros bs b Hb H. cbn in *. destruct bs; [|discriminate]. auto.
  - intros st l Hs Hl H. cbn [core_prog core2_prog] in *. apply andb_true_iff in H. destruct H as [H1 H2]. rewrite (Hs H1), (Hl H2). reflexivity.
Qed.
Lemma core_incl : forall p, core_prog p = true -> core2_prog p = true.
Proof.
  induction p as [|s r IH]; intros H; [reflexivity|]. cbn [core_prog core2_prog] in *.
  apply andb_true_iff in H. destruct H as [H1 H2]. rewrite (core_incl_stmt s H1), (IH H2). reflexivity.
Qed.

Theorem scoping_correct_core_thm : forall (pynorm : name -> name) (priv : name -> bool) d p,
  core_prog p = true -> wf_names p = true -> noalias pynorm p = true -> guard_rbw p d = true ->
  forall fuel, frender pynorm priv d fuel p = srender priv d fuel p.
Proof. intros pynorm priv d p Hc. apply scoping_correct_ext_thm. apply core_incl. exact Hc. Qed.

(* ---------------------------------------------------------------- static binding *)
(* A frame as the code generator builds it: declared parameters [ps] (loop target and `loop`,
   with-targets, macro parameters), then the visitor over the body.  Where does a name
   resolve?  Either this frame mentions it — then the reference is this frame's own variable,
   and its initial value says which binder it is: a parameter of the construct, a variable
   assigned here and initialised from the enclosing binding (alias) or from nothing
   (undefined), or a name bound nowhere in the enclosing frames that is fetched from the
   context (resolve) — or the frame does not mention it and the enclosing frames decide. *)
Theorem binding_sound_thm : forall P ps body x id,
  let S := mk_frame P ps body in
  find_ref (S :: P) x = Some id ->
  (hasref S x /\ id = (s_level S, x) /\
   exists l, dget ident_eqb id (s_loads S) = Some l /\
     ((In x ps /\ l = LParam) \/
      (~ In x ps /\ exists o, l = LAlias o /\ find_ref P x = Some o) \/
      (~ In x ps /\ l = LUndef /\ find_ref P x = None) \/
      (~ In x ps /\ l = LResolve x /\ find_ref P x = None)))
  \/ (~ hasref S x /\ find_ref P x = Some id).
Proof.
  intros P ps body x id S H. destruct (mk_frame_ok P ps body) as [WS _]. fold S in WS.
  destruct (hasref_dec S x) as [Hr|Hr].
  - left. rewrite (find_ref_own ps P S x WS Hr) in H. injection H as <-. split; [exact Hr|]. split; [reflexivity|].
    destruct (WF_load ps P S x WS Hr) as [l [Dl L]]. exists l. split; [exact Dl|].
    unfold lok in L. destruct (nmem x ps) eqn:Ep.
    + left. split; [apply nmem_In; exact Ep|exact L].
    + right. apply nmem_false in Ep. destruct l as [|y|o|].
      * contradiction.
      * destruct L as [-> F]. right. right. auto.
      * left. split; [exact Ep|]. exists o. auto.
      * right. left. auto.
  - right. rewrite (find_ref_skip P S x Hr) in H. auto.
Qed.

(* every name the frame's own code assigns or loads is covered: assignments get the frame's
   own variable (so the innermost assigning scope wins), loads are always resolvable *)
Theorem binding_covers_thm : forall P ps body,
  let S := mk_frame P ps body in covers_l P S body /\ (forall x, In x ps -> hasref S x).
Proof. intros P ps body S. destruct (mk_frame_ok P ps body) as [_ [_ [H C]]]. auto. Qed.

(* ---------------------------------------------------------------- fuel adequacy
   For the core fragment recursion is structural: with more fuel than statements the
   reference interpreter never runs out of fuel (so, by the theorem, neither does FrameExec). *)
Fixpoint ssize (s : stmt) : nat :=
  let fix go (l : list stmt) : nat := match l with [] => 0 | x :: r => ssize x + go r end in
  match s with
  | SOut _ | SSet _ _ | SSetAttr _ _ _ | SNsNew _ _ | SCallOut _ _ => 1
  | SIf _ b ei el => 1 + go b + go ei + go el
  | SFor _ _ _ b el => 1 + go b + go el
  | SSetBlock _ b | SWith _ b | SFilter _ b | SMacro _ _ b | SCallBlock _ _ _ b => 1 + go b
  end.
Fixpoint ssize_l (l : list stmt) : nat := match l with [] => 0 | x :: r => ssize x + ssize_l r end.
Lemma ssize_go : forall l, (fix go (l : list stmt) : nat := match l with [] => 0 | x :: r => ssize x + go r end) l = ssize_l l.
Proof. induction l as [|x r IH]; cbn; [reflexivity|rewrite IH; reflexivity]. Qed.
Lemma ssize_pos : forall s, 1 <= ssize s.
Proof. destruct s; cbn; lia. Qed.

Definition noF {A} (r : res A) : Prop := r <> Err EFuel.
Lemma bind_noF : forall A B (X : res A) (K : A -> res B),
  noF X -> (forall a, X = Ok a -> noF (K a)) -> noF (bind X K).
Proof. intros A B X K H1 H2. destruct X as [a|e]; cbn; [apply H2; reflexivity|intros E; apply H1; congruence]. Qed.

Section NoFuel.
  Variable d : list (name * value).
  Lemma slk_ok : forall env st x, exists v, slk d env st x = Ok v.
  Proof.
    intros. unfold slk. destruct (lookup_env (s_scopes st) env x); [eauto|]. destruct (dget N.eqb x d); [eauto|].
    destruct (dget N.eqb x spec_globals); eauto.
  Qed.
  Lemma eval_noF : forall env st h e, noF (eval (slk d env st) h e).
  Proof.
    intros env st h e. unfold noF. induction e; cbn [eval]; try discriminate.
    - destruct (slk_ok env st x) as [v ->]. discriminate.
    - destruct (eval (slk d env st) h e1); cbn; [|congruence]. destruct (eval (slk d env st) h e2); cbn; [discriminate|congruence].
    - destruct (eval (slk d env st) h e1); cbn; [|congruence]. destruct (eval (slk d env st) h e2); cbn; [|congruence].
      destruct a, a0; cbn; discriminate.
    - destruct (slk_ok env st x) as [v ->]. cbn. destruct v; cbn; try discriminate. destruct (N.eqb a a_index); discriminate.
  Qed.
  Lemma eval_out_noF : forall env st h es, noF (eval_out (slk d env st) h es).
  Proof.
    intros env st h es. induction es as [|e r IH]; cbn [eval_out]; [discriminate|].
    apply bind_noF; [apply eval_noF|]. intros v _. apply bind_noF; [exact IH|]. intros; discriminate.
  Qed.
  Lemma eval_kvs_noF : forall env st h kvs, noF (eval_kvs (slk d env st) h kvs).
  Proof.
    intros env st h kvs. induction kvs as [|[a e] r IH]; cbn [eval_kvs]; [discriminate|].
    apply bind_noF; [apply eval_noF|]. intros v _. apply bind_noF; [exact IH|]. intros; discriminate.
  Qed.
  Lemma eval_list_noF : forall env st h es, noF (eval_list (slk d env st) h es).
  Proof.
    intros env st h es. induction es as [|e r IH]; cbn [eval_list]; [discriminate|].
    apply bind_noF; [apply eval_noF|]. intros v _. apply bind_noF; [exact IH|]. intros; discriminate.
  Qed.
  Lemma iter_items_noF : forall v, noF (iter_items v).
  Proof. intros v. destruct v; cbn; discriminate. Qed.

  Lemma sx_noF : forall fuel env st l, core2_prog l = true -> ssize_l l < fuel -> noF (sx d fuel env st l).
  Proof.
    induction fuel as [|f IH]; intros env st l Hc Hs; [lia|].
    destruct l as [|s rest]; [cbn; discriminate|].
    cbn [core2_prog] in Hc. apply andb_true_iff in Hc. destruct Hc as [Hcs Hcr].
    cbn [ssize_l] in Hs. pose proof (ssize_pos s) as Hp.
    cbn [sx]. apply bind_noF.
    2:{ intros [st1 o1] _. apply bind_noF; [apply IH; [exact Hcr|lia]|]. intros [st2 o2] _. discriminate. }
    destruct s as [es|t b ei el|tg it te b el|x e|x a e|x kvs|x b|bs b|k b|m ps b|g args|ps g args b]; cbn [core2_stmt] in Hcs; try discriminate.
    - apply bind_noF; [apply eval_out_noF|]. intros; discriminate.
    - rewrite (core2_go' b), (core2_go' ei), (core2_go' el) in Hcs. apply andb_true_iff in Hcs. destruct Hcs as [Hcs H3]. apply andb_true_iff in Hcs. destruct Hcs as [H1 H2].
      cbn [ssize] in Hs. rewrite (ssize_go b), (ssize_go ei), (ssize_go el) in Hs.
      apply bind_noF; [apply eval_noF|]. intros v _. destruct (truthy v); [apply IH; [exact H1|lia]|].
      assert (G : forall ei, core2_prog ei = true -> ssize_l ei <= ssize_l ei -> ssize_l ei + ssize_l el < f ->
                noF ((fix go (ei : list stmt) : res (sstate * str) :=
                        match ei with
                        | [] => sx d f env st el
                        | SIf t2 b2 _ _ :: r => do v2 <- eval (slk d env st) (s_heap st) t2; if truthy v2 then sx d f env st b2 else go r
                        | _ :: r => go r
                        end) ei)).
      { induction ei0 as [|s r IHr]; intros Hc0 _ Hs0.
        - apply IH; [exact H3|cbn in Hs0; lia].
        - cbn [core2_prog] in Hc0. apply andb_true_iff in Hc0. destruct Hc0 as [Hc1 Hc2]. cbn [ssize_l] in Hs0.
          pose proof (ssize_pos s).
          destruct s; try (apply IHr; [exact Hc2|lia|lia]).
          apply bind_noF; [apply eval_noF|]. intros v2 _. destruct (truthy v2); [|apply IHr; [exact Hc2|lia|lia]].
          cbn [core2_stmt] in Hc1. rewrite (core2_go' body), (core2_go' elifs), (core2_go' els) in Hc1. apply andb_true_iff in Hc1. destruct Hc1 as [Hc1 _]. apply andb_true_iff in Hc1. destruct Hc1 as [Hc1 _].
          cbn [ssize] in Hs0. rewrite (ssize_go body), (ssize_go elifs), (ssize_go els) in Hs0. apply IH; [exact Hc1|lia]. }
      apply G; [exact H2|lia|lia].
    - rewrite (core2_go' b), (core2_go' el) in Hcs. apply andb_true_iff in Hcs. destruct Hcs as [H1 H2].
      cbn [ssize] in Hs. rewrite (ssize_go b), (ssize_go el) in Hs.
      apply bind_noF; [apply eval_noF|]. intros v _. apply bind_noF; [apply iter_items_noF|]. intros items _.
      apply bind_noF.
      + generalize 0%N as idx. generalize (@nil N) as out. revert st.
        induction items as [|item more IHm]; intros st0 out idx; [discriminate|].
        apply bind_noF.
        * destruct te as [t|]; [|discriminate]. destruct (new_scope st0 [(tg, item)]) as [i stt].
          apply bind_noF; [apply eval_noF|]. intros; discriminate.
        * intros ok _. destruct ok; [|apply IHm].
          destruct (new_scope st0 [(tg, item); (n_loop, VLoop (idx + 1))]) as [i st1].
          apply bind_noF; [apply IH; [exact H1|lia]|]. intros [st2 o] _. apply IHm.
      + intros [[st1 out] n] _. destruct el as [|e0 el']; [discriminate|]. destruct (N.eqb n 0); [|discriminate].
        destruct (new_scope st1 []) as [i st2]. apply bind_noF; [apply IH; [exact H2|lia]|]. intros [st3 o] _. discriminate.
    - apply bind_noF; [apply eval_noF|]. intros; discriminate.
    - destruct (slk_ok env st x) as [c ->]. cbn [bind]. destruct c; try discriminate.
      apply bind_noF; [apply eval_noF|]. intros; discriminate.
    - destruct (slk_ok env st n_namespace) as [c ->]. cbn [bind]. apply bind_noF; [apply eval_kvs_noF|]. intros vs _. destruct c; discriminate.
    - rewrite core2_go' in Hcs. cbn [ssize] in Hs. rewrite ssize_go in Hs.
      destruct (new_scope st []) as [i st1]. apply bind_noF; [apply IH; [exact Hcs|lia]|]. intros [st2 o] _. discriminate.
    - rewrite core2_go' in Hcs. cbn [ssize] in Hs. rewrite ssize_go in Hs.
      apply bind_noF; [apply eval_list_noF|]. intros vs _.
      destruct (new_scope st _) as [i st1]. apply bind_noF; [apply IH; [exact Hcs|lia]|]. intros [st2 o] _. discriminate.
    - rewrite core2_go' in Hcs. cbn [ssize] in Hs. rewrite ssize_go in Hs.
      destruct (new_scope st []) as [i st1]. apply bind_noF; [apply IH; [exact Hcs|lia]|]. intros [st2 o] _. discriminate.
  Qed.
End NoFuel.

Theorem fuel_adequate_thm : forall priv d p fuel, core2_prog p = true -> ssize_l p < fuel ->
  srender priv d fuel p <> Err EFuel.
Proof.
  intros priv d p fuel Hc Hs. unfold srender. apply bind_noF; [apply sx_noF; auto|]. intros [st o] _. discriminate.
Qed.

Theorem fuel_adequate_core_thm : forall priv d p fuel, core_prog p = true -> ssize_l p < fuel ->
  srender priv d fuel p <> Err EFuel.
Proof. intros priv d p fuel Hc. apply fuel_adequate_thm. apply core_incl. exact Hc. Qed.
