From Coq Require Import List NArith Bool Arith Lia.
Import ListNotations.
From JV Require Import Model.LRU Model.LRUConc Lib.LockAtomic.
Open Scope N_scope.

Lemma decomp_ok o s : fold_left (fun a f => f a) (decomp o s) s = fst (step s o).
Proof.
  destruct o; try reflexivity. cbn [decomp step].
  destruct (is_exn (snd (setitem s k v))) eqn:E; [reflexivity|].
  cbn [fold_left]. unfold setitem, setitem_phase1, setitem_phase2 in *.
  destruct (lookup k (mapping s)) eqn:El.
  - destruct (qremove k (queue s)) eqn:Eq; [reflexivity|discriminate].
  - destruct (mlen (mapping s) =? cap s) eqn:Ec; [|reflexivity].
    destruct (queue s) as [|old q'] eqn:Eq; [discriminate|].
    destruct (lookup old (mapping s)) eqn:Eo; [reflexivity|discriminate].
Qed.

Lemma seq_run_eq_run ops : forall s, seq_run lru op out step s ops = run s ops.
Proof.
  induction ops as [|o r IH]; intros s; cbn [seq_run run]; [reflexivity|].
  destruct (step s o) as [s' x]. now rewrite IH.
Qed.
