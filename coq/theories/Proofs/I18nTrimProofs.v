From Coq Require Import List NArith Bool Lia.
From JV Require Import Model.EscMarkup Model.I18nModel Model.I18nTrim Proofs.EscMarkupProofs Proofs.I18nProofs.
Import ListNotations.
Open Scope N_scope.

(* ------------------------------------------------------------------ lstrip / strip *)
Section Strip.
  Variable g : tok -> str.
  Hypothesis g_ws : forall t, tok_ws t = true -> exists c, g t = [c] /\ is_ws c = true.
  Hypothesis g_nws : forall t, tok_ws t = false -> exists c r, g t = c :: r /\ is_ws c = false.

  Lemma lstrip_flat : forall ts, lstrip (flat_map g ts) = flat_map g (lstrip_t ts).
  Proof.
    induction ts as [|t r IH]; [reflexivity|]. cbn [flat_map lstrip_t]. destruct (tok_ws t) eqn:E.
    - destruct (g_ws t E) as (c & -> & Hc). cbn [app lstrip]. now rewrite Hc.
    - destruct (g_nws t E) as (c & w & Eg & Hc). cbn [flat_map]. rewrite Eg. cbn [app lstrip]. now rewrite Hc.
  Qed.
End Strip.

Lemma rev_flat_map : forall (g : tok -> str) ts, rev (flat_map g ts) = flat_map (fun t => rev (g t)) (rev ts).
Proof.
  intros g. induction ts as [|t r IH]; [reflexivity|].
  cbn [flat_map rev]. rewrite rev_app_distr, IH, flat_map_app. cbn [flat_map]. now rewrite app_nil_r.
Qed.

Lemma ws_not_pct : forall c, is_ws c = true -> (c =? PCT) = false.
Proof.
  intros c H. unfold is_ws in H. apply N.eqb_neq. intro E. subst c. vm_compute in H. discriminate.
Qed.

Lemma fmt_ws : forall t, tok_ws t = true -> exists c, tok_fmt t = [c] /\ is_ws c = true.
Proof.
  intros [c|nm] H; [|discriminate]. cbn in H. exists c. cbn [tok_fmt]. now rewrite (ws_not_pct c H).
Qed.

Lemma fmt_nws : forall t, tok_ws t = false -> exists c r, tok_fmt t = c :: r /\ is_ws c = false.
Proof.
  intros [c|nm] H; cbn [tok_fmt].
  - cbn in H. destruct (c =? PCT) eqn:E; [|now exists c, []].
    exists PCT, [PCT]. split; reflexivity.
  - exists PCT, (LPAR :: nm ++ [RPAR; CH_s]). split; reflexivity.
Qed.

Lemma rfmt_ws : forall t, tok_ws t = true -> exists c, rev (tok_fmt t) = [c] /\ is_ws c = true.
Proof. intros t H. destruct (fmt_ws t H) as (c & -> & Hc). now exists c. Qed.

Lemma rfmt_nws : forall t, tok_ws t = false -> exists c r, rev (tok_fmt t) = c :: r /\ is_ws c = false.
Proof.
  intros [c|nm] H; cbn [tok_fmt].
  - cbn in H. destruct (c =? PCT) eqn:E; [|now exists c, []].
    exists PCT, [PCT]. split; reflexivity.
  - change (PCT :: LPAR :: nm ++ [RPAR; CH_s]) with ([PCT; LPAR] ++ nm ++ [RPAR; CH_s]).
    rewrite !rev_app_distr. cbn [rev app]. eexists CH_s, _. split; reflexivity.
Qed.

Lemma strip_fmt : forall ts, strip (fmt_toks ts) = fmt_toks (strip_t ts).
Proof.
  intros ts. unfold strip, strip_t, fmt_toks.
  rewrite (lstrip_flat tok_fmt fmt_ws fmt_nws), rev_flat_map.
  rewrite (lstrip_flat (fun t => rev (tok_fmt t)) rfmt_ws rfmt_nws), rev_flat_map.
  apply flat_map_ext. intros t. apply rev_involutive.
Qed.

(* ------------------------------------------------------------------ collapse *)
Lemma collapse_nows0 : forall w rest, nows w = true ->
  collapse [] false (w ++ rest) = w ++ collapse [] false rest.
Proof.
  induction w as [|c r IH]; intros rest H; [reflexivity|].
  cbn [nows forallb] in H. apply andb_true_iff in H as [H1 H2]. apply negb_true_iff in H1.
  cbn [app collapse]. rewrite H1. cbn [flush rev app]. f_equal. now apply IH.
Qed.

Lemma collapse_nows : forall c w run nl rest, is_ws c = false -> nows w = true ->
  collapse run nl ((c :: w) ++ rest) = flush run nl ++ (c :: w) ++ collapse [] false rest.
Proof.
  intros c w run nl rest Hc Hw. cbn [app collapse]. rewrite Hc. f_equal. f_equal. now apply collapse_nows0.
Qed.

Definition tok_nows (t : tok) : bool := match t with Ch _ => true | Var nm => nows nm end.

Lemma fmt_nows_all : forall t, tok_ws t = false -> tok_nows t = true ->
  exists c w, tok_fmt t = c :: w /\ is_ws c = false /\ nows w = true.
Proof.
  intros [c|nm] H Hn; cbn [tok_fmt].
  - cbn in H. destruct (c =? PCT) eqn:E.
    + exists PCT, [PCT]. split; [reflexivity|split; reflexivity].
    + exists c, []. split; [reflexivity|split; [exact H|reflexivity]].
  - cbn in Hn. exists PCT, (LPAR :: nm ++ [RPAR; CH_s]). split; [reflexivity|]. split; [reflexivity|].
    unfold nows in *. cbn [forallb]. rewrite forallb_app, Hn. reflexivity.
Qed.

Lemma flat_map_ext_in' : forall (f g : tok -> str) l, (forall a, In a l -> f a = g a) -> flat_map f l = flat_map g l.
Proof.
  intros f g. induction l as [|a r IH]; intros H; [reflexivity|]. cbn [flat_map].
  rewrite (H a (or_introl eq_refl)), IH; [reflexivity|]. intros x Hx. apply H. now right.
Qed.

Lemma flat_ws_rev : forall run, forallb tok_ws run = true ->
  rev (flat_map tok_fmt run) = flat_map tok_fmt (rev run).
Proof.
  intros run H. rewrite rev_flat_map. apply flat_map_ext_in'. intros t Hin.
  assert (Ht : tok_ws t = true).
  { apply (proj1 (forallb_forall _ _) H). now apply in_rev. }
  destruct (fmt_ws t Ht) as (c & -> & _). reflexivity.
Qed.

Lemma flush_fmt : forall run nl, forallb tok_ws run = true ->
  flush (flat_map tok_fmt run) nl = flat_map tok_fmt (flush_t run nl).
Proof.
  intros run nl H. unfold flush, flush_t. destruct nl; [reflexivity|]. now apply flat_ws_rev.
Qed.

Lemma collapse_fmt : forall ts run nl, forallb tok_ws run = true -> forallb tok_nows ts = true ->
  collapse (flat_map tok_fmt run) nl (flat_map tok_fmt ts) = flat_map tok_fmt (collapse_t run nl ts).
Proof.
  induction ts as [|t r IH]; intros run nl Hrun Hn.
  - cbn [flat_map collapse collapse_t]. now apply flush_fmt.
  - cbn [forallb] in Hn. apply andb_true_iff in Hn as [Ht Hr]. cbn [flat_map collapse_t].
    destruct (tok_ws t) eqn:E.
    + destruct (fmt_ws t E) as (c & Eg & Hc). rewrite Eg. cbn [app collapse]. rewrite Hc.
      assert (Enl : is_nl c = tok_nl t).
      { destruct t as [c'|nm]; [|discriminate]. cbn [tok_fmt] in Eg. cbn in E.
        rewrite (ws_not_pct c' E) in Eg. injection Eg as ->. reflexivity. }
      rewrite Enl. specialize (IH (t :: run) (nl || tok_nl t)). cbn [flat_map] in IH. rewrite Eg in IH.
      cbn [app] in IH. apply IH; [|exact Hr]. cbn [forallb]. now rewrite E.
    + destruct (fmt_nows_all t E Ht) as (c & w & Eg & Hc & Hw). rewrite Eg.
      rewrite (collapse_nows c w _ nl _ Hc Hw). rewrite flat_map_app. cbn [flat_map]. rewrite Eg.
      rewrite (flush_fmt run nl Hrun). f_equal. f_equal.
      exact (IH [] false eq_refl Hr).
Qed.

Lemma forallb_lstrip_t : forall P ts, forallb P ts = true -> forallb P (lstrip_t ts) = true.
Proof.
  intros P. induction ts as [|t r IH]; intros H; [reflexivity|].
  cbn [lstrip_t]. destruct (tok_ws t); [|exact H]. cbn [forallb] in H. apply andb_true_iff in H as [_ H]. now apply IH.
Qed.

Lemma forallb_rev : forall (P : tok -> bool) ts, forallb P ts = true -> forallb P (rev ts) = true.
Proof.
  intros P ts H. apply forallb_forall. intros x Hx. apply in_rev in Hx. exact (proj1 (forallb_forall _ _) H x Hx).
Qed.

Lemma forallb_strip_t : forall P ts, forallb P ts = true -> forallb P (strip_t ts) = true.
Proof.
  intros P ts H. unfold strip_t. apply forallb_rev, forallb_lstrip_t, forallb_rev, forallb_lstrip_t, H.
Qed.

Lemma forallb_collapse_t : forall P, P (Ch 32) = true -> forall ts run nl,
  forallb P run = true -> forallb P ts = true -> forallb P (collapse_t run nl ts) = true.
Proof.
  intros P H32. induction ts as [|t r IH]; intros run nl Hrun Hts.
  - cbn [collapse_t]. unfold flush_t. destruct nl; [cbn; now rewrite H32|now apply forallb_rev].
  - cbn [forallb] in Hts. apply andb_true_iff in Hts as [Ht Hr]. cbn [collapse_t]. destruct (tok_ws t).
    + apply IH; [cbn [forallb]; now rewrite Ht|exact Hr].
    + rewrite forallb_app. cbn [forallb]. rewrite Ht, (IH [] nl eq_refl Hr) || idtac.
      assert (Hf : forallb P (flush_t run nl) = true).
      { unfold flush_t. destruct nl; [cbn; now rewrite H32|now apply forallb_rev]. }
      rewrite Hf, Ht. cbn. now apply IH.
Qed.

Lemma forallb_trim_toks : forall P, P (Ch 32) = true -> forall ts,
  forallb P ts = true -> forallb P (trim_toks ts) = true.
Proof.
  intros P H32 ts H. unfold trim_toks. apply forallb_collapse_t; [exact H32|reflexivity|now apply forallb_strip_t].
Qed.

Theorem trim_ws_fmt : forall ts, forallb tok_nows ts = true -> trim_ws (fmt_toks ts) = fmt_toks (trim_toks ts).
Proof.
  intros ts H. unfold trim_ws, trim_toks. rewrite strip_fmt.
  exact (collapse_fmt (strip_t ts) [] false eq_refl (forallb_strip_t tok_nows ts H)).
Qed.

(* ------------------------------------------------------------------ blocks *)
Lemma escape_percent_toks : forall s, escape_percent s = fmt_toks (map Ch s).
Proof.
  induction s as [|c r IH]; [reflexivity|]. unfold escape_percent in *. cbn [replace1 map fmt_toks flat_map tok_fmt].
  fold (fmt_toks (map Ch r)). now rewrite IH.
Qed.

Lemma parse_block_toks : forall b, parse_block b = fmt_toks (toks_of_block b).
Proof.
  induction b as [|p r IH]; [reflexivity|]. unfold parse_block, toks_of_block, fmt_toks in *.
  cbn [map concat flat_map]. rewrite flat_map_app. rewrite IH. f_equal.
  destruct p as [s|nm]; cbn [piece_fmt piece_toks].
  - apply escape_percent_toks.
  - cbn [flat_map tok_fmt]. now rewrite app_nil_r.
Qed.

Lemma parse_block_of_toks : forall ts, parse_block (block_of_toks ts) = fmt_toks ts.
Proof.
  induction ts as [|t r IH]; [reflexivity|]. unfold parse_block, block_of_toks, fmt_toks in *.
  cbn [map concat flat_map]. rewrite IH. f_equal. destruct t as [c|nm]; cbn [tok_piece piece_fmt tok_fmt]; [|reflexivity].
  unfold escape_percent. cbn [replace1]. now rewrite app_nil_r.
Qed.

Lemma toks_nows : forall b, names_nows b = true -> forallb tok_nows (toks_of_block b) = true.
Proof.
  induction b as [|p r IH]; intros H; [reflexivity|]. cbn [names_nows forallb] in H.
  apply andb_true_iff in H as [Hp Hr]. unfold toks_of_block. cbn [flat_map]. rewrite forallb_app.
  fold (toks_of_block r). rewrite (IH Hr), andb_true_r. destruct p as [s|nm]; cbn [piece_toks].
  - induction s; [reflexivity|assumption].
  - cbn. now rewrite Hp.
Qed.

(* the format string of a trimmed block is the format string of the block of the trimmed text *)
Theorem trim_fmt : forall b, names_nows b = true -> fmt_of true b = fmt_of false (trim_block b).
Proof.
  intros b H. unfold fmt_of, trim_block. rewrite parse_block_of_toks, parse_block_toks.
  apply trim_ws_fmt. now apply toks_nows.
Qed.

Theorem trans_trimmed : forall st ae ctx sing plur count vars,
  names_nows sing = true -> match plur with Some p => names_nows p = true | None => True end ->
  render_trans st ae true ctx sing plur count vars
  = render_trans st ae false ctx (trim_block sing) (option_map trim_block plur) count vars.
Proof.
  intros st ae ctx sing plur count vars Hs Hp. unfold render_trans, trans_call, msg_of. cbn [c_plur c_sing].
  rewrite (trim_fmt sing Hs). destruct plur as [p|]; cbn [option_map]; [|reflexivity].
  now rewrite (trim_fmt p Hp).
Qed.

(* name side conditions survive trimming *)
Definition tok_norpar (t : tok) : bool := match t with Ch _ => true | Var nm => no_rpar nm end.
Definition tok_novar (t : tok) : bool := match t with Ch _ => true | Var _ => false end.

Lemma block_pred : forall (P : tok -> bool) (Q : piece -> bool),
  (forall t, Q (tok_piece t) = P t) -> forall ts, forallb Q (block_of_toks ts) = forallb P ts.
Proof.
  intros P Q H. induction ts as [|t r IH]; [reflexivity|]. cbn [block_of_toks map forallb]. fold (block_of_toks r).
  now rewrite H, IH.
Qed.

Lemma toks_pred : forall (P : tok -> bool) (Q : piece -> bool),
  (forall c, P (Ch c) = true) -> (forall nm, P (Var nm) = Q (PVar nm)) ->
  forall b, forallb Q b = true -> forallb P (toks_of_block b) = true.
Proof.
  intros P Q Hc Hv. induction b as [|p r IH]; intros H; [reflexivity|]. cbn [forallb] in H.
  apply andb_true_iff in H as [Hp Hr]. unfold toks_of_block. cbn [flat_map]. rewrite forallb_app.
  fold (toks_of_block r). rewrite (IH Hr), andb_true_r. destruct p as [s|nm]; cbn [piece_toks].
  - clear Hp. induction s as [|c s IHs]; [reflexivity|]. cbn [map forallb]. now rewrite Hc, IHs.
  - cbn. now rewrite Hv, Hp.
Qed.

Lemma names_ok_trim : forall b, names_ok b = true -> names_ok (trim_block b) = true.
Proof.
  intros b H. unfold names_ok, trim_block. rewrite (block_pred tok_norpar name_ok) by (intros [c|nm]; reflexivity).
  apply forallb_trim_toks; [reflexivity|].
  apply (toks_pred tok_norpar name_ok); [reflexivity|reflexivity|exact H].
Qed.

Lemma text_only_trim : forall b, text_only b = true -> text_only (trim_block b) = true.
Proof.
  intros b H. unfold text_only, trim_block.
  rewrite (block_pred tok_novar (fun p => match p with PText _ => true | PVar _ => false end)) by (intros [c|nm]; reflexivity).
  apply forallb_trim_toks; [reflexivity|].
  apply (toks_pred tok_novar (fun p => match p with PText _ => true | PVar _ => false end)); [reflexivity|reflexivity|exact H].
Qed.

(* trimmed block, identity translation: the trimmed text with the variables substituted *)
Theorem trans_renders_trimmed : forall st ae ctx sing vars,
  names_ok sing = true -> names_nows sing = true -> (vars = [] -> text_only sing = true) ->
  render_trans st ae true ctx sing None None vars
  = subst (vals ae (final_vars st ctx None vars)) (trim_block sing).
Proof.
  intros st ae ctx sing vars Hn Hw Ht.
  rewrite (trans_trimmed st ae ctx sing None None vars Hw I). cbn [option_map].
  apply trans_renders; [now apply names_ok_trim|]. intros E. apply text_only_trim. now apply Ht.
Qed.

(* ------------------------------------------------------------------ generic AST extraction *)
Definition F (x : ast) : list ast := self_call x ++ find_calls x.

Lemma find_calls_eq : forall t, find_calls t = flat_map F (children t).
Proof.
  assert (G : forall l, (fix go (l : list ast) : list ast :=
             match l with [] => [] | x :: r => self_call x ++ find_calls x ++ go r end) l = flat_map F l).
  { induction l as [|x r IH]; [reflexivity|]. cbn [flat_map]. unfold F at 1. rewrite <- app_assoc. now rewrite <- IH. }
  intros [c a k d|nm|s|l]; cbn [find_calls children]; try reflexivity.
  - rewrite !G. cbn [flat_map]. rewrite !flat_map_app. change (F c) with (self_call c ++ find_calls c). rewrite <- app_assoc. reflexivity.
  - apply G.
Qed.

Inductive Sub : ast -> ast -> Prop :=
| sub_child : forall c t, In c (children t) -> Sub c t
| sub_trans : forall c x t, In x (children t) -> Sub c x -> Sub c t.

Definition is_call (c : ast) : bool := match c with ACall _ _ _ _ => true | _ => false end.

Lemma sub_found : forall c t, Sub c t -> is_call c = true -> In c (find_calls t).
Proof.
  intros c t H Hc. induction H as [c t Hin|c x t Hin Hs IH]; rewrite find_calls_eq; apply in_flat_map.
  - exists c. split; [exact Hin|]. unfold F. apply in_or_app. left. destruct c; try discriminate. now left.
  - exists x. split; [exact Hin|]. unfold F. apply in_or_app. right. now apply IH.
Qed.

Lemma filter_map_in : forall (A B : Type) (f : A -> option B) l x y, In x l -> f x = Some y -> In y (filter_map f l).
Proof.
  intros A B f. induction l as [|a r IH]; intros x y Hin E; [contradiction|]. cbn [filter_map].
  destruct Hin as [->|Hin].
  - rewrite E. now left.
  - destruct (f a); [right|]; now apply (IH x).
Qed.

(* every gettext call node anywhere below the root is reported, with its constant strings *)
Theorem extraction_covers_ast : forall t c e, Sub c t -> entry c = Some e -> In e (extract t).
Proof.
  intros t c e Hs He. unfold extract. apply (filter_map_in _ _ entry (find_calls t) c e); [|exact He].
  apply sub_found; [exact Hs|]. destruct c; try discriminate. reflexivity.
Qed.

(* the call _make_node builds carries exactly the message strings used at run time *)
Lemma is_gettext_call_name : forall c, is_gettext (call_name c) = true.
Proof. intros [[x|] s [p|]]; reflexivity. Qed.

Theorem trans_node_entry : forall newstyle c count varexprs, arg_string count = None ->
  exists kws, In (call_name c,
      (match c_ctx c with Some x => [Some x] | None => [] end) ++ [Some (c_sing c)] ++
      (match c_plur c with Some p => [Some p; None] | None => [] end) ++ kws)
     (extract (ANode [trans_node newstyle c count varexprs])).
Proof.
  intros newstyle c count varexprs Hcount. destruct newstyle.
  - exists (map (fun _ => None) varexprs ++ []).
    apply (extraction_covers_ast _ (ACall (AName (call_name c)) (call_args c count) (map (fun e => ANode [e]) varexprs) [])).
    + eapply sub_trans; [left; reflexivity|]. apply sub_child. left. reflexivity.
    + cbn [entry]. rewrite is_gettext_call_name. f_equal. f_equal. unfold call_args.
      rewrite !map_app. rewrite map_map. rewrite <- !app_assoc. cbn [map app].
      destruct (c_ctx c), (c_plur c); cbn [map app arg_string]; rewrite ?Hcount; reflexivity.
  - exists [].
    apply (extraction_covers_ast _ (ACall (AName (call_name c)) (call_args c count) [] [])).
    + eapply sub_trans; [left; reflexivity|]. eapply sub_trans; [left; reflexivity|].
      eapply sub_trans; [left; reflexivity|]. apply sub_child. left. reflexivity.
    + cbn [entry]. rewrite is_gettext_call_name. f_equal. f_equal. unfold call_args.
      rewrite !map_app. cbn [map app]. rewrite !app_nil_r.
      destruct (c_ctx c), (c_plur c); cbn [map app arg_string]; rewrite ?Hcount; reflexivity.
Qed.
