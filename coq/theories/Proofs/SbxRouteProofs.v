(* The routing constructors chosen by Model/SbxGen.gen are the ones the emission model
   Model/SbxRoute writes (which the regenerated decision table of compiler.py is compared with). *)
From Coq Require Import List Bool String.
Import ListNotations.
From JV Require Import Model.SbxGen Model.SbxRoute.
Open Scope string_scope.

Lemma gen_getattr_route : forall m e a, In (first_write (gen m (EGetattr e a))) (route_getattr m).
Proof. intros [sb asy] e a. unfold route_getattr, aww, first_write. cbn. unfold aw. destruct asy; cbn; auto. Qed.

Lemma gen_getitem_route : forall m e i, In (first_write (gen m (EGetitem e i))) (route_getitem m false).
Proof. intros [sb asy] e i. unfold route_getitem, aww, first_write. cbn. unfold aw. destruct asy; cbn; auto. Qed.

Lemma gen_slice_route : forall m e lo hi st, In (first_write (gen m (ESlice e lo hi st))) (route_getitem m true).
Proof. intros m e lo hi st. cbn. auto. Qed.

Lemma gen_call_route : forall m f args kw dyn dynkw,
  In (first_write (gen m (ECall f args kw dyn dynkw))) (route_call m).
Proof.
  intros [sb asy] f args kw dyn dynkw. unfold route_call, aww, first_write. cbn. unfold aw.
  destruct sb, asy; cbn; auto.
Qed.

(* the emission model never writes a raw attribute access, and writes context.call only unsandboxed *)
Lemma route_call_sandboxed : forall m, sandboxed m = true -> ~ In "W:context.call(" (route_call m).
Proof.
  intros [sb asy] H. cbn in H. subst sb. unfold route_call, aww. cbn.
  destruct asy; cbn; intro X; repeat (destruct X as [X|X]; [discriminate|]); exact X.
Qed.
