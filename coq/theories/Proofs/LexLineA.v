(* C13, line statements: for the configuration with line_statement_prefix '#', line_comment_prefix
   '##', trim_blocks and lstrip_blocks, a template made of text and whole-line block tags renders the
   same when every such tag is rewritten as a line statement, provided no statement line is followed
   by a blank line.  Line-structured skeletons, induction over the chunks. *)
From Coq Require Import List NArith Bool Arith Lia.
Import ListNotations.
From JV Require Import Model.LexBase Model.LexTokeniter Spec.LexPlainSpec Spec.LexTrimSpec
  Proofs.LexInv Proofs.LexPlain Proofs.LexTotal Proofs.LexTrim Proofs.LexSkelA Proofs.LexSkelB Proofs.LexSkelC Proofs.LexSkelD.
Open Scope N_scope.

(* ------------------------------------------------------------------ the skeletons *)
(* text characters: anything but '{', '#' and CR *)
Definition txtL (x : N) : bool := negb (x =? 123) && negb (x =? 35) && negb (x =? 13).

Definition tag_block_form : str := [123; 37] ++ body_block ++ [37; 125].     (* "{% set x = 1 %}" *)
Definition tag_line_form : str := [35] ++ body_block.                          (* "# set x = 1 "    *)

(* a chunk: a text that is empty or ends a line, then an indented whole-line tag *)
Definition chunk := (str * str)%type.

Definition bol_text (T : str) : bool := match last_opt T with None => true | Some x => x =? 10 end.

(* the first non-indentation character exists and is not whitespace (or the text is empty):
   what follows a statement line does not begin with a blank line *)
Definition lead_ok (S : str) : bool :=
  match S with
  | [] => true
  | _ => match skipn (span is_hspace S) S with [] => false | x :: _ => negb (is_space x) end
  end.

Definition chunk_ok (ch : chunk) : bool :=
  forallb txtL (fst ch) && bol_text (fst ch) && lead_ok (fst ch) && forallb is_hspace (snd ch).

Definition lsk_ok (chs : list chunk) (F : str) : bool :=
  forallb chunk_ok chs && forallb txtL F && lead_ok F.

Fixpoint unparse_form (tag : str) (chs : list chunk) (F : str) : str :=
  match chs with
  | [] => F
  | (T, ind) :: r => T ++ ind ++ tag ++ 10 :: unparse_form tag r F
  end.

(* the documented output: the texts; the tag lines vanish *)
Fixpoint spec_lines (chs : list chunk) (F : str) : str :=
  match chs with [] => F | (T, _) :: r => T ++ spec_lines r F end.

(* ------------------------------------------------------------------ character facts *)
Lemma txtL_facts : forall x, txtL x = true -> (123 =? x) = false /\ (35 =? x) = false /\ (x =? 13) = false.
Proof.
  intros x H. unfold txtL in H. apply andb_true_iff in H as [H H3]. apply andb_true_iff in H as [H1 H2].
  apply negb_true_iff in H1, H2, H3. rewrite (N.eqb_sym 123 x), (N.eqb_sym 35 x). auto.
Qed.

Lemma hspace_space : forall x, is_hspace x = true -> is_space x = true.
Proof.
  intros x H. unfold is_hspace in H. apply orb_true_iff in H as [H|H]; [apply orb_true_iff in H as [H|H]|];
    apply N.eqb_eq in H; subst x; reflexivity.
Qed.

Lemma hspace_lcspace : forall x, is_hspace x = true -> is_lcspace x = true.
Proof.
  intros x H. unfold is_hspace in H. apply orb_true_iff in H as [H|H]; [apply orb_true_iff in H as [H|H]|];
    apply N.eqb_eq in H; subst x; reflexivity.
Qed.

(* the two run classes of the line rules *)
Definition runp (p : N -> bool) : Prop := p 10 = false /\ p 35 = false /\ p 123 = false.
Lemma runp_hspace : runp is_hspace. Proof. repeat split. Qed.
Lemma runp_lcspace : runp is_lcspace. Proof. repeat split. Qed.

(* the text U after a run does not continue the run and does not start with '#' *)
Definition ustartb (p : N -> bool) (U : str) : bool :=
  match U with [] => true | u :: _ => negb (p u) && negb (u =? 35) end.

Definition nohash_after (p : N -> bool) (s : str) : bool :=
  match skipn (span p s) s with x :: _ => negb (x =? 35) | [] => true end.

Lemma nohash_run : forall p S U, forallb txtL S = true ->
  (ustartb p U = true \/ existsb (fun x => negb (p x)) S = true) -> nohash_after p (S ++ U) = true.
Proof.
  intros p S U HS Hc. unfold nohash_after. induction S as [|x S IH].
  - cbn [app]. destruct Hc as [Hc|Hc]; [|discriminate]. destruct U as [|u U']; [reflexivity|].
    cbn [ustartb] in Hc. apply andb_true_iff in Hc as [Hp Hh]. apply negb_true_iff in Hp. cbn [span]. rewrite Hp. exact Hh.
  - cbn [forallb] in HS. apply andb_true_iff in HS as [Hx HS]. cbn [app span]. destruct (p x) eqn:Epx.
    + cbn [skipn]. apply IH; [exact HS|]. destruct Hc as [Hc|Hc]; [left; exact Hc|right].
      cbn [existsb] in Hc. rewrite Epx in Hc. exact Hc.
    + cbn [skipn]. destruct (txtL_facts x Hx) as (_ & H35 & _). rewrite N.eqb_sym, H35. reflexivity.
Qed.

(* ------------------------------------------------------------------ the configuration *)
Section Line.
  Variable k : bool.
  Variable seq : str.
  Let c := cfg_line true true k seq.

  (* no alternative of the root rule starts at a text character whose runs stop before a '#' *)
  Lemma fresh_at : forall prev x s, txtL x = true ->
    nohash_after is_hspace (x :: s) = true -> nohash_after is_lcspace (x :: s) = true ->
    root_alts c (compile_rules c) prev (x :: s) = None.
  Proof.
    intros prev x s Hx Hh Hl. destruct (txtL_facts x Hx) as (H123 & _ & _).
    unfold root_alts, alt_raw. cbn -[N.eqb alt_plain alt_ls alt_lc]. rewrite !H123. cbn [andb].
    rewrite !(alt_plain_head _ _ _ _ H123).
    assert (E1 : alt_lc [35; 35] prev (x :: s) = None).
    { unfold alt_lc. destruct (_ || _); [|reflexivity]. unfold nohash_after in Hl.
      destruct (skipn (span is_lcspace (x :: s)) (x :: s)) as [|y r]; [reflexivity|].
      apply negb_true_iff in Hl. rewrite alt_plain_head; [reflexivity|]. rewrite N.eqb_sym. exact Hl. }
    assert (E2 : alt_ls [35] prev (x :: s) = None).
    { unfold alt_ls. destruct (at_bol prev); [|reflexivity]. unfold nohash_after in Hh.
      destruct (skipn (span is_hspace (x :: s)) (x :: s)) as [|y r]; [reflexivity|].
      apply negb_true_iff in Hh. rewrite alt_plain_head; [reflexivity|]. rewrite N.eqb_sym. exact Hh. }
    rewrite E1, E2. reflexivity.
  Qed.

  (* either U does not continue a run / start with '#', or the text ends a line *)
  Definition okSU (S U : str) : Prop :=
    (ustartb is_hspace U = true /\ ustartb is_lcspace U = true) \/ S = [] \/ lsof S = true.

  Lemma lsof_exists_nonrun : forall p S, runp p -> lsof S = true -> existsb (fun x => negb (p x)) S = true.
  Proof.
    intros p S (H10 & _) H. induction S as [|x r IH]; [discriminate|]. cbn [existsb]. destruct r as [|y r'].
    - unfold lsof in H. cbn [last_opt] in H. apply N.eqb_eq in H. subst x. rewrite H10. reflexivity.
    - rewrite IH; [apply orb_true_r|exact H].
  Qed.

  Lemma prevof_cons : forall prev x S, prevof prev (x :: S) = prevof (Some x) S.
  Proof.
    intros prev x S. unfold prevof. destruct S as [|y S']; [reflexivity|].
    change (last_opt (x :: y :: S')) with (last_opt (y :: S')).
    destruct (last_opt (y :: S')) eqn:E; [reflexivity|]. apply last_opt_none in E. discriminate.
  Qed.

  Lemma find_tag_line : forall S U prev, forallb txtL S = true -> okSU S U ->
    find_tag c (compile_rules c) prev (S ++ U)
    = match find_tag c (compile_rules c) (prevof prev S) U with
      | Some (p, kd, n, sg) => Some ((length S + p)%nat, kd, n, sg)
      | None => None
      end.
  Proof.
    induction S as [|x S IH]; intros U prev HS Hok.
    - cbn [app length Nat.add]. unfold prevof. cbn [last_opt]. destruct (find_tag _ _ prev U) as [[[[? ?] ?] ?]|]; reflexivity.
    - pose proof HS as HS0. cbn [forallb] in HS. apply andb_true_iff in HS as [Hx HS].
      assert (Hh : nohash_after is_hspace ((x :: S) ++ U) = true).
      { apply nohash_run; [exact HS0|].
        destruct Hok as [[H1 _]|[H|H]]; [left; exact H1|discriminate|right; apply lsof_exists_nonrun; [exact runp_hspace|exact H]]. }
      assert (Hl : nohash_after is_lcspace ((x :: S) ++ U) = true).
      { apply nohash_run; [exact HS0|].
        destruct Hok as [[_ H1]|[H|H]]; [left; exact H1|discriminate|right; apply lsof_exists_nonrun; [exact runp_lcspace|exact H]]. }
      cbn [app] in Hh, Hl. cbn [app find_tag]. rewrite (fresh_at prev x (S ++ U) Hx Hh Hl).
      assert (Hok' : okSU S U).
      { destruct Hok as [H|[H|H]]; [left; exact H|discriminate|]. destruct S as [|y S']; [right; left; reflexivity|].
        right; right. exact H. }
      rewrite (IH U (Some x) HS Hok'), prevof_cons.
      destruct (find_tag c (compile_rules c) (prevof (Some x) S) U) as [[[[p kd] n] sg]|]; reflexivity.
  Qed.

  (* ---------------- text ++ tag ++ rest for this configuration *)
  Lemma find_tag_here : forall prev U kd n sg,
    root_alts c (compile_rules c) prev U = Some (kd, n, sg) -> find_tag c (compile_rules c) prev U = Some (0%nat, kd, n, sg).
  Proof. intros prev U kd n sg H. destruct U; cbn [find_tag]; rewrite H; reflexivity. Qed.

  Lemma root_tagL : forall S U kd n sg prev ls d, forallb txtL S = true -> okSU S U ->
    root_alts c (compile_rules c) (prevof prev S) U = Some (kd, n, sg) ->
    Lex c (state_of kd) (prevof prev (S ++ firstn n U)) (lsof (S ++ firstn n U)) (skipn n U) d ->
    Lex c SRoot prev ls (S ++ U) (left_rule true (RTag (negb (is_var kd)) (md_of sg)) ls S ++ d).
  Proof.
    intros S U kd n sg prev ls d HS Hok HU Hk.
    apply (Lex_step c SRoot prev ls (S ++ U) (length S + n)%nat (state_of kd)).
    - intros line pos. cbn [step]. rewrite (find_tag_line S U prev HS Hok), (find_tag_here _ _ _ _ _ HU), Nat.add_0_r.
      rewrite firstn_app_len, skipn_app_len.
      destruct (emit_text_tag c sg (is_var kd) ls line pos S (firstn n U) (begin_of kd)) as [its0 l0] eqn:Ee.
      exists its0, l0. split; [reflexivity|].
      apply (emit_data _ _ _ _ _ _ _ _ _ _ _ Ee). destruct kd; discriminate.
    - rewrite skipn_add_app, firstn_add_app. exact Hk.
  Qed.

  Lemma find_tag_nil : forall p, find_tag c (compile_rules c) p [] = None.
  Proof.
    intros p. cbn [find_tag]. unfold root_alts, alt_raw. cbn -[alt_ls alt_lc]. unfold alt_ls, alt_lc.
    destruct (at_bol p); destruct (match p with Some c0 => negb (is_space c0) | None => false end); reflexivity.
  Qed.

  Lemma prevof_lsof : forall p m, lsof m = true -> prevof p m = Some 10.
  Proof.
    intros p m H. unfold lsof, prevof in *. destruct (last_opt m) as [x|]; [|discriminate].
    apply N.eqb_eq in H. subst x. reflexivity.
  Qed.

  Lemma text_endL : forall F prev ls, forallb txtL F = true -> Lex c SRoot prev ls F F.
  Proof.
    intros F prev ls HF.
    assert (Hnone : forall p, find_tag c (compile_rules c) p F = None).
    { intros p. rewrite <- (app_nil_r F), (find_tag_line F [] p HF) by (left; split; reflexivity).
      rewrite find_tag_nil. reflexivity. }
    destruct F as [|x F'].
    - apply Lex_end. intros line pos. cbn [step]. rewrite find_tag_nil. reflexivity.
    - remember (x :: F') as F eqn:EF. rewrite <- (app_nil_r F) at 2.
      apply (Lex_step c SRoot prev ls F (length F) SRoot F []).
      + intros line pos. exists [ITok line TData F pos], (line + count_nl F). cbn [step]. rewrite Hnone.
        rewrite EF at 1. split; [reflexivity|]. cbn [data_of]. rewrite app_nil_r. apply nl_subst_id.
      + rewrite skipn_all. apply Lex_end. intros line pos. cbn [step]. rewrite find_tag_nil. reflexivity.
  Qed.

  (* ---------------- lstrip on a text that ends a line, with or without indentation behind it *)
  Lemma bol_has_nl : forall l, l <> [] -> bol_text l = true -> has_nl l = true.
  Proof.
    induction l as [|a l IHl]; intros Hne H; [contradiction|]. unfold has_nl in *. cbn [existsb]. destruct l as [|b l'].
    - unfold bol_text in H. cbn [last_opt] in H. unfold is_nl. rewrite H. reflexivity.
    - rewrite IHl; [apply orb_true_r|discriminate|exact H].
  Qed.

  Lemma line_tail_bol : forall T, bol_text T = true -> line_tail T = [].
  Proof.
    induction T as [|x r IH]; intros H; [reflexivity|]. cbn [line_tail].
    rewrite (bol_has_nl (x :: r)) by (try discriminate; exact H).
    destruct r as [|y r']; [reflexivity|]. apply IH. exact H.
  Qed.

  Lemma hspace_no_nl : forall ind, forallb is_hspace ind = true -> has_nl ind = false.
  Proof.
    induction ind as [|x r IH]; intros H; [reflexivity|]. cbn [forallb] in H. apply andb_true_iff in H as [Hx Hr].
    unfold has_nl. cbn [existsb]. unfold is_nl at 1. destruct (x =? 10) eqn:E; [apply N.eqb_eq in E; subst x; discriminate|].
    apply IH. exact Hr.
  Qed.

  Lemma hspace_allws : forall ind, forallb is_hspace ind = true -> forallb is_space ind = true.
  Proof.
    induction ind as [|x r IH]; intros H; [reflexivity|]. cbn [forallb] in *. apply andb_true_iff in H as [Hx Hr].
    rewrite (hspace_space x Hx). cbn. auto.
  Qed.

  Lemma lstrip_indent : forall T ind, bol_text T = true -> forallb is_hspace ind = true ->
    left_rule true (RTag true MNone) true (T ++ ind) = T.
  Proof.
    intros T ind HT Hi. rewrite left_rule_lstrip. unfold lstrip_rule.
    rewrite line_tail_app, (hspace_no_nl ind Hi), (line_tail_bol T HT). cbn [app].
    destruct ind as [|x r]; [cbn [nonempty andb]; apply app_nil_r|].
    cbn [nonempty]. rewrite (hspace_allws _ Hi), orb_true_r. cbn [andb].
    rewrite app_length, Nat.add_sub. apply firstn_app_len.
  Qed.

  Lemma lstrip_bol : forall T, bol_text T = true -> left_rule true (RTag true MNone) true T = T.
  Proof. intros T HT. rewrite <- (app_nil_r T) at 1. rewrite (lstrip_indent T [] HT eq_refl). reflexivity. Qed.

  Lemma bol_prev : forall prev T, at_bol prev = true -> bol_text T = true -> at_bol (prevof prev T) = true.
  Proof. intros prev T Hp HT. unfold prevof, bol_text in *. destruct (last_opt T); [exact HT|exact Hp]. Qed.

  (* ---------------- runs over the indentation *)
  Lemma span_indent : forall (p : N -> bool) ind x Z, (forall y, is_hspace y = true -> p y = true) ->
    forallb is_hspace ind = true -> p x = false -> span p (ind ++ x :: Z) = length ind.
  Proof.
    intros p ind x Z Hp. induction ind as [|y r IH]; intros Hi Hx; cbn [app span length].
    - rewrite Hx. reflexivity.
    - cbn [forallb] in Hi. apply andb_true_iff in Hi as [Hy Hr]. rewrite (Hp y Hy), (IH Hr Hx). reflexivity.
  Qed.

  (* ---------------- the inside of the two tag forms (by computation) *)
  Lemma block_inL : forall r Y prev ls d,
    (forall prev' ls', Lex c SBlock prev' ls' (md_str r ++ c_be c ++ Y) d) ->
    Lex c SBlock prev ls (body_block ++ md_str r ++ c_be c ++ Y) d.
  Proof. solve_block_in. Qed.

  (* \s*(\n|$) after the statement: one line break, when the next line is not blank *)
  Lemma ls_end_shape : forall ind x Z, forallb is_hspace ind = true -> is_space x = false ->
    ls_end (32 :: 10 :: ind ++ x :: Z) = Some 2%nat.
  Proof.
    intros ind x Z Hi Hx. unfold ls_end. cbn [span]. change (is_space 32) with true. change (is_space 10) with true. cbv iota.
    rewrite (span_indent is_space ind x Z hspace_space Hi Hx).
    assert (Hlen : (S (S (length ind)) =? length (32%N :: 10%N :: ind ++ x :: Z))%nat = false).
    { apply Nat.eqb_neq. cbn [length]. rewrite app_length. cbn [length]. lia. }
    rewrite Hlen. cbn [firstn]. rewrite firstn_app_len. cbn [after_last_nl].
    pose proof (hspace_no_nl _ Hi) as Hn. apply after_last_nl_zero in Hn. rewrite Hn. reflexivity.
  Qed.

  Lemma ls_end_next : forall R, lead_ok R = true -> ls_end (32 :: 10 :: R) = Some 2%nat.
  Proof.
    intros R H. destruct R as [|y R'] eqn:ER; [reflexivity|]. rewrite <- ER in *.
    unfold lead_ok in H. rewrite ER in H at 1.
    destruct (skipn (span is_hspace R) R) as [|x Z] eqn:Es; [discriminate|]. apply negb_true_iff in H.
    assert (Hi : forallb is_hspace (firstn (span is_hspace R) R) = true).
    { clear. induction R as [|a l IHl]; [reflexivity|]. cbn [span]. destruct (is_hspace a) eqn:E; cbn [firstn forallb]; [rewrite E; exact IHl|reflexivity]. }
    rewrite <- (firstn_skipn (span is_hspace R) R), Es. apply ls_end_shape; assumption.
  Qed.

  Ltac lex_tokL := eapply Lex_step0; [intros ? ?; eexists; eexists; split; reflexivity|].

  Lemma line_inL : forall R prev ls d, lead_ok R = true ->
    Lex c SRoot (Some 10) true R d ->
    Lex c SLs prev ls (body_block ++ 10 :: R) d.
  Proof.
    intros R prev ls d HR H. unfold body_block. cbn [app]. do 8 lex_tokL.
    match goal with |- Lex _ _ _ _ ?s _ => change s with (32 :: 10 :: R) end.
    eapply (Lex_step0 c SLs _ _ (32 :: 10 :: R) 2%nat SRoot).
    - intros line pos. cbn [step]. unfold step_tag. rewrite (ls_end_next R HR).
      eexists. eexists. split; reflexivity.
    - cbn [skipn firstn]. exact H.
  Qed.

  (* ---------------- one chunk, in either form *)
  Lemma block_endL : forall R prev ls d, Lex c SRoot (Some 10) true R d ->
    Lex c SBlock prev ls ([37; 125] ++ 10 :: R) d.
  Proof.
    intros R prev ls d H. destruct (end_match true [37; 125] MNone (10 :: R) eq_refl) as (n & Hn & Hs & Hl).
    cbn [md_str] in Hn, Hs, Hl. change ([] ++ [37; 125] ++ 10 :: R) with ([37; 125] ++ 10 :: R) in Hn, Hs, Hl.
    specialize (Hl []). cbn [app ls_ctx andb nl_headb right_rule drop_one_nl] in Hl, Hs. rewrite N.eqb_refl in Hl, Hs.
    eapply (Lex_step0 c SBlock prev ls _ n SRoot).
    - intros line pos. cbn [step]. unfold step_tag. change (c_trim c) with true. change (c_be c) with [37; 125].
      cbn [app] in Hn. cbn [app]. rewrite Hn. eexists. eexists. split; reflexivity.
    - cbn [app] in Hs, Hl. cbn [app]. rewrite Hs, Hl, (prevof_lsof _ _ Hl). exact H.
  Qed.

  Lemma chunk_block : forall T ind R prev d, forallb txtL T = true -> bol_text T = true ->
    forallb is_hspace ind = true ->
    Lex c SRoot (Some 10) true R d ->
    Lex c SRoot prev true (T ++ ind ++ tag_block_form ++ 10 :: R) (T ++ d).
  Proof.
    intros T ind R prev d HT Hb Hi H.
    assert (HS : forallb txtL (T ++ ind) = true).
    { rewrite forallb_app, HT. cbn [andb]. clear -Hi. induction ind as [|x r IH]; [reflexivity|]. cbn [forallb] in *.
      apply andb_true_iff in Hi as [Hx Hr]. rewrite (IH Hr), andb_true_r.
      unfold is_hspace in Hx. apply orb_true_iff in Hx as [Hx|Hx]; [apply orb_true_iff in Hx as [Hx|Hx]|]; apply N.eqb_eq in Hx; subst x; reflexivity. }
    unfold tag_block_form. rewrite <- !app_assoc, (app_assoc T ind).
    rewrite <- (lstrip_indent T ind Hb Hi) at 2.
    apply (root_tagL (T ++ ind) _ KBlock 2%nat SgNone prev true d HS).
    - left. split; reflexivity.
    - unfold root_alts, alt_raw. cbn -[alt_ls alt_lc]. unfold alt_lc.
      destruct (at_bol (prevof prev (T ++ ind)) || _); reflexivity.
    - cbn [skipn app state_of]. apply (block_inL MNone (10 :: R)). intros prev' ls'.
      apply block_endL. exact H.
  Qed.

  Lemma chunk_line : forall T ind R prev d, forallb txtL T = true -> bol_text T = true ->
    forallb is_hspace ind = true -> at_bol prev = true -> lead_ok R = true ->
    Lex c SRoot (Some 10) true R d ->
    Lex c SRoot prev true (T ++ ind ++ tag_line_form ++ 10 :: R) (T ++ d).
  Proof.
    intros T ind R prev d HT Hb Hi Hp HR H.
    unfold tag_line_form. rewrite <- !app_assoc.
    rewrite <- (lstrip_bol T Hb) at 2.
    assert (Halt : root_alts c (compile_rules c) (prevof prev T) (ind ++ [35] ++ body_block ++ 10 :: R)
                   = Some (KLs, (length ind + 1)%nat, SgNone)).
    { pose proof (bol_prev prev T Hp Hb) as Hbol. unfold body_block. cbn [app].
      set (Z := 115 :: 101 :: 116 :: 32 :: 120 :: 32 :: 61 :: 32 :: 49 :: 32 :: 10 :: R).
      unfold root_alts.
      assert (Hhd : forall y, is_hspace y = true -> (123 =? y) = false).
      { intros y Hy. unfold is_hspace in Hy. apply orb_true_iff in Hy as [Hy|Hy]; [apply orb_true_iff in Hy as [Hy|Hy]|]; apply N.eqb_eq in Hy; subst y; reflexivity. }
      assert (Eraw : alt_raw c (ind ++ 35 :: 32 :: Z) = None).
      { unfold alt_raw. destruct ind as [|y r]; [reflexivity|]. cbn [forallb] in Hi. apply andb_true_iff in Hi as [Hy _].
        cbn [app c_bs c cfg_line prefixb]. rewrite (Hhd y Hy). reflexivity. }
      rewrite Eraw.
      assert (Ep : forall d0, alt_plain (123 :: d0) (ind ++ 35 :: 32 :: Z) = None).
      { intros d0. destruct ind as [|y r]; [reflexivity|]. cbn [forallb] in Hi. apply andb_true_iff in Hi as [Hy _].
        cbn [app]. apply alt_plain_head. exact (Hhd y Hy). }
      cbn -[alt_plain alt_ls alt_lc]. rewrite !Ep.
      assert (Elc : alt_lc [35; 35] (prevof prev T) (ind ++ 35 :: 32 :: Z) = None).
      { unfold alt_lc. rewrite Hbol. cbn [orb]. rewrite (span_indent is_lcspace ind 35 _ hspace_lcspace Hi eq_refl).
        rewrite skipn_app_len. reflexivity. }
      assert (Els : alt_ls [35] (prevof prev T) (ind ++ 35 :: 32 :: Z) = Some ((length ind + 1)%nat, SgNone)).
      { unfold alt_ls. rewrite Hbol. rewrite (span_indent is_hspace ind 35 _ (fun y H => H) Hi eq_refl).
        rewrite skipn_app_len. reflexivity. }
      rewrite Elc, Els. reflexivity. }
    apply (root_tagL T _ KLs (length ind + 1)%nat SgNone prev true d HT).
    - right. unfold bol_text in Hb. unfold lsof. destruct (last_opt T) eqn:E; [right; exact Hb|left; apply last_opt_none; exact E].
    - exact Halt.
    - cbn [state_of]. rewrite skipn_add_app. cbn [app skipn]. apply line_inL; [exact HR|exact H].
  Qed.

  (* ---------------- the induction over the chunks *)
  Lemma lead_ok_unparse : forall tag chs F, (tag = tag_block_form \/ tag = tag_line_form) ->
    forallb chunk_ok chs = true -> lead_ok F = true -> lead_ok (unparse_form tag chs F) = true.
  Proof.
    intros tag chs F Htag Hc HF. destruct chs as [|[T ind] r]; [exact HF|]. cbn [unparse_form].
    cbn [forallb] in Hc. apply andb_true_iff in Hc as [Hch _]. unfold chunk_ok in Hch. cbn [fst snd] in Hch.
    apply andb_true_iff in Hch as [Hch Hi]. apply andb_true_iff in Hch as [Hch Hl]. apply andb_true_iff in Hch as [HT Hb].
    destruct T as [|x T'].
    - (* the indentation, then the tag's first character *)
      cbn [app]. unfold lead_ok.
      assert (Hx : exists x Z, tag ++ 10 :: unparse_form tag r F = x :: Z /\ is_hspace x = false /\ is_space x = false).
      { destruct Htag as [->| ->]; eexists; eexists; split; try reflexivity; split; reflexivity. }
      destruct Hx as (x & Z & Ex & Hh & Hs). rewrite Ex.
      destruct (ind ++ x :: Z) eqn:E0; [destruct ind; discriminate|]. rewrite <- E0.
      rewrite (span_indent is_hspace ind x Z (fun y H => H) Hi Hh), skipn_app_len, Hs. reflexivity.
    - (* the text's own first line *)
      remember (x :: T') as T eqn:ET.
      assert (Hfn : forall S W, match skipn (span is_hspace S) S with [] => false | z :: _ => negb (is_space z) end = true ->
                match skipn (span is_hspace (S ++ W)) (S ++ W) with [] => false | z :: _ => negb (is_space z) end = true).
      { induction S as [|a l IHl]; intros W H0; [discriminate|]. cbn [app span] in *.
        destruct (is_hspace a); cbn [skipn] in *; [apply IHl; exact H0|exact H0]. }
      subst T. unfold lead_ok in *. cbn [app].
      change (x :: T' ++ ind ++ tag ++ 10 :: unparse_form tag r F) with ((x :: T') ++ ind ++ tag ++ 10 :: unparse_form tag r F).
      apply Hfn. exact Hl.
  Qed.

  Lemma form_lex : forall tag chs F, (tag = tag_block_form \/ tag = tag_line_form) -> lsk_ok chs F = true ->
    forall prev, at_bol prev = true -> Lex c SRoot prev true (unparse_form tag chs F) (spec_lines chs F).
  Proof.
    intros tag chs F Htag. induction chs as [|[T ind] r IH]; intros Hok prev Hp.
    - cbn [unparse_form spec_lines]. apply text_endL. unfold lsk_ok in Hok. cbn [forallb andb] in Hok.
      apply andb_true_iff in Hok as [H _]. exact H.
    - unfold lsk_ok in Hok. apply andb_true_iff in Hok as [Hok HlF]. apply andb_true_iff in Hok as [Hc HF].
      cbn [forallb] in Hc. apply andb_true_iff in Hc as [Hch Hr]. unfold chunk_ok in Hch. cbn [fst snd] in Hch.
      apply andb_true_iff in Hch as [Hch Hi]. apply andb_true_iff in Hch as [Hch Hl]. apply andb_true_iff in Hch as [HT Hb].
      assert (Hokr : lsk_ok r F = true) by (unfold lsk_ok; rewrite Hr, HF, HlF; reflexivity).
      pose proof (IH Hokr (Some 10) eq_refl) as Hcont.
      cbn [unparse_form spec_lines]. destruct Htag as [->| ->].
      + apply chunk_block; assumption.
      + apply chunk_line; try assumption. apply lead_ok_unparse; [right; reflexivity|exact Hr|exact HlF].
  Qed.
End Line.

(* ------------------------------------------------------------------ the theorem *)
Lemma no13_txtL : forall s, forallb txtL s = true -> forallb (fun x => negb (x =? 13)) s = true.
Proof.
  induction s as [|x r IH]; intros H; [reflexivity|]. cbn [forallb] in *. apply andb_true_iff in H as [H1 H2].
  destruct (txtL_facts x H1) as (_ & _ & E). rewrite E. cbn. auto.
Qed.

Lemma no13_hspace : forall s, forallb is_hspace s = true -> forallb (fun x => negb (x =? 13)) s = true.
Proof.
  induction s as [|x r IH]; intros H; [reflexivity|]. cbn [forallb] in *. apply andb_true_iff in H as [H1 H2].
  rewrite (IH H2), andb_true_r. unfold is_hspace in H1.
  apply orb_true_iff in H1 as [H1|H1]; [apply orb_true_iff in H1 as [H1|H1]|]; apply N.eqb_eq in H1; subst x; reflexivity.
Qed.

Lemma no13_form : forall tag chs F, forallb (fun x => negb (x =? 13)) tag = true -> lsk_ok chs F = true ->
  forallb (fun x => negb (x =? 13)) (unparse_form tag chs F) = true.
Proof.
  intros tag chs F Htag H. unfold lsk_ok in H. apply andb_true_iff in H as [H _]. apply andb_true_iff in H as [Hc HF].
  induction chs as [|[T ind] r IH]; [exact (no13_txtL F HF)|]. cbn [forallb] in Hc. apply andb_true_iff in Hc as [Hch Hr].
  unfold chunk_ok in Hch. cbn [fst snd] in Hch. apply andb_true_iff in Hch as [Hch Hi]. apply andb_true_iff in Hch as [Hch _].
  apply andb_true_iff in Hch as [HT _]. cbn [unparse_form]. rewrite !forallb_app. cbn [forallb].
  rewrite (no13_txtL T HT), (no13_hspace ind Hi), Htag, (IH Hr). reflexivity.
Qed.

Lemma drop_last_nl_form : forall tag chs F, F <> [] ->
  drop_last_nl (unparse_form tag chs F) = unparse_form tag chs (drop_last_nl F).
Proof.
  intros tag chs F HF. induction chs as [|[T ind] r IH]; [reflexivity|]. cbn [unparse_form].
  assert (Hne : unparse_form tag r F <> []) by (destruct r as [|[T2 i2] r2]; [exact HF|cbn [unparse_form]; destruct T2, i2, tag; discriminate]).
  rewrite (drop_last_nl_app T) by (destruct ind, tag; discriminate).
  rewrite (drop_last_nl_app ind) by (destruct tag; discriminate).
  rewrite (drop_last_nl_app tag) by discriminate.
  change (10 :: unparse_form tag r F) with ([10] ++ unparse_form tag r F).
  rewrite (drop_last_nl_app [10]) by exact Hne. rewrite IH. reflexivity.
Qed.

Lemma lead_ok_drop : forall F, forallb txtL F = true -> lead_ok F = true ->
  forallb txtL (drop_last_nl F) = true /\ lead_ok (drop_last_nl F) = true.
Proof.
  intros F HF HL. split.
  - clear HL. induction F as [|x r IH]; [reflexivity|]. destruct r as [|y r'].
    + cbn [drop_last_nl]. destruct (x =? 10); [reflexivity|exact HF].
    + change (drop_last_nl (x :: y :: r')) with (x :: drop_last_nl (y :: r')). cbn [forallb] in *.
      apply andb_true_iff in HF as [H1 H2]. rewrite H1. cbn [andb]. apply IH. exact H2.
  - destruct F as [|x r]; [reflexivity|]. unfold lead_ok in *.
    assert (G : forall S, match skipn (span is_hspace S) S with [] => false | z :: _ => negb (is_space z) end = true ->
                match drop_last_nl S with
                | [] => true
                | _ => match skipn (span is_hspace (drop_last_nl S)) (drop_last_nl S) with [] => false | z :: _ => negb (is_space z) end
                end = true).
    { induction S as [|a l IHl]; intros H0; [discriminate|]. destruct l as [|b l'].
      - cbn [drop_last_nl]. destruct (a =? 10) eqn:E; [reflexivity|]. exact H0.
      - change (drop_last_nl (a :: b :: l')) with (a :: drop_last_nl (b :: l')). cbn [span] in *.
        destruct (is_hspace a) eqn:Ea; cbn [skipn] in *; [|exact H0].
        specialize (IHl H0). destruct (drop_last_nl (b :: l')) eqn:Ed; [|exact IHl].
        (* b :: l' = [10] would make the first non-indentation character a line break *)
        exfalso. destruct l' as [|c0 l'']; [|change (drop_last_nl (b :: c0 :: l'')) with (b :: drop_last_nl (c0 :: l'')) in Ed; discriminate].
        cbn [drop_last_nl] in Ed. destruct (b =? 10) eqn:Eb; [|discriminate]. apply N.eqb_eq in Eb. subst b.
        cbn [span skipn] in H0. change (is_hspace 10) with false in H0. cbn [skipn] in H0. discriminate. }
    apply G. exact HL.
Qed.

(* both forms of a line-structured skeleton render the texts, with the statement lines removed *)
Theorem line_form_render : forall tag k seq chs F, (tag = tag_block_form \/ tag = tag_line_form) ->
  lsk_ok chs F = true -> (k = true \/ F <> []) ->
  render_data (cfg_line true true k seq) (unparse_form tag chs F)
  = Some (nl_subst seq (spec_lines chs (if k then F else drop_last_nl F))).
Proof.
  intros tag k seq chs F Htag Hok Hk. set (c := cfg_line true true k seq).
  assert (Ht13 : forallb (fun x => negb (x =? 13)) tag = true) by (destruct Htag as [->| ->]; reflexivity).
  unfold render_data, tokeniter, normalize. rewrite (nl_replace_fix _ (no13_form tag chs F Ht13 Hok)).
  change (c_keep c) with k. change (c_nlseq c) with seq.
  destruct k.
  - pose proof (form_lex true seq tag chs F Htag Hok None eq_refl) as HL.
    destruct (Lex_run c eq_refl _ _ HL) as (its & -> & Hd). rewrite data_of_seq, Hd. reflexivity.
  - destruct Hk as [Hk|HF]; [discriminate|]. rewrite (drop_last_nl_form tag chs F HF).
    assert (Hok' : lsk_ok chs (drop_last_nl F) = true).
    { unfold lsk_ok in *. apply andb_true_iff in Hok as [Hok HlF]. apply andb_true_iff in Hok as [Hc HtF].
      destruct (lead_ok_drop F HtF HlF) as [H1 H2]. rewrite Hc, H1, H2. reflexivity. }
    pose proof (form_lex false seq tag chs (drop_last_nl F) Htag Hok' None eq_refl) as HL.
    destruct (Lex_run c eq_refl _ _ HL) as (its & -> & Hd). rewrite data_of_seq, Hd. reflexivity.
Qed.

Theorem line_statement_equiv : forall k seq chs F, lsk_ok chs F = true -> (k = true \/ F <> []) ->
  render_data (cfg_line true true k seq) (unparse_form tag_line_form chs F)
  = render_data (cfg_line true true k seq) (unparse_form tag_block_form chs F).
Proof.
  intros k seq chs F Hok Hk.
  rewrite (line_form_render tag_line_form k seq chs F (or_intror eq_refl) Hok Hk),
          (line_form_render tag_block_form k seq chs F (or_introl eq_refl) Hok Hk). reflexivity.
Qed.
