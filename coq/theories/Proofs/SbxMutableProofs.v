(* Lemmas for C19.  The finite-domain theorem is decided by a boolean checker over the
   regenerated table ([blocks_ok]); this file proves that the checker is sound, for every table. *)
From Coq Require Import List Bool String.
Import ListNotations.
From JV Require Import Model.SbxAttr Model.SbxMutable Spec.SbxMutators.
Open Scope string_scope.

(* the decision procedure run by vm_compute on the regenerated facts *)
Definition blocks_ok (tb : tables) (spec : list row) (pubs : btype -> list string) : bool :=
  forallb (fun T =>
    forallb (fun m => implb (mutates T m) (negb (immutable_is_safe_attribute tb spec T m))) (pubs T))
    all_btypes.

Lemma all_btypes_complete : forall T, In T all_btypes.
Proof. intros []; cbn; auto. Qed.

Lemma blocks_ok_sound : forall tb spec pubs, blocks_ok tb spec pubs = true ->
  forall T m, In m (pubs T) -> mutates T m = true -> immutable_is_safe_attribute tb spec T m = false.
Proof.
  intros tb spec pubs Hok T m Hin Hmut. unfold blocks_ok in Hok.
  rewrite forallb_forall in Hok. specialize (Hok T (all_btypes_complete T)).
  rewrite forallb_forall in Hok. specialize (Hok m Hin).
  rewrite Hmut in Hok. cbn in Hok. destruct (immutable_is_safe_attribute tb spec T m); [discriminate|reflexivity].
Qed.

(* the call gate for stored bound methods: same finite domain, same checker style *)
Definition calls_ok (spec : list row) (pubs : btype -> list string) : bool :=
  forallb (fun T => forallb (fun m => implb (mutates T m) (negb (immutable_is_safe_callable spec T m))) (pubs T)) all_btypes.

Lemma calls_ok_sound : forall spec pubs, calls_ok spec pubs = true ->
  forall T m, In m (pubs T) -> mutates T m = true -> immutable_is_safe_callable spec T m = false.
Proof.
  intros spec pubs Hok T m Hin Hmut. unfold calls_ok in Hok.
  rewrite forallb_forall in Hok. specialize (Hok T (all_btypes_complete T)).
  rewrite forallb_forall in Hok. specialize (Hok m Hin).
  rewrite Hmut in Hok. cbn in Hok. destruct (immutable_is_safe_callable spec T m); [discriminate|reflexivity].
Qed.

(* every form of stored reference is judged by the method it ends up calling *)
Lemma safe_ref_by_target : forall spec r T m, ref_target r = Some (T, m) ->
  immutable_safe_ref spec r = immutable_is_safe_callable spec T m.
Proof.
  intros spec r. induction r as [T0 m0|T0 m0|r IH|]; intros T m H; cbn in *; try discriminate.
  - injection H as -> ->. reflexivity.
  - injection H as -> ->. reflexivity.
  - exact (IH T m H).
Qed.

(* rows that fail, for the search: computed by the same definitions *)
Definition failing_rows (tb : tables) (spec : list row) (pubs : btype -> list string) : list (btype * string) :=
  flat_map (fun T => map (fun m => (T, m))
     (filter (fun m => mutates T m && immutable_is_safe_attribute tb spec T m) (pubs T))) all_btypes.

(* names starting with an underscore are never handed out, whatever the table says *)
Lemma private_blocked : forall tb spec T a, starts_underscore a = true ->
  immutable_is_safe_attribute tb spec T a = false.
Proof.
  intros tb spec T a H. unfold immutable_is_safe_attribute, is_safe_attribute. rewrite H. reflexivity.
Qed.

(* the first matching row decides *)
Lemma first_match_decides : forall r rest T a, mem_b T (row_inst r) = true ->
  modifies_known_mutable (r :: rest) T a = mem_s a (row_attrs r).
Proof. intros r rest T a H. cbn [modifies_known_mutable]. rewrite H. reflexivity. Qed.

Lemma no_match_skips : forall r rest T a, mem_b T (row_inst r) = false ->
  modifies_known_mutable (r :: rest) T a = modifies_known_mutable rest T a.
Proof. intros r rest T a H. cbn [modifies_known_mutable]. rewrite H. reflexivity. Qed.

(* a blocked attribute is handed out as the SecurityError-raising undefined, never as the
   bound method *)
Lemma blocked_handout : forall tb spec T a, immutable_is_safe_attribute tb spec T a = false ->
  immutable_handout tb spec T a = HUnsafeUndefined.
Proof. intros tb spec T a H. unfold immutable_handout. rewrite H. reflexivity. Qed.

(* write-footprint facts of filters.py (translator gen/sbx_filters_scan.py): per function the
   list of (line, kind) of stores / augmented assignments / mutator calls whose target aliases
   a parameter *)
Definition site := (nat * string)%type.
Definition filters_clean (facts : list (string * list site)) : bool :=
  forallb (fun f => match snd f with [] => true | _ => false end) facts.

Lemma filters_clean_sound : forall facts, filters_clean facts = true ->
  forall f sites, In (f, sites) facts -> sites = [].
Proof.
  intros facts H f sites Hin. unfold filters_clean in H. rewrite forallb_forall in H.
  specialize (H (f, sites) Hin). cbn in H. destruct sites; [reflexivity|discriminate].
Qed.
