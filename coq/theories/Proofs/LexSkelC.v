(* The generic skeleton theorem: Section over a configuration c, a text character class txt and
   the bundle of local delimiter facts; see [skel_cfg] at the end. *)
From Coq Require Import List NArith Bool Arith Lia.
Import ListNotations.
From JV Require Import Model.LexBase Model.LexTokeniter Spec.LexPlainSpec Spec.LexTrimSpec
  Proofs.LexInv Proofs.LexPlain Proofs.LexTotal Proofs.LexTrim Proofs.LexSkelA Proofs.LexSkelB.
Open Scope N_scope.

Definition head_nonspace (d : str) : bool := match d with x :: _ => negb (is_space x) | [] => false end.
Definition no13 (d : str) : bool := forallb (fun x => negb (x =? 13)) d.

(* spec_go without the removal of the template's final line break (done on the skeleton first) *)
Fixpoint spec_go0 (trim lstrip : bool) (L : ltag) (segs : list seg) : str :=
  match segs with
  | [] => []
  | Text s :: rest =>
      let R := match rest with [] => REnd | g :: _ => rtag_of g end in
      trim_text trim lstrip L R s ++ spec_go0 trim lstrip L rest
  | Var l r :: rest => spec_go0 trim lstrip (LTag false r) rest
  | Raw l1 r1 body l2 r2 :: rest =>
      trim_text false lstrip (LTag false r1) (RTag true l2) body
        ++ spec_go0 trim lstrip (LTag true r2) rest
  | g :: rest => spec_go0 trim lstrip (ltag_of g) rest
  end.

Fixpoint dropf (sk : list seg) : list seg :=
  match sk with
  | [] => []
  | [Text s] => [Text (drop_final_nl s)]
  | g :: r => g :: dropf r
  end.

(* the documented output with or without the removal of the template's final line break *)
Definition spec_trim_k (keep trim lstrip : bool) (sk : list seg) : str :=
  if keep then spec_go0 trim lstrip LStart sk else spec_trim trim lstrip [] sk.

Definition hd_text (sk : list seg) : str := match sk with Text s :: _ => s | _ => [] end.
Definition tl_text (sk : list seg) : list seg := match sk with Text _ :: r => r | _ => sk end.
Definition is_text (g : seg) : bool := match g with Text _ => true | _ => false end.

Section Skel.
  Variable c : cfg.
  Variable txt : N -> bool.
  Let trim := c_trim c.
  Let lstrip := c_lstrip c.
  Let bs := c_bs c. Let be := c_be c. Let vs := c_vs c. Let ve := c_ve c. Let cs := c_cs c. Let ce := c_ce c.

  (* ---------------- the local facts about the configuration *)
  Hypothesis H_cfg_ok : cfg_ok c = true.
  Hypothesis H_txt13 : forall x, txt x = true -> (x =? 13) = false.
  Hypothesis H_no13 : no13 bs && no13 be && no13 vs && no13 ve && no13 cs && no13 ce = true.
  Hypothesis H_be : endstr_ok be = true.
  Hypothesis H_ve : endstr_ok ve = true.
  Hypothesis H_ce : endstr_ok ce = true.
  Hypothesis H_heads : head_nonspace bs && head_nonspace vs && head_nonspace cs && head_nonspace be = true.
  (* delimiter-free text: no alternative of the root rule / of the raw rule starts at a text character *)
  Hypothesis F_fresh : forall prev x w, txt x = true -> root_alts c (compile_rules c) prev (x :: w) = None.
  Hypothesis F_fresh_nil : forall prev, root_alts c (compile_rules c) prev [] = None.
  Hypothesis F_fresh_raw : forall x w, txt x = true -> alt_endraw c (x :: w) = None.
  Hypothesis F_fresh_raw_nil : alt_endraw c [] = None.
  (* what the root rule recognises at the start of each tag *)
  Hypothesis F_block : forall prev l Y,
    root_alts c (compile_rules c) prev (bs ++ md_str l ++ body_block ++ Y) = Some (KBlock, (length bs + length (md_str l))%nat, sign_of l).
  Hypothesis F_comment : forall prev l Y,
    root_alts c (compile_rules c) prev (cs ++ md_str l ++ body_comment ++ Y) = Some (KComment, (length cs + length (md_str l))%nat, sign_of l).
  Hypothesis F_var : forall prev l Y,
    root_alts c (compile_rules c) prev (vs ++ md_str l ++ body_var ++ Y) = Some (KVar, (length vs + length (md_str l))%nat, sign_of l).
  Hypothesis F_raw : forall prev l x Y e, is_space x = false -> end_alts false false be (x :: Y) = Some e ->
    root_alts c (compile_rules c) prev (bs ++ md_str l ++ kw_raw_sp ++ x :: Y) = Some (KRaw, (length bs + length (md_str l) + 5 + e)%nat, sign_of l).
  Hypothesis F_endraw : forall l x Y e, is_space x = false -> end_alts true trim be (x :: Y) = Some e ->
    alt_endraw c (bs ++ md_str l ++ kw_endraw_sp ++ x :: Y) = Some ((length bs + length (md_str l) + 8 + e)%nat, sign_of l).
  (* the inside of the tags *)
  Hypothesis F_block_in : forall r Y prev ls d,
    (forall prev' ls', Lex c SBlock prev' ls' (md_str r ++ be ++ Y) d) ->
    Lex c SBlock prev ls (body_block ++ md_str r ++ be ++ Y) d.
  Hypothesis F_var_in : forall r Y prev ls d,
    (forall prev' ls', Lex c SVar prev' ls' (md_str r ++ ve ++ Y) d) ->
    Lex c SVar prev ls (body_var ++ md_str r ++ ve ++ Y) d.
  Hypothesis F_comment_in : forall r Y n,
    end_alts true trim ce (md_str r ++ ce ++ Y) = Some n ->
    find_end true trim ce (body_comment ++ md_str r ++ ce ++ Y) = Some (3%nat, n).

  (* ---------------- delimiter-free text *)
  Lemma find_tag_fresh : forall T prev U k n sg, forallb txt T = true ->
    (forall prev', root_alts c (compile_rules c) prev' U = Some (k, n, sg)) ->
    find_tag c (compile_rules c) prev (T ++ U) = Some (length T, k, n, sg).
  Proof.
    induction T as [|x T IH]; intros prev U k n sg HT HU.
    - cbn [app length]. destruct U as [|y U']; cbn [find_tag]; rewrite HU; reflexivity.
    - cbn [forallb] in HT. apply andb_true_iff in HT as [Hx HT]. cbn [app find_tag length].
      rewrite (F_fresh prev x (T ++ U) Hx), (IH (Some x) U k n sg HT HU). reflexivity.
  Qed.

  Lemma find_tag_fresh_none : forall T prev, forallb txt T = true -> find_tag c (compile_rules c) prev T = None.
  Proof.
    induction T as [|x T IH]; intros prev HT; cbn [find_tag].
    - rewrite F_fresh_nil. reflexivity.
    - cbn [forallb] in HT. apply andb_true_iff in HT as [Hx HT]. rewrite (F_fresh prev x T Hx), (IH (Some x) HT). reflexivity.
  Qed.

  Lemma find_endraw_fresh : forall B U n sg, forallb txt B = true -> alt_endraw c U = Some (n, sg) ->
    find_endraw c (B ++ U) = Some (length B, n, sg).
  Proof.
    induction B as [|x B IH]; intros U n sg HB HU.
    - cbn [app length]. destruct U as [|y U']; cbn [find_endraw]; rewrite HU; reflexivity.
    - cbn [forallb] in HB. apply andb_true_iff in HB as [Hx HB]. cbn [app find_endraw length].
      rewrite (F_fresh_raw x (B ++ U) Hx), (IH U n sg HB HU). reflexivity.
  Qed.

  (* a final text: one data token *)
  Lemma root_text_end : forall T prev ls, forallb txt T = true -> Lex c SRoot prev ls T T.
  Proof.
    intros T prev ls HT. destruct T as [|x T'].
    - apply Lex_end. intros line pos. cbn [step find_tag]. rewrite F_fresh_nil. reflexivity.
    - remember (x :: T') as T eqn:ET. rewrite <- (app_nil_r T) at 2.
      apply (Lex_step c SRoot prev ls T (length T) SRoot T []).
      + intros line pos. exists [ITok line TData T pos], (line + count_nl T). cbn [step].
        rewrite find_tag_fresh_none by exact HT. rewrite ET at 1. split; [reflexivity|].
        cbn [data_of]. rewrite app_nil_r. apply nl_subst_id.
      + rewrite skipn_all. apply Lex_end. intros line pos. cbn [step find_tag]. rewrite F_fresh_nil. reflexivity.
  Qed.

  (* text ++ tag ++ rest: the first tag found is the one after the delimiter-free text; the
     data emitted for the text is the documented left rule *)
  Lemma root_tag : forall T U k n sg prev ls d, forallb txt T = true ->
    (forall prev', root_alts c (compile_rules c) prev' U = Some (k, n, sg)) ->
    Lex c (state_of k) (prevof prev (T ++ firstn n U)) (lsof (T ++ firstn n U)) (skipn n U) d ->
    Lex c SRoot prev ls (T ++ U) (left_rule lstrip (RTag (negb (is_var k)) (md_of sg)) ls T ++ d).
  Proof.
    intros T U k n sg prev ls d HT HU Hk.
    apply (Lex_step c SRoot prev ls (T ++ U) (length T + n)%nat (state_of k)).
    - intros line pos. cbn [step]. rewrite (find_tag_fresh T prev U k n sg HT HU).
      rewrite firstn_app_len, skipn_app_len.
      destruct (emit_text_tag c sg (is_var k) ls line pos T (firstn n U) (begin_of k)) as [its0 l0] eqn:Ee.
      exists its0, l0. split; [reflexivity|].
      apply (emit_data _ _ _ _ _ _ _ _ _ _ _ Ee). destruct k; discriminate.
    - rewrite skipn_add_app, firstn_add_app. exact Hk.
  Qed.

  (* ---------------- end of a block tag *)
  Lemma block_end : forall r Y prev ls d,
    (forall prev', Lex c SRoot prev' (ls_ctx trim (LTag true r) Y) (right_rule trim (LTag true r) Y) d) ->
    Lex c SBlock prev ls (md_str r ++ be ++ Y) d.
  Proof.
    intros r Y prev ls d H. destruct (end_match trim be r Y H_be) as (n & Hn & Hs & Hl).
    rewrite <- (app_nil_l d).
    apply (Lex_step c SBlock prev ls (md_str r ++ be ++ Y) n SRoot [] d).
    - intros line pos. cbn [step]. unfold step_tag. fold trim be. rewrite Hn.
      eexists. eexists. split; reflexivity.
    - rewrite Hs. specialize (Hl []). cbn [app] in Hl. rewrite Hl. apply H.
  Qed.

  Lemma var_end : forall r Y prev ls d, r <> MPlus ->
    (forall prev', Lex c SRoot prev' (ls_ctx trim (LTag false r) Y) (right_rule trim (LTag false r) Y) d) ->
    Lex c SVar prev ls (md_str r ++ ve ++ Y) d.
  Proof.
    intros r Y prev ls d Hr H. destruct (end_match_var ve r Y H_ve Hr) as (n & Hn & Hs & _ & Hl).
    rewrite <- (app_nil_l d).
    apply (Lex_step c SVar prev ls (md_str r ++ ve ++ Y) n SRoot [] d).
    - intros line pos. cbn [step]. unfold step_tag. fold ve. rewrite Hn.
      eexists. eexists. split; reflexivity.
    - rewrite Hs. specialize (Hl []). cbn [app] in Hl. rewrite Hl.
      replace (ls_ctx false (LTag false r) Y) with (ls_ctx trim (LTag false r) Y) by (destruct r; reflexivity).
      replace (right_rule false (LTag false r) Y) with (right_rule trim (LTag false r) Y) by (destruct r; reflexivity).
      apply H.
  Qed.

  (* ---------------- whole tags after a delimiter-free text *)
  Lemma tag_block : forall T l r Y prev ls d, forallb txt T = true ->
    (forall prev', Lex c SRoot prev' (ls_ctx trim (LTag true r) Y) (right_rule trim (LTag true r) Y) d) ->
    Lex c SRoot prev ls (T ++ bs ++ md_str l ++ body_block ++ md_str r ++ be ++ Y)
        (left_rule lstrip (RTag true l) ls T ++ d).
  Proof.
    intros T l r Y prev ls d HT H.
    pose proof (root_tag T (bs ++ md_str l ++ body_block ++ md_str r ++ be ++ Y) KBlock
                  (length bs + length (md_str l))%nat (sign_of l) prev ls d HT
                  (fun p => F_block p l (md_str r ++ be ++ Y))) as G.
    cbn [is_var negb state_of] in G. rewrite md_of_sign_of in G. apply G.
    rewrite skipn_add_app, skipn_app_len. apply F_block_in. intros prev' ls'. apply block_end. exact H.
  Qed.

  Lemma tag_var : forall T l r Y prev ls d, forallb txt T = true -> r <> MPlus ->
    (forall prev', Lex c SRoot prev' (ls_ctx trim (LTag false r) Y) (right_rule trim (LTag false r) Y) d) ->
    Lex c SRoot prev ls (T ++ vs ++ md_str l ++ body_var ++ md_str r ++ ve ++ Y)
        (left_rule lstrip (RTag false l) ls T ++ d).
  Proof.
    intros T l r Y prev ls d HT Hr H.
    pose proof (root_tag T (vs ++ md_str l ++ body_var ++ md_str r ++ ve ++ Y) KVar
                  (length vs + length (md_str l))%nat (sign_of l) prev ls d HT
                  (fun p => F_var p l (md_str r ++ ve ++ Y))) as G.
    cbn [is_var negb state_of] in G. rewrite md_of_sign_of in G. apply G.
    rewrite skipn_add_app, skipn_app_len. apply F_var_in. intros prev' ls'. apply var_end; assumption.
  Qed.

  Lemma tag_comment : forall T l r Y prev ls d, forallb txt T = true ->
    (forall prev', Lex c SRoot prev' (ls_ctx trim (LTag true r) Y) (right_rule trim (LTag true r) Y) d) ->
    Lex c SRoot prev ls (T ++ cs ++ md_str l ++ body_comment ++ md_str r ++ ce ++ Y)
        (left_rule lstrip (RTag true l) ls T ++ d).
  Proof.
    intros T l r Y prev ls d HT H.
    pose proof (root_tag T (cs ++ md_str l ++ body_comment ++ md_str r ++ ce ++ Y) KComment
                  (length cs + length (md_str l))%nat (sign_of l) prev ls d HT
                  (fun p => F_comment p l (md_str r ++ ce ++ Y))) as G.
    cbn [is_var negb state_of] in G. rewrite md_of_sign_of in G. apply G.
    rewrite skipn_add_app, skipn_app_len.
    destruct (end_match trim ce r Y H_ce) as (n & Hn & Hs & Hl).
    rewrite <- (app_nil_l d).
    apply (Lex_step c SComment _ _ (body_comment ++ md_str r ++ ce ++ Y) (3 + n)%nat SRoot [] d).
    - intros line pos. cbn [step]. fold trim ce. rewrite (F_comment_in r Y n Hn).
      eexists. eexists. split; [reflexivity|].
      rewrite data_of_app. unfold tok_nonempty. destruct (nonempty _); reflexivity.
    - change (3 + n)%nat with (length body_comment + n)%nat. rewrite skipn_add_app, (firstn_add_app body_comment n), Hs, Hl. apply H.
  Qed.

  Lemma head_nonspace_cons : forall d, head_nonspace d = true -> exists x d', d = x :: d' /\ is_space x = false.
  Proof. intros [|x d'] H; [discriminate|]. exists x, d'. split; [reflexivity|]. apply negb_true_iff. exact H. Qed.

  Lemma heads : head_nonspace bs = true /\ head_nonspace vs = true /\ head_nonspace cs = true /\ head_nonspace be = true.
  Proof.
    apply andb_true_iff in H_heads as [H1 H4]. apply andb_true_iff in H1 as [H1 H3]. apply andb_true_iff in H1 as [H1 H2]. auto.
  Qed.

  Lemma md_end_head : forall r (e : str) Z, head_nonspace e = true ->
    exists x Z', md_str r ++ e ++ Z = x :: Z' /\ is_space x = false.
  Proof.
    intros r e Z He. destruct r; cbn [md_str app]; [|eexists; eexists; split; reflexivity|eexists; eexists; split; reflexivity].
    destruct (head_nonspace_cons e He) as (x & e' & -> & Hx). exists x, (e' ++ Z). split; [reflexivity|exact Hx].
  Qed.

  (* raw block *)
  Lemma tag_raw : forall T l1 r1 body l2 r2 Y prev ls d, forallb txt T = true -> forallb txt body = true -> r1 <> MPlus ->
    (forall prev', Lex c SRoot prev' (ls_ctx trim (LTag true r2) Y) (right_rule trim (LTag true r2) Y) d) ->
    Lex c SRoot prev ls
        (T ++ bs ++ md_str l1 ++ kw_raw_sp ++ md_str r1 ++ be ++ body ++ bs ++ md_str l2 ++ kw_endraw_sp ++ md_str r2 ++ be ++ Y)
        (left_rule lstrip (RTag true l1) ls T ++ trim_text false lstrip (LTag false r1) (RTag true l2) body ++ d).
  Proof.
    intros T l1 r1 body l2 r2 Y prev ls d HT HB Hr1 H.
    destruct heads as (Hbs & _ & _ & Hbe).
    set (E := bs ++ md_str l2 ++ kw_endraw_sp ++ md_str r2 ++ be ++ Y).
    assert (HE : tagstart E).
    { right. destruct (head_nonspace_cons bs Hbs) as (x & b' & Hb & Hx). unfold E. rewrite Hb.
      exists x, (b' ++ md_str l2 ++ kw_endraw_sp ++ md_str r2 ++ be ++ Y). split; [reflexivity|exact Hx]. }
    (* the raw_begin match *)
    destruct (end_match_var be r1 (body ++ E) H_be Hr1) as (n1 & Hn1 & Hs1 & _ & Hl1).
    destruct (md_end_head r1 be (body ++ E) Hbe) as (x1 & Z1 & HZ1 & Hx1).
    assert (Fr : forall p, root_alts c (compile_rules c) p (bs ++ md_str l1 ++ kw_raw_sp ++ md_str r1 ++ be ++ body ++ E)
                 = Some (KRaw, (length bs + length (md_str l1) + 5 + n1)%nat, sign_of l1)).
    { intros p. rewrite HZ1. apply F_raw; [exact Hx1|]. rewrite <- HZ1. exact Hn1. }
    pose proof (root_tag T _ KRaw _ (sign_of l1) prev ls
                  (trim_text false lstrip (LTag false r1) (RTag true l2) body ++ d) HT Fr) as G.
    cbn [is_var negb state_of] in G. rewrite md_of_sign_of in G. apply G. clear G Fr.
    (* state raw: remaining source and flag *)
    replace (length bs + length (md_str l1) + 5 + n1)%nat
      with (length bs + (length (md_str l1) + (length kw_raw_sp + n1)))%nat by (unfold kw_raw_sp; cbn [length]; lia).
    rewrite !skipn_add_app, !firstn_add_app, Hs1.
    replace (T ++ bs ++ md_str l1 ++ kw_raw_sp ++ firstn n1 (md_str r1 ++ be ++ body ++ E))
      with ((T ++ bs ++ md_str l1 ++ kw_raw_sp) ++ firstn n1 (md_str r1 ++ be ++ body ++ E))
      by (rewrite <- !app_assoc; reflexivity).
    rewrite Hl1, right_rule_app_tagstart, ls_ctx_app_tagstart by exact HE.
    set (B := right_rule false (LTag false r1) body).
    assert (HBf : forallb txt B = true) by (apply forallb_right_rule; exact HB).
    (* the endraw match *)
    destruct (end_match trim be r2 Y H_be) as (n2 & Hn2 & Hs2 & Hl2).
    destruct (md_end_head r2 be Y Hbe) as (x2 & Z2 & HZ2 & Hx2).
    assert (Fe : alt_endraw c E = Some ((length bs + length (md_str l2) + 8 + n2)%nat, sign_of l2)).
    { unfold E. rewrite HZ2. apply F_endraw; [exact Hx2|]. rewrite <- HZ2. exact Hn2. }
    apply (Lex_step c SRaw _ _ (B ++ E) (length B + (length bs + length (md_str l2) + 8 + n2))%nat SRoot).
    - intros line pos. cbn [step]. rewrite (find_endraw_fresh B E _ _ HBf Fe).
      rewrite firstn_app_len, skipn_app_len.
      destruct (emit_text_tag c (sign_of l2) false (ls_ctx false (LTag false r1) body) line pos B
                  (firstn (length bs + length (md_str l2) + 8 + n2) E) TRawEnd) as [its0 l0] eqn:Ee.
      exists its0, l0. split; [reflexivity|].
      rewrite (emit_data _ _ _ _ _ _ _ _ _ _ _ Ee) by discriminate. cbn [negb]. rewrite md_of_sign_of.
      fold lstrip. unfold B. rewrite rules_commute. reflexivity.
    - rewrite skipn_add_app, firstn_add_app. unfold E.
      replace (length bs + length (md_str l2) + 8 + n2)%nat
        with (length bs + (length (md_str l2) + (length kw_endraw_sp + n2)))%nat by (unfold kw_endraw_sp; cbn [length]; lia).
      rewrite !skipn_add_app, !firstn_add_app, Hs2.
      replace (B ++ bs ++ md_str l2 ++ kw_endraw_sp ++ firstn n2 (md_str r2 ++ be ++ Y))
        with ((B ++ bs ++ md_str l2 ++ kw_endraw_sp) ++ firstn n2 (md_str r2 ++ be ++ Y))
        by (rewrite <- !app_assoc; reflexivity).
      rewrite Hl2. apply H.
  Qed.

  (* ---------------- the induction over the segments *)
  Definition tagfirst (sk : list seg) : bool := match sk with Text _ :: _ => false | _ => true end.

  Lemma unparse_hd_tl : forall sk, unparse c sk = hd_text sk ++ unparse c (tl_text sk).
  Proof. intros [|[s|l r|l r|l r|l1 r1 b l2 r2] rest]; reflexivity. Qed.

  Lemma tagstart_unparse : forall sk, tagfirst sk = true -> tagstart (unparse c sk).
  Proof.
    intros sk H. destruct heads as (Hbs & Hvs & Hcs & _). destruct sk as [|g rest]; [left; reflexivity|]. right.
    destruct g as [s|l r|l r|l r|l1 r1 b l2 r2]; [discriminate| | | |]; unfold unparse; cbn [flat_map unparse_seg].
    - destruct (head_nonspace_cons bs Hbs) as (x & d' & Hd & Hx). fold bs. rewrite Hd. eexists; eexists; split; [reflexivity|exact Hx].
    - destruct (head_nonspace_cons cs Hcs) as (x & d' & Hd & Hx). fold cs. rewrite Hd. eexists; eexists; split; [reflexivity|exact Hx].
    - destruct (head_nonspace_cons vs Hvs) as (x & d' & Hd & Hx). fold vs. rewrite Hd. eexists; eexists; split; [reflexivity|exact Hx].
    - destruct (head_nonspace_cons bs Hbs) as (x & d' & Hd & Hx). fold bs. rewrite Hd. eexists; eexists; split; [reflexivity|exact Hx].
  Qed.

  Lemma wf_cons : forall g rest, skel_wf txt (g :: rest) = true ->
    seg_wf txt g = true /\ skel_wf txt rest = true /\ (is_text g = true -> tagfirst rest = true).
  Proof.
    intros g rest H. unfold skel_wf in *. cbn [forallb] in H. apply andb_true_iff in H as [H1 H2].
    apply andb_true_iff in H1 as [Hg Hr]. split; [exact Hg|].
    destruct g as [s|l r|l r|l r|l1 r1 b l2 r2]; cbn [no_adjacent_text] in H2.
    - destruct rest as [|[s2|? ?|? ?|? ?|? ? ? ? ?] r2]; try discriminate; (split; [rewrite Hr, H2; reflexivity|reflexivity]).
    - split; [rewrite Hr, H2; reflexivity|discriminate].
    - split; [rewrite Hr, H2; reflexivity|discriminate].
    - split; [rewrite Hr, H2; reflexivity|discriminate].
    - split; [rewrite Hr, H2; reflexivity|discriminate].
  Qed.

  Lemma tagfirst_tl_text : forall sk, skel_wf txt sk = true -> tagfirst (tl_text sk) = true.
  Proof.
    intros [|g rest] H; [reflexivity|]. apply wf_cons in H as (_ & _ & Ht).
    destruct g; try reflexivity. cbn [tl_text]. apply Ht. reflexivity.
  Qed.

  Lemma right_rule_nil : forall L, right_rule trim L [] = [].
  Proof. intros [|[] []]; try reflexivity; destruct trim; reflexivity. Qed.

  (* the state in which the lexer reaches the segments sk after the tag L on their left *)
  Definition reach (L : ltag) (sk : list seg) : Prop :=
    forall prev, Lex c SRoot prev (ls_ctx trim L (hd_text sk))
                     (right_rule trim L (hd_text sk) ++ unparse c (tl_text sk)) (spec_go0 trim lstrip L sk).

  Lemma reach_cont : forall L sk, skel_wf txt sk = true -> reach L sk ->
    forall prev, Lex c SRoot prev (ls_ctx trim L (unparse c sk)) (right_rule trim L (unparse c sk)) (spec_go0 trim lstrip L sk).
  Proof.
    intros L sk Hwf H prev. rewrite unparse_hd_tl.
    pose proof (tagstart_unparse _ (tagfirst_tl_text sk Hwf)) as HU.
    rewrite right_rule_app_tagstart, ls_ctx_app_tagstart by exact HU. apply H.
  Qed.

  (* one tag after a delimiter-free text *)
  Lemma tag_step : forall T ls g rest L0 prev,
    forallb txt T = true -> is_text g = false -> seg_wf txt g = true -> skel_wf txt rest = true ->
    (forall L, reach L rest) ->
    Lex c SRoot prev ls (T ++ unparse_seg c g ++ unparse c rest)
        (left_rule lstrip (rtag_of g) ls T ++ spec_go0 trim lstrip L0 (g :: rest)).
  Proof.
    intros T ls g rest L0 prev HT Hg Hwf Hrest IH.
    destruct g as [s|l r|l r|l r|l1 r1 b l2 r2]; [discriminate| | | |]; cbn [unparse_seg rtag_of spec_go0 ltag_of].
    - rewrite <- !app_assoc. apply tag_block; [exact HT|]. intros prev'. apply reach_cont; [exact Hrest|apply IH].
    - rewrite <- !app_assoc. apply tag_comment; [exact HT|]. intros prev'. apply reach_cont; [exact Hrest|apply IH].
    - rewrite <- !app_assoc. cbn [seg_wf] in Hwf. apply tag_var; [exact HT|destruct r; [discriminate|discriminate|discriminate]|].
      intros prev'. apply reach_cont; [exact Hrest|apply IH].
    - rewrite <- !app_assoc. cbn [seg_wf] in Hwf.
      assert (Hr1 : r1 <> MPlus) by (destruct r1; [discriminate|discriminate|discriminate]).
      assert (Hb : forallb txt b = true) by (destruct r1; [exact Hwf|exact Hwf|discriminate]).
      apply tag_raw; [exact HT|exact Hb|exact Hr1|]. intros prev'. apply reach_cont; [exact Hrest|apply IH].
  Qed.

  Lemma skel_reach : forall n sk, (length sk <= n)%nat -> skel_wf txt sk = true -> forall L, reach L sk.
  Proof.
    induction n as [|n IH]; intros sk Hlen Hwf L prev.
    - destruct sk; [|cbn in Hlen; lia]. cbn [hd_text tl_text spec_go0]. rewrite right_rule_nil. apply root_text_end. reflexivity.
    - destruct sk as [|g rest].
      + cbn [hd_text tl_text spec_go0]. rewrite right_rule_nil. apply root_text_end. reflexivity.
      + pose proof (wf_cons _ _ Hwf) as (Hg & Hrest & Htf). cbn [length] in Hlen.
        destruct (is_text g) eqn:Eg.
        * destruct g as [s| | | |]; try discriminate. cbn [hd_text tl_text seg_wf] in *.
          assert (HT : forallb txt (right_rule trim L s) = true) by (apply forallb_right_rule; exact Hg).
          destruct rest as [|g2 rest2].
          -- cbn [spec_go0 unparse flat_map]. rewrite !app_nil_r.
             replace (trim_text trim lstrip L REnd s) with (right_rule trim L s) by reflexivity.
             apply root_text_end. exact HT.
          -- specialize (Htf eq_refl). pose proof (wf_cons _ _ Hrest) as (Hg2 & Hrest2 & _).
             assert (Eg2 : is_text g2 = false) by (destruct g2; [discriminate| | | |]; reflexivity).
             cbn [spec_go0]. change (unparse c (g2 :: rest2)) with (unparse_seg c g2 ++ unparse c rest2).
             replace (trim_text trim lstrip L (rtag_of g2) s)
               with (left_rule lstrip (rtag_of g2) (ls_ctx trim L s) (right_rule trim L s))
               by (rewrite rules_commute; reflexivity).
             apply tag_step; try assumption. intros L'. apply IH; [cbn [length] in Hlen; lia|exact Hrest2].
        * assert (Hh : hd_text (g :: rest) = []) by (destruct g; [discriminate| | | |]; reflexivity).
          assert (Ht : tl_text (g :: rest) = g :: rest) by (destruct g; [discriminate| | | |]; reflexivity).
          rewrite Hh, Ht, right_rule_nil. cbn [app].
          change (unparse c (g :: rest)) with (unparse_seg c g ++ unparse c rest).
          pose proof (tag_step [] (ls_ctx trim L []) g rest L prev eq_refl Eg Hg Hrest) as G.
          rewrite left_rule_nil in G. cbn [app] in G. apply G.
          intros L'. apply IH; [lia|exact Hrest].
  Qed.

  (* ---------------- normalisation of the template text *)
  Lemma drop_final_is_drop_last : forall s, drop_final_nl s = drop_last_nl s.
  Proof. induction s as [|x r IH]; [reflexivity|]. destruct r as [|y r']; [reflexivity|].
    change (drop_final_nl (x :: y :: r')) with (x :: drop_final_nl (y :: r')).
    change (drop_last_nl (x :: y :: r')) with (x :: drop_last_nl (y :: r')). rewrite IH. reflexivity. Qed.

  Lemma drop_last_nl_app : forall a b, b <> [] -> drop_last_nl (a ++ b) = a ++ drop_last_nl b.
  Proof.
    induction a as [|x a IH]; intros b Hb; [reflexivity|]. cbn [app].
    destruct (a ++ b) as [|y l] eqn:E; [apply app_eq_nil in E as [_ ->]; contradiction|].
    change (drop_last_nl (x :: y :: l)) with (x :: drop_last_nl (y :: l)). rewrite <- E, IH by exact Hb. reflexivity.
  Qed.

  Lemma drop_last_nl_id : forall s, lsof s = false -> drop_last_nl s = s.
  Proof.
    induction s as [|x r IH]; intros H; [reflexivity|]. destruct r as [|y r'].
    - unfold lsof in H. cbn [last_opt] in H. cbn [drop_last_nl]. rewrite H. reflexivity.
    - change (drop_last_nl (x :: y :: r')) with (x :: drop_last_nl (y :: r')). rewrite IH; [reflexivity|exact H].
  Qed.

  Lemma lsof_end : forall X e, endstr_ok e = true -> lsof (X ++ e) = false.
  Proof. intros X e He. rewrite <- (app_nil_r e), lsof_pre_end by exact He. reflexivity. Qed.

  Lemma lsof_tag : forall g, is_text g = false -> lsof (unparse_seg c g) = false.
  Proof.
    intros [s|l r|l r|l r|l1 r1 b l2 r2] H; [discriminate| | | |]; cbn [unparse_seg].
    - rewrite !app_assoc. apply lsof_end. exact H_be.
    - rewrite !app_assoc. apply lsof_end. exact H_ce.
    - rewrite !app_assoc. apply lsof_end. exact H_ve.
    - rewrite !app_assoc. apply lsof_end. exact H_be.
  Qed.

  Lemma unparse_dropf : forall sk, skel_wf txt sk = true -> drop_last_nl (unparse c sk) = unparse c (dropf sk).
  Proof.
    induction sk as [|g rest IH]; intros Hwf; [reflexivity|].
    pose proof (wf_cons _ _ Hwf) as (Hg & Hrest & Htf).
    destruct rest as [|g2 rest2].
    - destruct g as [s| | | |].
      + cbn [dropf unparse flat_map unparse_seg]. rewrite !app_nil_r. symmetry. apply drop_final_is_drop_last.
      + unfold unparse. cbn [dropf flat_map]. rewrite app_nil_r. apply drop_last_nl_id, lsof_tag. reflexivity.
      + unfold unparse. cbn [dropf flat_map]. rewrite app_nil_r. apply drop_last_nl_id, lsof_tag. reflexivity.
      + unfold unparse. cbn [dropf flat_map]. rewrite app_nil_r. apply drop_last_nl_id, lsof_tag. reflexivity.
      + unfold unparse. cbn [dropf flat_map]. rewrite app_nil_r. apply drop_last_nl_id, lsof_tag. reflexivity.
    - assert (Hd : dropf (g :: g2 :: rest2) = g :: dropf (g2 :: rest2)) by (destruct g; reflexivity).
      rewrite Hd. change (unparse c (g :: g2 :: rest2)) with (unparse_seg c g ++ unparse c (g2 :: rest2)).
      change (unparse c (g :: dropf (g2 :: rest2))) with (unparse_seg c g ++ unparse c (dropf (g2 :: rest2))).
      rewrite <- (IH Hrest).
      destruct (unparse c (g2 :: rest2)) as [|y l] eqn:E.
      + (* the rest prints nothing: it is an empty final text, so g is a tag *)
        rewrite app_nil_r. cbn [drop_last_nl]. rewrite app_nil_r.
        assert (Eg : is_text g = false).
        { destruct g as [s| | | |]; try reflexivity. specialize (Htf eq_refl).
          pose proof (tagstart_unparse (g2 :: rest2) Htf) as Hts. rewrite E in Hts.
          exfalso. destruct g2; [discriminate| | | |];
            destruct heads as (Hbs & Hvs & Hcs & _); unfold unparse in E; cbn [flat_map unparse_seg] in E;
            [destruct (head_nonspace_cons bs Hbs) as (x & d' & Hdd & _); fold bs in E; rewrite Hdd in E; discriminate
            |destruct (head_nonspace_cons cs Hcs) as (x & d' & Hdd & _); fold cs in E; rewrite Hdd in E; discriminate
            |destruct (head_nonspace_cons vs Hvs) as (x & d' & Hdd & _); fold vs in E; rewrite Hdd in E; discriminate
            |destruct (head_nonspace_cons bs Hbs) as (x & d' & Hdd & _); fold bs in E; rewrite Hdd in E; discriminate]. }
        apply drop_last_nl_id, lsof_tag. exact Eg.
      + apply drop_last_nl_app. discriminate.
  Qed.

  Lemma wf_dropf : forall sk, skel_wf txt sk = true -> skel_wf txt (dropf sk) = true.
  Proof.
    induction sk as [|g rest IH]; intros Hwf; [reflexivity|].
    pose proof (wf_cons _ _ Hwf) as (Hg & Hrest & Htf). specialize (IH Hrest).
    destruct rest as [|g2 rest2].
    - destruct g as [s| | | |]; try exact Hwf. unfold skel_wf. cbn [dropf forallb seg_wf no_adjacent_text].
      rewrite andb_true_r, andb_true_r. cbn [seg_wf] in Hg. rewrite drop_final_is_drop_last.
      clear -Hg. induction s as [|x r IHs]; [reflexivity|]. destruct r as [|y r'].
      * cbn [drop_last_nl]. destruct (x =? 10); [reflexivity|exact Hg].
      * change (drop_last_nl (x :: y :: r')) with (x :: drop_last_nl (y :: r')). cbn [forallb] in *.
        apply andb_true_iff in Hg as [H1 H2]. rewrite H1. cbn [andb]. apply IHs. exact H2.
    - assert (Hd : dropf (g :: g2 :: rest2) = g :: dropf (g2 :: rest2)) by (destruct g; reflexivity).
      rewrite Hd. unfold skel_wf in *. cbn [forallb]. rewrite Hg. cbn [andb].
      apply andb_true_iff in IH as [I1 I2]. rewrite I1. cbn [andb].
      destruct g as [s| | | |]; cbn [no_adjacent_text]; try exact I2.
      specialize (Htf eq_refl).
      assert (Hh : exists g3 r3, dropf (g2 :: rest2) = g3 :: r3 /\ is_text g3 = false).
      { destruct g2; [discriminate| | | |]; (destruct rest2; eexists; eexists; split; reflexivity). }
      destruct Hh as (g3 & r3 & E3 & Hg3). rewrite E3 in *. destruct g3; [discriminate| | | |]; exact I2.
  Qed.

  Lemma spec_go_dropf : forall sk L, spec_go trim lstrip [] L sk = spec_go0 trim lstrip L (dropf sk).
  Proof.
    induction sk as [|g rest IH]; intros L; [reflexivity|].
    destruct rest as [|g2 rest2].
    - destruct g; reflexivity.
    - assert (Hd : dropf (g :: g2 :: rest2) = g :: dropf (g2 :: rest2)) by (destruct g; reflexivity).
      rewrite Hd.
      assert (Hr : match dropf (g2 :: rest2) with [] => REnd | g3 :: _ => rtag_of g3 end = rtag_of g2).
      { destruct g2; destruct rest2; reflexivity. }
      destruct (dropf (g2 :: rest2)) as [|g3 r3] eqn:E; [destruct g2; destruct rest2; discriminate|].
      destruct g as [s|l r|l r|l r|l1 r1 b l2 r2].
      + change (spec_go trim lstrip [] L (Text s :: g2 :: rest2))
          with (trim_text trim lstrip L (rtag_of g2) s ++ spec_go trim lstrip [] L (g2 :: rest2)).
        change (spec_go0 trim lstrip L (Text s :: g3 :: r3))
          with (trim_text trim lstrip L (rtag_of g3) s ++ spec_go0 trim lstrip L (g3 :: r3)).
        rewrite Hr, IH. reflexivity.
      + change (spec_go trim lstrip [] L (Block l r :: g2 :: rest2)) with (spec_go trim lstrip [] (LTag true r) (g2 :: rest2)).
        change (spec_go0 trim lstrip L (Block l r :: g3 :: r3)) with (spec_go0 trim lstrip (LTag true r) (g3 :: r3)).
        rewrite IH. reflexivity.
      + change (spec_go trim lstrip [] L (Comment l r :: g2 :: rest2)) with (spec_go trim lstrip [] (LTag true r) (g2 :: rest2)).
        change (spec_go0 trim lstrip L (Comment l r :: g3 :: r3)) with (spec_go0 trim lstrip (LTag true r) (g3 :: r3)).
        rewrite IH. reflexivity.
      + change (spec_go trim lstrip [] L (Var l r :: g2 :: rest2)) with (spec_go trim lstrip [] (LTag false r) (g2 :: rest2)).
        change (spec_go0 trim lstrip L (Var l r :: g3 :: r3)) with (spec_go0 trim lstrip (LTag false r) (g3 :: r3)).
        rewrite IH. reflexivity.
      + change (spec_go trim lstrip [] L (Raw l1 r1 b l2 r2 :: g2 :: rest2))
          with (trim_text false lstrip (LTag false r1) (RTag true l2) b ++ spec_go trim lstrip [] (LTag true r2) (g2 :: rest2)).
        change (spec_go0 trim lstrip L (Raw l1 r1 b l2 r2 :: g3 :: r3))
          with (trim_text false lstrip (LTag false r1) (RTag true l2) b ++ spec_go0 trim lstrip (LTag true r2) (g3 :: r3)).
        rewrite IH. reflexivity.
  Qed.

  Lemma no13_unparse : forall sk, forallb (seg_wf txt) sk = true -> forallb (fun x => negb (x =? 13)) (unparse c sk) = true.
  Proof.
    assert (Ht : forall s, forallb txt s = true -> forallb (fun x => negb (x =? 13)) s = true).
    { induction s as [|x r IHs]; intros H; [reflexivity|]. cbn [forallb] in *. apply andb_true_iff in H as [H1 H2].
      rewrite (H_txt13 x H1). cbn. apply IHs. exact H2. }
    apply andb_true_iff in H_no13 as [N5 Nce]. apply andb_true_iff in N5 as [N4 Ncs]. apply andb_true_iff in N4 as [N3 Nve].
    apply andb_true_iff in N3 as [N2 Nvs]. apply andb_true_iff in N2 as [Nbs Nbe]. unfold no13 in *.
    assert (Hm : forall m, forallb (fun x => negb (x =? 13)) (md_str m) = true) by (destruct m; reflexivity).
    induction sk as [|g rest IH]; intros H; [reflexivity|]. cbn [forallb] in H. apply andb_true_iff in H as [Hg Hr].
    change (unparse c (g :: rest)) with (unparse_seg c g ++ unparse c rest). rewrite forallb_app, (IH Hr), andb_true_r.
    destruct g as [s|l r|l r|l r|l1 r1 b l2 r2]; cbn [unparse_seg seg_wf] in *.
    - apply Ht. exact Hg.
    - rewrite !forallb_app. fold bs be. rewrite Nbs, Nbe, !Hm. reflexivity.
    - rewrite !forallb_app. fold cs ce. rewrite Ncs, Nce, !Hm. reflexivity.
    - rewrite !forallb_app. fold vs ve. rewrite Nvs, Nve, !Hm. reflexivity.
    - rewrite !forallb_app. fold bs be. rewrite Nbs, Nbe, !Hm.
      assert (Hb : forallb txt b = true) by (destruct r1; [exact Hg|exact Hg|discriminate]).
      rewrite (Ht b Hb). reflexivity.
  Qed.

  (* ---------------- the theorem *)
  Lemma nl_subst_app : forall seq a b, nl_subst seq (a ++ b) = nl_subst seq a ++ nl_subst seq b.
  Proof.
    intros seq a b. induction a as [|x a IH]; [reflexivity|]. cbn [app nl_subst].
    destruct (x =? 10); rewrite IH; [rewrite app_assoc|]; reflexivity.
  Qed.

  Lemma data_of_seq : forall seq its, data_of seq its = nl_subst seq (data_of [10] its).
  Proof.
    intros seq its. induction its as [|i r IH]; [reflexivity|].
    destruct i as [ln ty v p|g w]; cbn [data_of]; [|exact IH].
    destruct ty; try exact IH. rewrite nl_subst_app, nl_subst_id, IH. reflexivity.
  Qed.

  Lemma Lex_run : forall s d, Lex c SRoot None true s d ->
    exists its, tokeniter_norm c s = LexOk its /\ data_of [10] its = d.
  Proof.
    intros s d HL. destruct (HL 1 0) as (f & its & Hrun & Hd). exists its. split; [|exact Hd]. unfold tokeniter_norm.
    destruct (run c (compile_rules c) (fuel_for s) SRoot [] 1 0 None true s) as [its' e'] eqn:Er.
    destruct (cfg_ok_rules c H_cfg_ok) as (Hr & Hb).
    assert (He' : e' <> EFuel).
    { intros ->. eapply run_fuel; [exact Hr|exact Hb| |exact Er]. unfold mu, fuel_for. lia. }
    pose proof (run_mono _ _ _ (Nat.max f (fuel_for s)) _ _ _ _ _ _ _ _ _ (Nat.le_max_l _ _) Hrun ltac:(discriminate)) as R1.
    pose proof (run_mono _ _ _ (Nat.max f (fuel_for s)) _ _ _ _ _ _ _ _ _ (Nat.le_max_r _ _) Er He') as R2.
    rewrite R1 in R2. injection R2 as <- <-. reflexivity.
  Qed.

  (* every skeleton, every newline_sequence, both keep_trailing_newline settings *)
  Theorem skel_render : forall sk, skel_wf txt sk = true ->
    render_data c (unparse c sk) = Some (nl_subst (c_nlseq c) (spec_trim_k (c_keep c) trim lstrip sk)).
  Proof.
    intros sk Hwf. unfold render_data, tokeniter, normalize.
    assert (Hseg : forallb (seg_wf txt) sk = true) by (unfold skel_wf in Hwf; apply andb_true_iff in Hwf as [H _]; exact H).
    rewrite (nl_replace_fix _ (no13_unparse sk Hseg)). unfold spec_trim_k. destruct (c_keep c).
    - pose proof (skel_reach (length sk) sk (le_n _) Hwf LStart None) as HL.
      cbn [ls_ctx right_rule] in HL. rewrite <- unparse_hd_tl in HL.
      destruct (Lex_run _ _ HL) as (its & -> & Hd). rewrite data_of_seq, Hd. reflexivity.
    - rewrite (unparse_dropf sk Hwf).
      pose proof (skel_reach (length (dropf sk)) (dropf sk) (le_n _) (wf_dropf sk Hwf) LStart None) as HL.
      cbn [ls_ctx right_rule] in HL. rewrite <- unparse_hd_tl in HL.
      destruct (Lex_run _ _ HL) as (its & -> & Hd). rewrite data_of_seq, Hd.
      unfold spec_trim. rewrite spec_go_dropf. reflexivity.
  Qed.
End Skel.
