(* Lemmas for C18: in the evaluation of a gated target every invocation of a callable is
   immediately preceded by a positive safety check of the same callable, and a negative check
   ends the evaluation with SecurityError. *)
From Coq Require Import List Bool String.
Import ListNotations.
From JV Require Import Model.SbxGen Model.SbxCall.
Open Scope list_scope.

(* a partial is refused as soon as anything it (transitively) wraps, or the partial itself, is marked *)
Lemma wcallable_refused : forall w c, In c (w_runs w) -> is_safe_callable_default c = false -> is_safe_wcallable w = false.
Proof.
  intros w c. induction w as [c0|own inner IH]; intros Hin Hc; cbn in *.
  - destruct Hin as [->|[]]. exact Hc.
  - destruct Hin as [->|Hin]; [rewrite Hc; apply andb_false_r|rewrite (IH Hin Hc); reflexivity].
Qed.

(* ---- induction principle for the nested inductive [texpr] *)
Definition OptT (P : texpr -> Prop) (o : option texpr) : Prop := match o with Some x => P x | None => True end.

Section TexprInd.
  Variable P : texpr -> Prop.
  Hypothesis HVar : forall n, P (TVar n).
  Hypothesis HConst : forall c, P (TConst c).
  Hypothesis HGa : forall e a, P e -> P (TEnvGetattr e a).
  Hypothesis HGi : forall e i, P e -> P i -> P (TEnvGetitem e i).
  Hypothesis HSl : forall e lo hi st, P e -> OptT P lo -> OptT P hi -> OptT P st -> P (TSlice e lo hi st).
  Hypothesis HEnvCall : forall f args kw star dstar, P f -> Forall P args -> Forall (fun p => P (snd p)) kw ->
    OptT P star -> OptT P dstar -> P (TEnvCall f args kw star dstar).
  Hypothesis HCtxCall : forall f args kw star dstar, P f -> Forall P args -> Forall (fun p => P (snd p)) kw ->
    OptT P star -> OptT P dstar -> P (TCtxCall f args kw star dstar).
  Hypothesis HFilter : forall n e args kw, P e -> Forall P args -> Forall (fun p => P (snd p)) kw -> P (TFilter n e args kw).
  Hypothesis HTest : forall n e args, P e -> Forall P args -> P (TTest n e args).
  Hypothesis HOp : forall op es, Forall P es -> P (TOp op es).
  Hypothesis HAwait : forall e, P e -> P (TAwait e).
  Hypothesis HRawAttr : forall e a, P e -> P (TRawAttr e a).
  Hypothesis HRawSub : forall e i, P e -> P i -> P (TRawSub e i).
  Hypothesis HDirect : forall f args, P f -> Forall P args -> P (TDirectCall f args).

  Fixpoint texpr_ind' (t : texpr) : P t :=
    let many := fix many (l : list texpr) : Forall P l :=
      match l with [] => Forall_nil P | x :: r => Forall_cons x (texpr_ind' x) (many r) end in
    let manykw := fix manykw (l : list (string * texpr)) : Forall (fun p => P (snd p)) l :=
      match l with
      | [] => Forall_nil _
      | p :: r => Forall_cons p (match p return P (snd p) with (k, v) => texpr_ind' v end) (manykw r)
      end in
    let opt := fun (o : option texpr) => match o return OptT P o with Some x => texpr_ind' x | None => I end in
    match t with
    | TVar n => HVar n
    | TConst c => HConst c
    | TEnvGetattr e a => HGa e a (texpr_ind' e)
    | TEnvGetitem e i => HGi e i (texpr_ind' e) (texpr_ind' i)
    | TSlice e lo hi st => HSl e lo hi st (texpr_ind' e) (opt lo) (opt hi) (opt st)
    | TEnvCall f args kw star dstar => HEnvCall f args kw star dstar (texpr_ind' f) (many args) (manykw kw) (opt star) (opt dstar)
    | TCtxCall f args kw star dstar => HCtxCall f args kw star dstar (texpr_ind' f) (many args) (manykw kw) (opt star) (opt dstar)
    | TFilter n e args kw => HFilter n e args kw (texpr_ind' e) (many args) (manykw kw)
    | TTest n e args => HTest n e args (texpr_ind' e) (many args)
    | TOp op es => HOp op es (many es)
    | TAwait e => HAwait e (texpr_ind' e)
    | TRawAttr e a => HRawAttr e a (texpr_ind' e)
    | TRawSub e i => HRawSub e i (texpr_ind' e) (texpr_ind' i)
    | TDirectCall f args => HDirect f args (texpr_ind' f) (many args)
    end.
End TexprInd.

Section Sound.
  Variable policy : callable -> bool.
  Variable invoke_result : callable -> list cval -> cval.
  Variable format_result : callable -> list cval -> cval.
  Variable env : string -> cval.
  Variable attr_of : cval -> string -> cval.
  Variable item_of : list cval -> cval.
  Variable filter_res : string -> list cval -> cval.
  Variable test_res : string -> list cval -> cval.
  Variable op_res : string -> list cval -> cval.

  Notation ev := (eval policy invoke_result format_result env attr_of item_of filter_res test_res op_res).
  Notation scall := (sandbox_call policy invoke_result format_result).

  (* a log of completed gated calls: check-true immediately followed by the invocation — a
     native invocation only of something that is not a bound str.format; a bound str.format is
     run by the sandboxed formatter instead *)
  Inductive passes : list event -> Prop :=
    | passes_nil : passes []
    | passes_cons : forall c r, policy c = true -> c_format c = false -> passes r ->
        passes (EvCheck c true :: EvInvoke c :: r)
    | passes_fmt : forall c r, policy c = true -> passes r -> passes (EvCheck c true :: EvFormat c :: r)
    | passes_wrap : forall c r, passes r -> passes (EvFormat c :: r).

  (* a log of an evaluation: completed gated calls, optionally ended by a refused check *)
  Inductive ok_log : list event -> Prop :=
    | ok_passes : forall l, passes l -> ok_log l
    | ok_refused : forall l c, passes l -> policy c = false -> ok_log (l ++ [EvCheck c false]).

  Definition good (r : res) : Prop :=
    match snd r with
    | OVal _ => passes (fst r)
    | OSecurityError => ok_log (fst r)
    | OOtherError => passes (fst r)
    end.

  Definition good_seq (s : list event * (list cval + outcome)) : Prop :=
    match snd s with
    | inl _ => passes (fst s)
    | inr (OVal _) => False
    | inr OSecurityError => ok_log (fst s)
    | inr OOtherError => passes (fst s)
    end.

  Lemma passes_app : forall a b, passes a -> passes b -> passes (a ++ b).
  Proof.
    intros a b Ha Hb. induction Ha as [|c r Hc Hf _ IH|c r Hc _ IH|c r _ IH]; [exact Hb| | |]; cbn.
    - apply passes_cons; assumption.
    - apply passes_fmt; assumption.
    - apply passes_wrap; assumption.
  Qed.

  Lemma ok_log_app : forall a b, passes a -> ok_log b -> ok_log (a ++ b).
  Proof.
    intros a b Ha Hb. destruct Hb as [l Hl|l c Hl Hc].
    - apply ok_passes. apply passes_app; assumption.
    - rewrite app_assoc. apply ok_refused; [apply passes_app; assumption|exact Hc].
  Qed.

  Lemma seq_good : forall rs, Forall good rs -> good_seq (seq rs).
  Proof.
    intros rs H. induction H as [|[l o] r Hx _ IH]; [exact passes_nil|].
    unfold good in Hx. cbn [fst snd] in Hx. cbn [seq].
    destruct o as [v| |].
    - destruct (seq r) as [l' [vs|e]] eqn:Es; unfold good_seq in *; cbn [fst snd] in *.
      + apply passes_app; assumption.
      + destruct e; [exact IH|apply ok_log_app; assumption|apply passes_app; assumption].
    - exact Hx.
    - exact Hx.
  Qed.

  Lemma pure_good : forall s f, good_seq s -> good (pure s f).
  Proof.
    intros [l [vs|e]] f H; unfold good_seq, good in *; cbn [pure fst snd] in *; [exact H|].
    destruct e; [contradiction|exact H|exact H].
  Qed.

  Lemma scall_good : forall fv vs, good (scall fv vs).
  Proof.
    intros fv vs. unfold good, sandbox_call. destruct fv as [n|c|c|]; cbn; try exact passes_nil.
    - destruct (policy c) eqn:Hp; cbn.
      + destruct (c_format c) eqn:Hf; cbn.
        * apply passes_fmt; [exact Hp|exact passes_nil].
        * apply passes_cons; [exact Hp|exact Hf|exact passes_nil].
      + exact (ok_refused [] c passes_nil Hp).
    - apply passes_wrap. exact passes_nil.
  Qed.

  Lemma apply_scall_good : forall s, good_seq s -> good (apply scall s).
  Proof.
    intros [l [vs|e]] H; unfold good_seq in H; cbn [fst snd] in H.
    - destruct vs as [|fv vs]; [exact H|]. cbn [apply].
      pose proof (scall_good fv vs) as Hc. destruct (scall fv vs) as [l2 o]. unfold good in *. cbn [fst snd] in *.
      destruct o; [apply passes_app; assumption|apply ok_log_app; assumption|apply passes_app; assumption].
    - destruct e; [contradiction|exact H|exact H].
  Qed.

  (* from the induction hypotheses to Forall good over mapped children *)
  Lemma map_good : forall l, Forall (fun t => gated t = true -> good (ev t)) l -> forallb gated l = true ->
    Forall good (map ev l).
  Proof.
    intros l H. induction H as [|x r Hx _ IH]; intro Hg; [constructor|].
    cbn in Hg. apply andb_true_iff in Hg as [Hg1 Hg2]. cbn. constructor; [exact (Hx Hg1)|exact (IH Hg2)].
  Qed.

  Lemma mapkw_good : forall (l : list (string * texpr)),
    Forall (fun p => gated (snd p) = true -> good (ev (snd p))) l -> forallb (fun p => gated (snd p)) l = true ->
    Forall good (map (fun p => ev (snd p)) l).
  Proof.
    intros l H. induction H as [|x r Hx _ IH]; intro Hg; [constructor|].
    cbn in Hg. apply andb_true_iff in Hg as [Hg1 Hg2]. cbn. constructor; [exact (Hx Hg1)|exact (IH Hg2)].
  Qed.

  Lemma opt_good : forall o, OptT (fun t => gated t = true -> good (ev t)) o -> oall gated o = true ->
    Forall good (match o with Some x => [ev x] | None => [] end).
  Proof. intros [x|] H Hg; [constructor; [exact (H Hg)|constructor]|constructor]. Qed.

  Ltac split_gated H :=
    repeat match type of H with
           | (_ && _) = true => let H2 := fresh "Hg" in apply andb_true_iff in H as [H H2]
           end.

  (* main lemma *)
  Lemma eval_good : forall t, gated t = true -> good (ev t).
  Proof.
    intro t. induction t using texpr_ind'; intro Hg; cbn [gated] in Hg; cbn [eval].
    - exact passes_nil.
    - exact passes_nil.
    - apply pure_good, seq_good. repeat constructor. exact (IHt Hg).
    - apply andb_true_iff in Hg as [Hg1 Hg2]. apply pure_good, seq_good. repeat constructor; auto.
    - apply andb_true_iff in Hg as [Hg Hg4]. apply andb_true_iff in Hg as [Hg Hg3]. apply andb_true_iff in Hg as [Hg1 Hg2].
      apply pure_good, seq_good. constructor; [exact (IHt Hg1)|].
      repeat (apply Forall_app; split); eapply opt_good; eauto.
    - apply andb_true_iff in Hg as [Hg Hg5]. apply andb_true_iff in Hg as [Hg Hg4].
      apply andb_true_iff in Hg as [Hg Hg3]. apply andb_true_iff in Hg as [Hg1 Hg2].
      apply apply_scall_good, seq_good. constructor; [exact (IHt Hg1)|].
      apply Forall_app; split; [apply map_good; assumption|].
      apply Forall_app; split; [apply mapkw_good; assumption|].
      apply Forall_app; split; eapply opt_good; eauto.
    - discriminate.
    - apply andb_true_iff in Hg as [Hg Hg3]. apply andb_true_iff in Hg as [Hg1 Hg2].
      apply pure_good, seq_good. constructor; [exact (IHt Hg1)|].
      apply Forall_app; split; [apply map_good; assumption|apply mapkw_good; assumption].
    - apply andb_true_iff in Hg as [Hg1 Hg2].
      apply pure_good, seq_good. constructor; [exact (IHt Hg1)|apply map_good; assumption].
    - apply pure_good, seq_good. apply map_good; assumption.
    - exact (IHt Hg).
    - apply pure_good, seq_good. repeat constructor. exact (IHt Hg).
    - apply andb_true_iff in Hg as [Hg1 Hg2]. apply pure_good, seq_good. repeat constructor; auto.
    - discriminate.
  Qed.

  (* ---- what a good log means *)
  Lemma passes_invoke : forall l c, passes l -> In (EvInvoke c) l ->
    policy c = true /\ c_format c = false /\ exists pre post, l = pre ++ EvCheck c true :: EvInvoke c :: post.
  Proof.
    intros l c H. induction H as [|c0 r Hc Hf _ IH|c0 r Hc _ IH|c0 r _ IH]; intro Hin; [contradiction| | |].
    - destruct Hin as [Hin|[Hin|Hin]]; [discriminate| |].
      + injection Hin as ->. split; [exact Hc|]. split; [exact Hf|]. exists [], r. reflexivity.
      + destruct (IH Hin) as [Hp [Hf' [pre [post ->]]]]. split; [exact Hp|]. split; [exact Hf'|].
        exists (EvCheck c0 true :: EvInvoke c0 :: pre), post. reflexivity.
    - destruct Hin as [Hin|[Hin|Hin]]; [discriminate|discriminate|].
      destruct (IH Hin) as [Hp [Hf' [pre [post ->]]]]. split; [exact Hp|]. split; [exact Hf'|].
      exists (EvCheck c0 true :: EvFormat c0 :: pre), post. reflexivity.
    - destruct Hin as [Hin|Hin]; [discriminate|].
      destruct (IH Hin) as [Hp [Hf' [pre [post ->]]]]. split; [exact Hp|]. split; [exact Hf'|].
      exists (EvFormat c0 :: pre), post. reflexivity.
  Qed.

  Lemma ok_log_invoke : forall l c, ok_log l -> In (EvInvoke c) l ->
    policy c = true /\ c_format c = false /\ exists pre post, l = pre ++ EvCheck c true :: EvInvoke c :: post.
  Proof.
    intros l c H Hin. destruct H as [l Hl|l c0 Hl Hc0]; [exact (passes_invoke l c Hl Hin)|].
    apply in_app_or in Hin as [Hin|[Hin|[]]]; [|discriminate].
    destruct (passes_invoke l c Hl Hin) as [Hp [Hf [pre [post ->]]]]. split; [exact Hp|]. split; [exact Hf|].
    exists pre, (post ++ [EvCheck c0 false]). rewrite <- app_assoc. reflexivity.
  Qed.

  Lemma good_log_ok : forall r, good r -> ok_log (fst r).
  Proof. intros [l o] H. unfold good in H. cbn in *. destruct o; [apply ok_passes; exact H|exact H|apply ok_passes; exact H]. Qed.

  Lemma eval_invoke_checked : forall t c, gated t = true -> In (EvInvoke c) (fst (ev t)) ->
    policy c = true /\ exists pre post, fst (ev t) = pre ++ EvCheck c true :: EvInvoke c :: post.
  Proof.
    intros t c Hg Hin. destruct (ok_log_invoke _ c (good_log_ok _ (eval_good t Hg)) Hin) as [Hp [_ He]]. auto.
  Qed.

  (* a bound str.format / format_map is never run natively: the sandboxed formatter runs instead *)
  Lemma eval_format_never_native : forall t c, gated t = true -> c_format c = true -> ~ In (EvInvoke c) (fst (ev t)).
  Proof.
    intros t c Hg Hf Hin. destruct (ok_log_invoke _ c (good_log_ok _ (eval_good t Hg)) Hin) as [_ [Hf' _]]. congruence.
  Qed.

  Lemma eval_unsafe_never_runs : forall t c, gated t = true -> policy c = false -> ~ In (EvInvoke c) (fst (ev t)).
  Proof. intros t c Hg Hp Hin. destruct (eval_invoke_checked t c Hg Hin) as [Hp' _]. congruence. Qed.

  Lemma passes_no_refusal : forall l c, passes l -> ~ In (EvCheck c false) l.
  Proof.
    intros l c H. induction H as [|c1 r _ _ _ IH|c1 r _ _ IH|c1 r _ IH]; intro Hin; [contradiction| | |].
    - destruct Hin as [Hin|[Hin|Hin]]; [discriminate|discriminate|exact (IH Hin)].
    - destruct Hin as [Hin|[Hin|Hin]]; [discriminate|discriminate|exact (IH Hin)].
    - destruct Hin as [Hin|Hin]; [discriminate|exact (IH Hin)].
  Qed.

  (* a refused check is the last event and the outcome is SecurityError *)
  Lemma refused_is_last : forall l c, ok_log l -> In (EvCheck c false) l ->
    policy c = false /\ exists pre, l = pre ++ [EvCheck c false] /\ passes pre.
  Proof.
    intros l c H Hin. destruct H as [l Hl|l c0 Hl Hc0].
    - exfalso. exact (passes_no_refusal l c Hl Hin).
    - apply in_app_or in Hin as [Hin|[Hin|[]]].
      + exfalso. exact (passes_no_refusal l c Hl Hin).
      + injection Hin as ->. split; [exact Hc0|]. exists l. split; [reflexivity|exact Hl].
  Qed.

  (* wrappers: everything that ran is accepted by the predicate, PROVIDED accepted callables only
     run accepted callables inside (the guard a host-built functools.partial(unsafe_fn) violates) *)
  Lemma ran_all_accepted : forall runs_inside t c,
    (forall w, policy w = true -> forall u, In u (runs_inside w) -> policy u = true) ->
    gated t = true -> In c (ran runs_inside (fst (ev t))) -> policy c = true.
  Proof.
    intros runs_inside t c Hguard Hg Hin. unfold ran in Hin. apply in_flat_map in Hin as [e [He Hc]].
    destruct e as [c0 v|c0|c0]; try contradiction.
    destruct (eval_invoke_checked t c0 Hg He) as [Hp _].
    destruct Hc as [->|Hc]; [exact Hp|exact (Hguard c0 Hp c Hc)].
  Qed.

  (* the gate itself *)
  Lemma gate_refuses : forall c args, policy c = false -> scall (CVCallable c) args = ([EvCheck c false], OSecurityError).
  Proof. intros c args H. unfold sandbox_call. rewrite H. reflexivity. Qed.

  Lemma gate_allows : forall c args, policy c = true -> c_format c = false ->
    scall (CVCallable c) args = ([EvCheck c true; EvInvoke c], OVal (invoke_result c args)).
  Proof. intros c args H Hf. unfold sandbox_call. rewrite H, Hf. reflexivity. Qed.

  Lemma gate_formats : forall c args, policy c = true -> c_format c = true ->
    scall (CVCallable c) args = ([EvCheck c true; EvFormat c], OVal (format_result c args)).
  Proof. intros c args H Hf. unfold sandbox_call. rewrite H, Hf. reflexivity. Qed.
End Sound.
