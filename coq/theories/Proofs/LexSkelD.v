(* Instances of the skeleton theorem: the bundle of local delimiter facts [skel_cfg] holds for the
   default delimiters, for an ASP-like set in which the block start is a prefix of both other start
   strings (<% %>, <%= %>, <%# #%>) and for a set sharing the first character ($% %$, ${ }, $# #$),
   under all four trim_blocks / lstrip_blocks settings. *)
From Coq Require Import List NArith Bool Arith Lia.
Import ListNotations.
From JV Require Import Model.LexBase Model.LexTokeniter Spec.LexPlainSpec Spec.LexTrimSpec
  Proofs.LexInv Proofs.LexPlain Proofs.LexTotal Proofs.LexTrim Proofs.LexSkelA Proofs.LexSkelB Proofs.LexSkelC.
Open Scope N_scope.

Record skel_cfg (c : cfg) (txt : N -> bool) : Prop := {
  sc_ok : cfg_ok c = true;
  sc_txt13 : forall x, txt x = true -> (x =? 13) = false;
  sc_no13 : no13 (c_bs c) && no13 (c_be c) && no13 (c_vs c) && no13 (c_ve c) && no13 (c_cs c) && no13 (c_ce c) = true;
  sc_be : endstr_ok (c_be c) = true;
  sc_ve : endstr_ok (c_ve c) = true;
  sc_ce : endstr_ok (c_ce c) = true;
  sc_heads : head_nonspace (c_bs c) && head_nonspace (c_vs c) && head_nonspace (c_cs c) && head_nonspace (c_be c) = true;
  sc_fresh : forall prev x w, txt x = true -> root_alts c (compile_rules c) prev (x :: w) = None;
  sc_fresh_nil : forall prev, root_alts c (compile_rules c) prev [] = None;
  sc_fresh_raw : forall x w, txt x = true -> alt_endraw c (x :: w) = None;
  sc_block : forall prev l Y, root_alts c (compile_rules c) prev (c_bs c ++ md_str l ++ body_block ++ Y)
               = Some (KBlock, (length (c_bs c) + length (md_str l))%nat, sign_of l);
  sc_comment : forall prev l Y, root_alts c (compile_rules c) prev (c_cs c ++ md_str l ++ body_comment ++ Y)
               = Some (KComment, (length (c_cs c) + length (md_str l))%nat, sign_of l);
  sc_var : forall prev l Y, root_alts c (compile_rules c) prev (c_vs c ++ md_str l ++ body_var ++ Y)
               = Some (KVar, (length (c_vs c) + length (md_str l))%nat, sign_of l);
  sc_block_in : forall r Y prev ls d,
    (forall prev' ls', Lex c SBlock prev' ls' (md_str r ++ c_be c ++ Y) d) ->
    Lex c SBlock prev ls (body_block ++ md_str r ++ c_be c ++ Y) d;
  sc_var_in : forall r Y prev ls d,
    (forall prev' ls', Lex c SVar prev' ls' (md_str r ++ c_ve c ++ Y) d) ->
    Lex c SVar prev ls (body_var ++ md_str r ++ c_ve c ++ Y) d;
  sc_comment_in : forall r Y n,
    end_alts true (c_trim c) (c_ce c) (md_str r ++ c_ce c ++ Y) = Some n ->
    find_end true (c_trim c) (c_ce c) (body_comment ++ md_str r ++ c_ce c ++ Y) = Some (3%nat, n)
}.

(* ------------------------------------------------------------------ generic: the raw / endraw alternatives *)
Lemma scan_sign_md : forall l x Y, is_space x = true ->
  scan_sign (md_str l ++ x :: Y) = (sign_of l, length (md_str l)).
Proof.
  intros l x Y Hx. destruct l; cbn [md_str app scan_sign sign_of length]; try reflexivity.
  destruct (x =? 45) eqn:E1; [apply N.eqb_eq in E1; subst x; vm_compute in Hx; discriminate|].
  destruct (x =? 43) eqn:E2; [apply N.eqb_eq in E2; subst x; vm_compute in Hx; discriminate|]. reflexivity.
Qed.

Lemma alt_raw_shape : forall c l x Y e, is_space x = false ->
  end_alts false false (c_be c) (x :: Y) = Some e ->
  alt_raw c (c_bs c ++ md_str l ++ kw_raw_sp ++ x :: Y) = Some ((length (c_bs c) + length (md_str l) + 5 + e)%nat, sign_of l).
Proof.
  intros c l x Y e Hx He. unfold alt_raw. rewrite prefixb_app, skipn_app_len.
  unfold kw_raw_sp. cbn [app]. rewrite (scan_sign_md l 32 _ eq_refl), skipn_app_len.
  cbn [span]. change (is_space 32) with true. change (is_space 114) with false. cbn [skipn].
  change (prefixb kw_raw (114 :: 97 :: 119 :: 32 :: x :: Y)) with true. cbn [skipn span].
  change (is_space 32) with true. rewrite Hx. cbn [skipn]. rewrite He. f_equal. f_equal. lia.
Qed.

Lemma alt_endraw_shape : forall c l x Y e, is_space x = false ->
  end_alts true (c_trim c) (c_be c) (x :: Y) = Some e ->
  alt_endraw c (c_bs c ++ md_str l ++ kw_endraw_sp ++ x :: Y) = Some ((length (c_bs c) + length (md_str l) + 8 + e)%nat, sign_of l).
Proof.
  intros c l x Y e Hx He. unfold alt_endraw. rewrite prefixb_app, skipn_app_len.
  unfold kw_endraw_sp. cbn [app]. rewrite (scan_sign_md l 32 _ eq_refl), skipn_app_len.
  cbn [span]. change (is_space 32) with true. change (is_space 101) with false. cbn [skipn].
  change (prefixb kw_endraw (101 :: 110 :: 100 :: 114 :: 97 :: 119 :: 32 :: x :: Y)) with true. cbn [skipn span].
  change (is_space 32) with true. rewrite Hx. cbn [skipn]. rewrite He. f_equal. f_equal. lia.
Qed.

Theorem skel_render_cfg : forall c txt, skel_cfg c txt -> forall sk, skel_wf txt sk = true ->
  render_data c (unparse c sk) = Some (nl_subst (c_nlseq c) (spec_trim_k (c_keep c) (c_trim c) (c_lstrip c) sk)).
Proof.
  intros c txt H. apply (skel_render c txt); try (apply H).
  - intros prev l x Y e Hx He. unfold root_alts. rewrite (alt_raw_shape c l x Y e Hx He). reflexivity.
  - intros l x Y e Hx He. exact (alt_endraw_shape c l x Y e Hx He).
Qed.

(* ------------------------------------------------------------------ helpers for the instances *)
Lemma Lex_step0 : forall c st prev ls s n st' d,
  (forall line pos, exists its0 line',
     step c (compile_rules c) st [] line pos prev ls s = SGo its0 n st' [] line' /\ data_of [10] its0 = []) ->
  Lex c st' (prevof prev (firstn n s)) (lsof (firstn n s)) (skipn n s) d ->
  Lex c st prev ls s d.
Proof. intros c st prev ls s n st' d H1 H2. rewrite <- (app_nil_l d). eapply Lex_step; eassumption. Qed.

Lemma find_end_skip : forall po tr e x s, end_alts po tr e (x :: s) = None ->
  find_end po tr e (x :: s) = match find_end po tr e s with Some (p, n) => Some (S p, n) | None => None end.
Proof. intros po tr e x s H. cbn [find_end]. rewrite H. reflexivity. Qed.

Lemma find_end_here : forall po tr e s n, end_alts po tr e s = Some n -> find_end po tr e s = Some (0%nat, n).
Proof. intros po tr e s n H. destruct s; cbn [find_end]; rewrite H; reflexivity. Qed.

Ltac lex_tok := eapply Lex_step0; [intros ? ?; eexists; eexists; split; reflexivity|].

Ltac solve_block_in :=
  let r := fresh "r" in let H := fresh "H" in
  intros r ? ? ? ? H; destruct r; do 9 lex_tok; apply H.
Ltac solve_var_in :=
  let r := fresh "r" in let H := fresh "H" in
  intros r ? ? ? ? H; destruct r; do 3 lex_tok; apply H.
Ltac solve_comment_in :=
  let r := fresh "r" in let Hn := fresh "Hn" in
  intros r ? ? Hn; unfold body_comment; cbn [app];
  rewrite find_end_skip by (destruct r; reflexivity);
  rewrite find_end_skip by (destruct r; reflexivity);
  rewrite find_end_skip by (destruct r; reflexivity);
  rewrite (find_end_here _ _ _ _ _ Hn); reflexivity.

Definition txt_of (h : N) (x : N) : bool := negb (x =? h) && negb (x =? 13).

Lemma txt_of_13 : forall h x, txt_of h x = true -> (x =? 13) = false.
Proof. intros h x H. unfold txt_of in H. apply andb_true_iff in H as [_ H]. apply negb_true_iff. exact H. Qed.

Lemma txt_of_head : forall h x, txt_of h x = true -> (h =? x) = false.
Proof. intros h x H. unfold txt_of in H. apply andb_true_iff in H as [H _]. apply negb_true_iff in H. rewrite N.eqb_sym. exact H. Qed.

Lemma alt_plain_head : forall h d x w, (h =? x) = false -> alt_plain (h :: d) (x :: w) = None.
Proof. intros h d x w H. unfold alt_plain. cbn [prefixb]. rewrite H. reflexivity. Qed.

Ltac solve_fresh Hx :=
  unfold root_alts, alt_raw; cbn -[N.eqb alt_plain]; rewrite !Hx; cbn [andb];
  rewrite ?(alt_plain_head _ _ _ _ Hx); reflexivity.

(* ------------------------------------------------------------------ default delimiters *)
Lemma skel_cfg_default : forall t l k seq, skel_cfg (cfg_default t l k seq) (txt_of 123).
Proof.
  intros t l k seq. constructor; try reflexivity.
  - apply txt_of_13.
  - intros prev x w Hx. apply txt_of_head in Hx. solve_fresh Hx.
  - intros x w Hx. apply txt_of_head in Hx. unfold alt_endraw. cbn -[N.eqb]. rewrite !Hx. reflexivity.
  - intros prev m Y. destruct m; reflexivity.
  - intros prev m Y. destruct m; reflexivity.
  - intros prev m Y. destruct m; reflexivity.
  - solve_block_in.
  - solve_var_in.
  - solve_comment_in.
Qed.

(* ------------------------------------------------------------------ $% %$  ${ }  $# #$ *)
Lemma skel_cfg_dollar : forall t l k seq, skel_cfg (cfg_dollar t l k seq) (txt_of 36).
Proof.
  intros t l k seq. constructor; try reflexivity.
  - apply txt_of_13.
  - intros prev x w Hx. apply txt_of_head in Hx. solve_fresh Hx.
  - intros x w Hx. apply txt_of_head in Hx. unfold alt_endraw. cbn -[N.eqb]. rewrite !Hx. reflexivity.
  - intros prev m Y. destruct m; reflexivity.
  - intros prev m Y. destruct m; reflexivity.
  - intros prev m Y. destruct m; reflexivity.
  - solve_block_in.
  - solve_var_in.
  - solve_comment_in.
Qed.

(* ------------------------------------------------------------------ <% %>  <%= %>  <%# #%> : the block start is a
   prefix of the variable start and of the comment start (longest start must win) *)
Definition cfg_asp (trim lstrip keep : bool) (nlseq : str) : cfg :=
  mkcfg [60; 37] [37; 62] [60; 37; 61] [37; 62] [60; 37; 35] [35; 37; 62] None None
        trim lstrip nlseq keep ascii_digit ascii_word.

Lemma skel_cfg_asp : forall t l k seq, skel_cfg (cfg_asp t l k seq) (txt_of 60).
Proof.
  intros t l k seq. constructor; try reflexivity.
  - apply txt_of_13.
  - intros prev x w Hx. apply txt_of_head in Hx. solve_fresh Hx.
  - intros x w Hx. apply txt_of_head in Hx. unfold alt_endraw. cbn -[N.eqb]. rewrite !Hx. reflexivity.
  - intros prev m Y. destruct m; reflexivity.
  - intros prev m Y. destruct m; reflexivity.
  - intros prev m Y. destruct m; reflexivity.
  - solve_block_in.
  - solve_var_in.
  - solve_comment_in.
Qed.

(* ------------------------------------------------------------------ <% %>  <%= %>  <!-- --> : an end string that
   starts with '-' (end_head_ok: "-->" differs from "->" inside its tail) *)
Lemma skel_cfg_angle : forall t l k seq, skel_cfg (cfg_angle t l k seq) (txt_of 60).
Proof.
  intros t l k seq. constructor; try reflexivity.
  - apply txt_of_13.
  - intros prev x w Hx. apply txt_of_head in Hx. solve_fresh Hx.
  - intros x w Hx. apply txt_of_head in Hx. unfold alt_endraw. cbn -[N.eqb]. rewrite !Hx. reflexivity.
  - intros prev m Y. destruct m; reflexivity.
  - intros prev m Y. destruct m; reflexivity.
  - intros prev m Y. destruct m; reflexivity.
  - solve_block_in.
  - solve_var_in.
  - solve_comment_in.
Qed.

(* ------------------------------------------------------------------ corollaries *)
(* C12: the whole-template refinement, every skeleton, every newline_sequence / keep flag *)
Theorem trim_refines_default_gen : forall t l k seq sk, skel_wf (txt_of 123) sk = true ->
  render_data (cfg_default t l k seq) (unparse (cfg_default t l k seq) sk) = Some (nl_subst seq (spec_trim_k k t l sk)).
Proof. intros t l k seq sk H. exact (skel_render_cfg _ _ (skel_cfg_default t l k seq) sk H). Qed.

Theorem trim_refines_default : forall t l sk, skel_wf (txt_of 123) sk = true ->
  render_data (cfg_default t l false [10]) (unparse (cfg_default t l false [10]) sk) = Some (spec_trim t l [] sk).
Proof. intros t l sk H. rewrite (trim_refines_default_gen t l false [10] sk H), nl_subst_id. reflexivity. Qed.

(* C13: any two configurations satisfying the bundle, with the same trim / lstrip / keep /
   newline_sequence settings, give the same data on every skeleton whose texts are delimiter-free for both *)
Theorem delimiter_invariance : forall c c' txt txt' sk,
  skel_cfg c txt -> skel_cfg c' txt' -> c_trim c = c_trim c' -> c_lstrip c = c_lstrip c' ->
  c_keep c = c_keep c' -> c_nlseq c = c_nlseq c' ->
  skel_wf txt sk = true -> skel_wf txt' sk = true ->
  render_data c (unparse c sk) = render_data c' (unparse c' sk).
Proof.
  intros c c' txt txt' sk H H' Et El Ek En Hw Hw'.
  rewrite (skel_render_cfg c txt H sk Hw), (skel_render_cfg c' txt' H' sk Hw'), Et, El, Ek, En. reflexivity.
Qed.

(* well-formedness is monotone in the text character class *)
Lemma skel_wf_weaken : forall (p q : N -> bool) sk, (forall x, p x = true -> q x = true) ->
  skel_wf p sk = true -> skel_wf q sk = true.
Proof.
  intros p q sk Hpq H. unfold skel_wf in *. apply andb_true_iff in H as [H1 H2]. rewrite H2, andb_true_r.
  assert (Hs : forall s, forallb p s = true -> forallb q s = true).
  { induction s as [|x r IH]; intros Hs; [reflexivity|]. cbn [forallb] in *. apply andb_true_iff in Hs as [Ha Hb].
    rewrite (Hpq x Ha). cbn. apply IH. exact Hb. }
  clear H2. induction sk as [|g rest IH]; [reflexivity|]. cbn [forallb] in *. apply andb_true_iff in H1 as [Hg Hr].
  rewrite (IH Hr), andb_true_r.
  destruct g as [s|l r|l r|l r|l1 r1 b l2 r2]; cbn [seg_wf] in *; try exact Hg.
  - apply Hs. exact Hg.
  - destruct r1; try exact Hg; apply Hs; exact Hg.
Qed.
