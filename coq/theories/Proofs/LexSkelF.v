(* CR / CRLF line breaks in the texts and raw bodies of a skeleton: the lexer sees the template
   with its line breaks unified, which is the template of the skeleton with unified texts. *)
From Coq Require Import List NArith Bool Arith Lia.
Import ListNotations.
From JV Require Import Model.LexBase Model.LexTokeniter Spec.LexPlainSpec Spec.LexTrimSpec
  Proofs.LexInv Proofs.LexPlain Proofs.LexTotal Proofs.LexTrim Proofs.LexSkelA Proofs.LexSkelB Proofs.LexSkelC Proofs.LexSkelD.
Open Scope N_scope.

Definition normseg (g : seg) : seg :=
  match g with
  | Text s => Text (nl_replace s)
  | Raw l1 r1 b l2 r2 => Raw l1 r1 (nl_replace b) l2 r2
  | g => g
  end.
Definition normsk (sk : list seg) : list seg := map normseg sk.

(* text characters plus CR *)
Definition with_cr (txt : N -> bool) (x : N) : bool := txt x || (x =? 13).

Lemma nl_replace_app_l : forall a b, no13 a = true -> nl_replace (a ++ b) = a ++ nl_replace b.
Proof.
  induction a as [|x a IH]; intros b H; [reflexivity|]. unfold no13 in *. cbn [forallb] in H.
  apply andb_true_iff in H as [H1 H2]. apply negb_true_iff in H1. cbn [app nl_replace]. rewrite H1, IH by exact H2. reflexivity.
Qed.

Lemma nl_replace_app_r : forall (a b : str), nl_headb b = false -> nl_replace (a ++ b) = nl_replace a ++ nl_replace b.
Proof.
  intros a b Hb. induction a as [a IH] using strong_str_ind.
  destruct a as [|x r]; [reflexivity|]. cbn [app nl_replace]. destruct (x =? 13) eqn:E.
  - destruct r as [|y r'].
    + cbn [app]. destruct b as [|d b']; [reflexivity|]. cbn [nl_headb] in Hb. rewrite Hb. reflexivity.
    + cbn [app]. destruct (y =? 10).
      * rewrite (IH r') by (cbn; lia). reflexivity.
      * change (y :: r' ++ b) with ((y :: r') ++ b). rewrite (IH (y :: r')) by (cbn; lia). reflexivity.
  - rewrite (IH r) by (cbn; lia). reflexivity.
Qed.

Lemma nl_replace_idem : forall s, nl_replace (nl_replace s) = nl_replace s.
Proof. intros s. apply nl_replace_fix, nl_replace_no_cr. Qed.

Lemma render_data_nl_replace : forall c s, render_data c s = render_data c (nl_replace s).
Proof. intros c s. unfold render_data, tokeniter, normalize. rewrite nl_replace_idem. reflexivity. Qed.

Lemma forallb_nl_replace : forall (txt : N -> bool) (s : str), txt 10 = true ->
  forallb (with_cr txt) s = true -> forallb txt (nl_replace s) = true.
Proof.
  intros txt s H10. induction s as [s IH] using strong_str_ind. intros H.
  destruct s as [|x r]; [reflexivity|]. cbn [forallb] in H. apply andb_true_iff in H as [Hx Hr]. cbn [nl_replace].
  destruct (x =? 13) eqn:E.
  - destruct r as [|y r']; [cbn [forallb]; rewrite H10; reflexivity|].
    destruct (y =? 10); cbn [forallb]; rewrite H10; cbn [andb].
    + cbn [forallb] in Hr. apply andb_true_iff in Hr as [_ Hr]. apply IH; [cbn; lia|exact Hr].
    + apply (IH (y :: r')); [cbn; lia|exact Hr].
  - unfold with_cr in Hx. rewrite E, orb_false_r in Hx. cbn [forallb]. rewrite Hx. cbn [andb]. apply IH; [cbn; lia|exact Hr].
Qed.

Section CR.
  Variable c : cfg.
  Variable txt : N -> bool.
  Hypothesis SC : skel_cfg c txt.
  Hypothesis H10 : txt 10 = true.

  Lemma no13s : no13 (c_bs c) = true /\ no13 (c_be c) = true /\ no13 (c_vs c) = true /\ no13 (c_ve c) = true
                /\ no13 (c_cs c) = true /\ no13 (c_ce c) = true.
  Proof.
    pose proof (sc_no13 _ _ SC) as H. apply andb_true_iff in H as [H N6]. apply andb_true_iff in H as [H N5].
    apply andb_true_iff in H as [H N4]. apply andb_true_iff in H as [H N3]. apply andb_true_iff in H as [N1 N2]. auto 10.
  Qed.

  Lemma head_not_nl : forall d, head_nonspace d = true -> forall Y, nl_headb (d ++ Y) = false.
  Proof.
    intros [|x d] H Y; [discriminate|]. cbn [app nl_headb]. cbn [head_nonspace] in H. apply negb_true_iff in H.
    destruct (x =? 10) eqn:E; [|reflexivity]. apply N.eqb_eq in E. subst x. vm_compute in H. discriminate.
  Qed.

  Lemma md13 : forall m, no13 (md_str m) = true.
  Proof. destruct m; reflexivity. Qed.

  (* a tag-first (or empty) remainder does not start with LF *)
  Lemma unparse_head_not_nl : forall sk, tagfirst sk = true -> nl_headb (unparse c sk) = false.
  Proof.
    intros sk H. pose proof (sc_heads _ _ SC) as Hh. apply andb_true_iff in Hh as [Hh _].
    apply andb_true_iff in Hh as [Hh Hcs]. apply andb_true_iff in Hh as [Hbs Hvs].
    destruct sk as [|g rest]; [reflexivity|]. destruct g as [s|l r|l r|l r|l1 r1 b l2 r2]; [discriminate| | | |];
      unfold unparse; cbn [flat_map unparse_seg]; rewrite <- !app_assoc.
    - apply head_not_nl. exact Hbs.
    - apply head_not_nl. exact Hcs.
    - apply head_not_nl. exact Hvs.
    - apply head_not_nl. exact Hbs.
  Qed.

  Lemma nl_replace_unparse : forall sk, no_adjacent_text sk = true ->
    nl_replace (unparse c sk) = unparse c (normsk sk).
  Proof.
    destruct no13s as (Nbs & Nbe & Nvs & Nve & Ncs & Nce).
    pose proof (sc_heads _ _ SC) as Hh. apply andb_true_iff in Hh as [Hh _].
    apply andb_true_iff in Hh as [Hh _]. apply andb_true_iff in Hh as [Hbs _].
    induction sk as [|g rest IH]; intros Hadj; [reflexivity|].
    assert (Hrest : no_adjacent_text rest = true).
    { destruct g; cbn [no_adjacent_text] in Hadj; try exact Hadj. destruct rest as [|[] ?]; try discriminate; try exact Hadj; reflexivity. }
    change (unparse c (g :: rest)) with (unparse_seg c g ++ unparse c rest).
    change (unparse c (normsk (g :: rest))) with (unparse_seg c (normseg g) ++ unparse c (normsk rest)).
    rewrite <- (IH Hrest).
    destruct g as [s|l r|l r|l r|l1 r1 b l2 r2]; cbn [unparse_seg normseg].
    - apply nl_replace_app_r. apply unparse_head_not_nl.
      cbn [no_adjacent_text] in Hadj. destruct rest as [|[] ?]; try reflexivity. discriminate.
    - rewrite <- !app_assoc. rewrite !nl_replace_app_l; try assumption; try apply md13; reflexivity.
    - rewrite <- !app_assoc. rewrite !nl_replace_app_l; try assumption; try apply md13; reflexivity.
    - rewrite <- !app_assoc. rewrite !nl_replace_app_l; try assumption; try apply md13; reflexivity.
    - rewrite <- !app_assoc.
      rewrite (nl_replace_app_l (c_bs c)), (nl_replace_app_l (md_str l1)), (nl_replace_app_l kw_raw_sp),
        (nl_replace_app_l (md_str r1)), (nl_replace_app_l (c_be c)); try assumption; try apply md13; try reflexivity.
      rewrite (nl_replace_app_r b) by (apply head_not_nl; exact Hbs).
      rewrite (nl_replace_app_l (c_bs c)), (nl_replace_app_l (md_str l2)), (nl_replace_app_l kw_endraw_sp),
        (nl_replace_app_l (md_str r2)), (nl_replace_app_l (c_be c)); try assumption; try apply md13; reflexivity.
  Qed.

  Lemma wf_normsk : forall sk, skel_wf (with_cr txt) sk = true -> skel_wf txt (normsk sk) = true.
  Proof.
    intros sk H. unfold skel_wf, normsk in *. apply andb_true_iff in H as [H1 H2]. apply andb_true_iff. split.
    - clear H2. induction sk as [|g rest IH]; [reflexivity|]. cbn [forallb map] in *.
      apply andb_true_iff in H1 as [Hg Hr]. rewrite (IH Hr), andb_true_r.
      destruct g as [s|l r|l r|l r|l1 r1 b l2 r2]; cbn [seg_wf normseg] in *; try exact Hg.
      + apply forallb_nl_replace; assumption.
      + destruct r1; try exact Hg; apply forallb_nl_replace; assumption.
    - clear H1. induction sk as [|g rest IH]; [reflexivity|].
      destruct g as [s|l r|l r|l r|l1 r1 b l2 r2]; cbn [no_adjacent_text map normseg] in *; try (apply IH; exact H2).
      destruct rest as [|g2 r2]; [reflexivity|]. destruct g2; cbn [map normseg]; try discriminate; apply IH; exact H2.
  Qed.

  (* texts and raw bodies with CR / CRLF / LF line breaks *)
  Theorem skel_render_cr : forall sk, skel_wf (with_cr txt) sk = true ->
    render_data c (unparse c sk)
    = Some (nl_subst (c_nlseq c) (spec_trim_k (c_keep c) (c_trim c) (c_lstrip c) (normsk sk))).
  Proof.
    intros sk Hwf. rewrite render_data_nl_replace, nl_replace_unparse.
    - apply (skel_render_cfg c txt SC). apply wf_normsk. exact Hwf.
    - unfold skel_wf in Hwf. apply andb_true_iff in Hwf as [_ H]. exact H.
  Qed.
End CR.
