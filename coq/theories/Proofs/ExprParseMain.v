(* C02 parse_unparse: the main induction. *)
From Coq Require Import List NArith ZArith Bool Lia Arith.
Import ListNotations.
From JV Require Import Model.ExprAst Model.ExprPrim Spec.ExprSpec Model.ExprParser Model.ExprUnparse
  Proofs.ExprFoldProofs Proofs.ExprParseSteps Proofs.ExprParseBase Proofs.ExprParsePrint Proofs.ExprParseNodes
  Proofs.ExprParseNodes2 Proofs.ExprParseNodes3 Proofs.ExprParseNodes4.

Definition LFb (e : expr) : Prop := forall L, is_binlvl L -> forall r res r', nc (S L) r = true ->
  parses (fun K => bloop L K e) r res r' -> parses (entry L) (pr L e ++ r) res r'.
Definition LFf (e : expr) : Prop := forall r res r', nc 10 r = true ->
  parses (fun K => p_filter_expr K e) r res r' -> parses (entry 9) (pr 9 e ++ r) res r'.
Definition LFp (e : expr) : Prop := forall r res r', nc 12 r = true ->
  parses (fun K => p_postfix K e) r res r' -> parses (entry 11) (pr 11 e ++ r) res r'.
Definition ALL (e : expr) : Prop :=
  HD e /\ NA e /\ (forall L, L <= 12 -> PLn L e) /\ LFb e /\ LFf e /\ LFp e.

Lemma lvl_le12 e : lvl e <= 12.
Proof. destruct e; cbn; try (destruct op; lia); lia. Qed.

Lemma good_of_all x : ALL x -> GOOD x.
Proof.
  intros [H [N [P _]]]. split; [|split].
  - intros rr Hr. apply (P 0 ltac:(lia) rr Hr).
  - intros rr. apply hd_ok_HD. exact H.
  - exact N.
Qed.

Lemma not_kw_of_neq t rest : t <> KName k_not -> is_kw k_not (t :: rest) = false.
Proof.
  intros H. destruct t; try reflexivity. cbn. destruct (str_eqb s k_not) eqn:E; [|reflexivity].
  apply str_eqb_eq in E. subst s. contradiction.
Qed.
Lemma not_op_of_neq o t rest : t <> KOp o -> is_op o (t :: rest) = false.
Proof. intros H. destruct t as [| | | |o']; try reflexivity. destruct o, o'; try reflexivity; contradiction. Qed.

Lemma p_step_call f xs kw ats r res r' :
  parses p_call_args (KOp OLParen :: ats) (xs, kw) r ->
  parses (fun K => p_postfix K (ECall f xs kw)) r res r' ->
  parses (fun K => p_postfix K f) (KOp OLParen :: ats) res r'.
Proof.
  intros H1 H2.
  eapply (parses_bind _ (fun K => p_call K f) _ _ (KOp OLParen :: ats)); [intros K; rewrite step_p_postfix; reflexivity| |exact H2].
  eapply (parses_bind _ p_call_args _ _ (KOp OLParen :: ats)); [intros K; rewrite step_p_call; reflexivity|exact H1|].
  cbn. apply parses_const.
Qed.

(* from the facts at the node's own level to all levels *)
Lemma finish e :
  HD e -> NA e ->
  (forall r, nc (lvl e) r = true -> parses (entry (lvl e)) (raw e ++ r) e r) ->
  (is_binlvl (lvl e) -> forall r res r', nc (S (lvl e)) r = true ->
     parses (fun K => bloop (lvl e) K e) r res r' -> parses (entry (lvl e)) (raw e ++ r) res r') ->
  (lvl e = 9 -> forall r res r', nc 10 r = true ->
     parses (fun K => p_filter_expr K e) r res r' -> parses (entry 9) (raw e ++ r) res r') ->
  (lvl e = 11 -> forall r res r', nc 12 r = true ->
     parses (fun K => p_postfix K e) r res r' -> parses (entry 11) (raw e ++ r) res r') ->
  ALL e.
Proof.
  intros Hh Hn PN NLb NLf NLp.
  assert (PLraw : forall L, L <= lvl e -> forall r, nc L r = true -> parses (entry L) (raw e ++ r) e r).
  { intros L HL r Hr.
    apply (descend (raw e) e (lvl e) (lvl_le12 e)) with (d := lvl e - L); [| |exact PN|lia|exact Hr].
    - intros H4 rr. destruct (Hh (lvl e) rr) as [t [rest [E [_ [S2 _]]]]]. rewrite pr_raw in E by lia. rewrite E.
      apply not_kw_of_neq. apply S2. exact H4.
    - intros H11 rr. destruct (Hh (lvl e) rr) as [t [rest [E [_ [_ S3]]]]]. rewrite pr_raw in E by lia. rewrite E.
      destruct (S3 H11). split; apply not_op_of_neq; assumption. }
  assert (PLall : forall L, L <= 12 -> PLn L e).
  { intros L HL r Hr. destruct (le_lt_dec L (lvl e)) as [Hle|Hlt].
    - rewrite pr_raw by exact Hle. apply PLraw; assumption.
    - rewrite pr_paren by exact Hlt.
      apply (descend (paren (raw e)) e 12 (le_n 12)) with (d := 12 - L); [| | |lia|exact Hr].
      + intros _ rr. reflexivity.
      + intros _ rr. split; reflexivity.
      + intros rr _. cbn [entry]. apply prim_paren.
        * intros r0 H0. apply (PLraw 0); [lia|exact H0].
        * pose proof (hd_ok_HD e 0 (KOp ORParen :: rr) Hh) as H0. rewrite pr_raw in H0 by lia. exact H0. }
  split; [exact Hh|]. split; [exact Hn|]. split; [exact PLall|]. split; [|split].
  - intros L HL r res r' Hr Hl. destruct (Nat.eq_dec (lvl e) L) as [E|E].
    + subst L. rewrite pr_raw by lia. apply NLb; assumption.
    + rewrite pr_succ by exact E. apply (bl_start L _ e r); [exact HL| |exact Hl].
      apply PLall; [destruct HL as [->|[->|[->|[->| ->]]]]; lia|exact Hr].
  - intros r res r' Hr Hl. destruct (Nat.eq_dec (lvl e) 9) as [E|E].
    + rewrite pr_raw by lia. apply NLf; assumption.
    + rewrite pr_succ by exact E. cbn [entry]. apply (f_start _ e r); [|exact Hl]. apply (PLall 10 ltac:(lia) r Hr).
  - intros r res r' Hr Hl. destruct (Nat.eq_dec (lvl e) 11) as [E|E].
    + rewrite pr_raw by lia. apply NLp; assumption.
    + rewrite pr_succ by exact E. cbn [entry]. apply (p_start _ e r); [|exact Hl]. apply (PLall 12 ltac:(lia) r Hr).
Qed.

Lemma forallb_In {A} (f : A -> bool) l x : forallb f l = true -> In x l -> f x = true.
Proof. intros H Hin. rewrite forallb_forall in H. apply H. exact Hin. Qed.

Ltac fold_pr := repeat match goal with |- context [if Nat.leb ?L (lvl ?y) then raw ?y else paren (raw ?y)] =>
  change (if Nat.leb L (lvl y) then raw y else paren (raw y)) with (pr L y) end.

Lemma lvl_bin op a b : lvl (EBin op a b) = binop_lvl op.
Proof. destruct op; reflexivity. Qed.
Lemma binlvl_op op : is_binlvl (binop_lvl op).
Proof. destruct op; unfold is_binlvl; cbn; auto. Qed.

Lemma pn_of_nl L e : is_binlvl L ->
  (forall r res r', nc (S L) r = true -> parses (fun K => bloop L K e) r res r' -> parses (entry L) (raw e ++ r) res r') ->
  forall r, nc L r = true -> parses (entry L) (raw e ++ r) e r.
Proof. intros HL NL r Hr. apply NL; [apply (nc_mono L); [lia|exact Hr]|apply bl_stop; assumption]. Qed.

Lemma bin_NL op a b : ALL a -> ALL b -> forall r res r', nc (S (binop_lvl op)) r = true ->
  parses (fun K => bloop (binop_lvl op) K (EBin op a b)) r res r' ->
  parses (entry (binop_lvl op)) (raw (EBin op a b) ++ r) res r'.
Proof.
  intros [_ [_ [_ [La _]]]] [_ [_ [Pb _]]] r res r' Hr Hl. cbn [raw]. fold_pr. rewrite <- app_assoc. cbn [app].
  apply (La (binop_lvl op) (binlvl_op op)); [destruct op; reflexivity|].
  apply (step_bin op a b (pr (S (binop_lvl op)) b ++ r) r); [|exact Hl].
  apply Pb; [destruct op; cbn; lia|exact Hr].
Qed.

Lemma and_NL a b : ALL a -> ALL b -> forall r res r', nc 3 r = true ->
  parses (fun K => p_and_loop K (EAnd a b)) r res r' -> parses p_and (raw (EAnd a b) ++ r) res r'.
Proof.
  intros [_ [_ [_ [La _]]]] [_ [_ [Pb _]]] r res r' Hr Hl. cbn [raw]. fold_pr. rewrite <- app_assoc. cbn [app].
  apply (La 2 ltac:(unfold is_binlvl; auto)); [reflexivity|].
  apply (step_and a b (pr 3 b ++ r) r); [|exact Hl]. apply (Pb 3 ltac:(lia) r Hr).
Qed.
Lemma or_NL a b : ALL a -> ALL b -> forall r res r', nc 2 r = true ->
  parses (fun K => p_or_loop K (EOr a b)) r res r' -> parses p_or (raw (EOr a b) ++ r) res r'.
Proof.
  intros [_ [_ [_ [La _]]]] [_ [_ [Pb _]]] r res r' Hr Hl. cbn [raw]. fold_pr. rewrite <- app_assoc. cbn [app].
  apply (La 1 ltac:(unfold is_binlvl; auto)); [reflexivity|].
  apply (step_or a b (pr 2 b ++ r) r); [|exact Hl]. apply (Pb 2 ltac:(lia) r Hr).
Qed.

Lemma pn_of_nlp e :
  (forall r res r', nc 12 r = true -> parses (fun K => p_postfix K e) r res r' -> parses E11 (raw e ++ r) res r') ->
  forall r, nc 11 r = true -> parses E11 (raw e ++ r) e r.
Proof.
  intros NL r Hr. apply NL; [apply (nc_mono 11); [lia|exact Hr]|].
  exists 1. intros m Hm. destruct m as [|m]; [lia|]. apply postfix_loop_stop. exact Hr.
Qed.
Lemma pn_of_nlf e :
  (forall r res r', nc 10 r = true -> parses (fun K => p_filter_expr K e) r res r' -> parses (fun K => p_unary K true) (raw e ++ r) res r') ->
  forall r, nc 9 r = true -> parses (fun K => p_unary K true) (raw e ++ r) e r.
Proof.
  intros NL r Hr. apply NL; [apply (nc_mono 9); [lia|exact Hr]|].
  exists 1. intros m Hm. destruct m as [|m]; [lia|]. apply filter_loop_stop. exact Hr.
Qed.

Lemma attr_NL a name : ALL a -> forall r res r', nc 12 r = true ->
  parses (fun K => p_postfix K (EGetattr a name)) r res r' -> parses E11 (raw (EGetattr a name) ++ r) res r'.
Proof.
  intros [_ [_ [_ [_ [_ Lp]]]]] r res r' Hr Hl. cbn [raw]. fold_pr. rewrite <- app_assoc. cbn [app].
  apply Lp; [reflexivity|]. apply p_step_attr. exact Hl.
Qed.
Lemma item_NL a k : ALL a -> GOOD k -> forall r res r', nc 12 r = true ->
  parses (fun K => p_postfix K (EGetitem a k)) r res r' -> parses E11 (raw (EGetitem a k) ++ r) res r'.
Proof.
  intros [_ [_ [_ [_ [_ Lp]]]]] Gk r res r' Hr Hl. cbn [raw]. fold_pr. rewrite <- app_assoc. cbn [app]. rewrite <- app_assoc. cbn [app].
  apply Lp; [reflexivity|]. apply p_step_item; assumption.
Qed.
Lemma slice_NL a lo hi st : ALL a -> opt_good lo -> opt_good hi -> opt_good st -> forall r res r', nc 12 r = true ->
  parses (fun K => p_postfix K (ESlice a lo hi st)) r res r' -> parses E11 (raw (ESlice a lo hi st) ++ r) res r'.
Proof.
  intros [_ [_ [_ [_ [_ Lp]]]]] G1 G2 G3 r res r' Hr Hl. cbn [raw]. fold_pr.
  change (match lo with Some x => pr 0 x | None => [] end) with (opt_pr lo).
  change (match hi with Some x => pr 0 x | None => [] end) with (opt_pr hi).
  repeat (rewrite <- app_assoc; cbn [app]).
  apply Lp; [reflexivity|]. apply p_step_slice; assumption.
Qed.
Lemma call_NL f xs kw : ALL f -> (forall x, In x xs -> GOOD x) -> (forall p, In p kw -> GOOD (snd p)) -> forall r res r', nc 12 r = true ->
  parses (fun K => p_postfix K (ECall f xs kw)) r res r' -> parses E11 (raw (ECall f xs kw) ++ r) res r'.
Proof.
  intros [_ [_ [_ [_ [_ Lp]]]]] Gx Gk r res r' Hr Hl. cbn [raw]. fold_pr.
  change (map (fun x : expr => if Nat.leb 0 (lvl x) then raw x else paren (raw x)) xs) with (map (pr 0) xs).
  change (map (fun p : str * expr => KName (fst p) :: KOp OAssign :: (if Nat.leb 0 (lvl (snd p)) then raw (snd p) else paren (raw (snd p)))) kw) with (map kwp kw).
  repeat (rewrite <- app_assoc; cbn [app]).
  apply Lp; [reflexivity|]. apply (p_step_call f xs kw _ r); [|exact Hl]. apply call_args_ok; assumption.
Qed.
Lemma filter_NL a name xs : ALL a -> (forall x, In x xs -> GOOD x) -> forall r res r', nc 10 r = true ->
  parses (fun K => p_filter_expr K (EFilter a name xs)) r res r' -> parses (fun K => p_unary K true) (raw (EFilter a name xs) ++ r) res r'.
Proof.
  intros [_ [_ [_ [_ [Lf _]]]]] Gx r res r' Hr Hl. cbn [raw]. fold_pr. destruct xs as [|x xs].
  - rewrite <- app_assoc. cbn [app]. apply Lf; [reflexivity|]. apply f_step_filter0; assumption.
  - change (map (fun x0 : expr => if Nat.leb 0 (lvl x0) then raw x0 else paren (raw x0)) (x :: xs)) with (map (pr 0) (x :: xs)).
    repeat (rewrite <- app_assoc; cbn [app]).
    apply Lf; [reflexivity|]. apply (f_step_filterN a name (x :: xs) _ r); [discriminate| |exact Hl].
    apply (call_args_ok (x :: xs) [] r Gx). intros p [].
Qed.
Lemma test_NL a name xs : str_eqb name k_not = false -> ALL a -> (forall x, In x xs -> GOOD x) -> forall r res r', nc 10 r = true ->
  parses (fun K => p_filter_expr K (ETest a name xs)) r res r' -> parses (fun K => p_unary K true) (raw (ETest a name xs) ++ r) res r'.
Proof.
  intros Hnot [_ [_ [_ [_ [Lf _]]]]] Gx r res r' Hr Hl. cbn [raw]. fold_pr.
  change (map (fun x0 : expr => if Nat.leb 0 (lvl x0) then raw x0 else paren (raw x0)) xs) with (map (pr 0) xs).
  repeat (rewrite <- app_assoc; cbn [app]).
  apply Lf; [reflexivity|]. apply (f_step_test a name xs _ r _ _ Hnot); [|exact Hl].
  apply (call_args_ok xs [] r Gx). intros p [].
Qed.

Ltac bad_lvl := let H := fresh in intros H; exfalso; cbn [lvl] in H; first [ discriminate H | (unfold is_binlvl in H; cbn in H; lia) ].

Theorem all_facts : forall n e, depth e <= n -> wf e = true -> ALL e.
Proof.
  induction n as [|n IH]; intros e Hd Hw; [pose proof (depth_pos e); lia|].
  destruct (print_facts (depth e) e (le_n _) Hw) as [Hh Hn].
  assert (A : forall x, depth x <= n -> wf x = true -> ALL x) by (intros; apply IH; assumption).
  assert (AL : forall xs, list_max (map depth xs) <= n -> forallb wf xs = true -> forall x, In x xs -> GOOD x).
  { intros xs Hm Hf x Hin. apply good_of_all. apply A; [pose proof (list_max_in depth xs x Hin); lia|apply (forallb_In wf xs x Hf Hin)]. }
  assert (AG : forall x, depth x <= n -> wf x = true -> GOOD x) by (intros; apply good_of_all; apply A; assumption).
  assert (AO : forall o, omax depth o <= n -> match o with Some x => wf x | None => true end = true -> opt_good o).
  { intros o Ho Wo x ->. cbn in Ho. apply AG; assumption. }
  destruct e; cbn [depth wf] in Hd, Hw; apply (finish _ Hh Hn).
  - (* EConst *) cbn [lvl entry]. intros r Hr. apply prim_const; assumption.
  - bad_lvl.
  - bad_lvl.
  - bad_lvl.
  - (* EName *) cbn [lvl entry]. intros r Hr. apply prim_name. apply negb_true_iff. exact Hw.
  - bad_lvl.
  - bad_lvl.
  - bad_lvl.
  - (* EBin *) apply andb_true_iff in Hw. destruct Hw as [W1 W2].
    rewrite (lvl_bin op e1 e2). apply pn_of_nl; [apply binlvl_op|]. apply bin_NL; apply A; (lia || assumption).
  - apply andb_true_iff in Hw. destruct Hw as [W1 W2]. rewrite (lvl_bin op e1 e2). intros _.
    apply bin_NL; apply A; (lia || assumption).
  - rewrite (lvl_bin op e1 e2). destruct op; bad_lvl.
  - rewrite (lvl_bin op e1 e2). destruct op; bad_lvl.
  - (* EUn *) cbn [lvl entry]. intros r Hr. cbn [raw]. fold_pr. cbn [app]. apply node_unary; [|exact Hr].
    destruct (A e ltac:(lia) Hw) as [_ [_ [P _]]]. apply (P 10). lia.
  - bad_lvl.
  - bad_lvl.
  - bad_lvl.
  - (* ENot *) cbn [lvl entry]. intros r Hr. cbn [raw]. fold_pr. cbn [app]. apply node_not; [|exact Hr].
    destruct (A e ltac:(lia) Hw) as [_ [_ [P _]]]. apply (P 3). lia.
  - bad_lvl.
  - bad_lvl.
  - bad_lvl.
  - (* EAnd *) apply andb_true_iff in Hw. destruct Hw as [W1 W2].
    cbn [lvl entry]. apply (pn_of_nl 2); [unfold is_binlvl; auto|]. apply and_NL; apply A; (lia || assumption).
  - apply andb_true_iff in Hw. destruct Hw as [W1 W2]. cbn [lvl entry]. intros _. apply and_NL; apply A; (lia || assumption).
  - bad_lvl.
  - bad_lvl.
  - (* EOr *) apply andb_true_iff in Hw. destruct Hw as [W1 W2].
    cbn [lvl entry]. apply (pn_of_nl 1); [unfold is_binlvl; auto|]. apply or_NL; apply A; (lia || assumption).
  - apply andb_true_iff in Hw. destruct Hw as [W1 W2]. cbn [lvl entry]. intros _. apply or_NL; apply A; (lia || assumption).
  - bad_lvl.
  - bad_lvl.
  - (* EConcat *) apply andb_true_iff in Hw. destruct Hw as [W0 W1].
    destruct es as [|x [|y es]]; try discriminate. cbn [lvl entry]. intros r Hr. cbn [raw]. fold_pr.
    change (map (fun x0 : expr => if Nat.leb 7 (lvl x0) then raw x0 else paren (raw x0)) (x :: y :: es)) with (map (pr 7) (x :: y :: es)).
    apply node_concat; [|exact Hr]. intros z Hz.
    destruct (A z) as [_ [_ [P _]]]; [pose proof (list_max_in depth _ z Hz); lia|apply (forallb_In wf _ z W1 Hz)|]. apply (P 7). lia.
  - bad_lvl.
  - bad_lvl.
  - bad_lvl.
  - (* ECompare *) apply andb_true_iff in Hw. destruct Hw as [W01 W2]. apply andb_true_iff in W01. destruct W01 as [W0 W1].
    cbn [lvl entry]. intros r Hr. cbn [raw]. fold_pr. rewrite <- app_assoc.
    change (flat_map (fun p : cmpop * expr => cmp_toks (fst p) ++ (if Nat.leb 5 (lvl (snd p)) then raw (snd p) else paren (raw (snd p)))) ops) with (flat_map cmpp ops).
    apply node_compare; [| | |exact Hr].
    + destruct (A e ltac:(lia) W0) as [_ [_ [P _]]]. apply (P 5). lia.
    + destruct ops; [discriminate|discriminate].
    + intros p Hp. destruct (A (snd p)) as [_ [_ [P _]]].
      * pose proof (list_max_in (fun p : cmpop * expr => depth (snd p)) ops p Hp). cbn in *. lia.
      * apply (forallb_In (fun p : cmpop * expr => wf (snd p)) ops p W2 Hp).
      * apply (P 5). lia.
  - bad_lvl.
  - bad_lvl.
  - bad_lvl.
  - (* ECond *) apply andb_true_iff in Hw. destruct Hw as [W01 W2]. apply andb_true_iff in W01. destruct W01 as [W0 W1].
    cbn [lvl entry]. intros r Hr. cbn [raw]. fold_pr. rewrite <- app_assoc. cbn [app]. rewrite <- app_assoc.
    destruct (A e1 ltac:(lia) W0) as [_ [_ [P1 _]]]. destruct (A e2 ltac:(lia) W1) as [_ [_ [P2 _]]].
    apply node_cond; [apply (P2 1); lia|apply (P1 1); lia| |exact Hr].
    intros x ->. cbn in Hd. destruct (A x ltac:(lia) W2) as [_ [_ [P3 _]]]. apply (P3 0). lia.
  - bad_lvl.
  - bad_lvl.
  - bad_lvl.
  - (* EGetattr *) cbn [lvl entry]. apply pn_of_nlp. apply attr_NL. apply A; [lia|exact Hw].
  - bad_lvl.
  - bad_lvl.
  - cbn [lvl entry]. intros _. apply attr_NL. apply A; [lia|exact Hw].
  - (* EGetitem *) apply andb_true_iff in Hw. destruct Hw as [W1 W2].
    cbn [lvl entry]. apply pn_of_nlp. apply item_NL; [apply A|apply AG]; (lia || assumption).
  - bad_lvl.
  - bad_lvl.
  - apply andb_true_iff in Hw. destruct Hw as [W1 W2]. cbn [lvl entry]. intros _. apply item_NL; [apply A|apply AG]; (lia || assumption).
  - (* ESlice *) repeat (apply andb_true_iff in Hw; let W := fresh "W" in destruct Hw as [Hw W]).
    cbn [lvl entry]. apply pn_of_nlp. apply slice_NL; [apply A; [lia|exact Hw]|apply AO; [lia|assumption]..].
  - bad_lvl.
  - bad_lvl.
  - repeat (apply andb_true_iff in Hw; let W := fresh "W" in destruct Hw as [Hw W]).
    cbn [lvl entry]. intros _. apply slice_NL; [apply A; [lia|exact Hw]|apply AO; [lia|assumption]..].
  - (* EList *) cbn [lvl entry]. intros r Hr. apply prim_list. apply AL; [lia|exact Hw].
  - bad_lvl.
  - bad_lvl.
  - bad_lvl.
  - (* ETuple *) cbn [lvl entry]. intros r Hr. apply prim_tuple. apply AL; [lia|exact Hw].
  - bad_lvl.
  - bad_lvl.
  - bad_lvl.
  - (* EDict *) cbn [lvl entry]. intros r Hr. apply prim_dict. intros p Hp.
    pose proof (list_max_in (fun p : expr * expr => Nat.max (depth (fst p)) (depth (snd p))) kvs p Hp) as Hm. cbn beta in Hm.
    pose proof (forallb_In _ kvs p Hw Hp) as Wp. cbn beta in Wp. apply andb_true_iff in Wp. destruct Wp as [Wk Wv].
    split; apply AG; (lia || assumption).
  - bad_lvl.
  - bad_lvl.
  - bad_lvl.
  - (* ECall *) apply andb_true_iff in Hw. destruct Hw as [W01 W2]. apply andb_true_iff in W01. destruct W01 as [W0 W1].
    cbn [lvl entry]. apply pn_of_nlp. apply call_NL; [apply A; [lia|exact W0]|apply AL; [lia|exact W1]|].
    intros p Hp. apply AG; [pose proof (list_max_in (fun p : str * expr => depth (snd p)) kwargs p Hp); cbn in *; lia|].
    apply (forallb_In (fun p : str * expr => wf (snd p)) kwargs p W2 Hp).
  - bad_lvl.
  - bad_lvl.
  - apply andb_true_iff in Hw. destruct Hw as [W01 W2]. apply andb_true_iff in W01. destruct W01 as [W0 W1].
    cbn [lvl entry]. intros _. apply call_NL; [apply A; [lia|exact W0]|apply AL; [lia|exact W1]|].
    intros p Hp. apply AG; [pose proof (list_max_in (fun p : str * expr => depth (snd p)) kwargs p Hp); cbn in *; lia|].
    apply (forallb_In (fun p : str * expr => wf (snd p)) kwargs p W2 Hp).
  - (* EFilter *) apply andb_true_iff in Hw. destruct Hw as [W0 W1].
    cbn [lvl entry]. apply pn_of_nlf. apply filter_NL; [apply A; [lia|exact W0]|apply AL; [lia|exact W1]].
  - bad_lvl.
  - apply andb_true_iff in Hw. destruct Hw as [W0 W1].
    cbn [lvl entry]. intros _. apply filter_NL; [apply A; [lia|exact W0]|apply AL; [lia|exact W1]].
  - bad_lvl.
  - (* ETest *) apply andb_true_iff in Hw. destruct Hw as [W0 W1]. apply andb_true_iff in W0. destruct W0 as [Wn W0]. apply negb_true_iff in Wn.
    cbn [lvl entry]. apply pn_of_nlf. apply test_NL; [exact Wn|apply A; [lia|exact W0]|apply AL; [lia|exact W1]].
  - bad_lvl.
  - apply andb_true_iff in Hw. destruct Hw as [W0 W1]. apply andb_true_iff in W0. destruct W0 as [Wn W0]. apply negb_true_iff in Wn.
    cbn [lvl entry]. intros _. apply test_NL; [exact Wn|apply A; [lia|exact W0]|apply AL; [lia|exact W1]].
  - bad_lvl.
Qed.

(* ---- the theorem ---- *)
Theorem parse_unparse_enough_fuel : forall e, wf e = true ->
  exists m0, forall m, m0 <= m -> p_cond (kit_of m) (unparse e) = ROk e [].
Proof.
  intros e Hw. destruct (all_facts (depth e) e (le_n _) Hw) as [_ [_ [P _]]].
  destruct (P 0 ltac:(lia) [] eq_refl) as [m0 H]. exists m0. intros m Hm. specialize (H m Hm).
  rewrite app_nil_r in H. rewrite pr_raw in H by lia. exact H.
Qed.
