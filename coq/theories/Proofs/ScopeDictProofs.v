(* Lemmas about the insertion-ordered dictionaries / name sets of Model/ScopeAst.v. *)
From Coq Require Import List NArith ZArith Bool Arith Lia.
Import ListNotations.
From JV Require Import Model.ScopeAst.

Lemma ident_eqb_eq : forall a b : ident, ident_eqb a b = true <-> a = b.
Proof.
  intros [l x] [l' x']. unfold ident_eqb; cbn [fst snd]. rewrite andb_true_iff, Nat.eqb_eq, N.eqb_eq.
  split; [intros [-> ->]; reflexivity | intros H; injection H as -> ->; auto].
Qed.
Lemma ident_eqb_refl : forall a, ident_eqb a a = true.
Proof. intros a. apply ident_eqb_eq. reflexivity. Qed.
Lemma ident_eqb_neq : forall a b : ident, a <> b -> ident_eqb a b = false.
Proof. intros a b H. destruct (ident_eqb a b) eqn:E; [apply ident_eqb_eq in E; contradiction | reflexivity]. Qed.

Lemma NoDup_snoc : forall {A} (l : list A) (a : A), NoDup l -> ~ In a l -> NoDup (l ++ [a]).
Proof.
  intros A l a H. induction H as [|x l Hx Hl IH]; cbn; intros Hn.
  - constructor; [tauto|constructor].
  - constructor.
    + rewrite in_app_iff. cbn. intros [H|[H|[]]]; [auto|subst; apply Hn; auto].
    + apply IH. intros H. apply Hn. auto.
Qed.

Section DictLemmas.
  Context {K V : Type} (eqb : K -> K -> bool).
  Hypothesis eqb_eq : forall a b, eqb a b = true <-> a = b.

  Lemma eqb_refl' : forall a, eqb a a = true. Proof. intros a. apply eqb_eq. reflexivity. Qed.
  Lemma eqb_neq' : forall a b, a <> b -> eqb a b = false.
  Proof. intros a b H. destruct (eqb a b) eqn:E; [apply eqb_eq in E; contradiction | reflexivity]. Qed.

  Lemma dget_dset_same : forall (k : K) (v : V) m, dget eqb k (dset eqb k v m) = Some v.
  Proof.
    intros k v m. induction m as [|[k' v'] r IH]; cbn.
    - rewrite eqb_refl'. reflexivity.
    - destruct (eqb k k') eqn:E; cbn; rewrite ?eqb_refl', ?E; auto.
  Qed.
  Lemma dget_dset_other : forall (k k' : K) (v : V) m, k' <> k -> dget eqb k' (dset eqb k v m) = dget eqb k' m.
  Proof.
    intros k k' v m Hne. induction m as [|[k2 v2] r IH]; cbn.
    - rewrite (eqb_neq' k' k Hne). reflexivity.
    - destruct (eqb k k2) eqn:E; cbn.
      + apply eqb_eq in E. subst k2. rewrite (eqb_neq' k' k Hne). reflexivity.
      + destruct (eqb k' k2); auto.
  Qed.
  Lemma dget_dset : forall (k k' : K) (v : V) m,
    dget eqb k' (dset eqb k v m) = if eqb k' k then Some v else dget eqb k' m.
  Proof.
    intros. destruct (eqb k' k) eqn:E.
    - apply eqb_eq in E. subst. apply dget_dset_same.
    - apply dget_dset_other. intros ->. rewrite eqb_refl' in E. discriminate.
  Qed.
  Lemma dhas_dset : forall (k k' : K) (v : V) m,
    dhas eqb k' (dset eqb k v m) = eqb k' k || dhas eqb k' m.
  Proof. intros. unfold dhas. rewrite dget_dset. destruct (eqb k' k); reflexivity. Qed.

  Lemma In_dset : forall (k : K) (v : V) m kv, In kv (dset eqb k v m) -> kv = (k, v) \/ In kv m.
  Proof.
    intros k v m kv. induction m as [|[k2 v2] r IH]; cbn.
    - intros [<-|[]]; auto.
    - destruct (eqb k k2); cbn; intros [<-|H]; auto. destruct (IH H); auto.
  Qed.
  Lemma dget_In : forall (k : K) (v : V) m, dget eqb k m = Some v -> In (k, v) m.
  Proof.
    intros k v m. induction m as [|[k2 v2] r IH]; cbn; [discriminate|].
    destruct (eqb k k2) eqn:E.
    - apply eqb_eq in E. subst. intros H; injection H as ->. auto.
    - auto.
  Qed.

  Definition keys (m : list (K * V)) : list K := map fst m.
  Lemma keys_dset : forall (k : K) (v : V) m,
    keys (dset eqb k v m) = if dhas eqb k m then keys m else keys m ++ [k].
  Proof.
    intros k v m. unfold dhas, keys. induction m as [|[k2 v2] r IH]; cbn; [reflexivity|].
    destruct (eqb k k2) eqn:E; cbn.
    - apply eqb_eq in E. subst. reflexivity.
    - rewrite IH. destruct (dget eqb k r); reflexivity.
  Qed.
  Lemma dhas_In_keys : forall (k : K) (m : list (K * V)), dhas eqb k m = true <-> In k (keys m).
  Proof.
    intros k m. unfold dhas, keys. induction m as [|[k2 v2] r IH]; cbn; [split; [discriminate|tauto]|].
    destruct (eqb k k2) eqn:E.
    - apply eqb_eq in E. subst. tauto.
    - rewrite IH. split; [auto|intros [->|H]; [rewrite eqb_refl' in E; discriminate|auto]].
  Qed.
  Lemma nodup_dset : forall (k : K) (v : V) m, NoDup (keys m) -> NoDup (keys (dset eqb k v m)).
  Proof.
    intros k v m H. rewrite keys_dset. destruct (dhas eqb k m) eqn:E; [exact H|].
    apply NoDup_snoc; auto. intros Hin. apply dhas_In_keys in Hin. congruence.
  Qed.
  Lemma In_dget_nodup : forall (k : K) (v : V) m, NoDup (keys m) -> In (k, v) m -> dget eqb k m = Some v.
  Proof.
    intros k v m. induction m as [|[k2 v2] r IH]; cbn; [tauto|].
    intros Hnd [H|H].
    - injection H as -> ->. rewrite eqb_refl'. reflexivity.
    - inversion Hnd as [|? ? Hn Hnd']; subst. destruct (eqb k k2) eqn:E.
      + apply eqb_eq in E. subst. exfalso. apply Hn. change (In (fst (k2, v)) (map fst r)). apply in_map. exact H.
      + auto.
  Qed.

  (* dupdate *)
  Lemma dhas_dupdate : forall (o m : list (K * V)) k,
    dhas eqb k (dupdate eqb m o) = dhas eqb k m || dhas eqb k o.
  Proof.
    unfold dupdate. induction o as [|[k2 v2] r IH]; intros m k; cbn [fold_left fst snd].
    - unfold dhas at 3. cbn. rewrite orb_false_r. reflexivity.
    - rewrite IH, dhas_dset. unfold dhas at 4. cbn. destruct (eqb k k2) eqn:E; cbn.
      + rewrite orb_true_r. reflexivity.
      + fold (dhas eqb k r). reflexivity.
  Qed.
  Lemma dget_dupdate_src : forall (o m : list (K * V)) k v,
    dget eqb k (dupdate eqb m o) = Some v -> dget eqb k m = Some v \/ In (k, v) o.
  Proof.
    unfold dupdate. induction o as [|[k2 v2] r IH]; intros m k v; cbn [fold_left fst snd]; [auto|].
    intros H. apply IH in H. destruct H as [H|H]; [|right; right; exact H].
    rewrite dget_dset in H. destruct (eqb k k2) eqn:E; [|auto].
    apply eqb_eq in E. subst. injection H as ->. right; left; reflexivity.
  Qed.
  Lemma nodup_dupdate : forall (o m : list (K * V)), NoDup (keys m) -> NoDup (keys (dupdate eqb m o)).
  Proof.
    unfold dupdate. induction o as [|[k2 v2] r IH]; intros m H; cbn [fold_left]; [exact H|].
    apply IH. apply nodup_dset. exact H.
  Qed.
  Lemma In_dupdate : forall (o m : list (K * V)) kv, In kv (dupdate eqb m o) -> In kv m \/ In kv o.
  Proof.
    unfold dupdate. induction o as [|[k2 v2] r IH]; intros m kv; cbn [fold_left fst snd]; [auto|].
    intros H. apply IH in H. destruct H as [H|H]; [|right; right; exact H].
    apply In_dset in H. destruct H as [->|H]; [right; left; reflexivity|auto].
  Qed.
End DictLemmas.

(* name sets *)
Lemma nmem_In : forall x s, nmem x s = true <-> In x s.
Proof.
  intros x s. induction s as [|y r IH]; cbn; [split; [discriminate|tauto]|].
  rewrite orb_true_iff, N.eqb_eq, IH. split; intros [H|H]; auto.
Qed.
Lemma nmem_false : forall x s, nmem x s = false <-> ~ In x s.
Proof. intros x s. rewrite <- nmem_In. destruct (nmem x s); split; congruence. Qed.
Lemma In_nadd : forall x y s, In y (nadd x s) <-> y = x \/ In y s.
Proof.
  intros x y s. unfold nadd. destruct (nmem x s) eqn:E.
  - apply nmem_In in E. split; [auto|intros [->|H]; auto].
  - rewrite in_app_iff. cbn. split; [intros [H|[H|[]]]; auto | intros [H|H]; auto].
Qed.
Lemma In_nunion : forall t s y, In y (nunion s t) <-> In y s \/ In y t.
Proof.
  unfold nunion. induction t as [|x r IH]; intros s y; cbn [fold_left]; [cbn; tauto|].
  rewrite IH, In_nadd. cbn. split; [intros [[->|H]|H]; auto | intros [H|[->|H]]; auto].
Qed.
Lemma In_ndiff : forall s t y, In y (ndiff s t) <-> In y s /\ ~ In y t.
Proof. intros s t y. unfold ndiff. rewrite filter_In, negb_true_iff, nmem_false. tauto. Qed.
