(* C25 — lemmas about the template-cache model. *)
From Coq Require Import List NArith ZArith Bool Lia.
Import ListNotations.
From JV Require Import Model.LRU Spec.LRUSpec Proofs.LRUProofs Model.Tc Spec.TcSpec.
Open Scope N_scope.

Ltac splits := repeat match goal with |- _ /\ _ => split end.

Definition cache_lookup (c : cache_t) (k : name) : option tid :=
  match c with CNone => None | CDict d => dget d k | CLru s => dget (mapping s) k end.
Definition cache_ok (c : cache_t) : Prop := match c with CLru s => Inv s | _ => True end.
Definition same_kind (c c' : cache_t) : Prop :=
  match c, c' with
  | CNone, CNone => True
  | CDict _, CDict _ => True
  | CLru s, CLru s' => cap s' = cap s
  | _, _ => False
  end.

Record WF (e : env) : Prop := {
  wf_next : 1 <= next e;
  wf_cache : cache_ok (cache e);
  wf_entries : forall k t, cache_lookup (cache e) k = Some t -> 1 <= t < next e /\ t_name (heap e t) = k }.

(* ------------------------------------------------------------------ LRU facts *)
Lemma getitem_mapping s k s' x : getitem s k = (s', x) -> mapping s' = mapping s.
Proof.
  unfold getitem. destruct (lookup k (mapping s)); [|intros [= <- _]; reflexivity].
  destruct (rev (queue s)) as [|lastk r]; [intros [= <- _]; reflexivity|].
  destruct (lastk =? k); intros [= <- _]; reflexivity.
Qed.

Lemma lru_get_spec s k s' x : Inv s -> LRU.get s k 0 = (s', x) ->
  Inv s' /\ cap s' = cap s /\ mapping s' = mapping s /\
  x = OVal (match dget (mapping s) k with Some v => v | None => 0 end).
Proof.
  intros I H. unfold LRU.get in H. destruct (getitem s k) as [s1 x1] eqn:G.
  destruct (getitem_refines s k s1 x1 I G) as [R [I1 C1]].
  pose proof (getitem_mapping s k s1 x1 G) as M.
  cbn [sstep] in R. rewrite (sfind_abs s k I) in R.
  destruct (dget (mapping s) k) as [v|]; injection R as _ <-; injection H as <- <-; auto.
Qed.

Lemma setitem_mapping s k v s' x : setitem s k v = (s', x) ->
  forall k' t', dget (mapping s') k' = Some t' -> (k' = k /\ t' = v) \/ dget (mapping s) k' = Some t'.
Proof.
  unfold setitem, lookup. intros H k' t' D.
  destruct (dget (mapping s) k) as [old|].
  - destruct (qremove k (queue s)) as [q'|]; injection H as <- _; [|now right].
    cbn [mapping mset dget] in D. destruct (k' =? k) eqn:E; [|now right].
    apply N.eqb_eq in E. injection D as <-. now left.
  - destruct (mlen (mapping s) =? cap s).
    + destruct (queue s) as [|o q']; [injection H as <- _; now right|].
      destruct (dget (mapping s) o); injection H as <- _; [|now right].
      cbn [mapping mset mdel dget] in D. destruct (k' =? k) eqn:E.
      * apply N.eqb_eq in E. injection D as <-. now left.
      * destruct (k' =? o); [discriminate|now right].
    + injection H as <- _. cbn [mapping mset dget] in D. destruct (k' =? k) eqn:E; [|now right].
      apply N.eqb_eq in E. injection D as <-. now left.
Qed.

Lemma setitem_stored s k v s' : setitem s k v = (s', ONone) -> dget (mapping s') k = Some v.
Proof.
  unfold setitem, lookup. intros H.
  destruct (dget (mapping s) k) as [old|].
  - destruct (qremove k (queue s)) as [q'|]; [|discriminate]. injection H as <-.
    cbn [mapping mset dget]. now rewrite N.eqb_refl.
  - destruct (mlen (mapping s) =? cap s).
    + destruct (queue s) as [|o q']; [discriminate|].
      destruct (dget (mapping s) o); [|discriminate]. injection H as <-.
      cbn [mapping mset dget]. now rewrite N.eqb_refl.
    + injection H as <-. cbn [mapping mset dget]. now rewrite N.eqb_refl.
Qed.

(* ------------------------------------------------------------------ cache access *)
Lemma cache_get_spec c k c' r : cache_ok c -> cache_get c k = (c', r) ->
  cache_ok c' /\ same_kind c c' /\ (forall k', cache_lookup c' k' = cache_lookup c k') /\
  r <> CCrash /\ (forall t, r = CHit t -> cache_lookup c k = Some t /\ t <> 0).
Proof.
  intros I H. destruct c as [|d|s]; cbn [cache_get] in H.
  - injection H as <- <-. splits; try exact I; try reflexivity; try discriminate.
  - injection H as <- <-. split; [exact I|]. split; [exact I|]. split; [reflexivity|]. split.
    + destruct (dget d k) as [t|]; [destruct (t =? 0)|]; discriminate.
    + intros t. cbn [cache_lookup]. destruct (dget d k) as [t0|] eqn:E; [|discriminate].
      destruct (t0 =? 0) eqn:Z; [discriminate|]. intros [= <-]. split; [reflexivity|now apply N.eqb_neq].
  - destruct (LRU.get s k 0) as [s1 x] eqn:G. destruct (lru_get_spec s k s1 x I G) as (I1 & C1 & M1 & ->).
    injection H as <- <-. cbn [cache_ok same_kind cache_lookup]. rewrite M1.
    split; [exact I1|]. split; [exact C1|]. split; [reflexivity|]. split.
    + destruct (dget (mapping s) k) as [t|]; [destruct (t =? 0)|]; discriminate.
    + intros t. destruct (dget (mapping s) k) as [t0|] eqn:E; [|discriminate].
      destruct (t0 =? 0) eqn:Z; [discriminate|]. intros [= <-]. split; [reflexivity|now apply N.eqb_neq].
Qed.

Lemma cache_set_spec c k t c' ok : cache_ok c -> cache_set c k t = (c', ok) ->
  cache_ok c' /\ same_kind c c' /\ ok = true /\
  (forall k' t', cache_lookup c' k' = Some t' -> (k' = k /\ t' = t) \/ cache_lookup c k' = Some t') /\
  (c <> CNone -> cache_lookup c' k = Some t).
Proof.
  intros I H. destruct c as [|d|s]; cbn [cache_set] in H.
  - injection H as <- <-. split; [exact I|]. split; [exact I|]. split; [reflexivity|].
    split; [intros; now right|congruence].
  - injection H as <- <-. split; [exact I|]. split; [exact I|]. split; [reflexivity|]. split.
    + intros k' t' D. cbn [cache_lookup mset dget] in *. destruct (k' =? k) eqn:E; [|now right].
      apply N.eqb_eq in E. injection D as <-. now left.
    + intros _. cbn [cache_lookup mset dget]. now rewrite N.eqb_refl.
  - destruct (setitem s k t) as [s1 x] eqn:S.
    destruct (setitem_refines s k t s1 x I S) as [R [I1 C1]]. cbn [sstep] in R. injection R as _ <-.
    injection H as <- <-. cbn [cache_ok same_kind cache_lookup].
    split; [exact I1|]. split; [exact C1|]. split; [reflexivity|]. split.
    + exact (setitem_mapping s k t s1 ONone S).
    + intros _. exact (setitem_stored s k t s1 S).
Qed.

(* ------------------------------------------------------------------ one load *)
Lemma wf_set_cache e c : WF e -> cache_ok c -> (forall k, cache_lookup c k = cache_lookup (cache e) k) -> WF (set_cache e c).
Proof.
  intros W I L. constructor; cbn [set_cache next cache heap].
  - exact (wf_next e W).
  - exact I.
  - intros k t D. rewrite L in D. exact (wf_entries e W k t D).
Qed.

(* what reload does, given the cache state c1 left by the lookup *)
Lemma reload_spec e c1 n e' r : WF e -> cache_ok c1 -> same_kind (cache e) c1 ->
  (forall k, cache_lookup c1 k = cache_lookup (cache e) k) ->
  reload e c1 n = (e', r) ->
  WF e' /\ loader e' = loader e /\ auto_reload e' = auto_reload e /\ upt e' = upt e /\
  same_kind (cache e) (cache e') /\
  match loader e n with
  | Some v => r = RTpl (next e) v /\ next e' = next e + 1 /\ heap e' (next e) = {| t_name := n; t_ver := v |} /\
              (forall t, t < next e -> heap e' t = heap e t) /\
              (cache e <> CNone -> cache_lookup (cache e') n = Some (next e))
  | None => r = RNotFound /\ next e' = next e /\ heap e' = heap e /\
            (forall k, cache_lookup (cache e') k = cache_lookup (cache e) k)
  end.
Proof.
  intros W I1 K1 L1 H. unfold reload in H. destruct (loader e n) as [v|].
  - destruct (cache_set c1 n (next e)) as [c2 ok] eqn:S.
    destruct (cache_set_spec c1 n (next e) c2 ok I1 S) as (I2 & K2 & -> & L2 & St).
    injection H as <- <-. cbn [loader auto_reload upt cache next heap].
    pose proof (wf_next e W) as Hn.
    split; [|splits; try reflexivity].
    + constructor; cbn [next cache heap]; [lia|exact I2|].
      intros k t D. destruct (L2 k t D) as [[-> ->]|D'].
      * rewrite N.eqb_refl. cbn. split; [lia|reflexivity].
      * rewrite L1 in D'. destruct (wf_entries e W k t D') as [Ht Hk].
        destruct (t =? next e) eqn:E; [apply N.eqb_eq in E; lia|]. split; [lia|exact Hk].
    + destruct (cache e), c1, c2; cbn in *; try contradiction; try exact I; congruence.
    + now rewrite N.eqb_refl.
    + intros t Ht. destruct (t =? next e) eqn:E; [apply N.eqb_eq in E; lia|reflexivity].
    + intros Hc. apply St. destruct (cache e), c1; cbn in K1; try contradiction; congruence.
  - injection H as <- <-. split; [exact (wf_set_cache e c1 W I1 L1)|].
    cbn [set_cache loader auto_reload upt cache next heap]. splits; try reflexivity; assumption.
Qed.

Lemma load_spec e n e' r : WF e -> load_template e n = (e', r) ->
  WF e' /\ loader e' = loader e /\ auto_reload e' = auto_reload e /\ upt e' = upt e /\
  same_kind (cache e) (cache e') /\ next e <= next e' /\ r <> RCrash /\
  (forall t, t < next e -> heap e' t = heap e t).
Proof.
  intros W H. unfold load_template in H.
  destruct (cache_get (cache e) n) as [c1 cr] eqn:G.
  destruct (cache_get_spec _ _ _ _ (wf_cache e W) G) as (I1 & K1 & L1 & NC & Hit).
  assert (R : forall e' r, reload e c1 n = (e', r) ->
            WF e' /\ loader e' = loader e /\ auto_reload e' = auto_reload e /\ upt e' = upt e /\
            same_kind (cache e) (cache e') /\ next e <= next e' /\ r <> RCrash /\
            (forall t, t < next e -> heap e' t = heap e t)).
  { intros e0 r0 H0. destruct (reload_spec e c1 n e0 r0 W I1 K1 L1 H0) as (W' & E1 & E2 & E3 & K' & M).
    splits; try assumption; destruct (loader e n); destruct M as (-> & Hn & M).
    - lia.
    - lia.
    - discriminate.
    - discriminate.
    - destruct M as (_ & M & _). exact M.
    - destruct M as [-> _]. reflexivity. }
  destruct cr as [t| |]; [|exact (R _ _ H)|congruence].
  destruct (negb (auto_reload e) || is_up_to_date e t); [|exact (R _ _ H)].
  injection H as <- <-. split; [exact (wf_set_cache e c1 W I1 L1)|].
  cbn [set_cache loader auto_reload upt cache next heap]. splits; try reflexivity; try assumption; try lia; try discriminate; auto.
Qed.

(* ------------------------------------------------------------------ autoreload: current version *)
Lemma load_current e n e' r : WF e -> auto_reload e = true -> upt_correct (upt e) = true ->
  load_template e n = (e', r) ->
  match loader e n with Some v => exists t, r = RTpl t v | None => r = RNotFound end.
Proof.
  intros W A U H. unfold load_template in H.
  destruct (cache_get (cache e) n) as [c1 cr] eqn:G.
  destruct (cache_get_spec _ _ _ _ (wf_cache e W) G) as (I1 & K1 & L1 & NC & Hit).
  assert (R : forall e' r, reload e c1 n = (e', r) ->
            match loader e n with Some v => exists t, r = RTpl t v | None => r = RNotFound end).
  { intros e0 r0 H0. destruct (reload_spec e c1 n e0 r0 W I1 K1 L1 H0) as (_ & _ & _ & _ & _ & M).
    destruct (loader e n); destruct M as [-> _]; [now exists (next e)|reflexivity]. }
  destruct cr as [t| |]; [|exact (R _ _ H)|congruence].
  rewrite A in H. cbn [negb orb] in H. unfold is_up_to_date in H.
  destruct (Hit t eq_refl) as [D _]. destruct (wf_entries e W n t D) as [_ Hk].
  destruct (upt e) as [| |b]; [discriminate| |destruct b; [discriminate|exact (R _ _ H)]].
  rewrite Hk in H. destruct (loader e n) as [v|] eqn:Ln; cbn [opt_eqb] in H.
  - destruct (v =? t_ver (heap e t)) eqn:E.
    + apply N.eqb_eq in E. injection H as _ <-. exists t. now rewrite E.
    + exact (R _ _ H).
  - exact (R _ _ H).
Qed.

Lemma select_spec ns : forall e e' r, WF e -> select_template e ns = (e', r) ->
  WF e' /\ loader e' = loader e /\ auto_reload e' = auto_reload e /\ upt e' = upt e /\
  same_kind (cache e) (cache e') /\ next e <= next e' /\ r <> RCrash /\
  (forall t, t < next e -> heap e' t = heap e t).
Proof.
  induction ns as [|n ns IH]; intros e e' r W H; cbn [select_template] in H.
  - injection H as <- <-. splits; try assumption; try reflexivity; try lia; try discriminate.
    destruct (cache e); cbn; auto.
  - destruct (load_template e n) as [e1 r1] eqn:L.
    destruct (load_spec e n e1 r1 W L) as (W1 & E1 & E2 & E3 & K1 & N1 & C1 & H1).
    destruct r1; try (injection H as <- <-; splits; assumption).
    destruct (IH _ _ _ W1 H) as (W2 & F1 & F2 & F3 & K2 & N2 & C2 & H2).
    splits; try assumption; try congruence; try lia.
    + destruct (cache e), (cache e1), (cache e'); cbn in *; try contradiction; try exact I; congruence.
    + intros t Ht. rewrite H2 by lia. now apply H1.
Qed.

Lemma select_current ns : forall e e' r, WF e -> auto_reload e = true -> upt_correct (upt e) = true ->
  select_template e ns = (e', r) ->
  match first_existing (loader e) ns with Some (_, v) => exists t, r = RTpl t v | None => r = RNotFound end.
Proof.
  induction ns as [|n ns IH]; intros e e' r W A U H; cbn [select_template first_existing] in *.
  - now injection H as _ <-.
  - destruct (load_template e n) as [e1 r1] eqn:L.
    pose proof (load_current e n e1 r1 W A U L) as C.
    destruct (load_spec e n e1 r1 W L) as (W1 & E1 & E2 & E3 & _).
    destruct (loader e n) as [v|].
    + destruct C as [t ->]. injection H as _ <-. now exists t.
    + subst r1. rewrite <- E1. apply (IH e1 e' r W1); congruence.
Qed.

Lemma step_wf e o e' x : WF e -> step e o = (e', x) ->
  WF e' /\ auto_reload e' = auto_reload e /\ upt e' = upt e /\ same_kind (cache e) (cache e') /\ next e <= next e' /\
  (forall t, t < next e -> heap e' t = heap e t).
Proof.
  intros W H. destruct o as [n|ns|n v|n]; cbn [step] in H.
  - destruct (load_template e n) as [e1 r] eqn:L. injection H as <- _.
    destruct (load_spec e n e1 r W L) as (W1 & _ & E2 & E3 & K & N1 & _ & Hh). splits; assumption.
  - destruct (select_template e ns) as [e1 r] eqn:L. injection H as <- _.
    destruct (select_spec ns e e1 r W L) as (W1 & _ & E2 & E3 & K & N1 & _ & Hh). splits; assumption.
  - injection H as <- _. split; [destruct W; constructor; assumption|].
    cbn. splits; try reflexivity; try lia. destruct (cache e); cbn; auto.
  - injection H as <- _. split; [destruct W; constructor; assumption|].
    cbn. splits; try reflexivity; try lia. destruct (cache e); cbn; auto.
Qed.

Lemma step_loader e o : loader (fst (step e o)) = loader_after (loader e) [o].
Proof.
  destruct o as [n|ns|n v|n]; cbn [step loader_after].
  - destruct (load_template e n) as [e1 r] eqn:L. cbn [fst]. unfold load_template in L.
    destruct (cache_get (cache e) n) as [c1 cr]. unfold reload in L.
    destruct cr; [destruct (negb (auto_reload e) || is_up_to_date e t)| |];
      try (injection L as <- _; reflexivity);
      destruct (loader e n); try destruct (cache_set c1 n (next e)); injection L as <- _; reflexivity.
  - destruct (select_template e ns) as [e1 r] eqn:L. cbn [fst]. revert e e1 r L.
    induction ns as [|n ns IH]; intros e e1 r L; cbn [select_template] in L; [now injection L as <- _|].
    destruct (load_template e n) as [e2 r2] eqn:L2.
    assert (E : loader e2 = loader e).
    { unfold load_template in L2. destruct (cache_get (cache e) n) as [c1 cr]. unfold reload in L2.
      destruct cr; [destruct (negb (auto_reload e) || is_up_to_date e t)| |];
        try (injection L2 as <- _; reflexivity);
        destruct (loader e n); try destruct (cache_set c1 n (next e)); injection L2 as <- _; reflexivity. }
    destruct r2; try (injection L as <- _; exact E). rewrite <- E. exact (IH _ _ _ L).
  - reflexivity.
  - reflexivity.
Qed.

Lemma loader_after_app l h1 : forall h2, loader_after l (h1 ++ h2) = loader_after (loader_after l h1) h2.
Proof.
  revert l. induction h1 as [|o h1 IH]; intros l h2; [reflexivity|].
  destruct o; cbn [app loader_after]; apply IH.
Qed.

Lemma run_wf h : forall e e' xs, WF e -> run e h = (e', xs) ->
  WF e' /\ auto_reload e' = auto_reload e /\ upt e' = upt e /\ same_kind (cache e) (cache e') /\
  loader e' = loader_after (loader e) h /\ next e <= next e'.
Proof.
  induction h as [|o h IH]; intros e e' xs W H; cbn [run] in H.
  - injection H as <- _. splits; try assumption; try reflexivity; try lia. destruct (cache e); cbn; auto.
  - destruct (step e o) as [e1 x] eqn:S. destruct (run e1 h) as [e2 xs'] eqn:R. injection H as <- _.
    destruct (step_wf e o e1 x W S) as (W1 & A1 & U1 & K1 & N1 & _).
    destruct (IH _ _ _ W1 R) as (W2 & A2 & U2 & K2 & L2 & N2).
    splits; try assumption; try congruence; try lia.
    + destruct (cache e), (cache e1), (cache e2); cbn in *; try contradiction; try exact I; congruence.
    + change (o :: h) with ([o] ++ h). rewrite loader_after_app, <- (step_loader e o), S. exact L2.
Qed.

Lemma new_env_wf ar u size l : WF (new_env ar u size l).
Proof.
  constructor; cbn [new_env next cache heap]; [lia| |].
  - unfold create_cache. destruct (size =? 0)%Z eqn:E0; [exact I|]. destruct (size <? 0)%Z eqn:E1; [exact I|].
    cbn [cache_ok]. apply init_inv. lia.
  - intros k t. unfold create_cache. destruct (size =? 0)%Z; [discriminate|]. destruct (size <? 0)%Z; discriminate.
Qed.

(* ------------------------------------------------------------------ no auto_reload: sticky *)
Lemma load_sticky e n t e' r : WF e -> auto_reload e = false -> cache_lookup (cache e) n = Some t ->
  load_template e n = (e', r) ->
  r = RTpl t (t_ver (heap e t)) /\ heap e' = heap e /\ next e' = next e /\
  (forall k, cache_lookup (cache e') k = cache_lookup (cache e) k).
Proof.
  intros W A D H. unfold load_template in H.
  destruct (cache_get (cache e) n) as [c1 cr] eqn:G.
  destruct (cache_get_spec _ _ _ _ (wf_cache e W) G) as (I1 & K1 & L1 & NC & Hit).
  destruct (wf_entries e W n t D) as [Ht _].
  assert (cr = CHit t).
  { pose proof (wf_cache e W) as Ic. clear Hit L1 K1. revert G D Ic. generalize (cache e). intros c G D Ic.
    destruct c as [|d|s]; cbn [cache_get cache_lookup] in *.
    - discriminate.
    - injection G as _ <-. rewrite D. destruct (t =? 0) eqn:Z; [apply N.eqb_eq in Z; lia|reflexivity].
    - destruct (LRU.get s n 0) as [s1 x] eqn:Gs.
      destruct (lru_get_spec s n s1 x Ic Gs) as (_ & _ & _ & ->). rewrite D in G.
      injection G as _ <-. destruct (t =? 0) eqn:Z; [apply N.eqb_eq in Z; lia|reflexivity]. }
  subst cr. rewrite A in H. cbn [negb orb] in H. injection H as <- <-.
  cbn [set_cache heap next cache]. auto.
Qed.

Definition is_dict (c : cache_t) : Prop := match c with CDict _ => True | _ => False end.

Lemma load_dict_keeps e n k t e' r : WF e -> auto_reload e = false -> is_dict (cache e) ->
  cache_lookup (cache e) k = Some t -> load_template e n = (e', r) ->
  cache_lookup (cache e') k = Some t /\ heap e' t = heap e t.
Proof.
  intros W A Dk D H. destruct (wf_entries e W k t D) as [Ht _].
  destruct (load_spec e n e' r W H) as (_ & _ & _ & _ & _ & _ & _ & Hh).
  split; [|apply Hh; lia].
  destruct (cache e) as [|d|s] eqn:Ec; try contradiction. cbn [cache_lookup] in D.
  unfold load_template in H. rewrite Ec in H. cbn [cache_get] in H.
  assert (R : forall c0, c0 = CDict d -> forall e0 r0, reload e c0 n = (e0, r0) -> k <> n -> cache_lookup (cache e0) k = Some t).
  { intros c0 -> e0 r0 H0 Hk. unfold reload in H0. destruct (loader e n); cbn [cache_set] in H0; injection H0 as <- _.
    - cbn [cache cache_lookup mset dget]. apply N.eqb_neq in Hk. now rewrite Hk.
    - exact D. }
  destruct (N.eq_dec k n) as [->|Hk].
  - rewrite D in H. destruct (t =? 0) eqn:Z; [apply N.eqb_eq in Z; lia|].
    rewrite A in H. cbn [negb orb] in H. injection H as <- _. exact D.
  - destruct (dget d n) as [t0|]; [destruct (t0 =? 0)|];
      try (exact (R _ eq_refl _ _ H Hk)).
    rewrite A in H. cbn [negb orb] in H. injection H as <- _. exact D.
Qed.

Lemma load_kind_dict e n e' r : WF e -> is_dict (cache e) -> load_template e n = (e', r) -> is_dict (cache e').
Proof.
  intros W Dk H. destruct (load_spec e n e' r W H) as (_ & _ & _ & _ & K & _).
  destruct (cache e), (cache e'); cbn in *; try contradiction; exact I.
Qed.

Lemma step_dict_keeps e o k t e' x : WF e -> auto_reload e = false -> is_dict (cache e) ->
  cache_lookup (cache e) k = Some t -> step e o = (e', x) ->
  cache_lookup (cache e') k = Some t /\ heap e' t = heap e t /\ is_dict (cache e').
Proof.
  intros W A Dk D H. destruct o as [n|ns|n v|n]; cbn [step] in H.
  - destruct (load_template e n) as [e1 r] eqn:L. injection H as <- _.
    destruct (load_dict_keeps e n k t e1 r W A Dk D L). splits; try assumption.
    exact (load_kind_dict e n e1 r W Dk L).
  - destruct (select_template e ns) as [e1 r] eqn:L. injection H as <- _. clear x.
    revert e e1 r W A Dk D L. induction ns as [|n ns IH]; intros e e1 r W A Dk D L; cbn [select_template] in L.
    + injection L as <- _. auto.
    + destruct (load_template e n) as [e2 r2] eqn:L2.
      destruct (load_dict_keeps e n k t e2 r2 W A Dk D L2) as [D2 H2].
      pose proof (load_kind_dict e n e2 r2 W Dk L2) as Dk2.
      destruct (load_spec e n e2 r2 W L2) as (W2 & _ & A2 & _).
      destruct r2; try (injection L as <- _; auto).
      destruct (IH e2 e1 r W2 ltac:(congruence) Dk2 D2 L) as (X1 & X2 & X3).
      splits; try assumption. congruence.
  - injection H as <- _. cbn. auto.
  - injection H as <- _. cbn. auto.
Qed.

Lemma run_dict_keeps h : forall e k t e' xs, WF e -> auto_reload e = false -> is_dict (cache e) ->
  cache_lookup (cache e) k = Some t -> run e h = (e', xs) ->
  cache_lookup (cache e') k = Some t /\ heap e' t = heap e t.
Proof.
  induction h as [|o h IH]; intros e k t e' xs W A Dk D H; cbn [run] in H.
  - injection H as <- _. auto.
  - destruct (step e o) as [e1 x] eqn:S. destruct (run e1 h) as [e2 xs'] eqn:R. injection H as <- _.
    destruct (step_dict_keeps e o k t e1 x W A Dk D S) as (D1 & H1 & Dk1).
    destruct (step_wf e o e1 x W S) as (W1 & A1 & _).
    destruct (IH e1 k t e2 xs' W1 ltac:(congruence) Dk1 D1 R) as [D2 H2]. split; [exact D2|congruence].
Qed.

(* ------------------------------------------------------------------ the LRU cache: trace of cache operations *)
Lemma lru_run_app ops1 : forall s ops2, fst (LRU.run s (ops1 ++ ops2)) = fst (LRU.run (fst (LRU.run s ops1)) ops2).
Proof.
  induction ops1 as [|o r IH]; intros s ops2; [reflexivity|]. cbn [app LRU.run].
  destruct (LRU.step s o) as [s1 x]. specialize (IH s1 ops2).
  destruct (LRU.run s1 (r ++ ops2)) as [sa xa]. destruct (LRU.run s1 r) as [sb xb].
  cbn [fst] in *. exact IH.
Qed.

Lemma load_lru e n s e' r : cache e = CLru s -> load_template e n = (e', r) ->
  cache e' = CLru (fst (LRU.run s (load_trace e n))).
Proof.
  intros Ec H. unfold load_template in H. unfold load_trace. rewrite Ec in *. cbn [cache_get] in *.
  change (LRU.run s (Get n 0 :: ?l)) with (let '(s', x) := LRU.step s (Get n 0) in let '(s'', xs) := LRU.run s' l in (s'', x :: xs)).
  cbn [LRU.step]. destruct (LRU.get s n 0) as [s1 x].
  assert (R : forall e0 r0, reload e (CLru s1) n = (e0, r0) ->
            cache e0 = CLru (fst (LRU.run s1 match loader e n with Some _ => [SetItem n (next e)] | None => [] end))).
  { intros e0 r0 H0. unfold reload in H0. destruct (loader e n).
    - cbn [cache_set] in H0. cbn [LRU.run LRU.step]. destruct (setitem s1 n (next e)) as [s2 y].
      destruct y; injection H0 as <- _; reflexivity.
    - injection H0 as <- _. reflexivity. }
  destruct x as [|t| | | | | |]; cbn [snd] in *;
    try (injection H as <- _; cbn [set_cache cache]; reflexivity).
  destruct (t =? 0).
  - cbn [snd]. rewrite (R _ _ H). now destruct (LRU.run s1 _).
  - cbn [snd]. destruct (negb (auto_reload e) || is_up_to_date e t).
    + injection H as <- _. reflexivity.
    + rewrite (R _ _ H). now destruct (LRU.run s1 _).
Qed.

Lemma select_lru ns : forall e s e' r, cache e = CLru s -> select_template e ns = (e', r) ->
  cache e' = CLru (fst (LRU.run s (select_trace e ns))).
Proof.
  induction ns as [|n ns IH]; intros e s e' r Ec H; cbn [select_template select_trace] in *.
  - injection H as <- _. exact Ec.
  - destruct (load_template e n) as [e1 r1] eqn:L. pose proof (load_lru e n s e1 r1 Ec L) as E1.
    rewrite lru_run_app. destruct r1; try (injection H as <- _; cbn [LRU.run fst]; exact E1).
    exact (IH e1 _ e' r E1 H).
Qed.

Lemma run_lru h : forall e s e' xs, cache e = CLru s -> run e h = (e', xs) ->
  cache e' = CLru (fst (LRU.run s (run_trace e h))).
Proof.
  induction h as [|o h IH]; intros e s e' xs Ec H; cbn [run run_trace] in *.
  - injection H as <- _. exact Ec.
  - destruct (step e o) as [e1 x] eqn:S. destruct (run e1 h) as [e2 xs'] eqn:R. injection H as <- _.
    rewrite lru_run_app. cbn [fst].
    assert (E1 : cache e1 = CLru (fst (LRU.run s (step_trace e o)))).
    { destruct o as [n|ns|n v|n]; cbn [step step_trace] in *.
      - destruct (load_template e n) as [e0 r] eqn:L. injection S as <- _. exact (load_lru e n s e0 r Ec L).
      - destruct (select_template e ns) as [e0 r] eqn:L. injection S as <- _. exact (select_lru ns e s e0 r Ec L).
      - injection S as <- _. exact Ec.
      - injection S as <- _. exact Ec. }
    exact (IH e1 _ e2 xs' E1 R).
Qed.

(* ------------------------------------------------------------------ size 0: every load is a new object *)
Lemma load_none e n e' r : cache e = CNone -> load_template e n = (e', r) ->
  cache e' = CNone /\
  match r with
  | RTpl t _ => t = next e /\ next e' = next e + 1
  | _ => next e' = next e
  end.
Proof.
  intros Ec H. unfold load_template in H. rewrite Ec in H. cbn [cache_get] in H. unfold reload in H.
  destruct (loader e n); cbn [cache_set] in H; injection H as <- <-; cbn; auto.
Qed.

Lemma select_none ns : forall e e' r, cache e = CNone -> select_template e ns = (e', r) ->
  cache e' = CNone /\
  match r with
  | RTpl t _ => t = next e /\ next e' = next e + 1
  | _ => next e' = next e
  end.
Proof.
  induction ns as [|n ns IH]; intros e e' r Ec H; cbn [select_template] in H.
  - injection H as <- <-. auto.
  - destruct (load_template e n) as [e1 r1] eqn:L. destruct (load_none e n e1 r1 Ec L) as [E1 M].
    destruct r1; try (injection H as <- <-; auto).
    destruct (IH e1 e' r E1 H) as [E2 M2]. split; [exact E2|]. rewrite M in M2. exact M2.
Qed.

Lemma run_none h : forall e e' xs, cache e = CNone -> run e h = (e', xs) ->
  next e <= next e' /\ NoDup (tids xs) /\ forall t, In t (tids xs) -> next e <= t < next e'.
Proof.
  induction h as [|o h IH]; intros e e' xs Ec H; cbn [run] in H.
  - injection H as <- <-. cbn. split; [lia|]. split; [constructor|intros t []].
  - destruct (step e o) as [e1 x] eqn:S. destruct (run e1 h) as [e2 xs'] eqn:R. injection H as <- <-.
    assert (X : cache e1 = CNone /\ match x with
                                    | OutR (RTpl t _) _ => t = next e /\ next e1 = next e + 1
                                    | _ => next e1 = next e end).
    { destruct o as [n|ns|n v|n]; cbn [step] in S.
      - destruct (load_template e n) as [e0 r] eqn:L. injection S as <- <-. exact (load_none e n e0 r Ec L).
      - destruct (select_template e ns) as [e0 r] eqn:L. injection S as <- <-. exact (select_none ns e e0 r Ec L).
      - injection S as <- <-. cbn. auto.
      - injection S as <- <-. cbn. auto. }
    destruct X as [E1 M]. destruct (IH e1 e2 xs' E1 R) as (N2 & ND & B).
    destruct x as [r l|]; [destruct r as [t v| |]|]; cbn [tids].
    + destruct M as [-> M]. split; [lia|]. split.
      * constructor; [|exact ND]. intros Hin. apply B in Hin. lia.
      * intros t [<-|Hin]; [lia|]. apply B in Hin. lia.
    + rewrite M in *. auto.
    + rewrite M in *. auto.
    + rewrite M in *. auto.
Qed.

(* a template just handed out is the cached one for its name (when there is a cache) *)
Lemma load_result_cached e n e' t v : WF e -> cache e <> CNone -> load_template e n = (e', RTpl t v) ->
  cache_lookup (cache e') n = Some t /\ t_ver (heap e' t) = v.
Proof.
  intros W Hc H. unfold load_template in H.
  destruct (cache_get (cache e) n) as [c1 cr] eqn:G.
  destruct (cache_get_spec _ _ _ _ (wf_cache e W) G) as (I1 & K1 & L1 & NC & Hit).
  assert (R : forall e0, reload e c1 n = (e0, RTpl t v) -> cache_lookup (cache e0) n = Some t /\ t_ver (heap e0 t) = v).
  { intros e0 H0. destruct (reload_spec e c1 n e0 _ W I1 K1 L1 H0) as (_ & _ & _ & _ & _ & M).
    destruct (loader e n) as [v0|]; [|destruct M; discriminate].
    destruct M as (E & _ & Hh & _ & St). injection E as -> ->. split; [exact (St Hc)|now rewrite Hh]. }
  destruct cr as [t0| |]; [|exact (R _ H)|discriminate].
  destruct (negb (auto_reload e) || is_up_to_date e t0); [|exact (R _ H)].
  injection H as <- <- <-. cbn [set_cache cache heap]. destruct (Hit t0 eq_refl) as [D _].
  split; [now rewrite L1|reflexivity].
Qed.

(* proof of Properties.C25_autoreload_current *)
Lemma C25_autoreload_current_proof : forall u size l0 h n,
  upt_correct u = true ->
  let e := fst (run (new_env true u size l0) h) in
  loader e = loader_after l0 h /\
  match loader_after l0 h n with
  | Some v => exists t, snd (load_template e n) = RTpl t v
  | None => snd (load_template e n) = RNotFound
  end.
Proof.
  intros u size l0 h n U e. subst e.
  destruct (run (new_env true u size l0) h) as [e xs] eqn:R. cbn [fst].
  destruct (run_wf h _ _ _ (new_env_wf true u size l0) R) as (W & A & Up & _ & L & _).
  cbn [new_env auto_reload upt loader] in A, Up, L. split; [exact L|].
  destruct (load_template e n) as [e' r] eqn:Ld. cbn [snd]. rewrite <- L.
  apply (load_current e n e' r W A); [now rewrite Up|exact Ld].
Qed.

(* proof of Properties.C25_select_current *)
Lemma C25_select_current_proof : forall u size l0 h ns,
  upt_correct u = true ->
  let e := fst (run (new_env true u size l0) h) in
  match first_existing (loader_after l0 h) ns with
  | Some (_, v) => exists t, snd (select_template e ns) = RTpl t v
  | None => snd (select_template e ns) = RNotFound
  end.
Proof.
  intros u size l0 h ns U e. subst e.
  destruct (run (new_env true u size l0) h) as [e xs] eqn:R. cbn [fst].
  destruct (run_wf h _ _ _ (new_env_wf true u size l0) R) as (W & A & Up & _ & L & _).
  cbn [new_env auto_reload upt loader] in A, Up, L.
  destruct (select_template e ns) as [e' r] eqn:Ld. cbn [snd]. rewrite <- L.
  apply (select_current ns e e' r W A); [now rewrite Up|exact Ld].
Qed.

(* proof of Properties.C25_no_reload_sticky *)
Lemma C25_no_reload_sticky_proof : forall u size l0 h1 n t v e2 h2,
  (size < 0)%Z ->
  load_template (fst (run (new_env false u size l0) h1)) n = (e2, RTpl t v) ->
  snd (load_template (fst (run e2 h2)) n) = RTpl t v.
Proof.
  intros u size l0 h1 n t v e2 h2 Hs Ld.
  destruct (run (new_env false u size l0) h1) as [e1 xs1] eqn:R1. cbn [fst] in Ld.
  destruct (run_wf h1 _ _ _ (new_env_wf false u size l0) R1) as (W1 & A1 & _ & K1 & _).
  cbn [new_env auto_reload cache] in A1, K1.
  assert (D1 : is_dict (cache e1)).
  { unfold create_cache in K1. destruct (Z.eqb_spec size 0); [lia|]. destruct (Z.ltb_spec size 0); [|lia].
    destruct (cache e1); cbn in *; try contradiction; exact I. }
  destruct (load_spec e1 n e2 _ W1 Ld) as (W2 & _ & A2 & _ & K2 & _).
  assert (D2 : is_dict (cache e2)) by (destruct (cache e1), (cache e2); cbn in *; try contradiction; exact I).
  assert (Hc : cache e1 <> CNone) by (destruct (cache e1); cbn in D1; try contradiction; discriminate).
  destruct (load_result_cached e1 n e2 t v W1 Hc Ld) as [L2 V2].
  destruct (run e2 h2) as [e3 xs3] eqn:R3. cbn [fst].
  destruct (run_wf h2 _ _ _ W2 R3) as (W3 & A3 & _).
  destruct (run_dict_keeps h2 e2 n t e3 xs3 W2 ltac:(congruence) D2 L2 R3) as [L3 H3].
  destruct (load_template e3 n) as [e4 r] eqn:L4. cbn [snd].
  destruct (load_sticky e3 n t e4 r W3 ltac:(congruence) L3 L4) as [-> _]. now rewrite H3, V2.
Qed.

(* proof of Properties.C25_cache_bound_lru *)
Lemma C25_cache_bound_lru_proof : forall ar u size l0 h e' xs,
  (1 <= size)%Z ->
  run (new_env ar u size l0) h = (e', xs) ->
  let c := Z.to_N size in
  let ops := run_trace (new_env ar u size l0) h in
  exists s, cache e' = CLru s /\ s = fst (LRU.run (init c) ops) /\
            fst (srun c [] ops) = abs s /\ mlen (mapping s) <= c /\ cache_len (cache e') = Some (mlen (mapping s)).
Proof.
  intros ar u size l0 h e' xs Hs R c ops.
  assert (Ec : cache (new_env ar u size l0) = CLru (init c)).
  { cbn [new_env cache]. unfold create_cache. destruct (Z.eqb_spec size 0); [lia|]. destruct (Z.ltb_spec size 0); [lia|reflexivity]. }
  pose proof (run_lru h _ _ _ _ Ec R) as E. fold ops in E.
  exists (fst (LRU.run (init c) ops)). split; [exact E|]. split; [reflexivity|].
  assert (Hc : 1 <= c) by (unfold c; lia).
  destruct (LRU.run (init c) ops) as [s ys] eqn:Rl. cbn [fst].
  destruct (run_refines ops (init c) s ys (init_inv c Hc) Rl) as (Rf & I & C).
  cbn [cap init] in Rf, C. rewrite abs_init in Rf. rewrite Rf. cbn [fst].
  split; [reflexivity|]. split; [|rewrite E; reflexivity].
  unfold mlen. rewrite <- C. exact (inv_cap s I).
Qed.

Lemma wf_set_auto e b : WF e -> WF (set_auto e b).
Proof. intros [A B C]. constructor; assumption. Qed.

(* proof of Properties.C25_autoreload_current_after_toggle *)
Lemma C25_autoreload_current_after_toggle_proof : forall ar0 u size l0 h1 h2 n,
  upt_correct u = true ->
  let e1 := fst (run (new_env ar0 u size l0) h1) in
  let e2 := fst (run (set_auto e1 true) h2) in
  match loader_after (loader_after l0 h1) h2 n with
  | Some v => exists t, snd (load_template e2 n) = RTpl t v
  | None => snd (load_template e2 n) = RNotFound
  end.
Proof.
  intros ar0 u size l0 h1 h2 n U e1 e2. subst e1 e2.
  destruct (run (new_env ar0 u size l0) h1) as [e1 xs1] eqn:R1. cbn [fst].
  destruct (run_wf h1 _ _ _ (new_env_wf ar0 u size l0) R1) as (W1 & _ & U1 & _ & L1 & _).
  cbn [new_env upt loader] in U1, L1.
  destruct (run (set_auto e1 true) h2) as [e2 xs2] eqn:R2. cbn [fst].
  destruct (run_wf h2 _ _ _ (wf_set_auto e1 true W1) R2) as (W2 & A2 & U2 & _ & L2 & _).
  cbn [set_auto auto_reload upt loader] in A2, U2, L2.
  destruct (load_template e2 n) as [e' r] eqn:Ld. cbn [snd]. rewrite <- L1, <- L2.
  apply (load_current e2 n e' r W2 A2); [now rewrite U2, U1|exact Ld].
Qed.
