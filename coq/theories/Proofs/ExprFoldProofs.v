(* C08: as_const is sound, the optimizer and the compile-time output folding preserve the
   documented semantics, constants can be lifted into variables. *)
From Coq Require Import List NArith ZArith Bool Lia Arith.
Import ListNotations.
From JV Require Import Model.ExprAst Model.ExprPrim Spec.ExprSpec Model.ExprTarget Model.ExprFold Proofs.ExprProofs.

(* ---- small facts ---- *)
Lemma depth_pos e : 1 <= depth e.
Proof. destruct e; cbn; lia. Qed.

Lemma list_max_in {A} (f : A -> nat) (l : list A) x : In x l -> f x <= list_max (map f l).
Proof.
  induction l as [|y l IH]; intros H; [contradiction|].
  change (list_max (map f (y :: l))) with (Nat.max (f y) (list_max (map f l))).
  destruct H as [->|H]; [apply Nat.le_max_l|]. specialize (IH H). lia.
Qed.

Lemma guard_safe_const f v : guard_safe f = FConst v -> f = FConst v.
Proof. destruct f as [w| |]; cbn; try discriminate. destruct (safe_repr w); [auto|discriminate]. Qed.

Lemma of_res_const r v : of_res r = FConst v -> r = Ok v.
Proof. destruct r as [a|[]]; cbn; intros H; try discriminate. congruence. Qed.

Lemma bind_pure {A B} (m : M A) (f : A -> M B) a l : m l = (Ok a, l) -> bind m f l = f a l.
Proof. intros H. unfold bind. rewrite H. reflexivity. Qed.

Lemma prim_cmp_bool op a b t : prim_cmp op a b = Ok t -> exists r, t = VBool r.
Proof.
  unfold prim_cmp. destruct (is_float a || is_float b); [discriminate|].
  destruct op; try (intros H; injection H as <-; eauto);
    try (destruct (prim_contains a b); intros H; [injection H as <-; eauto|discriminate]);
    (destruct (is_undef a || is_undef b); [discriminate|];
     destruct (num_of a), (num_of b); try (intros H; injection H as <-; eauto);
     destruct (strlike a), (strlike b); try (intros H; injection H as <-; eauto);
     destruct a, b; discriminate).
Qed.

Lemma escape_mk v v' : escape v = Ok v' -> exists s, v' = VMk s.
Proof.
  unfold escape. destruct v; try (destruct (to_str _); intros H; [injection H as <-; eauto|discriminate]).
  intros H; injection H as <-; eauto.
Qed.

Lemma str_eqb_sym a : forall b, str_eqb a b = str_eqb b a.
Proof.
  induction a as [|x a IH]; destruct b as [|y b]; cbn; try reflexivity.
  rewrite IH, N.eqb_sym. reflexivity.
Qed.

(* ---- list helpers of as_const ---- *)
Lemma consts_sound (f : expr -> fres) (evn : expr -> M value) :
  forall es vs,
    consts f es = LConst vs ->
    (forall x v, In x es -> f x = FConst v -> forall l, evn x l = (Ok v, l)) ->
    forall l, mapM evn es l = (Ok vs, l).
Proof.
  induction es as [|x es IH]; intros vs H Hp l; cbn in *.
  - injection H as <-. reflexivity.
  - destruct (f x) as [v| |] eqn:Hx; try discriminate.
    destruct (consts f es) as [vs'| |] eqn:Hes; try discriminate. injection H as <-.
    rewrite (bind_pure _ _ v) by (apply Hp; auto).
    rewrite (bind_pure _ _ vs') by (apply IH; auto). reflexivity.
Qed.

Lemma cmp_consts_sound (f : expr -> fres) (evn : expr -> M value) :
  forall ops v r,
    cmp_consts f v ops = FConst r ->
    (forall p w, In p ops -> f (snd p) = FConst w -> forall l, evn (snd p) l = (Ok w, l)) ->
    forall l, cmp_chain evn v ops l = (Ok r, l).
Proof.
  induction ops as [|[op x] ops IH]; intros v r H Hp l; cbn in *.
  - injection H as <-. reflexivity.
  - destruct (f x) as [vb| |] eqn:Hx; try discriminate.
    rewrite (bind_pure _ _ vb) by (apply (Hp (op, x)); auto).
    destruct (prim_cmp op v vb) as [t|e] eqn:Hc; [|destruct e; discriminate].
    rewrite (bind_pure _ _ t) by reflexivity.
    destruct ops as [|p ops'].
    + injection H as <-. reflexivity.
    + destruct (truth t) eqn:Ht.
      * apply IH; [exact H|]. intros q w Hq. apply Hp. right. exact Hq.
      * injection H as <-. destruct (prim_cmp_bool _ _ _ _ Hc) as [b ->]. cbn in Ht. subst b. reflexivity.
Qed.

Lemma pair_consts_sound (f : expr -> fres) (evn : expr -> M value) :
  forall kvs ps,
    pair_consts f kvs = PConst ps ->
    (forall x v, In x (map fst kvs) \/ In x (map snd kvs) -> f x = FConst v -> forall l, evn x l = (Ok v, l)) ->
    forall l, mapM (fun kv : expr * expr => vk <- evn (fst kv) ;; vx <- evn (snd kv) ;; ret (vk, vx)) kvs l = (Ok ps, l).
Proof.
  induction kvs as [|[k x] kvs IH]; intros ps H Hp l; cbn in *.
  - injection H as <-. reflexivity.
  - destruct (f k) as [vk| |] eqn:Hk; try discriminate.
    destruct (f x) as [vx| |] eqn:Hx; try discriminate.
    destruct (pair_consts f kvs) as [ps'| |] eqn:Hr; try discriminate. injection H as <-.
    rewrite (bind_pure _ _ (vk, vx)).
    + rewrite (bind_pure _ _ ps'); [reflexivity|]. apply IH; [reflexivity|].
      intros y w Hy. apply Hp. destruct Hy; auto.
    + rewrite (bind_pure _ _ vk) by (apply Hp; auto). rewrite (bind_pure _ _ vx) by (apply Hp; auto). reflexivity.
Qed.

Lemma aco_sound (f : expr -> fres) (evn : expr -> M value) o k v :
  aco f o k = FConst v ->
  (forall x w, o = Some x -> f x = FConst w -> forall l, evn x l = (Ok w, l)) ->
  exists ov, k ov = FConst v /\ forall l, optM evn o l = (Ok ov, l).
Proof.
  destruct o as [x|]; cbn; intros H Hp.
  - destruct (f x) as [w| |] eqn:Hx; try discriminate. exists (Some w). split; [exact H|].
    intro l. rewrite (bind_pure _ _ w) by (apply (Hp x); auto). reflexivity.
  - exists None. split; [exact H|reflexivity].
Qed.

(* ---- as_const_sound ---- *)
Lemma as_const_n_sound O c :
  forall m e v, as_const_n O c m e = FConst v ->
  forall n, depth e <= n -> forall rho l, eval O c n e rho l = (Ok v, l).
Proof.
  induction m as [|m IH]; intros e v H n Hd rho l; [discriminate|].
  destruct n as [|n]; [pose proof (depth_pos e); lia|].
  assert (IHx : forall x w, as_const_n O c m x = FConst w -> depth x <= n -> forall l, eval O c n x rho l = (Ok w, l))
    by (intros; eapply IH; eauto).
  assert (IHl : forall es vs, consts (as_const_n O c m) es = LConst vs -> list_max (map depth es) <= n ->
                forall l, mapM (fun x => eval O c n x rho) es l = (Ok vs, l)).
  { intros es vs Hc Hm. apply (consts_sound (as_const_n O c m)); [exact Hc|].
    intros x w Hin Hx. apply IHx; [exact Hx|]. pose proof (list_max_in depth es x Hin). lia. }
  destruct e; cbn [as_const_n] in H; cbn [depth] in Hd; cbn [eval].
  - injection H as <-. reflexivity.
  - discriminate.
  - destruct (sandboxed c && ibin c op) eqn:Hi; [discriminate|].
    destruct (as_const_n O c m e1) as [va| |] eqn:Ha; try discriminate.
    destruct (as_const_n O c m e2) as [vb| |] eqn:Hb; try discriminate.
    apply of_res_const in H.
    rewrite (bind_pure _ _ va) by (apply IHx; [auto|lia]). rewrite (bind_pure _ _ vb) by (apply IHx; [auto|lia]).
    unfold apply_bin. rewrite Hi. unfold lift. rewrite H. reflexivity.
  - destruct (sandboxed c && iun c op) eqn:Hi; [discriminate|].
    destruct (as_const_n O c m e) as [va| |] eqn:Ha; try discriminate. apply of_res_const in H.
    rewrite (bind_pure _ _ va) by (apply IHx; [auto|lia]). unfold apply_un. rewrite Hi. unfold lift. rewrite H. reflexivity.
  - destruct (as_const_n O c m e) as [va| |] eqn:Ha; try discriminate. injection H as <-.
    rewrite (bind_pure _ _ va) by (apply IHx; [auto|lia]). reflexivity.
  - destruct (as_const_n O c m e1) as [va| |] eqn:Ha; try discriminate.
    rewrite (bind_pure _ _ va) by (apply IHx; [auto|lia]).
    destruct (truth va); [apply IHx; [auto|lia]|]. injection H as <-. reflexivity.
  - destruct (as_const_n O c m e1) as [va| |] eqn:Ha; try discriminate.
    rewrite (bind_pure _ _ va) by (apply IHx; [auto|lia]).
    destruct (truth va); [injection H as <-; reflexivity|]. apply IHx; [auto|lia].
  - destruct (volatile c) eqn:Hv; [discriminate|].
    destruct (consts (as_const_n O c m) es) as [vs| |] eqn:Hc; try discriminate. apply of_res_const in H.
    rewrite (bind_pure _ _ vs) by (apply IHl; [auto|lia]).
    unfold lift, spec_concat, ae_now. rewrite Hv, H. reflexivity.
  - destruct (as_const_n O c m e) as [va| |] eqn:Ha; try discriminate.
    rewrite (bind_pure _ _ va) by (apply IHx; [auto|lia]).
    apply (cmp_consts_sound (as_const_n O c m)); [exact H|].
    intros p w Hin Hp. apply IHx; [exact Hp|].
    pose proof (list_max_in (fun p : cmpop * expr => depth (snd p)) ops p Hin). cbn in *. lia.
  - destruct (as_const_n O c m e1) as [vt| |] eqn:Ht; try discriminate.
    rewrite (bind_pure _ _ vt) by (apply IHx; [auto|lia]).
    destruct (truth vt); [apply IHx; [auto|lia]|].
    destruct b as [b|]; [|discriminate]. apply IHx; [auto|cbn in Hd; lia].
  - destruct (as_const_n O c m e) as [va| |] eqn:Ha; try discriminate. apply of_res_const in H.
    rewrite (bind_pure _ _ va) by (apply IHx; [auto|lia]). unfold lift. rewrite <- env_getattr_spec, H. reflexivity.
  - destruct (as_const_n O c m e1) as [va| |] eqn:Ha; try discriminate.
    destruct (as_const_n O c m e2) as [vk| |] eqn:Hk; try discriminate. apply of_res_const in H.
    rewrite (bind_pure _ _ va) by (apply IHx; [auto|lia]). rewrite (bind_pure _ _ vk) by (apply IHx; [auto|lia]).
    unfold lift. rewrite <- env_getitem_spec, H. reflexivity.
  - destruct (as_const_n O c m e) as [va| |] eqn:Ha; try discriminate.
    rewrite (bind_pure _ _ va) by (apply IHx; [auto|lia]).
    destruct (aco_sound _ (fun x => eval O c n x rho) _ _ _ H) as [vlo [H1 E1]].
    { intros x w -> Hx. apply IHx; [auto|cbn in Hd; lia]. }
    destruct (aco_sound _ (fun x => eval O c n x rho) _ _ _ H1) as [vhi [H2 E2]].
    { intros x w -> Hx. apply IHx; [auto|cbn in Hd; lia]. }
    destruct (aco_sound _ (fun x => eval O c n x rho) _ _ _ H2) as [vst [H3 E3]].
    { intros x w -> Hx. apply IHx; [auto|cbn in Hd; lia]. }
    apply of_res_const in H3.
    rewrite (bind_pure _ _ vlo) by apply E1. rewrite (bind_pure _ _ vhi) by apply E2.
    rewrite (bind_pure _ _ vst) by apply E3. unfold lift. rewrite H3. reflexivity.
  - destruct (consts (as_const_n O c m) es) as [vs| |] eqn:Hc; try discriminate. injection H as <-.
    rewrite (bind_pure _ _ vs) by (apply IHl; [auto|lia]). reflexivity.
  - destruct (consts (as_const_n O c m) es) as [vs| |] eqn:Hc; try discriminate. injection H as <-.
    rewrite (bind_pure _ _ vs) by (apply IHl; [auto|lia]). reflexivity.
  - destruct (pair_consts (as_const_n O c m) kvs) as [ps| |] eqn:Hc; try discriminate.
    destruct (mk_dict [] ps) as [d|] eqn:Hd2; [|discriminate]. injection H as <-.
    rewrite (bind_pure _ _ ps).
    + unfold lift. rewrite (bind_pure _ _ d) by (rewrite Hd2; reflexivity). reflexivity.
    + apply (pair_consts_sound (as_const_n O c m) (fun x => eval O c n x rho)); [exact Hc|].
      intros x w Hin Hx. apply IHx; [exact Hx|].
      destruct Hin as [Hin|Hin]; apply in_map_iff in Hin; destruct Hin as [p [<- Hin]];
        pose proof (list_max_in (fun p : expr * expr => Nat.max (depth (fst p)) (depth (snd p))) kvs p Hin); cbn in *; lia.
  - discriminate.
  - destruct (volatile c) eqn:Hv; [discriminate|].
    destruct (filter_kind name) as [[]|]; try discriminate;
      (destruct (is_async c && filter_async_variant name); [discriminate|];
       destruct (consts (as_const_n O c m) args) as [vargs| |] eqn:Hc; try discriminate;
       destruct (as_const_n O c m e) as [va| |] eqn:Ha; try discriminate; apply guard_safe_const in H; apply of_res_const in H;
       rewrite (bind_pure _ _ va) by (apply IHx; [auto|lia]);
       rewrite (bind_pure _ _ vargs) by (apply IHl; [auto|lia]);
       unfold lift, ae_now; rewrite Hv, H; reflexivity).
  - destruct (volatile c) eqn:Hv; [discriminate|].
    destruct (negb (test_known name)); [discriminate|].
    destruct (consts (as_const_n O c m) args) as [vargs| |] eqn:Hc; try discriminate.
    destruct (as_const_n O c m e) as [va| |] eqn:Ha; try discriminate. apply guard_safe_const in H. apply of_res_const in H.
    rewrite (bind_pure _ _ va) by (apply IHx; [auto|lia]).
    rewrite (bind_pure _ _ vargs) by (apply IHl; [auto|lia]).
    unfold lift. rewrite H. reflexivity.
Qed.

Theorem as_const_sound O c e v :
  as_const O c e = FConst v -> forall n, depth e <= n -> forall rho l, eval O c n e rho l = (Ok v, l).
Proof. unfold as_const. apply as_const_n_sound. Qed.

(* ---- the optimizer ---- *)
Lemma fold_sound O c e n : depth e <= n ->
  depth (fold O c e) <= depth e /\ forall rho l, eval O c n (fold O c e) rho l = eval O c n e rho l.
Proof.
  intros Hd. unfold fold. destruct (as_const O c e) as [v| |] eqn:Ha; try (split; [lia|reflexivity]).
  destruct (safe_repr v); [|split; [lia|reflexivity]]. split; [cbn; pose proof (depth_pos e); lia|].
  intros rho l. rewrite (as_const_sound O c e v Ha n Hd). destruct n; [pose proof (depth_pos e); lia|reflexivity].
Qed.

Lemma list_max_map_le {A} (f g : A -> nat) (l : list A) :
  (forall x, In x l -> f x <= g x) -> list_max (map f l) <= list_max (map g l).
Proof.
  induction l as [|x l IH]; intros H; [cbn; lia|].
  change (Nat.max (f x) (list_max (map f l)) <= Nat.max (g x) (list_max (map g l))).
  pose proof (H x (or_introl eq_refl)). assert (list_max (map f l) <= list_max (map g l)) by (apply IH; intros; apply H; right; auto). lia.
Qed.

Lemma mapM_ext_in {A B} (f g : A -> M B) (xs : list A) :
  (forall x, In x xs -> forall l, f x l = g x l) -> forall l, mapM f xs l = mapM g xs l.
Proof.
  induction xs as [|x xs IH]; intros H l; cbn; [reflexivity|].
  apply bind_ext; [apply H; left; reflexivity|]. intros a l1. apply bind_ext; [apply IH; intros; apply H; right; auto|reflexivity].
Qed.

Lemma cmp_chain_ext_in {X} (f g : X -> M value) :
  forall ops, (forall p, In p ops -> forall l, f (snd p) l = g (snd p) l) -> forall v l, cmp_chain f v ops l = cmp_chain g v ops l.
Proof.
  induction ops as [|[op x] r IH]; intros H v l; cbn; [reflexivity|].
  apply bind_ext; [apply (H (op, x)); left; reflexivity|]. intros vb l1. apply bind_ext; [reflexivity|]. intros t l2.
  destruct r; [reflexivity|]. destruct (truth t); [apply IH; intros; apply H; right; auto|reflexivity].
Qed.

(* a transformation T that, below fuel n, neither deepens an expression nor changes its meaning *)
Definition good (O : oracles) (c : cfg) (T : expr -> expr) (n : nat) : Prop :=
  forall e, depth e <= n -> depth (T e) <= depth e /\ forall rho l, eval O c n (T e) rho l = eval O c n e rho l.

Lemma omax_le T o : (forall x, o = Some x -> depth (T x) <= depth x) -> omax depth (option_map T o) <= omax depth o.
Proof. destruct o; cbn; intros H; [apply H; reflexivity|lia]. Qed.

Lemma optM_T O c T n rho o : (forall x, o = Some x -> forall l, eval O c n (T x) rho l = eval O c n x rho l) ->
  forall l, optM (fun x => eval O c n x rho) (option_map T o) l = optM (fun x => eval O c n x rho) o l.
Proof. destruct o; cbn; intros H l; [|reflexivity]. apply bind_ext; [apply H; reflexivity|reflexivity]. Qed.

(* one layer: rebuilding a node from transformed children *)
Definition rebuild (T : expr -> expr) (e : expr) : expr :=
  match e with
  | EConst v => EConst v
  | EName x => EName x
  | EBin op a b => EBin op (T a) (T b)
  | EUn op a => EUn op (T a)
  | ENot a => ENot (T a)
  | EAnd a b => EAnd (T a) (T b)
  | EOr a b => EOr (T a) (T b)
  | EConcat es => EConcat (map T es)
  | ECompare a ops => ECompare (T a) (map (fun p : cmpop * expr => (fst p, T (snd p))) ops)
  | ECond t a b => ECond (T t) (T a) (option_map T b)
  | EGetattr a name => EGetattr (T a) name
  | EGetitem a k => EGetitem (T a) (T k)
  | ESlice a lo hi st => ESlice (T a) (option_map T lo) (option_map T hi) (option_map T st)
  | EList es => EList (map T es)
  | ETuple es => ETuple (map T es)
  | EDict kvs => EDict (map (fun p : expr * expr => (T (fst p), T (snd p))) kvs)
  | ECall f args kw => ECall (T f) (map T args) (map (fun p : str * expr => (fst p, T (snd p))) kw)
  | EFilter a name args => EFilter (T a) name (map T args)
  | ETest a name args => ETest (T a) name (map T args)
  end.

Lemma rebuild_good O c T n : good O c T n -> forall e, depth e <= S n ->
  depth (rebuild T e) <= depth e /\ forall rho l, eval O c (S n) (rebuild T e) rho l = eval O c (S n) e rho l.
Proof.
  intros G e Hd.
  assert (Gd : forall x, depth x <= n -> depth (T x) <= depth x) by (intros x Hx; apply (G x Hx)).
  assert (Ge : forall x, depth x <= n -> forall rho l, eval O c n (T x) rho l = eval O c n x rho l) by (intros x Hx; apply (G x Hx)).
  assert (Gl : forall es, list_max (map depth es) <= n ->
     list_max (map depth (map T es)) <= list_max (map depth es) /\
     forall rho l, mapM (fun x => eval O c n x rho) (map T es) l = mapM (fun x => eval O c n x rho) es l).
  { intros es Hm. split.
    - rewrite map_map. apply list_max_map_le. intros x Hin. apply Gd. pose proof (list_max_in depth es x Hin). lia.
    - intros rho l. rewrite mapM_map. apply mapM_ext_in. intros x Hin l0. apply Ge. pose proof (list_max_in depth es x Hin). lia. }
  destruct e; cbn [rebuild depth] in *.
  - split; [lia|reflexivity].
  - split; [lia|reflexivity].
  - split; [pose proof (Gd e1); pose proof (Gd e2); lia|]. intros rho l. cbn [eval].
    apply bind_ext; [apply Ge; lia|]. intros va l1. apply bind_ext; [apply Ge; lia|reflexivity].
  - split; [pose proof (Gd e); lia|]. intros rho l. cbn [eval]. apply bind_ext; [apply Ge; lia|reflexivity].
  - split; [pose proof (Gd e); lia|]. intros rho l. cbn [eval]. apply bind_ext; [apply Ge; lia|reflexivity].
  - split; [pose proof (Gd e1); pose proof (Gd e2); lia|]. intros rho l. cbn [eval].
    apply bind_ext; [apply Ge; lia|]. intros va l1. destruct (truth va); [apply Ge; lia|reflexivity].
  - split; [pose proof (Gd e1); pose proof (Gd e2); lia|]. intros rho l. cbn [eval].
    apply bind_ext; [apply Ge; lia|]. intros va l1. destruct (truth va); [reflexivity|apply Ge; lia].
  - destruct (Gl es) as [G1 G2]; [lia|]. split; [lia|]. intros rho l. cbn [eval]. apply bind_ext; [apply G2|reflexivity].
  - assert (Hops : forall p, In p ops -> depth (snd p) <= n).
    { intros p Hin. pose proof (list_max_in (fun p : cmpop * expr => depth (snd p)) ops p Hin). cbn in *. lia. }
    split.
    + rewrite map_map. cbn [snd].
      assert (list_max (map (fun p : cmpop * expr => depth (T (snd p))) ops) <= list_max (map (fun p : cmpop * expr => depth (snd p)) ops)).
      { apply list_max_map_le. intros p Hin. apply Gd. apply Hops. exact Hin. }
      pose proof (Gd e). lia.
    + intros rho l. cbn [eval]. apply bind_ext; [apply Ge; lia|]. intros va l1.
      rewrite cmp_chain_map. apply cmp_chain_ext_in. intros p Hin l0. apply Ge. apply Hops. exact Hin.
  - split.
    + pose proof (Gd e1). pose proof (Gd e2).
      assert (omax depth (option_map T b) <= omax depth b) by (apply omax_le; intros x ->; apply Gd; cbn in Hd; lia). lia.
    + intros rho l. cbn [eval]. apply bind_ext; [apply Ge; lia|]. intros vt l1.
      destruct (truth vt); [apply Ge; lia|]. destruct b as [b|]; cbn; [apply Ge; cbn in Hd; lia|reflexivity].
  - split; [pose proof (Gd e); lia|]. intros rho l. cbn [eval]. apply bind_ext; [apply Ge; lia|reflexivity].
  - split; [pose proof (Gd e1); pose proof (Gd e2); lia|]. intros rho l. cbn [eval].
    apply bind_ext; [apply Ge; lia|]. intros va l1. apply bind_ext; [apply Ge; lia|reflexivity].
  - split.
    + pose proof (Gd e).
      assert (omax depth (option_map T lo) <= omax depth lo) by (apply omax_le; intros x ->; apply Gd; cbn in Hd; lia).
      assert (omax depth (option_map T hi) <= omax depth hi) by (apply omax_le; intros x ->; apply Gd; cbn in Hd; lia).
      assert (omax depth (option_map T step) <= omax depth step) by (apply omax_le; intros x ->; apply Gd; cbn in Hd; lia). lia.
    + intros rho l. cbn [eval]. apply bind_ext; [apply Ge; lia|]. intros va l1.
      apply bind_ext; [apply optM_T; intros x -> l0; apply Ge; cbn in Hd; lia|]. intros vlo l2.
      apply bind_ext; [apply optM_T; intros x -> l0; apply Ge; cbn in Hd; lia|]. intros vhi l3.
      apply bind_ext; [apply optM_T; intros x -> l0; apply Ge; cbn in Hd; lia|reflexivity].
  - destruct (Gl es) as [G1 G2]; [lia|]. split; [lia|]. intros rho l. cbn [eval]. apply bind_ext; [apply G2|reflexivity].
  - destruct (Gl es) as [G1 G2]; [lia|]. split; [lia|]. intros rho l. cbn [eval]. apply bind_ext; [apply G2|reflexivity].
  - assert (Hk : forall p, In p kvs -> depth (fst p) <= n /\ depth (snd p) <= n).
    { intros p Hin. pose proof (list_max_in (fun p : expr * expr => Nat.max (depth (fst p)) (depth (snd p))) kvs p Hin). cbn in *. lia. }
    split.
    + rewrite map_map. cbn [fst snd].
      assert (list_max (map (fun p : expr * expr => Nat.max (depth (T (fst p))) (depth (T (snd p)))) kvs)
              <= list_max (map (fun p : expr * expr => Nat.max (depth (fst p)) (depth (snd p))) kvs)).
      { apply list_max_map_le. intros p Hin. destruct (Hk p Hin). pose proof (Gd (fst p)). pose proof (Gd (snd p)). lia. }
      lia.
    + intros rho l. cbn [eval]. apply bind_ext; [|reflexivity]. intro l0. rewrite mapM_map. apply mapM_ext_in.
      intros p Hin l1. destruct (Hk p Hin). cbn [fst snd].
      apply bind_ext; [apply Ge; lia|]. intros vk l2. apply bind_ext; [apply Ge; lia|reflexivity].
  - assert (Hk : forall p, In p kwargs -> depth (snd p) <= n).
    { intros p Hin. pose proof (list_max_in (fun p : str * expr => depth (snd p)) kwargs p Hin). cbn in *. lia. }
    destruct (Gl args) as [G1 G2]; [lia|]. split.
    + rewrite (map_map (fun p : str * expr => (fst p, T (snd p)))). cbn [snd].
      assert (list_max (map (fun p : str * expr => depth (T (snd p))) kwargs) <= list_max (map (fun p : str * expr => depth (snd p)) kwargs)).
      { apply list_max_map_le. intros p Hin. apply Gd. apply Hk. exact Hin. }
      pose proof (Gd e). lia.
    + intros rho l. cbn [eval]. apply bind_ext; [apply Ge; lia|]. intros vf l1.
      apply bind_ext; [apply G2|]. intros vargs l2. apply bind_ext; [|reflexivity].
      intro l3. rewrite mapM_map. apply mapM_ext_in. intros p Hin l4. cbn [fst snd].
      apply bind_ext; [apply Ge; apply Hk; exact Hin|reflexivity].
  - destruct (Gl args) as [G1 G2]; [lia|]. split; [pose proof (Gd e); lia|]. intros rho l. cbn [eval].
    apply bind_ext; [apply Ge; lia|]. intros va l1. apply bind_ext; [apply G2|reflexivity].
  - destruct (Gl args) as [G1 G2]; [lia|]. split; [pose proof (Gd e); lia|]. intros rho l. cbn [eval].
    apply bind_ext; [apply Ge; lia|]. intros va l1. apply bind_ext; [apply G2|reflexivity].
Qed.

Lemma optimize_unfold O c e :
  optimize O c e =
  match e with
  | EConst _ | EName _ | ECall _ _ _ => rebuild (optimize O c) e
  | _ => fold O c (rebuild (optimize O c) e)
  end.
Proof. destruct e; reflexivity. Qed.

Theorem optimize_good O c : forall n, good O c (optimize O c) n.
Proof.
  induction n as [|n IH]; intros e Hd; [pose proof (depth_pos e); lia|].
  pose proof (rebuild_good O c (optimize O c) n IH e Hd) as [R1 R2].
  rewrite optimize_unfold.
  assert (F : depth (fold O c (rebuild (optimize O c) e)) <= depth e /\
              forall rho l, eval O c (S n) (fold O c (rebuild (optimize O c) e)) rho l = eval O c (S n) e rho l).
  { destruct (fold_sound O c (rebuild (optimize O c) e) (S n)) as [F1 F2]; [lia|].
    split; [lia|]. intros rho l. rewrite F2. apply R2. }
  destruct e; try exact F; split; assumption.
Qed.

Lemma pre_opt_on_unfold O c e :
  pre_opt_on O c e =
  match e with
  | EList _ | ETuple _ | EDict _ => rebuild (pre_opt_on O c) e
  | _ => optimize O c e
  end.
Proof. destruct e; reflexivity. Qed.

Theorem pre_opt_on_good O c : forall n, good O c (pre_opt_on O c) n.
Proof.
  induction n as [|n IH]; intros e Hd; [pose proof (depth_pos e); lia|].
  rewrite pre_opt_on_unfold.
  destruct e; try (apply (optimize_good O c (S n)); exact Hd); apply (rebuild_good O c _ n IH); exact Hd.
Qed.

Theorem pre_opt_good O c : forall n, good O c (pre_opt O c) n.
Proof.
  intros n e Hd. unfold pre_opt. destruct (opt_on c); [apply pre_opt_on_good; exact Hd|split; [lia|reflexivity]].
Qed.

(* the emitted code (optimizer included) means what the documentation says *)
Theorem gen_opt_correct O c :
  coherent c ->
  forall n e, depth e <= n -> forall rho l, py_eval O c n (gen_opt O c e) rho l = eval O c n e rho l.
Proof.
  intros Hco n e Hd rho l. unfold gen_opt. rewrite (gen_correct O c Hco).
  apply (pre_opt_good O c n e Hd).
Qed.

(* ---- compile-time output ---- *)
Theorem render_child_correct O c :
  coherent c ->
  forall n e, depth e <= n -> forall rho l,
    render_child O c n e rho l = (v <- eval O c n e rho ;; lift (out_text c v)) l.
Proof.
  intros Hco n e Hd rho l. unfold render_child, output_child.
  assert (Run : (v <- py_eval O c n (gen_opt O c e) rho ;; lift (out_text c v)) l = (v <- eval O c n e rho ;; lift (out_text c v)) l).
  { apply bind_ext; [apply gen_opt_correct; assumption|reflexivity]. }
  destruct (volatile c) eqn:Hv; [exact Run|].
  destruct (as_const O c e) as [v| |] eqn:Ha; try exact Run.
  pose proof (as_const_sound O c e v Ha n Hd rho) as Hs.
  destruct (safe_repr v); cbn [negb]; [|exact Run].
  destruct (autoescape c) eqn:Hae.
  - destruct (escape v) as [v'|] eqn:He; [|exact Run].
    destruct (escape_mk v v' He) as [s ->]. cbn [to_str].
    rewrite (bind_pure _ _ v) by apply Hs. unfold lift, out_text, ae_now. rewrite Hv, Hae, He. reflexivity.
  - destruct (to_str v) as [s|] eqn:Ht; [|exact Run].
    rewrite (bind_pure _ _ v) by apply Hs. unfold lift, out_text, ae_now. rewrite Hv, Hae, Ht. reflexivity.
Qed.

(* nothing is folded into the template module when the escaping mode is decided at run time *)
Lemma volatile_no_const O c e : volatile c = true -> output_child O c e = OutRun (gen c e).
Proof.
  intros Hv. unfold output_child, gen_opt, pre_opt, opt_on. rewrite Hv. rewrite andb_false_r. reflexivity.
Qed.

(* ---- constant lifting ---- *)
Theorem subst_eval O c x k :
  forall n e rho l, eval O c n (subst x k e) rho l = eval O c n e ((x, k) :: rho) l.
Proof.
  induction n as [|n IH]; intros e rho l; [destruct e; cbn; try reflexivity; destruct (str_eqb x0 x); reflexivity|].
  assert (IHe : forall e l, eval O c n (subst x k e) rho l = eval O c n e ((x, k) :: rho) l) by (intros; apply IH).
  assert (IHl : forall es l, mapM (fun e => eval O c n e rho) (map (subst x k) es) l = mapM (fun e => eval O c n e ((x, k) :: rho)) es l).
  { intros es l0. rewrite mapM_map. apply mapM_ext. intros; apply IHe. }
  assert (IHo : forall o l, optM (fun e => eval O c n e rho) (option_map (subst x k) o) l = optM (fun e => eval O c n e ((x, k) :: rho)) o l).
  { intros o l0. rewrite optM_map. apply optM_ext. intros; apply IHe. }
  destruct e; cbn [subst].
  - reflexivity.
  - cbn [eval]. unfold lookup_name. cbn [assoc_s]. rewrite (str_eqb_sym x x0).
    destruct (str_eqb x0 x); reflexivity.
  - cbn [eval]. apply bind_ext; [apply IHe|]. intros va l1. apply bind_ext; [apply IHe|reflexivity].
  - cbn [eval]. apply bind_ext; [apply IHe|reflexivity].
  - cbn [eval]. apply bind_ext; [apply IHe|reflexivity].
  - cbn [eval]. apply bind_ext; [apply IHe|]. intros va l1. destruct (truth va); [apply IHe|reflexivity].
  - cbn [eval]. apply bind_ext; [apply IHe|]. intros va l1. destruct (truth va); [reflexivity|apply IHe].
  - cbn [eval]. apply bind_ext; [apply IHl|reflexivity].
  - cbn [eval]. apply bind_ext; [apply IHe|]. intros va l1. rewrite cmp_chain_map. apply cmp_chain_ext. intros; apply IHe.
  - cbn [eval]. apply bind_ext; [apply IHe|]. intros vt l1. destruct (truth vt); [apply IHe|].
    destruct b; cbn; [apply IHe|reflexivity].
  - cbn [eval]. apply bind_ext; [apply IHe|reflexivity].
  - cbn [eval]. apply bind_ext; [apply IHe|]. intros va l1. apply bind_ext; [apply IHe|reflexivity].
  - cbn [eval]. apply bind_ext; [apply IHe|]. intros va l1. apply bind_ext; [apply IHo|]. intros vlo l2.
    apply bind_ext; [apply IHo|]. intros vhi l3. apply bind_ext; [apply IHo|reflexivity].
  - cbn [eval]. apply bind_ext; [apply IHl|reflexivity].
  - cbn [eval]. apply bind_ext; [apply IHl|reflexivity].
  - cbn [eval]. apply bind_ext; [|reflexivity]. intro l0. rewrite mapM_map. apply mapM_ext.
    intros p l1. cbn [fst snd]. apply bind_ext; [apply IHe|]. intros vk l2. apply bind_ext; [apply IHe|reflexivity].
  - cbn [eval]. apply bind_ext; [apply IHe|]. intros vf l1. apply bind_ext; [apply IHl|]. intros vargs l2.
    apply bind_ext; [|reflexivity]. intro l3. rewrite mapM_map. apply mapM_ext.
    intros p l4. cbn [fst snd]. apply bind_ext; [apply IHe|reflexivity].
  - cbn [eval]. apply bind_ext; [apply IHe|]. intros va l1. apply bind_ext; [apply IHl|reflexivity].
  - cbn [eval]. apply bind_ext; [apply IHe|]. intros va l1. apply bind_ext; [apply IHl|reflexivity].
Qed.
