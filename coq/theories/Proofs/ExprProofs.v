(* C02: the emitted Python means what the documented semantics says (compile_expr_correct),
   attribute / subscript preference, missing values. *)
From Coq Require Import List NArith ZArith Bool Lia.
Import ListNotations.
From JV Require Import Model.ExprAst Model.ExprPrim Spec.ExprSpec Model.ExprTarget.

(* ---- the monad, pointwise (no functional extensionality) ---- *)
Lemma bind_ext {A B} (m1 m2 : M A) (f g : A -> M B) :
  (forall l, m1 l = m2 l) -> (forall a l, f a l = g a l) -> forall l, bind m1 f l = bind m2 g l.
Proof.
  intros H1 H2 l. unfold bind. rewrite H1. destruct (m2 l) as [[a|e] l']; [apply H2|reflexivity].
Qed.

Lemma mapM_ext {A B} (f g : A -> M B) (xs : list A) :
  (forall x l, f x l = g x l) -> forall l, mapM f xs l = mapM g xs l.
Proof.
  intros H. induction xs as [|x xs IH]; intro l; simpl; [reflexivity|].
  apply bind_ext; [apply H|]. intros a l1. apply bind_ext; [apply IH|reflexivity].
Qed.

Lemma mapM_map {A B C} (g : A -> B) (f : B -> M C) (xs : list A) :
  forall l, mapM f (map g xs) l = mapM (fun x => f (g x)) xs l.
Proof.
  induction xs as [|x xs IH]; intro l; simpl; [reflexivity|].
  apply bind_ext; [reflexivity|]. intros a l1. apply bind_ext; [apply IH|reflexivity].
Qed.

Lemma optM_ext {A B} (f g : A -> M B) (o : option A) :
  (forall x l, f x l = g x l) -> forall l, optM f o l = optM g o l.
Proof.
  intros H l. destruct o; simpl; [|reflexivity]. apply bind_ext; [apply H|reflexivity].
Qed.

Lemma optM_map {A B C} (g : A -> B) (f : B -> M C) (o : option A) :
  forall l, optM f (option_map g o) l = optM (fun x => f (g x)) o l.
Proof. destruct o; reflexivity. Qed.

Lemma cmp_chain_ext {X} (f g : X -> M value) :
  (forall x l, f x l = g x l) -> forall ops v l, cmp_chain f v ops l = cmp_chain g v ops l.
Proof.
  intros H. induction ops as [|[op x] r IH]; intros v l; simpl; [reflexivity|].
  apply bind_ext; [apply H|]. intros vb l1. apply bind_ext; [reflexivity|]. intros t l2.
  destruct r; [reflexivity|]. destruct (truth t); [apply IH|reflexivity].
Qed.

Lemma cmp_chain_map {X Y} (h : X -> Y) (f : Y -> M value) :
  forall ops v l,
    cmp_chain f v (map (fun p : cmpop * X => (fst p, h (snd p))) ops) l = cmp_chain (fun x => f (h x)) v ops l.
Proof.
  induction ops as [|[op x] r IH]; intros v l; simpl; [reflexivity|].
  apply bind_ext; [reflexivity|]. intros vb l1. apply bind_ext; [reflexivity|]. intros t l2.
  destruct r as [|p r]; [reflexivity|]. simpl map. destruct (truth t); [|reflexivity].
  change ((fst p, h (snd p)) :: map (fun p0 : cmpop * X => (fst p0, h (snd p0))) r)
    with (map (fun p0 : cmpop * X => (fst p0, h (snd p0))) (p :: r)).
  apply IH.
Qed.

(* ---- Environment.getattr / getitem do what the documentation says ---- *)
Lemma py_getitem_item_of v k :
  match py_getitem v k with
  | POk x => item_of v k = Some x /\ is_undef v = false
  | PRaise XUndef => is_undef v = true
  | PRaise XAttr => False
  | PRaise _ => item_of v k = None /\ is_undef v = false
  end.
Proof.
  destruct v; cbn; auto.
  - destruct (num_of k); [destruct (nth_z s z)|]; auto.
  - destruct (num_of k); [destruct (nth_z s z)|]; auto.
  - destruct (num_of k); [destruct (nth_z l z)|]; auto.
  - destruct (num_of k); [destruct (nth_z l z)|]; auto.
  - destruct (hashable k); [destruct (assoc_v k kv)|]; auto.
  - destruct (assoc_v k items); auto.
Qed.

Lemma py_getattr_attr_of O v name :
  match py_getattr O v name with
  | POk x => attr_of O v name = Some x /\ is_undef v = false
  | PRaise XAttr => attr_of O v name = None /\ is_undef v = false
  | PRaise XUndef => is_undef v = true
  | PRaise _ => False
  end.
Proof.
  destruct v; cbn; auto;
    try (destruct (builtin_attr O _ name); auto).
  destruct (assoc_s name attrs); auto.
Qed.

Lemma env_getattr_spec c O v name : env_getattr c O v name = spec_getattr c O v name.
Proof.
  unfold env_getattr, spec_getattr, safe_or_undef, guard_attr.
  pose proof (py_getattr_attr_of O v name) as Ha.
  destruct (py_getattr O v name) as [x|[]]; try contradiction.
  - destruct Ha as [Ha Hu]. rewrite Hu, Ha. reflexivity.
  - destruct Ha as [Ha Hu]. rewrite Hu, Ha.
    pose proof (py_getitem_item_of v (VStr name)) as Hi.
    destruct (py_getitem v (VStr name)) as [y|[]]; try contradiction.
    + destruct Hi as [Hi _]. rewrite Hi. reflexivity.
    + destruct Hi as [Hi _]. rewrite Hi. reflexivity.
    + destruct Hi as [Hi _]. rewrite Hi. reflexivity.
    + congruence.
  - rewrite Ha. reflexivity.
Qed.

Lemma env_getitem_spec c O v k : env_getitem c O v k = spec_getitem c O v k.
Proof.
  unfold env_getitem, spec_getitem, safe_or_undef, guard_attr.
  pose proof (py_getitem_item_of v k) as Hi.
  destruct (py_getitem v k) as [x|[]]; try contradiction.
  - destruct Hi as [Hi Hu]. rewrite Hu, Hi. reflexivity.
  - destruct Hi as [Hi Hu]. rewrite Hu, Hi. destruct (sandboxed c); destruct (strlike k) as [s|]; try reflexivity;
      (pose proof (py_getattr_attr_of O v s) as Ha; destruct (py_getattr O v s) as [y|[]]; try contradiction;
       [destruct Ha as [Ha _]; rewrite Ha; reflexivity | destruct Ha as [Ha _]; rewrite Ha; reflexivity | congruence]).
  - destruct Hi as [Hi Hu]. rewrite Hu, Hi. destruct (sandboxed c); destruct (strlike k) as [s|]; try reflexivity;
      (pose proof (py_getattr_attr_of O v s) as Ha; destruct (py_getattr O v s) as [y|[]]; try contradiction;
       [destruct Ha as [Ha _]; rewrite Ha; reflexivity | destruct Ha as [Ha _]; rewrite Ha; reflexivity | congruence]).
  - rewrite Hi. reflexivity.
Qed.

(* ---- the join chosen by the compiler is the documented concatenation ---- *)
Lemma run_join_spec c vs :
  coherent c ->
  run_join c (if volatile c then JVolatile else if autoescape c then JMarkup else JStr) vs = spec_concat c vs.
Proof.
  intros H. unfold spec_concat, ae_now, run_join, coherent in *.
  destruct (volatile c); [reflexivity|]. destruct (autoescape c); reflexivity.
Qed.

Lemma rt_ae_now c : coherent c -> rt_autoescape c = ae_now c.
Proof. unfold coherent, ae_now. intros H. destruct (volatile c); [reflexivity|]. apply H. reflexivity. Qed.

(* ---- compile_expr_correct ---- *)
Theorem gen_correct O c :
  coherent c ->
  forall n e rho l, py_eval O c n (gen c e) rho l = eval O c n e rho l.
Proof.
  intros Hco. induction n as [|n IH]; intros e rho l; [destruct e; reflexivity|].
  assert (IHe : forall e l, py_eval O c n (gen c e) rho l = eval O c n e rho l) by (intros; apply IH).
  destruct e; cbn [gen].
  - reflexivity.
  - reflexivity.
  - destruct (sandboxed c && ibin c op) eqn:Hi; cbn [py_eval eval]; unfold apply_bin; rewrite Hi;
      (apply bind_ext; [apply IHe|]; intros va l1; apply bind_ext; [apply IHe|]; intros vb l2; reflexivity).
  - destruct (sandboxed c && iun c op) eqn:Hi; cbn [py_eval eval]; unfold apply_un; rewrite Hi;
      (apply bind_ext; [apply IHe|]; intros va l1; reflexivity).
  - cbn [py_eval eval]. apply bind_ext; [apply IHe|reflexivity].
  - cbn [py_eval eval]. apply bind_ext; [apply IHe|]. intros va l1. destruct (truth va); [apply IHe|reflexivity].
  - cbn [py_eval eval]. apply bind_ext; [apply IHe|]. intros va l1. destruct (truth va); [reflexivity|apply IHe].
  - cbn [py_eval eval]. apply bind_ext.
    + intro l0. rewrite mapM_map. apply mapM_ext. intros; apply IHe.
    + intros vs l1. unfold lift. rewrite run_join_spec by assumption. reflexivity.
  - cbn [py_eval eval]. apply bind_ext; [apply IHe|]. intros va l1.
    rewrite cmp_chain_map. apply cmp_chain_ext. intros; apply IHe.
  - cbn [py_eval eval]. apply bind_ext; [apply IHe|]. intros vt l1.
    destruct (truth vt); [apply IHe|]. destruct b; [apply IHe|reflexivity].
  - cbn [py_eval eval]. apply bind_ext; [apply IHe|]. intros va l1. unfold lift. rewrite env_getattr_spec. reflexivity.
  - cbn [py_eval eval]. apply bind_ext; [apply IHe|]. intros va l1. apply bind_ext; [apply IHe|]. intros vk l2.
    unfold lift. rewrite env_getitem_spec. reflexivity.
  - cbn [py_eval eval]. apply bind_ext; [apply IHe|]. intros va l1.
    apply bind_ext; [intro; rewrite optM_map; apply optM_ext; intros; apply IHe|]. intros vlo l2.
    apply bind_ext; [intro; rewrite optM_map; apply optM_ext; intros; apply IHe|]. intros vhi l3.
    apply bind_ext; [intro; rewrite optM_map; apply optM_ext; intros; apply IHe|]. intros vst l4. reflexivity.
  - cbn [py_eval eval]. apply bind_ext; [|reflexivity]. intro l0. rewrite mapM_map. apply mapM_ext. intros; apply IHe.
  - cbn [py_eval eval]. apply bind_ext; [|reflexivity]. intro l0. rewrite mapM_map. apply mapM_ext. intros; apply IHe.
  - cbn [py_eval eval]. apply bind_ext; [|reflexivity]. intro l0. rewrite mapM_map. apply mapM_ext.
    intros [k x] l1. cbn [fst snd]. apply bind_ext; [apply IHe|]. intros vk l2. apply bind_ext; [apply IHe|reflexivity].
  - cbn [py_eval eval]. apply bind_ext; [apply IHe|]. intros vf l1.
    apply bind_ext; [intro; rewrite mapM_map; apply mapM_ext; intros; apply IHe|]. intros vargs l2.
    apply bind_ext; [|reflexivity]. intro l3. rewrite mapM_map. apply mapM_ext.
    intros [k x] l4. cbn [fst snd]. apply bind_ext; [apply IHe|reflexivity].
  - cbn [py_eval eval]. apply bind_ext; [apply IHe|]. intros va l1.
    apply bind_ext; [intro; rewrite mapM_map; apply mapM_ext; intros; apply IHe|]. intros vargs l2.
    rewrite (rt_ae_now c Hco). reflexivity.
  - cbn [py_eval eval]. apply bind_ext; [apply IHe|]. intros va l1.
    apply bind_ext; [intro; rewrite mapM_map; apply mapM_ext; intros; apply IHe|]. intros vargs l2. reflexivity.
Qed.

Definition none_oracles : oracles := {| builtin_attr := fun _ _ => None; call_fun := fun _ _ _ => Err ECallErr |}.

(* ---- attribute / subscript preference and missing values, on the documented semantics ---- *)
Lemma spec_getattr_prefers_attr c O v name x :
  is_undef v = false -> attr_of O v name = Some x -> spec_getattr c O v name = Ok (guard_attr c name x).
Proof. intros Hu Ha. unfold spec_getattr. rewrite Hu, Ha. reflexivity. Qed.

Lemma spec_getitem_prefers_item c O v k x :
  is_undef v = false -> item_of v k = Some x -> spec_getitem c O v k = Ok x.
Proof. intros Hu Hi. unfold spec_getitem. rewrite Hu, Hi. reflexivity. Qed.

Lemma spec_getattr_falls_back c O v name x :
  is_undef v = false -> attr_of O v name = None -> item_of v (VStr name) = Some x -> spec_getattr c O v name = Ok x.
Proof. intros Hu Ha Hi. unfold spec_getattr. rewrite Hu, Ha, Hi. reflexivity. Qed.

Lemma spec_getitem_falls_back c O v s x :
  is_undef v = false -> item_of v (VStr s) = None -> attr_of O v s = Some x ->
  spec_getitem c O v (VStr s) = Ok (guard_attr c s x).
Proof. intros Hu Hi Ha. unfold spec_getitem. rewrite Hu, Hi. cbn. rewrite Ha. reflexivity. Qed.

Lemma spec_missing_undefined c O v name :
  is_undef v = false -> attr_of O v name = None -> item_of v (VStr name) = None ->
  spec_getattr c O v name = Ok (VUndef (UAttr name)) /\ spec_getitem c O v (VStr name) = Ok (VUndef (UAttr name)).
Proof.
  intros Hu Ha Hi. unfold spec_getattr, spec_getitem. rewrite Hu, Ha, Hi. cbn. rewrite Ha. split; reflexivity.
Qed.
