(* Totality of the tokeniter model (used by C39 and, from outside the lexer family, by C01):
   for every configuration with non-empty start strings and every source the fuel
   [fuel_for] suffices (every rule alternative consumes >= 1 code point or pops the state),
   no RuntimeError branch is reachable, and a syntax error is reported on a line of the source. *)
From Coq Require Import List NArith Bool Arith Lia.
Import ListNotations.
From JV Require Import Model.LexBase Model.LexTokeniter Spec.LexPlainSpec Proofs.LexInv Proofs.LexPlain.
Open Scope N_scope.

(* decidable well-formedness of a configuration: the start strings are non-empty *)
Definition cfg_ok (c : cfg) : bool := forallb nonempty (start_strings c).

Lemma prefixb_nonempty : forall d s, nonempty d = true -> prefixb d s = true -> s <> [].
Proof. intros d s Hd H ->. destruct d; [discriminate|]. discriminate. Qed.

Lemma nonempty_length : forall d : str, nonempty d = true -> (1 <= length d)%nat.
Proof. destruct d; [discriminate|]. intros _. cbn. lia. Qed.

Lemma alt_plain_pos : forall d s n sg, nonempty d = true -> alt_plain d s = Some (n, sg) -> (1 <= n)%nat /\ s <> [].
Proof.
  intros d s n sg Hd H. unfold alt_plain in H. destruct (prefixb d s) eqn:E; [|discriminate].
  destruct (scan_sign (skipn (length d) s)) as [sg0 k]. injection H as <- <-.
  split; [pose proof (nonempty_length d Hd); lia|eapply prefixb_nonempty; eassumption].
Qed.

Lemma skipn_nonempty : forall (w : nat) (s : str), skipn w s <> [] -> s <> [].
Proof. intros w s H ->. destruct w; apply H; reflexivity. Qed.

Lemma alt_raw_pos : forall c s n sg, nonempty (c_bs c) = true -> alt_raw c s = Some (n, sg) -> (1 <= n)%nat /\ s <> [].
Proof.
  intros c s n sg Hd H. unfold alt_raw in H. destruct (prefixb (c_bs c) s) eqn:E; [|discriminate].
  split; [|eapply prefixb_nonempty; eassumption].
  destruct (scan_sign (skipn (length (c_bs c)) s)) as [sg0 k].
  destruct (prefixb kw_raw _); [|discriminate].
  destruct (end_alts false false (c_be c) _); [|discriminate]. injection H as <- _.
  pose proof (nonempty_length _ Hd). lia.
Qed.

Definition rules_ok (rules : list (tagk * str)) : Prop := forall k d, In (k, d) rules -> nonempty d = true.

Lemma cfg_ok_rules : forall c, cfg_ok c = true -> rules_ok (compile_rules c) /\ nonempty (c_bs c) = true.
Proof.
  intros c H. unfold cfg_ok in H. rewrite forallb_forall in H. split.
  - intros k d Hin. apply H. eapply compile_rules_starts. exact Hin.
  - apply H. unfold start_strings. left. reflexivity.
Qed.

Lemma try_alts_pos : forall c rules prev s k n sg,
  rules_ok rules -> nonempty (c_bs c) = true ->
  try_alts c rules prev s = Some (k, n, sg) -> (1 <= n)%nat /\ s <> [].
Proof.
  intros c rules prev s k n sg. induction rules as [|[k0 d] rs IH]; intros Hr Hb H; [discriminate|].
  cbn [try_alts] in H.
  destruct (try_alt c prev s (k0, d)) as [[n0 sg0]|] eqn:E.
  - injection H as _ <- _. assert (Hd : nonempty d = true) by (eapply Hr; left; reflexivity).
    unfold try_alt in E; cbn [fst snd] in E. destruct k0.
    + eapply alt_raw_pos; eassumption.
    + eapply alt_plain_pos; eassumption.
    + eapply alt_plain_pos; eassumption.
    + eapply alt_plain_pos; eassumption.
    + unfold alt_ls in E. destruct (at_bol prev); [|discriminate].
      destruct (alt_plain d (skipn (span is_hspace s) s)) as [[n1 sg1]|] eqn:E1; [|discriminate].
      injection E as <- _. apply alt_plain_pos in E1 as [E1 E2]; [|exact Hd].
      split; [lia|eapply skipn_nonempty; exact E2].
    + unfold alt_lc in E. destruct (at_bol prev || _); [|discriminate].
      destruct (alt_plain d (skipn (span is_lcspace s) s)) as [[n1 sg1]|] eqn:E1; [|discriminate].
      injection E as <- _. apply alt_plain_pos in E1 as [E1 E2]; [|exact Hd].
      split; [lia|eapply skipn_nonempty; exact E2].
  - apply IH; [|exact Hb|exact H]. intros k' d' Hin. eapply Hr. right. exact Hin.
Qed.

Lemma find_tag_pos : forall c rules prev s p k n sg,
  rules_ok rules -> nonempty (c_bs c) = true ->
  find_tag c rules prev s = Some (p, k, n, sg) -> (1 <= p + n)%nat /\ s <> [].
Proof.
  intros c rules prev s. revert prev. induction s as [|x r IH]; intros prev p k n sg Hr Hb H; cbn [find_tag] in H.
  - destruct (root_alts c rules prev []) as [[[k0 n0] sg0]|] eqn:E; [|discriminate].
    injection H as <- _ <- _. unfold root_alts in E.
    destruct (alt_raw c []) as [[n1 sg1]|] eqn:E1.
    + apply alt_raw_pos in E1 as [_ E1]; [contradiction|exact Hb].
    + apply try_alts_pos in E as [_ E]; [contradiction|exact Hr|exact Hb].
  - split; [|discriminate].
    destruct (root_alts c rules prev (x :: r)) as [[[k0 n0] sg0]|] eqn:E.
    + injection H as <- _ <- _. unfold root_alts in E.
      destruct (alt_raw c (x :: r)) as [[n1 sg1]|] eqn:E1.
      * injection E as _ <- _. apply alt_raw_pos in E1 as [E1 _]; [lia|exact Hb].
      * apply try_alts_pos in E as [E _]; [lia|exact Hr|exact Hb].
    + destruct (find_tag c rules (Some x) r) as [[[[p0 k0] n0] sg0]|]; [|discriminate].
      injection H as <- _ _ _. lia.
Qed.

(* the tag_rules consume at least one character *)
Lemma scan_tagrule_pos : forall c prev s ty n, scan_tagrule c prev s = Some (ty, n) -> exists k, n = S k.
Proof.
  intros c prev s ty n H. unfold scan_tagrule in H.
  destruct (scan_ws s) as [n0|] eqn:E0.
  { injection H as _ <-. unfold scan_ws in E0. destruct (span is_space s); [discriminate|]. injection E0 as <-. eauto. }
  destruct (scan_float (c_digit c) prev s) as [n1|] eqn:E1.
  { injection H as _ <-. unfold scan_float in E1.
    destruct (match prev with Some p => p =? 46 | None => false end); [discriminate|].
    destruct (digitpart (c_digit c) false s); [discriminate|].
    destruct (exp_part _ _); [|injection E1 as <-; eauto].
    destruct (frac_part _ _); [discriminate|injection E1 as <-; eauto]. }
  destruct (scan_int (c_digit c) s) as [n2|] eqn:E2.
  { injection H as _ <-. unfold scan_int in E2. destruct s as [|x r]; [discriminate|].
    repeat match type of E2 with
    | match (match ?r with _ :: _ => _ | [] => None end) with _ => _ end = _ => destruct r as [|y r']
    end.
    - destruct ((49 <=? x) && (x <=? 57)); [injection E2 as <-; eauto|].
      destruct (x =? 48); [injection E2 as <-; eauto|discriminate].
    - repeat match type of E2 with
      | context [if ?b then match uloop ?p ?l with _ => _ end else None] =>
          destruct b; [destruct (uloop p l); [|injection E2 as <-; eauto]|]
      end;
      try (destruct ((49 <=? x) && (x <=? 57)); [injection E2 as <-; eauto|];
           destruct (x =? 48); [injection E2 as <-; eauto|discriminate]). }
  destruct (scan_name (c_word c) s) as [n3|] eqn:E3.
  { injection H as _ <-. unfold scan_name in E3. destruct (span (c_word c) s); [discriminate|]. injection E3 as <-. eauto. }
  destruct (scan_string s) as [n4|] eqn:E4.
  { injection H as _ <-. unfold scan_string in E4. destruct s as [|x r]; [discriminate|].
    destruct ((x =? 39) || (x =? 34)); [|discriminate]. destruct (str_body x r); [|discriminate]. injection E4 as <-. eauto. }
  destruct (scan_op s) as [n5|] eqn:E5; [|discriminate].
  injection H as _ <-. unfold scan_op in E5. destruct s as [|a r]; [discriminate|].
  destruct (match r with b :: _ => _ | [] => false end); [injection E5 as <-; eauto|].
  destruct (existsb _ ops1); [injection E5 as <-; eauto|discriminate].
Qed.

Lemma scan_tagrule_nil : forall c prev, scan_tagrule c prev [] = None.
Proof. intros c prev. unfold scan_tagrule, scan_float. cbn. destruct (match prev with Some p => p =? 46 | None => false end); reflexivity. Qed.

(* ------------------------------------------------------------------ no RuntimeError branch *)
Lemma step_no_internal : forall c rules st bal line pos prev ls s i,
  step c rules st bal line pos prev ls s <> SEnd (EInternal i).
Proof.
  intros c rules st bal line pos prev ls s i H.
  assert (Htag : forall endrule endty st0, step_tag c endrule endty bal line pos prev st0 s <> SEnd (EInternal i)).
  { intros endrule endty st0 G. unfold step_tag in G.
    destruct (match bal with [] => endrule | _ :: _ => None end); [discriminate|].
    destruct (scan_tagrule c prev s) as [[ty n]|] eqn:E; [|destruct s; discriminate].
    apply scan_tagrule_pos in E as [k ->]. destruct (bal_update ty _ bal); discriminate. }
  destruct st; cbn [step] in H; try (eapply Htag; exact H).
  - destruct (find_tag c rules prev s) as [[[[? ?] ?] ?]|]; [destruct (emit_text_tag _ _ _ _ _ _ _ _ _); discriminate|].
    destruct s; discriminate.
  - destruct (find_end _ _ _ s) as [[? ?]|]; [discriminate|]. destruct s; discriminate.
  - destruct (find_endraw c s) as [[[? ?] ?]|]; [destruct (emit_text_tag _ _ _ _ _ _ _ _ _); discriminate|].
    destruct s; discriminate.
  - discriminate.
Qed.

Lemma run_no_internal : forall c rules fuel st bal line pos prev ls s its i,
  run c rules fuel st bal line pos prev ls s <> (its, EInternal i).
Proof.
  intros c rules fuel. induction fuel as [|f IH]; intros st bal line pos prev ls s its i H; cbn [run] in H; [discriminate|].
  destruct (step c rules st bal line pos prev ls s) as [e0|its0 n st1 bal1 line1] eqn:Es.
  - injection H as _ ->. eapply step_no_internal. exact Es.
  - destruct (run c rules f st1 bal1 line1 _ _ _ (skipn n s)) as [rest0 e1] eqn:Er.
    injection H as _ ->. eapply IH. exact Er.
Qed.

(* ------------------------------------------------------------------ progress measure *)
Definition mu (st : lstate) (s : str) : nat :=
  (2 * length s + match st with SRoot => 0 | _ => 1 end)%nat.

Lemma skipn_length_le : forall (n : nat) (s : str), (length (skipn n s) <= length s)%nat.
Proof. intros n s. rewrite skipn_length. lia. Qed.

Lemma skipn_length_lt : forall (n : nat) (s : str), (1 <= n)%nat -> s <> [] -> (length (skipn n s) < length s)%nat.
Proof. intros n s Hn Hs. rewrite skipn_length. destruct s; [contradiction|]. cbn [length]. lia. Qed.

Lemma step_tag_progress : forall c endrule endty bal line pos prev st s its n st' bal' line',
  st <> SRoot ->
  step_tag c endrule endty bal line pos prev st s = SGo its n st' bal' line' ->
  (mu st' (skipn n s) < mu st s)%nat.
Proof.
  intros c endrule endty bal line pos prev st s its n st' bal' line' Hst H. unfold step_tag in H.
  destruct (match bal with [] => endrule | _ :: _ => None end).
  - injection H as _ <- <- _ _. unfold mu. pose proof (skipn_length_le n0 s). destruct st; try contradiction; lia.
  - destruct (scan_tagrule c prev s) as [[ty m]|] eqn:E; [|destruct s; discriminate].
    assert (Hs : s <> []) by (intros ->; rewrite scan_tagrule_nil in E; discriminate).
    destruct (bal_update ty _ bal); [|discriminate]. destruct m as [|m]; [discriminate|].
    injection H as _ <- <- _ _. unfold mu.
    pose proof (skipn_length_lt (S m) s ltac:(lia) Hs). lia.
Qed.

Lemma step_progress : forall c rules st bal line pos prev ls s its n st' bal' line',
  rules_ok rules -> nonempty (c_bs c) = true ->
  step c rules st bal line pos prev ls s = SGo its n st' bal' line' ->
  (mu st' (skipn n s) < mu st s)%nat.
Proof.
  intros c rules st bal line pos prev ls s its n st' bal' line' Hr Hb H.
  destruct st; cbn [step] in H;
    try (eapply step_tag_progress; [|exact H]; discriminate).
  - destruct (find_tag c rules prev s) as [[[[p k] m] sg]|] eqn:Ef.
    + destruct (emit_text_tag _ _ _ _ _ _ _ _ _). injection H as _ <- <- _ _.
      apply find_tag_pos in Ef as [E1 E2]; [|exact Hr|exact Hb].
      pose proof (skipn_length_lt (p + m) s E1 E2). unfold mu. destruct k; cbn [state_of]; lia.
    + destruct s as [|x r]; [discriminate|]. remember (x :: r) as v. injection H as _ <- <- _ _.
      rewrite skipn_all. subst v. unfold mu. cbn [length]. lia.
  - destruct (find_end _ _ _ s) as [[p m]|]; [|destruct s; discriminate].
    injection H as _ <- <- _ _. unfold mu. pose proof (skipn_length_le (p + m) s). lia.
  - destruct (find_endraw c s) as [[[p m] sg]|]; [|destruct s; discriminate].
    destruct (emit_text_tag _ _ _ _ _ _ _ _ _). injection H as _ <- <- _ _.
    unfold mu. pose proof (skipn_length_le (p + m) s). lia.
  - injection H as _ <- <- _ _. unfold mu. pose proof (skipn_length_le (span not_nl s) s). lia.
Qed.

Lemma run_fuel : forall c rules fuel st bal line pos prev ls s its,
  rules_ok rules -> nonempty (c_bs c) = true -> (mu st s < fuel)%nat ->
  run c rules fuel st bal line pos prev ls s <> (its, EFuel).
Proof.
  intros c rules fuel. induction fuel as [|f IH]; intros st bal line pos prev ls s its Hr Hb Hmu H; [lia|].
  cbn [run] in H.
  destruct (step c rules st bal line pos prev ls s) as [e0|its0 n st1 bal1 line1] eqn:Es.
  - injection H as _ ->. apply step_end in Es as (_ & _ & E). contradiction.
  - destruct (run c rules f st1 bal1 line1 _ _ _ (skipn n s)) as [rest0 e1] eqn:Er.
    injection H as _ ->. eapply IH; [exact Hr|exact Hb| |exact Er].
    pose proof (step_progress _ _ _ _ _ _ _ _ _ _ _ _ _ _ Hr Hb Es). lia.
Qed.

(* ------------------------------------------------------------------ the lemmas exported to C01 / C39 *)
Lemma lex_fuel_adequate : forall c src, cfg_ok c = true ->
  tokeniter c src <> LexOutOfFuel /\ (forall its i, tokeniter c src <> LexInternal its i).
Proof.
  intros c src Hc. apply cfg_ok_rules in Hc as [Hr Hb]. unfold tokeniter, tokeniter_norm.
  destruct (run _ _ _ _ _ _ _ _ _ _) as [its e] eqn:E. split.
  - destruct e; try discriminate. exfalso. eapply run_fuel; [exact Hr|exact Hb| |exact E].
    unfold mu, fuel_for. lia.
  - intros its0 i. destruct e; try discriminate. exfalso. eapply run_no_internal. exact E.
Qed.

Lemma count_nl_prefix : forall a b, count_nl a <= count_nl (a ++ b).
Proof. intros a b. rewrite count_nl_app. lia. Qed.

Lemma lex_error_line_in_range : forall c src its l m,
  tokeniter c src = LexSyntaxErr its l m ->
  1 <= l <= 1 + count_nl (normalize (c_keep c) src).
Proof.
  intros c src its l m H. unfold tokeniter, tokeniter_norm in H.
  destruct (run _ _ _ _ _ _ _ _ _ _) as [its0 e] eqn:E. destruct e; try discriminate.
  injection H as <- <- <-. apply run_ok in E as (rest & st' & Ht & _ & _ & _ & _ & _ & Herr).
  specialize (Herr _ _ eq_refl). subst line. rewrite <- Ht.
  pose proof (count_nl_prefix (texts its0) rest). lia.
Qed.

(* the normalised source has at most as many line breaks as the source has CR / LF characters *)
Fixpoint count_breaks (s : str) : N :=
  match s with c :: r => (if (c =? 10) || (c =? 13) then 1 else 0) + count_breaks r | [] => 0 end.

Lemma count_nl_le_breaks : forall s, count_nl s <= count_breaks s.
Proof. induction s as [|c r IH]; cbn [count_nl count_breaks]; [lia|]. destruct (c =? 10); cbn [orb]; [lia|]. destruct (c =? 13); lia. Qed.

Lemma count_nl_nl_replace : forall s, count_nl (nl_replace s) <= count_breaks s.
Proof.
  intros s. induction s as [s IH] using strong_str_ind.
  destruct s as [|c r]; [cbn; lia|]. cbn [nl_replace count_breaks].
  destruct (c =? 13) eqn:E13.
  - rewrite orb_true_r. destruct r as [|d r']; [cbn; lia|].
    destruct (d =? 10) eqn:E10; cbn [count_nl count_breaks]; rewrite N.eqb_refl.
    + rewrite E10. cbn [orb]. pose proof (IH r' ltac:(cbn; lia)). lia.
    + pose proof (IH (d :: r') ltac:(cbn; lia)). cbn [count_breaks] in H. lia.
  - cbn [count_nl]. pose proof (IH r ltac:(cbn; lia)). destruct (c =? 10); cbn [orb]; lia.
Qed.

Lemma count_nl_drop_last : forall t, count_nl (drop_last_nl t) <= count_nl t.
Proof.
  induction t as [|c r IH]; [cbn; lia|]. destruct r as [|c2 r2].
  - cbn [drop_last_nl]. destruct (c =? 10); cbn; lia.
  - change (drop_last_nl (c :: c2 :: r2)) with (c :: drop_last_nl (c2 :: r2)).
    cbn [count_nl] in *. lia.
Qed.

Lemma count_nl_normalize : forall keep s, count_nl (normalize keep s) <= count_breaks s.
Proof.
  intros keep s. unfold normalize. pose proof (count_nl_nl_replace s).
  destruct keep; [exact H|]. pose proof (count_nl_drop_last (nl_replace s)). lia.
Qed.

Lemma lex_error_line_in_source : forall c src its l m,
  tokeniter c src = LexSyntaxErr its l m -> 1 <= l <= 1 + count_breaks src.
Proof.
  intros c src its l m H. apply lex_error_line_in_range in H.
  pose proof (count_nl_normalize (c_keep c) src). lia.
Qed.
