(* (second round: fragment extended with loop filters and with-targets)
   C03 — simulation between FrameExec (Model/ScopeFrameExec.v) and the reference interpreter
   SpecStmt (Spec/ScopeSpecStmt.v) for the core fragment. *)
From Coq Require Import List NArith ZArith Bool Arith Lia.
Import ListNotations.
From JV Require Import Model.ScopeAst Model.ScopeIdTrack Model.ScopeGuards Model.ScopeFrameExec
  Spec.ScopeSpecStmt Proofs.ScopeDictProofs Proofs.ScopeSymProofs Proofs.ScopeEraseProofs.

Section Sim.
  Variable pynorm : name -> name.
  Variable priv : name -> bool.
  Variable d : list (name * value).
  Variable Sr : symbols.                         (* the root frame's symbols (stored in top-level closures) *)
  Variable V0 : list name.                       (* the names of the whole program *)
  Hypothesis Hinj : forall x y, In x V0 -> In y V0 -> pynorm x = pynorm y -> x = y.
  Hypothesis Hloop0 : In n_loop V0.

  Notation rref := (read_ref pynorm).
  Notation wref := (write_ref pynorm).
  Notation kk := (key pynorm).

  (* ---------------------------------------------------------- state algebra *)
  Lemma read_write : forall st id v id',
    rref (wref st id v) id' = if ident_eqb (kk id') (kk id) then Some v else rref st id'.
  Proof.
    intros. unfold read_ref, write_ref, set_loc; cbn [f_loc f_below f_chain].
    rewrite (dget_dset ident_eqb ident_eqb_eq). destruct (ident_eqb (kk id') (kk id)); reflexivity.
  Qed.
  Lemma key_level : forall id id', fst id <> fst id' -> ident_eqb (kk id') (kk id) = false.
  Proof.
    intros [l x] [l' y] H. apply ident_eqb_neq. unfold key; cbn [fst snd] in *. intros E. injection E as E1 E2. auto.
  Qed.
  Lemma key_name : forall l x y, In x V0 -> In y V0 -> ident_eqb (kk (l, y)) (kk (l, x)) = N.eqb y x.
  Proof.
    intros l x y Hx Hy. destruct (N.eqb_spec y x) as [->|Hne].
    - apply ident_eqb_refl.
    - apply ident_eqb_neq. unfold key; cbn [fst snd]. intros E. injection E as E. apply Hne. apply Hinj; auto.
  Qed.
  Lemma read_write_same : forall st id v, rref (wref st id v) id = Some v.
  Proof. intros. rewrite read_write, ident_eqb_refl. reflexivity. Qed.
  Lemma read_write_level : forall st id v id', fst id <> fst id' -> rref (wref st id v) id' = rref st id'.
  Proof. intros. rewrite read_write, key_level; auto. Qed.
  Lemma read_write_name : forall st l x y v, In x V0 -> In y V0 -> y <> x -> rref (wref st (l, x) v) (l, y) = rref st (l, y).
  Proof. intros. rewrite read_write, key_name; auto. destruct (N.eqb_spec y x); [contradiction|reflexivity]. Qed.

  (* everything but the locals *)
  Definition same_misc (st st' : fstate) : Prop :=
    f_below st' = f_below st /\ f_chain st' = f_chain st /\ f_cvars st' = f_cvars st /\
    f_exported st' = f_exported st /\ f_heap st' = f_heap st.
  Lemma same_misc_refl : forall st, same_misc st st. Proof. unfold same_misc; auto. Qed.
  Lemma same_misc_trans : forall a b c, same_misc a b -> same_misc b c -> same_misc a c.
  Proof. unfold same_misc. intros a b c [A1 [A2 [A3 [A4 A5]]]] [B1 [B2 [B3 [B4 B5]]]]. repeat split; congruence. Qed.
  Lemma same_misc_write : forall st id v, same_misc st (wref st id v).
  Proof. unfold same_misc, write_ref, set_loc; cbn. auto. Qed.
  Lemma resolve_misc : forall st st' x, f_cvars st' = f_cvars st -> resolve d st' x = resolve d st x.
  Proof. intros st st' x E. unfold resolve. rewrite E. reflexivity. Qed.
  Lemma read_add_log : forall st x id, rref (add_log st x) id = rref st id.
  Proof. reflexivity. Qed.

  (* ---------------------------------------------------------- enter_frame *)
  Definition load_val (st : fstate) (id : ident) (l : loadk) : option (option value) :=
    match l with
    | LParam => rref st id
    | LResolve x => Some (resolve d st x)
    | LAlias o => rref st o
    | LUndef => Some None
    end.

  Lemma enter_loads_spec : forall lvl loads st,
    NoDup (keys loads) ->
    (forall id l, In (id, l) loads -> fst id = lvl /\ In (snd id) V0 /\
                  (forall o, l = LAlias o -> fst o <> lvl /\ rref st o <> None)) ->
    exists st', enter_loads pynorm d st loads = Ok st' /\ same_misc st st' /\
      (forall id, fst id <> lvl -> rref st' id = rref st id) /\
      (forall id, fst id = lvl -> In (snd id) V0 -> ~ In id (keys loads) -> rref st' id = rref st id) /\
      (forall id l, In (id, l) loads -> rref st' id = load_val st id l).
  Proof.
    intros lvl loads. induction loads as [|[tid l] r IH]; intros st Hnd Hok.
    - exists st. cbn. split; [reflexivity|]. split; [apply same_misc_refl|]. repeat split; auto. intros id l [].
    - cbn [keys map fst] in Hnd. inversion Hnd as [|? ? Hnin Hnd']; subst.
      destruct (Hok tid l (or_introl eq_refl)) as [Hlv [HV Hal]].
      assert (Hrest : forall st1, same_misc st st1 ->
                (forall id, fst id <> lvl -> rref st1 id = rref st id) ->
                (forall id, fst id = lvl -> In (snd id) V0 -> id <> tid -> rref st1 id = rref st id) ->
                rref st1 tid = load_val st tid l ->
                exists st', enter_loads pynorm d st1 r = Ok st' /\ same_misc st st' /\
                  (forall id, fst id <> lvl -> rref st' id = rref st id) /\
                  (forall id, fst id = lvl -> In (snd id) V0 -> ~ In id (keys ((tid, l) :: r)) -> rref st' id = rref st id) /\
                  (forall id l0, In (id, l0) ((tid, l) :: r) -> rref st' id = load_val st id l0)).
      { intros st1 M1 Hlow Hoth Htid.
        destruct (IH st1 Hnd') as [st' [E [M [A [B C]]]]].
        { intros id l0 Hin. destruct (Hok id l0 (or_intror Hin)) as [H1 [H2 H3]]. split; [exact H1|]. split; [exact H2|].
          intros o Ho. destruct (H3 o Ho) as [H4 H5]. split; [exact H4|]. rewrite Hlow; auto. }
        exists st'. split; [exact E|]. split; [eapply same_misc_trans; eauto|]. split; [|split].
        - intros id Hid. rewrite (A id Hid). apply Hlow. exact Hid.
        - intros id Hid HVid Hn. cbn [keys map fst] in Hn. rewrite (B id Hid HVid); [|intros Hc; apply Hn; right; exact Hc].
          apply Hoth; auto. intros ->. apply Hn. left. reflexivity.
        - intros id l0 [Eq|Hin].
          + injection Eq as <- <-. rewrite B; auto.
          + rewrite (C id l0 Hin). destruct (Hok id l0 (or_intror Hin)) as [H1 [H2 H3]].
            assert (Hne : id <> tid).
            { intros ->. apply Hnin. change (In (fst (tid, l0)) (map fst r)). apply in_map. exact Hin. }
            destruct l0; cbn [load_val].
            * apply Hoth; auto.
            * f_equal. apply resolve_misc. apply M1.
            * destruct (H3 r0 eq_refl) as [H4 _]. apply Hlow. exact H4.
            * reflexivity. }
      assert (Hw : forall v, let st1 := wref st tid v in
                (forall id, fst id <> lvl -> rref st1 id = rref st id) /\
                (forall id, fst id = lvl -> In (snd id) V0 -> id <> tid -> rref st1 id = rref st id) /\
                rref st1 tid = Some v).
      { intros v. cbv zeta. split; [|split].
        - intros id Hid. apply read_write_level. congruence.
        - intros [l1 y] Hid HVid Hne. destruct tid as [l2 x]. cbn [fst snd] in *. subst l1 l2.
          apply read_write_name; auto. intros ->. apply Hne. reflexivity.
        - apply read_write_same. }
      cbn [enter_loads]. destruct l as [|x|o|].
      + (* param *) apply Hrest; auto using same_misc_refl.
      + (* resolve *)
        destruct (Hw (resolve d st x)) as [W1 [W2 W3]].
        destruct (Hrest (wref (add_log st x) tid (resolve d st x))) as [st' H']; [| | | |exists st'; exact H'].
        * unfold same_misc, write_ref, set_loc, add_log; cbn. auto.
        * exact W1. * exact W2. * exact W3.
      + (* alias *)
        destruct (Hal o eq_refl) as [Ho1 Ho2].
        destruct (rref st o) as [v|] eqn:Eo; [|contradiction].
        destruct (Hw v) as [W1 [W2 W3]].
        destruct (Hrest (wref st tid v)) as [st' H']; [| | | |exists st'; exact H'].
        * apply same_misc_write. * exact W1. * exact W2. * cbn [load_val]. rewrite Eo. exact W3.
      + (* undefined *)
        destruct (Hw None) as [W1 [W2 W3]].
        destruct (Hrest (wref st tid None)) as [st' H']; [| | | |exists st'; exact H'].
        * apply same_misc_write. * exact W1. * exact W2. * exact W3.
  Qed.

  Lemma leave_frame_spec : forall lvl S st,
    (forall id l, In (id, l) (s_loads S) -> fst id = lvl) ->
    let st' := leave_frame pynorm st S in
    same_misc st st' /\ (forall id, fst id <> lvl -> rref st' id = rref st id).
  Proof.
    intros lvl S st. unfold leave_frame. generalize (s_loads S). intros loads. revert st.
    induction loads as [|[tid l] r IH]; intros st H; cbn [fold_left].
    - split; [apply same_misc_refl|auto].
    - destruct (IH (wref st tid None)) as [M A]. { intros id l0 Hin. apply (H id l0). right. exact Hin. }
      split; [eapply same_misc_trans; [apply same_misc_write|exact M]|].
      intros id Hid. rewrite A; auto. apply read_write_level. cbn [fst]. rewrite (H tid l (or_introl eq_refl)). congruence.
  Qed.

  (* ---------------------------------------------------------- the relation *)
  Definition ctxv (x : name) : value :=
    match dget N.eqb x d with
    | Some v => v
    | None => match dget N.eqb x spec_globals with Some v => v | None => VUndef end
    end.
  Definition slkv (scopes : list scope) (env : list nat) (x : name) : value :=
    match lookup_env scopes env x with Some v => v | None => ctxv x end.
  Lemma slk_slkv : forall env ss x, slk d env ss x = Ok (slkv (s_scopes ss) env x).
  Proof.
    intros. unfold slk, slkv, ctxv. destruct (lookup_env (s_scopes ss) env x); [reflexivity|].
    destruct (dget N.eqb x d); [reflexivity|]. destruct (dget N.eqb x spec_globals); reflexivity.
  Qed.
  Definition val_of (ov : option value) : value := match ov with Some v => v | None => VUndef end.

  Definition frame_rel (rd : ident -> option (option value)) (S : symbols) (V : list name)
             (sc : scope) (below : name -> value) : Prop :=
    (forall x v, In x V -> dget N.eqb x sc = Some v -> hasref S x /\ rd (s_level S, x) = Some (Some v)) /\
    (forall x, In x V -> hasref S x -> dget N.eqb x sc = None ->
               exists ov, rd (s_level S, x) = Some ov /\ val_of ov = below x).

  (* frames: symbols paired with the names occurring in the frame's text *)
  Definition frames := list (symbols * list name).
  Fixpoint chain_rel (rd : ident -> option (option value)) (scopes : list scope) (fs : frames) (env : list nat) : Prop :=
    match fs, env with
    | [], [] => True
    | (Sy, V) :: P, i :: E => frame_rel rd Sy V (nth i scopes []) (slkv scopes E) /\ chain_rel rd scopes P E
    | _, _ => False
    end.
  Definition syms_of (fs : frames) : list symbols := map fst fs.
  Fixpoint wfchain (fs : frames) : Prop :=
    match fs with
    | [] => True
    | (Sy, V) :: P => (exists ps, WF ps (syms_of P) Sy) /\ s_level Sy = length P /\ incl V V0 /\
                     (match P with [] => True | (_, V') :: _ => incl V V' end) /\ wfchain P
    end.

  Lemma wfchain_incl : forall fs S V x, wfchain ((S, V) :: fs) -> In x V -> Forall (fun f => In x (snd f)) ((S, V) :: fs).
  Proof.
    intros fs. induction fs as [|[S' V'] r IH]; intros S V x W Hx.
    - constructor; [exact Hx|constructor].
    - constructor; [exact Hx|]. destruct W as [_ [_ [_ [Hi W']]]]. apply (IH S' V' x W'). apply Hi. exact Hx.
  Qed.

  Lemma lookup_agree : forall fs env rd scopes x,
    wfchain fs -> chain_rel rd scopes fs env -> Forall (fun f => In x (snd f)) fs ->
    (forall id, find_ref (syms_of fs) x = Some id -> exists ov, rd id = Some ov /\ val_of ov = slkv scopes env x) /\
    (find_ref (syms_of fs) x = None -> lookup_env scopes env x = None).
  Proof.
    induction fs as [|[S V] P IH]; intros env rd scopes x W C HV.
    - destruct env; [|contradiction]. cbn. split; [discriminate|reflexivity].
    - destruct env as [|i E]; [contradiction|]. destruct C as [[A B] C']. destruct W as [[ps WS] [Lv [_ [_ W']]]].
      inversion HV as [|? ? HxV HV']; subst. cbn [snd] in HxV.
      destruct (IH E rd scopes x W' C' HV') as [IH1 IH2].
      cbn [syms_of map fst]. fold (syms_of P).
      destruct (hasref_dec S x) as [Hr|Hr].
      + rewrite (find_ref_own ps (syms_of P) S x WS Hr). split; [|discriminate].
        intros id Eq. injection Eq as <-.
        destruct (dget N.eqb x (nth i scopes [])) as [v|] eqn:Es.
        * destruct (A x v HxV Es) as [_ Hrd]. exists (Some v). split; [exact Hrd|].
          unfold slkv. cbn [lookup_env]. rewrite Es. reflexivity.
        * destruct (B x HxV Hr Es) as [ov [Hrd Hv]]. exists ov. split; [exact Hrd|].
          rewrite Hv. unfold slkv. cbn [lookup_env]. rewrite Es. reflexivity.
      + rewrite (find_ref_skip (syms_of P) S x Hr).
        assert (Es : dget N.eqb x (nth i scopes []) = None).
        { destruct (dget N.eqb x (nth i scopes [])) as [v|] eqn:Es; [|reflexivity].
          destruct (A x v HxV Es) as [Hh _]. contradiction. }
        split.
        * intros id Eq. destruct (IH1 id Eq) as [ov [Hrd Hv]]. exists ov. split; [exact Hrd|].
          rewrite Hv. unfold slkv. cbn [lookup_env]. rewrite Es. reflexivity.
        * intros Eq. cbn [lookup_env]. rewrite Es. auto.
  Qed.

  Lemma chain_rel_ext : forall fs env rd rd' scopes,
    wfchain fs -> (forall id, fst id < length fs -> rd' id = rd id) ->
    chain_rel rd scopes fs env -> chain_rel rd' scopes fs env.
  Proof.
    induction fs as [|[S V] P IH]; intros env rd rd' scopes W H C.
    - exact C.
    - destruct env as [|i E]; [contradiction|]. destruct C as [[A B] C']. destruct W as [_ [Lv [_ [_ W']]]].
      split; [split|].
      + intros x v Hx Es. destruct (A x v Hx Es) as [A1 A2]. split; [exact A1|]. rewrite H; [exact A2|]. cbn [fst length]. lia.
      + intros x Hx Hr Es. destruct (B x Hx Hr Es) as [ov [B1 B2]]. exists ov. split; [|exact B2]. rewrite H; [exact B1|]. cbn [fst length]. lia.
      + apply (IH E rd rd' scopes W'); [|exact C']. intros id Hid. apply H. cbn [length]. lia.
  Qed.

  Lemma chain_rel_len : forall fs env rd scopes, chain_rel rd scopes fs env -> length fs = length env.
  Proof.
    induction fs as [|[S V] P IH]; intros [|i E] rd scopes C; cbn in *; try contradiction; auto.
    destruct C as [_ C]. f_equal. eapply IH; eauto.
  Qed.

  (* scopes can change outside the environment *)
  Lemma lookup_env_ext : forall env (scopes scopes' : list scope) x,
    (forall i, In i env -> nth i scopes' [] = nth i scopes []) -> lookup_env scopes' env x = lookup_env scopes env x.
  Proof.
    induction env as [|i E IH]; intros scopes scopes' x H; cbn [lookup_env]; [reflexivity|].
    pose proof (H i (or_introl eq_refl)) as Hi.
    assert (IH' : lookup_env scopes' E x = lookup_env scopes E x). { apply IH. intros j Hj. apply H. right. exact Hj. }
    destruct (dget N.eqb x (nth i scopes' [])) eqn:E1; rewrite Hi in E1; rewrite E1; [reflexivity|exact IH'].
  Qed.
  Lemma slkv_ext : forall env (scopes scopes' : list scope) x,
    (forall i, In i env -> nth i scopes' [] = nth i scopes []) -> slkv scopes' env x = slkv scopes env x.
  Proof. intros. unfold slkv. rewrite (lookup_env_ext env scopes scopes' x); auto. Qed.
  Lemma chain_rel_scopes : forall fs env rd (scopes scopes' : list scope),
    (forall i, In i env -> nth i scopes' [] = nth i scopes []) ->
    chain_rel rd scopes fs env -> chain_rel rd scopes' fs env.
  Proof.
    induction fs as [|[S V] P IH]; intros [|i E] rd scopes scopes' H C; cbn in *; try contradiction; auto.
    destruct C as [[A B] C]. split; [split|].
    - intros x v Hx Es. rewrite (H i (or_introl eq_refl)) in Es. apply (A x v Hx Es).
    - intros x Hx Hr Es. rewrite (H i (or_introl eq_refl)) in Es. destruct (B x Hx Hr Es) as [ov [B1 B2]].
      exists ov. split; [exact B1|]. rewrite B2. symmetry. apply slkv_ext. intros j Hj. apply H. right. exact Hj.
    - apply (IH E rd scopes scopes'); [|exact C]. intros j Hj. apply H. right. exact Hj.
  Qed.
  Lemma nth_app_old : forall (scopes : list scope) sc i, i < length scopes -> nth i (scopes ++ [sc]) [] = nth i scopes [].
  Proof. intros. apply app_nth1. exact H. Qed.
  Lemma nth_app_new : forall (scopes : list scope) sc, nth (length scopes) (scopes ++ [sc]) [] = sc.
  Proof. intros. rewrite app_nth2; [|lia]. rewrite Nat.sub_diag. reflexivity. Qed.
  Lemma upd_scope_nth : forall scopes i x v j,
    nth j (upd_scope scopes i x v) [] = if Nat.eqb j i then (if Nat.ltb i (length scopes) then dset N.eqb x v (nth i scopes []) else []) else nth j scopes [].
  Proof.
    induction scopes as [|s r IH]; intros i x v j.
    - cbn. destruct i, j; cbn; try reflexivity. destruct (Nat.eqb j i); reflexivity.
    - destruct i as [|i]; destruct j as [|j]; cbn [upd_scope nth Nat.eqb length]; try reflexivity.
      rewrite IH. destruct (Nat.eqb j i); [|reflexivity].
      change (S i <? S (length r)) with (i <? length r). reflexivity.
  Qed.
  Lemma upd_scope_len : forall scopes i x v, length (upd_scope scopes i x v) = length scopes.
  Proof. induction scopes as [|s r IH]; intros [|i] x v; cbn; auto. Qed.

  Lemma find_ref_level : forall fs x id, wfchain fs -> find_ref (syms_of fs) x = Some id -> fst id < length fs /\ snd id = x.
  Proof.
    induction fs as [|[S V] P IH]; intros x id W H; cbn in H; [discriminate|].
    destruct W as [[ps WS] [Lv [_ [_ W']]]]. fold (syms_of P) in H.
    destruct (dget N.eqb x (s_refs S)) as [id'|] eqn:E.
    - injection H as <-. pose proof (wf_refs _ _ _ WS x id' (dget_In N.eqb N.eqb_eq _ _ _ E)) as ->. cbn. split; [lia|reflexivity].
    - destruct (IH x id W' H). cbn [length]. split; [lia|assumption].
  Qed.

  (* ---------------------------------------------------------- expressions *)
  Lemma eval_ext : forall (lk1 lk2 : name -> res value) h e,
    (forall x, In x (expr_names e) -> lk1 x = lk2 x) -> eval lk1 h e = eval lk2 h e.
  Proof.
    intros lk1 lk2 h. induction e; intros H; cbn [eval expr_names] in *; auto.
    - apply H. left. reflexivity.
    - rewrite IHe1, IHe2; [reflexivity| |]; intros y Hy; apply H; apply in_or_app; auto.
    - rewrite IHe1, IHe2; [reflexivity| |]; intros y Hy; apply H; apply in_or_app; auto.
    - rewrite (H x); [reflexivity|left; reflexivity].
  Qed.
  Lemma eval_list_ext : forall (lk1 lk2 : name -> res value) h es,
    (forall x, In x (exprs_names es) -> lk1 x = lk2 x) -> eval_list lk1 h es = eval_list lk2 h es.
  Proof.
    intros lk1 lk2 h. induction es as [|e r IH]; intros H; cbn [eval_list]; [reflexivity|].
    unfold exprs_names in H; cbn [flat_map] in H.
    rewrite (eval_ext lk1 lk2 h e), IH; [reflexivity| |]; intros y Hy; apply H; apply in_or_app; auto.
  Qed.
  Lemma eval_out_ext : forall (lk1 lk2 : name -> res value) h es,
    (forall x, In x (exprs_names es) -> lk1 x = lk2 x) -> eval_out lk1 h es = eval_out lk2 h es.
  Proof.
    intros lk1 lk2 h. induction es as [|e r IH]; intros H; cbn [eval_out]; [reflexivity|].
    unfold exprs_names in H; cbn [flat_map] in H.
    rewrite (eval_ext lk1 lk2 h e), IH; [reflexivity| |]; intros y Hy; apply H; apply in_or_app; auto.
  Qed.
  Lemma eval_kvs_ext : forall (lk1 lk2 : name -> res value) h kvs,
    (forall x, In x (exprs_names (map snd kvs)) -> lk1 x = lk2 x) -> eval_kvs lk1 h kvs = eval_kvs lk2 h kvs.
  Proof.
    intros lk1 lk2 h. induction kvs as [|[a e] r IH]; intros H; cbn [eval_kvs]; [reflexivity|].
    unfold exprs_names in H; cbn [flat_map map snd] in H.
    rewrite (eval_ext lk1 lk2 h e), IH; [reflexivity| |]; intros y Hy; apply H; apply in_or_app; auto.
  Qed.

  (* ---------------------------------------------------------- the invariant *)
  Definition pub (xv : name * value) : bool := negb (priv (fst xv)).
  Definition env_ok (fr : flags) (env : list nat) : Prop :=
    NoDup env /\ In 0 env /\ (if toplevel fr then env = [0] else hd 0 env <> 0).

  Record Inv (fs : frames) (st : fstate) (env : list nat) (ss : sstate) : Prop := mkInv {
    i_wf : wfchain fs;
    i_rel : chain_rel (rref st) (s_scopes ss) fs env;
    i_heap : f_heap st = s_heap ss;
    i_root : f_below st = [] /\ f_chain st = [];                 (* statements run in the root activation *)
    i_valid : forall i, In i env -> i < length (s_scopes ss);
    i_cvars : f_cvars st = nth 0 (s_scopes ss) [];
    i_exp : f_exported st = map fst (filter pub (nth 0 (s_scopes ss) []));
    i_nd0 : NoDup (keys (nth 0 (s_scopes ss) []))
  }.

  Lemma Inv_chain_ok : forall fs st env ss, Inv fs st env ss -> forall i, In i (f_chain st) -> i < length (f_below st).
  Proof. intros fs st env ss I i Hi. destruct (i_root _ _ _ _ I) as [_ Hc]. rewrite Hc in Hi. contradiction. Qed.

  Lemma flk_agree : forall S V P st env ss x,
    Inv ((S, V) :: P) st env ss -> In x V -> found (S :: syms_of P) x ->
    flk pynorm (S :: syms_of P) st x = slk d env ss x.
  Proof.
    intros S V P st env ss x I Hx F. rewrite slk_slkv.
    destruct (lookup_agree ((S, V) :: P) env (rref st) (s_scopes ss) x (i_wf _ _ _ _ I) (i_rel _ _ _ _ I)) as [L1 _].
    { apply wfchain_incl; [apply I|exact Hx]. }
    unfold flk. change (S :: syms_of P) with (syms_of ((S, V) :: P)) in *. unfold found in F.
    destruct (find_ref (syms_of ((S, V) :: P)) x) as [id|] eqn:E; [|contradiction].
    destruct (L1 id eq_refl) as [ov [R1 R2]]. rewrite R1. destruct ov; cbn in R2; rewrite <- R2; reflexivity.
  Qed.

  Lemma exp_dset : forall x v (sc : scope),
    map fst (filter pub (dset N.eqb x v sc)) =
    if negb (priv x) then nadd x (map fst (filter pub sc)) else map fst (filter pub sc).
  Proof.
    intros x v sc. unfold pub. induction sc as [|[k w] r IH]; cbn [dset].
    - cbn [filter fst]. destruct (negb (priv x)); reflexivity.
    - destruct (N.eqb_spec x k) as [->|Hne]; cbn [filter fst].
      + destruct (negb (priv k)) eqn:Ep; [|reflexivity].
        cbn [map fst]. unfold nadd; cbn [nmem]. rewrite N.eqb_refl. reflexivity.
      + destruct (negb (priv k)) eqn:Ek; cbn [map fst]; rewrite IH; [|reflexivity].
        destruct (negb (priv x)); [|reflexivity]. unfold nadd; cbn [nmem].
        destruct (N.eqb_spec x k); [contradiction|]. cbn [orb].
        match goal with |- context [nmem x ?l] => destruct (nmem x l) end; reflexivity.
  Qed.

  (* ---------------------------------------------------------- assignment *)
  Lemma assign_ok : forall S V P fr st env ss x v,
    Inv ((S, V) :: P) st env ss -> env_ok fr env -> hasref S x -> In x V ->
    exists st', assign pynorm priv (S :: syms_of P) fr st x v = Ok st' /\
                Inv ((S, V) :: P) st' env (sassign env ss x v) /\ f_heap st' = f_heap st.
  Proof.
    intros S V P fr st env ss x v I [Hnd [Hz Htop]] Hr Hx.
    pose proof (i_wf _ _ _ _ I) as W. destruct W as [[ps WS] [Lv [HV0 [HVi W']]]].
    pose proof (i_rel _ _ _ _ I) as C. destruct env as [|i E]; [contradiction|]. destruct C as [[A B] C'].
    unfold assign. rewrite (find_ref_own ps (syms_of P) S x WS Hr).
    set (st1 := wref st (s_level S, x) (Some v)).
    set (st2 := if toplevel fr then set_cvar st1 x v (negb (priv x)) else st1).
    exists st2. split; [reflexivity|].
    assert (Hi : i < length (s_scopes ss)) by (apply (i_valid _ _ _ _ I); left; reflexivity).
    assert (Hnth : forall j, nth j (s_scopes (sassign (i :: E) ss x v)) [] =
                             if Nat.eqb j i then dset N.eqb x v (nth i (s_scopes ss) []) else nth j (s_scopes ss) []).
    { intros j. unfold sassign; cbn [s_scopes]. rewrite upd_scope_nth.
      destruct (Nat.eqb j i); [|reflexivity]. destruct (Nat.ltb_spec i (length (s_scopes ss))); [reflexivity|lia]. }
    assert (HE : forall j, In j E -> nth j (s_scopes (sassign (i :: E) ss x v)) [] = nth j (s_scopes ss) []).
    { intros j Hj. rewrite Hnth. destruct (Nat.eqb_spec j i) as [->|]; [|reflexivity].
      inversion Hnd; subst. contradiction. }
    assert (Hrd : forall id, rref st2 id = rref st1 id).
    { intros id. unfold st2. destruct (toplevel fr); reflexivity. }
    split; [|unfold st2, st1; destruct (toplevel fr); reflexivity].
    constructor.
    - exact (i_wf _ _ _ _ I).
    - cbn [chain_rel]. split; [split|].
      + intros y w Hy Es. rewrite Hnth, Nat.eqb_refl in Es. rewrite (dget_dset N.eqb N.eqb_eq) in Es.
        rewrite Hrd. unfold st1. destruct (N.eqb_spec y x) as [->|Hne].
        * injection Es as <-. split; [exact Hr|]. apply read_write_same.
        * destruct (A y w Hy Es) as [A1 A2]. split; [exact A1|]. rewrite read_write_name; auto.
      + intros y Hy Hry Es. rewrite Hnth, Nat.eqb_refl in Es. rewrite (dget_dset N.eqb N.eqb_eq) in Es.
        destruct (N.eqb_spec y x) as [->|Hne]; [discriminate|].
        destruct (B y Hy Hry Es) as [ov [B1 B2]]. exists ov. split.
        * rewrite Hrd. unfold st1. rewrite read_write_name; auto.
        * rewrite B2. symmetry. apply slkv_ext. exact HE.
      + apply (chain_rel_scopes P E _ (s_scopes ss)); [exact HE|].
        apply (chain_rel_ext P E (rref st)); [exact W'| |exact C'].
        intros id Hid. rewrite Hrd. unfold st1. apply read_write_level. cbn [fst]. lia.
    - unfold st2, st1, sassign; cbn [s_heap]. rewrite <- (i_heap _ _ _ _ I). destruct (toplevel fr); reflexivity.
    - unfold st2, st1. destruct (toplevel fr); exact (i_root _ _ _ _ I).
    - intros j Hj. unfold sassign; cbn [s_scopes]. rewrite upd_scope_len. apply (i_valid _ _ _ _ I). exact Hj.
    - rewrite Hnth. unfold st2, st1. destruct (toplevel fr) eqn:Et.
      + injection Htop as -> ->. cbn [Nat.eqb]. unfold set_cvar; cbn [f_cvars]. unfold write_ref, set_loc; cbn [f_cvars].
        rewrite (i_cvars _ _ _ _ I). reflexivity.
      + cbn [hd] in Htop. destruct (Nat.eqb_spec 0 i); [congruence|]. unfold write_ref, set_loc; cbn [f_cvars]. apply (i_cvars _ _ _ _ I).
    - rewrite Hnth. unfold st2, st1. destruct (toplevel fr) eqn:Et.
      + injection Htop as -> ->. cbn [Nat.eqb]. unfold set_cvar; cbn [f_exported]. unfold write_ref, set_loc; cbn [f_exported].
        rewrite exp_dset, (i_exp _ _ _ _ I). reflexivity.
      + cbn [hd] in Htop. destruct (Nat.eqb_spec 0 i); [congruence|]. unfold write_ref, set_loc; cbn [f_exported]. apply (i_exp _ _ _ _ I).
    - rewrite Hnth. destruct (Nat.eqb_spec 0 i) as [<-|]; [apply (nodup_dset N.eqb N.eqb_eq)|]; apply (i_nd0 _ _ _ _ I).
  Qed.

  (* ---------------------------------------------------------- moving between frames *)
  Lemma Inv_ext : forall fs st st' env ss,
    Inv fs st env ss -> same_misc st st' -> (forall id, fst id < length fs -> rref st' id = rref st id) ->
    Inv fs st' env ss.
  Proof.
    intros fs st st' env ss I [M1 [M2 [M3 [M4 M5]]]] H. constructor.
    - apply I.
    - apply (chain_rel_ext fs env (rref st)); [apply I|exact H|apply I].
    - rewrite M5. apply I.
    - rewrite M1, M2. apply I.
    - apply I.
    - rewrite M3. apply I.
    - rewrite M4. apply I.
    - apply I.
  Qed.
  Lemma Inv_tail : forall S V fs st n env ss, Inv ((S, V) :: fs) st (n :: env) ss -> Inv fs st env ss.
  Proof.
    intros S V fs st n env ss I. constructor.
    - destruct (i_wf _ _ _ _ I) as [_ [_ [_ [_ W]]]]. exact W.
    - destruct (i_rel _ _ _ _ I) as [_ C]. exact C.
    - apply I.
    - apply I.
    - intros i Hi. apply (i_valid _ _ _ _ I). right. exact Hi.
    - apply I.
    - apply I.
    - apply I.
  Qed.

  Lemma sym_new_level : forall fs, wfchain fs -> s_level (sym_new (syms_of fs)) = length fs.
  Proof.
    intros [|[S V] P] W; cbn; [reflexivity|]. destruct W as [_ [Lv _]]. rewrite Lv. reflexivity.
  Qed.

  Lemma lookup_env_none_in : forall env (scopes : list scope) x i,
    lookup_env scopes env x = None -> In i env -> dget N.eqb x (nth i scopes []) = None.
  Proof.
    induction env as [|j E IH]; intros scopes x i H Hi; [contradiction|].
    cbn [lookup_env] in H. destruct (dget N.eqb x (nth j scopes [])) eqn:Ej; [discriminate|].
    destruct Hi as [->|Hi]; [exact Ej|apply (IH scopes x i H Hi)].
  Qed.

  Definition gok (ch : list symbols) : Prop :=
    match ch with
    | [] => True
    | s :: _ => forall x, In x (undef_names s) -> dget N.eqb x d = None /\ dget N.eqb x spec_globals = None
    end.
  Lemma undef_in : forall s id, dget ident_eqb id (s_loads s) = Some LUndef -> In (snd id) (undef_names s).
  Proof.
    intros s id H. apply (dget_In ident_eqb ident_eqb_eq) in H. unfold undef_names.
    apply in_flat_map. exists (id, LUndef). split; [exact H|]. cbn. left. reflexivity.
  Qed.

  Lemma resolve_ctx : forall st x, dget N.eqb x (f_cvars st) = None -> val_of (resolve d st x) = ctxv x.
  Proof.
    intros st x H. unfold resolve, ctxv. rewrite H. destruct (dget N.eqb x d); [reflexivity|].
    change globals with spec_globals. destruct (dget N.eqb x spec_globals); reflexivity.
  Qed.

  (* entering a frame that the code generator builds as [mk_frame]: the parameters have been
     written, the spec opens a new scope holding them *)
  Lemma enter_ok : forall fs st env ss ps body sc,
    let S' := mk_frame (syms_of fs) ps body in
    let V' := onames_l body in
    Inv fs st env ss ->
    (In 0 env \/ (env = [] /\ s_scopes ss = [] /\ sc = [] /\ f_cvars st = [] /\ f_exported st = [])) ->
    incl ps V0 -> incl V' V0 -> (match fs with [] => True | (_, V) :: _ => incl V' V end) ->
    (forall x v, In x V' -> dget N.eqb x sc = Some v -> In x ps /\ rref st (length fs, x) = Some (Some v)) ->
    (forall x, In x V' -> In x ps -> dget N.eqb x sc <> None) ->
    gok (S' :: syms_of fs) ->
    exists st', enter_frame pynorm d st S' = Ok st' /\ same_misc st st' /\
      (forall id, fst id < length fs -> rref st' id = rref st id) /\
      Inv ((S', V') :: fs) st' (length (s_scopes ss) :: env) (snd (new_scope ss sc)).
  Proof.
    intros fs st env ss ps body sc S' V' I Hz Hps HV0 HVi Hpar Hbound Hg.
    destruct (mk_frame_ok (syms_of fs) ps body) as [WS [Lv0 [Hpr _]]]. fold S' in WS, Lv0, Hpr.
    pose proof (i_wf _ _ _ _ I) as Wf.
    assert (Lv : s_level S' = length fs) by (rewrite Lv0; apply sym_new_level; exact Wf).
    assert (HrefV : forall x, hasref S' x -> In x ps \/ In x V') by (intros x; apply mk_frame_refs).
    assert (HchainV : forall x, In x V' -> Forall (fun f => In x (snd f)) fs).
    { intros x Hx. destruct fs as [|[S V] P]; [constructor|]. apply wfchain_incl; [exact Wf|]. apply HVi. exact Hx. }
    assert (Hcv : forall x, lookup_env (s_scopes ss) env x = None -> dget N.eqb x (f_cvars st) = None).
    { intros x Hn. destruct Hz as [Hz|[_ [_ [_ [Hc _]]]]]; [|rewrite Hc; reflexivity].
      rewrite (i_cvars _ _ _ _ I). apply (lookup_env_none_in env _ x 0 Hn Hz). }
    assert (Hc0 : f_cvars st = nth 0 (s_scopes ss ++ [sc]) [] /\
                  f_exported st = map fst (filter pub (nth 0 (s_scopes ss ++ [sc]) [])) /\
                  NoDup (keys (nth 0 (s_scopes ss ++ [sc]) []))).
    { destruct Hz as [Hz|[_ [Hs [-> [Hc He]]]]].
      - assert (Hz' : 0 < length (s_scopes ss)) by (apply (i_valid _ _ _ _ I); exact Hz).
        rewrite (nth_app_old _ _ 0 Hz'). split; [|split]; apply I.
      - rewrite Hs, Hc, He. cbn. split; [|split]; auto. constructor. }
    destruct (enter_loads_spec (length fs) (s_loads S') st (wf_nodup _ _ _ WS)) as [st' [E [M [A [B C]]]]].
    { intros id l Hin. destruct (wf_keys _ _ _ WS id l Hin) as [x [-> [Hr L]]]. cbn [fst snd]. split; [exact Lv|].
      split; [destruct (HrefV x Hr); auto|].
      intros o ->. unfold lok in L. destruct (nmem x ps) eqn:Ep; [discriminate|].
      assert (HxV : In x V'). { destruct (HrefV x Hr) as [Hc|Hc]; [apply nmem_In in Hc; congruence|exact Hc]. }
      destruct (find_ref_level fs x o Wf L) as [Ho _]. split; [lia|].
      destruct (lookup_agree fs env (rref st) (s_scopes ss) x Wf (i_rel _ _ _ _ I) (HchainV x HxV)) as [L1 _].
      destruct (L1 o L) as [ov [R1 _]]. congruence. }
    exists st'. split; [exact E|]. split; [exact M|]. split; [intros id Hid; apply A; lia|].
    assert (Hold : forall i, In i env -> nth i (s_scopes ss ++ [sc]) [] = nth i (s_scopes ss) []).
    { intros i Hi. apply nth_app_old. apply (i_valid _ _ _ _ I). exact Hi. }
    destruct M as [M1 [M2 [M3 [M4 M5]]]].
    constructor; unfold new_scope; cbn [snd s_scopes s_heap].
    - cbn [wfchain]. split; [exists ps; exact WS|]. split; [exact Lv|]. split; [exact HV0|]. split; [|exact Wf].
      destruct fs as [|[S V] P]; [trivial|exact HVi].
    - cbn [chain_rel]. rewrite nth_app_new. split; [split|].
      + intros x v Hx Es. destruct (Hpar x v Hx Es) as [Hp Hrd]. split; [apply Hpr; exact Hp|].
        destruct (WF_load ps _ S' x WS (Hpr x Hp)) as [l [Dl L]]. unfold lok in L. rewrite (proj2 (nmem_In x ps) Hp) in L. subst l.
        rewrite Lv in *. rewrite (C _ _ (dget_In ident_eqb ident_eqb_eq _ _ _ Dl)). cbn [load_val]. exact Hrd.
      + intros x Hx Hr Es.
        assert (Hnp : nmem x ps = false).
        { apply nmem_false. intros Hp. apply (Hbound x Hx Hp). exact Es. }
        destruct (WF_load ps _ S' x WS Hr) as [l [Dl L]]. unfold lok in L. rewrite Hnp in L.
        pose proof (C _ _ (dget_In ident_eqb ident_eqb_eq _ _ _ Dl)) as Hc. rewrite Lv in *.
        destruct (lookup_agree fs env (rref st) (s_scopes ss) x Wf (i_rel _ _ _ _ I) (HchainV x Hx)) as [L1 L2].
        assert (Hs : forall w, w = slkv (s_scopes ss) env x -> w = slkv (s_scopes ss ++ [sc]) env x).
        { intros w ->. symmetry. apply slkv_ext. exact Hold. }
        destruct l as [|y|o|]; [contradiction| | |].
        * destruct L as [-> Fn]. exists (resolve d st x). split; [exact Hc|]. apply Hs.
          pose proof (L2 Fn) as Hn. unfold slkv. rewrite Hn. apply resolve_ctx. apply Hcv. exact Hn.
        * destruct (L1 o L) as [ov [R1 R2]]. exists ov. split; [cbn [load_val] in Hc; congruence|apply Hs; exact R2].
        * exists None. split; [exact Hc|]. apply Hs. pose proof (L2 L) as Hn. unfold slkv. rewrite Hn.
          destruct (Hg x) as [G1 G2]. { rewrite <- Lv in Dl. apply (undef_in S' _ Dl). }
          unfold ctxv. rewrite G1, G2. reflexivity.
      + apply (chain_rel_scopes fs env _ (s_scopes ss)); [exact Hold|].
        apply (chain_rel_ext fs env (rref st)); [exact Wf| |apply I]. intros id Hid. apply A. lia.
    - rewrite M5. apply I.
    - rewrite M1, M2. apply I.
    - intros i [<-|Hi]; rewrite app_length; cbn [length]; [lia|]. pose proof (i_valid _ _ _ _ I i Hi). lia.
    - rewrite M3. apply Hc0.
    - rewrite M4. apply Hc0.
    - apply Hc0.
  Qed.

  (* the same, when the parameters are written AFTER the frame is entered (with-statement):
     any later state that kept the non-parameter variables of the new level *)
  Lemma enter_ok2 : forall fs st env ss ps body,
    let S' := mk_frame (syms_of fs) ps body in
    let V' := onames_l body in
    Inv fs st env ss -> In 0 env ->
    incl ps V0 -> incl V' V0 -> (match fs with [] => True | (_, V) :: _ => incl V' V end) ->
    gok (S' :: syms_of fs) ->
    exists st', enter_frame pynorm d st S' = Ok st' /\ same_misc st st' /\
      (forall id, fst id <> length fs -> rref st' id = rref st id) /\
      forall stn sc,
        same_misc st' stn ->
        (forall id, fst id <> length fs -> rref stn id = rref st' id) ->
        (forall y, In y V0 -> ~ In y ps -> rref stn (length fs, y) = rref st' (length fs, y)) ->
        (forall x v, In x V' -> dget N.eqb x sc = Some v -> In x ps /\ rref stn (length fs, x) = Some (Some v)) ->
        (forall x, In x V' -> In x ps -> dget N.eqb x sc <> None) ->
        Inv ((S', V') :: fs) stn (length (s_scopes ss) :: env) (snd (new_scope ss sc)).
  Proof.
    intros fs st env ss ps body S' V' I Hz Hps HV0 HVi Hg.
    destruct (mk_frame_ok (syms_of fs) ps body) as [WS [Lv0 [Hpr _]]]. fold S' in WS, Lv0, Hpr.
    pose proof (i_wf _ _ _ _ I) as Wf.
    assert (Lv : s_level S' = length fs) by (rewrite Lv0; apply sym_new_level; exact Wf).
    assert (HrefV : forall x, hasref S' x -> In x ps \/ In x V') by (intros x; apply mk_frame_refs).
    assert (HchainV : forall x, In x V' -> Forall (fun f => In x (snd f)) fs).
    { intros x Hx. destruct fs as [|[S V] P]; [constructor|]. apply wfchain_incl; [exact Wf|]. apply HVi. exact Hx. }
    assert (Hz' : 0 < length (s_scopes ss)) by (apply (i_valid _ _ _ _ I); exact Hz).
    assert (Hcv : forall x, lookup_env (s_scopes ss) env x = None -> dget N.eqb x (f_cvars st) = None).
    { intros x Hn. rewrite (i_cvars _ _ _ _ I). apply (lookup_env_none_in env _ x 0 Hn Hz). }
    destruct (enter_loads_spec (length fs) (s_loads S') st (wf_nodup _ _ _ WS)) as [st' [E [M [A [B C]]]]].
    { intros id l Hin. destruct (wf_keys _ _ _ WS id l Hin) as [x [-> [Hr L]]]. cbn [fst snd]. split; [exact Lv|].
      split; [destruct (HrefV x Hr); auto|].
      intros o ->. unfold lok in L. destruct (nmem x ps) eqn:Ep; [discriminate|].
      assert (HxV : In x V'). { destruct (HrefV x Hr) as [Hc|Hc]; [apply nmem_In in Hc; congruence|exact Hc]. }
      destruct (find_ref_level fs x o Wf L) as [Ho _]. split; [lia|].
      destruct (lookup_agree fs env (rref st) (s_scopes ss) x Wf (i_rel _ _ _ _ I) (HchainV x HxV)) as [L1 _].
      destruct (L1 o L) as [ov [R1 _]]. congruence. }
    exists st'. split; [exact E|]. split; [exact M|]. split; [exact A|].
    intros stn sc Mn An Bn Hpar Hbound.
    assert (Hold : forall i, In i env -> nth i (s_scopes ss ++ [sc]) [] = nth i (s_scopes ss) []).
    { intros i Hi. apply nth_app_old. apply (i_valid _ _ _ _ I). exact Hi. }
    destruct M as [M1 [M2 [M3 [M4 M5]]]]. destruct Mn as [N1 [N2 [N3 [N4 N5]]]].
    constructor; unfold new_scope; cbn [snd s_scopes s_heap].
    - cbn [wfchain]. split; [exists ps; exact WS|]. split; [exact Lv|]. split; [exact HV0|]. split; [|exact Wf].
      destruct fs as [|[S V] P]; [trivial|exact HVi].
    - cbn [chain_rel]. rewrite nth_app_new. split; [split|].
      + intros x v Hx Es. destruct (Hpar x v Hx Es) as [Hp Hrd]. split; [apply Hpr; exact Hp|]. rewrite Lv. exact Hrd.
      + intros x Hx Hr Es.
        assert (Hnp : nmem x ps = false).
        { apply nmem_false. intros Hp. apply (Hbound x Hx Hp). exact Es. }
        destruct (WF_load ps _ S' x WS Hr) as [l [Dl L]]. unfold lok in L. rewrite Hnp in L.
        pose proof (C _ _ (dget_In ident_eqb ident_eqb_eq _ _ _ Dl)) as Hc. rewrite Lv in *.
        rewrite <- (Bn x (HV0 x Hx) (proj1 (nmem_false x ps) Hnp)) in Hc.
        destruct (lookup_agree fs env (rref st) (s_scopes ss) x Wf (i_rel _ _ _ _ I) (HchainV x Hx)) as [L1 L2].
        assert (Hs : forall w, w = slkv (s_scopes ss) env x -> w = slkv (s_scopes ss ++ [sc]) env x).
        { intros w ->. symmetry. apply slkv_ext. exact Hold. }
        destruct l as [|y|o|]; [contradiction| | |].
        * destruct L as [-> Fn]. exists (resolve d st x). split; [exact Hc|]. apply Hs.
          pose proof (L2 Fn) as Hn. unfold slkv. rewrite Hn. apply resolve_ctx. apply Hcv. exact Hn.
        * destruct (L1 o L) as [ov [R1 R2]]. exists ov. split; [cbn [load_val] in Hc; congruence|apply Hs; exact R2].
        * exists None. split; [exact Hc|]. apply Hs. pose proof (L2 L) as Hn. unfold slkv. rewrite Hn.
          destruct (Hg x) as [G1 G2]. { rewrite <- Lv in Dl. apply (undef_in S' _ Dl). }
          unfold ctxv. rewrite G1, G2. reflexivity.
      + apply (chain_rel_scopes fs env _ (s_scopes ss)); [exact Hold|].
        apply (chain_rel_ext fs env (rref st)); [exact Wf| |apply I]. intros id Hid. rewrite An, A; [reflexivity|lia|lia].
    - rewrite N5, M5. apply I.
    - rewrite N1, N2, M1, M2. apply I.
    - intros i [<-|Hi]; rewrite app_length; cbn [length]; [lia|]. pose proof (i_valid _ _ _ _ I i Hi). lia.
    - rewrite N3, M3, (nth_app_old _ _ 0 Hz'). apply I.
    - rewrite N4, M4, (nth_app_old _ _ 0 Hz'). apply I.
    - rewrite (nth_app_old _ _ 0 Hz'). apply I.
  Qed.

  (* ---------------------------------------------------------- find_undeclared *)
  Lemma undecl_none : forall l x, (forall c, ~ In (x, c) l) -> undecl_go [x] [] l = [].
  Proof.
    induction l as [|[y c] r IH]; intros x H; cbn [undecl_go]; [reflexivity|].
    assert (Hne : y <> x). { intros ->. apply (H c). left. reflexivity. }
    cbn [nmem]. destruct (N.eqb_spec y x); [contradiction|]. rewrite orb_false_r, andb_false_r.
    unfold ndiff; cbn [filter nmem]. destruct (N.eqb_spec x y); [congruence|]. cbn.
    apply IH. intros c' Hc. apply (H c'). right. exact Hc.
  Qed.
  Lemma undecl_some : forall l x, (forall c, In (x, c) l -> c = CLoad) -> In (x, CLoad) l -> undecl_go [x] [] l = [x].
  Proof.
    induction l as [|[y c] r IH]; intros x H Hin; [contradiction|]. cbn [undecl_go].
    destruct (N.eqb_spec y x) as [->|Hne].
    - rewrite (H c (or_introl eq_refl)). cbn [is_load nmem]. rewrite N.eqb_refl. cbn [orb andb].
      unfold nadd; cbn [nmem app forallb]. rewrite N.eqb_refl. reflexivity.
    - cbn [nmem]. destruct (N.eqb_spec y x); [contradiction|]. rewrite orb_false_r, andb_false_r.
      unfold ndiff; cbn [filter nmem]. destruct (N.eqb_spec x y); [congruence|]. cbn [orb negb].
      apply IH; [intros c' Hc; apply H; right; exact Hc|].
      destruct Hin as [Eq|Hin]; [injection Eq as -> _; contradiction|exact Hin].
  Qed.

  Lemma occ_ok_loop : forall c, occ_ok (n_loop, c) = true -> c = CLoad.
  Proof. intros c. destruct c; cbn; try discriminate; reflexivity. Qed.
  Lemma occ_ok_not_self : forall x c, occ_ok (x, c) = true -> x <> n_self.
  Proof.
    intros x c H ->. unfold occ_ok in H. cbn [fst snd] in H. apply andb_true_iff in H. destruct H as [_ H]. cbn in H. discriminate.
  Qed.
  Lemma extended_true : forall body, Forall (fun oc => occ_ok oc = true) (occs_l body) ->
    In n_loop (onames_l body) -> extended_loop body = true.
  Proof.
    intros body Hok Hin. unfold extended_loop, find_undeclared.
    unfold onames_l in Hin. apply in_map_iff in Hin. destruct Hin as [[x c] [Ex Hin]]. cbn in Ex. subst x.
    rewrite Forall_forall in Hok.
    rewrite (undecl_some (all_names_l body) n_loop).
    - cbn. reflexivity.
    - intros c' Hc. unfold all_names_l in Hc. apply filter_In in Hc. apply occ_ok_loop. apply Hok. apply Hc.
    - pose proof (occ_ok_loop c (Hok _ Hin)) as ->. unfold all_names_l. apply filter_In. split; [exact Hin|reflexivity].
  Qed.
  Lemma root_ps_nil : forall p, Forall (fun oc => occ_ok oc = true) (occs_l p) -> root_ps p = [].
  Proof.
    intros p Hok. unfold root_ps, find_undeclared. rewrite undecl_none; [reflexivity|].
    intros c Hc. unfold all_names_l in Hc. apply filter_In in Hc. destruct Hc as [Hc _].
    rewrite Forall_forall in Hok. apply (occ_ok_not_self n_self c (Hok _ Hc)). reflexivity.
  Qed.

  (* ---------------------------------------------------------- sub-terms *)
  Definition nilb (P : frames) : bool := match P with [] => true | _ => false end.
  Lemma frames_go : forall ch l, (fix go (chain : list symbols) (l : list stmt) : list (list symbols) :=
      match l with [] => [] | x :: r => frames_stmt oid chain x ++ go chain r end) ch l = frames_list oid ch l.
  Proof. intros ch l. induction l as [|x r IH]; cbn; [reflexivity|rewrite IH; reflexivity]. Qed.

  Definition okocc (l : list stmt) : Prop := Forall (fun oc => occ_ok oc = true) (occs_l l).

  Record Pre (S : symbols) (V : list name) (P : frames) (l : list stmt) : Prop := mkPre {
    p_core : core3_prog (nilb P) l = true;
    p_root : P = [] -> S = Sr;
    p_names : incl (onames_l l) V;
    p_occ : okocc l;
    p_cov : covers_l (syms_of P) S l;
    p_guard : Forall gok (frames_list oid (S :: syms_of P) l)
  }.

  Lemma Pre_cons : forall S V P s r, Pre S V P (s :: r) -> Pre S V P [s] /\ Pre S V P r.
  Proof.
    intros S V P s r [C Rt N O Cv G]. cbn [core3_prog] in C. apply andb_true_iff in C. destruct C as [C1 C2].
    unfold onames_l in N. rewrite occs_l_cons, map_app in N. unfold okocc in O. rewrite occs_l_cons in O.
    apply Forall_app in O. destruct O as [O1 O2]. destruct Cv as [Cv1 Cv2].
    cbn [frames_list] in G. apply Forall_app in G. destruct G as [G1 G2].
    split; constructor; auto.
    - cbn [core3_prog]. rewrite C1. reflexivity.
    - unfold onames_l. cbn [occs_l flat_map]. rewrite app_nil_r. intros x Hx. apply N. apply in_or_app. auto.
    - unfold okocc. cbn [occs_l flat_map]. rewrite app_nil_r. exact O1.
    - cbn. auto.
    - cbn [frames_list]. rewrite app_nil_r. exact G1.
    - intros x Hx. apply N. apply in_or_app. auto.
  Qed.

  (* ---------------------------------------------------------- results in step *)
  Definition R1 (fs : frames) (env : list nat) (X : res (fstate * str)) (Y : res (sstate * str)) : Prop :=
    match X with
    | Ok (st1, o1) => exists ss1, Y = Ok (ss1, o1) /\ Inv fs st1 env ss1
    | Err e => Y = Err e
    end.

  Lemma R1_seq : forall fs env X Y (K1 : fstate -> res (fstate * str)) (K2 : sstate -> res (sstate * str)),
    R1 fs env X Y -> (forall st1 ss1, Inv fs st1 env ss1 -> R1 fs env (K1 st1) (K2 ss1)) ->
    R1 fs env (do (st1, o1) <- X; do (st2, o2) <- K1 st1; Ok (st2, o1 ++ o2))
              (do (ss1, o1) <- Y; do (ss2, o2) <- K2 ss1; Ok (ss2, o1 ++ o2)).
  Proof.
    intros fs env X Y K1 K2 H HK. unfold R1 in H. destruct X as [[st1 o1]|e].
    - destruct H as [ss1 [-> I1]]. cbn [bind]. specialize (HK st1 ss1 I1). unfold R1 in HK.
      destruct (K1 st1) as [[st2 o2]|e2].
      + destruct HK as [ss2 [-> I2]]. cbn [bind]. exists ss2. auto.
      + rewrite HK. reflexivity.
    - rewrite H. reflexivity.
  Qed.

  Lemma Inv_heap : forall fs st env ss h, Inv fs st env ss -> Inv fs (set_heap st h) env (sset_heap ss h).
  Proof. intros fs st env ss h I. constructor; try apply I. reflexivity. Qed.

  (* expression evaluation agrees when the names are covered *)
  Lemma eval_agree : forall S V P st env ss e,
    Inv ((S, V) :: P) st env ss -> Forall (found (S :: syms_of P)) (expr_names e) -> incl (expr_names e) V ->
    eval (flk pynorm (S :: syms_of P) st) (f_heap st) e = eval (slk d env ss) (s_heap ss) e.
  Proof.
    intros S V P st env ss e I F N. rewrite (i_heap _ _ _ _ I). apply eval_ext.
    intros x Hx. apply (flk_agree S V P st env ss x I); [apply N; exact Hx|].
    rewrite Forall_forall in F. apply F. exact Hx.
  Qed.
  Lemma eval_out_agree : forall S V P st env ss es,
    Inv ((S, V) :: P) st env ss -> Forall (found (S :: syms_of P)) (exprs_names es) -> incl (exprs_names es) V ->
    eval_out (flk pynorm (S :: syms_of P) st) (f_heap st) es = eval_out (slk d env ss) (s_heap ss) es.
  Proof.
    intros S V P st env ss es I F N. rewrite (i_heap _ _ _ _ I). apply eval_out_ext.
    intros x Hx. apply (flk_agree S V P st env ss x I); [apply N; exact Hx|].
    rewrite Forall_forall in F. apply F. exact Hx.
  Qed.
  Lemma eval_kvs_agree : forall S V P st env ss kvs,
    Inv ((S, V) :: P) st env ss -> Forall (found (S :: syms_of P)) (exprs_names (map snd kvs)) ->
    incl (exprs_names (map snd kvs)) V ->
    eval_kvs (flk pynorm (S :: syms_of P) st) (f_heap st) kvs = eval_kvs (slk d env ss) (s_heap ss) kvs.
  Proof.
    intros S V P st env ss kvs I F N. rewrite (i_heap _ _ _ _ I). apply eval_kvs_ext.
    intros x Hx. apply (flk_agree S V P st env ss x I); [apply N; exact Hx|].
    rewrite Forall_forall in F. apply F. exact Hx.
  Qed.

  Lemma incl_ld : forall xs (l : list (name * nctx)) V,
    incl (map fst l) V -> incl (map (fun x : name => (x, CLoad)) xs) l -> incl xs V.
  Proof.
    intros xs l V H1 H2 x Hx. apply H1. apply in_map_iff. exists (x, CLoad). split; [reflexivity|].
    apply H2. apply in_map_iff. exists x. auto.
  Qed.

  Lemma env_ok_push : forall fr fr' env (scopes : list scope),
    env_ok fr env -> (forall i, In i env -> i < length scopes) -> toplevel fr' = false ->
    env_ok fr' (length scopes :: env).
  Proof.
    intros fr fr' env scopes [Hnd [Hz _]] Hv Ht. unfold env_ok. rewrite Ht. split; [|split].
    - constructor; [|exact Hnd]. intros Hin. apply Hv in Hin. lia.
    - right. exact Hz.
    - cbn [hd]. apply Hv in Hz. lia.
  Qed.

  Lemma leave_ok : forall S' V' fs st n env ss,
    Inv ((S', V') :: fs) st (n :: env) ss -> Inv fs (leave_frame pynorm st S') env ss.
  Proof.
    intros S' V' fs st n env ss I.
    destruct (i_wf _ _ _ _ I) as [[ps WS] [Lv _]].
    destruct (leave_frame_spec (length fs) S' st) as [M A].
    { intros id l Hin. destruct (wf_keys _ _ _ WS id l Hin) as [x [-> _]]. cbn [fst]. exact Lv. }
    apply (Inv_ext fs st); [apply (Inv_tail S' V' fs st n env ss I)|exact M|].
    intros id Hid. apply A. lia.
  Qed.

  Section Step.
    Variable f : nat.
    Hypothesis IHf : forall S V P fr st env ss l,
      Inv ((S, V) :: P) st env ss -> env_ok fr env -> Pre S V P l ->
      R1 ((S, V) :: P) env (fx pynorm priv d f (S :: syms_of P) fr st l) (sxi d Sr f env ss l).

    (* enter a frame built by mk_frame, run its body *)
    Lemma block_ok : forall S V P fr fr' st env ss ps body sc,
      let fs := (S, V) :: P in
      let S' := mk_frame (syms_of fs) ps body in
      let V' := onames_l body in
      let n := length (s_scopes ss) in
      let ss1 := snd (new_scope ss sc) in
      Inv fs st env ss -> env_ok fr env -> toplevel fr' = false ->
      incl ps V0 -> incl V' V ->
      (forall x v, In x V' -> dget N.eqb x sc = Some v -> In x ps /\ rref st (length fs, x) = Some (Some v)) ->
      (forall x, In x V' -> In x ps -> dget N.eqb x sc <> None) ->
      gok (S' :: syms_of fs) ->
      core3_prog false body = true -> okocc body -> Forall gok (frames_list oid (S' :: syms_of fs) body) ->
      match enter_frame pynorm d st S' with
      | Err _ => False
      | Ok st1 =>
          match fx pynorm priv d f (S' :: syms_of fs) fr' st1 body with
          | Ok (st2, o) => exists ss2, sxi d Sr f (n :: env) ss1 body = Ok (ss2, o) /\ Inv ((S', V') :: fs) st2 (n :: env) ss2
          | Err e => sxi d Sr f (n :: env) ss1 body = Err e
          end
      end.
    Proof.
      intros S V P fr fr' st env ss ps body sc fs S' V' n ss1 I He Ht Hps HV Hpar Hb Hg Hc Ho Hgs.
      assert (HV0 : incl V' V0).
      { destruct (i_wf _ _ _ _ I) as [_ [_ [H0 _]]]. intros x Hx. apply H0. apply HV. exact Hx. }
      destruct (enter_ok fs st env ss ps body sc I) as [st1 [E [M [A I1]]]]; auto.
      { left. apply He. }
      fold S' V' in E, I1. rewrite E.
      assert (He1 : env_ok fr' (n :: env)).
      { apply (env_ok_push fr fr' env (s_scopes ss) He); [apply I|exact Ht]. }
      assert (Pb : Pre S' V' fs body).
      { constructor; auto.
        - intros Hn. discriminate.
        - apply incl_refl.
        - apply (mk_frame_ok (syms_of fs) ps body). }
      pose proof (IHf S' V' fs fr' st1 (n :: env) ss1 body I1 He1 Pb) as R. unfold R1 in R.
      change (syms_of fs) with (S :: syms_of P) in *. exact R.
    Qed.

    Lemma ld_fst : forall xs : list name, map fst (map (fun x : name => (x, CLoad)) xs) = xs.
    Proof. intros. rewrite map_map. cbn. apply map_id. Qed.
    Lemma pre_one : forall Sy V P s, Pre Sy V P [s] ->
      core3_stmt (nilb P) s = true /\ incl (onames s) V /\ Forall (fun oc => occ_ok oc = true) (occs s) /\
      covers (syms_of P) Sy s /\ Forall gok (frames_stmt oid (Sy :: syms_of P) s).
    Proof.
      intros Sy V P s [C Rt N O Cv G]. cbn [core3_prog] in C. rewrite andb_true_r in C.
      unfold onames_l in N. cbn [occs_l flat_map] in N. rewrite app_nil_r in N.
      unfold okocc in O. cbn [occs_l flat_map] in O. rewrite app_nil_r in O.
      destruct Cv as [Cv _]. cbn [frames_list] in G. rewrite app_nil_r in G. auto.
    Qed.

    (* ---- output *)
    Lemma case_out : forall Sy V P st env ss es,
      Inv ((Sy, V) :: P) st env ss -> Pre Sy V P [SOut es] ->
      R1 ((Sy, V) :: P) env
         (do o <- eval_out (flk pynorm (Sy :: syms_of P) st) (f_heap st) es; Ok (st, o))
         (do o <- eval_out (slk d env ss) (s_heap ss) es; Ok (ss, o)).
    Proof.
      intros Sy V P st env ss es I Pr. destruct (pre_one _ _ _ _ Pr) as [_ [N [_ [Cv _]]]].
      unfold onames in N. cbn [occs] in N. rewrite ld_fst in N. cbn [covers] in Cv.
      rewrite (eval_out_agree Sy V P st env ss es I Cv N).
      destruct (eval_out (slk d env ss) (s_heap ss) es); cbn; [exists ss; auto|reflexivity].
    Qed.

    (* ---- set *)
    Lemma case_set : forall Sy V P fr st env ss x e,
      Inv ((Sy, V) :: P) st env ss -> env_ok fr env -> Pre Sy V P [SSet x e] ->
      R1 ((Sy, V) :: P) env
         (do v <- eval (flk pynorm (Sy :: syms_of P) st) (f_heap st) e;
          do st' <- assign pynorm priv (Sy :: syms_of P) fr st x v; Ok (st', []))
         (do v <- eval (slk d env ss) (s_heap ss) e; Ok (sassign env ss x v, [])).
    Proof.
      intros Sy V P fr st env ss x e I He Pr. destruct (pre_one _ _ _ _ Pr) as [_ [N [_ [Cv _]]]].
      unfold onames in N. cbn [occs map fst] in N. rewrite ld_fst in N. destruct Cv as [Cv1 Cv2].
      rewrite (eval_agree Sy V P st env ss e I Cv1); [|intros y Hy; apply N; right; exact Hy].
      destruct (eval (slk d env ss) (s_heap ss) e) as [v|err]; cbn [bind]; [|reflexivity].
      destruct (assign_ok Sy V P fr st env ss x v I He Cv2) as [st' [E [I' _]]]; [apply N; left; reflexivity|].
      rewrite E. cbn. exists (sassign env ss x v). auto.
    Qed.

    (* ---- set x.a = e *)
    Lemma case_seta : forall Sy V P st env ss x a e,
      Inv ((Sy, V) :: P) st env ss -> Pre Sy V P [SSetAttr x a e] ->
      R1 ((Sy, V) :: P) env
         (match find_ref (Sy :: syms_of P) x with
          | None => Err EInternal
          | Some id =>
              match rref st id with
              | None => Err EInternal
              | Some (Some (VNs nid)) =>
                  do v <- eval (flk pynorm (Sy :: syms_of P) st) (f_heap st) e;
                  Ok (set_heap st (ns_set (f_heap st) nid a v), [])
              | Some _ => Err ERuntimeError
              end
          end)
         (do c <- slk d env ss x;
          match c with
          | VNs nid => do v <- eval (slk d env ss) (s_heap ss) e; Ok (sset_heap ss (ns_set (s_heap ss) nid a v), [])
          | _ => Err ERuntimeError
          end).
    Proof.
      intros Sy V P st env ss x a e I Pr. destruct (pre_one _ _ _ _ Pr) as [_ [N [_ [Cv _]]]].
      unfold onames in N. cbn [occs map fst] in N. rewrite ld_fst in N. destruct Cv as [Cv1 Cv2].
      assert (HxV : In x V) by (apply N; left; reflexivity).
      pose proof (flk_agree Sy V P st env ss x I HxV Cv2) as Hlk. rewrite slk_slkv in Hlk. rewrite slk_slkv. cbn [bind].
      unfold flk in Hlk. unfold found in Cv2.
      destruct (find_ref (Sy :: syms_of P) x) as [id|]; [|contradiction].
      destruct (rref st id) as [ov|]; [|discriminate].
      assert (Ev : eval (flk pynorm (Sy :: syms_of P) st) (f_heap st) e = eval (slk d env ss) (s_heap ss) e).
      { apply (eval_agree Sy V P st env ss e I Cv1). intros y Hy. apply N. right. exact Hy. }
      destruct ov as [v|]; injection Hlk as Hlk; rewrite <- Hlk; [|reflexivity].
      destruct v; try reflexivity.
      rewrite Ev, (i_heap _ _ _ _ I). destruct (eval (slk d env ss) (s_heap ss) e) as [w|err]; cbn [bind]; [|reflexivity].
      eexists. split; [reflexivity|]. apply Inv_heap. exact I.
    Qed.

    (* ---- set x = namespace(...) *)
    Lemma case_nsnew : forall Sy V P fr st env ss x kvs,
      Inv ((Sy, V) :: P) st env ss -> env_ok fr env -> Pre Sy V P [SNsNew x kvs] ->
      R1 ((Sy, V) :: P) env
         (do c <- flk pynorm (Sy :: syms_of P) st n_namespace;
          do vs <- eval_kvs (flk pynorm (Sy :: syms_of P) st) (f_heap st) kvs;
          match c with
          | VNsCtor =>
              let nid := length (f_heap st) in
              do st' <- assign pynorm priv (Sy :: syms_of P) fr (set_heap st (f_heap st ++ [vs])) x (VNs nid); Ok (st', [])
          | VUndef => Err EUndefinedError
          | _ => Err ETypeError
          end)
         (do c <- slk d env ss n_namespace;
          do vs <- eval_kvs (slk d env ss) (s_heap ss) kvs;
          match c with
          | VNsCtor =>
              let nid := length (s_heap ss) in
              Ok (sassign env (sset_heap ss (s_heap ss ++ [vs])) x (VNs nid), [])
          | VUndef => Err EUndefinedError
          | _ => Err ETypeError
          end).
    Proof.
      intros Sy V P fr st env ss x kvs I He Pr. destruct (pre_one _ _ _ _ Pr) as [_ [N [_ [Cv _]]]].
      unfold onames in N. cbn [occs] in N. cbn [map fst] in N.
      change (map fst (map (fun x0 : name => (x0, CLoad)) (n_namespace :: exprs_names (map snd kvs))))
        with (n_namespace :: map fst (map (fun x0 : name => (x0, CLoad)) (exprs_names (map snd kvs)))) in N.
      rewrite ld_fst in N. destruct Cv as [Cv1 Cv2]. inversion Cv1 as [|? ? Cn Ck]; subst.
      rewrite (flk_agree Sy V P st env ss n_namespace I); [|apply N; right; left; reflexivity|exact Cn].
      rewrite (eval_kvs_agree Sy V P st env ss kvs I Ck); [|intros y Hy; apply N; right; right; exact Hy].
      destruct (slk d env ss n_namespace) as [c|err]; cbn [bind]; [|reflexivity].
      destruct (eval_kvs (slk d env ss) (s_heap ss) kvs) as [vs|err]; cbn [bind]; [|reflexivity].
      destruct c; try reflexivity. cbv zeta. rewrite (i_heap _ _ _ _ I).
      destruct (assign_ok Sy V P fr (set_heap st (s_heap ss ++ [vs])) env (sset_heap ss (s_heap ss ++ [vs])) x (VNs (length (s_heap ss))))
        as [st' [E [I' _]]]; auto.
      { apply Inv_heap. exact I. }
      { apply N. left. reflexivity. }
      rewrite E. cbn [bind]. eexists. split; [reflexivity|]. exact I'.
    Qed.

    Lemma leave_ok' : forall fs st env ss ps body,
      Inv fs st env ss -> Inv fs (leave_frame pynorm st (mk_frame (syms_of fs) ps body)) env ss.
    Proof.
      intros fs st env ss ps body I.
      destruct (mk_frame_ok (syms_of fs) ps body) as [WS [Lv0 _]].
      destruct (leave_frame_spec (length fs) (mk_frame (syms_of fs) ps body) st) as [M A].
      { intros id l Hin. destruct (wf_keys _ _ _ WS id l Hin) as [x [-> _]]. cbn [fst].
        rewrite Lv0. apply sym_new_level. apply I. }
      apply (Inv_ext fs st); [exact I|exact M|]. intros id Hid. apply A. lia.
    Qed.

    (* facts about the body of a scoping construct *)
    Lemma body_facts : forall Sy V P s body (mk : list symbols -> symbols),
      Pre Sy V P [s] ->
      core3_stmt (nilb P) s = core3_prog false body -> occs s = occs_l body \/ (exists pre, occs s = pre ++ occs_l body) ->
      frames_stmt oid (Sy :: syms_of P) s =
        (mk (Sy :: syms_of P) :: Sy :: syms_of P) :: frames_list oid (mk (Sy :: syms_of P) :: Sy :: syms_of P) body ->
      core3_prog false body = true /\ okocc body /\ incl (onames_l body) V /\
      gok (mk (Sy :: syms_of P) :: Sy :: syms_of P) /\
      Forall gok (frames_list oid (mk (Sy :: syms_of P) :: Sy :: syms_of P) body).
    Proof.
      intros Sy V P s body mk Pr Hc Ho Hf. destruct (pre_one _ _ _ _ Pr) as [C [N [O [_ G]]]].
      rewrite Hf in G. inversion G as [|? ? G1 G2]; subst.
      assert (Hocc : exists pre, occs s = pre ++ occs_l body).
      { destruct Ho as [Ho|Ho]; [exists []; exact Ho|exact Ho]. }
      destruct Hocc as [pre Hocc]. unfold onames in N. rewrite Hocc in N, O. rewrite map_app in N. apply Forall_app in O.
      split; [congruence|]. split; [apply O|]. split; [|auto].
      intros x Hx. apply N. apply in_or_app. right. exact Hx.
    Qed.

    (* ---- filter block *)
    Lemma case_filt : forall Sy V P fr st env ss k body,
      Inv ((Sy, V) :: P) st env ss -> env_ok fr env -> Pre Sy V P [SFilter k body] ->
      R1 ((Sy, V) :: P) env
         (let bs := frame_body oid (Sy :: syms_of P) body in
          do st1 <- enter_frame pynorm d st bs;
          do (st2, o) <- fx pynorm priv d f (bs :: Sy :: syms_of P) fl_inner st1 body;
          Ok (leave_frame pynorm st2 bs, apply_filter k o))
         (let '(i, ss1) := new_scope ss [] in
          do (ss2, o) <- sxi d Sr f (i :: env) ss1 body;
          Ok (ss2, apply_filter k o)).
    Proof.
      intros Sy V P fr st env ss k body I He Pr.
      destruct (body_facts Sy V P (SFilter k body) body (fun ch => frame_body oid ch body) Pr) as [Hc [Ho [HV [Hg Hgs]]]].
      { cbn [core3_stmt]. apply core3_go. } { left. cbn [occs]. apply occs_go. }
      { cbn [frames_stmt]. rewrite frames_go. reflexivity. }
      assert (Hp0 : forall (x : name) (v : value), In x (onames_l body) -> dget N.eqb x (@nil (name * value)) = Some v ->
                      In x [] /\ rref st (length ((Sy, V) :: P), x) = Some (Some v)) by (intros x v _ H; discriminate).
      assert (Hb0 : forall x : name, In x (onames_l body) -> In x [] -> dget N.eqb x (@nil (name * value)) <> None) by (intros x _ []).
      pose proof (block_ok Sy V P fr fl_inner st env ss [] body [] I He eq_refl (incl_nil_l _) HV Hp0 Hb0 Hg Hc Ho Hgs) as B.
      cbv zeta in B. cbv zeta. unfold new_scope in *; cbn [fst snd] in *.
      change (frame_body oid (Sy :: syms_of P) body) with (mk_frame (syms_of ((Sy, V) :: P)) [] body).
      destruct (enter_frame pynorm d st (mk_frame (syms_of ((Sy, V) :: P)) [] body)) as [st1|e]; [|contradiction].
      cbn [bind]. change (syms_of ((Sy, V) :: P)) with (Sy :: syms_of P) in *.
      destruct (fx pynorm priv d f (mk_frame (Sy :: syms_of P) [] body :: Sy :: syms_of P) fl_inner st1 body) as [[st2 o]|e].
      - destruct B as [ss2 [E I2]]. rewrite E. cbn [bind]. exists ss2. split; [reflexivity|].
        apply (leave_ok' ((Sy, V) :: P)). apply (Inv_tail _ _ _ _ _ _ _ I2).
      - rewrite B. reflexivity.
    Qed.

    (* ---- block set *)
    Lemma case_setb : forall Sy V P fr st env ss x body,
      Inv ((Sy, V) :: P) st env ss -> env_ok fr env -> Pre Sy V P [SSetBlock x body] ->
      R1 ((Sy, V) :: P) env
         (let bs := frame_body oid (Sy :: syms_of P) body in
          do st1 <- enter_frame pynorm d st bs;
          do (st2, o) <- fx pynorm priv d f (bs :: Sy :: syms_of P) fl_inner st1 body;
          do st3 <- assign pynorm priv (Sy :: syms_of P) fr st2 x (VStr o);
          Ok (leave_frame pynorm st3 bs, []))
         (let '(i, ss1) := new_scope ss [] in
          do (ss2, o) <- sxi d Sr f (i :: env) ss1 body;
          Ok (sassign env ss2 x (VStr o), [])).
    Proof.
      intros Sy V P fr st env ss x body I He Pr.
      destruct (body_facts Sy V P (SSetBlock x body) body (fun ch => frame_body oid ch body) Pr) as [Hc [Ho [HV [Hg Hgs]]]].
      { cbn [core3_stmt]. apply core3_go. } { right. exists [(x, CStore)]. cbn [occs]. rewrite occs_go. reflexivity. }
      { cbn [frames_stmt]. rewrite frames_go. reflexivity. }
      destruct (pre_one _ _ _ _ Pr) as [_ [N [_ [Cv _]]]]. cbn [covers] in Cv.
      assert (HxV : In x V) by (apply N; left; reflexivity).
      assert (Hp0 : forall (y : name) (v : value), In y (onames_l body) -> dget N.eqb y (@nil (name * value)) = Some v ->
                      In y [] /\ rref st (length ((Sy, V) :: P), y) = Some (Some v)) by (intros y v _ H; discriminate).
      assert (Hb0 : forall y : name, In y (onames_l body) -> In y [] -> dget N.eqb y (@nil (name * value)) <> None) by (intros y _ []).
      pose proof (block_ok Sy V P fr fl_inner st env ss [] body [] I He eq_refl (incl_nil_l _) HV Hp0 Hb0 Hg Hc Ho Hgs) as B.
      cbv zeta in B. cbv zeta. unfold new_scope in *; cbn [fst snd] in *.
      change (frame_body oid (Sy :: syms_of P) body) with (mk_frame (syms_of ((Sy, V) :: P)) [] body).
      destruct (enter_frame pynorm d st (mk_frame (syms_of ((Sy, V) :: P)) [] body)) as [st1|e]; [|contradiction].
      cbn [bind]. change (syms_of ((Sy, V) :: P)) with (Sy :: syms_of P) in *.
      destruct (fx pynorm priv d f (mk_frame (Sy :: syms_of P) [] body :: Sy :: syms_of P) fl_inner st1 body) as [[st2 o]|e].
      - destruct B as [ss2 [E I2]]. rewrite E. cbn [bind].
        destruct (assign_ok Sy V P fr st2 env ss2 x (VStr o) (Inv_tail _ _ _ _ _ _ _ I2) He Cv HxV) as [st3 [E3 [I3 _]]].
        rewrite E3. cbn [bind]. eexists. split; [reflexivity|]. apply (leave_ok' ((Sy, V) :: P)). exact I3.
      - rewrite B. reflexivity.
    Qed.

    (* ---- if / elif / else *)
    Definition f_go (syms : list symbols) (fr : flags) (st : fstate) (els : list stmt) :=
      fix go (ei : list stmt) : res (fstate * str) :=
        match ei with
        | [] => fx pynorm priv d f syms fr st els
        | SIf t2 b2 _ _ :: r =>
            do v2 <- eval (flk pynorm syms st) (f_heap st) t2;
            if truthy v2 then fx pynorm priv d f syms fr st b2 else go r
        | _ :: r => go r
        end.
    Definition s_go (env : list nat) (ss : sstate) (els : list stmt) :=
      fix go (ei : list stmt) : res (sstate * str) :=
        match ei with
        | [] => sxi d Sr f env ss els
        | SIf t2 b2 _ _ :: r =>
            do v2 <- eval (slk d env ss) (s_heap ss) t2;
            if truthy v2 then sxi d Sr f env ss b2 else go r
        | _ :: r => go r
        end.

    Lemma onames_l_cons : forall s l, onames_l (s :: l) = onames s ++ onames_l l.
    Proof. intros. unfold onames_l, onames. rewrite occs_l_cons, map_app. reflexivity. Qed.

    Lemma sub_pre : forall Sy V P l,
      core3_prog (nilb P) l = true -> (P = [] -> Sy = Sr) -> incl (onames_l l) V -> okocc l -> covers_l (syms_of P) Sy l ->
      Forall gok (frames_list oid (Sy :: syms_of P) l) -> Pre Sy V P l.
    Proof. intros. constructor; auto. Qed.

    Lemma go_ok : forall Sy V P fr st env ss els ei,
      Inv ((Sy, V) :: P) st env ss -> env_ok fr env -> Pre Sy V P els -> Pre Sy V P ei ->
      R1 ((Sy, V) :: P) env (f_go (Sy :: syms_of P) fr st els ei) (s_go env ss els ei).
    Proof.
      intros Sy V P fr st env ss els ei I He Pel. induction ei as [|s r IH]; intros Pei.
      - cbn. apply IHf; auto.
      - destruct (Pre_cons _ _ _ _ _ Pei) as [Ps Pr]. specialize (IH Pr).
        destruct s; try exact IH. cbn [f_go s_go]. fold (f_go (Sy :: syms_of P) fr st els r). fold (s_go env ss els r).
        destruct (pre_one _ _ _ _ Ps) as [C [N [O [Cv G]]]]. apply covers_if in Cv. destruct Cv as [Cv1 [Cv2 _]].
        cbn [core3_stmt] in C. rewrite (core3_go (nilb P) body), (core3_go (nilb P) elifs), (core3_go (nilb P) els0) in C. apply andb_true_iff in C. destruct C as [C _]. apply andb_true_iff in C. destruct C as [C _].
        unfold onames in N. cbn [occs] in N. rewrite !occs_go, !map_app, ld_fst in N.
        cbn [occs] in O. rewrite !occs_go in O. apply Forall_app in O. destruct O as [_ O]. apply Forall_app in O. destruct O as [O _].
        cbn [frames_stmt] in G. rewrite !frames_go in G. apply Forall_app in G. destruct G as [G _].
        rewrite (eval_agree Sy V P st env ss test I Cv1); [|intros y Hy; apply N; apply in_or_app; left; exact Hy].
        destruct (eval (slk d env ss) (s_heap ss) test) as [v|e]; cbn [bind]; [|reflexivity].
        destruct (truthy v); [|exact IH].
        apply IHf; auto. apply sub_pre; auto; [apply (p_root _ _ _ _ Ps)|].
        intros y Hy. apply N. apply in_or_app. right. apply in_or_app. left. exact Hy.
    Qed.

    Lemma case_if : forall Sy V P fr st env ss t body elifs els,
      Inv ((Sy, V) :: P) st env ss -> env_ok fr env -> Pre Sy V P [SIf t body elifs els] ->
      R1 ((Sy, V) :: P) env
         (do v <- eval (flk pynorm (Sy :: syms_of P) st) (f_heap st) t;
          if truthy v then fx pynorm priv d f (Sy :: syms_of P) fr st body
          else f_go (Sy :: syms_of P) fr st els elifs)
         (do v <- eval (slk d env ss) (s_heap ss) t;
          if truthy v then sxi d Sr f env ss body else s_go env ss els elifs).
    Proof.
      intros Sy V P fr st env ss t body elifs els I He Pr.
      destruct (pre_one _ _ _ _ Pr) as [C [N [O [Cv G]]]]. apply covers_if in Cv. destruct Cv as [Cv1 [Cv2 [Cv3 Cv4]]].
      cbn [core3_stmt] in C. rewrite (core3_go (nilb P) body), (core3_go (nilb P) elifs), (core3_go (nilb P) els) in C. apply andb_true_iff in C. destruct C as [C C3]. apply andb_true_iff in C. destruct C as [C1 C2].
      unfold onames in N. cbn [occs] in N. rewrite !occs_go, !map_app, ld_fst in N.
      cbn [occs] in O. rewrite !occs_go in O. apply Forall_app in O. destruct O as [_ O]. apply Forall_app in O. destruct O as [O1 O].
      apply Forall_app in O. destruct O as [O2 O3].
      cbn [frames_stmt] in G. rewrite !frames_go in G. apply Forall_app in G. destruct G as [G1 G]. apply Forall_app in G. destruct G as [G2 G3].
      rewrite (eval_agree Sy V P st env ss t I Cv1); [|intros y Hy; apply N; apply in_or_app; left; exact Hy].
      destruct (eval (slk d env ss) (s_heap ss) t) as [v|e]; cbn [bind]; [|reflexivity].
      assert (Pb : Pre Sy V P body).
      { apply sub_pre; auto; [apply (p_root _ _ _ _ Pr)|]. intros y Hy. apply N. apply in_or_app. right. apply in_or_app. left. exact Hy. }
      assert (Pei : Pre Sy V P elifs).
      { apply sub_pre; auto; [apply (p_root _ _ _ _ Pr)|]. intros y Hy. apply N. apply in_or_app. right. apply in_or_app. right. apply in_or_app. left. exact Hy. }
      assert (Pel : Pre Sy V P els).
      { apply sub_pre; auto; [apply (p_root _ _ _ _ Pr)|]. intros y Hy. apply N. apply in_or_app. right. apply in_or_app. right. apply in_or_app. right. exact Hy. }
      destruct (truthy v); [apply IHf; auto|apply go_ok; auto].
    Qed.

    Lemma Inv_write_high : forall fs st env ss id v, Inv fs st env ss -> length fs <= fst id -> Inv fs (wref st id v) env ss.
    Proof.
      intros fs st env ss id v I H. apply (Inv_ext fs st); [exact I|apply same_misc_write|].
      intros id' Hid. apply read_write_level. lia.
    Qed.

    (* ================================================================ with-targets *)
    Definition f_bind (syms : list symbols) (ws : symbols) :=
      fix bindall (bs : list (name * expr)) (st : fstate) : res fstate :=
        match bs with
        | [] => Ok st
        | (x, e) :: r =>
            do v <- eval (flk pynorm syms st) (f_heap st) e;
            match find_ref (ws :: syms) x with
            | None => Err EInternal
            | Some id => bindall r (write_ref pynorm st id (Some v))
            end
        end.
    Definition bstep (acc : scope) (xv : name * value) : scope := dset N.eqb (fst xv) (snd xv) acc.

    Lemma fold_bstep_has : forall xs vs acc x, dhas N.eqb x acc = true ->
      dhas N.eqb x (fold_left bstep (combine xs vs) acc) = true.
    Proof.
      induction xs as [|y r IH]; intros vs acc x H; [exact H|]. destruct vs as [|v vs]; [exact H|].
      cbn [combine fold_left]. apply IH. unfold bstep; cbn [fst snd]. rewrite (dhas_dset N.eqb N.eqb_eq), H. apply orb_true_r.
    Qed.
    Lemma fold_bstep_bound : forall xs vs acc x, length vs = length xs -> In x xs ->
      dget N.eqb x (fold_left bstep (combine xs vs) acc) <> None.
    Proof.
      induction xs as [|y r IH]; intros vs acc x L Hx; [contradiction|]. destruct vs as [|v vs]; [discriminate|].
      cbn [combine fold_left]. cbn in L. destruct Hx as [->|Hx]; [|apply IH; [lia|exact Hx]].
      assert (H : dhas N.eqb x (fold_left bstep (combine r vs) (bstep acc (x, v))) = true).
      { apply fold_bstep_has. unfold bstep; cbn [fst snd]. rewrite (dhas_dset N.eqb N.eqb_eq), N.eqb_refl. reflexivity. }
      unfold dhas in H. destruct (dget N.eqb x (fold_left bstep (combine r vs) (bstep acc (x, v)))); [discriminate|discriminate].
    Qed.

    Lemma bind_ok : forall Sy V P env ss ws,
      let fs := (Sy, V) :: P in
      (forall x, In x V0 -> True) ->
      forall bs st1 acc,
      Inv fs st1 env ss ->
      (forall x, In x (map fst bs) -> dget N.eqb x (s_refs ws) = Some (length fs, x) /\ In x V0) ->
      Forall (found (Sy :: syms_of P)) (exprs_names (map snd bs)) -> incl (exprs_names (map snd bs)) V ->
      match f_bind (Sy :: syms_of P) ws bs st1 with
      | Ok stn => exists vs, eval_list (slk d env ss) (s_heap ss) (map snd bs) = Ok vs /\ length vs = length bs /\
                    same_misc st1 stn /\
                    (forall id, fst id <> length fs -> rref stn id = rref st1 id) /\
                    (forall y, In y V0 -> ~ In y (map fst bs) -> rref stn (length fs, y) = rref st1 (length fs, y)) /\
                    (forall x v, dget N.eqb x (fold_left bstep (combine (map fst bs) vs) acc) = Some v ->
                       (In x (map fst bs) /\ rref stn (length fs, x) = Some (Some v)) \/
                       (~ In x (map fst bs) /\ dget N.eqb x acc = Some v))
      | Err e => eval_list (slk d env ss) (s_heap ss) (map snd bs) = Err e
      end.
    Proof.
      intros Sy V P env ss ws fs _. induction bs as [|[x e] r IH]; intros st1 acc I Href F N.
      - cbn. exists []. split; [reflexivity|]. split; [reflexivity|]. split; [apply same_misc_refl|]. split; [auto|]. split; [auto|].
        intros x v H. right. auto.
      - cbn [f_bind map fst snd eval_list]. fold (f_bind (Sy :: syms_of P) ws).
        unfold exprs_names in F, N. cbn [map snd flat_map] in F, N. apply Forall_app in F. destruct F as [F1 F2].
        rewrite (eval_agree Sy V P st1 env ss e I F1); [|intros y Hy; apply N; apply in_or_app; left; exact Hy].
        destruct (eval (slk d env ss) (s_heap ss) e) as [v|err]; cbn [bind]; [|reflexivity].
        destruct (Href x (or_introl eq_refl)) as [Hx HxV]. cbn [find_ref]. rewrite Hx.
        set (st2 := wref st1 (length fs, x) (Some v)).
        assert (I2 : Inv fs st2 env ss) by (apply Inv_write_high; [exact I|cbn; lia]).
        specialize (IH st2 (bstep acc (x, v)) I2).
        assert (Href' : forall y, In y (map fst r) -> dget N.eqb y (s_refs ws) = Some (length fs, y) /\ In y V0).
        { intros y Hy. apply Href. right. exact Hy. }
        specialize (IH Href' F2). assert (N2 : incl (flat_map expr_names (map snd r)) V).
        { intros y Hy. apply N. apply in_or_app. right. exact Hy. }
        specialize (IH N2). fold fs in IH.
        destruct (f_bind (Sy :: syms_of P) ws r st2) as [stn|err].
        + destruct IH as [vs [E [L [M [A [B C]]]]]]. unfold exprs_names in E. rewrite E. cbn [bind]. exists (v :: vs).
          split; [reflexivity|]. split; [cbn; lia|]. split; [eapply same_misc_trans; [apply same_misc_write|exact M]|].
          split; [intros id Hid; rewrite (A id Hid); apply read_write_level; cbn [fst]; intros Ec; apply Hid; symmetry; exact Ec|]. split.
          * intros y Hy Hn. eapply eq_trans; [apply (B y Hy); intros Hc; apply Hn; right; exact Hc|].
            unfold st2. apply read_write_name; auto. intros ->. apply Hn. left. reflexivity.
          * intros y w Hd. cbn [combine fold_left] in Hd. destruct (C y w Hd) as [[Hin Hr]|[Hnin Hacc]].
            -- left. split; [right; exact Hin|exact Hr].
            -- unfold bstep in Hacc; cbn [fst snd] in Hacc. rewrite (dget_dset N.eqb N.eqb_eq) in Hacc.
               destruct (N.eqb_spec y x) as [->|Hne].
               ++ injection Hacc as <-. left. split; [left; reflexivity|].
                  eapply eq_trans; [apply (B x HxV Hnin)|]. unfold st2. apply read_write_same.
               ++ right. split; [|exact Hacc]. intros [Hc|Hc]; [congruence|contradiction].
        + unfold exprs_names in IH. rewrite IH. reflexivity.
    Qed.

    Lemma case_with : forall Sy V P fr st env ss binds body,
      Inv ((Sy, V) :: P) st env ss -> env_ok fr env -> Pre Sy V P [SWith binds body] ->
      R1 ((Sy, V) :: P) env
         (let ws := frame_with oid (Sy :: syms_of P) (map fst binds) body in
          do st1 <- enter_frame pynorm d st ws;
          do st2 <- f_bind (Sy :: syms_of P) ws binds st1;
          do (st3, o) <- fx pynorm priv d f (ws :: Sy :: syms_of P) fl_inner st2 body;
          Ok (leave_frame pynorm st3 ws, o))
         (do vs <- eval_list (slk d env ss) (s_heap ss) (map snd binds);
          let '(i, ss1) := new_scope ss (fold_left (fun acc xv => dset N.eqb (fst xv) (snd xv) acc)
                                                   (combine (map fst binds) vs) []) in
          do (ss2, o) <- sxi d Sr f (i :: env) ss1 body;
          Ok (ss2, o)).
    Proof.
      intros Sy V P fr st env ss binds body I He Pr.
      destruct (body_facts Sy V P (SWith binds body) body (fun ch => frame_with oid ch (map fst binds) body) Pr) as [Hc [Ho [HV [Hg Hgs]]]].
      { cbn [core3_stmt]. apply core3_go. }
      { right. eexists. cbn [occs]. rewrite occs_go, app_assoc. reflexivity. }
      { cbn [frames_stmt]. rewrite frames_go. reflexivity. }
      destruct (pre_one _ _ _ _ Pr) as [_ [N [_ [Cv _]]]]. cbn [covers] in Cv.
      unfold onames in N. cbn [occs] in N. rewrite occs_go, !map_app, ld_fst, map_map in N. cbn [fst] in N.
      assert (HV0 : incl V V0). { destruct (i_wf _ _ _ _ I) as [_ [_ [H0 _]]]. exact H0. }
      assert (Htg : incl (map fst binds) V). { intros y Hy. apply N. apply in_or_app. left. exact Hy. }
      assert (Hval : incl (exprs_names (map snd binds)) V). { intros y Hy. apply N. apply in_or_app. right. apply in_or_app. left. exact Hy. }
      cbv zeta. change (frame_with oid (Sy :: syms_of P) (map fst binds) body) with (mk_frame (syms_of ((Sy, V) :: P)) (map fst binds) body).
      destruct (enter_ok2 ((Sy, V) :: P) st env ss (map fst binds) body I (proj1 (proj2 He))) as [st1 [E [M [A K]]]].
      { intros y Hy. apply HV0. apply Htg. exact Hy. } { intros y Hy. apply HV0. apply HV. exact Hy. } { exact HV. } { exact Hg. }
      rewrite E. cbn [bind].
      assert (I1 : Inv ((Sy, V) :: P) st1 env ss).
      { apply (Inv_ext _ st); [exact I|exact M|]. intros id Hid. apply A. lia. }
      destruct (mk_frame_ok (syms_of ((Sy, V) :: P)) (map fst binds) body) as [WS [Lv0 [Hpr _]]].
      assert (Lv : s_level (mk_frame (syms_of ((Sy, V) :: P)) (map fst binds) body) = length ((Sy, V) :: P)).
      { rewrite Lv0. apply sym_new_level. apply I. }
      pose proof (bind_ok Sy V P env ss (mk_frame (syms_of ((Sy, V) :: P)) (map fst binds) body) (fun _ _ => Logic.I) binds st1 [] I1) as B.
      cbv zeta in B. change (syms_of ((Sy, V) :: P)) with (Sy :: syms_of P) in *.
      assert (Href : forall x, In x (map fst binds) ->
                dget N.eqb x (s_refs (mk_frame (Sy :: syms_of P) (map fst binds) body)) = Some (length ((Sy, V) :: P), x) /\ In x V0).
      { intros x Hx. split; [|apply HV0; apply Htg; exact Hx]. rewrite <- Lv. apply (WF_ref _ _ _ x WS). apply Hpr. exact Hx. }
      specialize (B Href Cv Hval).
      destruct (f_bind (Sy :: syms_of P) (mk_frame (Sy :: syms_of P) (map fst binds) body) binds st1) as [stn|err].
      - destruct B as [vs [Ev [L [Mn [An [Bn Cn]]]]]].
        match goal with |- context [eval_list ?a ?b ?c] => replace (eval_list a b c) with (@Ok (list value) vs) by (symmetry; exact Ev) end.
        cbn [bind]. unfold new_scope; cbn [fst snd].
        change (fun (acc : list (name * value)) (xv : name * value) => dset N.eqb (fst xv) (snd xv) acc) with bstep.
        assert (I2 : Inv ((mk_frame (Sy :: syms_of P) (map fst binds) body, onames_l body) :: (Sy, V) :: P) stn
                         (length (s_scopes ss) :: env) (snd (new_scope ss (fold_left bstep (combine (map fst binds) vs) [])))).
        { apply K; auto.
          - intros x v Hx Hd. destruct (Cn x v Hd) as [[H1 H2]|[_ H2]]; [auto|discriminate].
          - intros x Hx Hin. apply fold_bstep_bound; [rewrite map_length; exact L|exact Hin]. }
        unfold new_scope in I2; cbn [snd] in I2.
        assert (He1 : env_ok fl_inner (length (s_scopes ss) :: env)) by (apply (env_ok_push fr fl_inner env (s_scopes ss) He); [apply I|reflexivity]).
        assert (Pb : Pre (mk_frame (Sy :: syms_of P) (map fst binds) body) (onames_l body) ((Sy, V) :: P) body).
        { constructor; auto. - intros Hn; discriminate. - apply incl_refl. - apply (mk_frame_ok (Sy :: syms_of P) (map fst binds) body). }
        pose proof (IHf _ _ _ fl_inner _ _ _ body I2 He1 Pb) as R. unfold R1 in R. change (syms_of ((Sy, V) :: P)) with (Sy :: syms_of P) in R.
        destruct (fx pynorm priv d f (mk_frame (Sy :: syms_of P) (map fst binds) body :: Sy :: syms_of P) fl_inner stn body) as [[st3 o]|e].
        + destruct R as [ss2 [E2 I3]].
          match goal with |- context [sxi d Sr f ?e ?s0 body] => replace (sxi d Sr f e s0 body) with (@Ok (sstate * str) (ss2, o)) by (symmetry; exact E2) end.
          cbn [bind]. exists ss2. split; [reflexivity|].
          apply (leave_ok' ((Sy, V) :: P)). apply (Inv_tail _ _ _ _ _ _ _ I3).
        + match goal with |- context [sxi d Sr f ?e0 ?s0 body] => replace (sxi d Sr f e0 s0 body) with (@Err (sstate * str) e) by (symmetry; exact R) end.
          reflexivity.
      - match goal with |- context [eval_list ?a ?b ?c] => replace (eval_list a b c) with (@Err (list value) err) by (symmetry; exact B) end.
        reflexivity.
    Qed.

    (* ================================================================ loop filter *)
    Lemma read_chain_app : forall below a chain k, (forall i, In i chain -> i < length below) ->
      read_chain (below ++ [a]) chain k = read_chain below chain k.
    Proof.
      intros below a chain k. induction chain as [|i r IH]; intros H; cbn [read_chain]; [reflexivity|].
      rewrite app_nth1; [|apply H; left; reflexivity]. rewrite IH; [reflexivity|]. intros j Hj. apply H. right. exact Hj.
    Qed.
    Lemma read_push : forall st l id, (forall i, In i (f_chain st) -> i < length (f_below st)) ->
      rref (push_act st l (cur_id st :: f_chain st)) id =
      match dget ident_eqb (kk id) l with Some v => Some v | None => rref st id end.
    Proof.
      intros st l id H. unfold read_ref, push_act, cur_id; cbn [f_loc f_below f_chain read_chain].
      destruct (dget ident_eqb (kk id) l); [reflexivity|].
      rewrite app_nth2; [|lia]. rewrite Nat.sub_diag. cbn [nth a_loc].
      destruct (dget ident_eqb (kk id) (f_loc st)); [reflexivity|]. apply read_chain_app. exact H.
    Qed.

    Lemma onames_out : forall t, onames_l [SOut [t]] = expr_names t.
    Proof. intros t. unfold onames_l. cbn [occs_l flat_map occs]. rewrite app_nil_r, ld_fst. unfold exprs_names. cbn [flat_map]. apply app_nil_r. Qed.
    Lemma frame_for_test_eq : forall P tg t, frame_for_test P tg (Some t) = mk_frame P [tg] [SOut [t]].
    Proof.
      intros. unfold frame_for_test, an_for_test, mk_frame, sym_params. cbn [fold_left fsv_list fsv].
      unfold exprs_names. cbn [flat_map]. rewrite app_nil_r. reflexivity.
    Qed.
    Definition res_only (s : symbols) : Prop := forall id l, In (id, l) (s_loads s) -> l = LParam \/ exists x, l = LResolve x.
    Lemma res_only_loads : forall P xs s, res_only s -> res_only (sym_loads P s xs).
    Proof.
      unfold sym_loads. induction xs as [|x r IH]; intros s H; cbn [fold_left]; [exact H|]. apply IH.
      unfold sym_load. destruct (find_ref (s :: P) x); [exact H|]. intros id l Hin. unfold define_ref in Hin; cbn [s_loads] in Hin.
      apply (In_dset ident_eqb) in Hin. destruct Hin as [E|Hin]; [injection E as _ ->; right; eauto|apply (H id l Hin)].
    Qed.
    Lemma res_only_test : forall P tg t, res_only (mk_frame P [tg] [SOut [t]]).
    Proof.
      intros. rewrite <- frame_for_test_eq. unfold frame_for_test, an_for_test. apply res_only_loads.
      intros id l Hin. unfold sym_param, define_ref, add_store, sym_new in Hin; cbn in Hin. destruct Hin as [E|[]]. injection E as _ ->. auto.
    Qed.

    (* the locals of the loop-filter function: only level-lvl keys, holding context values *)
    Definition TL (lvl : nat) (ts : symbols) (tg : name) (tloc : locmap) : Prop :=
      (forall id, fst id <> lvl -> dget ident_eqb (kk id) tloc = None) /\
      (forall x, hasref ts x -> x <> tg -> exists ov, dget ident_eqb (kk (lvl, x)) tloc = Some ov /\ val_of ov = ctxv x).

    Lemma flk_agree_rel : forall fs' st' env' scopes x,
      wfchain fs' -> chain_rel (rref st') scopes fs' env' -> Forall (fun f0 => In x (snd f0)) fs' ->
      found (syms_of fs') x -> flk pynorm (syms_of fs') st' x = Ok (slkv scopes env' x).
    Proof.
      intros fs' st' env' scopes x W C HV F.
      destruct (lookup_agree fs' env' (rref st') scopes x W C HV) as [L1 _].
      unfold flk. unfold found in F. destruct (find_ref (syms_of fs') x) as [id|]; [|contradiction].
      destruct (L1 id eq_refl) as [ov [R1 R2]]. rewrite R1. destruct ov; cbn in R2; rewrite <- R2; reflexivity.
    Qed.

    Section Test.
      Variables (Sy : symbols) (V : list name) (P : frames) (env : list nat) (tg : name) (t : expr).
      Let fs := (Sy, V) :: P.
      Let lvl := length fs.
      Let ts := mk_frame (syms_of fs) [tg] [SOut [t]].
      Hypothesis HtgV : In tg V.
      Hypothesis HtV : incl (expr_names t) V.

      Lemma ts_facts : forall st ss, Inv fs st env ss ->
        WF [tg] (syms_of fs) ts /\ s_level ts = lvl /\ hasref ts tg /\
        (forall x, hasref ts x -> x = tg \/ In x (expr_names t)) /\ incl V V0 /\
        Forall (found (ts :: syms_of fs)) (expr_names t).
      Proof.
        intros st ss I. destruct (mk_frame_ok (syms_of fs) [tg] [SOut [t]]) as [WS [Lv0 [Hpr Cv]]]. fold ts in WS, Lv0, Hpr, Cv.
        split; [exact WS|]. split; [rewrite Lv0; apply sym_new_level; apply I|]. split; [apply Hpr; left; reflexivity|].
        split.
        - intros x Hx. destruct (mk_frame_refs _ _ _ x Hx) as [[<-|[]]|H]; [auto|]. right. rewrite onames_out in H. exact H.
        - split; [destruct (i_wf _ _ _ _ I) as [_ [_ [H0 _]]]; exact H0|].
          cbn [covers_l covers] in Cv. destruct Cv as [Cv _]. unfold exprs_names in Cv. cbn [flat_map] in Cv. rewrite app_nil_r in Cv. exact Cv.
      Qed.

      (* one evaluation of the filter, for one item *)
      Lemma test_ok : forall st ss tloc item,
        Inv fs st env ss -> In 0 env -> TL lvl ts tg tloc ->
        let stt := wref (push_act st tloc (cur_id st :: f_chain st)) (lvl, tg) (Some item) in
        let sst := snd (new_scope ss [(tg, item)]) in
        eval (flk pynorm (ts :: syms_of fs) stt) (f_heap stt) t = eval (slk d (length (s_scopes ss) :: env) sst) (s_heap sst) t /\
        TL lvl ts tg (f_loc stt) /\ Inv fs (pop_act st stt) env ss.
      Proof.
        intros st ss tloc item I Hz [T2 T1] stt sst.
        destruct (ts_facts st ss I) as [WS [Lv [Htg [Hrefs [HV0 Fd]]]]].
        assert (Hrd : forall id, rref stt id = if ident_eqb (kk id) (kk (lvl, tg)) then Some (Some item)
                                               else match dget ident_eqb (kk id) tloc with Some v => Some v | None => rref st id end).
        { intros id. unfold stt. rewrite read_write. destruct (ident_eqb (kk id) (kk (lvl, tg))); [reflexivity|].
          apply read_push. apply (Inv_chain_ok _ _ _ _ I). }
        assert (HtgV0 : In tg V0) by (apply HV0; exact HtgV).
        split; [|split].
        - (* evaluation *)
          assert (Wf' : wfchain ((ts, expr_names t) :: fs)).
          { cbn [wfchain]. split; [exists [tg]; exact WS|]. split; [exact Lv|].
            split; [intros y Hy; apply HV0; apply HtV; exact Hy|]. split; [exact HtV|apply I]. }
          assert (Hold : forall i, In i env -> nth i (s_scopes ss ++ [[(tg, item)]]) [] = nth i (s_scopes ss) []).
          { intros i Hi. apply nth_app_old. apply (i_valid _ _ _ _ I). exact Hi. }
          assert (C' : chain_rel (rref stt) (s_scopes ss ++ [[(tg, item)]]) ((ts, expr_names t) :: fs) (length (s_scopes ss) :: env)).
          { cbn [chain_rel]. rewrite nth_app_new. split; [split|].
            - intros x v Hx Hd. cbn [dget] in Hd. destruct (N.eqb_spec x tg) as [->|Hne]; [|discriminate]. injection Hd as <-.
              split; [exact Htg|]. rewrite Lv, Hrd, ident_eqb_refl. reflexivity.
            - intros x Hx Hr Hd. cbn [dget] in Hd. destruct (N.eqb_spec x tg) as [->|Hne]; [discriminate|].
              destruct (T1 x Hr Hne) as [ov [D1 D2]]. exists ov. split.
              + rewrite Lv, Hrd. unfold lvl at 1. rewrite key_name; auto. destruct (N.eqb_spec x tg); [contradiction|]. rewrite D1. reflexivity.
              + rewrite D2. destruct (WF_load [tg] _ ts x WS Hr) as [l [Dl L]]. unfold lok in L. cbn [nmem] in L.
                destruct (N.eqb_spec x tg); [contradiction|]. cbn [orb] in L.
                destruct (res_only_test (syms_of fs) tg t _ _ (dget_In ident_eqb ident_eqb_eq _ _ _ Dl)) as [->|[y ->]]; [contradiction|].
                destruct L as [_ Fn].
                destruct (lookup_agree fs env (rref st) (s_scopes ss) x (i_wf _ _ _ _ I) (i_rel _ _ _ _ I)) as [_ L2].
                { apply wfchain_incl; [apply I|apply HtV; exact Hx]. }
                rewrite (slkv_ext env (s_scopes ss) (s_scopes ss ++ [[(tg, item)]]) x Hold). unfold slkv. rewrite (L2 Fn). reflexivity.
            - apply (chain_rel_scopes fs env _ (s_scopes ss)); [exact Hold|].
              apply (chain_rel_ext fs env (rref st)); [apply I| |apply I]. intros id Hid. rewrite Hrd.
              rewrite key_level; [|cbn [fst]; unfold lvl; lia]. rewrite T2; [reflexivity|unfold lvl; lia]. }
          unfold sst, new_scope; cbn [snd s_heap s_scopes].
          assert (Hh : f_heap stt = s_heap ss) by (unfold stt, write_ref, set_loc, push_act; cbn [f_heap]; apply I).
          rewrite Hh. apply eval_ext. intros x Hx.
          rewrite slk_slkv. cbn [s_scopes].
          apply (flk_agree_rel ((ts, expr_names t) :: fs) stt (length (s_scopes ss) :: env) _ x Wf' C').
          + apply wfchain_incl; [exact Wf'|exact Hx].
          + rewrite Forall_forall in Fd. apply Fd. exact Hx.
        - (* the function's locals afterwards *)
          unfold stt, write_ref, set_loc, push_act; cbn [f_loc]. split.
          + intros id Hid. rewrite (dget_dset ident_eqb ident_eqb_eq). rewrite key_level; [apply T2; exact Hid|cbn [fst]; congruence].
          + intros x Hr Hne. destruct (T1 x Hr Hne) as [ov [D1 D2]]. exists ov. split; [|exact D2].
            rewrite (dget_dset ident_eqb ident_eqb_eq). rewrite key_name; auto.
            * destruct (N.eqb_spec x tg); [contradiction|exact D1].
            * destruct (Hrefs x Hr) as [->|Hx]; [contradiction|]. apply HV0. apply HtV. exact Hx.
        - apply (Inv_ext fs st); [exact I| |].
          + unfold same_misc, pop_act, stt, write_ref, set_loc, push_act; cbn. auto.
          + intros id _. reflexivity.
      Qed.

      (* starting the generator: enter_frame of the filter function *)
      Lemma tact_ok : forall st ss, Inv fs st env ss -> In 0 env ->
        exists st', enter_frame pynorm d (push_act st [] (cur_id st :: f_chain st)) ts = Ok st' /\
                    TL lvl ts tg (f_loc st') /\ Inv fs (pop_act st st') env ss.
      Proof.
        intros st ss I Hz. destruct (ts_facts st ss I) as [WS [Lv [Htg [Hrefs [HV0 Fd]]]]].
        set (stp := push_act st [] (cur_id st :: f_chain st)).
        assert (Hp : forall id, rref stp id = rref st id).
        { intros id. unfold stp. rewrite read_push; [reflexivity|apply (Inv_chain_ok _ _ _ _ I)]. }
        destruct (enter_loads_spec lvl (s_loads ts) stp (wf_nodup _ _ _ WS)) as [st' [E [M [A [B C]]]]].
        { intros id l Hin. destruct (wf_keys _ _ _ WS id l Hin) as [x [-> [Hr L]]]. cbn [fst snd]. split; [exact Lv|].
          split; [destruct (Hrefs x Hr) as [->|Hx]; [apply HV0; exact HtgV|apply HV0; apply HtV; exact Hx]|].
          intros o ->. destruct (res_only_test (syms_of fs) tg t _ _ Hin) as [H|[y H]]; discriminate. }
        exists st'. split; [exact E|].
        (* reads of st' that miss the new locals fall through to st: compare with the dictionary *)
        assert (Hloc : forall id, rref st' id = match dget ident_eqb (kk id) (f_loc st') with Some v => Some v | None => rref st id end).
        { intros id. destruct M as [M1 [M2 _]]. unfold read_ref at 1. rewrite M1, M2.
          destruct (dget ident_eqb (kk id) (f_loc st')); [reflexivity|].
          unfold stp, push_act, cur_id; cbn [f_below f_chain read_chain]. rewrite app_nth2; [|lia]. rewrite Nat.sub_diag. cbn [nth a_loc].
          unfold read_ref. destruct (dget ident_eqb (kk id) (f_loc st)); [reflexivity|]. apply read_chain_app. apply (Inv_chain_ok _ _ _ _ I). }
        assert (Hcv : forall x, lookup_env (s_scopes ss) env x = None -> dget N.eqb x (f_cvars stp) = None).
        { intros x Hn. unfold stp, push_act; cbn [f_cvars]. rewrite (i_cvars _ _ _ _ I). apply (lookup_env_none_in env _ x 0 Hn Hz). }
        split; [split|].
        - (* other levels: nothing written.  The dictionary is built from the empty one *)
          intros id Hid.
          assert (G : forall loads s0 s1, enter_loads pynorm d s0 loads = Ok s1 ->
                      (forall i l, In (i, l) loads -> fst i = lvl) ->
                      dget ident_eqb (kk id) (f_loc s0) = None -> dget ident_eqb (kk id) (f_loc s1) = None).
          { induction loads as [|[tid l] r IHl]; intros s0 s1 E0 Hl H0; cbn [enter_loads] in E0.
            - injection E0 as <-. exact H0.
            - assert (Ht : fst tid = lvl) by (apply (Hl tid l); left; reflexivity).
              assert (Hk : forall v s, dget ident_eqb (kk id) (f_loc s) = None -> dget ident_eqb (kk id) (f_loc (wref s tid v)) = None).
              { intros v s Hs. unfold write_ref, set_loc; cbn [f_loc]. rewrite (dget_dset ident_eqb ident_eqb_eq).
                rewrite key_level; [exact Hs|congruence]. }
              assert (Hl' : forall i l0, In (i, l0) r -> fst i = lvl) by (intros i l0 Hin; apply (Hl i l0); right; exact Hin).
              destruct l as [|x|o|].
              + apply (IHl _ _ E0 Hl' H0).
              + apply (IHl _ _ E0 Hl'). apply Hk. exact H0.
              + destruct (rref s0 o); [|discriminate]. apply (IHl _ _ E0 Hl'). apply Hk. exact H0.
              + apply (IHl _ _ E0 Hl'). apply Hk. exact H0. }
          apply (G (s_loads ts) stp st' E); [|reflexivity].
          intros i l Hin. destruct (wf_keys _ _ _ WS i l Hin) as [x [-> _]]. exact Lv.
        - intros x Hr Hne. destruct (WF_load [tg] _ ts x WS Hr) as [l [Dl L]]. unfold lok in L. cbn [nmem] in L.
          destruct (N.eqb_spec x tg); [contradiction|]. cbn [orb] in L.
          pose proof (dget_In ident_eqb ident_eqb_eq _ _ _ Dl) as Hin.
          destruct (res_only_test (syms_of fs) tg t _ _ Hin) as [->|[y ->]]; [contradiction|]. destruct L as [-> Fn].
          pose proof (C _ _ Hin) as Hc. cbn [load_val] in Hc. rewrite Lv in Hc.
          destruct (lookup_agree fs env (rref st) (s_scopes ss) x (i_wf _ _ _ _ I) (i_rel _ _ _ _ I)) as [_ L2].
          { apply wfchain_incl; [apply I|]. destruct (Hrefs x Hr) as [->|Hx]; [contradiction|apply HtV; exact Hx]. }
          (* the value was written into the function's own dictionary *)
          assert (Gw : forall loads s0 s1, enter_loads pynorm d s0 loads = Ok s1 -> forall l0, In ((lvl, x), l0) loads -> l0 <> LParam ->
                        dget ident_eqb (kk (lvl, x)) (f_loc s1) <> None \/ False).
          { left. revert s0 s1 H H0 H1. induction loads as [|[tid l1] r IHl]; intros s0 s1 E0 Hin0 Hnp; [contradiction|].
            assert (Keep : forall loads' s2 s3, enter_loads pynorm d s2 loads' = Ok s3 ->
                      dget ident_eqb (kk (lvl, x)) (f_loc s2) <> None -> dget ident_eqb (kk (lvl, x)) (f_loc s3) <> None).
            { induction loads' as [|[tid2 l2] r2 IH2]; intros s2 s3 E2 H2; cbn [enter_loads] in E2; [injection E2 as <-; exact H2|].
              assert (Hk : forall v s, dget ident_eqb (kk (lvl, x)) (f_loc s) <> None -> dget ident_eqb (kk (lvl, x)) (f_loc (wref s tid2 v)) <> None).
              { intros v s Hs. unfold write_ref, set_loc; cbn [f_loc]. rewrite (dget_dset ident_eqb ident_eqb_eq).
                destruct (ident_eqb (kk (lvl, x)) (kk tid2)); [discriminate|exact Hs]. }
              destruct l2 as [|x2|o2|]; [apply (IH2 _ _ E2 H2)|apply (IH2 _ _ E2); apply Hk; exact H2| |apply (IH2 _ _ E2); apply Hk; exact H2].
              destruct (rref s2 o2); [|discriminate]. apply (IH2 _ _ E2). apply Hk. exact H2. }
            cbn [enter_loads] in E0. destruct Hin0 as [Eq|Hin0].
            - injection Eq as -> ->.
              assert (Hw : forall v s, dget ident_eqb (kk (lvl, x)) (f_loc (wref s (lvl, x) v)) <> None).
              { intros v s. unfold write_ref, set_loc; cbn [f_loc]. rewrite (dget_dset_same ident_eqb ident_eqb_eq). discriminate. }
              destruct l0 as [|x0|o0|]; [contradiction|apply (Keep _ _ _ E0); apply Hw| |apply (Keep _ _ _ E0); apply Hw].
              destruct (rref s0 o0); [|discriminate]. apply (Keep _ _ _ E0). apply Hw.
            - destruct l1 as [|x1|o1|]; [apply (IHl _ _ E0 Hin0 Hnp)|apply (IHl _ _ E0 Hin0 Hnp)| |apply (IHl _ _ E0 Hin0 Hnp)].
              destruct (rref s0 o1); [|discriminate]. apply (IHl _ _ E0 Hin0 Hnp). }
          destruct (Gw (s_loads ts) stp st' E (LResolve x)) as [Gd|[]]; [rewrite <- Lv; exact Hin|discriminate|].
          rewrite Hloc in Hc. destruct (dget ident_eqb (kk (lvl, x)) (f_loc st')) as [ov|]; [|contradiction].
          exists ov. split; [reflexivity|]. injection Hc as ->. apply resolve_ctx. apply Hcv. apply L2. exact Fn.
        - apply (Inv_ext fs st); [exact I| |intros id _; reflexivity].
          destruct M as [M1 [M2 [M3 [M4 M5]]]]. unfold same_misc, pop_act, stp, push_act in *; cbn in *. auto.
      Qed.
    End Test.

    Definition f_iter2 (syms : list symbols) (ls ts : symbols) (lvl : nat) (tg : name) (te : option expr) (ext : bool) (body : list stmt) :=
      fix iter (items : list value) (idx : N) (st : fstate) (tloc : locmap) (out : str) : res (fstate * str * N) :=
        match items with
        | [] => Ok (st, out, idx)
        | item :: more =>
            do pass <- (match te with
                        | None => Ok (st, tloc, true)
                        | Some t =>
                            let stt := write_ref pynorm (push_act st tloc (cur_id st :: f_chain st)) (lvl, tg) (Some item) in
                            do tv <- eval (flk pynorm (ts :: syms) stt) (f_heap stt) t;
                            Ok (pop_act st stt, f_loc stt, truthy tv)
                        end);
            let '(st, tloc, ok) := pass in
            if ok then
              let st := write_ref pynorm st (lvl, tg) (Some item) in
              let st := if ext then write_ref pynorm st (lvl, n_loop) (Some (VLoop (idx + 1))) else st in
              do st <- enter_frame pynorm d st ls;
              do (st, o) <- fx pynorm priv d f (ls :: syms) (mkFl false true) st body;
              iter more (idx + 1)%N st tloc (out ++ o)
            else iter more idx st tloc out
        end.
    Definition s_iter2 (env : list nat) (tg : name) (te : option expr) (body : list stmt) :=
      fix iter (items : list value) (idx : N) (st : sstate) (out : str) : res (sstate * str * N) :=
        match items with
        | [] => Ok (st, out, idx)
        | item :: more =>
            do ok <- (match te with
                      | None => Ok true
                      | Some t =>
                          let '(i, stt) := new_scope st [(tg, item)] in
                          do tv <- eval (slk d (i :: env) stt) (s_heap stt) t; Ok (truthy tv)
                      end);
            if ok then
              let '(i, st) := new_scope st [(tg, item); (n_loop, VLoop (idx + 1))] in
              do (st, o) <- sxi d Sr f (i :: env) st body;
              iter more (idx + 1)%N st (out ++ o)
            else iter more idx st out
        end.

    Definition RI (fs : frames) (env : list nat) (X : res (fstate * str * N)) (Y : res (sstate * str * N)) : Prop :=
      match X with
      | Ok (st', out', n) => exists ss', Y = Ok (ss', out', n) /\ Inv fs st' env ss'
      | Err e => Y = Err e
      end.

    (* one iteration of the loop body *)
    Lemma body_step : forall Sy V P fr env tg body
      (K1 : fstate -> str -> res (fstate * str * N)) (K2 : sstate -> str -> res (sstate * str * N)) stp ss idx item,
      let fs := (Sy, V) :: P in
      env_ok fr env -> In tg V -> tg <> n_loop -> incl (onames_l body) V ->
      core3_prog false body = true -> okocc body ->
      gok (mk_frame (syms_of fs) (loop_ps tg body) body :: syms_of fs) ->
      Forall gok (frames_list oid (mk_frame (syms_of fs) (loop_ps tg body) body :: syms_of fs) body) ->
      Inv fs stp env ss ->
      (forall st4 ss2 o, Inv fs st4 env ss2 -> RI fs env (K1 st4 o) (K2 ss2 o)) ->
      RI fs env
        (let st := write_ref pynorm stp (length fs, tg) (Some item) in
         let st := if extended_loop body then write_ref pynorm st (length fs, n_loop) (Some (VLoop (idx + 1))) else st in
         do st <- enter_frame pynorm d st (mk_frame (syms_of fs) (loop_ps tg body) body);
         do (st, o) <- fx pynorm priv d f (mk_frame (syms_of fs) (loop_ps tg body) body :: syms_of fs) (mkFl false true) st body;
         K1 st o)
        (let '(i, st) := new_scope ss [(tg, item); (n_loop, VLoop (idx + 1))] in
         do (st, o) <- sxi d Sr f (i :: env) st body;
         K2 st o).
    Proof.
      intros Sy V P fr env tg body K1 K2 stp ss idx item fs He HtgV Htl HV Hc Ho Hg Hgs Ip HK.
      cbv zeta.
      set (st1 := wref stp (length fs, tg) (Some item)).
      set (st2 := if extended_loop body then wref st1 (length fs, n_loop) (Some (VLoop (idx + 1))) else st1).
      assert (HV0 : incl V V0). { destruct (i_wf _ _ _ _ Ip) as [_ [_ [H0 _]]]. exact H0. }
      assert (I2 : Inv fs st2 env ss).
      { unfold st2, st1. destruct (extended_loop body); repeat apply Inv_write_high; auto. }
      pose proof (block_ok Sy V P fr (mkFl false true) st2 env ss (loop_ps tg body) body
                    [(tg, item); (n_loop, VLoop (idx + 1))] I2 He eq_refl) as B. cbv zeta in B.
      fold fs in B. unfold new_scope in *. cbn [fst snd] in *.
      assert (Hps : incl (loop_ps tg body) V0).
      { unfold loop_ps. intros x Hx. apply in_app_or in Hx. destruct Hx as [Hx|[<-|[]]]; [|apply HV0; exact HtgV].
        destruct (extended_loop body); [destruct Hx as [<-|[]]; exact Hloop0|contradiction]. }
      specialize (B Hps HV).
      assert (Hpar : forall x v, In x (onames_l body) -> dget N.eqb x [(tg, item); (n_loop, VLoop (idx + 1))] = Some v ->
                      In x (loop_ps tg body) /\ rref st2 (length fs, x) = Some (Some v)).
      { intros x v Hx Hd. cbn [dget] in Hd. destruct (N.eqb_spec x tg) as [->|Hne].
        - injection Hd as <-. split; [unfold loop_ps; apply in_or_app; right; left; reflexivity|].
          unfold st2, st1. destruct (extended_loop body).
          + rewrite read_write_name; auto. apply read_write_same.
          + apply read_write_same.
        - destruct (N.eqb_spec x n_loop) as [->|Hnl]; [|discriminate]. injection Hd as <-.
          pose proof (extended_true body Ho Hx) as Hext. unfold st2, loop_ps. rewrite Hext.
          split; [apply in_or_app; left; left; reflexivity|apply read_write_same]. }
      assert (Hb : forall x, In x (onames_l body) -> In x (loop_ps tg body) ->
                     dget N.eqb x [(tg, item); (n_loop, VLoop (idx + 1))] <> None).
      { intros x _ Hx. unfold loop_ps in Hx. apply in_app_or in Hx. cbn [dget].
        destruct (N.eqb_spec x tg); [discriminate|]. destruct (N.eqb_spec x n_loop); [discriminate|].
        destruct Hx as [Hx|[<-|[]]]; [|congruence]. destruct (extended_loop body); [destruct Hx as [<-|[]]; congruence|contradiction]. }
      specialize (B Hpar Hb Hg Hc Ho Hgs).
      destruct (enter_frame pynorm d st2 (mk_frame (syms_of fs) (loop_ps tg body) body)) as [st3|e]; [|contradiction].
      cbn [bind].
      destruct (fx pynorm priv d f (mk_frame (syms_of fs) (loop_ps tg body) body :: syms_of fs) (mkFl false true) st3 body) as [[st4 o]|e].
      - destruct B as [ss2 [E I4]]. rewrite E. cbn [bind]. apply HK. apply (Inv_tail _ _ _ _ _ _ _ I4).
      - rewrite B. reflexivity.
    Qed.

    Lemma iter_ok2 : forall Sy V P fr env tg te body ts,
      let fs := (Sy, V) :: P in
      (match te with Some t => ts = mk_frame (syms_of fs) [tg] [SOut [t]] | None => True end) ->
      env_ok fr env -> In tg V -> tg <> n_loop -> incl (onames_l body) V ->
      (match te with Some t => incl (expr_names t) V | None => True end) ->
      core3_prog false body = true -> okocc body ->
      gok (mk_frame (syms_of fs) (loop_ps tg body) body :: syms_of fs) ->
      Forall gok (frames_list oid (mk_frame (syms_of fs) (loop_ps tg body) body :: syms_of fs) body) ->
      forall items idx st ss tloc out, Inv fs st env ss ->
      (match te with Some _ => TL (length fs) ts tg tloc | None => True end) ->
      RI fs env
        (f_iter2 (syms_of fs) (mk_frame (syms_of fs) (loop_ps tg body) body) ts (length fs) tg te (extended_loop body) body items idx st tloc out)
        (s_iter2 env tg te body items idx ss out).
    Proof.
      intros Sy V P fr env tg te body ts fs Hts He HtgV Htl HV Hte Hc Ho Hg Hgs.
      induction items as [|item more IH]; intros idx st ss tloc out I HT.
      - cbn. exists ss. auto.
      - destruct te as [t|].
        + subst ts. set (ts := mk_frame (syms_of fs) [tg] [SOut [t]]) in *. cbn [f_iter2 s_iter2].
          fold (f_iter2 (syms_of fs) (mk_frame (syms_of fs) (loop_ps tg body) body) ts (length fs) tg (Some t) (extended_loop body) body).
          fold (s_iter2 env tg (Some t) body).
          destruct (test_ok Sy V P env tg t HtgV Hte st ss tloc item I (proj1 (proj2 He)) HT) as [Ev [HT' I']].
          cbv zeta in Ev, HT', I'. cbv zeta. unfold new_scope in *; cbn [fst snd] in *. fold fs ts in Ev, HT', I'.
          match goal with |- RI _ _ _ (bind (bind ?Z _) _) =>
            match goal with |- context [eval (flk pynorm ?sy ?stt) ?h t] =>
              replace (eval (flk pynorm sy stt) h t) with Z by (symmetry; exact Ev) end;
            destruct Z as [tv|e] end; cbn [bind s_heap]; [|reflexivity].
          destruct (truthy tv).
          * apply (body_step Sy V P fr env tg body
                     (fun st4 o => f_iter2 (syms_of fs) (mk_frame (syms_of fs) (loop_ps tg body) body) ts (length fs) tg (Some t) (extended_loop body) body more (idx + 1)%N st4 _ (out ++ o))
                     (fun ss2 o => s_iter2 env tg (Some t) body more (idx + 1)%N ss2 (out ++ o))); auto;
              try (intros st4 ss2 o I4; apply IH; [exact I4|exact HT']).
          * apply IH; [exact I'|exact HT'].
        + cbn [f_iter2 s_iter2 bind].
          fold (f_iter2 (syms_of fs) (mk_frame (syms_of fs) (loop_ps tg body) body) ts (length fs) tg None (extended_loop body) body).
          fold (s_iter2 env tg None body).
          apply (body_step Sy V P fr env tg body
                   (fun st4 o => f_iter2 (syms_of fs) (mk_frame (syms_of fs) (loop_ps tg body) body) ts (length fs) tg None (extended_loop body) body more (idx + 1)%N st4 tloc (out ++ o))
                   (fun ss2 o => s_iter2 env tg None body more (idx + 1)%N ss2 (out ++ o))); auto;
            try (intros st4 ss2 o I4; apply IH; [exact I4|exact Logic.I]).
    Qed.

    Lemma case_for2 : forall Sy V P fr st env ss tg it te body els,
      Inv ((Sy, V) :: P) st env ss -> env_ok fr env -> Pre Sy V P [SFor tg it te body els] ->
      R1 ((Sy, V) :: P) env
         (let lvl := S (s_level Sy) in
          let ls := frame_for_body oid (Sy :: syms_of P) tg body in
          do v <- eval (flk pynorm (Sy :: syms_of P) st) (f_heap st) it;
          let ts := frame_for_test (Sy :: syms_of P) tg te in
          do tact <- (match te with
                      | None => Ok (st, [])
                      | Some _ => do st' <- enter_frame pynorm d (push_act st [] (cur_id st :: f_chain st)) ts;
                                  Ok (pop_act st st', f_loc st')
                      end);
          let '(sta, tloc) := tact in
          let st0 := if extended_loop body then wref sta (lvl, n_loop) None else sta in
          do items <- iter_items v;
          do r <- f_iter2 (Sy :: syms_of P) ls ts lvl tg te (extended_loop body) body items 0%N st0 tloc [];
          let '(st1, out, n) := r in
          let st2 := leave_frame pynorm st1 ls in
          match els with
          | [] => Ok (st2, out)
          | _ :: _ =>
              if N.eqb n 0 then
                let es := frame_for_else oid (Sy :: syms_of P) els in
                do st3 <- enter_frame pynorm d st2 es;
                do (st4, o) <- fx pynorm priv d f (es :: Sy :: syms_of P) fl_inner st3 els;
                Ok (leave_frame pynorm st4 es, out ++ o)
              else Ok (st2, out)
          end)
         (do v <- eval (slk d env ss) (s_heap ss) it;
          do items <- iter_items v;
          do r <- s_iter2 env tg te body items 0%N ss [];
          let '(ss1, out, n) := r in
          match els with
          | [] => Ok (ss1, out)
          | _ :: _ =>
              if N.eqb n 0 then
                let '(i, ss2) := new_scope ss1 [] in
                do (ss3, o) <- sxi d Sr f (i :: env) ss2 els;
                Ok (ss3, out ++ o)
              else Ok (ss1, out)
          end).
    Proof.
      intros Sy V P fr st env ss tg it te body els I He Pr.
      destruct (pre_one _ _ _ _ Pr) as [C [N [O [Cv G]]]]. cbn [covers] in Cv.
      cbn [core3_stmt] in C. rewrite (core3_go false body), (core3_go false els) in C. apply andb_true_iff in C. destruct C as [C1 C2].
      unfold onames in N. cbn [occs map fst] in N. rewrite !occs_go, !map_app, ld_fst in N.
      cbn [occs] in O. rewrite !occs_go in O. inversion O as [|? ? Otg O']; subst.
      apply Forall_app in O'. destruct O' as [_ O']. apply Forall_app in O'. destruct O' as [O1 O'].
      apply Forall_app in O'. destruct O' as [O2 _].
      cbn [frames_stmt] in G. rewrite !frames_go in G.
      apply Forall_app in G. destruct G as [_ G]. cbn [app] in G. inversion G as [|? ? Gb G']; subst.
      apply Forall_app in G'. destruct G' as [Gbs Ge].
      assert (Lv : s_level Sy = length P). { destruct (i_wf _ _ _ _ I) as [_ [Lv _]]. exact Lv. }
      assert (HtgV : In tg V) by (apply N; left; reflexivity).
      assert (Htl : tg <> n_loop). { intros ->. unfold occ_ok in Otg. cbn in Otg. discriminate. }
      assert (HVb : incl (onames_l body) V).
      { intros y Hy. apply N. right. apply in_or_app. right. apply in_or_app. left. exact Hy. }
      assert (HVe : incl (onames_l els) V).
      { intros y Hy. apply N. right. apply in_or_app. right. apply in_or_app. right. apply in_or_app. left. exact Hy. }
      assert (Hte : match te with Some t => incl (expr_names t) V | None => True end).
      { destruct te as [t|]; [|trivial]. intros y Hy. apply N. right. apply in_or_app. right. apply in_or_app. right. apply in_or_app. right.
        rewrite ld_fst. exact Hy. }
      cbv zeta. rewrite (eval_agree Sy V P st env ss it I Cv); [|intros y Hy; apply N; right; apply in_or_app; left; exact Hy].
      destruct (eval (slk d env ss) (s_heap ss) it) as [v|e]; cbn [bind]; [|reflexivity].
      rewrite frame_for_body_eq in *. rewrite Lv.
      (* the filter function *)
      assert (Tact : exists sta tloc,
                (match te with
                 | None => Ok (st, [])
                 | Some _ => do st' <- enter_frame pynorm d (push_act st [] (cur_id st :: f_chain st)) (frame_for_test (Sy :: syms_of P) tg te);
                             Ok (pop_act st st', f_loc st')
                 end) = Ok (sta, tloc) /\ Inv ((Sy, V) :: P) sta env ss /\
                (match te with Some _ => TL (length ((Sy, V) :: P)) (frame_for_test (Sy :: syms_of P) tg te) tg tloc | None => True end)).
      { destruct te as [t|]; [|exists st, []; auto].
        rewrite frame_for_test_eq.
        destruct (tact_ok Sy V P env tg t HtgV Hte st ss I (proj1 (proj2 He))) as [st' [E [HT I']]].
        change (syms_of ((Sy, V) :: P)) with (Sy :: syms_of P) in *. rewrite E. cbn [bind]. eexists _, _. split; [reflexivity|]. split; [exact I'|exact HT]. }
      destruct Tact as [sta [tloc [Et [Ia HT]]]]. rewrite Et. cbn [bind].
      destruct (iter_items v) as [items|e]; cbn [bind]; [|reflexivity].
      set (st0 := if extended_loop body then wref sta (S (length P), n_loop) None else sta).
      assert (I0 : Inv ((Sy, V) :: P) st0 env ss).
      { unfold st0. destruct (extended_loop body); [apply Inv_write_high; [exact Ia|cbn; lia]|exact Ia]. }
      pose proof (iter_ok2 Sy V P fr env tg te body (frame_for_test (Sy :: syms_of P) tg te)) as IT. cbv zeta in IT.
      assert (Hts : match te with Some t => frame_for_test (Sy :: syms_of P) tg te = mk_frame (syms_of ((Sy, V) :: P)) [tg] [SOut [t]] | None => True end).
      { destruct te as [t|]; [apply frame_for_test_eq|trivial]. }
      specialize (IT Hts He HtgV Htl HVb Hte C1 O1 Gb Gbs items 0%N st0 ss tloc [] I0 HT).
      change (syms_of ((Sy, V) :: P)) with (Sy :: syms_of P) in IT. cbn [length] in IT. unfold RI in IT.
      destruct (f_iter2 (Sy :: syms_of P) (mk_frame (Sy :: syms_of P) (loop_ps tg body) body) (frame_for_test (Sy :: syms_of P) tg te) (S (length P)) tg te
                  (extended_loop body) body items 0%N st0 tloc []) as [[[st1 out] n]|e].
      - destruct IT as [ss1 [E I1]]. rewrite E. cbn [bind].
        pose proof (leave_ok' ((Sy, V) :: P) st1 env ss1 (loop_ps tg body) body I1) as I2.
        change (syms_of ((Sy, V) :: P)) with (Sy :: syms_of P) in I2.
        destruct els as [|e0 els']; [exists ss1; auto|].
        destruct (N.eqb n 0); [|exists ss1; auto].
        set (els := e0 :: els') in *.
        assert (Hp0 : forall (x : name) (v : value), In x (onames_l els) -> dget N.eqb x (@nil (name * value)) = Some v ->
                        In x [] /\ rref (leave_frame pynorm st1 (mk_frame (Sy :: syms_of P) (loop_ps tg body) body)) (length ((Sy, V) :: P), x) = Some (Some v)) by (intros x v0 _ H; discriminate).
        assert (Hb0 : forall x : name, In x (onames_l els) -> In x [] -> dget N.eqb x (@nil (name * value)) <> None) by (intros x _ []).
        assert (Gel : gok (mk_frame (Sy :: syms_of P) [] els :: Sy :: syms_of P) /\
                      Forall gok (frames_list oid (mk_frame (Sy :: syms_of P) [] els :: Sy :: syms_of P) els)).
        { unfold els in *. inversion Ge as [|? ? Ge1 Ge2]; subst. split; [exact Ge1|exact Ge2]. }
        pose proof (block_ok Sy V P fr fl_inner _ env ss1 [] els [] I2 He eq_refl (incl_nil_l _) HVe Hp0 Hb0 (proj1 Gel) C2 O2 (proj2 Gel)) as B.
        cbv zeta in B. cbv zeta. unfold new_scope in *; cbn [fst snd] in *.
        change (frame_for_else oid (Sy :: syms_of P) els) with (mk_frame (syms_of ((Sy, V) :: P)) [] els).
        destruct (enter_frame pynorm d _ (mk_frame (syms_of ((Sy, V) :: P)) [] els)) as [st3|e]; [|contradiction].
        cbn [bind]. change (syms_of ((Sy, V) :: P)) with (Sy :: syms_of P) in *.
        destruct (fx pynorm priv d f (mk_frame (Sy :: syms_of P) [] els :: Sy :: syms_of P) fl_inner st3 els) as [[st4 o]|e].
        + destruct B as [ss3 [E3 I4]]. rewrite E3. cbn [bind]. exists ss3. split; [reflexivity|].
          apply (leave_ok' ((Sy, V) :: P)). apply (Inv_tail _ _ _ _ _ _ _ I4).
        + rewrite B. reflexivity.
      - rewrite IT. reflexivity.
    Qed.

    (* ---- macro definition (top level): the closure the generated code stores is the one the
       instrumented reference interpreter stores *)
    Lemma case_macro : forall Sy V P fr st env ss m ps body,
      Inv ((Sy, V) :: P) st env ss -> env_ok fr env -> Pre Sy V P [SMacro m ps body] ->
      R1 ((Sy, V) :: P) env
         (let c := VClos KMacro m ps body (macro_uses_caller body) (cur_id st :: f_chain st) (Sy :: syms_of P) in
          match find_ref (Sy :: syms_of P) m with
          | None => Err EInternal
          | Some id =>
              let st0 := if toplevel fr then set_cvar st m c (negb (priv m)) else st in
              Ok (write_ref pynorm st0 id (Some c), [])
          end)
         (Ok (sassign env ss m (VClos KMacro m ps body (macro_uses_caller body) env [Sr]), [])).
    Proof.
      intros Sy V P fr st env ss m ps body I He Pr.
      destruct (pre_one _ _ _ _ Pr) as [C [N [_ [Cv _]]]]. cbn [core3_stmt] in C.
      destruct P as [|p0 P']; [|discriminate C].
      pose proof (p_root _ _ _ _ Pr eq_refl) as HS. subst Sy. cbn [covers] in Cv.
      assert (HmV : In m V). { apply N. unfold onames. cbn [occs map fst]. left. reflexivity. }
      pose proof (chain_rel_len _ _ _ _ (i_rel _ _ _ _ I)) as HL. destruct env as [|i [|j E]]; try discriminate HL.
      destruct He as [Hnd [Hz Htop]]. destruct Hz as [->|[]].
      assert (Ht : toplevel fr = true). { destruct (toplevel fr); [reflexivity|]. cbn in Htop. contradiction. }
      destruct (i_root _ _ _ _ I) as [Hb Hc]. unfold cur_id. rewrite Hb, Hc. cbn [length syms_of map].
      cbv zeta.
      destruct (assign_ok Sr V [] fr st [0] ss m (VClos KMacro m ps body (macro_uses_caller body) [0] [Sr]) I
                  (conj Hnd (conj (or_introl eq_refl) Htop)) Cv HmV) as [st' [E [I' _]]].
      unfold assign in E. cbn [syms_of map] in E.
      destruct (find_ref [Sr] m) as [id|]; [|discriminate E]. injection E as <-. rewrite Ht in *.
      eexists. split; [reflexivity|]. exact I'.
    Qed.

    Lemma step_ok : forall Sy V P fr st env ss s rest,
      Inv ((Sy, V) :: P) st env ss -> env_ok fr env -> Pre Sy V P (s :: rest) ->
      R1 ((Sy, V) :: P) env (fx pynorm priv d (S f) (Sy :: syms_of P) fr st (s :: rest))
                            (sxi d Sr (S f) env ss (s :: rest)).
    Proof.
      intros Sy V P fr st env ss s rest I He Pr. destruct (Pre_cons _ _ _ _ _ Pr) as [Ps Prest].
      assert (Hcore : core3_stmt (nilb P) s = true) by (apply (pre_one _ _ _ _ Ps)).
      destruct s as [es|t b ei el|tg it te b el|x e|x a e|x kvs|x b|bs b|k b|m ps b|g args|ps g args b].
      - cbn [fx sxi]. apply R1_seq; [|intros st1 ss1 I1; apply IHf; auto]. apply case_out; auto.
      - cbn [fx sxi]. apply R1_seq; [|intros st1 ss1 I1; apply IHf; auto]. apply case_if; auto.
      - cbn [fx sxi]. apply R1_seq; [|intros st1 ss1 I1; apply IHf; auto]. apply (case_for2 Sy V P fr); auto.
      - cbn [fx sxi]. apply R1_seq; [|intros st1 ss1 I1; apply IHf; auto]. apply case_set; auto.
      - cbn [fx sxi]. apply R1_seq; [|intros st1 ss1 I1; apply IHf; auto]. apply case_seta; auto.
      - cbn [fx sxi]. apply R1_seq; [|intros st1 ss1 I1; apply IHf; auto]. apply case_nsnew; auto.
      - cbn [fx sxi]. apply R1_seq; [|intros st1 ss1 I1; apply IHf; auto]. apply (case_setb Sy V P fr); auto.
      - cbn [fx sxi]. apply R1_seq; [|intros st1 ss1 I1; apply IHf; auto]. apply (case_with Sy V P fr); auto.
      - cbn [fx sxi]. apply R1_seq; [|intros st1 ss1 I1; apply IHf; auto]. apply (case_filt Sy V P fr); auto.
      - cbn [fx sxi]. apply R1_seq; [|intros st1 ss1 I1; apply IHf; auto]. apply (case_macro Sy V P fr); auto.
      - cbn in Hcore. discriminate.
      - cbn in Hcore. discriminate.
    Qed.
  End Step.

  Lemma sim : forall fuel Sy V P fr st env ss l,
    Inv ((Sy, V) :: P) st env ss -> env_ok fr env -> Pre Sy V P l ->
    R1 ((Sy, V) :: P) env (fx pynorm priv d fuel (Sy :: syms_of P) fr st l) (sxi d Sr fuel env ss l).
  Proof.
    induction fuel as [|f IH]; intros Sy V P fr st env ss l I He Pr.
    - cbn. reflexivity.
    - destruct l as [|s rest]; [cbn; exists ss; auto|]. apply step_ok; auto.
  Qed.

  Lemma exported_agree : forall st ss env fs, Inv fs st env ss -> exported_items st = sexported priv ss.
  Proof.
    intros st ss env fs I. unfold exported_items, sexported. rewrite (i_exp _ _ _ _ I), (i_cvars _ _ _ _ I).
    pose proof (i_nd0 _ _ _ _ I) as Hnd. fold pub.
    assert (G : forall sc0 sc : scope, NoDup (keys sc0) -> (forall xv, In xv sc -> In xv sc0) ->
              map (fun x => (x, match dget N.eqb x sc0 with Some v => to_text true v | None => [] end)) (map fst (filter pub sc))
              = map (fun xv => (fst xv, to_text true (snd xv))) (filter pub sc)).
    { intros sc0 sc Hn. induction sc as [|[k w] r IH]; intros Hsub; cbn [filter map]; [reflexivity|].
      destruct (pub (k, w)); cbn [map fst snd].
      - rewrite (In_dget_nodup N.eqb N.eqb_eq k w sc0 Hn); [|apply Hsub; left; reflexivity].
        f_equal. apply IH. intros xv Hx. apply Hsub. right. exact Hx.
      - apply IH. intros xv Hx. apply Hsub. right. exact Hx. }
    apply G; auto.
  Qed.

  Definition srender_i (fuel : nat) (p : list stmt) : res observable :=
    do (st, o) <- sxi d Sr fuel [0] (mkS [[]] []) p; Ok (o, sexported priv st).

  Theorem core_render_agree : forall fuel p,
    core3_prog true p = true -> Sr = mk_frame [] [] p -> okocc p -> incl (onames_l p) V0 -> Forall gok (frames_of oid p) ->
    frender pynorm priv d fuel p = srender_i fuel p.
  Proof.
    intros fuel p Hc HSr Ho HV Hg. unfold frender, frender_st, srender_i.
    change (frame_root (ord_id) p) with (frame_root oid p).
    revert HSr. unfold frames_of in Hg. inversion Hg as [|? ? G1 G2]; subst. intros HSr.
    rewrite frame_root_eq in *. rewrite (root_ps_nil p Ho) in *.
    assert (I0 : Inv [] f_init [] (mkS [] [])).
    { constructor; cbn; auto; try (intros i []). constructor. }
    assert (Hz0 : In 0 (@nil nat) \/ (@nil nat = [] /\ s_scopes (mkS [] []) = [] /\ @nil (name * value) = [] /\
                                        f_cvars f_init = [] /\ f_exported f_init = [])) by (right; cbn; auto).
    assert (Hp0 : forall (x : name) (v : value), In x (onames_l p) -> dget N.eqb x (@nil (name * value)) = Some v ->
                    In x [] /\ rref f_init (length (@nil (symbols * list name)), x) = Some (Some v)) by (intros x v _ H; discriminate).
    assert (Hb0 : forall x : name, In x (onames_l p) -> In x [] -> dget N.eqb x (@nil (name * value)) <> None) by (intros x _ []).
    destruct (enter_ok [] f_init [] (mkS [] []) [] p [] I0 Hz0 (incl_nil_l _) HV Logic.I Hp0 Hb0 G1) as [st1 [E [_ [_ I1]]]].
    cbn [syms_of map] in E, I1. rewrite E. cbn [bind].
    unfold new_scope in I1; cbn [snd s_scopes s_heap length app] in I1.
    pose proof (sim fuel (mk_frame [] [] p) (onames_l p) [] (mkFl true false) st1 [0] (mkS [[]] []) p I1) as R.
    cbn [syms_of map] in R.
    assert (He : env_ok (mkFl true false) [0]).
    { unfold env_ok. cbn. split; [constructor; [intros []|constructor]|]. split; auto. }
    assert (Pp : Pre (mk_frame [] [] p) (onames_l p) [] p).
    { constructor; auto. - apply incl_refl. - apply (mk_frame_ok [] [] p). }
    specialize (R He Pp). unfold R1 in R.
    destruct (fx pynorm priv d fuel [mk_frame [] [] p] (mkFl true false) st1 p) as [[st2 o]|e].
    - destruct R as [ss2 [E2 I2]]. rewrite E2. cbn [bind]. rewrite (exported_agree st2 ss2 _ _ I2). reflexivity.
    - rewrite R. reflexivity.
  Qed.
End Sim.
