(* C32, second round — every resolve() executed by a completed render is a resolve load of a
   frame of the static traversal, for ALL programs (macro calls and call blocks included).
   Invariant: every closure stored anywhere in the state was created by a macro / call-block
   statement whose frames are in the static list ("good value"). *)
From Coq Require Import List NArith ZArith Bool Arith Lia.
Import ListNotations.
From JV Require Import Model.ScopeAst Model.ScopeIdTrack Model.ScopeFrameExec Model.ScopeMeta
  Proofs.ScopeDictProofs Proofs.ScopeSymProofs Proofs.ScopeMetaProofs.

Section Log2.
  Variable pynorm : name -> name.
  Variable priv : name -> bool.
  Variable d : list (name * value).
  Variable R : list name.

  Notation okc := (okch R).
  Definition okbody (chain : list symbols) (l : list stmt) : Prop := Forall okc (frames_list oid chain l).

  Fixpoint gv (v : value) : Prop :=
    match v with
    | VClos _ _ ps body _ _ csyms =>
        okc (frame_macro oid csyms ps body :: csyms) /\ okbody (frame_macro oid csyms ps body :: csyms) body
    | VList l => (fix all (l : list value) : Prop := match l with [] => True | x :: r => gv x /\ all r end) l
    | _ => True
    end.
  Definition gvs (l : list value) : Prop := Forall gv l.
  Lemma gv_list : forall l, gv (VList l) <-> gvs l.
  Proof.
    intros l. unfold gvs. cbn [gv]. induction l as [|x r IH]; [split; [constructor|trivial]|].
    split; [intros [H1 H2]; constructor; [exact H1|apply IH; exact H2]|intros H; inversion H; subst; split; [assumption|apply IH; assumption]].
  Qed.

  Hypothesis Hd : forall x v, dget N.eqb x d = Some v -> gv v.

  Definition gloc (l : locmap) : Prop := forall k v, In (k, Some v) l -> gv v.
  Definition gdict {K} (m : list (K * value)) : Prop := forall k v, In (k, v) m -> gv v.
  Record Good (st : fstate) : Prop := mkGood {
    g_loc : gloc (f_loc st);
    g_below : forall a, In a (f_below st) -> gloc (a_loc a);
    g_cvars : gdict (f_cvars st);
    g_heap : forall o, In o (f_heap st) -> gdict o;
    g_log : incl (f_log st) R
  }.

  Lemma gloc_dset : forall l k ov, gloc l -> (forall v, ov = Some v -> gv v) -> gloc (dset ident_eqb k ov l).
  Proof.
    intros l k ov H Hv k' v Hin. apply (In_dset ident_eqb) in Hin. destruct Hin as [E|Hin]; [injection E as _ E; apply Hv; auto|apply (H k' v Hin)].
  Qed.
  Lemma gdict_dset : forall (m : list (name * value)) k v, gdict m -> gv v -> gdict (dset N.eqb k v m).
  Proof.
    intros m k v H Hv k' v' Hin. apply (In_dset N.eqb) in Hin. destruct Hin as [E|Hin]; [injection E as _ <-; exact Hv|apply (H k' v' Hin)].
  Qed.
  Lemma gdict_get : forall (m : list (name * value)) k v, gdict m -> dget N.eqb k m = Some v -> gv v.
  Proof. intros m k v H E. apply (H k v). apply (dget_In N.eqb N.eqb_eq). exact E. Qed.

  Lemma Good_write : forall st id ov, Good st -> (forall v, ov = Some v -> gv v) -> Good (write_ref pynorm st id ov).
  Proof.
    intros st id ov G Hv. constructor; unfold write_ref, set_loc; cbn; try apply G. apply gloc_dset; [apply G|exact Hv].
  Qed.
  Lemma read_chain_good : forall below chain k v, (forall a, In a below -> gloc (a_loc a)) ->
    read_chain below chain k = Some (Some v) -> gv v.
  Proof.
    intros below chain k v H. induction chain as [|i r IH]; cbn [read_chain]; [discriminate|].
    destruct (dget ident_eqb k (a_loc (nth i below (mkAct [] [])))) as [ov|] eqn:E; [|exact IH].
    intros Eq. injection Eq as ->. apply (dget_In ident_eqb ident_eqb_eq) in E.
    destruct (nth_in_or_default i below (mkAct [] [])) as [Hin|Hd0].
    - apply (H _ Hin _ _ E).
    - rewrite Hd0 in E. destruct E.
  Qed.
  Lemma read_good : forall st id v, Good st -> read_ref pynorm st id = Some (Some v) -> gv v.
  Proof.
    intros st id v G. unfold read_ref. destruct (dget ident_eqb (key pynorm id) (f_loc st)) as [ov|] eqn:E.
    - intros Eq. injection Eq as ->. apply (g_loc _ G _ _ (dget_In ident_eqb ident_eqb_eq _ _ _ E)).
    - apply read_chain_good. apply G.
  Qed.
  Lemma resolve_good : forall st x v, Good st -> resolve d st x = Some v -> gv v.
  Proof.
    intros st x v G. unfold resolve. destruct (dget N.eqb x (f_cvars st)) eqn:E1.
    - intros Eq. injection Eq as <-. apply (gdict_get _ _ _ (g_cvars _ G) E1).
    - destruct (dget N.eqb x d) eqn:E2; [intros Eq; injection Eq as <-; apply (Hd _ _ E2)|].
      unfold globals. cbn. destruct (N.eqb x n_namespace); [intros Eq; injection Eq as <-; exact I|discriminate].
  Qed.
  Lemma flk_good : forall syms st x v, Good st -> flk pynorm syms st x = Ok v -> gv v.
  Proof.
    intros syms st x v G. unfold flk. destruct (find_ref syms x); [|discriminate].
    destruct (read_ref pynorm st i) as [[w|]|] eqn:E; try discriminate.
    - intros Eq. injection Eq as <-. apply (read_good st i w G E).
    - intros Eq. injection Eq as <-. exact I.
  Qed.
  Lemma ns_get_good : forall h id a, (forall o, In o h -> gdict o) -> gv (ns_get h id a).
  Proof.
    intros h id a H. unfold ns_get. destruct (dget N.eqb a (nth id h [])) eqn:E; [|exact I].
    destruct (nth_in_or_default id h []) as [Hin|Hd0].
    - apply (H _ Hin a v). apply (dget_In N.eqb N.eqb_eq). exact E.
    - rewrite Hd0 in E. discriminate.
  Qed.
  Lemma eval_good : forall syms st e v, Good st -> eval (flk pynorm syms st) (f_heap st) e = Ok v -> gv v.
  Proof.
    intros syms st e. induction e; intros v G E; cbn [eval] in E.
    - apply (flk_good syms st x v G E).
    - injection E as <-. exact I.
    - injection E as <-. exact I.
    - destruct (eval (flk pynorm syms st) (f_heap st) e1); cbn in E; [|discriminate].
      destruct (eval (flk pynorm syms st) (f_heap st) e2); cbn in E; [|discriminate]. injection E as <-. exact I.
    - destruct (eval (flk pynorm syms st) (f_heap st) e1) as [a|] eqn:E1; cbn in E; [|discriminate].
      destruct (eval (flk pynorm syms st) (f_heap st) e2) as [b|] eqn:E2; cbn in E; [|discriminate].
      pose proof (IHe1 a G eq_refl) as Ga. pose proof (IHe2 b G eq_refl) as Gb.
      destruct a, b; cbn in E; try discriminate; injection E as <-; try exact I.
      apply gv_list. apply gv_list in Ga. apply gv_list in Gb. apply Forall_app. split; assumption.
    - destruct (flk pynorm syms st x) as [w|] eqn:Ew; cbn in E; [|discriminate].
      destruct w; cbn in E; try discriminate; try (injection E as <-; exact I).
      + injection E as <-. apply ns_get_good. apply G.
      + destruct (N.eqb a a_index); injection E as <-; exact I.
  Qed.
  Lemma eval_list_good : forall syms st es vs, Good st -> eval_list (flk pynorm syms st) (f_heap st) es = Ok vs -> gvs vs.
  Proof.
    intros syms st es. induction es as [|e r IH]; intros vs G E; cbn [eval_list] in E; [injection E as <-; constructor|].
    destruct (eval (flk pynorm syms st) (f_heap st) e) as [v|] eqn:Ev; cbn in E; [|discriminate].
    destruct (eval_list (flk pynorm syms st) (f_heap st) r) as [ws|] eqn:Er; cbn in E; [|discriminate]. injection E as <-.
    constructor; [apply (eval_good syms st e v G Ev)|apply (IH ws G eq_refl)].
  Qed.
  Lemma eval_kvs_good : forall syms st kvs vs, Good st -> eval_kvs (flk pynorm syms st) (f_heap st) kvs = Ok vs -> gdict vs.
  Proof.
    intros syms st kvs. induction kvs as [|[a e] r IH]; intros vs G E; cbn [eval_kvs] in E; [injection E as <-; intros k v []|].
    destruct (eval (flk pynorm syms st) (f_heap st) e) as [v|] eqn:Ev; cbn in E; [|discriminate].
    destruct (eval_kvs (flk pynorm syms st) (f_heap st) r) as [ws|] eqn:Er; cbn in E; [|discriminate]. injection E as <-.
    intros k w [Eq|Hin]; [injection Eq as _ <-; apply (eval_good syms st e v G Ev)|apply (IH ws G eq_refl k w Hin)].
  Qed.
  Lemma iter_items_good : forall v l, gv v -> iter_items v = Ok l -> gvs l.
  Proof.
    intros v l G E. destruct v; cbn in E; try discriminate; injection E as <-.
    - apply Forall_forall. intros x Hx. apply in_map_iff in Hx. destruct Hx as [c [<- _]]. exact I.
    - apply gv_list. exact G.
    - constructor.
  Qed.

  Lemma Good_enter_loads : forall loads st st', Good st ->
    incl (flat_map (fun il => match snd il with LResolve x => [x] | _ => [] end) loads) R ->
    enter_loads pynorm d st loads = Ok st' -> Good st'.
  Proof.
    induction loads as [|[tid l] r IH]; intros st st' G HR E; cbn [enter_loads] in E.
    - injection E as <-. exact G.
    - cbn [flat_map snd] in HR. destruct l as [|x|o|].
      + apply (IH _ _ G); auto.
      + apply (IH (write_ref pynorm (add_log st x) tid (resolve d st x)) st'); [| |exact E].
        * apply Good_write.
          -- constructor; unfold add_log; cbn; try apply G. intros y [<-|Hy]; [apply HR; left; reflexivity|apply (g_log _ G y Hy)].
          -- intros v Ev. apply (resolve_good st x v G Ev).
        * intros y Hy. apply HR. apply in_or_app. right. exact Hy.
      + destruct (read_ref pynorm st o) as [ov|] eqn:Eo; [|discriminate].
        apply (IH (write_ref pynorm st tid ov) st'); [|exact HR|exact E].
        apply Good_write; [exact G|]. intros v ->. apply (read_good st o v G Eo).
      + apply (IH (write_ref pynorm st tid None) st'); [|exact HR|exact E]. apply Good_write; [exact G|intros v Hv; discriminate].
  Qed.
  Lemma Good_enter : forall st st' S P, Good st -> okc (S :: P) -> enter_frame pynorm d st S = Ok st' -> Good st'.
  Proof. intros st st' S P G H E. apply (Good_enter_loads (s_loads S) st st' G H E). Qed.
  Lemma Good_leave : forall st S, Good st -> Good (leave_frame pynorm st S).
  Proof.
    intros st S. unfold leave_frame. generalize (s_loads S). intros l. revert st.
    induction l as [|a r IH]; intros st G; cbn [fold_left]; [exact G|]. apply IH. apply Good_write; [exact G|intros v Hv; discriminate].
  Qed.
  Lemma Good_assign : forall syms fr st x v st', Good st -> gv v -> assign pynorm priv syms fr st x v = Ok st' -> Good st'.
  Proof.
    intros syms fr st x v st' G Hv E. unfold assign in E. destruct (find_ref syms x); [|discriminate]. injection E as <-.
    assert (G1 : Good (write_ref pynorm st i (Some v))) by (apply Good_write; [exact G|intros w Ew; injection Ew as <-; exact Hv]).
    destruct (toplevel fr); [|exact G1]. constructor; unfold set_cvar; cbn [f_loc f_below f_cvars f_heap f_log].
    - apply G1.
    - apply G1.
    - apply gdict_dset; [apply G1|exact Hv].
    - apply G1.
    - apply G1.
  Qed.
  Lemma Good_heap_set : forall st nid a v, Good st -> gv v -> Good (set_heap st (ns_set (f_heap st) nid a v)).
  Proof.
    intros st nid a v G Hv. constructor; unfold set_heap; cbn; try apply G.
    assert (H : forall h n, (forall o, In o h -> gdict o) -> forall o, In o (ns_set h n a v) -> gdict o).
    { induction h as [|o r IH]; intros n Hh o' Hin; [destruct n; contradiction|].
      destruct n as [|n]; cbn [ns_set] in Hin; destruct Hin as [<-|Hin].
      - apply gdict_dset; [apply Hh; left; reflexivity|exact Hv].
      - apply Hh. right. exact Hin.
      - apply Hh. left. reflexivity.
      - apply (IH n); [intros o2 H2; apply Hh; right; exact H2|exact Hin]. }
    apply H. apply G.
  Qed.
  Lemma Good_heap_app : forall st o, Good st -> gdict o -> Good (set_heap st (f_heap st ++ [o])).
  Proof.
    intros st o G Ho. constructor; unfold set_heap; cbn; try apply G.
    intros o' Hin. apply in_app_or in Hin. destruct Hin as [Hin|[<-|[]]]; [apply (g_heap _ G o' Hin)|exact Ho].
  Qed.
  Lemma Good_push : forall st l chain, Good st -> gloc l -> Good (push_act st l chain).
  Proof.
    intros st l chain G Hl. constructor; unfold push_act; cbn; try apply G; [exact Hl|].
    intros a Hin. apply in_app_or in Hin. destruct Hin as [Hin|[<-|[]]]; [apply (g_below _ G a Hin)|cbn; apply G].
  Qed.
  Lemma Good_pop : forall caller st, Good caller -> Good st -> Good (pop_act caller st).
  Proof.
    intros caller st Gc G. constructor; unfold pop_act; cbn [f_loc f_below f_cvars f_heap f_log].
    - apply Gc. - apply Gc. - apply G. - apply G. - apply G.
  Qed.
  Lemma Good_bind_params : forall lvl ps args st, Good st -> gvs args -> Good (bind_params pynorm lvl st ps args).
  Proof.
    intros lvl ps. induction ps as [|p r IH]; intros args st G Ha; cbn [bind_params]; [exact G|].
    destruct args as [|a ar].
    - apply IH; [|constructor]. apply Good_write; [exact G|]. intros v Ev. injection Ev as <-. exact I.
    - inversion Ha; subst. apply IH; [|assumption]. apply Good_write; [exact G|]. intros v Ev. injection Ev as <-. assumption.
  Qed.

  Ltac ib H x Ex :=
    match type of H with
    | bind ?X _ = Ok _ => destruct X as [x|] eqn:Ex; cbn [bind] in H; [|discriminate]
    end.

  (* the model's local [call], for fuel f *)
  Definition fcall (f : nat) (st : fstate) (v : value) (args : list value) (caller : option value) : res (fstate * value) :=
    match v with
    | VClos _ _ ps body uc cap csyms =>
        if Nat.ltb (length ps) (length args) then Err ETypeError
        else if (match caller with Some _ => negb uc | None => false end) then Err ETypeError
        else
          let ms := frame_macro ord_id csyms ps body in
          let st1 := push_act st [] cap in
          let st1 := bind_params pynorm (s_level ms) st1 ps args in
          let st1 := if uc then write_ref pynorm st1 (s_level ms, n_caller)
                                (Some (match caller with Some c => c | None => VUndef end))
                     else st1 in
          do st2 <- enter_frame pynorm d st1 ms;
          do (st3, out) <- fx pynorm priv d f (ms :: csyms) fl_inner st2 body;
          Ok (pop_act st st3, VStr out)
    | VNsCtor => match args with
                 | [] => Ok (set_heap st (f_heap st ++ [[]]), VNs (length (f_heap st)))
                 | _ => Err ETypeError
                 end
    | VUndef => Err EUndefinedError
    | _ => Err ETypeError
    end.

  Lemma good_fx : forall fuel syms fr st l st' o,
    okbody syms l -> Good st -> fx pynorm priv d fuel syms fr st l = Ok (st', o) -> Good st'.
  Proof.
    induction fuel as [|f IH]; intros syms fr st l st' o HF G E; [cbn in E; discriminate|].
    assert (Hcall : forall st0 c vs caller st2 r, Good st0 -> gv c -> gvs vs -> (forall cl, caller = Some cl -> gv cl) ->
              fcall f st0 c vs caller = Ok (st2, r) -> Good st2).
    { intros st0 c vs caller st2 r G0 Gc Gvs Gcl Ec. unfold fcall in Ec. destruct c; try discriminate.
      - destruct vs; [|discriminate]. injection Ec as <- _. apply Good_heap_app; [exact G0|]. intros k0 v0 [].
      - destruct (Nat.ltb (length params) (length vs)); [discriminate|].
        destruct (match caller with Some _ => negb uses_caller | None => false end); [discriminate|].
        cbv zeta in Ec. cbn [gv] in Gc. destruct Gc as [Gc1 Gc2].
        ib Ec st3 E3. ib Ec r4 E4. destruct r4 as [st4 out]. injection Ec as <- _.
        apply Good_pop; [exact G0|]. apply (IH _ _ _ _ _ _ Gc2) with (2 := E4).
        apply (Good_enter _ _ _ csyms) with (3 := E3); [|exact Gc1].
        assert (Gb : Good (bind_params pynorm (s_level (frame_macro ord_id csyms params body)) (push_act st0 [] cap) params vs)).
        { apply Good_bind_params; [|exact Gvs]. apply Good_push; [exact G0|]. intros k0 v0 []. }
        destruct uses_caller; [|exact Gb]. apply Good_write; [exact Gb|]. intros v Ev. injection Ev as <-.
        destruct caller as [cl|]; [apply Gcl; reflexivity|exact I]. }
    destruct l as [|s rest]; [cbn in E; injection E as <- _; exact G|].
    unfold okbody in HF. cbn [frames_list] in HF. apply Forall_app in HF. destruct HF as [HFs HFr].
    cbn [fx] in E.
    ib E r1 E1. destruct r1 as [st1 o1]. ib E r2 Er. destruct r2 as [st2 o2]. injection E as <- _.
    apply (IH syms fr st1 rest st2 o2 HFr); [|exact Er].
    clear Er HFr st2 o2 rest.
    destruct s as [es|t b ei el|tg it te b el|x e|x a e|x kvs|x b|bs b|k b|m ps b|g args|ps g args b].
    - (* out *) ib E1 ov Eo. injection E1 as <- _. exact G.
    - (* if *)
      cbn [frames_stmt] in HFs. rewrite !frames_go' in HFs. apply Forall_app in HFs. destruct HFs as [F1 HFs]. apply Forall_app in HFs. destruct HFs as [F2 F3].
      ib E1 v Ev. destruct (truthy v).
      + apply (IH _ _ _ _ _ _ F1 G E1).
      + revert F2 E1. induction ei as [|s r IHr]; intros F2 E1.
        * apply (IH _ _ _ _ _ _ F3 G E1).
        * cbn [frames_list] in F2. apply Forall_app in F2. destruct F2 as [F2a F2b].
          destruct s; try (apply (IHr F2b E1)).
          ib E1 v2 Ev2. destruct (truthy v2); [|apply (IHr F2b E1)].
          cbn [frames_stmt] in F2a. rewrite !frames_go' in F2a. apply Forall_app in F2a. destruct F2a as [F2a _].
          apply (IH _ _ _ _ _ _ F2a G E1).
    - (* for *)
      cbn [frames_stmt] in HFs. rewrite !frames_go' in HFs.
      apply Forall_app in HFs. destruct HFs as [Ft HFs]. apply Forall_app in HFs. destruct HFs as [Fb HFs].
      inversion Fb as [|? ? Fb1 _]; subst. apply Forall_app in HFs. destruct HFs as [Fbb Fe].
      ib E1 v Ev. pose proof (eval_good syms st it v G Ev) as Gv.
      ib E1 tact Et. destruct tact as [stt tloc].
      assert (HLt : Good stt /\ gloc tloc).
      { destruct te as [t|]; [|injection Et as <- <-; split; [exact G|intros k w []]].
        ib Et stx Ex. injection Et as <- <-.
        inversion Ft as [|? ? Ft1 _]; subst.
        assert (Gx : Good stx).
        { apply (Good_enter _ _ _ syms) with (3 := Ex); [|exact Ft1]. apply Good_push; [exact G|intros k w []]. }
        split; [apply Good_pop; [exact G|exact Gx]|apply Gx]. }
      destruct HLt as [HLt Htl].
      ib E1 items Ei. pose proof (iter_items_good v items Gv Ei) as Gi.
      ib E1 r3 E3. destruct r3 as [[st3 out] n].
      set (st0 := if extended_loop b then write_ref pynorm stt (S match syms with [] => 0 | p :: _ => s_level p end, n_loop) None else stt) in *.
      assert (HL0 : Good st0) by (unfold st0; destruct (extended_loop b); [apply Good_write; [exact HLt|intros w Hw; discriminate]|exact HLt]).
      assert (HL3 : Good st3).
      { clearbody st0. clear E1 Et HLt Ei. revert E3. generalize 0%N as idx. generalize (@nil N) as out0. revert st0 tloc HL0 Htl.
        induction items as [|item more IHm]; intros st0 tloc HL0 Htl out0 idx E3.
        - injection E3 as <- _ _. exact HL0.
        - inversion Gi as [|? ? Gitem Gmore]; subst.
          ib E3 pass Ep. destruct pass as [[stp tloc'] ok].
          assert (HLp : Good stp /\ gloc tloc').
          { destruct te as [t|]; [|injection Ep as <- <- _; split; [exact HL0|exact Htl]].
            ib Ep tv Etv. injection Ep as <- <- _.
            assert (Gs : Good (write_ref pynorm (push_act st0 tloc (cur_id st0 :: f_chain st0)) (S match syms with [] => 0 | p :: _ => s_level p end, tg) (Some item))).
            { apply Good_write; [apply Good_push; [exact HL0|exact Htl]|]. intros w Ew. injection Ew as <-. exact Gitem. }
            split; [apply Good_pop; [exact HL0|exact Gs]|apply Gs]. }
          destruct HLp as [HLp Htl'].
          destruct ok; [|apply (IHm Gmore _ _ HLp Htl' _ _ E3)].
          ib E3 ste Ee. ib E3 rb Eb. destruct rb as [stb ob].
          apply (IHm Gmore stb tloc') with (out0 := out0 ++ ob) (idx := (idx + 1)%N); [|exact Htl'|exact E3].
          apply (IH _ _ _ _ _ _ Fbb) with (2 := Eb).
          apply (Good_enter _ _ _ syms) with (3 := Ee); [|exact Fb1].
          assert (G1 : Good (write_ref pynorm stp (S match syms with [] => 0 | p :: _ => s_level p end, tg) (Some item))).
          { apply Good_write; [exact HLp|]. intros w Ew. injection Ew as <-. exact Gitem. }
          destruct (extended_loop b); [|exact G1]. apply Good_write; [exact G1|]. intros w Ew. injection Ew as <-. exact I. }
      destruct el as [|e0 el']; [injection E1 as <- _; apply Good_leave; exact HL3|].
      destruct (N.eqb n 0); [|injection E1 as <- _; apply Good_leave; exact HL3].
      ib E1 st4 E4. ib E1 r5 E5. destruct r5 as [st5 o5]. injection E1 as <- _. apply Good_leave.
      inversion Fe as [|? ? Fe1 Fe2]; subst.
      change (Forall okc (frames_list oid (frame_for_else oid syms (e0 :: el') :: syms) (e0 :: el'))) in Fe2.
      apply (IH _ _ _ _ _ _ Fe2) with (2 := E5).
      apply (Good_enter _ _ _ syms) with (3 := E4); [|exact Fe1]. apply Good_leave. exact HL3.
    - (* set *) ib E1 v Ev. ib E1 sta Ea. injection E1 as <- _. apply (Good_assign _ _ _ _ _ _ G (eval_good syms st e v G Ev) Ea).
    - (* set attr *)
      destruct (find_ref syms x) as [i|]; [|discriminate]. destruct (read_ref pynorm st i) as [[[]|]|]; try discriminate.
      ib E1 v Ev. injection E1 as <- _. apply Good_heap_set; [exact G|apply (eval_good syms st e v G Ev)].
    - (* namespace *)
      ib E1 c Ec. ib E1 vs Evs. destruct c; try discriminate. ib E1 sta Ea. injection E1 as <- _.
      apply (Good_assign _ _ _ _ _ _ (Good_heap_app st vs G (eval_kvs_good syms st kvs vs G Evs)) (I : gv (VNs (length (f_heap st)))) Ea).
    - (* block set *)
      cbn [frames_stmt] in HFs. rewrite frames_go' in HFs. inversion HFs as [|? ? F1 F2]; subst.
      ib E1 ste Ee. ib E1 r3 E3. destruct r3 as [st3 o3]. ib E1 sta Ea. injection E1 as <- _. apply Good_leave.
      apply (Good_assign _ _ _ _ _ _ (IH _ _ _ _ _ _ F2 (Good_enter _ _ _ syms G F1 Ee) E3) (I : gv (VStr o3)) Ea).
    - (* with *)
      cbn [frames_stmt] in HFs. rewrite frames_go' in HFs. inversion HFs as [|? ? F1 F2]; subst.
      ib E1 ste Ee. ib E1 stb Eb. ib E1 r4 E4. destruct r4 as [st4 o4]. injection E1 as <- _. apply Good_leave.
      apply (IH _ _ _ _ _ _ F2) with (2 := E4).
      assert (HLf : Good ste) by (apply (Good_enter _ _ _ syms G F1 Ee)).
      clear Ee E4 F1 F2 HFs. revert ste stb Eb HLf. generalize (frame_with ord_id syms (map fst bs) b) as ws. intros ws.
      induction bs as [|[y e] r IHb]; intros ste stb Eb HLf.
      + injection Eb as <-. exact HLf.
      + ib Eb v Ev. destruct (find_ref (ws :: syms) y); [|discriminate].
        apply (IHb _ _ Eb). apply Good_write; [exact HLf|]. intros w Ew. injection Ew as <-. apply (eval_good syms ste e v HLf Ev).
    - (* filter *)
      cbn [frames_stmt] in HFs. rewrite frames_go' in HFs. inversion HFs as [|? ? F1 F2]; subst.
      ib E1 ste Ee. ib E1 r3 E3. destruct r3 as [st3 o3]. injection E1 as <- _. apply Good_leave.
      apply (IH _ _ _ _ _ _ F2 (Good_enter _ _ _ syms G F1 Ee) E3).
    - (* macro definition *)
      cbn [frames_stmt] in HFs. rewrite frames_go' in HFs. inversion HFs as [|? ? F1 F2]; subst.
      destruct (find_ref syms m); [|discriminate]. injection E1 as <- _.
      assert (Gc : gv (VClos KMacro m ps b (macro_uses_caller b) (cur_id st :: f_chain st) syms)) by (cbn [gv]; split; [exact F1|exact F2]).
      apply Good_write; [|intros w Ew; injection Ew as <-; exact Gc].
      destruct (toplevel fr); [|exact G]. constructor; unfold set_cvar; cbn [f_loc f_below f_cvars f_heap f_log].
      + apply G. + apply G. + apply gdict_dset; [apply G|exact Gc]. + apply G. + apply G.
    - (* macro call *)
      ib E1 c Ec. ib E1 vs Evs. ib E1 rc Erc. destruct rc as [stc r]. injection E1 as <- _.
      apply (Hcall st c vs None stc r G (flk_good syms st g c G Ec) (eval_list_good syms st args vs G Evs)); [intros cl Hc; discriminate|exact Erc].
    - (* call block *)
      cbn [frames_stmt] in HFs. rewrite frames_go' in HFs. inversion HFs as [|? ? F1 F2]; subst.
      ib E1 c Ec. ib E1 vs Evs. ib E1 rc Erc. destruct rc as [stc r]. injection E1 as <- _.
      apply (Hcall st c vs (Some (VClos KCaller 0%N ps b (macro_uses_caller b) (cur_id st :: f_chain st) syms)) stc r G
               (flk_good syms st g c G Ec) (eval_list_good syms st args vs G Evs)); [|exact Erc].
      intros cl Hc. injection Hc as <-. cbn [gv]. split; [exact F1|exact F2].
  Qed.
End Log2.

Theorem resolves_subset_all_thm : forall pynorm priv d fuel p st o,
  (forall x v, dget N.eqb x d = Some v -> gv (static_resolves p) v) ->
  frender_st pynorm priv d fuel p = Ok (st, o) ->
  forall x, In x (f_log st) -> In x (static_resolves p).
Proof.
  intros pynorm priv d fuel p st o Hd E. unfold frender_st in E.
  destruct (enter_frame pynorm d f_init (frame_root ord_id p)) as [st1|] eqn:E1; cbn [bind] in E; [|discriminate].
  assert (HF : Forall (okch (static_resolves p)) (frames_of oid p)).
  { apply Forall_forall. intros ch Hch. apply static_in. exact Hch. }
  unfold frames_of in HF. inversion HF as [|? ? F1 F2]; subst.
  assert (G0 : Good (static_resolves p) f_init).
  { constructor; cbn.
    - intros k v [].
    - intros a [].
    - intros k v [].
    - intros o0 [].
    - intros x []. }
  pose proof (Good_enter pynorm d (static_resolves p) Hd f_init st1 (frame_root oid p) [] G0 F1 E1) as G1.
  apply (g_log _ _ (good_fx pynorm priv d (static_resolves p) Hd fuel [frame_root oid p] (mkFl true false) st1 p st o F2 G1 E)).
Qed.

(* render arguments without macro objects are good for every R *)
Fixpoint cfree (v : value) : Prop :=
  match v with
  | VClos _ _ _ _ _ _ _ => False
  | VList l => (fix all (l : list value) : Prop := match l with [] => True | x :: r => cfree x /\ all r end) l
  | _ => True
  end.
Lemma cfree_gv : forall R v, cfree v -> gv R v.
Proof.
  intros R. fix IH 1. intros v H. destruct v; cbn [gv cfree] in *; try exact I; try contradiction.
  induction l as [|x r IHr]; [exact I|]. destruct H as [H1 H2]. split; [apply IH; exact H1|apply IHr; exact H2].
Qed.
Theorem resolves_subset_full_thm : forall pynorm priv d globals fuel p st o,
  (forall x v, dget N.eqb x d = Some v -> cfree v) ->
  frender_st pynorm priv d fuel p = Ok (st, o) ->
  forall x, In x (f_log st) -> In x (meta_undeclared globals p) \/ In x globals.
Proof.
  intros pynorm priv d globals fuel p st o Hd E x Hx. apply undeclared_cover_thm.
  apply (resolves_subset_all_thm pynorm priv d fuel p st o); auto.
  intros y v Hy. apply cfree_gv. apply (Hd y v Hy).
Qed.
