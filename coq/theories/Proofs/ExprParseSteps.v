(* generated from Model/ExprParser.v: one unfolding equation per parser function *)
From Coq Require Import List NArith ZArith Bool.
Import ListNotations.
From JV Require Import Model.ExprAst Model.ExprParser.

Lemma step_p_cond K ts :
  p_cond (kit_step K) ts =
    let* (e1, r) := p_or K ts in p_cond_loop K e1 r.
Proof. reflexivity. Qed.

Lemma step_p_cond_loop K e1 ts :
  p_cond_loop (kit_step K) e1 ts =
    if is_kw k_if ts then
      let* (e2, r2) := p_or K (tl ts) in
      if is_kw k_else r2 then
        let* (e3, r3) := p_cond K (tl r2) in p_cond_loop K (ECond e2 e1 (Some e3)) r3
      else p_cond_loop K (ECond e2 e1 None) r2
    else ROk e1 ts.
Proof. reflexivity. Qed.

Lemma step_p_or K ts :
  p_or (kit_step K) ts =
    let* (l, r) := p_and K ts in p_or_loop K l r.
Proof. reflexivity. Qed.

Lemma step_p_or_loop K l ts :
  p_or_loop (kit_step K) l ts =
    if is_kw k_or ts then let* (x, r) := p_and K (tl ts) in p_or_loop K (EOr l x) r
    else ROk l ts.
Proof. reflexivity. Qed.

Lemma step_p_and K ts :
  p_and (kit_step K) ts =
    let* (l, r) := p_not K ts in p_and_loop K l r.
Proof. reflexivity. Qed.

Lemma step_p_and_loop K l ts :
  p_and_loop (kit_step K) l ts =
    if is_kw k_and ts then let* (x, r) := p_not K (tl ts) in p_and_loop K (EAnd l x) r
    else ROk l ts.
Proof. reflexivity. Qed.

Lemma step_p_not K ts :
  p_not (kit_step K) ts =
    if is_kw k_not ts then let* (x, r) := p_not K (tl ts) in ROk (ENot x) r
    else p_compare K ts.
Proof. reflexivity. Qed.

Lemma step_p_compare K ts :
  p_compare (kit_step K) ts =
    let* (e, r) := p_math1 K ts in
    let* (ops, r2) := p_compare_loop K [] r in
    match ops with [] => ROk e r2 | _ => ROk (ECompare e ops) r2 end.
Proof. reflexivity. Qed.

Lemma step_p_compare_loop K acc ts :
  p_compare_loop (kit_step K) acc ts =
    match ts with
    | KOp o :: r =>
        match cmp_of_tok o with
        | Some c => let* (x, r2) := p_math1 K r in p_compare_loop K (acc ++ [(c, x)]) r2
        | None => ROk acc ts
        end
    | KName s :: r =>
        if str_eqb s k_in then let* (x, r2) := p_math1 K r in p_compare_loop K (acc ++ [(CIn, x)]) r2
        else if str_eqb s k_not && is_kw k_in r then
          let* (x, r2) := p_math1 K (tl r) in p_compare_loop K (acc ++ [(CNotIn, x)]) r2
        else ROk acc ts
    | _ => ROk acc ts
    end.
Proof. reflexivity. Qed.

Lemma step_p_math1 K ts :
  p_math1 (kit_step K) ts =
    let* (l, r) := p_concat K ts in p_math1_loop K l r.
Proof. reflexivity. Qed.

Lemma step_p_math1_loop K l ts :
  p_math1_loop (kit_step K) l ts =
    match ts with
    | KOp o :: r =>
        match math1_of_tok o with
        | Some b => let* (x, r2) := p_concat K r in p_math1_loop K (EBin b l x) r2
        | None => ROk l ts
        end
    | _ => ROk l ts
    end.
Proof. reflexivity. Qed.

Lemma step_p_concat K ts :
  p_concat (kit_step K) ts =
    let* (a, r) := p_math2 K ts in
    let* (args, r2) := p_concat_loop K [a] r in
    match args with [x] => ROk x r2 | _ => ROk (EConcat args) r2 end.
Proof. reflexivity. Qed.

Lemma step_p_concat_loop K acc ts :
  p_concat_loop (kit_step K) acc ts =
    if is_op OTilde ts then let* (x, r) := p_math2 K (tl ts) in p_concat_loop K (acc ++ [x]) r
    else ROk acc ts.
Proof. reflexivity. Qed.

Lemma step_p_math2 K ts :
  p_math2 (kit_step K) ts =
    let* (l, r) := p_pow K ts in p_math2_loop K l r.
Proof. reflexivity. Qed.

Lemma step_p_math2_loop K l ts :
  p_math2_loop (kit_step K) l ts =
    match ts with
    | KOp o :: r =>
        match math2_of_tok o with
        | Some b => let* (x, r2) := p_pow K r in p_math2_loop K (EBin b l x) r2
        | None => ROk l ts
        end
    | _ => ROk l ts
    end.
Proof. reflexivity. Qed.

Lemma step_p_pow K ts :
  p_pow (kit_step K) ts =
    let* (l, r) := p_unary K true ts in p_pow_loop K l r.
Proof. reflexivity. Qed.

Lemma step_p_pow_loop K l ts :
  p_pow_loop (kit_step K) l ts =
    if is_op OPow ts then let* (x, r) := p_unary K true (tl ts) in p_pow_loop K (EBin Pow l x) r
    else ROk l ts.
Proof. reflexivity. Qed.

Lemma step_p_unary K with_filter ts :
  p_unary (kit_step K) with_filter ts =
    let* (node, r) :=
      (if is_op OSub ts then let* (x, r) := p_unary K false (tl ts) in ROk (EUn Neg x) r
       else if is_op OAdd ts then let* (x, r) := p_unary K false (tl ts) in ROk (EUn Pos x) r
       else p_primary K ts) in
    let* (node2, r2) := p_postfix K node r in
    if with_filter then p_filter_expr K node2 r2 else ROk node2 r2.
Proof. reflexivity. Qed.

Lemma step_p_primary K ts :
  p_primary (kit_step K) ts =
    match ts with
    | KName s :: r =>
        if str_eqb s k_true || str_eqb s k_True then ROk (EConst (VBool true)) r
        else if str_eqb s k_false || str_eqb s k_False then ROk (EConst (VBool false)) r
        else if str_eqb s k_none || str_eqb s k_None then ROk (EConst VNone) r
        else ROk (EName s) r
    | KStr s :: r => p_strings K s r
    | KInt z :: r => ROk (EConst (VInt z)) r
    | KFloat :: _ => RUnsup
    | KOp OLParen :: r =>
        let* (e, r2) := p_tuple K r in
        let* (_u, r3) := expect ORParen r2 in ROk e r3
    | KOp OLBracket :: r => let* (es, r2) := p_items K ORBracket [] r in ROk (EList es) r2
    | KOp OLBrace :: r => let* (kvs, r2) := p_pairs K [] r in ROk (EDict kvs) r2
    | _ => RErr ts
    end.
Proof. reflexivity. Qed.

Lemma step_p_strings K acc ts :
  p_strings (kit_step K) acc ts =
    match ts with
    | KStr s :: r => p_strings K (acc ++ s) r
    | _ => ROk (EConst (VStr acc)) ts
    end.
Proof. reflexivity. Qed.

Lemma step_p_tuple K ts :
  p_tuple (kit_step K) ts =
    if tuple_end ts then ROk (ETuple []) ts
    else let* (e, r) := p_cond K ts in p_tuple_rest K [e] false r.
Proof. reflexivity. Qed.

Lemma step_p_tuple_rest K acc is_tuple ts :
  p_tuple_rest (kit_step K) acc is_tuple ts =
    if is_op OComma ts then
      let r := tl ts in
      if tuple_end r then ROk (ETuple acc) r
      else let* (e, r2) := p_cond K r in p_tuple_rest K (acc ++ [e]) true r2
    else if is_tuple then ROk (ETuple acc) ts
    else match acc with [e] => ROk e ts | _ => ROk (ETuple acc) ts end.
Proof. reflexivity. Qed.

Lemma step_p_items K close acc ts :
  p_items (kit_step K) close acc ts =
    if is_op close ts then ROk acc (tl ts)
    else
      let* (_u, r) := (match acc with [] => ROk tt ts | _ => expect OComma ts end) in
      if is_op close r then ROk acc (tl r)
      else let* (e, r2) := p_cond K r in p_items K close (acc ++ [e]) r2.
Proof. reflexivity. Qed.

Lemma step_p_pairs K acc ts :
  p_pairs (kit_step K) acc ts =
    if is_op ORBrace ts then ROk acc (tl ts)
    else
      let* (_u, r) := (match acc with [] => ROk tt ts | _ => expect OComma ts end) in
      if is_op ORBrace r then ROk acc (tl r)
      else
        let* (k, r2) := p_cond K r in
        let* (_u2, r3) := expect OColon r2 in
        let* (v, r4) := p_cond K r3 in p_pairs K (acc ++ [(k, v)]) r4.
Proof. reflexivity. Qed.

Lemma step_p_postfix K node ts :
  p_postfix (kit_step K) node ts =
    if is_op ODot ts || is_op OLBracket ts then
      let* (x, r) := p_subscript K node ts in p_postfix K x r
    else if is_op OLParen ts then
      let* (x, r) := p_call K node ts in p_postfix K x r
    else ROk node ts.
Proof. reflexivity. Qed.

Lemma step_p_filter_expr K node ts :
  p_filter_expr (kit_step K) node ts =
    if is_op OPipe ts then let* (x, r) := p_filter K node ts in p_filter_expr K x r
    else if is_kw k_is ts then let* (x, r) := p_test K node (tl ts) in p_filter_expr K x r
    else if is_op OLParen ts then let* (x, r) := p_call K node ts in p_filter_expr K x r
    else ROk node ts.
Proof. reflexivity. Qed.

Lemma step_p_subscript K node ts :
  p_subscript (kit_step K) node ts =
    match ts with
    | KOp ODot :: KName s :: r => ROk (EGetattr node s) r
    | KOp ODot :: KInt z :: r => ROk (EGetitem node (EConst (VInt z))) r
    | KOp ODot :: _ => RErr (tl ts)
    | KOp OLBracket :: r =>
        let* (args, r2) := p_subs K [] r in
        match args with
        | [SubE e] => ROk (EGetitem node e) r2
        | [SubSlice lo hi st] => ROk (ESlice node lo hi st) r2
        | _ =>
            match (fix all (l : list sub) : option (list expr) :=
                     match l with
                     | [] => Some []
                     | SubE e :: l' => match all l' with Some es => Some (e :: es) | None => None end
                     | SubSlice _ _ _ :: _ => None
                     end) args with
            | Some es => ROk (EGetitem node (ETuple es)) r2
            | None => RUnsup
            end
        end
    | _ => RErr ts
    end.
Proof. reflexivity. Qed.

Lemma step_p_subs K acc ts :
  p_subs (kit_step K) acc ts =
    if is_op ORBracket ts then ROk acc (tl ts)
    else
      let* (_u, r) := (match acc with [] => ROk tt ts | _ => expect OComma ts end) in
      let* (s, r2) := p_subscribed K r in p_subs K (acc ++ [s]) r2.
Proof. reflexivity. Qed.

Lemma step_p_subscribed K ts :
  p_subscribed (kit_step K) ts =
    let after_first := fun (lo : option expr) (r : list tok) =>
      (* r: just after the first colon *)
      let* (hi, r2) :=
        (if is_op OColon r then ROk None r
         else if is_op ORBracket r || is_op OComma r then ROk None r
         else let* (e, r') := p_cond K r in ROk (Some e) r') in
      if is_op OColon r2 then
        let r3 := tl r2 in
        if is_op ORBracket r3 || is_op OComma r3 then ROk (SubSlice lo hi None) r3
        else let* (e, r4) := p_cond K r3 in ROk (SubSlice lo hi (Some e)) r4
      else ROk (SubSlice lo hi None) r2 in
    if is_op OColon ts then after_first None (tl ts)
    else
      let* (e, r) := p_cond K ts in
      if is_op OColon r then after_first (Some e) (tl r) else ROk (SubE e) r.
Proof. reflexivity. Qed.

Lemma step_p_call K node ts :
  p_call (kit_step K) node ts =
    let* (ak, r) := p_call_args K ts in ROk (ECall node (fst ak) (snd ak)) r.
Proof. reflexivity. Qed.

Lemma step_p_call_args K ts :
  p_call_args (kit_step K) ts =
    let* (_u, r) := expect OLParen ts in p_args_loop K ts [] [] false r.
Proof. reflexivity. Qed.

Lemma step_p_args_loop K lp args kw require_comma ts :
  p_args_loop (kit_step K) lp args kw require_comma ts =
    if is_op ORParen ts then ROk (args, kw) (tl ts)
    else
      let* (_u, r) := (if require_comma then expect OComma ts else ROk tt ts) in
      if require_comma && is_op ORParen r then ROk (args, kw) (tl r)
      else if is_op OMul r || is_op OPow r then RUnsup
      else
        match r with
        | KName key :: KOp OAssign :: r2 =>
            let* (v, r3) := p_cond K r2 in p_args_loop K lp args (kw ++ [(key, v)]) true r3
        | _ =>
            match kw with
            | [] => let* (v, r3) := p_cond K r in p_args_loop K lp (args ++ [v]) kw true r3
            | _ => RErr lp
            end
        end.
Proof. reflexivity. Qed.

Lemma step_p_dotted K name ts :
  p_dotted (kit_step K) name ts =
    match ts with
    | KOp ODot :: KName s :: r => p_dotted K (name ++ [46%N] ++ s) r
    | KOp ODot :: _ => RErr (tl ts)
    | _ => ROk name ts
    end.
Proof. reflexivity. Qed.

Lemma step_p_filter K node ts :
  p_filter (kit_step K) node ts =
    match ts with
    | KOp OPipe :: KName s :: r =>
        let* (name, r2) := p_dotted K s r in
        if is_op OLParen r2 then
          let* (ak, r3) := p_call_args K r2 in
          match snd ak with [] => ROk (EFilter node name (fst ak)) r3 | _ => RUnsup end
        else ROk (EFilter node name []) r2
    | _ => RErr (tl ts)
    end.
Proof. reflexivity. Qed.

Lemma step_p_test K node ts :
  p_test (kit_step K) node ts =
    let negated := is_kw k_not ts in
    let ts1 := if negated then tl ts else ts in
    match ts1 with
    | KName s :: r =>
        let* (name, r2) := p_dotted K s r in
        let* (args, r3) :=
          (if is_op OLParen r2 then
             let* (ak, r3) := p_call_args K r2 in
             match snd ak with [] => ROk (fst ak) r3 | _ => RUnsup end
           else
             let starts_arg :=
               match r2 with
               | KName s2 :: _ => negb (str_eqb s2 k_else || str_eqb s2 k_or || str_eqb s2 k_and || str_eqb s2 k_if)
               | KStr _ :: _ | KInt _ :: _ | KFloat :: _ => true
               | KOp OLBracket :: _ | KOp OLBrace :: _ => true
               | _ => false
               end in
             if starts_arg then
               if is_kw k_is r2 then RErr r2
               else
                 let* (a, r3) := p_primary K r2 in
                 let* (a2, r4) := p_postfix K a r3 in ROk [a2] r4
             else ROk [] r2) in
        let t := ETest node name args in
        ROk (if negated then ENot t else t) r3
    | _ => RErr ts1
    end.
Proof. reflexivity. Qed.
