(* the stand-alone runtime functions of Model/InhRt.v are what Model/Inh.exec_item computes *)
From Coq Require Import List NArith Bool Arith Lia.
Import ListNotations.
From JV Require Import Model.Inh Model.InhRt.

Lemma super_chain_ref : forall k n st d, d < length st ->
  super_chain k (RRef n st d) =
  match bref_super k d (length st) with Some d' => RRef n st d' | None => RUndef end.
Proof.
  induction k as [|k IH]; intros n st d Hd; cbn [super_chain bref_super]; [reflexivity|].
  unfold bref_super1. destruct (Nat.leb_spec (length st) (d + 1)) as [H|H].
  - destruct k; reflexivity.
  - apply IH. lia.
Qed.

Lemma bref_super_lt : forall k d len d', d < len -> bref_super k d len = Some d' -> d' < len.
Proof.
  induction k as [|k IH]; intros d len d' Hd H; cbn [bref_super] in H.
  - injection H as <-. exact Hd.
  - destruct (Nat.leb_spec len (d + 1)); [discriminate|]. eapply IH; [|exact H]. lia.
Qed.

Lemma exec_item_super_rt : forall call B j t b ctx L k,
  exec_item call B j t (Some b) ctx L (ISuper k) = super_item call B j b ctx k.
Proof.
  intros call B j t b ctx L k. cbn [exec_item]. unfold super_item, ctx_super.
  destruct (assoc b B) as [st|]; [|destruct k; reflexivity].
  destruct (index_of (j, b) st) as [i|]; [|destruct k; reflexivity].
  destruct (Nat.leb_spec (length st) (i + 1)) as [H|H].
  - assert (Hn : nth_error st (i + 1) = None) by (apply nth_error_None; lia).
    rewrite Hn. destruct k; reflexivity.
  - destruct (nth_error st (i + 1)) eqn:En; [|apply nth_error_None in En; lia].
    rewrite super_chain_ref by lia.
    destruct (bref_super k (i + 1) (length st)) as [d|] eqn:Eb; [|reflexivity].
    unfold bref_call. destruct (nth_error st d); reflexivity.
Qed.
