(* C22 — lemmas about the generic collection-filter models (Model/FiltColl.v) against
   Spec/FiltCollSpec.v. *)
From Coq Require Import List NArith ZArith Bool Arith Lia Sorted Permutation.
Import ListNotations.
From JV Require Import Model.FiltColl Spec.FiltCollSpec.

Ltac Zify.zify_post_hook ::= Z.to_euclidean_division_equations.

(* ------------------------------------------------------------------ slice *)
Section Slice.
  Variable A : Type.

  Lemma iota_length i n : length (iota i n) = n.
  Proof. revert i; induction n as [|n IH]; intros i; cbn [iota length]; [reflexivity|now rewrite IH]. Qed.

  Lemma skipn_skipn' : forall a b (l : list A), skipn a (skipn b l) = skipn (b + a) l.
  Proof.
    intros a b; revert a; induction b as [|b IH]; intros a l; [reflexivity|].
    destruct l as [|x l]; cbn [skipn plus]; [now destruct a|apply IH].
  Qed.

  Lemma slice_go_spec (seq : list A) (q r : N) (fill : option A) :
    forall todo i offset, offset = N.min i r ->
      slice_go seq q r fill todo i offset =
      map (fun ib => snd ib ++ slice_fill fill r (fst ib))
          (combine (iota i todo)
                   (chunks (map (slice_size q r) (iota i todo)) (skipn (N.to_nat (offset + i * q)) seq))).
  Proof.
    induction todo as [|todo IH]; intros i offset Hoff; [reflexivity|].
    cbn [slice_go iota map chunks combine fst snd].
    set (offset' := if (i <? r)%N then (offset + 1)%N else offset).
    assert (Hoff' : offset' = N.min (i + 1) r).
    { unfold offset'. destruct (N.ltb_spec i r); lia. }
    f_equal.
    - unfold pyslice, slice_size.
      replace (N.to_nat (offset' + (i + 1) * q - (offset + i * q)))
        with (N.to_nat (q + (if (i <? r)%N then 1 else 0))).
      2:{ unfold offset'. rewrite N.mul_add_distr_r, N.mul_1_l. destruct (N.ltb_spec i r); lia. }
      unfold slice_fill. destruct fill as [f|]; [|now rewrite app_nil_r].
      destruct (negb (r =? 0)%N && (r <=? i)%N); [reflexivity|now rewrite app_nil_r].
    - rewrite (IH (i + 1)%N offset' Hoff'). rewrite N.add_1_r. rewrite skipn_skipn'.
      do 3 f_equal. unfold slice_size, offset'. rewrite N.mul_succ_l.
      f_equal. destruct (N.ltb_spec i r); lia.
  Qed.

  Lemma do_slice_spec (n : N) (fill : option A) (xs : list A) :
    (1 <= n)%N -> do_slice (Z.of_N n) fill xs = Ok (spec_slice n fill xs).
  Proof.
    intros Hn. unfold do_slice.
    destruct (Z.eqb_spec (Z.of_N n) 0) as [E|_]; [lia|].
    destruct (Z.ltb_spec (Z.of_N n) 0) as [E|_]; [lia|].
    rewrite N2Z.id. unfold spec_slice.
    rewrite (slice_go_spec xs _ _ fill (N.to_nat n) 0%N 0%N) by lia.
    reflexivity.
  Qed.

  Fixpoint sum (l : list nat) : nat := match l with [] => 0 | x :: r => x + sum r end.

  Lemma firstn_plus : forall a b (l : list A), firstn (a + b) l = firstn a l ++ firstn b (skipn a l).
  Proof.
    induction a as [|a IH]; intros b l; [reflexivity|].
    destruct l as [|x l]; cbn [plus firstn skipn app]; [now rewrite firstn_nil|]. now rewrite IH.
  Qed.

  Lemma chunks_concat (sizes : list nat) (xs : list A) :
    concat (chunks sizes xs) = firstn (sum sizes) xs.
  Proof.
    revert xs; induction sizes as [|k r IH]; intros xs; cbn [chunks concat sum]; [reflexivity|].
    now rewrite IH, firstn_plus.
  Qed.

  Lemma chunks_lengths (sizes : list nat) (xs : list A) :
    sum sizes <= length xs -> map (@length A) (chunks sizes xs) = sizes.
  Proof.
    revert xs; induction sizes as [|k r IH]; intros xs H; cbn [chunks map sum] in *; [reflexivity|].
    rewrite firstn_length, Nat.min_l by lia. f_equal. apply IH. rewrite skipn_length. lia.
  Qed.

  Lemma sum_sizes (q r : N) : forall k i,
    sum (map (slice_size q r) (iota i k)) = N.to_nat (N.of_nat k * q + (N.min (i + N.of_nat k) r - N.min i r)).
  Proof.
    induction k as [|k IH]; intros i; cbn [iota map sum]; [lia|].
    rewrite IH. unfold slice_size. destruct (N.ltb_spec i r); lia.
  Qed.

  Lemma slice_sizes_total (n : N) (xs : list A) :
    (1 <= n)%N ->
    let len := N.of_nat (length xs) in
    sum (map (slice_size (len / n) (len mod n)) (iota 0 (N.to_nat n))) = length xs.
  Proof.
    intros Hn len. rewrite sum_sizes. rewrite N2Nat.id.
    pose proof (N.div_mod len n ltac:(lia)) as D.
    pose proof (N.mod_lt len n ltac:(lia)) as M.
    replace (N.min (0 + n) (len mod n)%N) with (len mod n)%N by lia.
    replace (N.min 0 (len mod n)%N) with 0%N by lia.
    rewrite N.sub_0_r, <- D. unfold len. lia.
  Qed.
End Slice.

(* ------------------------------------------------------------------ batch *)
Section Batch.
  Variable A : Type.

  Fixpoint rows_ok (n : nat) (full_last : bool) (bs : list (list A)) : Prop :=
    match bs with
    | [] => True
    | b :: r =>
        match r with
        | [] => if full_last then length b = n else 1 <= length b <= n
        | _ => length b = n /\ rows_ok n full_last r
        end
    end.

  Lemma rows_ok_cons n fl b r : 1 <= n -> length b = n -> rows_ok n fl r -> rows_ok n fl (b :: r).
  Proof.
    intros Hn Hb Hr. destruct r as [|b' r']; cbn [rows_ok]; [destruct fl; lia|]. split; assumption.
  Qed.

  Lemma batch_concat (n : Z) (fill : option A) : (1 <= n)%Z ->
    forall xs tmp, (Z.of_nat (length tmp) <= n)%Z ->
      concat (batch_go n fill tmp xs) = tmp ++ xs ++ batch_pad (Z.to_nat n) fill (length tmp + length xs).
  Proof.
    intros Hn. induction xs as [|x r IH]; intros tmp Ht; cbn [batch_go].
    - destruct tmp as [|t tmp'].
      + cbn [concat app length]. unfold batch_pad. destruct fill; [|reflexivity].
        replace ((Z.to_nat n - (0 + 0) mod Z.to_nat n) mod Z.to_nat n) with 0; [reflexivity|].
        rewrite Nat.mod_0_l by lia. rewrite Nat.sub_0_r. now rewrite Nat.mod_same by lia.
      + cbn [concat]. rewrite app_nil_r. cbn [app]. unfold batch_pad.
        set (k := length (t :: tmp')) in *. rewrite Nat.add_0_r.
        assert (Hk1 : 1 <= k) by (unfold k; cbn [length]; lia).
        destruct fill as [f|]; [|now rewrite app_nil_r].
        destruct (Z.ltb_spec (Z.of_nat k) n) as [Hlt|Hge].
        * rewrite (Nat.mod_small k) by lia. rewrite Nat.mod_small by lia.
          do 3 f_equal. lia.
        * assert (Hk : k = Z.to_nat n) by lia. rewrite Hk.
          rewrite Nat.mod_same by lia. rewrite Nat.sub_0_r. rewrite Nat.mod_same by lia.
          cbn [repeat]. now rewrite app_nil_r.
    - destruct (Z.eqb_spec (Z.of_nat (length tmp)) n) as [He|Hne].
      + cbn [concat]. rewrite (IH [x]) by (cbn [length]; lia). f_equal. cbn [app length]. f_equal.
        f_equal. unfold batch_pad. destruct fill; [|reflexivity]. f_equal.
        replace (length tmp) with (Z.to_nat n) by lia.
        replace (Z.to_nat n + S (length r)) with (S (length r) + 1 * Z.to_nat n) by lia.
        rewrite Nat.mod_add by lia. reflexivity.
      + rewrite (IH (tmp ++ [x])) by (rewrite app_length; cbn [length]; lia).
        rewrite <- app_assoc. cbn [app].
        replace (length (tmp ++ [x]) + length r) with (length tmp + length (x :: r))
          by (rewrite app_length; cbn [length]; lia).
        reflexivity.
  Qed.

  Lemma batch_rows (n : Z) (fill : option A) : (1 <= n)%Z ->
    forall xs tmp, (Z.of_nat (length tmp) <= n)%Z ->
      rows_ok (Z.to_nat n) (match fill with Some _ => true | None => false end) (batch_go n fill tmp xs).
  Proof.
    intros Hn. induction xs as [|x r IH]; intros tmp Ht; cbn [batch_go].
    - destruct tmp as [|t tmp']; [exact I|]. cbn [rows_ok].
      set (k := length (t :: tmp')) in *. assert (1 <= k) by (unfold k; cbn [length]; lia).
      destruct fill as [f|]; [|lia].
      destruct (Z.ltb_spec (Z.of_nat k) n); [|lia].
      rewrite app_length, repeat_length. fold k. lia.
    - destruct (Z.eqb_spec (Z.of_nat (length tmp)) n) as [He|Hne].
      + apply rows_ok_cons; [lia|lia|]. apply IH. cbn [length]. lia.
      + apply IH. rewrite app_length. cbn [length]. lia.
  Qed.

  Lemma batch_nonempty (n : Z) (fill : option A) xs tmp :
    batch_go n fill tmp xs = [] -> tmp = [] /\ xs = [].
  Proof.
    revert tmp; induction xs as [|x r IH]; intros tmp; cbn [batch_go].
    - destruct tmp; [auto|discriminate].
    - destruct (Z.of_nat (length tmp) =? n)%Z; [discriminate|].
      intros H. apply IH in H. destruct H as [H _]. now destruct tmp.
  Qed.

  (* a line count <= 0 never matches len(tmp) again once an item is in: nothing is flushed *)
  Lemma batch_go_noflush (n : Z) (fill : option A) : (n <= 0)%Z ->
    forall xs tmp, tmp <> [] -> batch_go n fill tmp xs = [tmp ++ xs].
  Proof.
    intros Hn. induction xs as [|x r IH]; intros tmp Hne; cbn [batch_go].
    - destruct tmp as [|t tmp']; [congruence|]. rewrite app_nil_r.
      destruct fill as [f|]; [|reflexivity].
      destruct (Z.ltb_spec (Z.of_nat (length (t :: tmp'))) n) as [H|_]; [cbn [length] in H; lia|reflexivity].
    - destruct (Z.eqb_spec (Z.of_nat (length tmp)) n) as [H|_].
      + destruct tmp; [congruence|cbn [length] in H; lia].
      + rewrite IH by (destruct tmp; discriminate). now rewrite <- app_assoc.
  Qed.
End Batch.

(* ------------------------------------------------------------------ unique *)
Section Unique.
  Variables (A K : Type) (keqb : K -> K -> bool) (key : A -> K).
  Hypothesis keqb_sym : forall a b, keqb a b = keqb b a.
  Hypothesis keqb_trans : forall a b c, keqb a b = true -> keqb b c = true -> keqb a c = true.

  Lemma unique_go_spec : forall xs seen earlier,
    (forall k, existsb (keqb k) seen = existsb (fun y => keqb k (key y)) earlier) ->
    unique_go keqb key seen xs = first_occ keqb key earlier xs.
  Proof.
    induction xs as [|x r IH]; intros seen earlier Hinv; cbn [unique_go first_occ]; [reflexivity|].
    rewrite Hinv. destruct (existsb (fun y => keqb (key x) (key y)) earlier) eqn:E.
    - apply IH. intros k. rewrite Hinv, existsb_app. cbn [existsb]. rewrite orb_false_r.
      destruct (keqb k (key x)) eqn:Ek; [|now rewrite orb_false_r].
      rewrite orb_true_r. apply existsb_exists in E. destruct E as [y [Hy Hk]].
      apply existsb_exists. exists y. split; [exact Hy|]. exact (keqb_trans _ _ _ Ek Hk).
    - f_equal. apply IH. intros k. cbn [existsb]. rewrite Hinv, existsb_app. cbn [existsb].
      rewrite orb_false_r. apply orb_comm.
  Qed.

  Lemma do_unique_spec xs : do_unique keqb key xs = first_occ keqb key [] xs.
  Proof. apply unique_go_spec. reflexivity. Qed.
End Unique.

(* ------------------------------------------------------------------ stable sort *)
Section Sort.
  Variables (A K : Type) (key : A -> K) (kleb : K -> K -> bool).
  Hypothesis kleb_total : forall a b, kleb a b = true \/ kleb b a = true.
  Hypothesis kleb_trans : forall a b c, kleb a b = true -> kleb b c = true -> kleb a c = true.

  Lemma insert_perm x l : Permutation (insert key kleb x l) (x :: l).
  Proof.
    induction l as [|y r IH]; cbn [insert]; [reflexivity|].
    destruct (kleb (key x) (key y)); [reflexivity|].
    rewrite IH. apply perm_swap.
  Qed.

  Lemma sort_perm l : Permutation (sort_by key kleb l) l.
  Proof.
    induction l as [|x r IH]; cbn [sort_by fold_right]; [reflexivity|].
    fold (sort_by key kleb r). rewrite insert_perm. now constructor.
  Qed.

  Lemma insert_hdrel a x l :
    le_key key kleb a x -> HdRel (le_key key kleb) a l -> HdRel (le_key key kleb) a (insert key kleb x l).
  Proof.
    intros Hax Hl. destruct l as [|y r]; cbn [insert]; [now constructor|].
    destruct (kleb (key x) (key y)); [now constructor|].
    inversion Hl; subst. now constructor.
  Qed.

  Lemma insert_sorted x l : Sorted (le_key key kleb) l -> Sorted (le_key key kleb) (insert key kleb x l).
  Proof.
    induction 1 as [|y r Hr IH Hy]; cbn [insert]; [repeat constructor|].
    destruct (kleb (key x) (key y)) eqn:E.
    - constructor; [now constructor|]. constructor. exact E.
    - constructor; [exact IH|]. apply insert_hdrel; [|exact Hy].
      unfold le_key. destruct (kleb_total (key x) (key y)) as [H|H]; [congruence|exact H].
  Qed.

  Lemma sort_sorted l : Sorted (le_key key kleb) (sort_by key kleb l).
  Proof.
    induction l as [|x r IH]; cbn [sort_by fold_right]; [constructor|]. now apply insert_sorted.
  Qed.

  Lemma insert_stable z x l :
    filter (equivb key kleb z) (insert key kleb x l) = filter (equivb key kleb z) (x :: l).
  Proof.
    induction l as [|y r IH]; cbn [insert]; [reflexivity|].
    destruct (kleb (key x) (key y)) eqn:E; [reflexivity|].
    cbn [filter] in *. rewrite IH.
    destruct (equivb key kleb z x) eqn:Ezx; [|reflexivity].
    destruct (equivb key kleb z y) eqn:Ezy; [|reflexivity].
    exfalso. unfold equivb in *. apply andb_prop in Ezx, Ezy.
    destruct Ezx as [_ Hxz], Ezy as [Hzy _].
    rewrite (kleb_trans _ _ _ Hxz Hzy) in E. discriminate.
  Qed.

  Lemma sort_stable z l :
    filter (equivb key kleb z) (sort_by key kleb l) = filter (equivb key kleb z) l.
  Proof.
    induction l as [|x r IH]; cbn [sort_by fold_right]; [reflexivity|].
    fold (sort_by key kleb r). rewrite insert_stable. cbn [filter]. now rewrite IH.
  Qed.

  Lemma sort_is_stable_sort l : stable_sort_of key kleb l (sort_by key kleb l).
  Proof. split; [apply sort_sorted|]. split; [apply sort_perm|]. intros z. apply sort_stable. Qed.

  (* first extremum *)
  Lemma min_go_spec : forall xs best,
    let m := min_go key kleb best xs in
    In m (best :: xs) /\ Forall (fun y => kleb (key m) (key y) = true) (best :: xs).
  Proof.
    induction xs as [|x r IH]; intros best; cbn [min_go].
    - split; [now left|]. constructor; [|constructor].
      destruct (kleb_total (key best) (key best)); assumption.
    - destruct (kleb (key best) (key x)) eqn:E; cbn [negb].
      + destruct (IH best) as [Hin Hall]. split.
        * destruct Hin as [H|H]; [now left|right; now right].
        * inversion Hall as [|? ? Hb Hr]; subst. constructor; [exact Hb|].
          constructor; [|exact Hr]. exact (kleb_trans _ _ _ Hb E).
      + destruct (IH x) as [Hin Hall]. split; [now right|].
        inversion Hall as [|? ? Hx Hr]; subst. constructor; [|now constructor].
        apply (kleb_trans _ _ _ Hx). destruct (kleb_total (key x) (key best)); congruence.
  Qed.

  Lemma max_go_spec : forall xs best,
    let m := max_go key kleb best xs in
    In m (best :: xs) /\ Forall (fun y => kleb (key y) (key m) = true) (best :: xs).
  Proof.
    induction xs as [|x r IH]; intros best; cbn [max_go].
    - split; [now left|]. constructor; [|constructor].
      destruct (kleb_total (key best) (key best)); assumption.
    - destruct (kleb (key x) (key best)) eqn:E; cbn [negb].
      + destruct (IH best) as [Hin Hall]. split.
        * destruct Hin as [H|H]; [now left|right; now right].
        * inversion Hall as [|? ? Hb Hr]; subst. constructor; [exact Hb|].
          constructor; [|exact Hr]. exact (kleb_trans _ _ _ E Hb).
      + destruct (IH x) as [Hin Hall]. split; [now right|].
        inversion Hall as [|? ? Hx Hr]; subst. constructor; [|now constructor].
        apply (fun H => kleb_trans _ _ _ H Hx). destruct (kleb_total (key x) (key best)); congruence.
  Qed.

  (* ---------------------------------------------------------------- groupby *)
  Variable keqb : K -> K -> bool.
  Hypothesis keqb_is_equiv : forall a b, keqb a b = kleb a b && kleb b a.

  Lemma keqb_refl a : keqb a a = true.
  Proof. rewrite keqb_is_equiv. destruct (kleb_total a a) as [H|H]; now rewrite H. Qed.

  Lemma group_go_flat : forall xs k cur,
    concat (map snd (group_go keqb key k cur xs)) = rev cur ++ xs.
  Proof.
    induction xs as [|x r IH]; intros k cur; cbn [group_go].
    - cbn. now rewrite !app_nil_r.
    - destruct (keqb (key x) k).
      + rewrite IH. cbn [rev]. now rewrite <- app_assoc.
      + cbn [map concat snd]. rewrite IH. reflexivity.
  Qed.

  Lemma group_adj_flat xs : concat (map snd (group_adj keqb key xs)) = xs.
  Proof. destruct xs as [|x r]; [reflexivity|]. unfold group_adj. now rewrite group_go_flat. Qed.

  Lemma group_go_ok : forall xs k cur,
    cur <> [] -> Forall (fun x => keqb (key x) k = true) cur ->
    Forall (group_ok keqb key) (group_go keqb key k cur xs).
  Proof.
    induction xs as [|x r IH]; intros k cur Hne Hall; cbn [group_go].
    - constructor; [|constructor]. split; cbn [fst snd].
      + intros H. apply (f_equal (@rev A)) in H. rewrite rev_involutive in H. now subst.
      + apply Forall_rev. exact Hall.
    - destruct (keqb (key x) k) eqn:E.
      + apply IH; [discriminate|now constructor].
      + constructor.
        * split; cbn [fst snd].
          -- intros H. apply (f_equal (@rev A)) in H. rewrite rev_involutive in H. now subst.
          -- apply Forall_rev. exact Hall.
        * apply IH; [discriminate|]. constructor; [apply keqb_refl|constructor].
  Qed.

  Lemma group_adj_ok xs : Forall (group_ok keqb key) (group_adj keqb key xs).
  Proof.
    destruct xs as [|x r]; [constructor|]. unfold group_adj.
    apply group_go_ok; [discriminate|]. constructor; [apply keqb_refl|constructor].
  Qed.

  Lemma group_go_head xs k cur : exists g rest, group_go keqb key k cur xs = (k, g) :: rest.
  Proof.
    revert k cur; induction xs as [|x r IH]; intros k cur; cbn [group_go]; [eauto|].
    destruct (keqb (key x) k); [apply IH|eauto].
  Qed.

  Lemma group_go_sorted : forall xs k cur,
    StronglySorted (le_key key kleb) xs ->
    Forall (fun x => kleb k (key x) = true) xs ->
    Sorted (group_lt kleb) (group_go keqb key k cur xs).
  Proof.
    induction xs as [|x r IH]; intros k cur Hs Hk; cbn [group_go]; [repeat constructor|].
    inversion Hs as [|? ? Hr Hx]; subst. inversion Hk as [|? ? Hkx Hkr]; subst.
    destruct (keqb (key x) k) eqn:E.
    - apply IH; assumption.
    - constructor; [apply IH; assumption|].
      destruct (group_go_head r (key x) [x]) as [g [rest Hg]]. rewrite Hg. constructor.
      split; cbn [fst]; [exact Hkx|].
      rewrite keqb_is_equiv in E. rewrite Hkx in E. now rewrite andb_true_r in E.
  Qed.

  Lemma group_adj_sorted xs :
    Sorted (le_key key kleb) xs -> Sorted (group_lt kleb) (group_adj keqb key xs).
  Proof.
    intros Hs. destruct xs as [|x r]; [constructor|]. unfold group_adj.
    assert (Tr : Relations_1.Transitive (le_key key kleb)).
    { intros a b c. unfold le_key. apply kleb_trans. }
    pose proof (Sorted_StronglySorted Tr Hs) as SS. inversion SS; subst.
    apply group_go_sorted; assumption.
  Qed.
End Sort.

(* ------------------------------------------------------------------ the list definitions *)
Section Loops.
  Variables (A B : Type).

  Lemma map_loop_spec (f : A -> B) : forall xs acc, map_loop f acc xs = rev acc ++ map f xs.
  Proof.
    induction xs as [|x r IH]; intros acc; cbn [map_loop map]; [now rewrite app_nil_r|].
    rewrite IH. cbn [rev]. now rewrite <- app_assoc.
  Qed.

  Lemma select_loop_spec (modf : bool -> bool) (p : A -> bool) : forall xs acc,
    select_loop modf p acc xs = rev acc ++ filter (fun x => modf (p x)) xs.
  Proof.
    induction xs as [|x r IH]; intros acc; cbn [select_loop filter]; [now rewrite app_nil_r|].
    destruct (modf (p x)); rewrite IH; [|reflexivity]. cbn [rev]. now rewrite <- app_assoc.
  Qed.

  Lemma reverse_loop_spec : forall (xs acc : list A), reverse_loop acc xs = rev xs ++ acc.
  Proof.
    induction xs as [|x r IH]; intros acc; cbn [reverse_loop rev]; [reflexivity|].
    rewrite IH. now rewrite <- app_assoc.
  Qed.

  Lemma to_list_loop_spec : forall (xs acc : list A), to_list_loop acc xs = rev acc ++ xs.
  Proof.
    induction xs as [|x r IH]; intros acc; cbn [to_list_loop]; [now rewrite app_nil_r|].
    rewrite IH. cbn [rev]. now rewrite <- app_assoc.
  Qed.

  Lemma auto_to_list_id (xs : list A) : auto_to_list xs = xs.
  Proof. unfold auto_to_list. now rewrite to_list_loop_spec. Qed.

  Lemma length_N_spec (xs : list A) : length_N xs = N.of_nat (length xs).
  Proof. induction xs as [|x r IH]; cbn [length_N length]; [reflexivity|]. rewrite IH. lia. Qed.

  Lemma last_of_spec (xs : list A) (x : A) : last_of (xs ++ [x]) = Some x.
  Proof. unfold last_of. rewrite reverse_loop_spec, rev_app_distr, app_nil_r. reflexivity. Qed.
End Loops.
