(* Proofs for C06: Macro.__call__ refines the documented binding rules; the compiler /
   runtime calling protocol; defaults at call time. *)
From Coq Require Import List NArith Bool Arith Lia.
Import ListNotations.
From JV Require Import Model.Macro Spec.MacroSpec.
Open Scope N_scope.

(* ------------------------------------------------------------------ lists and names *)

Lemma mem_In : forall n l, mem n l = true <-> In n l.
Proof.
  intros n l. induction l as [|x r IH]; cbn.
  - split; [discriminate|tauto].
  - rewrite orb_true_iff, IH, N.eqb_eq. split; intros [H|H]; auto.
Qed.

Lemma mem_false : forall n l, mem n l = false <-> ~ In n l.
Proof.
  intros n l. rewrite <- mem_In. destruct (mem n l); split; intros H; try congruence.
Qed.

Lemma mem_app : forall n a b, mem n (a ++ b) = mem n a || mem n b.
Proof. intros n a b. induction a as [|x r IH]; cbn; [reflexivity|]. rewrite IH, orb_assoc. reflexivity. Qed.

Lemma NoDup_app_r : forall (A : Type) (a b : list A), NoDup (a ++ b) -> NoDup b.
Proof.
  intros A a b. induction a as [|x r IH]; cbn; intros H; [exact H|].
  inversion H; subst. apply IH. assumption.
Qed.

Lemma filter_filter : forall (A : Type) (f g : A -> bool) l,
  filter f (filter g l) = filter (fun x => g x && f x) l.
Proof.
  intros A f g l. induction l as [|x r IH]; cbn; [reflexivity|].
  destruct (g x) eqn:G; cbn; [destruct (f x); rewrite IH; reflexivity|exact IH].
Qed.

Lemma filter_true : forall (A : Type) (f : A -> bool) l, (forall x, In x l -> f x = true) -> filter f l = l.
Proof.
  intros A f l. induction l as [|x r IH]; intros H; cbn; [reflexivity|].
  rewrite (H x (or_introl eq_refl)), IH; [reflexivity|]. intros y Hy. apply H. right. exact Hy.
Qed.

Lemma NoDup_map_filter : forall (f : name * value -> bool) (kw : kwlist),
  NoDup (map fst kw) -> NoDup (map fst (filter f kw)).
Proof.
  intros f kw. induction kw as [|[k v] r IH]; intros H; cbn; [constructor|].
  inversion H as [|? ? Hn Hr]; subst. destruct (f (k, v)); cbn; [|exact (IH Hr)].
  constructor; [|exact (IH Hr)]. intros Hin. apply Hn.
  rewrite in_map_iff in Hin. destruct Hin as [[k' v'] [E Hin]]. apply filter_In in Hin.
  rewrite in_map_iff. exists (k', v'). split; [exact E|exact (proj1 Hin)].
Qed.

(* ------------------------------------------------------------------ dict.pop *)

Lemma kw_get_notin : forall n kw, ~ In n (map fst kw) -> kw_get n kw = None.
Proof.
  intros n kw. induction kw as [|[k v] r IH]; intros H; cbn; [reflexivity|].
  destruct (N.eqb_spec n k) as [->|Hne]; [exfalso; apply H; left; reflexivity|].
  apply IH. intros Hin. apply H. right. exact Hin.
Qed.

Lemma kw_pop_spec : forall n kw, NoDup (map fst kw) ->
  kw_pop n kw = (kw_get n kw, filter (fun kv => negb (fst kv =? n)) kw).
Proof.
  intros n kw. induction kw as [|[k v] r IH]; intros H; cbn [kw_pop kw_get filter fst]; [reflexivity|].
  inversion H as [|? ? Hn Hr]; subst.
  destruct (N.eqb_spec n k) as [->|Hne].
  - rewrite N.eqb_refl. cbn [negb]. f_equal. symmetry. apply filter_true.
    intros [k' v'] Hin. cbn [fst]. destruct (N.eqb_spec k' k) as [->|]; [|reflexivity].
    exfalso. apply Hn. rewrite in_map_iff. exists (k, v'). split; [reflexivity|exact Hin].
  - rewrite (IH Hr). destruct (N.eqb_spec k n) as [E|_]; [congruence|]. reflexivity.
Qed.

Lemma kw_get_filter : forall n (f : name * value -> bool) kw,
  (forall v, f (n, v) = true) -> kw_get n (filter f kw) = kw_get n kw.
Proof.
  intros n f kw Hf. induction kw as [|[k v] r IH]; cbn; [reflexivity|].
  destruct (N.eqb_spec n k) as [->|Hne].
  - rewrite Hf. cbn. rewrite N.eqb_refl. reflexivity.
  - destruct (f (k, v)); cbn; [|exact IH]. destruct (N.eqb_spec n k); [congruence|exact IH].
Qed.

Lemma fill_spec : forall names kw found,
  NoDup names -> NoDup (map fst kw) ->
  fill names kw found =
  (map (fun p => param_arg (kw_get p kw)) names,
   filter (fun kv => negb (mem (fst kv) names)) kw,
   found || mem n_caller names).
Proof.
  intros names. induction names as [|n r IH]; intros kw found Hn Hk; cbn [fill map mem].
  - rewrite orb_false_r. f_equal. f_equal. symmetry. apply filter_true. reflexivity.
  - inversion Hn as [|? ? Hnot Hr]; subst.
    rewrite (kw_pop_spec n kw Hk).
    rewrite (IH _ _ Hr (NoDup_map_filter _ kw Hk)).
    f_equal; [f_equal|].
    + f_equal. apply map_ext_in. intros p Hp. f_equal. apply kw_get_filter.
      intros v. cbn [fst]. destruct (N.eqb_spec p n) as [->|]; [contradiction|reflexivity].
    + rewrite filter_filter. apply filter_ext. intros [k v]. cbn [fst].
      rewrite negb_orb. reflexivity.
    + unfold n_caller. rewrite (N.eqb_sym 0 n). destruct (n =? 0); destruct found; reflexivity.
Qed.

(* ------------------------------------------------------------------ positional part *)

Fixpoint pf (args : list value) (kw : kwlist) (ps : list name) : list (option value) :=
  match ps with
  | [] => []
  | p :: r => match args with
              | v :: a' => Some v :: pf a' kw r
              | [] => kw_get p kw :: pf [] kw r
              end
  end.

Lemma skipn_step : forall (A : Type) (l : list A) i,
  nth_error l i = hd_error (skipn i l) /\ skipn (S i) l = tl (skipn i l).
Proof.
  intros A l. induction l as [|x r IH]; intros i.
  - destruct i; cbn; split; reflexivity.
  - destruct i as [|i]; [cbn; split; reflexivity|].
    destruct (IH i) as [H1 H2]. split; [exact H1|]. cbn [skipn] in *. exact H2.
Qed.

Lemma params_from_pf : forall c ps i, params_from c i ps = pf (skipn i (c_args c)) (c_kw c) ps.
Proof.
  intros c ps. induction ps as [|p r IH]; intros i; cbn [params_from pf]; [reflexivity|].
  destruct (skipn_step _ (c_args c) i) as [H1 H2]. unfold param_value. rewrite H1, (IH (S i)), H2.
  destruct (skipn i (c_args c)); reflexivity.
Qed.

Lemma pf_split : forall kw ps args,
  pf args kw ps = map Some (firstn (length ps) args) ++ map (fun p => kw_get p kw) (skipn (length args) ps).
Proof.
  intros kw ps. induction ps as [|p r IH]; intros args; cbn [pf length].
  - destruct args; reflexivity.
  - destruct args as [|v a']; cbn [firstn map length skipn app].
    + rewrite (IH []). cbn. destruct r; reflexivity.
    + rewrite (IH a'). reflexivity.
Qed.

Lemma is_nil_skipn : forall (A : Type) (l : list A) n, is_nil (skipn n l) = negb (Nat.ltb n (length l)).
Proof.
  intros A l. induction l as [|x r IH]; intros n.
  - destruct n; reflexivity.
  - destruct n as [|n]; [reflexivity|]. cbn [skipn length]. rewrite IH. reflexivity.
Qed.

(* ------------------------------------------------------------------ normal form of __call__ *)

Definition nf (s : rsig) (c : call) : res (list arg) :=
  let a1 := map param_arg (params_from c 0 (r_args s)) in
  let a2 := if implicit_caller s then a1 ++ [ACaller (caller_value (kw_get n_caller (c_kw c)))] else a1 in
  let kw2 := leftover s c in
  let r3 := if r_kwargs s then Ok (a2 ++ [AKwargs kw2])
            else match kw2 with
                 | [] => Ok a2
                 | (k, _) :: _ => if kw_has n_caller kw2 then Err ETwoCallers else Err (ENoKeyword k)
                 end in
  match r3 with
  | Err e => Err e
  | Ok a3 => if r_varargs s then Ok (a3 ++ [AVarargs (surplus s c)])
             else if Nat.ltb (length (r_args s)) (length (c_args c)) then Err ETooMany else Ok a3
  end.

Lemma fill_phase : forall s c, wf_sig s -> wf_call c ->
  let argc := length (r_args s) in
  let pos := firstn argc (c_args c) in
  let off := length pos in
  (if Nat.eqb off argc then ([], c_kw c, mem n_caller (r_args s))
   else fill (skipn off (r_args s)) (c_kw c) (mem n_caller (firstn off (r_args s))))
  = (map (fun p => param_arg (kw_get p (c_kw c))) (skipn (length (c_args c)) (r_args s)),
     filter (fun kv => negb (mem (fst kv) (skipn (length (c_args c)) (r_args s)))) (c_kw c),
     mem n_caller (r_args s)).
Proof.
  intros s c Hs Hc argc pos off. subst off pos argc. rewrite firstn_length.
  destruct (Nat.eqb_spec (Nat.min (length (r_args s)) (length (c_args c))) (length (r_args s))) as [E|E].
  - assert (Hle : (length (r_args s) <= length (c_args c))%nat) by lia.
    rewrite (skipn_all2 (r_args s) Hle). cbn [map mem]. f_equal. f_equal.
    symmetry. apply filter_true. reflexivity.
  - assert (Hlt : (length (c_args c) < length (r_args s))%nat) by lia.
    replace (Nat.min (length (r_args s)) (length (c_args c))) with (length (c_args c)) by lia.
    rewrite fill_spec.
    + f_equal. rewrite <- mem_app, firstn_skipn. reflexivity.
    + unfold wf_sig in Hs. rewrite <- (firstn_skipn (length (c_args c)) (r_args s)) in Hs.
      exact (NoDup_app_r _ _ _ Hs).
    + exact Hc.
Qed.

Lemma args1_eq : forall s c,
  map AVal (firstn (length (r_args s)) (c_args c))
  ++ map (fun p => param_arg (kw_get p (c_kw c))) (skipn (length (c_args c)) (r_args s))
  = map param_arg (params_from c 0 (r_args s)).
Proof.
  intros s c. rewrite params_from_pf. cbn [skipn]. rewrite pf_split, map_app, !map_map. reflexivity.
Qed.

Lemma leftover_eq : forall s c,
  wf_call c ->
  (if implicit_caller s
   then filter (fun kv => negb (fst kv =? n_caller))
          (filter (fun kv => negb (mem (fst kv) (skipn (length (c_args c)) (r_args s)))) (c_kw c))
   else filter (fun kv => negb (mem (fst kv) (skipn (length (c_args c)) (r_args s)))) (c_kw c))
  = leftover s c.
Proof.
  intros s c Hc. unfold leftover, consumed. destruct (implicit_caller s) eqn:I.
  - rewrite filter_filter. apply filter_ext. intros [k v]. cbn [fst andb]. rewrite negb_orb. reflexivity.
  - apply filter_ext. intros [k v]. cbn [fst andb]. rewrite orb_false_r. reflexivity.
Qed.

Lemma macro_call_nf : forall s c, wf_sig s -> wf_call c -> macro_call s c = nf s c.
Proof.
  intros s c Hs Hc. unfold macro_call.
  rewrite (fill_phase s c Hs Hc). rewrite args1_eq.
  fold (implicit_caller s). unfold nf.
  pose proof (leftover_eq s c Hc) as HL.
  destruct (implicit_caller s) eqn:I.
  - rewrite kw_pop_spec by (apply NoDup_map_filter; exact Hc).
    rewrite kw_get_filter.
    2:{ intros v. cbn [fst]. apply negb_true_iff, mem_false. intros Hin.
        unfold implicit_caller in I. apply andb_true_iff in I. destruct I as [_ I].
        apply negb_true_iff, mem_false in I. apply I.
        rewrite <- (firstn_skipn (length (c_args c)) (r_args s)). apply in_or_app. right. exact Hin. }
    rewrite HL. unfold surplus. reflexivity.
  - rewrite HL. unfold surplus. reflexivity.
Qed.

Lemma nf_matches : forall s c, matches (nf s c) (spec_bind s c).
Proof.
  intros s c. unfold nf, spec_bind, flatten. cbn [b_params b_caller b_kwargs b_varargs].
  assert (HS : is_nil (surplus s c) = negb (Nat.ltb (length (r_args s)) (length (c_args c)))) by apply is_nil_skipn.
  rewrite HS. clear HS.
  destruct (Nat.ltb (length (r_args s)) (length (c_args c))); cbn [negb];
  destruct (r_kwargs s) eqn:K; cbn [negb andb];
  destruct (r_varargs s) eqn:V; cbn [negb andb];
  try (destruct (leftover s c) as [|[k v] rest] eqn:L; cbn [is_nil negb andb];
       [|destruct (kw_has n_caller ((k, v) :: rest)); exact I]);
  cbn [matches]; try exact I; unfold flatten; cbn [b_params b_caller b_kwargs b_varargs opt_list];
  destruct (implicit_caller s); cbn [opt_list]; rewrite <- ?app_assoc, ?app_nil_r; reflexivity.
Qed.

Theorem macro_call_spec : forall s c, wf_sig s -> wf_call c -> matches (macro_call s c) (spec_bind s c).
Proof. intros s c Hs Hc. rewrite (macro_call_nf s c Hs Hc). exact (nf_matches s c). Qed.

(* ------------------------------------------------------------------ binds <-> spec_bind *)

Lemma params_from_length : forall c ps i, length (params_from c i ps) = length ps.
Proof. intros c ps. induction ps as [|p r IH]; intros i; cbn; [reflexivity|]. rewrite IH. reflexivity. Qed.

Lemma params_from_nth : forall c ps i j p,
  nth_error ps j = Some p -> nth_error (params_from c i ps) j = Some (param_value c (i + j) p).
Proof.
  intros c ps. induction ps as [|q r IH]; intros i j p H.
  - destruct j; discriminate.
  - destruct j as [|j]; cbn in *.
    + injection H as ->. rewrite Nat.add_0_r. reflexivity.
    + rewrite (IH (S i) j p H). f_equal. f_equal. lia.
Qed.

Lemma nth_error_ext : forall (A : Type) (l1 l2 : list A),
  length l1 = length l2 -> (forall i, (i < length l1)%nat -> nth_error l1 i = nth_error l2 i) -> l1 = l2.
Proof.
  intros A l1. induction l1 as [|x r IH]; intros l2 HL H; destruct l2 as [|y r2]; try discriminate; [reflexivity|].
  cbn in HL. pose proof (H 0%nat ltac:(cbn; lia)) as H0. cbn in H0. injection H0 as ->.
  f_equal. apply IH; [lia|]. intros i Hi. exact (H (S i) ltac:(cbn; lia)).
Qed.

Lemma is_nil_true : forall (A : Type) (l : list A), is_nil l = true <-> l = [].
Proof. intros A l. destruct l; cbn; split; congruence. Qed.

Theorem binds_iff_spec : forall s c r, binds s c r <-> spec_bind s c = r.
Proof.
  intros s c r. split.
  - intros H. unfold spec_bind. inversion H as [b Hk Hv Hlen Hnth Hc Hkw Hva | Hk Hne | Hv Hne]; subst.
    + assert (E1 : negb (r_kwargs s) && negb (is_nil (leftover s c)) = false).
      { destruct (r_kwargs s); [reflexivity|]. rewrite (Hk eq_refl). reflexivity. }
      assert (E2 : negb (r_varargs s) && negb (is_nil (surplus s c)) = false).
      { destruct (r_varargs s); [reflexivity|]. rewrite (Hv eq_refl). reflexivity. }
      rewrite E1, E2. f_equal. destruct b as [bp bc bk bv]. cbn in *. subst bc bk bv. f_equal.
      apply nth_error_ext; [rewrite params_from_length; congruence|].
      intros i Hi. rewrite params_from_length in Hi.
      destruct (nth_error (r_args s) i) as [p|] eqn:E; [|apply nth_error_None in E; lia].
      rewrite (Hnth i p E), (params_from_nth c _ 0 i p E). reflexivity.
    + rewrite Hk. cbn [negb andb]. destruct (leftover s c); [congruence|reflexivity].
    + destruct (negb (r_kwargs s) && negb (is_nil (leftover s c))); [reflexivity|].
      rewrite Hv. cbn [negb andb]. destruct (surplus s c); [congruence|reflexivity].
  - intros <-. unfold spec_bind.
    destruct (negb (r_kwargs s) && negb (is_nil (leftover s c))) eqn:E1.
    { apply andb_true_iff in E1. destruct E1 as [E1 E1']. apply negb_true_iff in E1, E1'.
      apply binds_err_kw; [exact E1|]. intros Hn. rewrite Hn in E1'. discriminate. }
    destruct (negb (r_varargs s) && negb (is_nil (surplus s c))) eqn:E2.
    { apply andb_true_iff in E2. destruct E2 as [E2 E2']. apply negb_true_iff in E2, E2'.
      apply binds_err_pos; [exact E2|]. intros Hn. rewrite Hn in E2'. discriminate. }
    apply binds_ok; cbn [b_params b_caller b_kwargs b_varargs]; try reflexivity.
    + intros Hk. rewrite Hk in E1. cbn in E1. apply negb_false_iff, is_nil_true in E1. exact E1.
    + intros Hv. rewrite Hv in E2. cbn in E2. apply negb_false_iff, is_nil_true in E2. exact E2.
    + apply params_from_length.
    + intros i p Hp. exact (params_from_nth c _ 0 i p Hp).
Qed.

Theorem binds_functional : forall s c r1 r2, binds s c r1 -> binds s c r2 -> r1 = r2.
Proof. intros s c r1 r2 H1 H2. apply binds_iff_spec in H1, H2. congruence. Qed.

Theorem binds_total : forall s c, exists r, binds s c r.
Proof. intros s c. exists (spec_bind s c). apply binds_iff_spec. reflexivity. Qed.

(* ------------------------------------------------------------------ flatten is injective *)

Definition special (a : arg) : bool := match a with AVal _ | AMissing => false | _ => true end.

Lemma param_prefix_inj : forall p1 p2 t1 t2,
  forallb special t1 = true -> forallb special t2 = true ->
  map param_arg p1 ++ t1 = map param_arg p2 ++ t2 -> p1 = p2 /\ t1 = t2.
Proof.
  intros p1. induction p1 as [|x r IH]; intros p2 t1 t2 H1 H2 E.
  - destruct p2 as [|y r2]; [split; [reflexivity|exact E]|].
    cbn in E. subst t1. cbn in H1. destruct y; discriminate.
  - destruct p2 as [|y r2].
    + cbn in E. subst t2. cbn in H2. destruct x; discriminate.
    + cbn in E. injection E as Exy E. destruct (IH r2 t1 t2 H1 H2 E) as [-> ->].
      split; [|reflexivity]. f_equal. destruct x, y; cbn in Exy; congruence.
Qed.

Lemma flatten_inj : forall b1 b2, flatten b1 = flatten b2 -> b1 = b2.
Proof.
  intros [p1 c1 k1 v1] [p2 c2 k2 v2]. unfold flatten. cbn [b_params b_caller b_kwargs b_varargs]. intros E.
  apply param_prefix_inj in E.
  - destruct E as [-> E].
    destruct c1, c2, k1, k2, v1, v2; cbn in E; try discriminate; try congruence.
  - destruct c1, k1, v1; reflexivity.
  - destruct c2, k2, v2; reflexivity.
Qed.

Theorem bind_refines : forall s c r, wf_sig s -> wf_call c ->
  (matches (macro_call s c) r <-> binds s c r).
Proof.
  intros s c r Hs Hc. pose proof (macro_call_spec s c Hs Hc) as M. split.
  - intros H. apply binds_iff_spec.
    destruct (macro_call s c) as [l|e], r as [b|], (spec_bind s c) as [b'|]; cbn in *; try contradiction; try reflexivity.
    f_equal. apply flatten_inj. congruence.
  - intros H. apply binds_iff_spec in H. subst r. exact M.
Qed.

(* ------------------------------------------------------------------ compiler / runtime protocol *)

Definition isparam (a : arg) : bool := negb (special a).

Lemma fill_shape : forall names kw f l kw' f',
  fill names kw f = (l, kw', f') ->
  length l = length names /\ forallb isparam l = true /\ f' = f || mem n_caller names.
Proof.
  intros names. induction names as [|n r IH]; intros kw f l kw' f' H; cbn [fill] in H.
  - injection H as <- <- <-. cbn. rewrite orb_false_r. auto.
  - destruct (kw_pop n kw) as [o kw1]. destruct (fill r kw1 (if n =? n_caller then true else f)) as [[l2 kw2] f2] eqn:E.
    injection H as <- <- <-. destruct (IH _ _ _ _ _ E) as [H1 [H2 H3]]. cbn [length forallb mem].
    split; [congruence|]. split; [destruct o; cbn; exact H2|].
    rewrite H3. unfold n_caller. rewrite (N.eqb_sym 0 n). destruct (n =? 0); destruct f; reflexivity.
Qed.

Lemma last_index_none : forall n l i acc,
  last_index n l i acc = None <-> acc = None /\ mem n l = false.
Proof.
  intros n l. induction l as [|x r IH]; intros i acc; cbn [last_index mem].
  - tauto.
  - rewrite IH, (N.eqb_sym n x). destruct (x =? n); cbn; split; intros [H1 H2]; try discriminate; auto.
Qed.

Lemma slots_ok_params : forall names ps tp ta,
  length ps = length names -> forallb isparam ps = true ->
  slots_ok (map PName names ++ tp) (ps ++ ta) = slots_ok tp ta.
Proof.
  intros names. induction names as [|n r IH]; intros ps tp ta HL HP; destruct ps as [|a ps']; try discriminate.
  - reflexivity.
  - cbn in HL, HP. apply andb_true_iff in HP. destruct HP as [Ha HP]. cbn [map app slots_ok].
    rewrite IH by (auto; lia). destruct a; cbn in Ha; try discriminate; reflexivity.
Qed.

Ltac fin := rewrite <- ?app_assoc; cbn [app]; rewrite ?app_nil_r; auto.

Lemma macro_call_shape : forall s c l, macro_call s c = Ok l ->
  exists ps v kw2 va,
    length ps = length (r_args s) /\ forallb isparam ps = true /\
    l = ps ++ (if implicit_caller s then [ACaller v] else [])
           ++ (if r_kwargs s then [AKwargs kw2] else [])
           ++ (if r_varargs s then [AVarargs va] else []).
Proof.
  intros s c l. unfold macro_call.
  set (argc := length (r_args s)). set (pos := firstn argc (c_args c)). set (off := length pos).
  destruct (if Nat.eqb off argc then ([], c_kw c, mem n_caller (r_args s))
            else fill (skipn off (r_args s)) (c_kw c) (mem n_caller (firstn off (r_args s))))
    as [[filled kw1] found] eqn:T.
  assert (HT : length (map AVal pos ++ filled) = argc /\ forallb isparam (map AVal pos ++ filled) = true
               /\ found = mem n_caller (r_args s)).
  { assert (Hpos : forallb isparam (map AVal pos) = true) by (clear; induction pos; cbn; auto).
    destruct (Nat.eqb_spec off argc) as [E|E].
    - injection T as <- <- <-. rewrite app_nil_r, map_length. auto.
    - destruct (fill_shape _ _ _ _ _ _ T) as [H1 [H2 H3]].
      rewrite app_length, map_length, H1, skipn_length, forallb_app, Hpos, H2.
      assert (Hoff : (off <= argc)%nat) by (subst off pos; rewrite firstn_length; lia).
      split; [fold off; lia|]. split; [reflexivity|].
      rewrite H3, <- mem_app, firstn_skipn. reflexivity. }
  destruct HT as [HL [HP HF]]. subst found. fold (implicit_caller s).
  set (a1 := map AVal pos ++ filled) in *.
  intros H.
  destruct (implicit_caller s) eqn:I.
  - destruct (kw_pop n_caller kw1) as [o kw'].
    destruct (r_kwargs s).
    + destruct (r_varargs s).
      * injection H as <-. exists a1, (caller_value o), kw', (skipn argc (c_args c)).
        fin.
      * destruct (Nat.ltb argc (length (c_args c))); [discriminate|]. injection H as <-.
        exists a1, (caller_value o), kw', []. fin.
    + destruct kw' as [|[k v] rest]; [|destruct (kw_has n_caller ((k, v) :: rest)); discriminate].
      destruct (r_varargs s).
      * injection H as <-. exists a1, (caller_value o), [], (skipn argc (c_args c)).
        fin.
      * destruct (Nat.ltb argc (length (c_args c))); [discriminate|]. injection H as <-.
        exists a1, (caller_value o), [], []. fin.
  - destruct (r_kwargs s).
    + destruct (r_varargs s).
      * injection H as <-. exists a1, VNone, kw1, (skipn argc (c_args c)).
        fin.
      * destruct (Nat.ltb argc (length (c_args c))); [discriminate|]. injection H as <-.
        exists a1, VNone, kw1, []. fin.
    + destruct kw1 as [|[k v] rest]; [|destruct (kw_has n_caller ((k, v) :: rest)); discriminate].
      destruct (r_varargs s).
      * injection H as <-. exists a1, VNone, [], (skipn argc (c_args c)). fin.
      * destruct (Nat.ltb argc (length (c_args c))); [discriminate|]. injection H as <-.
        exists a1, VNone, [], []. fin.
Qed.

Theorem protocol_agrees : forall d py s c l,
  macro_body_sig d = COk py s -> macro_call s c = Ok l -> slots_ok py l = true.
Proof.
  intros d py s c l HC HM. destruct (macro_call_shape s c l HM) as [ps [v [kw2 [va [HL [HP ->]]]]]].
  unfold macro_body_sig in HC.
  destruct (match last_index n_caller (d_params d) 0 None with
            | Some idx => u_caller d && no_default d idx | None => false end); [discriminate|].
  injection HC as <- <-. unfold implicit_caller. cbn [r_args r_kwargs r_varargs r_caller] in *.
  assert (HX : match last_index n_caller (d_params d) 0 None with Some _ => mem n_caller (d_params d) = true
               | None => mem n_caller (d_params d) = false end).
  { destruct (last_index n_caller (d_params d) 0 None) eqn:E.
    - destruct (mem n_caller (d_params d)) eqn:M; [reflexivity|].
      assert (X : last_index n_caller (d_params d) 0 None = None) by (apply last_index_none; auto). congruence.
    - apply last_index_none in E. tauto. }
  destruct (u_caller d); destruct (last_index n_caller (d_params d) 0 None); rewrite HX; cbn [andb negb];
  destruct (u_kwargs d && negb (mem n_kwargs (d_params d)));
  destruct (u_varargs d && negb (mem n_varargs (d_params d)));
  rewrite <- ?app_assoc; cbn [app];
  first [rewrite (slots_ok_params _ _ _ _ HL HP)
        |rewrite <- (app_nil_r (map PName (d_params d))); rewrite (slots_ok_params _ _ _ _ HL HP)];
  reflexivity.
Qed.

Lemma macro_call_not_arity : forall s c, macro_call s c <> Err EArity.
Proof.
  intros s c. unfold macro_call.
  destruct (if Nat.eqb (length (firstn (length (r_args s)) (c_args c))) (length (r_args s))
            then ([], c_kw c, mem n_caller (r_args s))
            else fill (skipn (length (firstn (length (r_args s)) (c_args c))) (r_args s)) (c_kw c)
                   (mem n_caller (firstn (length (firstn (length (r_args s)) (c_args c))) (r_args s))))
    as [[filled kw1] found].
  destruct (r_caller s && negb found); [destruct (kw_pop n_caller kw1) as [o kw']|];
  destruct (r_kwargs s); destruct (r_varargs s);
  repeat match goal with
  | |- context [match ?x with [] => _ | _ :: _ => _ end] => destruct x as [|[? ?] ?]
  | |- context [if ?x then _ else _] => destruct x
  end; discriminate.
Qed.

(* hence the generated function never sees an arity error *)
Theorem invoke_no_arity_error : forall d outer c, invoke d outer c <> Some (Err EArity).
Proof.
  intros d outer c. unfold invoke. destruct (macro_body_sig d) as [|py s] eqn:HC; [discriminate|].
  destruct (macro_call s c) as [l|e] eqn:HM.
  - pose proof (protocol_agrees d py s c l HC HM) as HS.
    assert (HLen : forall ps l', slots_ok ps l' = true -> length l' = length ps).
    { clear. induction ps as [|p r IH]; intros [|a l'] H; cbn in H; try discriminate; [reflexivity|].
      apply andb_true_iff in H. cbn. f_equal. apply IH. tauto. }
    rewrite (HLen _ _ HS), Nat.eqb_refl. cbn. discriminate.
  - intros H. injection H as ->. exact (macro_call_not_arity s c HM).
Qed.

(* calls from Python (no EvalContext) and from templates (EvalContext first) bind alike *)
Theorem module_call_same : forall s da a vs kw,
  snd (macro_entry s da (REvalCtx a :: map RVal vs) kw) = snd (macro_entry s da (map RVal vs) kw).
Proof.
  intros s da a vs kw. unfold macro_entry. cbn [strip_evalctx].
  destruct vs as [|v r]; cbn [map strip_evalctx snd]; reflexivity.
Qed.

(* ------------------------------------------------------------------ the prologue (defaults) *)

Lemma lget_app_notin : forall p a l, ~ In p (map fst a) -> lget p (a ++ l) = lget p l.
Proof.
  intros p a l. induction a as [|[k x] r IH]; intros H; cbn; [reflexivity|].
  destruct (N.eqb_spec p k) as [->|Hne]; [exfalso; apply H; left; reflexivity|].
  apply IH. intros Hin. apply H. right. exact Hin.
Qed.

Lemma lset_app_notin : forall p v a l, ~ In p (map fst a) -> lset p v (a ++ l) = a ++ lset p v l.
Proof.
  intros p v a l. induction a as [|[k x] r IH]; intros H; cbn; [reflexivity|].
  destruct (N.eqb_spec p k) as [->|Hne]; [exfalso; apply H; left; reflexivity|].
  f_equal. apply IH. intros Hin. apply H. right. exact Hin.
Qed.

Lemma NoDup_app_notin : forall (A : Type) (a : list A) x b, NoDup (a ++ x :: b) -> ~ In x a.
Proof.
  intros A a x b H Hin. apply NoDup_remove_2 in H. apply H. apply in_or_app. left. exact Hin.
Qed.

Lemma nth_error_firstn_lt : forall (A : Type) (l : list A) n k,
  (n < k)%nat -> nth_error (firstn k l) n = nth_error l n.
Proof.
  intros A l. induction l as [|x r IH]; intros n k H.
  - rewrite firstn_nil. reflexivity.
  - destruct k as [|k]; [lia|]. destruct n as [|n]; [reflexivity|]. cbn. apply IH. lia.
Qed.

Definition step_value (d : mdef) (outer : outer_env) (env : locals) (idx : nat) (p : name) (b : option value) : value :=
  match b with
  | Some v => v
  | None => match default_of d idx with
            | Some e => eval_default outer env e
            | None => VUndef (UNotProvided p)
            end
  end.

Lemma prologue_go_gen : forall d outer rest done,
  NoDup (map fst (done ++ rest)) ->
  let lf := prologue_go d outer (map fst rest) (length done) (done ++ rest) in
  firstn (length done) lf = done /\
  map fst lf = map fst (done ++ rest) /\
  forall j p b, nth_error rest j = Some (p, b) ->
    nth_error lf (length done + j) =
    Some (p, Some (step_value d outer (firstn (length done + j) lf ++ skipn j rest) (length done + j) p b)).
Proof.
  intros d outer rest. induction rest as [|[p b] r IH]; intros done HN lf.
  - subst lf. cbn [map prologue_go]. rewrite app_nil_r. split; [apply firstn_all|].
    split; [reflexivity|]. intros j p b H. destruct j; discriminate.
  - assert (Hp : ~ In p (map fst done)).
    { rewrite map_app in HN. cbn [map fst] in HN. exact (NoDup_app_notin _ _ _ _ HN). }
    set (v := step_value d outer (done ++ (p, b) :: r) (length done) p b).
    assert (Hstep : lf = prologue_go d outer (map fst r) (length (done ++ [(p, Some v)])) ((done ++ [(p, Some v)]) ++ r)).
    { subst lf. cbn [map fst prologue_go]. rewrite lget_app_notin by exact Hp. cbn [lget]. rewrite N.eqb_refl.
      rewrite app_length. cbn [length]. rewrite Nat.add_1_r. rewrite <- app_assoc. cbn [app].
      f_equal. subst v. unfold step_value. destruct b as [bv|]; [reflexivity|].
      destruct (default_of d (length done)) as [e|];
      rewrite lset_app_notin by exact Hp; cbn [lset]; rewrite N.eqb_refl; reflexivity. }
    clearbody lf.
    assert (HN' : NoDup (map fst ((done ++ [(p, Some v)]) ++ r))).
    { rewrite <- app_assoc. cbn [app]. rewrite map_app in *. cbn [map fst] in *. exact HN. }
    destruct (IH (done ++ [(p, Some v)]) HN') as [H1 [H2 H3]]. rewrite <- Hstep in H1, H2, H3.
    rewrite app_length in H1, H3. cbn [length] in H1, H3. rewrite Nat.add_1_r in H1, H3.
    assert (Hf : firstn (length done) lf = done).
    { pose proof (f_equal (firstn (length done)) H1) as X. rewrite firstn_firstn in X.
      rewrite (Nat.min_l (length done) (S (length done))) in X by lia.
      rewrite X, firstn_app, Nat.sub_diag, firstn_all. cbn. apply app_nil_r. }
    split; [exact Hf|]. split.
    { rewrite H2, <- app_assoc. cbn [app]. rewrite !map_app. reflexivity. }
    intros j q c Hj. destruct j as [|j].
    + cbn in Hj. injection Hj as <- <-. rewrite Nat.add_0_r, Hf. cbn [skipn].
      pose proof (f_equal (fun l => nth_error l (length done)) H1) as X. cbn beta in X.
      rewrite nth_error_app2 in X by lia. rewrite Nat.sub_diag in X. cbn in X.
      transitivity (nth_error (firstn (S (length done)) lf) (length done));
        [symmetry; apply nth_error_firstn_lt; lia|exact X].
    + cbn [nth_error] in Hj. pose proof (H3 j q c Hj) as X.
      replace (length done + S j)%nat with (S (length done) + j)%nat by lia. cbn [skipn]. exact X.
Qed.

Lemma lget_nth : forall (l : locals) i p b,
  NoDup (map fst l) -> nth_error l i = Some (p, b) -> lget p l = Some b.
Proof.
  intros l. induction l as [|[k x] r IH]; intros i p b HN H.
  - destruct i; discriminate.
  - inversion HN as [|? ? Hk Hr]; subst. destruct i as [|i]; cbn in H.
    + injection H as -> ->. cbn. rewrite N.eqb_refl. reflexivity.
    + cbn. destruct (N.eqb_spec p k) as [->|Hne]; [|exact (IH i p b Hr H)].
      exfalso. apply Hk. apply nth_error_In in H. rewrite in_map_iff. exists (k, b). auto.
Qed.

Theorem defaults_at_call_time : forall d outer l0,
  NoDup (d_params d) -> map fst l0 = d_params d ->
  let lf := prologue_go d outer (d_params d) 0 l0 in
  map fst lf = d_params d /\
  forall i p, nth_error (d_params d) i = Some p ->
    nth_error lf i = Some (p, Some (final_value d outer l0 lf i p)).
Proof.
  intros d outer l0 HN HM lf.
  assert (HN0 : NoDup (map fst ([] ++ l0))) by (cbn; rewrite HM; exact HN).
  destruct (prologue_go_gen d outer l0 [] HN0) as [_ [H2 H3]]. cbn [app length] in H2, H3.
  rewrite HM in H2, H3. fold lf in H2, H3. split; [exact H2|].
  intros i p Hp. rewrite <- HM in Hp. rewrite nth_error_map in Hp.
  destruct (nth_error l0 i) as [[q b]|] eqn:E; [|discriminate]. cbn in Hp. injection Hp as ->.
  pose proof (H3 i p b E) as X. cbn [Nat.add] in X. rewrite X. f_equal. f_equal. f_equal.
  unfold final_value, step_value. rewrite (lget_nth l0 i p b) by (cbn in HN0; assumption).
  destruct b; reflexivity.
Qed.
