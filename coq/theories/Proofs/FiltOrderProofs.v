(* C22 — the concrete key order of the value-level model (Model/FiltCollRun.v): code-point order on
   strs, Z order on ints, rank between kinds, Python's list comparison on multi-attribute keys —
   is total and transitive, so the stable-sort theorem applies to f_sort / f_dictsort without
   hypotheses on the order. *)
From Coq Require Import List NArith ZArith Bool Lia.
Import ListNotations.
From JV Require Import Model.FiltColl Model.FiltCollRun Spec.FiltCollSpec Proofs.FiltCollProofs.

Lemma str_eqb_eq a : forall b, str_eqb a b = true -> a = b.
Proof.
  induction a as [|x a IH]; intros [|y b] H; cbn [str_eqb] in H; try discriminate; [reflexivity|].
  apply andb_prop in H. destruct H as [H1 H2]. apply N.eqb_eq in H1. subst. f_equal. now apply IH.
Qed.
Lemma str_eqb_refl a : str_eqb a a = true.
Proof. induction a as [|x a IH]; [reflexivity|]. cbn [str_eqb]. now rewrite N.eqb_refl, IH. Qed.

Lemma str_leb_total a : forall b, str_leb a b = true \/ str_leb b a = true.
Proof.
  induction a as [|x a IH]; intros [|y b]; cbn [str_leb]; auto.
  destruct (N.ltb_spec x y), (N.ltb_spec y x); auto; try lia; try apply IH.
Qed.
Lemma str_leb_trans a : forall b c, str_leb a b = true -> str_leb b c = true -> str_leb a c = true.
Proof.
  induction a as [|x a IH]; intros [|y b] [|z c]; cbn [str_leb]; auto; try discriminate.
  destruct (N.ltb_spec x y), (N.ltb_spec y x), (N.ltb_spec y z), (N.ltb_spec z y), (N.ltb_spec x z), (N.ltb_spec z x);
    auto; try discriminate; try lia; try apply IH.
Qed.
Lemma str_leb_antisym a : forall b, str_leb a b = true -> str_leb b a = true -> str_eqb a b = true.
Proof.
  induction a as [|x a IH]; intros [|y b]; cbn [str_leb str_eqb]; auto; try discriminate.
  destruct (N.ltb_spec x y), (N.ltb_spec y x); try discriminate; try lia.
  intros H1 H2. replace y with x by lia. rewrite N.eqb_refl. now apply IH.
Qed.

Lemma atom_eqb_eq x y : atom_eqb x y = true -> x = y.
Proof.
  destruct x, y; cbn [atom_eqb]; try discriminate; try reflexivity; intros H.
  - apply Z.eqb_eq in H. now subst.
  - apply str_eqb_eq in H. now subst.
Qed.
Lemma atom_eqb_sym x y : atom_eqb x y = atom_eqb y x.
Proof.
  destruct (atom_eqb x y) eqn:E.
  - pose proof (atom_eqb_eq _ _ E) as H. subst. symmetry. exact E.
  - destruct (atom_eqb y x) eqn:E2; [|reflexivity]. pose proof (atom_eqb_eq _ _ E2) as H. subst.
    rewrite E in E2. discriminate.
Qed.

Lemma atom_leb_total x y : atom_leb x y = true \/ atom_leb y x = true.
Proof.
  destruct x, y; cbn [atom_leb atom_rank]; try (left; reflexivity); try (right; reflexivity).
  - destruct (Z.leb_spec z z0), (Z.leb_spec z0 z); auto; lia.
  - apply str_leb_total.
Qed.
Lemma atom_leb_trans x y z : atom_leb x y = true -> atom_leb y z = true -> atom_leb x z = true.
Proof.
  destruct x, y, z; cbn [atom_leb atom_rank]; try reflexivity; try discriminate; intros H1 H2.
  - apply Z.leb_le in H1, H2. apply Z.leb_le. lia.
  - exact (str_leb_trans _ _ _ H1 H2).
Qed.
(* antisymmetry up to ==, for every atom that is not a container *)
Lemma atom_leb_antisym x y : atom_rank x <> 4%N ->
  atom_leb x y = true -> atom_leb y x = true -> atom_eqb x y = true.
Proof.
  destruct x, y; cbn [atom_leb atom_rank atom_eqb]; try reflexivity; try discriminate; try congruence; intros _ H1 H2.
  - apply Z.leb_le in H1, H2. apply Z.eqb_eq. lia.
  - now apply str_leb_antisym.
Qed.
Lemma atom_eqb_proper x y : atom_eqb x y = true -> atom_rank x <> 4%N.
Proof. destruct x, y; cbn; try discriminate; intros _; discriminate. Qed.

Lemma lex_leb_total a : forall b, lex_leb a b = true \/ lex_leb b a = true.
Proof.
  induction a as [|x a IH]; intros [|y b]; cbn [lex_leb]; auto.
  rewrite (atom_eqb_sym y x). destruct (atom_eqb x y); [apply IH|apply atom_leb_total].
Qed.
Lemma lex_leb_trans a : forall b c, lex_leb a b = true -> lex_leb b c = true -> lex_leb a c = true.
Proof.
  induction a as [|x a IH]; intros [|y b] [|z c]; cbn [lex_leb]; auto; try discriminate.
  destruct (atom_eqb x y) eqn:Exy.
  - apply atom_eqb_eq in Exy. subst y. destruct (atom_eqb x z); [apply IH|auto].
  - destruct (atom_eqb y z) eqn:Eyz.
    + apply atom_eqb_eq in Eyz. subst z. rewrite Exy. auto.
    + intros H1 H2. destruct (atom_eqb x z) eqn:Exz.
      * exfalso. pose proof (atom_eqb_proper _ _ Exz) as Hp. apply atom_eqb_eq in Exz. subst z.
        rewrite (atom_leb_antisym x y Hp H1 H2) in Exy. discriminate.
      * exact (atom_leb_trans _ _ _ H1 H2).
Qed.

Lemma mkey_leb_total (a b : list value) : mkey_leb a b = true \/ mkey_leb b a = true.
Proof. apply lex_leb_total. Qed.
Lemma mkey_leb_trans (a b c : list value) : mkey_leb a b = true -> mkey_leb b c = true -> mkey_leb a c = true.
Proof. apply lex_leb_trans. Qed.
Lemma vkey_leb_total (a b : value) : vkey_leb a b = true \/ vkey_leb b a = true.
Proof. apply atom_leb_total. Qed.
Lemma vkey_leb_trans (a b c : value) : vkey_leb a b = true -> vkey_leb b c = true -> vkey_leb a c = true.
Proof. apply atom_leb_trans. Qed.

Lemma mapM_snd {X K : Type} (f : X -> res K) : forall (xs : list X) kxs,
  mapM (fun x => match f x with Ok k => Ok (k, x) | Err e => Err e end) xs = Ok kxs -> map snd kxs = xs.
Proof.
  induction xs as [|x r IH]; intros kxs H; cbn [mapM] in H.
  - injection H as <-. reflexivity.
  - destruct (f x) as [k|e]; [|discriminate].
    destruct (mapM _ r) as [l|e] eqn:E; [|discriminate]. injection H as <-. cbn [map snd]. f_equal. now apply IH.
Qed.

(* do_sort on the modelled values: the result is the stable sort of the items by their
   (case-folded, multi-attribute) keys under the concrete order — no hypothesis on the order *)
Lemma f_sort_concrete reverse cs a xs ys : f_sort reverse cs a xs = Ok (VList ys) ->
  exists kxs, mkeyed a cs xs = Ok kxs /\ map snd kxs = xs /\
    let order := if reverse then flip mkey_leb else mkey_leb in
    ys = map snd (sort_by fst order kxs) /\ stable_sort_of fst order kxs (sort_by fst order kxs).
Proof.
  unfold f_sort. intros H. destruct (mkeyed a cs xs) as [kxs|e] eqn:E; [|discriminate].
  destruct (rows_check _); [discriminate|]. injection H as <-.
  exists kxs. split; [reflexivity|]. split; [exact (mapM_snd _ xs kxs E)|]. cbv zeta. split; [reflexivity|].
  destruct reverse.
  - apply sort_is_stable_sort; unfold flip; [intros p q; destruct (mkey_leb_total p q); auto|].
    intros p q r H1 H2. exact (mkey_leb_trans _ _ _ H2 H1).
  - apply sort_is_stable_sort; [exact mkey_leb_total|exact mkey_leb_trans].
Qed.
