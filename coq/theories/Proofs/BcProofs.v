(* C27 — lemmas about the bytecode-cache model. *)
From Coq Require Import List NArith Bool Arith Lia.
Import ListNotations.
From JV Require Import Model.Bc.
Open Scope N_scope.

Lemma bytes_eqb_eq a : forall b, bytes_eqb a b = true <-> a = b.
Proof.
  induction a as [|x a IH]; intros [|y b]; cbn; split; intro H; try reflexivity; try discriminate.
  - apply andb_true_iff in H as [H1 H2]. apply N.eqb_eq in H1. apply IH in H2. now subst.
  - injection H as -> ->. rewrite N.eqb_refl. cbn. now apply IH.
Qed.

(* ------------------------------------------------------------------ handler-table predicates (decidable;
   discharged by vm_compute on the table regenerated from bccache.py) *)
Definition exceptions : list exn :=
  [EEOF; EValue; EType; EUnpickling; EAttribute; EImport; EIndex; EKey; EUnicodeDecode; EMemory; EOverflow; EOtherException].
Definition pickle_table_ok (t : htable) : bool := forallb (catches (h_pickle t)) exceptions.
Definition marshal_table_ok (t : htable) : bool := forallb (catches (h_marshal t)) [EEOF; EValue; EType].

Lemma exceptions_complete e : e <> ENotException -> In e exceptions.
Proof. destruct e; cbn; intros H; try tauto. Qed.

Section Load.
  Variable magic : bytes.
  Variable pickle_load : bytes -> pres.
  Variable marshal_load : bytes -> mres.
  Variable tbl : htable.
  Hypothesis Tp : pickle_table_ok tbl = true.
  Hypothesis Tm : marshal_table_ok tbl = true.
  (* laws of CPython assumed of the two loaders (probed by the harness on every run) *)
  Hypothesis pickle_raises_exceptions : forall b e, pickle_load b = PExn e -> e <> ENotException.
  Hypothesis marshal_raises : forall b e, marshal_load b = MExn e -> In e [EEOF; EValue; EType].

  Let load := load_bytecode magic pickle_load marshal_load tbl.

  Lemma load_never_raises want data e : load want data <> Raise e.
  Proof.
    unfold load, load_bytecode.
    destruct (negb (bytes_eqb (firstn (length magic) data) magic)); [discriminate|].
    destruct (pickle_load (skipn (length magic) data)) as [c rest|e0] eqn:P.
    - destruct (negb (c =? want)); [discriminate|].
      destruct (marshal_load rest) as [cd|e1] eqn:M; [discriminate|].
      pose proof (marshal_raises _ _ M) as Hin.
      unfold marshal_table_ok in Tm. rewrite forallb_forall in Tm. rewrite (Tm e1 Hin). discriminate.
    - pose proof (exceptions_complete e0 (pickle_raises_exceptions _ _ P)) as Hin.
      unfold pickle_table_ok in Tp. rewrite forallb_forall in Tp. rewrite (Tp e0 Hin). discriminate.
  Qed.

  Lemma load_hit_complete want data cd : load want data = Hit cd ->
    firstn (length magic) data = magic /\
    exists rest, pickle_load (skipn (length magic) data) = POk want rest /\ marshal_load rest = MOk cd.
  Proof.
    unfold load, load_bytecode.
    destruct (bytes_eqb (firstn (length magic) data) magic) eqn:E; cbn [negb]; [|discriminate].
    apply bytes_eqb_eq in E. intros H. split; [exact E|].
    destruct (pickle_load (skipn (length magic) data)) as [c rest|e0].
    - destruct (c =? want) eqn:Ec; cbn [negb] in H; [|discriminate]. apply N.eqb_eq in Ec. subst c.
      exists rest. split; [reflexivity|].
      destruct (marshal_load rest) as [cd'|e1]; [now injection H as ->|].
      destruct (catches (h_marshal tbl) e1); discriminate.
    - destruct (catches (h_pickle tbl) e0); discriminate.
  Qed.

  (* framing laws of the encoders: decoding what was encoded, and failing on a proper prefix *)
  Variable pk : N -> bytes.
  Variable mk : N -> bytes.
  Hypothesis pk_ok : forall c rest, pickle_load (pk c ++ rest) = POk c rest.
  Hypothesis pk_trunc : forall c k, (k < length (pk c))%nat -> exists e, pickle_load (firstn k (pk c)) = PExn e.
  Hypothesis mk_ok : forall c, marshal_load (mk c) = MOk c.
  Hypothesis mk_trunc : forall c k, (k < length (mk c))%nat -> exists e, marshal_load (firstn k (mk c)) = MExn e.

  Lemma load_roundtrip want ck cd :
    load want (entry magic pk mk ck cd) = if ck =? want then Hit cd else Miss.
  Proof.
    unfold load, load_bytecode, entry.
    rewrite firstn_app, Nat.sub_diag, firstn_all. cbn [firstn]. rewrite app_nil_r.
    rewrite (proj2 (bytes_eqb_eq magic magic) eq_refl). cbn [negb].
    rewrite skipn_app, Nat.sub_diag, skipn_all. cbn [skipn app]. rewrite pk_ok.
    destruct (ck =? want); cbn [negb]; [|reflexivity]. now rewrite mk_ok.
  Qed.

  Lemma firstn_short_neq (k : nat) (l : bytes) : (k < length magic)%nat -> bytes_eqb (firstn (length magic) (firstn k l)) magic = false.
  Proof.
    intros Hk. destruct (bytes_eqb _ magic) eqn:E; [|reflexivity].
    apply bytes_eqb_eq in E. apply (f_equal (@length N)) in E. rewrite !firstn_length in E. lia.
  Qed.

  Lemma load_truncated want ck cd (k : nat) : (k < length (entry magic pk mk ck cd))%nat ->
    load want (firstn k (entry magic pk mk ck cd)) = Miss.
  Proof.
    intros Hk. unfold load, load_bytecode, entry in *. rewrite !app_length in Hk.
    destruct (Nat.lt_ge_cases k (length magic)) as [Hm|Hm].
    - rewrite (firstn_short_neq k _ Hm). reflexivity.
    - rewrite (firstn_app k magic). rewrite (firstn_all2 magic) by lia.
      rewrite firstn_app, Nat.sub_diag, firstn_all. cbn [firstn]. rewrite app_nil_r.
      rewrite (proj2 (bytes_eqb_eq magic magic) eq_refl). cbn [negb].
      rewrite skipn_app, Nat.sub_diag, skipn_all. cbn [skipn app].
      set (k1 := (k - length magic)%nat).
      destruct (Nat.lt_ge_cases k1 (length (pk ck))) as [Hp|Hp].
      + rewrite firstn_app. replace (k1 - length (pk ck))%nat with 0%nat by lia. cbn [firstn]. rewrite app_nil_r.
        destruct (pk_trunc ck k1 Hp) as [e He]. rewrite He.
        pose proof (exceptions_complete e (pickle_raises_exceptions _ _ He)) as Hin.
        unfold pickle_table_ok in Tp. rewrite forallb_forall in Tp. now rewrite (Tp e Hin).
      + rewrite firstn_app. rewrite (firstn_all2 (pk ck)) by lia. rewrite pk_ok.
        destruct (ck =? want); cbn [negb]; [|reflexivity].
        assert (Hq : (k1 - length (pk ck) < length (mk cd))%nat) by (unfold k1; lia).
        destruct (mk_trunc cd _ Hq) as [e He]. rewrite He.
        pose proof (marshal_raises _ _ He) as Hin.
        unfold marshal_table_ok in Tm. rewrite forallb_forall in Tm. now rewrite (Tm e Hin).
  Qed.
End Load.

(* the toy framing satisfies every law assumed above (the hypotheses are consistent) *)
Lemma exn_of_tag_exception t : exn_of_tag t <> ENotException.
Proof. unfold exn_of_tag. destruct t as [|p]; [discriminate|]. do 4 (destruct p; try discriminate). Qed.
Lemma toy_pickle_exceptions b e : toy_pickle_load b = PExn e -> e <> ENotException.
Proof.
  unfold toy_pickle_load. destruct b as [|x [|c [|y r]]];
    repeat match goal with |- context [if ?c then _ else _] => destruct c end; intros [= <-];
    try discriminate; apply exn_of_tag_exception.
Qed.
Lemma toy_marshal_raises b e : toy_marshal_load b = MExn e -> In e [EEOF; EValue; EType].
Proof.
  unfold toy_marshal_load. destruct b as [|x [|c [|y r]]]; cbn;
    repeat match goal with |- context [if ?c then _ else _] => destruct c end; intros [= <-]; cbn; tauto.
Qed.
Lemma toy_pk_ok c rest : toy_pickle_load (toy_pk c ++ rest) = POk c rest.
Proof. reflexivity. Qed.
Lemma toy_mk_ok c : toy_marshal_load (toy_mk c) = MOk c.
Proof. reflexivity. Qed.
Lemma toy_pk_trunc c (k : nat) : (k < length (toy_pk c))%nat -> exists e, toy_pickle_load (firstn k (toy_pk c)) = PExn e.
Proof. cbn. intros H. destruct k as [|[|[|k]]]; cbn; try lia; eexists; reflexivity. Qed.
Lemma toy_mk_trunc c (k : nat) : (k < length (toy_mk c))%nat -> exists e, toy_marshal_load (firstn k (toy_mk c)) = MExn e.
Proof. cbn. intros H. destruct k as [|[|[|k]]]; cbn; try lia; eexists; reflexivity. Qed.

(* ------------------------------------------------------------------ atomic replace *)
Section Atomic.
  Variables real tmp : fname.
  Hypothesis distinct : tmp <> real.

  Lemma fupd_other (s : fsys) f v g : g <> f -> fupd s f v g = s g.
  Proof. intros H. unfold fupd. apply N.eqb_neq in H. now rewrite H. Qed.
  Lemma fupd_same (s : fsys) f v : fupd s f v f = v.
  Proof. unfold fupd. now rewrite N.eqb_refl. Qed.

  Definition no_replace (w : wstep) : Prop := w <> WReplace.

  Lemma run_keeps_real l : forall s, Forall no_replace l -> fold_left (exec_step real tmp) l s real = s real.
  Proof.
    induction l as [|w l IH]; intros s H; [reflexivity|]. inversion H as [|? ? Hw Hl]; subst. cbn [fold_left].
    rewrite (IH _ Hl). destruct w; cbn [exec_step]; try reflexivity; try (apply fupd_other; congruence).
    now contradiction Hw.
  Qed.

  Lemma writes_tmp cs : forall s cur, s tmp = Some cur ->
    fold_left (exec_step real tmp) (map WWrite cs) s tmp = Some (cur ++ concat cs).
  Proof.
    induction cs as [|c cs IH]; intros s cur H; cbn [map fold_left concat].
    - now rewrite app_nil_r.
    - rewrite (IH _ (cur ++ c)); [now rewrite app_assoc|]. cbn [exec_step]. rewrite H. apply fupd_same.
  Qed.

  Definition body (chunks : list bytes) : list wstep := WCreate :: map WWrite chunks ++ [WClose].

  Lemma body_no_replace chunks : Forall no_replace (body chunks).
  Proof.
    unfold body. constructor; [discriminate|]. apply Forall_app. split.
    - apply Forall_forall. intros w Hw. apply in_map_iff in Hw as (c & <- & _). discriminate.
    - constructor; [discriminate|constructor].
  Qed.

  Lemma firstn_forall (P : wstep -> Prop) k : forall l, Forall P l -> Forall P (firstn k l).
  Proof.
    induction k as [|k IH]; intros l H; [constructor|]. destruct l as [|x l]; [constructor|].
    inversion H; subst. cbn. constructor; auto.
  Qed.

  Lemma body_tmp s0 chunks : fold_left (exec_step real tmp) (body chunks) s0 tmp = Some (concat chunks).
  Proof.
    unfold body. cbn [fold_left]. rewrite fold_left_app. cbn [fold_left exec_step].
    rewrite (writes_tmp chunks _ []); [reflexivity|]. cbn [exec_step]. apply fupd_same.
  Qed.

  Lemma crash_real s0 chunks k :
    crash_after real tmp s0 chunks k real = s0 real \/
    (crash_after real tmp s0 chunks k real = Some (concat chunks) /\ crash_after real tmp s0 chunks k tmp = None).
  Proof.
    unfold crash_after, dump_steps. fold (body chunks). rewrite firstn_app, fold_left_app.
    destruct (firstn (k - length (body chunks)) [WReplace]) as [|w r] eqn:E.
    - left. cbn [fold_left]. apply run_keeps_real. apply firstn_forall. apply body_no_replace.
    - right. destruct (k - length (body chunks))%nat as [|j] eqn:Ek; [discriminate|]. cbn in E. injection E as <- <-.
      assert (F : firstn k (body chunks) = body chunks) by (apply firstn_all2; lia).
      rewrite F. cbn [fold_left exec_step]. rewrite firstn_nil. cbn [fold_left].
      split; [|apply fupd_same]. rewrite fupd_other by congruence. rewrite fupd_same. apply body_tmp.
  Qed.
End Atomic.

(* ------------------------------------------------------------------ histories *)
Section HistoryProofs.
  Variable H : N -> N.
  Hypothesis H_inj : forall a b, H a = H b -> a = b.
  Variable opts_of : N -> N.
  Variable o0 : N.
  Hypothesis one_option_set : forall e, opts_of e = o0.

  Definition HInv (w : world) : Prop :=
    forall k ck c, bcache w k = Some (ck, c) -> exists s, ck = H s /\ c = (s, o0).

  Lemma hload_current w e n w' c : HInv w -> hload H opts_of w e n = (w', c) ->
    HInv w' /\ srcs w' = srcs w /\ c = (srcs w n, o0).
  Proof.
    intros I Hl. unfold hload in Hl.
    assert (St : forall w1 c1,
      ({| srcs := srcs w; bcache := fun k => if k =? n then Some (H (srcs w n), (srcs w n, opts_of e)) else bcache w k |},
       (srcs w n, opts_of e)) = (w1, c1) -> HInv w1 /\ srcs w1 = srcs w /\ c1 = (srcs w n, o0)).
    { intros w1 c1 E. injection E as <- <-. rewrite one_option_set. split; [|split; reflexivity].
      intros k ck c0. cbn [bcache]. destruct (k =? n).
      - intros [= <- <-]. now exists (srcs w n).
      - apply I. }
    destruct (bcache w n) as [[ck c0]|] eqn:B; [|exact (St _ _ Hl)].
    destruct (ck =? H (srcs w n)) eqn:E; [|exact (St _ _ Hl)].
    injection Hl as <- <-. apply N.eqb_eq in E. destruct (I n ck c0 B) as (s & Hs & ->).
    split; [exact I|]. split; [reflexivity|]. rewrite Hs in E. apply H_inj in E. now subst s.
  Qed.

  (* what a run must output: for every load the compilation of the source current at that
     moment with the (single) option set *)
  Fixpoint expected (s : N -> N) (h : list hop) : list (option code) :=
    match h with
    | [] => []
    | HLoad e n :: r => Some (s n, o0) :: expected s r
    | HModify n v :: r => None :: expected (fun k => if k =? n then v else s k) r
    | HClear :: r => None :: expected s r
    end.

  Lemma hrun_current h : forall w w' xs, HInv w -> hrun H opts_of w h = (w', xs) -> xs = expected (srcs w) h.
  Proof.
    induction h as [|o h IH]; intros w w' xs I R; cbn [hrun] in R.
    - now injection R as _ <-.
    - destruct (hstep H opts_of w o) as [w1 x] eqn:S. destruct (hrun H opts_of w1 h) as [w2 xs'] eqn:R1.
      injection R as _ <-. destruct o as [e n|n v|]; cbn [hstep] in S.
      + destruct (hload H opts_of w e n) as [w1' c] eqn:L. injection S as <- <-.
        destruct (hload_current w e n w1' c I L) as (I1 & E1 & ->).
        cbn [expected]. f_equal. rewrite <- E1. exact (IH _ _ _ I1 R1).
      + injection S as <- <-. cbn [expected]. f_equal.
        refine (IH _ _ _ _ R1). intros k ck c B. exact (I k ck c B).
      + injection S as <- <-. cbn [expected]. f_equal. refine (IH _ _ _ _ R1).
        intros k ck c B. discriminate.
  Qed.
End HistoryProofs.

(* proof of Properties.C27_atomic_replace *)
Lemma C27_atomic_replace_proof : forall real tmp s0 chunks k,
  tmp <> real ->
  (crash_after real tmp s0 chunks k real = s0 real \/ crash_after real tmp s0 chunks k real = Some (concat chunks)) /\
  (fault_after real tmp s0 chunks k real = s0 real \/ fault_after real tmp s0 chunks k real = Some (concat chunks)) /\
  crash_after real tmp s0 chunks (length (dump_steps chunks)) real = Some (concat chunks).
Proof.
  intros real tmp s0 chunks k D.
  assert (A : forall j, crash_after real tmp s0 chunks j real = s0 real \/ crash_after real tmp s0 chunks j real = Some (concat chunks)).
  { intros j. destruct (crash_real real tmp D s0 chunks j) as [X|[X _]]; auto. }
  split; [exact (A k)|]. split.
  - unfold fault_after. rewrite (fupd_other _ tmp None real) by congruence. exact (A k).
  - unfold crash_after. rewrite firstn_all. unfold dump_steps. rewrite fold_left_app. cbn [fold_left exec_step].
    rewrite (fupd_other _ tmp None real) by congruence. rewrite fupd_same. exact (body_tmp real tmp s0 chunks).
Qed.
