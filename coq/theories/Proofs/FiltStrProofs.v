(* C23 — lemmas about Model/FiltStr.v. *)
From Coq Require Import List NArith ZArith Bool Arith Lia.
Import ListNotations.
From JV Require Import Model.FiltStr.
Ltac Zify.zify_post_hook ::= Z.to_euclidean_division_equations.

(* ------------------------------------------------------------------ truncate *)
Lemma before_last_space_split s p : before_last_space s = Some p -> exists q, s = p ++ 32%N :: q.
Proof.
  revert p; induction s as [|c r IH]; intros p H; cbn [before_last_space] in H; [discriminate|].
  destruct (before_last_space r) as [p'|] eqn:E.
  - injection H as <-. destruct (IH p' eq_refl) as [q ->]. now exists q.
  - destruct (N.eqb_spec c 32); [|discriminate]. injection H as <-. subst. now exists r.
Qed.

Definition is_prefix (p s : str) : Prop := exists q, s = p ++ q.

Lemma rsplit_head_prefix s : is_prefix (rsplit_head s) s.
Proof.
  unfold rsplit_head. destruct (before_last_space s) as [p|] eqn:E.
  - destruct (before_last_space_split s p E) as [q ->]. now exists (32%N :: q).
  - exists []. now rewrite app_nil_r.
Qed.

Lemma prefix_len p s : is_prefix p s -> (len p <= len s)%Z.
Proof. intros [q ->]. unfold len. rewrite app_length. lia. Qed.

Lemma prefix_trans a b c : is_prefix a b -> is_prefix b c -> is_prefix a c.
Proof. intros [q ->] [q' ->]. exists (q ++ q'). now rewrite app_assoc. Qed.

Lemma firstn_prefix k (s : str) : is_prefix (firstn k s) s.
Proof. exists (skipn k s). now rewrite firstn_skipn. Qed.

Lemma truncate_spec pol s L kw e lw r :
  do_truncate pol s L kw e lw = Ok r ->
  let lw' := match lw with Some l => l | None => pol end in
  (len e <= L)%Z /\ (0 <= lw')%Z /\
  ((len s <= L + lw')%Z /\ r = s \/
   (L + lw' < len s)%Z /\ (len r <= L)%Z /\ exists p, is_prefix p s /\ r = p ++ e).
Proof.
  intros H lw'. unfold do_truncate in H. fold lw' in H.
  destruct (Z.ltb_spec L (len e)); [discriminate|].
  destruct (Z.ltb_spec lw' 0); [discriminate|].
  split; [assumption|]. split; [assumption|].
  destruct (Z.leb_spec (len s) (L + lw')) as [Hle|Hgt].
  - left. injection H as <-. auto.
  - right. split; [exact Hgt|].
    set (cut := firstn (Z.to_nat (L - len e)) s) in *.
    assert (Hcut : (len cut <= L - len e)%Z).
    { unfold cut, len in *. rewrite firstn_length. lia. }
    destruct kw; injection H as <-.
    + split; [unfold len in *; rewrite app_length; lia|]. exists cut. split; [apply firstn_prefix|reflexivity].
    + pose proof (rsplit_head_prefix cut) as P. pose proof (prefix_len _ _ P) as PL.
      split; [unfold len in *; rewrite app_length; lia|].
      exists (rsplit_head cut). split; [exact (prefix_trans _ _ _ P (firstn_prefix _ s))|reflexivity].
Qed.

(* ------------------------------------------------------------------ indent *)
Lemma join_cons_app (d p x : str) r : p ++ join d (x :: r) = join d ((p ++ x) :: r).
Proof. destruct r; cbn [join]; [reflexivity|now rewrite app_assoc]. Qed.

Lemma join_prefixing (nl ind l0 : str) rest :
  join (nl ++ ind) (l0 :: rest) = join nl (l0 :: map (app ind) rest).
Proof.
  revert l0; induction rest as [|l1 rest IH]; intros l0; [reflexivity|].
  change (join (nl ++ ind) (l0 :: l1 :: rest)) with (l0 ++ (nl ++ ind) ++ join (nl ++ ind) (l1 :: rest)).
  rewrite IH. cbn [map]. change (join nl (l0 :: (ind ++ l1) :: map (app ind) rest))
    with (l0 ++ nl ++ join nl ((ind ++ l1) :: map (app ind) rest)).
  rewrite <- join_cons_app. now rewrite <- !app_assoc.
Qed.

Lemma splitlines_go_nonempty : forall s cur, splitlines_go cur (s ++ [10%N]) <> [].
Proof.
  induction s as [|c r IH]; intros cur; cbn [app splitlines_go].
  - cbn. discriminate.
  - destruct (is_linebreak c); [|apply IH].
    destruct (r ++ [10%N]) as [|c2 r']; [discriminate|].
    destruct ((c =? 13)%N && (c2 =? 10)%N); discriminate.
Qed.

(* what the documentation says: every line keeps its text; the indentation is put in front
   of the first line iff `first`, in front of a later line iff it is non-empty or `blank` *)
Definition spec_indent (ind : str) (first blank : bool) (lines : list str) : str :=
  join [10%N]
       (match lines with
        | [] => []
        | l0 :: rest => ((if first then ind else []) ++ l0)
                        :: map (fun l => if blank || nonempty l then ind ++ l else l) rest
        end).

Lemma indent_spec s w first blank :
  do_indent s w first blank = spec_indent (indention_of w) first blank (splitlines (s ++ [10%N])).
Proof.
  unfold do_indent, spec_indent, splitlines.
  pose proof (splitlines_go_nonempty s []) as Hne.
  destruct (splitlines_go [] (s ++ [10%N])) as [|l0 rest]; [congruence|].
  set (ind := indention_of w).
  assert (E : (if blank then join ([10%N] ++ ind) (l0 :: rest)
               else match rest with
                    | [] => l0
                    | _ => l0 ++ [10%N] ++ join [10%N] (map (fun line => if nonempty line then ind ++ line else line) rest)
                    end)
              = join [10%N] (l0 :: map (fun l => if blank || nonempty l then ind ++ l else l) rest)).
  { destruct blank; cbn [orb].
    - apply join_prefixing.
    - destruct rest as [|l1 rest']; reflexivity. }
  rewrite E. destruct first; [apply join_cons_app|reflexivity].
Qed.

(* ------------------------------------------------------------------ center *)
Lemma center_spec s w :
  exists l r, do_center s w = repeat 32%N l ++ s ++ repeat 32%N r /\
              Z.of_nat (l + r) = Z.max 0 (w - len s) /\ (l <= r + 1 /\ r <= l + 1).
Proof.
  unfold do_center. destruct (Z.leb_spec (w - len s) 0) as [H|H].
  - exists 0, 0. cbn [repeat app]. rewrite app_nil_r. repeat split; lia.
  - set (marg := (w - len s)%Z) in *.
    set (extra := if Z.odd marg && Z.odd w then 1%Z else 0%Z).
    assert (Hex : (extra = 0 \/ (extra = 1 /\ marg mod 2 = 1))%Z).
    { unfold extra. destruct (Z.odd marg) eqn:Eo; cbn [andb]; [|now left].
      destruct (Z.odd w); [right|now left]. split; [reflexivity|].
      apply Z.odd_spec in Eo. destruct Eo as [m Hm]. lia. }
    exists (Z.to_nat (marg / 2 + extra)), (Z.to_nat (marg - (marg / 2 + extra))).
    split; [reflexivity|]. destruct Hex as [->|[-> Hm]]; lia.
Qed.

(* ------------------------------------------------------------------ wordcount *)
Section Words.
  Variable is_word : N -> bool.
  Lemma count_runs_sep : forall s1 b c s2, is_word c = false ->
    count_runs is_word b (s1 ++ c :: s2) = (count_runs is_word b s1 + count_runs is_word false s2)%N.
  Proof.
    induction s1 as [|x r IH]; intros b c s2 Hc; cbn [app count_runs].
    - now rewrite Hc.
    - destruct (is_word x); [destruct b|]; rewrite IH by exact Hc; lia.
  Qed.
  Lemma count_runs_word : forall s b, forallb is_word s = true -> s <> [] ->
    count_runs is_word b s = if b then 0%N else 1%N.
  Proof.
    induction s as [|x r IH]; intros b Hall Hne; [congruence|].
    cbn [forallb] in Hall. apply andb_prop in Hall. destruct Hall as [Hx Hr].
    cbn [count_runs]. rewrite Hx. destruct r as [|y r'].
    - destruct b; reflexivity.
    - destruct b; rewrite (IH true Hr) by discriminate; reflexivity.
  Qed.
End Words.

(* ------------------------------------------------------------------ filesizeformat *)
Lemma unit_go_spec base b : (2 <= base)%Z -> forall todo i j n d,
  (base ^ (Z.of_nat i + 1) <= b)%Z ->
  unit_go base b i todo = FUnit j n d ->
  i <= j <= i + todo /\ (base ^ (Z.of_nat j + 1) <= b)%Z /\
  (j < i + todo -> (b < base ^ (Z.of_nat j + 2))%Z) /\
  n = (base * b)%Z /\ d = (base ^ (Z.of_nat j + 2))%Z.
Proof.
  intros Hb. induction todo as [|t IH]; intros i j n d Hi H; cbn [unit_go] in H.
  - injection H as <- <- <-. repeat split; try lia; try exact Hi.
  - destruct (Z.ltb_spec b (base ^ (Z.of_nat i + 2))) as [Hlt|Hge].
    + injection H as <- <- <-. repeat split; try lia; try exact Hi.
    + assert (Hi' : (base ^ (Z.of_nat (S i) + 1) <= b)%Z).
      { replace (Z.of_nat (S i) + 1)%Z with (Z.of_nat i + 2)%Z by lia. exact Hge. }
      destruct (IH (S i) j n d Hi' H) as (A & B & C & D & E).
      repeat split; try lia; try assumption; try (intros Hj; apply C; lia).
Qed.

Lemma filesize_spec (b : Z) (binary : bool) :
  let base := if binary then 1024%Z else 1000%Z in
  (base <= b)%Z ->
  exists i, i <= 7 /\
    do_filesizeformat b binary = FUnit i (base * b) (base ^ (Z.of_nat i + 2)) /\
    (base ^ (Z.of_nat i + 1) <= b)%Z /\ (i < 7 -> (b < base ^ (Z.of_nat i + 2))%Z).
Proof.
  intros base Hb. unfold do_filesizeformat. fold base.
  assert (H2 : (2 <= base)%Z) by (unfold base; destruct binary; lia).
  destruct (Z.eqb_spec b 1) as [|_]; [lia|]. destruct (Z.ltb_spec b base) as [|_]; [lia|].
  destruct (unit_go base b 0 7) as [| |j nn d] eqn:E.
  - exfalso. clear -E. cbn [unit_go] in E. repeat (destruct (_ <? _)%Z in E; try discriminate).
  - exfalso. clear -E. cbn [unit_go] in E. repeat (destruct (_ <? _)%Z in E; try discriminate).
  - destruct (unit_go_spec base b H2 7 0 j nn d ltac:(cbn; lia) E) as (A & B & C & -> & ->).
    exists j. repeat split; try lia; try assumption; try (intros Hj; apply C; lia).
Qed.

(* ------------------------------------------------------------------ wordwrap *)
Section Wrap.
  Variable is_space : N -> bool.
  Variable wrap : str -> list str.
  Definition nonws (s : str) : str := filter (fun c => negb (is_space c)) s.
  Hypothesis linebreak_is_space : forall c, is_linebreak c = true -> is_space c = true.
  (* contract of textwrap.wrap: it only drops / moves whitespace *)
  Hypothesis wrap_preserves : forall line, nonws (concat (wrap line)) = nonws line.

  Lemma nonws_app a b : nonws (a ++ b) = nonws a ++ nonws b.
  Proof. unfold nonws. apply filter_app. Qed.

  Lemma nonws_join ws xs : nonws ws = [] -> nonws (join ws xs) = nonws (concat xs).
  Proof.
    intros Hws. induction xs as [|x r IH]; [reflexivity|].
    destruct r as [|y r']; [cbn [join concat]; now rewrite app_nil_r|].
    change (join ws (x :: y :: r')) with (x ++ ws ++ join ws (y :: r')).
    cbn [concat]. rewrite !nonws_app, Hws, IH. cbn [concat app]. now rewrite nonws_app.
  Qed.

  Lemma nonws_splitlines_go : forall n s cur, length s <= n ->
    nonws (concat (splitlines_go cur s)) = nonws (rev cur ++ s).
  Proof.
    induction n as [|n IH]; intros s cur Hn.
    - destruct s; [|cbn in Hn; lia]. cbn [splitlines_go]. destruct cur; [reflexivity|].
      cbn [concat]. now rewrite !app_nil_r.
    - destruct s as [|c r]; [apply (IH [] cur); cbn; lia|].
      cbn [splitlines_go length] in *. destruct (is_linebreak c) eqn:Ec.
      + assert (Hc : nonws [c] = []) by (unfold nonws; cbn [filter]; now rewrite (linebreak_is_space c Ec)).
        destruct r as [|c2 r'].
        * cbn [concat]. rewrite app_nil_r. rewrite nonws_app, Hc. now rewrite app_nil_r.
        * destruct ((c =? 13)%N && (c2 =? 10)%N) eqn:E2; cbn [concat].
          -- rewrite nonws_app, (IH r' []) by (cbn [length] in Hn; lia). cbn [rev app].
             apply andb_prop in E2. destruct E2 as [_ E2]. apply N.eqb_eq in E2. subst c2.
             assert (H10 : nonws [10%N] = []) by (unfold nonws; cbn [filter]; now rewrite (linebreak_is_space 10%N eq_refl)).
             change (c :: 10%N :: r') with ([c] ++ [10%N] ++ r'). rewrite !nonws_app, Hc, H10. reflexivity.
          -- rewrite nonws_app, (IH (c2 :: r') []) by (cbn [length] in *; lia). cbn [rev app].
             change (c :: c2 :: r') with ([c] ++ c2 :: r'). rewrite !nonws_app, Hc. reflexivity.
      + rewrite (IH r (c :: cur)) by lia. cbn [rev]. now rewrite <- app_assoc.
  Qed.

  Lemma nonws_splitlines s : nonws (concat (splitlines s)) = nonws s.
  Proof. unfold splitlines. now rewrite (nonws_splitlines_go (length s) s []). Qed.

  Lemma nonws_concat_map (f : str -> str) ls :
    (forall l, nonws (f l) = nonws l) -> nonws (concat (map f ls)) = nonws (concat ls).
  Proof.
    intros Hf. induction ls as [|l r IH]; [reflexivity|]. cbn [map concat]. now rewrite !nonws_app, Hf, IH.
  Qed.

  Lemma wordwrap_preserves_nonws ws s : nonws ws = [] -> nonws (do_wordwrap wrap ws s) = nonws s.
  Proof.
    intros Hws. unfold do_wordwrap. rewrite (nonws_join ws _ Hws).
    rewrite (nonws_concat_map (fun line => join ws (wrap line))).
    - apply nonws_splitlines.
    - intros l. rewrite (nonws_join ws _ Hws). apply wrap_preserves.
  Qed.
End Wrap.

(* ------------------------------------------------------------------ int / float *)
Section Conv.
  Variables V I F : Type.
  Variable is_str : V -> bool.
  Variable int_str : V -> Z -> outcome I.
  Variable int_val : V -> outcome I.
  Variable float_val : V -> outcome F.
  Variable int_float : F -> outcome I.
  Variables outer inner cf : list exn.
  (* the CPython conversion-outcome law: int() and float() raise nothing but
     TypeError, ValueError, OverflowError *)
  Definition conv_exn (e : exn) : Prop := e = TypeError \/ e = ValueError \/ e = OverflowError.
  Hypothesis H_int_str : forall v b e, int_str v b = Raises e -> conv_exn e.
  Hypothesis H_int_val : forall v e, int_val v = Raises e -> conv_exn e.
  Hypothesis H_float_val : forall v e, float_val v = Raises e -> conv_exn e.
  Hypothesis H_int_float : forall f e, int_float f = Raises e -> conv_exn e.
  Definition covers (l : list exn) : Prop :=
    caught TypeError l = true /\ caught ValueError l = true /\ caught OverflowError l = true.

  Lemma covers_caught l e : covers l -> conv_exn e -> caught e l = true.
  Proof. intros (A & B & C) [->|[->| ->]]; assumption. Qed.

  Lemma int_total_gen : covers outer -> covers inner ->
    forall v d b, exists i, do_int V I F is_str int_str int_val float_val int_float outer inner v d b = Returns i.
  Proof.
    intros Ho Hi v d b. unfold do_int.
    assert (Hfirst : forall e, (if is_str v then int_str v b else int_val v) = Raises e -> conv_exn e).
    { intros e. destruct (is_str v); [apply H_int_str|apply H_int_val]. }
    destruct (if is_str v then int_str v b else int_val v) as [i|e]; [eauto|].
    rewrite (covers_caught outer e Ho (Hfirst e eq_refl)).
    destruct (float_val v) as [f|e'] eqn:Ef.
    - destruct (int_float f) as [i|e''] eqn:Eif; [eauto|].
      rewrite (covers_caught inner e'' Hi (H_int_float f e'' Eif)). eauto.
    - rewrite (covers_caught inner e' Hi (H_float_val v e' Ef)). eauto.
  Qed.

  Lemma float_total_gen : covers cf ->
    forall v d, exists f, do_float V F float_val cf v d = Returns f.
  Proof.
    intros Hc v d. unfold do_float. destruct (float_val v) as [f|e] eqn:E; [eauto|].
    rewrite (covers_caught cf e Hc (H_float_val v e E)). eauto.
  Qed.
End Conv.

(* ------------------------------------------------------------------ the lines of a text, as documented *)
(* every line break ends a line; the text after the last break is the last line (empty when
   the text ends with a break) *)
Fixpoint doc_lines_go (cur : str) (s : str) : list str :=
  match s with
  | [] => [rev cur]
  | c :: r =>
      if is_linebreak c then
        match r with
        | c2 :: r' => if ((c =? 13) && (c2 =? 10))%N then rev cur :: doc_lines_go [] r'
                      else rev cur :: doc_lines_go [] r
        | [] => [rev cur; []]
        end
      else doc_lines_go (c :: cur) r
  end.
Definition doc_lines (s : str) : list str := doc_lines_go [] s.
Fixpoint ends_with_cr (s : str) : bool :=
  match s with
  | [] => false
  | c :: r => match r with [] => (c =? 13)%N | _ => ends_with_cr r end
  end.

(* do_indent's `s + "\n"` quirk computes the documented lines — unless the text ends with a
   lone carriage return, which then merges with the appended "\n" into one break *)
Lemma splitlines_quirk : forall n s cur, length s <= n -> ends_with_cr s = false ->
  splitlines_go cur (s ++ [10%N]) = doc_lines_go cur s.
Proof.
  induction n as [|n IH]; intros s cur Hn Hcr.
  - destruct s; [reflexivity|cbn in Hn; lia].
  - destruct s as [|c r]; [reflexivity|]. cbn [app splitlines_go doc_lines_go].
    destruct (is_linebreak c) eqn:Ec.
    + destruct r as [|c2 r'].
      * cbn [app]. cbn [ends_with_cr] in Hcr. rewrite Hcr. cbn [andb].
        cbn [splitlines_go]. reflexivity.
      * cbn [app]. destruct ((c =? 13)%N && (c2 =? 10)%N) eqn:E2.
        -- f_equal. destruct r' as [|c3 r''].
           ++ reflexivity.
           ++ apply IH; [cbn [length] in *; lia|]. exact Hcr.
        -- f_equal. apply (IH (c2 :: r') []); [cbn [length] in *; lia|exact Hcr].
    + apply IH; [cbn [length] in *; lia|]. destruct r; [reflexivity|exact Hcr].
Qed.
