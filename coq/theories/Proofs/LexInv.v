(* Invariants of the tokeniter loop, proved for every configuration, every state and every
   source by induction over the loop (fuel): the emitted items tile the consumed source,
   line numbers and start offsets are the prefix sums, dropped gaps are whitespace with a
   valid reason, and the token types follow the state machine. *)
From Coq Require Import List NArith Bool Arith Lia.
Import ListNotations.
From JV Require Import Model.LexBase Model.LexTokeniter.
Open Scope N_scope.

(* ------------------------------------------------------------------ list facts *)
Lemma texts_app : forall a b, texts (a ++ b) = texts a ++ texts b.
Proof. induction a as [|i a IH]; intros b; cbn [texts app]; [reflexivity|]. rewrite IH, app_assoc. reflexivity. Qed.

Lemma count_nl_app : forall a b, count_nl (a ++ b) = count_nl a + count_nl b.
Proof. induction a as [|x a IH]; intros b; cbn [count_nl app]; [reflexivity|]. rewrite IH. lia. Qed.

Lemma firstn_plus : forall (p n : nat) (s : str), firstn (p + n) s = firstn p s ++ firstn n (skipn p s).
Proof.
  induction p as [|p IH]; intros n s; [reflexivity|].
  destruct s as [|x s]; cbn [Nat.add firstn skipn app].
  - destruct n; reflexivity.
  - rewrite IH. reflexivity.
Qed.

Lemma rstrip_tail_ws : forall t, forallb is_space (skipn (rstrip_n t) t) = true.
Proof.
  induction t as [|c r IH]; [reflexivity|]. cbn [rstrip_n].
  destruct (rstrip_n r) as [|k] eqn:E.
  - cbn [skipn] in IH. destruct (is_space c) eqn:Ec; cbn [skipn forallb]; [rewrite Ec|]; exact IH.
  - cbn [skipn]. exact IH.
Qed.

Lemma after_last_nl_tail : forall t, count_nl (skipn (after_last_nl t) t) = 0.
Proof.
  induction t as [|c r IH]; [reflexivity|]. cbn [after_last_nl].
  destruct (after_last_nl r) as [|k] eqn:E.
  - cbn [skipn] in IH. destruct (c =? 10) eqn:Ec; cbn [skipn count_nl]; [exact IH|]. rewrite Ec, IH. reflexivity.
  - cbn [skipn]. exact IH.
Qed.

(* ------------------------------------------------------------------ the invariants *)
Fixpoint lines_ok (line : N) (its : list item) : Prop :=
  match its with
  | [] => True
  | ITok ln _ v _ :: r => ln = line /\ lines_ok (line + count_nl v) r
  | IGap g _ :: r => lines_ok (line + count_nl g) r
  end.

Fixpoint starts_ok (pos : N) (its : list item) : Prop :=
  match its with
  | [] => True
  | ITok _ _ v st :: r => st = pos /\ starts_ok (pos + N.of_nat (length v)) r
  | IGap g _ :: r => starts_ok (pos + N.of_nat (length g)) r
  end.

(* a gap is whitespace; an lstrip gap needs lstrip_blocks and contains no line break *)
Definition gap_ok (c : cfg) (g : str) (w : gapwhy) : Prop :=
  forallb is_space g = true /\ g <> [] /\
  match w with GLstrip => c_lstrip c = true /\ count_nl g = 0 | GMinus => True end.

Fixpoint gaps_ok (c : cfg) (its : list item) : Prop :=
  match its with
  | [] => True
  | ITok _ _ _ _ :: r => gaps_ok c r
  | IGap g w :: r => gap_ok c g w /\ gaps_ok c r
  end.

(* the state machine over token types *)
Definition tag_token (t : tty) : bool :=
  match t with TWs | TFloat | TInt | TName | TString | TOp => true | _ => false end.

Definition delta (st : lstate) (t : tty) : option lstate :=
  match st, t with
  | SRoot, TData => Some SRoot
  | SRoot, TCommentBegin => Some SComment
  | SRoot, TBlockBegin => Some SBlock
  | SRoot, TVarBegin => Some SVar
  | SRoot, TRawBegin => Some SRaw
  | SRoot, TLsBegin => Some SLs
  | SRoot, TLcBegin => Some SLc
  | SComment, TComment => Some SComment
  | SComment, TCommentEnd => Some SRoot
  | SRaw, TData => Some SRaw
  | SRaw, TRawEnd => Some SRoot
  | SLc, TLc => Some SLc
  | SLc, TLcEnd => Some SRoot
  | SBlock, TBlockEnd => Some SRoot
  | SVar, TVarEnd => Some SRoot
  | SLs, TLsEnd => Some SRoot
  | SBlock, t => if tag_token t then Some SBlock else None
  | SVar, t => if tag_token t then Some SVar else None
  | SLs, t => if tag_token t then Some SLs else None
  | _, _ => None
  end.

Fixpoint walk (st : lstate) (its : list item) : option lstate :=
  match its with
  | [] => Some st
  | ITok _ ty _ _ :: r => match delta st ty with Some st' => walk st' r | None => None end
  | IGap _ _ :: r => walk st r
  end.

Lemma lines_ok_app : forall a b line,
  lines_ok line (a ++ b) <-> lines_ok line a /\ lines_ok (line + count_nl (texts a)) b.
Proof.
  induction a as [|i a IH]; intros b line; cbn [app lines_ok texts count_nl].
  - rewrite N.add_0_r. tauto.
  - destruct i as [ln ty v st|g w]; cbn [item_text]; rewrite count_nl_app, N.add_assoc, IH; tauto.
Qed.

Lemma starts_ok_app : forall a b pos,
  starts_ok pos (a ++ b) <-> starts_ok pos a /\ starts_ok (pos + N.of_nat (length (texts a))) b.
Proof.
  induction a as [|i a IH]; intros b pos; cbn [app starts_ok texts length].
  - rewrite N.add_0_r. tauto.
  - destruct i as [ln ty v st|g w]; cbn [item_text]; rewrite app_length, Nat2N.inj_add, N.add_assoc, IH; tauto.
Qed.

Lemma gaps_ok_app : forall c a b, gaps_ok c (a ++ b) <-> gaps_ok c a /\ gaps_ok c b.
Proof.
  induction a as [|i a IH]; intros b; cbn [app gaps_ok]; [tauto|].
  destruct i; rewrite IH; tauto.
Qed.

Lemma walk_app : forall a b st st1, walk st a = Some st1 -> walk st (a ++ b) = walk st1 b.
Proof.
  induction a as [|i a IH]; intros b st st1 H; cbn [app walk] in *.
  - injection H as <-. reflexivity.
  - destruct i as [ln ty v s0|g w]; [destruct (delta st ty); [|discriminate]|]; eauto.
Qed.

Definition seg_ok (c : cfg) (line pos : N) (st : lstate) (its : list item) (consumed : str)
           (line' : N) (st' : lstate) : Prop :=
  texts its = consumed /\ lines_ok line its /\ starts_ok pos its /\ gaps_ok c its /\
  line' = line + count_nl consumed /\ walk st its = Some st'.

(* ------------------------------------------------------------------ emit_text_tag *)
Lemma tok_nonempty_texts : forall ln ty v st, texts (tok_nonempty ln ty v st) = v.
Proof. intros; unfold tok_nonempty; destruct v; cbn; [reflexivity|]. rewrite app_nil_r. reflexivity. Qed.
Lemma gap_nonempty_texts : forall g w, texts (gap_nonempty g w) = g.
Proof. intros; unfold gap_nonempty; destruct g; cbn; [reflexivity|]. rewrite app_nil_r. reflexivity. Qed.

Lemma tok_nonempty_lines : forall ln ty v st, lines_ok ln (tok_nonempty ln ty v st).
Proof. intros; unfold tok_nonempty; destruct v; cbn; auto. Qed.
Lemma tok_nonempty_starts : forall ln ty v st, starts_ok st (tok_nonempty ln ty v st).
Proof. intros; unfold tok_nonempty; destruct v; cbn; auto. Qed.
Lemma tok_nonempty_gaps : forall c ln ty v st, gaps_ok c (tok_nonempty ln ty v st).
Proof. intros; unfold tok_nonempty; destruct v; cbn; auto. Qed.
Lemma tok_nonempty_walk : forall st ln ty v p, delta st ty = Some st -> walk st (tok_nonempty ln ty v p) = Some st.
Proof. intros st ln ty v p H; unfold tok_nonempty; destruct v; cbn; [reflexivity|]. rewrite H. reflexivity. Qed.

Lemma strip_text_ok : forall c sg var ls text k why nls,
  strip_text c sg var ls text = (k, why, nls) ->
  nls = count_nl (skipn k text) /\
  (skipn k text <> [] -> gap_ok c (skipn k text) why).
Proof.
  intros c sg var ls text k why nls H. unfold strip_text in H.
  assert (Hfull : forall w, (length text, w, 0) = (k, why, nls) ->
            nls = count_nl (skipn k text) /\ (skipn k text <> [] -> gap_ok c (skipn k text) why)).
  { intros w E. injection E as <- <- <-. rewrite skipn_all. split; [reflexivity|]. intros F; contradiction. }
  destruct sg.
  - destruct (c_lstrip c && negb var) eqn:E1; [|eauto].
    destruct ((0 <? after_last_nl text)%nat || ls) eqn:E2; [|eauto].
    destruct (nonempty (skipn (after_last_nl text) text) && forallb is_space (skipn (after_last_nl text) text)) eqn:E3; [|eauto].
    injection H as <- <- <-.
    apply andb_true_iff in E1 as [E1 _]. apply andb_true_iff in E3 as [_ E3].
    rewrite after_last_nl_tail. split; [reflexivity|]. intros Hne. unfold gap_ok.
    rewrite after_last_nl_tail. auto.
  - injection H as <- <- <-. split; [reflexivity|]. intros Hne. unfold gap_ok.
    split; [apply rstrip_tail_ws|]. auto.
  - eauto.
Qed.

Lemma emit_text_tag_ok : forall c sg var ls line pos text tag ty its line' st st',
  emit_text_tag c sg var ls line pos text tag ty = (its, line') ->
  delta st TData = Some st -> delta st ty = Some st' ->
  seg_ok c line pos st its (text ++ tag) line' st'.
Proof.
  intros c sg var ls line pos text tag ty its line' st st' H Hd Ht.
  unfold emit_text_tag in H.
  destruct (strip_text c sg var ls text) as [[k why] nls] eqn:Es.
  apply strip_text_ok in Es as [-> Hgap]. injection H as <- <-.
  assert (Hsplit : firstn k text ++ skipn k text = text) by apply firstn_skipn.
  assert (Hcnt : count_nl text = count_nl (firstn k text) + count_nl (skipn k text))
    by (rewrite <- count_nl_app, Hsplit; reflexivity).
  assert (Hlen : N.of_nat (length text) = N.of_nat (length (firstn k text)) + N.of_nat (length (skipn k text)))
    by (rewrite <- Nat2N.inj_add, <- app_length, Hsplit; reflexivity).
  unfold seg_ok. repeat split.
  - rewrite !texts_app, tok_nonempty_texts, gap_nonempty_texts. cbn [texts item_text].
    rewrite app_nil_r, app_assoc, Hsplit. reflexivity.
  - apply lines_ok_app. split; [apply tok_nonempty_lines|]. rewrite tok_nonempty_texts.
    apply lines_ok_app. split.
    + unfold gap_nonempty. destruct (skipn k text); cbn; auto.
    + rewrite gap_nonempty_texts. cbn [lines_ok]. split; [lia|exact I].
  - apply starts_ok_app. split; [apply tok_nonempty_starts|]. rewrite tok_nonempty_texts.
    apply starts_ok_app. split.
    + unfold gap_nonempty. destruct (skipn k text); cbn; auto.
    + rewrite gap_nonempty_texts. cbn [starts_ok]. split; [lia|exact I].
  - apply gaps_ok_app. split; [apply tok_nonempty_gaps|]. apply gaps_ok_app. split; [|cbn; exact I].
    unfold gap_nonempty. destruct (skipn k text) eqn:Eg; cbn [nonempty gaps_ok]; [exact I|].
    split; [|exact I]. apply Hgap. discriminate.
  - rewrite count_nl_app. lia.
  - rewrite (walk_app _ _ st st) by (apply tok_nonempty_walk; exact Hd).
    rewrite (walk_app _ _ st st) by (unfold gap_nonempty; destruct (skipn k text); reflexivity).
    cbn [walk]. rewrite Ht. reflexivity.
Qed.

(* ------------------------------------------------------------------ one step *)
Lemma scan_tagrule_tag_token : forall c prev s ty n, scan_tagrule c prev s = Some (ty, n) -> tag_token ty = true.
Proof.
  intros c prev s ty n H. unfold scan_tagrule in H.
  repeat match type of H with
  | match ?x with Some _ => _ | None => _ end = _ => destruct x
  end; try discriminate; injection H as <- <-; reflexivity.
Qed.

Lemma single_tok_seg : forall c line pos st st' ty v,
  delta st ty = Some st' ->
  seg_ok c line pos st [ITok line ty v pos] v (line + count_nl v) st'.
Proof.
  intros c line pos st st' ty v H. unfold seg_ok. cbn [texts item_text lines_ok starts_ok gaps_ok walk].
  rewrite app_nil_r, H. repeat split.
Qed.

Lemma step_tag_ok : forall c endrule endty bal line pos prev st s its n st' bal' line',
  step_tag c endrule endty bal line pos prev st s = SGo its n st' bal' line' ->
  delta st endty = Some SRoot -> (forall t, tag_token t = true -> delta st t = Some st) ->
  seg_ok c line pos st its (firstn n s) line' st'.
Proof.
  intros c endrule endty bal line pos prev st s its n st' bal' line' H Hend Htag.
  unfold step_tag in H.
  destruct (match bal with [] => endrule | _ :: _ => None end) as [m|] eqn:Er.
  - injection H as <- <- <- <- <-. apply single_tok_seg. exact Hend.
  - destruct (scan_tagrule c prev s) as [[ty m]|] eqn:Es.
    2:{ destruct s; discriminate. }
    pose proof (scan_tagrule_tag_token _ _ _ _ _ Es) as Htt.
    destruct (bal_update ty (firstn m s) bal) as [b|msg]; [|discriminate].
    destruct m as [|m]; [discriminate|]. remember (firstn (S m) s) as v eqn:Ev.
    injection H as <- <- <- <- <-. rewrite <- Ev.
    assert (Hsingle : seg_ok c line pos st [ITok line ty v pos] v (line + count_nl v) st)
      by (apply single_tok_seg; apply Htag; exact Htt).
    destruct ty; try exact Hsingle.
    unfold tok_nonempty. destruct v; [|exact Hsingle].
    unfold seg_ok; cbn. repeat split; lia.
Qed.

Lemma step_ok : forall c rules st bal line pos prev ls s its n st' bal' line',
  step c rules st bal line pos prev ls s = SGo its n st' bal' line' ->
  seg_ok c line pos st its (firstn n s) line' st'.
Proof.
  intros c rules st bal line pos prev ls s its n st' bal' line' H.
  destruct st; cbn [step] in H.
  - (* root *)
    destruct (find_tag c rules prev s) as [[[[p k] m] sg]|] eqn:Ef.
    + destruct (emit_text_tag c sg (is_var k) ls line pos (firstn p s) (firstn m (skipn p s)) (begin_of k))
        as [its0 l0] eqn:Ee.
      injection H as <- <- <- <- <-. rewrite firstn_plus.
      eapply emit_text_tag_ok; [exact Ee|reflexivity|]. destruct k; reflexivity.
    + destruct s as [|x s]; [discriminate|]. remember (x :: s) as v eqn:Ev.
      injection H as <- <- <- <- <-.
      rewrite firstn_all. apply single_tok_seg. reflexivity.
  - (* comment *)
    destruct (find_end true (c_trim c) (c_ce c) s) as [[p m]|] eqn:Ef.
    2:{ destruct s; discriminate. }
    injection H as <- <- <- <- <-. rewrite firstn_plus.
    unfold seg_ok. repeat split.
    + rewrite texts_app, tok_nonempty_texts. cbn [texts item_text]. rewrite app_nil_r. reflexivity.
    + apply lines_ok_app. split; [apply tok_nonempty_lines|]. rewrite tok_nonempty_texts. cbn. auto.
    + apply starts_ok_app. split; [apply tok_nonempty_starts|]. rewrite tok_nonempty_texts. cbn. auto.
    + apply gaps_ok_app. split; [apply tok_nonempty_gaps|cbn; exact I].
    + rewrite count_nl_app. lia.
    + rewrite (walk_app _ _ SComment SComment) by (apply tok_nonempty_walk; reflexivity). reflexivity.
  - (* block *) eapply step_tag_ok; [exact H|reflexivity|]. intros t Ht. destruct t; try discriminate; reflexivity.
  - (* variable *) eapply step_tag_ok; [exact H|reflexivity|]. intros t Ht. destruct t; try discriminate; reflexivity.
  - (* raw *)
    destruct (find_endraw c s) as [[[p m] sg]|] eqn:Ef.
    2:{ destruct s; discriminate. }
    destruct (emit_text_tag c sg false ls line pos (firstn p s) (firstn m (skipn p s)) TRawEnd) as [its0 l0] eqn:Ee.
    injection H as <- <- <- <- <-. rewrite firstn_plus.
    eapply emit_text_tag_ok; [exact Ee|reflexivity|reflexivity].
  - (* line statement *) eapply step_tag_ok; [exact H|reflexivity|]. intros t Ht. destruct t; try discriminate; reflexivity.
  - (* line comment *)
    injection H as <- <- <- <- <-.
    unfold seg_ok. repeat split.
    + rewrite texts_app, tok_nonempty_texts. cbn [texts item_text]. rewrite !app_nil_r. reflexivity.
    + apply lines_ok_app. split; [apply tok_nonempty_lines|]. rewrite tok_nonempty_texts. cbn. auto.
    + apply starts_ok_app. split; [apply tok_nonempty_starts|]. rewrite tok_nonempty_texts. cbn. auto.
    + apply gaps_ok_app. split; [apply tok_nonempty_gaps|cbn; exact I].
    + rewrite (walk_app _ _ SLc SLc) by (apply tok_nonempty_walk; reflexivity). reflexivity.
Qed.

(* a step that ends the loop: normal end only at the end of the source, errors on the current line *)
Lemma step_tag_end : forall c endrule endty bal line pos prev st s e,
  step_tag c endrule endty bal line pos prev st s = SEnd e ->
  (e = EOk -> s = []) /\ (forall l m, e = ESyntax l m -> l = line) /\ e <> EFuel.
Proof.
  intros c endrule endty bal line pos prev st s e H. unfold step_tag in H.
  destruct (match bal with [] => endrule | _ :: _ => None end); [discriminate|].
  destruct (scan_tagrule c prev s) as [[ty m]|].
  - destruct (bal_update ty (firstn m s) bal).
    + destruct m; [|discriminate]. injection H as <-. repeat split; intros; discriminate.
    + injection H as <-. repeat split; try discriminate. intros l m1 E. injection E as <- _. reflexivity.
  - destruct s; injection H as <-; repeat split; try discriminate; auto.
    intros l m1 E. injection E as <- _. reflexivity.
Qed.

Lemma step_end : forall c rules st bal line pos prev ls s e,
  step c rules st bal line pos prev ls s = SEnd e ->
  (e = EOk -> s = []) /\ (forall l m, e = ESyntax l m -> l = line) /\ e <> EFuel.
Proof.
  intros c rules st bal line pos prev ls s e H. destruct st; cbn [step] in H;
    try (eapply step_tag_end; exact H).
  - destruct (find_tag c rules prev s) as [[[[? ?] ?] ?]|]; [destruct (emit_text_tag _ _ _ _ _ _ _ _ _); discriminate|].
    destruct s; [|discriminate]. injection H as <-. repeat split; try discriminate; auto.
  - destruct (find_end _ _ _ s) as [[? ?]|]; [discriminate|].
    destruct s; injection H as <-; repeat split; try discriminate; auto.
    intros l m1 E. injection E as <- _. reflexivity.
  - destruct (find_endraw c s) as [[[? ?] ?]|]; [destruct (emit_text_tag _ _ _ _ _ _ _ _ _); discriminate|].
    destruct s; injection H as <-; repeat split; try discriminate; auto.
    intros l m1 E. injection E as <- _. reflexivity.
  - discriminate.
Qed.

(* ------------------------------------------------------------------ the whole run *)
Lemma run_ok : forall c rules fuel st bal line pos prev ls s its e,
  run c rules fuel st bal line pos prev ls s = (its, e) ->
  exists rest st',
    texts its ++ rest = s /\ (e = EOk -> rest = []) /\
    lines_ok line its /\ starts_ok pos its /\ gaps_ok c its /\ walk st its = Some st' /\
    (forall l m, e = ESyntax l m -> l = line + count_nl (texts its)).
Proof.
  intros c rules fuel. induction fuel as [|f IH]; intros st bal line pos prev ls s its e H; cbn [run] in H.
  - injection H as <- <-. exists s, st. cbn. repeat split; auto; discriminate.
  - destruct (step c rules st bal line pos prev ls s) as [e0|its0 n st1 bal1 line1] eqn:Es.
    + injection H as <- <-. apply step_end in Es as (E1 & E2 & _). exists s, st. cbn. repeat split; auto.
      intros l m E. rewrite N.add_0_r. eapply E2; exact E.
    + destruct (run c rules f st1 bal1 line1 (pos + N.of_nat (length (firstn n s))) _ _ (skipn n s)) as [rest0 e1] eqn:Er.
      injection H as <- <-.
      apply step_ok in Es as (Ht & Hl & Hs & Hg & Hline & Hw).
      apply IH in Er as (rest & st' & Rt & Re & Rl & Rs & Rg & Rw & Rerr).
      exists rest, st'. repeat split.
      * rewrite texts_app, <- app_assoc, Rt, Ht. apply firstn_skipn.
      * exact Re.
      * apply lines_ok_app. split; [exact Hl|]. rewrite Ht, <- Hline. exact Rl.
      * apply starts_ok_app. split; [exact Hs|]. rewrite Ht. exact Rs.
      * apply gaps_ok_app. split; assumption.
      * rewrite (walk_app _ _ _ _ Hw). exact Rw.
      * intros l m E. rewrite texts_app, count_nl_app, Ht, N.add_assoc, <- Hline. apply (Rerr l m). exact E.
Qed.

(* ------------------------------------------------------------------ consequences for one token *)
Lemma lines_ok_at : forall line l1 ln ty v p l2,
  lines_ok line (l1 ++ ITok ln ty v p :: l2) -> ln = line + count_nl (texts l1).
Proof. intros line l1 ln ty v p l2 H. apply lines_ok_app in H as [_ H]. cbn [lines_ok] in H. destruct H as [H _]. exact H. Qed.

Lemma starts_ok_at : forall pos l1 ln ty v p l2,
  starts_ok pos (l1 ++ ITok ln ty v p :: l2) -> p = pos + N.of_nat (length (texts l1)).
Proof. intros pos l1 ln ty v p l2 H. apply starts_ok_app in H as [_ H]. cbn [starts_ok] in H. destruct H as [H _]. exact H. Qed.

Lemma gaps_ok_at : forall c l1 g w l2, gaps_ok c (l1 ++ IGap g w :: l2) -> gap_ok c g w.
Proof. intros c l1 g w l2 H. apply gaps_ok_app in H as [_ H]. cbn [gaps_ok] in H. destruct H as [H _]. exact H. Qed.

Lemma slice_of_app : forall (a v b : str), firstn (length v) (skipn (length a) (a ++ v ++ b)) = v.
Proof.
  intros a v b. rewrite skipn_app, skipn_all, Nat.sub_diag. cbn [app skipn].
  rewrite firstn_app, firstn_all, Nat.sub_diag. cbn [firstn]. apply app_nil_r.
Qed.

(* the run behind a result of tokeniter *)
Lemma tokeniter_inv : forall c src,
  match tokeniter c src with
  | LexOk its => exists st', texts its = normalize (c_keep c) src /\
        lines_ok 1 its /\ starts_ok 0 its /\ gaps_ok c its /\ walk SRoot its = Some st'
  | LexSyntaxErr its l m => exists rest st', texts its ++ rest = normalize (c_keep c) src /\
        lines_ok 1 its /\ starts_ok 0 its /\ gaps_ok c its /\ walk SRoot its = Some st' /\
        l = 1 + count_nl (texts its)
  | _ => True
  end.
Proof.
  intros c src. unfold tokeniter, tokeniter_norm.
  destruct (run _ _ _ _ _ _ _ _ _ _) as [its e] eqn:E.
  apply run_ok in E as (rest & st' & Ht & He & Hl & Hs & Hg & Hw & Herr).
  destruct e; try exact I.
  - exists st'. rewrite (He eq_refl), app_nil_r in Ht. auto.
  - exists rest, st'. pose proof (Herr _ _ eq_refl) as Hline. auto 10.
Qed.
