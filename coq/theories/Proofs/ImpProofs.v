(* C05 — proofs about Model/Imp.v against Spec/ImpSpec.v *)
From Coq Require Import List NArith Bool Arith Lia.
Import ListNotations.
From JV Require Import Model.Imp Spec.ImpSpec.

(* ------------------------------------------------------------------ dicts *)
Lemma dget_dset : forall d k v x, dget x (dset k v d) = if N.eqb k x then Some v else dget x d.
Proof.
  induction d as [|[k' v'] r IH]; intros k v x; cbn [dset dget].
  - reflexivity.
  - destruct (N.eqb k' k) eqn:E; cbn [dget].
    + apply N.eqb_eq in E. subst k'. destruct (N.eqb k x); reflexivity.
    + destruct (N.eqb k' x) eqn:E2.
      * apply N.eqb_eq in E2. subst k'. rewrite N.eqb_sym in E. now rewrite E.
      * apply IH.
Qed.

Lemma dget_dupdate : forall b a x,
  dget x (dupdate a b) = match dget x b with Some v => Some v | None => dget x a end.
Proof.
  induction b as [|[k v] r IH]; intros a x; [reflexivity|].
  unfold dupdate in *. cbn [fold_right fst snd dget]. rewrite dget_dset.
  destruct (N.eqb k x); [reflexivity|apply IH].
Qed.

Lemma dget_app : forall a b x,
  dget x (a ++ b) = match dget x a with Some v => Some v | None => dget x b end.
Proof.
  induction a as [|[k v] r IH]; intros b x; [reflexivity|].
  cbn [app dget]. destruct (N.eqb k x); [reflexivity|apply IH].
Qed.

Lemma mem_dkeys : forall d x, mem x (dkeys d) = match dget x d with Some _ => true | None => false end.
Proof.
  induction d as [|[k v] r IH]; intros x; [reflexivity|].
  unfold mem, dkeys in *. cbn [map fst existsb dget]. rewrite N.eqb_sym.
  destruct (N.eqb k x); [reflexivity|apply IH].
Qed.

Lemma dget_get_all : forall c x,
  dget x (get_all c) = match dget x (c_vars c) with Some v => Some v | None => dget x (c_parent c) end.
Proof.
  intros c x. unfold get_all. destruct (c_vars c) as [|kv r] eqn:Ev; [reflexivity|].
  destruct (c_parent c) as [|kp rp] eqn:Ep.
  - destruct (dget x (kv :: r)); reflexivity.
  - now rewrite dget_dupdate.
Qed.

(* ------------------------------------------------------------------ include *)
Lemma include_lookup : forall c L g x, resolve [] (include_ctx c L g) x = resolve L c x.
Proof.
  intros c L g x. unfold resolve, include_ctx, new_context. cbn [dget c_vars c_parent].
  destruct L as [|l r].
  - cbn [dget]. apply dget_get_all.
  - rewrite dget_dupdate. unfold locals_dict. rewrite dget_dupdate.
    destruct (dget x (l :: r)); [reflexivity|]. cbn [dget]. apply dget_get_all.
Qed.

Lemma vis_include_lookup : forall c L g x, resolve [] (vis_include c L g) x = resolve L c x.
Proof.
  intros c L g x. unfold resolve, vis_include. cbn [dget c_vars c_parent]. now rewrite !dget_app.
Qed.

Lemma default_lookup : forall g x, resolve [] (default_ctx g) x = dget x g.
Proof. intros g x. reflexivity. Qed.

(* ------------------------------------------------------------------ import *)
(* every context the engine builds keeps the keys of the globals mapping it was given *)
Definition ctx_wf (c : ctx) : Prop := c_gkeys c = dkeys (c_globals c).

Lemma mem_cons : forall x k r, mem x (k :: r) = N.eqb x k || mem x r.
Proof. reflexivity. Qed.

Lemma pick_parent_ok : forall keys parent,
  (forall k, mem k keys = true -> dget k parent <> None) ->
  exists d, pick_parent keys parent = Ok d /\
            forall x, dget x d = if mem x keys then dget x parent else None.
Proof.
  induction keys as [|k r IH]; intros parent H.
  - exists []. split; reflexivity.
  - cbn [pick_parent]. destruct (dget k parent) as [v|] eqn:Ek.
    2:{ exfalso. apply (H k); [|exact Ek]. rewrite mem_cons, N.eqb_refl. reflexivity. }
    destruct (IH parent) as [d [Hd Hx]].
    { intros k' Hk'. apply H. rewrite mem_cons, Hk'. apply orb_true_r. }
    rewrite Hd. exists (dset k v d). split; [reflexivity|]. intros x.
    rewrite dget_dset, mem_cons, N.eqb_sym, Hx.
    destruct (N.eqb x k) eqn:E; [|reflexivity]. apply N.eqb_eq in E. subst x. now rewrite Ek.
Qed.

Lemma mem_filter : forall (f : name -> bool) l x, mem x (filter f l) = mem x l && f x.
Proof.
  intros f l x. induction l as [|k r IH]; [reflexivity|].
  cbn [filter]. destruct (f k) eqn:Ef.
  - rewrite !mem_cons, IH. destruct (N.eqb x k) eqn:E; [|reflexivity].
    apply N.eqb_eq in E. subst x. now rewrite Ef.
  - rewrite mem_cons, IH. destruct (N.eqb x k) eqn:E; [|reflexivity].
    apply N.eqb_eq in E. subst x. rewrite Ef. now rewrite andb_false_r.
Qed.

Lemma import_lookup : forall c g, ctx_wf c ->
  exists c', import_ctx c g = Ok c' /\ ctx_wf c' /\
    forall x, resolve [] c' x = match dget x g with Some v => Some v | None => dget x (c_globals c) end.
Proof.
  intros c g Hk. unfold ctx_wf in Hk. unfold import_ctx.
  set (keys := filter (fun k => negb (mem k (dkeys g))) (c_gkeys c)).
  assert (Hmem : forall x, mem x keys = mem x (c_gkeys c) && negb (mem x (dkeys g))) by (intros; apply mem_filter).
  assert (Hspec : forall x, match dget x g with Some v => Some v | None => dget x (c_globals c) end =
                            match dget x g with Some v => Some v
                            | None => if mem x keys then dget x (c_globals c) else None end).
  { intros x. destruct (dget x g) eqn:Eg; [reflexivity|].
    rewrite Hmem, mem_dkeys, Eg. cbn [negb]. rewrite andb_true_r.
    destruct (mem x (c_gkeys c)) eqn:Em; [reflexivity|].
    rewrite Hk, mem_dkeys in Em. destruct (dget x (c_globals c)); [discriminate|reflexivity]. }
  destruct keys as [|k0 kr] eqn:Ekeys.
  - exists (default_ctx g). split; [reflexivity|]. split; [reflexivity|]. intros x. rewrite Hspec, default_lookup.
    destruct (dget x g); reflexivity.
  - destruct (pick_parent_ok (k0 :: kr) (c_globals c)) as [d [Hd Hx]].
    { intros k Hin. rewrite Hmem in Hin. apply andb_true_iff in Hin. destruct Hin as [Hin _].
      rewrite Hk, mem_dkeys in Hin. destruct (dget k (c_globals c)); [discriminate|discriminate]. }
    rewrite Hd. eexists. split; [reflexivity|]. split; [reflexivity|]. intros x. rewrite Hspec.
    unfold resolve, new_context. cbn [dget c_vars c_parent]. rewrite dget_dupdate, Hx.
    destruct (mem x (k0 :: kr)) eqn:Em.
    + rewrite Hmem in Em. apply andb_true_iff in Em. destruct Em as [_ Em].
      rewrite mem_dkeys in Em. destruct (dget x g); [discriminate|].
      destruct (dget x (c_globals c)); reflexivity.
    + destruct (dget x g); reflexivity.
Qed.

Lemma new_context_wf : forall vars shared g L, ctx_wf (new_context vars shared g L).
Proof. intros. reflexivity. Qed.

(* ------------------------------------------------------------------ selection *)
Lemma select_first : forall ts names, select_template ts names = first_existing ts names.
Proof.
  intros ts names. unfold first_existing. induction names as [|n r IH]; [reflexivity|].
  cbn [select_template find]. unfold exists_in at 1. destruct (get_target ts n) eqn:E; [now rewrite E|exact IH].
Qed.

(* ------------------------------------------------------------------ exports *)
Definition is_extend (s : stmt) : bool := match s with SExtend _ => true | _ => false end.
Definition no_extend (body : list stmt) : bool := forallb (fun x => negb (is_extend x)) body.

Definition book (s : stmt) (ex : list name) : list name :=
  match s with
  | SSet x _ | SMacro x _ => if public x then sadd x ex else ex
  | SImport _ a _ => if public a then sdiscard a ex else ex
  | SFrom _ names _ => fold_left (fun ex na => if public (snd na) then sdiscard (snd na) ex else ex) names ex
  | _ => ex
  end.

Section Book.
  Variable P : policy.
  Variable ts : tset.


  Lemma run_body_S : forall fu top s body,
    run_body P ts (S fu) top s body =
    match body with
    | [] => Ok s
    | x :: rest => match run_stmt P ts fu top s x with Ok s' => run_body P ts fu top s' rest | Err e => Err e end
    end.
  Proof. reflexivity. Qed.

  Lemma run_stmt_S : forall fu top s x,
    run_stmt P ts (S fu) top s x =
        let c := s_ctx s in
        let L := s_loc s in
        let make_module := fun (t : template) (c' : ctx) =>
          match run_body P ts fu true {| s_out := []; s_ctx := c'; s_loc := [] |} (t_body t) with
          | Ok s' => Ok (s_out s', VMod (get_exported (s_ctx s')))
          | Err e => Err e
          end in
        let module_for := fun (t : template) (with_ctx : bool) =>
          if with_ctx then make_module t (p_include P c L (t_globals t))
          else match p_import P c (t_globals t) with
               | Ok c' => make_module t c'
               | Err e => Err e
               end in
        match x with
        | SOut o => Ok (emit o s)
        | SProbe v => Ok (emit (show (resolve L c v)) s)
        | SProbeAttr m v =>
            match show_attr (resolve L c m) v with Ok o => Ok (emit o s) | Err e => Err e end
        | SSet v e => Ok (bind top v (eval L c e) true s)
        | SMacro m body => Ok (bind top m (VMacro body) true s)
        | SInclude targets is_list with_ctx ignore =>
            let found := if is_list then p_select P ts targets
                         else match targets with t :: _ => get_target ts t | [] => None end in
            match found with
            | None => if ignore then Ok s else Err ENotFound
            | Some t =>
                let c' := if with_ctx then p_include P c L (t_globals t) else p_default P (t_globals t) in
                match run_body P ts fu true {| s_out := []; s_ctx := c'; s_loc := [] |} (t_body t) with
                | Ok s' => Ok (emit (s_out s') s)
                | Err e => Err e
                end
            end
        | SImport t alias with_ctx =>
            match get_target ts t with
            | None => Err ENotFound
            | Some tg => match module_for tg with_ctx with
                         | Ok (_, m) => Ok (bind top alias m false s)
                         | Err e => Err e
                         end
            end
        | SFrom t names with_ctx =>
            match get_target ts t with
            | None => Err ENotFound
            | Some tg =>
                match module_for tg with_ctx with
                | Ok (_, VMod ex) =>
                    Ok (fold_left (fun s' na =>
                                     bind top (snd na) (match dget (fst na) ex with Some v => v | None => VUndef end)
                                          false s') names s)
                | Ok _ => Err EKey
                | Err e => Err e
                end
            end
        | SExtend t =>
            match get_target ts t with
            | None => Err ENotFound
            | Some tg => run_body P ts fu top s (t_body tg)
            end
        | SScope k v vals body =>
            fold_left (fun acc val =>
                         match acc with
                         | Err e => Err e
                         | Ok s1 =>
                             match run_body P ts fu false
                                     {| s_out := s_out s1;
                                        s_ctx := match k with
                                                 | KBlockS => p_include P (s_ctx s1) L (c_globals (s_ctx s1))
                                                 | _ => s_ctx s1 end;
                                        s_loc := match k with KBlock | KBlockS => [] | _ => (v, VStr val) :: L end |} body with
                             | Ok s2 => Ok {| s_out := s_out s2; s_ctx := s_ctx s1; s_loc := L |}
                             | Err e => Err e
                             end
                         end) vals (Ok s)
        end.
  Proof. intros. destruct x; reflexivity. Qed.

  Lemma from_fold_book : forall (names : list (name * name)) (ex : env) (s : st),
    c_exported (s_ctx (fold_left (fun s' na =>
        bind true (snd na) (match dget (fst na) ex with Some v => v | None => VUndef end) false s') names s)) =
    fold_left (fun e na => if public (snd na) then sdiscard (snd na) e else e) names (c_exported (s_ctx s)).
  Proof.
    induction names as [|na r IH]; intros ex s; [reflexivity|].
    cbn [fold_left]. rewrite IH. reflexivity.
  Qed.

  Lemma scope_fold_book : forall fu (k : skind) v body L vals acc s',
    fold_left (fun acc val =>
                 match acc with
                 | Err e => Err e
                 | Ok s1 =>
                     match run_body P ts fu false
                             {| s_out := s_out s1;
                                s_ctx := match k with
                                         | KBlockS => p_include P (s_ctx s1) L (c_globals (s_ctx s1))
                                         | _ => s_ctx s1 end;
                                s_loc := match k with KBlock | KBlockS => [] | _ => (v, VStr val) :: L end |} body with
                     | Ok s2 => Ok {| s_out := s_out s2; s_ctx := s_ctx s1; s_loc := L |}
                     | Err e => Err e
                     end
                 end) vals acc = Ok s' ->
    exists s0, acc = Ok s0 /\ s_ctx s' = s_ctx s0.
  Proof.
    intros fu k v body L vals. induction vals as [|val r IH]; intros acc s' H; cbn [fold_left] in H.
    - exists s'. now split.
    - destruct (IH _ _ H) as [s1 [H1 H2]].
      destruct acc as [s0|e]; [|discriminate].
      destruct (run_body P ts fu false _ body) as [s2|e]; [|discriminate].
      injection H1 as <-. exists s0. now split.
  Qed.

  Lemma run_stmt_book : forall fuel s x s', is_extend x = false ->
    run_stmt P ts fuel true s x = Ok s' -> c_exported (s_ctx s') = book x (c_exported (s_ctx s)).
  Proof.
    intros [|fu] s x s' Hx H; [discriminate|]. rewrite run_stmt_S in H. cbv zeta in H.
    destruct x as [o|v|m v|v e|m b|tg il wc ig|t a wc|t names wc|k v vals body|t]; cbn [book]; [| | | | | | | | |discriminate].
    - injection H as <-. reflexivity.
    - injection H as <-. reflexivity.
    - destruct (show_attr _ _); [injection H as <-; reflexivity|discriminate].
    - injection H as <-. reflexivity.
    - injection H as <-. reflexivity.
    - destruct (if il then _ else _) as [t|].
      + destruct (run_body _ _ _ _ _ _); [injection H as <-; reflexivity|discriminate].
      + destruct ig; [injection H as <-; reflexivity|discriminate].
    - destruct (get_target ts t) as [tg|]; [|discriminate].
      destruct (if wc then _ else _) as [[o m]|e]; [injection H as <-; reflexivity|discriminate].
    - destruct (get_target ts t) as [tg|]; [|discriminate].
      destruct (if wc then _ else _) as [[o m]|e]; [|discriminate].
      destruct m; try discriminate. injection H as <-. apply from_fold_book.
    - destruct (scope_fold_book _ _ _ _ _ _ _ _ H) as [s0 [H0 H1]]. injection H0 as <-. now rewrite H1.
  Qed.

  Lemma run_body_book : forall fuel s body s', forallb (fun x => negb (is_extend x)) body = true ->
    run_body P ts fuel true s body = Ok s' ->
    c_exported (s_ctx s') = fold_left (fun ex x => book x ex) body (c_exported (s_ctx s)).
  Proof.
    induction fuel as [|fu IH]; intros s body s' Hn H; [discriminate|].
    rewrite run_body_S in H. destruct body as [|x rest]; [injection H as <-; reflexivity|].
    cbn [forallb] in Hn. apply andb_true_iff in Hn. destruct Hn as [Hx Hr]. apply negb_true_iff in Hx.
    destruct (run_stmt P ts fu true s x) as [s1|e] eqn:E1; [|discriminate].
    cbn [fold_left]. rewrite <- (run_stmt_book _ _ _ _ Hx E1). now apply IH.
  Qed.
End Book.

Lemma mem_sadd : forall x k ex, mem x (sadd k ex) = N.eqb x k || mem x ex.
Proof.
  intros x k ex. unfold sadd. destruct (mem k ex) eqn:E.
  - destruct (N.eqb x k) eqn:E2; [|reflexivity]. apply N.eqb_eq in E2. subst x. now rewrite E.
  - unfold mem. rewrite existsb_app. cbn [existsb]. rewrite orb_false_r. apply orb_comm.
Qed.

Lemma mem_sdiscard : forall x k ex, mem x (sdiscard k ex) = negb (N.eqb x k) && mem x ex.
Proof. intros x k ex. unfold sdiscard. rewrite mem_filter. apply andb_comm. Qed.

Lemma mem_from_fold : forall (names : list (name * name)) ex x,
  mem x (fold_left (fun e na => if public (snd na) then sdiscard (snd na) e else e) names ex) =
  if public x && existsb (fun na => N.eqb (snd na) x) names then false else mem x ex.
Proof.
  induction names as [|[n1 a1] r IH]; intros ex x.
  - cbn [fold_left existsb]. now rewrite andb_false_r.
  - cbn [fold_left existsb snd]. rewrite IH.
    match goal with |- context [existsb ?f r] => generalize (existsb f r) end. intros er.
    destruct (N.eqb a1 x) eqn:E; cbn [orb].
    + assert (Hp : public a1 = public x) by (apply N.eqb_eq in E; now rewrite E).
      rewrite Hp. destruct (public x) eqn:Ep; cbn [andb]; [|reflexivity].
      destruct er; [reflexivity|]. rewrite mem_sdiscard, N.eqb_sym, E. reflexivity.
    + destruct (public x && er); [reflexivity|].
      destruct (public a1); [|reflexivity]. rewrite mem_sdiscard, N.eqb_sym, E. reflexivity.
Qed.

Definition step_bool (x : name) (s : stmt) (b : bool) : bool :=
  if public x then match binds x s with Some t => t | None => b end else b.

Lemma mem_book : forall x s ex, mem x (book s ex) = step_bool x s (mem x ex) \/ (public x = false /\ mem x (book s ex) = mem x ex).
Proof.
  intros x s ex. unfold step_bool.
  assert (Hpub : forall y, N.eqb y x = true -> public y = public x) by (intros y E; apply N.eqb_eq in E; now subst).
  destruct s as [o|v|m v|v e|m b|tg il wc ig|t a wc|t names wc|k v vals body|t0]; cbn [book binds];
    try (left; destruct (public x); reflexivity).
  - destruct (N.eqb v x) eqn:E.
    + rewrite (Hpub v E). destruct (public x) eqn:Ep; [|left; reflexivity].
      left. rewrite mem_sadd, N.eqb_sym, E. reflexivity.
    + left. destruct (public v); [rewrite mem_sadd, N.eqb_sym, E|]; destruct (public x); reflexivity.
  - destruct (N.eqb m x) eqn:E.
    + rewrite (Hpub m E). destruct (public x) eqn:Ep; [|left; reflexivity].
      left. rewrite mem_sadd, N.eqb_sym, E. reflexivity.
    + left. destruct (public m); [rewrite mem_sadd, N.eqb_sym, E|]; destruct (public x); reflexivity.
  - destruct (N.eqb a x) eqn:E.
    + rewrite (Hpub a E). destruct (public x) eqn:Ep; [|left; reflexivity].
      left. rewrite mem_sdiscard, N.eqb_sym, E. reflexivity.
    + left. destruct (public a); [rewrite mem_sdiscard, N.eqb_sym, E|]; destruct (public x); reflexivity.
  - left. rewrite mem_from_fold. destruct (public x); cbn [andb]; [|reflexivity].
    match goal with |- context [existsb ?f names] => destruct (existsb f names) end; reflexivity.
Qed.

Lemma mem_book' : forall x s ex, mem x (book s ex) = step_bool x s (mem x ex).
Proof.
  intros x s ex. destruct (mem_book x s ex) as [H|[Hp H]]; [exact H|].
  rewrite H. unfold step_bool. now rewrite Hp.
Qed.

Lemma last_binder_acc : forall x body acc,
  last_binder x body acc = match last_binder x body None with Some t => Some t | None => acc end.
Proof.
  intros x body. induction body as [|s r IH]; intros acc; [reflexivity|].
  cbn [last_binder]. destruct (binds x s) as [t|].
  - rewrite (IH (Some t)). destruct (last_binder x r None); reflexivity.
  - apply IH.
Qed.

Lemma fold_book_spec : forall x body ex,
  mem x (fold_left (fun e s => book s e) body ex) =
  if public x then match last_binder x body None with Some t => t | None => mem x ex end else mem x ex.
Proof.
  intros x body. induction body as [|s r IH]; intros ex; cbn [fold_left last_binder].
  - destruct (public x); reflexivity.
  - rewrite IH, mem_book'. unfold step_bool. destruct (public x); [|reflexivity].
    destruct (binds x s) as [t|]; [|reflexivity].
    rewrite (last_binder_acc x r (Some t)). destruct (last_binder x r None); reflexivity.
Qed.

Lemma exports_exact_gen : forall P ts fuel s body s' x, no_extend body = true ->
  c_exported (s_ctx s) = [] -> run_body P ts fuel true s body = Ok s' ->
  mem x (c_exported (s_ctx s')) = exported_spec body x.
Proof.
  intros P ts fuel s body s' x Hn H0 H. rewrite (run_body_book P ts fuel s body s' Hn H), H0, fold_book_spec.
  unfold exported_spec. destruct (public x); [|reflexivity]. cbn [andb mem existsb].
  destruct (last_binder x body None) as [[|]|]; reflexivity.
Qed.

Lemma get_exported_names : forall c x, dget x (get_exported c) <> None -> mem x (c_exported c) = true.
Proof.
  intros c x. unfold get_exported. induction (c_exported c) as [|k r IH]; cbn [flat_map]; [intros H; now elim H|].
  intros H. rewrite dget_app in H. rewrite mem_cons.
  destruct (dget k (c_vars c)) as [v|].
  - cbn [dget] in H. destruct (N.eqb k x) eqn:E; [rewrite N.eqb_sym, E; reflexivity|].
    rewrite IH; [apply orb_true_r|exact H].
  - cbn [dget] in H. rewrite IH; [apply orb_true_r|exact H].
Qed.

(* ------------------------------------------------------------------ ignore missing *)
Lemma ignore_missing_gen : forall P ts fuel top s targets il wc,
  run_stmt P ts (S fuel) top s (SInclude targets il wc true) =
  match (if il then p_select P ts targets else match targets with t :: _ => get_target ts t | [] => None end) with
  | None => Ok s
  | Some _ => run_stmt P ts (S fuel) top s (SInclude targets il wc false)
  end.
Proof.
  intros. rewrite !run_stmt_S. cbv zeta. destruct (if il then _ else _); reflexivity.
Qed.
