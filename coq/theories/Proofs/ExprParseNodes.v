(* C02 parse_unparse, part 3: one lemma per loop step / node kind of the parser. *)
From Coq Require Import List NArith ZArith Bool Lia Arith.
Import ListNotations.
From JV Require Import Model.ExprAst Model.ExprParser Model.ExprUnparse Proofs.ExprParseSteps Proofs.ExprParseBase.

Ltac fuel1 := let m := fresh "m" in let Hm := fresh "Hm" in intros m Hm; destruct m as [|m]; [exfalso; lia|]; unroll m.

(* ---- left-associative binary levels, generically ---- *)
Section LeftAssoc.
  Variables (ent nxt : kit -> list tok -> pres expr) (loop : kit -> expr -> list tok -> pres expr).
  Variable opm : list tok -> option ((expr -> expr -> expr) * list tok).
  Hypothesis Hent : forall K ts, ent (kit_step K) ts = bindp (nxt K ts) (fun l r => loop K l r).
  Hypothesis Hloop : forall K l ts, loop (kit_step K) l ts =
     match opm ts with
     | Some (mk, ts') => bindp (nxt K ts') (fun x r => loop K (mk l x) r)
     | None => ROk l ts
     end.

  Lemma la_start ts a r res r' :
    parses nxt ts a r -> parses (fun K => loop K a) r res r' -> parses ent ts res r'.
  Proof.
    intros [m1 H1] [m2 H2]. exists (S (m1 + m2)). fuel1. rewrite Hent. rewrite H1 by lia. cbn [bindp]. apply H2. lia.
  Qed.

  Lemma la_step l mk ts ts' x r res r' :
    opm ts = Some (mk, ts') -> parses nxt ts' x r -> parses (fun K => loop K (mk l x)) r res r' ->
    parses (fun K => loop K l) ts res r'.
  Proof.
    intros Ho [m1 H1] [m2 H2]. exists (S (m1 + m2)). fuel1. rewrite Hloop, Ho. rewrite H1 by lia. cbn [bindp]. apply H2. lia.
  Qed.
End LeftAssoc.

Definition opm_kw (k : str) (mk : expr -> expr -> expr) (ts : list tok) :=
  if is_kw k ts then Some (mk, tl ts) else None.
Definition opm_m1 (ts : list tok) : option ((expr -> expr -> expr) * list tok) :=
  match ts with KOp o :: r => match math1_of_tok o with Some b => Some (EBin b, r) | None => None end | _ => None end.
Definition opm_m2 (ts : list tok) : option ((expr -> expr -> expr) * list tok) :=
  match ts with KOp o :: r => match math2_of_tok o with Some b => Some (EBin b, r) | None => None end | _ => None end.
Definition opm_pow (ts : list tok) := if is_op OPow ts then Some (EBin Pow, tl ts) else None.

Lemma or_loop_eq K l ts : p_or_loop (kit_step K) l ts =
  match opm_kw k_or EOr ts with Some (mk, ts') => bindp (p_and K ts') (fun x r => p_or_loop K (mk l x) r) | None => ROk l ts end.
Proof. rewrite step_p_or_loop. unfold opm_kw. destruct (is_kw k_or ts); reflexivity. Qed.
Lemma and_loop_eq K l ts : p_and_loop (kit_step K) l ts =
  match opm_kw k_and EAnd ts with Some (mk, ts') => bindp (p_not K ts') (fun x r => p_and_loop K (mk l x) r) | None => ROk l ts end.
Proof. rewrite step_p_and_loop. unfold opm_kw. destruct (is_kw k_and ts); reflexivity. Qed.
Lemma m1_loop_eq K l ts : p_math1_loop (kit_step K) l ts =
  match opm_m1 ts with Some (mk, ts') => bindp (p_concat K ts') (fun x r => p_math1_loop K (mk l x) r) | None => ROk l ts end.
Proof. rewrite step_p_math1_loop. destruct ts as [|[| | | |o] r]; try reflexivity. cbn. destruct (math1_of_tok o); reflexivity. Qed.
Lemma m2_loop_eq K l ts : p_math2_loop (kit_step K) l ts =
  match opm_m2 ts with Some (mk, ts') => bindp (p_pow K ts') (fun x r => p_math2_loop K (mk l x) r) | None => ROk l ts end.
Proof. rewrite step_p_math2_loop. destruct ts as [|[| | | |o] r]; try reflexivity. cbn. destruct (math2_of_tok o); reflexivity. Qed.
Lemma pow_loop_eq K l ts : p_pow_loop (kit_step K) l ts =
  match opm_pow ts with Some (mk, ts') => bindp (p_unary K true ts') (fun x r => p_pow_loop K (mk l x) r) | None => ROk l ts end.
Proof. rewrite step_p_pow_loop. unfold opm_pow. destruct (is_op OPow ts); reflexivity. Qed.

(* the five binary levels *)
Definition bloop (L : nat) : kit -> expr -> list tok -> pres expr :=
  match L with 1 => p_or_loop | 2 => p_and_loop | 5 => p_math1_loop | 7 => p_math2_loop | _ => p_pow_loop end.
Definition is_binlvl (L : nat) : Prop := L = 1 \/ L = 2 \/ L = 5 \/ L = 7 \/ L = 8.

Lemma bl_start L ts a r res r' : is_binlvl L ->
  parses (entry (S L)) ts a r -> parses (fun K => bloop L K a) r res r' -> parses (entry L) ts res r'.
Proof.
  intros [->|[->|[->|[->| ->]]]]; cbn [entry bloop].
  - apply (la_start p_or p_and p_or_loop). intros; apply step_p_or.
  - apply (la_start p_and p_not p_and_loop). intros; apply step_p_and.
  - apply (la_start p_math1 p_concat p_math1_loop). intros; apply step_p_math1.
  - apply (la_start p_math2 p_pow p_math2_loop). intros; apply step_p_math2.
  - apply (la_start p_pow (fun K => p_unary K true) p_pow_loop). intros; apply step_p_pow.
Qed.

Lemma bl_stop L l r : is_binlvl L -> nc L r = true -> parses (fun K => bloop L K l) r l r.
Proof.
  intros HL Hn. exists 1. intros m Hm. destruct m as [|m]; [lia|].
  destruct HL as [->|[->|[->|[->| ->]]]]; cbn [bloop].
  - unroll m. rewrite step_p_or_loop. replace (is_kw k_or r) with false; [reflexivity|]. symmetry. nc_solve Hn.
  - unroll m. rewrite step_p_and_loop. replace (is_kw k_and r) with false; [reflexivity|]. symmetry. nc_solve Hn.
  - apply math1_loop_stop. exact Hn.
  - apply math2_loop_stop. exact Hn.
  - apply pow_loop_stop. exact Hn.
Qed.

Lemma step_or l x ts r res r' :
  parses p_and ts x r -> parses (fun K => p_or_loop K (EOr l x)) r res r' -> parses (fun K => p_or_loop K l) (KName k_or :: ts) res r'.
Proof. apply (la_step p_and p_or_loop (opm_kw k_or EOr) or_loop_eq). reflexivity. Qed.
Lemma step_and l x ts r res r' :
  parses p_not ts x r -> parses (fun K => p_and_loop K (EAnd l x)) r res r' -> parses (fun K => p_and_loop K l) (KName k_and :: ts) res r'.
Proof. apply (la_step p_not p_and_loop (opm_kw k_and EAnd) and_loop_eq). reflexivity. Qed.
Lemma step_bin op l x ts r res r' :
  parses (entry (S (binop_lvl op))) ts x r -> parses (fun K => bloop (binop_lvl op) K (EBin op l x)) r res r' ->
  parses (fun K => bloop (binop_lvl op) K l) (KOp (binop_tok op) :: ts) res r'.
Proof.
  destruct op; cbn [binop_lvl entry bloop binop_tok].
  1,2: apply (la_step p_concat p_math1_loop opm_m1 m1_loop_eq); reflexivity.
  1,2,3,4: apply (la_step p_pow p_math2_loop opm_m2 m2_loop_eq); reflexivity.
  apply (la_step (fun K => p_unary K true) p_pow_loop opm_pow pow_loop_eq); reflexivity.
Qed.

(* ---- level 9: the filter / test chain ---- *)
Lemma f_start ts a r res r' :
  parses (fun K => p_unary K false) ts a r -> parses (fun K => p_filter_expr K a) r res r' -> parses (fun K => p_unary K true) ts res r'.
Proof.
  intros [m1 H1] [m2 H2]. exists (S (m1 + m2)). fuel1. rewrite unary_true_false.
  change (kit_step (kit_of m)) with (kit_of (S m)). rewrite H1 by lia. cbn [bindp]. apply H2. lia.
Qed.

Lemma dotted_stop m s r : is_op ODot r = false -> p_dotted (kit_of (S m)) s r = ROk s r.
Proof.
  intros H. unroll m. rewrite step_p_dotted. destruct r as [|[| | | |[]] r]; try reflexivity; discriminate.
Qed.

Lemma f_step_filter0 a name r res r' :
  nc 10 r = true -> parses (fun K => p_filter_expr K (EFilter a name [])) r res r' ->
  parses (fun K => p_filter_expr K a) (KOp OPipe :: KName name :: r) res r'.
Proof.
  intros Hn [m2 H2]. exists (S (S (S m2))). intros m Hm. destruct m as [|[|[|m]]]; try lia.
  unroll (S (S m)). rewrite step_p_filter_expr. cbn [is_op]. unroll (S m). rewrite step_p_filter.
  rewrite dotted_stop by (nc_solve Hn). cbn [bindp].
  replace (is_op OLParen r) with false by (symmetry; nc_solve Hn). cbn [bindp].
  change (kit_step (kit_of (S m))) with (kit_of (S (S m))). apply H2. lia.
Qed.

Lemma f_step_filterN a name xs ats r res r' :
  xs <> [] ->
  parses p_call_args (KOp OLParen :: ats) (xs, []) r ->
  parses (fun K => p_filter_expr K (EFilter a name xs)) r res r' ->
  parses (fun K => p_filter_expr K a) (KOp OPipe :: KName name :: KOp OLParen :: ats) res r'.
Proof.
  intros Hx [m1 H1] [m2 H2]. exists (S (S (S (m1 + m2)))). intros m Hm. destruct m as [|[|[|m]]]; try lia.
  unroll (S (S m)). rewrite step_p_filter_expr. cbn [is_op]. unroll (S m). rewrite step_p_filter.
  rewrite dotted_stop by reflexivity. cbn [bindp is_op]. rewrite H1 by lia. cbn [bindp snd fst].
  change (kit_step (kit_of (S m))) with (kit_of (S (S m))). apply H2. lia.
Qed.

Lemma f_step_test a name xs ats r res r' :
  str_eqb name k_not = false ->
  parses p_call_args (KOp OLParen :: ats) (xs, []) r ->
  parses (fun K => p_filter_expr K (ETest a name xs)) r res r' ->
  parses (fun K => p_filter_expr K a) (KName k_is :: KName name :: KOp OLParen :: ats) res r'.
Proof.
  intros Hnot [m1 H1] [m2 H2]. exists (S (S (S (m1 + m2)))). intros m Hm. destruct m as [|[|[|m]]]; try lia.
  unroll (S (S m)). rewrite step_p_filter_expr. cbn [is_op is_kw]. replace (str_eqb k_is k_is) with true by reflexivity.
  cbn [tl]. unroll (S m). rewrite step_p_test. cbn [is_kw]. rewrite Hnot.
  rewrite dotted_stop by reflexivity. cbn [bindp is_op]. rewrite H1 by lia. cbn [bindp snd fst].
  change (kit_step (kit_of (S m))) with (kit_of (S (S m))). apply H2. lia.
Qed.

(* ---- level 11: the postfix chain ---- *)
Lemma p_start ts a r res r' :
  parses p_primary ts a r -> parses (fun K => p_postfix K a) r res r' -> parses E11 ts res r'.
Proof.
  intros [m1 H1] [m2 H2]. exists (m1 + m2). intros m Hm. unfold E11. rewrite H1 by lia. cbn [bindp]. apply H2. lia.
Qed.

Lemma p_step_attr a name r res r' :
  parses (fun K => p_postfix K (EGetattr a name)) r res r' -> parses (fun K => p_postfix K a) (KOp ODot :: KName name :: r) res r'.
Proof.
  intros [m2 H2]. exists (S (S m2)). intros m Hm. destruct m as [|[|m]]; try lia.
  unroll (S m). rewrite step_p_postfix. cbn [is_op orb]. unroll m. rewrite step_p_subscript. cbn [bindp].
  change (kit_step (kit_of m)) with (kit_of (S m)). apply H2. lia.
Qed.

