(* C25 — lemmas about the template cache over layered loaders (Model/TcLay.v). *)
From Coq Require Import List NArith ZArith Bool Arith Lia.
Import ListNotations.
From JV Require Import Model.LRU Spec.LRUSpec Proofs.LRUProofs Model.Tc Spec.TcSpec Proofs.TcProofs Model.TcLay.
Open Scope N_scope.

(* ------------------------------------------------------------------ layered resolution *)
Lemma eff_sound ls n : forall i0 i v, eff ls n i0 = Some (i, v) ->
  exists k l, i = i0 + N.of_nat k /\ nth_error ls k = Some l /\ l n = Some v /\ forallb (lacks n) (firstn k ls) = true.
Proof.
  induction ls as [|l r IH]; intros i0 i v H; cbn [eff] in H; [discriminate|].
  destruct (l n) as [v0|] eqn:E.
  - injection H as <- <-. exists 0%nat, l. cbn. repeat split; [lia|exact E].
  - destruct (IH _ _ _ H) as (k & l' & -> & Hn & Hv & Hf).
    exists (S k), l'. cbn [nth_error firstn forallb]. unfold lacks at 1. rewrite E. cbn.
    repeat split; try assumption. lia.
Qed.

Lemma eff_complete ls n : forall i0 k l v, nth_error ls k = Some l -> l n = Some v ->
  forallb (lacks n) (firstn k ls) = true -> eff ls n i0 = Some (i0 + N.of_nat k, v).
Proof.
  induction ls as [|l0 r IH]; intros i0 k l v Hn Hv Hf; [destruct k; discriminate|].
  destruct k as [|k]; cbn [nth_error firstn forallb eff] in *.
  - injection Hn as ->. rewrite Hv. f_equal. f_equal. lia.
  - apply andb_true_iff in Hf as [H1 H2]. unfold lacks in H1. destruct (l0 n); [discriminate|].
    rewrite (IH (i0 + 1) k l v Hn Hv H2). f_equal. f_equal. lia.
Qed.

(* the FileSystemLoader closure (after the fix) says exactly "this is still what the loader resolves to" *)
Lemma fs_closure_eff ls n i v :
  forallb (lacks n) (firstn (N.to_nat i) ls) && opt_eqb (layer_get ls i n) (Some v) = true <-> eff ls n 0 = Some (i, v).
Proof.
  unfold layer_get. split.
  - intros H. apply andb_true_iff in H as [H1 H2].
    destruct (nth_error ls (N.to_nat i)) as [l|] eqn:En; [|discriminate].
    destruct (l n) as [v0|] eqn:Ev; cbn [opt_eqb] in H2; [|discriminate]. apply N.eqb_eq in H2. subst v0.
    rewrite (eff_complete ls n 0 (N.to_nat i) l v En Ev H1). f_equal. f_equal. lia.
  - intros H. destruct (eff_sound ls n 0 i v H) as (k & l & -> & Hn & Hv & Hf).
    replace (N.to_nat (0 + N.of_nat k)) with k by lia. rewrite Hf, Hn, Hv. cbn. now rewrite N.eqb_refl.
Qed.

(* ------------------------------------------------------------------ invariants *)
Record LWF (e : lenv) : Prop := {
  lwf_next : 1 <= l_next e;
  lwf_cache : cache_ok (l_cache e);
  lwf_entries : forall k t, cache_lookup (l_cache e) k = Some t -> 1 <= t < l_next e /\ lt_name (l_heap e t) = k }.

(* a cached template's closure answering True means it is what the loader resolves to now *)
Definition closure_sound (e : lenv) : Prop :=
  forall k t, cache_lookup (l_cache e) k = Some t -> l_up_to_date e t = true ->
    eff (l_layers e) k 0 = Some (lt_layer (l_heap e t), lt_ver (l_heap e t)).

(* ChoiceLoader: no layer before the one a cached template came from has its name *)
Definition earlier_lack (e : lenv) : Prop :=
  forall k t, cache_lookup (l_cache e) k = Some t ->
    forallb (lacks k) (firstn (N.to_nat (lt_layer (l_heap e t))) (l_layers e)) = true.

Lemma fs_closure_sound e : LWF e -> l_upt e = LFs -> closure_sound e.
Proof.
  intros W U k t D H. unfold l_up_to_date in H. rewrite U in H.
  destruct (lwf_entries e W k t D) as [_ Hk]. rewrite Hk in H. now apply fs_closure_eff.
Qed.

Lemma choice_closure_sound e : LWF e -> l_upt e = LChoice -> earlier_lack e -> closure_sound e.
Proof.
  intros W U EL k t D H. unfold l_up_to_date in H. rewrite U in H.
  destruct (lwf_entries e W k t D) as [_ Hk]. rewrite Hk in H.
  apply fs_closure_eff. rewrite (EL k t D). exact H.
Qed.

(* ------------------------------------------------------------------ one load *)
Lemma lwf_set_cache e c : LWF e -> cache_ok c -> (forall k, cache_lookup c k = cache_lookup (l_cache e) k) -> LWF (lset_cache e c).
Proof.
  intros W I L. constructor; cbn [lset_cache l_next l_cache l_heap].
  - exact (lwf_next e W).
  - exact I.
  - intros k t D. rewrite L in D. exact (lwf_entries e W k t D).
Qed.

Lemma lreload_spec e c1 n e' r : LWF e -> cache_ok c1 -> same_kind (l_cache e) c1 ->
  (forall k, cache_lookup c1 k = cache_lookup (l_cache e) k) ->
  lreload e c1 n = (e', r) ->
  LWF e' /\ l_layers e' = l_layers e /\ l_auto e' = l_auto e /\ l_upt e' = l_upt e /\ same_kind (l_cache e) (l_cache e') /\
  l_next e <= l_next e' /\ r <> RCrash /\ (forall t, t < l_next e -> l_heap e' t = l_heap e t) /\
  match eff (l_layers e) n 0 with
  | Some (i, v) => r = RTpl (l_next e) v /\ l_heap e' (l_next e) = {| lt_name := n; lt_layer := i; lt_ver := v |} /\
                   (forall k t, cache_lookup (l_cache e') k = Some t -> (k = n /\ t = l_next e) \/ cache_lookup (l_cache e) k = Some t)
  | None => r = RNotFound /\ l_heap e' = l_heap e /\ (forall k, cache_lookup (l_cache e') k = cache_lookup (l_cache e) k)
  end.
Proof.
  intros W I1 K1 L1 H. unfold lreload in H. destruct (eff (l_layers e) n 0) as [[i v]|].
  - destruct (cache_set c1 n (l_next e)) as [c2 ok] eqn:S.
    destruct (cache_set_spec c1 n (l_next e) c2 ok I1 S) as (I2 & K2 & -> & L2 & St).
    injection H as <- <-. cbn [l_layers l_auto l_upt l_cache l_next l_heap].
    pose proof (lwf_next e W) as Hn.
    assert (L2' : forall k t, cache_lookup c2 k = Some t -> (k = n /\ t = l_next e) \/ cache_lookup (l_cache e) k = Some t).
    { intros k t D. destruct (L2 k t D) as [X|X]; [now left|right; now rewrite <- L1]. }
    split.
    + constructor; cbn [l_next l_cache l_heap]; [lia|exact I2|].
      intros k t D. destruct (L2' k t D) as [[-> ->]|D'].
      * rewrite N.eqb_refl. cbn. split; [lia|reflexivity].
      * destruct (lwf_entries e W k t D') as [Ht Hk].
        destruct (t =? l_next e) eqn:E; [apply N.eqb_eq in E; lia|]. split; [lia|exact Hk].
    + splits; try reflexivity; try lia; try discriminate.
      * destruct (l_cache e), c1, c2; cbn in *; try contradiction; try exact I; congruence.
      * intros t Ht. destruct (t =? l_next e) eqn:E; [apply N.eqb_eq in E; lia|reflexivity].
      * now rewrite N.eqb_refl.
      * exact L2'.
  - injection H as <- <-. split; [exact (lwf_set_cache e c1 W I1 L1)|].
    cbn [lset_cache l_layers l_auto l_upt l_cache l_next l_heap]. splits; try reflexivity; try assumption; try lia; try discriminate.
Qed.

Lemma lload_spec e n e' r : LWF e -> lload e n = (e', r) ->
  LWF e' /\ l_layers e' = l_layers e /\ l_auto e' = l_auto e /\ l_upt e' = l_upt e /\ same_kind (l_cache e) (l_cache e') /\
  l_next e <= l_next e' /\ r <> RCrash /\ (forall t, t < l_next e -> l_heap e' t = l_heap e t) /\
  (* every cache entry afterwards is an old one, or the template just loaded for n from the resolving layer *)
  (forall k t, cache_lookup (l_cache e') k = Some t ->
     cache_lookup (l_cache e) k = Some t \/
     (k = n /\ t = l_next e /\ exists i v, eff (l_layers e) n 0 = Some (i, v) /\
        l_heap e' t = {| lt_name := n; lt_layer := i; lt_ver := v |})).
Proof.
  intros W H. unfold lload in H.
  destruct (cache_get (l_cache e) n) as [c1 cr] eqn:G.
  destruct (cache_get_spec _ _ _ _ (lwf_cache e W) G) as (I1 & K1 & L1 & NC & Hit).
  assert (R : forall e' r, lreload e c1 n = (e', r) ->
    LWF e' /\ l_layers e' = l_layers e /\ l_auto e' = l_auto e /\ l_upt e' = l_upt e /\ same_kind (l_cache e) (l_cache e') /\
    l_next e <= l_next e' /\ r <> RCrash /\ (forall t, t < l_next e -> l_heap e' t = l_heap e t) /\
    (forall k t, cache_lookup (l_cache e') k = Some t ->
       cache_lookup (l_cache e) k = Some t \/
       (k = n /\ t = l_next e /\ exists i v, eff (l_layers e) n 0 = Some (i, v) /\
          l_heap e' t = {| lt_name := n; lt_layer := i; lt_ver := v |}))).
  { intros e0 r0 H0. destruct (lreload_spec e c1 n e0 r0 W I1 K1 L1 H0) as (W' & E1 & E2 & E3 & K' & N' & C' & Hh & M).
    splits; try assumption.
    intros k t D. destruct (eff (l_layers e) n 0) as [[i v]|].
    - destruct M as (_ & Hp & Lk). destruct (Lk k t D) as [[-> ->]|X]; [right|now left].
      splits; try reflexivity. exists i, v. split; [reflexivity|exact Hp].
    - destruct M as (_ & _ & Lk). left. now rewrite <- Lk. }
  destruct cr as [t| |]; [|exact (R _ _ H)|congruence].
  destruct (negb (l_auto e) || l_up_to_date e t); [|exact (R _ _ H)].
  injection H as <- <-. split; [exact (lwf_set_cache e c1 W I1 L1)|].
  cbn [lset_cache l_layers l_auto l_upt l_cache l_next l_heap]. splits; try reflexivity; try assumption; try lia; try discriminate; auto.
  intros k t0 D. left. now rewrite <- L1.
Qed.

(* auto_reload with sound closures: the answer is what the layered loader resolves to now *)
Lemma lload_current e n e' r : LWF e -> l_auto e = true -> closure_sound e -> lload e n = (e', r) ->
  match eff (l_layers e) n 0 with Some (_, v) => exists t, r = RTpl t v | None => r = RNotFound end.
Proof.
  intros W A CS H. unfold lload in H.
  destruct (cache_get (l_cache e) n) as [c1 cr] eqn:G.
  destruct (cache_get_spec _ _ _ _ (lwf_cache e W) G) as (I1 & K1 & L1 & NC & Hit).
  assert (R : forall e' r, lreload e c1 n = (e', r) ->
            match eff (l_layers e) n 0 with Some (_, v) => exists t, r = RTpl t v | None => r = RNotFound end).
  { intros e0 r0 H0. destruct (lreload_spec e c1 n e0 r0 W I1 K1 L1 H0) as (_ & _ & _ & _ & _ & _ & _ & _ & M).
    destruct (eff (l_layers e) n 0) as [[i v]|]; destruct M as [-> _]; [now exists (l_next e)|reflexivity]. }
  destruct cr as [t| |]; [|exact (R _ _ H)|congruence].
  rewrite A in H. cbn [negb orb] in H. destruct (l_up_to_date e t) eqn:U; [|exact (R _ _ H)].
  destruct (Hit t eq_refl) as [D _]. rewrite (CS n t D U). injection H as _ <-. now exists t.
Qed.

(* ------------------------------------------------------------------ steps and runs *)
Lemma lselect_spec ns : forall e e' r, LWF e -> lselect e ns = (e', r) ->
  LWF e' /\ l_layers e' = l_layers e /\ l_auto e' = l_auto e /\ l_upt e' = l_upt e /\ same_kind (l_cache e) (l_cache e') /\
  l_next e <= l_next e' /\
  (forall t, t < l_next e -> l_heap e' t = l_heap e t) /\
  (forall k t, cache_lookup (l_cache e') k = Some t ->
     cache_lookup (l_cache e) k = Some t \/
     (l_next e <= t /\ exists i v, eff (l_layers e) k 0 = Some (i, v) /\ l_heap e' t = {| lt_name := k; lt_layer := i; lt_ver := v |})).
Proof.
  induction ns as [|n ns IH]; intros e e' r W H; cbn [lselect] in H.
  - injection H as <- <-. splits; try assumption; try reflexivity; try lia; auto. destruct (l_cache e); cbn; auto.
  - destruct (lload e n) as [e1 r1] eqn:L.
    destruct (lload_spec e n e1 r1 W L) as (W1 & E1 & E2 & E3 & K1 & N1 & C1 & H1 & X1).
    assert (Base : LWF e1 /\ l_layers e1 = l_layers e /\ l_auto e1 = l_auto e /\ l_upt e1 = l_upt e /\ same_kind (l_cache e) (l_cache e1) /\
      l_next e <= l_next e1 /\ (forall t, t < l_next e -> l_heap e1 t = l_heap e t) /\
      (forall k t, cache_lookup (l_cache e1) k = Some t ->
         cache_lookup (l_cache e) k = Some t \/
         (l_next e <= t /\ exists i v, eff (l_layers e) k 0 = Some (i, v) /\ l_heap e1 t = {| lt_name := k; lt_layer := i; lt_ver := v |}))).
    { splits; try assumption. intros k t D. destruct (X1 k t D) as [Y|(-> & -> & i & v & Y1 & Y2)]; [now left|right].
      split; [lia|]. now exists i, v. }
    destruct r1; try (injection H as <- <-; exact Base).
    destruct (IH _ _ _ W1 H) as (W2 & F1 & F2 & F3 & K2 & N2 & H2 & X2).
    splits; try assumption; try congruence; try lia.
    + destruct (l_cache e), (l_cache e1), (l_cache e'); cbn in *; try contradiction; try exact I; congruence.
    + intros t Ht. rewrite H2 by lia. now apply H1.
    + intros k t D. destruct (X2 k t D) as [Y|(Y0 & i & v & Y1 & Y2)].
      * destruct Base as (_ & _ & _ & _ & _ & _ & _ & B). destruct (B k t Y) as [Z|(Z0 & i & v & Z1 & Z2)]; [now left|right].
        split; [exact Z0|]. exists i, v. split; [exact Z1|]. rewrite H2; [exact Z2|].
        destruct (lwf_entries e1 W1 k t Y) as [Zt _]. lia.
      * right. split; [lia|]. exists i, v. split; [now rewrite <- E1|exact Y2].
Qed.

Lemma lstep_inv e o e' x : LWF e -> lstep e o = (e', x) ->
  LWF e' /\ l_auto e' = l_auto e /\ l_upt e' = l_upt e /\ same_kind (l_cache e) (l_cache e') /\
  l_layers e' = layers_after (l_layers e) [o] /\
  (forall t, t < l_next e -> l_heap e' t = l_heap e t) /\
  (forall k t, cache_lookup (l_cache e') k = Some t ->
     cache_lookup (l_cache e) k = Some t \/
     (l_next e <= t /\ exists i v, eff (l_layers e) k 0 = Some (i, v) /\ l_heap e' t = {| lt_name := k; lt_layer := i; lt_ver := v |})).
Proof.
  intros W H. destruct o as [n|ns|j n v|j n]; cbn [lstep layers_after] in *.
  - destruct (lload e n) as [e1 r] eqn:L. injection H as <- _.
    destruct (lload_spec e n e1 r W L) as (W1 & E1 & E2 & E3 & K1 & N1 & _ & H1 & X1).
    splits; try assumption. intros k t D. destruct (X1 k t D) as [Y|(-> & -> & i & v & Y1 & Y2)]; [now left|right].
    split; [lia|]. now exists i, v.
  - destruct (lselect e ns) as [e1 r] eqn:L. injection H as <- _.
    destruct (lselect_spec ns e e1 r W L) as (W1 & E1 & E2 & E3 & K1 & N1 & H1 & X1). splits; assumption.
  - injection H as <- _. split; [destruct W; constructor; assumption|]. cbn.
    splits; try reflexivity; auto. destruct (l_cache e); cbn; auto.
  - injection H as <- _. split; [destruct W; constructor; assumption|]. cbn.
    splits; try reflexivity; auto. destruct (l_cache e); cbn; auto.
Qed.

Lemma layers_after_app ls h1 : forall h2, layers_after ls (h1 ++ h2) = layers_after (layers_after ls h1) h2.
Proof. revert ls. induction h1 as [|o h1 IH]; intros ls h2; [reflexivity|]. destruct o; cbn [app layers_after]; apply IH. Qed.

Lemma lrun_wf h : forall e e' xs, LWF e -> lrun e h = (e', xs) ->
  LWF e' /\ l_auto e' = l_auto e /\ l_upt e' = l_upt e /\ l_layers e' = layers_after (l_layers e) h.
Proof.
  induction h as [|o h IH]; intros e e' xs W H; cbn [lrun] in H.
  - injection H as <- _. auto.
  - destruct (lstep e o) as [e1 x] eqn:S. destruct (lrun e1 h) as [e2 xs'] eqn:R. injection H as <- _.
    destruct (lstep_inv e o e1 x W S) as (W1 & A1 & U1 & _ & L1 & _).
    destruct (IH _ _ _ W1 R) as (W2 & A2 & U2 & L2).
    splits; try assumption; try congruence.
    change (o :: h) with ([o] ++ h). rewrite layers_after_app, <- L1. exact L2.
Qed.

Lemma new_lenv_wf ar u size ls : LWF (new_lenv ar u size ls).
Proof.
  constructor; cbn [new_lenv l_next l_cache l_heap]; [lia| |].
  - unfold create_cache. destruct (size =? 0)%Z eqn:E0; [exact I|]. destruct (size <? 0)%Z eqn:E1; [exact I|].
    cbn [cache_ok]. apply init_inv. lia.
  - intros k t. unfold create_cache. destruct (size =? 0)%Z; [discriminate|]. destruct (size <? 0)%Z; discriminate.
Qed.

(* ------------------------------------------------------------------ ChoiceLoader: the guarded invariant *)
Lemma upd_layer_length ls : forall j n v, length (upd_layer ls j n v) = length ls.
Proof. induction ls as [|l r IH]; intros [|j] n v; cbn; auto. Qed.

Lemma firstn_upd_layer ls : forall j k n v, (k <= j)%nat -> firstn k (upd_layer ls j n v) = firstn k ls.
Proof.
  induction ls as [|l r IH]; intros j k n v H; [reflexivity|].
  destruct k as [|k]; [reflexivity|]. destruct j as [|j]; [lia|]. cbn. f_equal. apply IH. lia.
Qed.

(* a deletion never makes an earlier layer gain a name *)
Lemma lacks_upd_del ls n : forall j m k, forallb (lacks n) (firstn k ls) = true ->
  forallb (lacks n) (firstn k (upd_layer ls j m None)) = true.
Proof.
  induction ls as [|l r IH]; intros j m k H; [destruct k; exact H|].
  destruct k as [|k]; [reflexivity|]. cbn [firstn forallb] in H. apply andb_true_iff in H as [H1 H2].
  destruct j as [|j]; cbn [upd_layer firstn forallb].
  - rewrite H2, andb_true_r. unfold lacks, put in *. destruct (n =? m); [reflexivity|exact H1].
  - rewrite H1. cbn. now apply IH.
Qed.

Lemma eff_lt_length ls n : forall i0 i v, eff ls n i0 = Some (i, v) -> (N.to_nat i < N.to_nat i0 + length ls)%nat.
Proof.
  intros i0 i v H. destruct (eff_sound ls n i0 i v H) as (k & l & -> & Hn & _).
  assert (k < length ls)%nat by (apply nth_error_Some; congruence). lia.
Qed.

Definition layer_in_range (e : lenv) : Prop :=
  forall k t, cache_lookup (l_cache e) k = Some t -> (N.to_nat (lt_layer (l_heap e t)) < length (l_layers e))%nat.

Lemma lstep_choice_inv e o e' x : LWF e -> earlier_lack e -> layer_in_range e ->
  puts_only_last (length (l_layers e)) [o] = true -> lstep e o = (e', x) ->
  earlier_lack e' /\ layer_in_range e' /\ length (l_layers e') = length (l_layers e).
Proof.
  intros W EL LR G H.
  destruct (lstep_inv e o e' x W H) as (W' & _ & _ & _ & Ly & Hh & X).
  destruct o as [n|ns|j n v|j n]; cbn [layers_after] in Ly.
  - (* get *) unfold earlier_lack, layer_in_range. rewrite Ly. split; [|split; [|reflexivity]]; intros k t D; destruct (X k t D) as [Y|(Y0 & i & v & Y1 & Y2)].
    + rewrite Hh; [exact (EL k t Y)|]. destruct (lwf_entries e W k t Y). lia.
    + rewrite Y2. cbn [lt_layer]. destruct (eff_sound _ _ _ _ _ Y1) as (q & l & -> & _ & _ & Hf).
      now replace (N.to_nat (0 + N.of_nat q)) with q by lia.
    + rewrite Hh; [exact (LR k t Y)|]. destruct (lwf_entries e W k t Y). lia.
    + rewrite Y2. cbn [lt_layer]. pose proof (eff_lt_length _ _ _ _ _ Y1). lia.
  - (* select *) unfold earlier_lack, layer_in_range. rewrite Ly. split; [|split; [|reflexivity]]; intros k t D; destruct (X k t D) as [Y|(Y0 & i & v & Y1 & Y2)].
    + rewrite Hh; [exact (EL k t Y)|]. destruct (lwf_entries e W k t Y). lia.
    + rewrite Y2. cbn [lt_layer]. destruct (eff_sound _ _ _ _ _ Y1) as (q & l & -> & _ & _ & Hf).
      now replace (N.to_nat (0 + N.of_nat q)) with q by lia.
    + rewrite Hh; [exact (LR k t Y)|]. destruct (lwf_entries e W k t Y). lia.
    + rewrite Y2. cbn [lt_layer]. pose proof (eff_lt_length _ _ _ _ _ Y1). lia.
  - (* put into the last layer: layers before a cached template's layer are untouched *)
    injection H as <- _. cbn [puts_only_last] in G. rewrite andb_true_r in G. apply Nat.eqb_eq in G.
    unfold earlier_lack, layer_in_range. cbn [lset_layers l_layers l_cache l_heap]. rewrite upd_layer_length.
    split; [|split; [|reflexivity]]; intros k t D.
    + rewrite firstn_upd_layer; [exact (EL k t D)|]. pose proof (LR k t D). lia.
    + exact (LR k t D).
  - (* delete *)
    injection H as <- _. unfold earlier_lack, layer_in_range. cbn [lset_layers l_layers l_cache l_heap]. rewrite upd_layer_length.
    split; [|split; [|reflexivity]]; intros k t D.
    + apply lacks_upd_del. exact (EL k t D).
    + exact (LR k t D).
Qed.

Lemma puts_only_last_app nl h1 : forall h2, puts_only_last nl (h1 ++ h2) = puts_only_last nl h1 && puts_only_last nl h2.
Proof.
  induction h1 as [|o h1 IH]; intros h2; [reflexivity|]. destruct o; cbn [app puts_only_last]; try apply IH.
  rewrite IH. now rewrite andb_assoc.
Qed.

Lemma lrun_choice_inv h : forall e e' xs, LWF e -> earlier_lack e -> layer_in_range e ->
  puts_only_last (length (l_layers e)) h = true -> lrun e h = (e', xs) -> earlier_lack e'.
Proof.
  induction h as [|o h IH]; intros e e' xs W EL LR G H; cbn [lrun] in H.
  - now injection H as <- _.
  - destruct (lstep e o) as [e1 x] eqn:S. destruct (lrun e1 h) as [e2 xs'] eqn:R. injection H as <- _.
    change (o :: h) with ([o] ++ h) in G. rewrite puts_only_last_app in G. apply andb_true_iff in G as [G1 G2].
    destruct (lstep_choice_inv e o e1 x W EL LR G1 S) as (EL1 & LR1 & Len).
    destruct (lstep_inv e o e1 x W S) as (W1 & _).
    apply (IH e1 e2 xs' W1 EL1 LR1); [now rewrite Len|exact R].
Qed.
