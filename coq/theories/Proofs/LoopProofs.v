(* Proofs for C07: the LoopContext state machine refines the documented loop variable. *)
From Coq Require Import List NArith ZArith Bool Arith Lia.
Import ListNotations.
From JV Require Import Model.Loop Spec.LoopSpec.
Open Scope Z_scope.

(* ------------------------------------------------------------------ list facts *)

Lemma skipn_cons_nth : forall (A : Type) (l : list A) i x r, skipn i l = x :: r -> nth_error l i = Some x.
Proof.
  intros A l. induction l as [|y t IH]; intros i x r H.
  - destruct i; discriminate.
  - destruct i as [|i]; cbn in *; [congruence|exact (IH i x r H)].
Qed.

Lemma skipn_cons_S : forall (A : Type) (l : list A) i x r, skipn i l = x :: r -> skipn (S i) l = r.
Proof.
  intros A l. induction l as [|y t IH]; intros i x r H.
  - destruct i; discriminate.
  - destruct i as [|i]; cbn in *; [congruence|exact (IH i x r H)].
Qed.

Lemma skipn_nil_nth : forall (A : Type) (l : list A) i, skipn i l = [] -> nth_error l i = None.
Proof.
  intros A l. induction l as [|y t IH]; intros i H.
  - destruct i; reflexivity.
  - destruct i as [|i]; cbn in *; [discriminate|exact (IH i H)].
Qed.

Lemma list_eqb_refl : forall l, list_eqb l l = true.
Proof. induction l as [|x r IH]; cbn; [reflexivity|]. rewrite N.eqb_refl, IH. reflexivity. Qed.

(* ------------------------------------------------------------------ invariant *)

Record Pre (k : kind) (xs : list item) (d0 : Z) (i : nat) (s : st) : Prop := {
  pre_idx : index0 s = Z.of_nat i - 1;
  pre_rest : opt_item (after s) ++ rem s = skipn i xs;
  pre_cur : (0 < i)%nat -> current s = nth_error xs (i - 1);
  pre_bef : (1 < i)%nat -> before s = nth_error xs (i - 2);
  pre_len : lenc s = None \/ lenc s = Some (zlen xs);
  pre_iter : k = Sized -> iterable s = xs;
  pre_d : depth0 s = d0;
  pre_le : (i <= length xs)%nat }.

Lemma pre_init : forall k xs d0, Pre k xs d0 0 (init xs d0).
Proof. intros. constructor; cbn; auto; try lia. Qed.

Lemma pre_count : forall k xs d0 i s, Pre k xs d0 i s ->
  zlen (rem s) + (match after s with Some _ => 1 | None => 0 end) + Z.of_nat i = zlen xs.
Proof.
  intros k xs d0 i s P. pose proof (f_equal (@length item) (pre_rest _ _ _ _ _ P)) as H.
  rewrite app_length, skipn_length in H. pose proof (pre_le _ _ _ _ _ P). unfold zlen.
  destruct (after s); cbn in H; lia.
Qed.

Lemma m_length_pre : forall k xs d0 i s s' n, Pre k xs d0 i s -> m_length k s = (s', n) ->
  n = zlen xs /\ Pre k xs d0 i s' /\ last_changed s' = last_changed s /\ index0 s' = index0 s.
Proof.
  intros k xs d0 i s s' n P H. unfold m_length in H.
  destruct (lenc s) as [m|] eqn:L.
  - injection H as <- <-. destruct (pre_len _ _ _ _ _ P) as [X|X]; [congruence|].
    split; [congruence|]. auto.
  - destruct k; injection H as <- <-.
    + split; [rewrite (pre_iter _ _ _ _ _ P eq_refl); reflexivity|].
      split; [|auto]. destruct P. constructor; cbn; auto.
      right. rewrite (pre_iter0 eq_refl). reflexivity.
    + pose proof (pre_count _ _ _ _ _ P) as C. rewrite (pre_idx _ _ _ _ _ P).
      assert (E : zlen (rem s) + (Z.of_nat i - 1 + 1) + match after s with Some _ => 1 | None => 0 end = zlen xs) by lia.
      split; [exact E|]. split; [|auto]. destruct P. constructor; cbn; auto.
      right. f_equal. exact E.
Qed.

Lemma m_peek_pre : forall k xs d0 i s s' o, Pre k xs d0 i s -> m_peek s = (s', o) ->
  o = nth_error xs i /\ Pre k xs d0 i s' /\ last_changed s' = last_changed s /\ index0 s' = index0 s.
Proof.
  intros k xs d0 i s s' o P H. unfold m_peek in H. pose proof (pre_rest _ _ _ _ _ P) as R.
  destruct (after s) as [y|] eqn:A.
  - injection H as <- <-. cbn in R. split; [symmetry; exact (skipn_cons_nth _ _ _ _ _ (eq_sym R))|]. auto.
  - destruct (rem s) as [|y r] eqn:M; injection H as <- <-.
    + cbn in R. split; [symmetry; exact (skipn_nil_nth _ _ _ (eq_sym R))|]. auto.
    + cbn in R. split; [symmetry; exact (skipn_cons_nth _ _ _ _ _ (eq_sym R))|].
      split; [|auto]. destruct P. constructor; cbn; auto.
Qed.

Lemma m_query_pre : forall k xs d0 i s q s' a, Pre k xs d0 i s -> m_query k s q = (s', a) ->
  Pre k xs d0 i s' /\ index0 s' = index0 s.
Proof.
  intros k xs d0 i s q s' a P H. destruct q; cbn [m_query] in H;
  try (injection H as <- <-; auto; fail).
  - destruct (m_length k s) as [s1 n] eqn:E. injection H as <- <-.
    destruct (m_length_pre _ _ _ _ _ _ _ P E) as [_ [P1 [_ I1]]]. auto.
  - destruct (m_length k s) as [s1 n] eqn:E. injection H as <- <-.
    destruct (m_length_pre _ _ _ _ _ _ _ P E) as [_ [P1 [_ I1]]]. auto.
  - destruct (m_length k s) as [s1 n] eqn:E. injection H as <- <-.
    destruct (m_length_pre _ _ _ _ _ _ _ P E) as [_ [P1 [_ I1]]]. auto.
  - destruct (m_peek s) as [s1 o] eqn:E. injection H as <- <-.
    destruct (m_peek_pre _ _ _ _ _ _ _ P E) as [_ [P1 [_ I1]]]. auto.
  - destruct (index0 s =? 0); injection H as <- <-; auto.
  - destruct (m_peek s) as [s1 o] eqn:E. injection H as <- <-.
    destruct (m_peek_pre _ _ _ _ _ _ _ P E) as [_ [P1 [_ I1]]]. auto.
  - destruct args; injection H as <- <-; auto.
  - match type of H with (if ?c then _ else _) = _ => destruct c end; injection H as <- <-; auto.
    split; [|reflexivity]. destruct P. constructor; cbn; auto.
Qed.

Lemma mod_nat_Z : forall i m, (0 < m)%nat -> Z.to_nat (Z.of_nat i mod Z.of_nat m) = (i mod m)%nat.
Proof.
  intros i m Hm. rewrite <- (Nat2Z.id (i mod m)). f_equal.
  pose proof (Nat.div_mod i m ltac:(lia)) as D. pose proof (Nat.mod_upper_bound i m ltac:(lia)) as U.
  symmetry. apply (Z.mod_unique_pos _ _ (Z.of_nat (i / m))); lia.
Qed.

Lemma m_query_ans : forall k xs d0 i x s q s' a,
  Pre k xs d0 (S i) s -> nth_error xs i = Some x -> m_query k s q = (s', a) ->
  (a, last_changed s') = s_answer xs d0 i x q (last_changed s).
Proof.
  intros k xs d0 i x s q s' a P Hx H.
  pose proof (pre_idx _ _ _ _ _ P) as I. pose proof (pre_le _ _ _ _ _ P) as LE.
  assert (I' : index0 s = Z.of_nat i) by lia.
  destruct q; cbn [m_query s_answer] in *.
  - destruct (m_length k s) as [s1 n] eqn:E. injection H as <- <-.
    destruct (m_length_pre _ _ _ _ _ _ _ P E) as [-> [_ [-> _]]]. reflexivity.
  - injection H as <- <-. rewrite I'. reflexivity.
  - injection H as <- <-. rewrite I'. reflexivity.
  - destruct (m_length k s) as [s1 n] eqn:E. injection H as <- <-.
    destruct (m_length_pre _ _ _ _ _ _ _ P E) as [-> [_ [-> ->]]]. rewrite I'. reflexivity.
  - destruct (m_length k s) as [s1 n] eqn:E. injection H as <- <-.
    destruct (m_length_pre _ _ _ _ _ _ _ P E) as [-> [_ [-> ->]]]. rewrite I'. f_equal. f_equal. lia.
  - injection H as <- <-. rewrite I'. f_equal. f_equal. destruct i; [reflexivity|].
    cbn [Nat.eqb]. apply Z.eqb_neq. lia.
  - destruct (m_peek s) as [s1 o] eqn:E. injection H as <- <-.
    destruct (m_peek_pre _ _ _ _ _ _ _ P E) as [-> [_ [-> _]]]. f_equal. f_equal.
    destruct (nth_error xs (S i)) eqn:N.
    + assert (S i < length xs)%nat by (apply nth_error_Some; congruence).
      symmetry. apply Nat.eqb_neq. lia.
    + apply nth_error_None in N. symmetry. apply Nat.eqb_eq. lia.
  - rewrite I' in H. destruct i as [|j].
    + cbn in H. injection H as <- <-. reflexivity.
    + replace (Z.of_nat (S j) =? 0) with false in H by (symmetry; apply Z.eqb_neq; lia).
      injection H as <- <-. rewrite (pre_bef _ _ _ _ _ P) by lia.
      replace (S (S j) - 2)%nat with j by lia. reflexivity.
  - destruct (m_peek s) as [s1 o] eqn:E. injection H as <- <-.
    destruct (m_peek_pre _ _ _ _ _ _ _ P E) as [-> [_ [-> _]]]. reflexivity.
  - destruct args as [|a0 ar]; injection H as <- <-; [reflexivity|].
    rewrite I'. unfold zlen. rewrite mod_nat_Z by (cbn; lia). reflexivity.
  - rewrite (pre_cur _ _ _ _ _ P) in H by lia. replace (S i - 1)%nat with i in H by lia. rewrite Hx in H.
    destruct (last_changed s) as [l|] eqn:LC.
    + destruct (list_eqb l match v with Some c => c | None => [x] end); injection H as <- <-; cbn; congruence.
    + injection H as <- <-. reflexivity.
  - injection H as <- <-. rewrite (pre_d _ _ _ _ _ P). reflexivity.
  - injection H as <- <-. rewrite (pre_d _ _ _ _ _ P). reflexivity.
Qed.

Lemma m_queries_ok : forall k xs d0 i x qs s s' l,
  Pre k xs d0 (S i) s -> nth_error xs i = Some x -> m_queries k s qs = (s', l) ->
  Pre k xs d0 (S i) s' /\ (l, last_changed s') = s_answers xs d0 i x qs (last_changed s).
Proof.
  intros k xs d0 i x qs. induction qs as [|q r IH]; intros s s' l P Hx H; cbn [m_queries s_answers] in *.
  - injection H as <- <-. auto.
  - destruct (m_query k s q) as [s1 a] eqn:E1. destruct (m_queries k s1 r) as [s2 l2] eqn:E2.
    injection H as <- <-.
    destruct (m_query_pre _ _ _ _ _ _ _ _ P E1) as [P1 _].
    pose proof (m_query_ans _ _ _ _ _ _ _ _ _ P Hx E1) as A1.
    destruct (IH _ _ _ P1 Hx E2) as [P2 A2].
    split; [exact P2|]. rewrite <- A1, <- A2. reflexivity.
Qed.

Lemma m_next_pre : forall k xs d0 i s, Pre k xs d0 i s ->
  match skipn i xs with
  | [] => m_next s = None
  | x :: r => exists s', m_next s = Some (x, s') /\ Pre k xs d0 (S i) s' /\ last_changed s' = last_changed s
  end.
Proof.
  intros k xs d0 i s P. pose proof (pre_rest _ _ _ _ _ P) as R. unfold m_next.
  destruct (skipn i xs) as [|x r] eqn:SK.
  - destruct (after s); [discriminate|]. cbn in R. rewrite R. reflexivity.
  - assert (Hn : nth_error xs i = Some x) by exact (skipn_cons_nth _ _ _ _ _ SK).
    assert (Hs : skipn (S i) xs = r) by exact (skipn_cons_S _ _ _ _ _ SK).
    assert (Hl : (S i <= length xs)%nat) by (apply nth_error_Some; congruence).
    assert (HP : forall rm, rm = r -> Pre k xs d0 (S i)
       {| iterable := iterable s; rem := rm; after := None; lenc := lenc s; before := current s;
          current := Some x; index0 := index0 s + 1; last_changed := last_changed s; depth0 := depth0 s |}).
    { intros rm ->. destruct P.
      constructor; cbn [iterable rem after lenc before current index0 last_changed depth0 opt_item app]; auto.
      - lia.
      - intros _. replace (S i - 1)%nat with i by lia. congruence.
      - intros H1. rewrite pre_cur0 by lia. f_equal; lia. }
    destruct (after s) as [y|].
    + cbn in R. injection R as -> R. eexists. split; [reflexivity|]. split; [exact (HP _ R)|reflexivity].
    + cbn in R. rewrite R. eexists. split; [reflexivity|]. split; [exact (HP _ eq_refl)|reflexivity].
Qed.

Lemma run_go_ok : forall k xs d0 todo i s fuel script,
  Pre k xs d0 i s -> skipn i xs = todo -> (length todo < fuel)%nat ->
  run_go fuel k s script = Some (spec_go xs d0 i todo script (last_changed s)).
Proof.
  intros k xs d0 todo. induction todo as [|x r IH]; intros i s fuel script P SK HF;
  (destruct fuel as [|fuel]; [cbn in HF; lia|]); cbn [run_go spec_go];
  pose proof (m_next_pre _ _ _ _ _ P) as N; rewrite SK in N.
  - rewrite N. reflexivity.
  - destruct N as [s1 [-> [P1 LC1]]].
    assert (Hx : nth_error xs i = Some x) by exact (skipn_cons_nth _ _ _ _ _ SK).
    destruct (m_queries k s1 (hd [] script)) as [s2 ans] eqn:Q.
    destruct (m_queries_ok _ _ _ _ _ _ _ _ _ P1 Hx Q) as [P2 A2].
    rewrite (IH (S i) s2 fuel (tl script) P2 (skipn_cons_S _ _ _ _ _ SK) ltac:(cbn in HF; lia)).
    rewrite <- LC1, <- A2. reflexivity.
Qed.

Theorem loop_refines : forall k d0 xs script, run k d0 xs script = Some (spec xs d0 script).
Proof.
  intros k d0 xs script. unfold run, spec.
  exact (run_go_ok k xs d0 xs 0%nat (init xs d0) (S (length xs)) script (pre_init k xs d0) eq_refl ltac:(lia)).
Qed.

Lemma spec_go_items : forall xs d0 todo i script lc, map fst (spec_go xs d0 i todo script lc) = todo.
Proof.
  intros xs d0 todo. induction todo as [|x r IH]; intros i script lc; cbn [spec_go]; [reflexivity|].
  destruct (s_answers xs d0 i x (hd [] script) lc) as [ans lc']. cbn. f_equal. apply IH.
Qed.

Theorem lookahead_transparent : forall k d0 xs script,
  option_map (map fst) (run k d0 xs script) = Some xs.
Proof. intros. rewrite loop_refines. cbn. f_equal. apply spec_go_items. Qed.

Theorem reachable_pre : forall k xs d0 s, reachable k xs d0 s -> exists i, Pre k xs d0 i s.
Proof.
  intros k xs d0 s R. induction R as [|s x s' R [i P] H|s q s' a R [i P] H].
  - exists 0%nat. apply pre_init.
  - pose proof (m_next_pre _ _ _ _ _ P) as N. destruct (skipn i xs) as [|y r]; [congruence|].
    destruct N as [s1 [E [P1 _]]]. exists (S i). congruence.
  - exists i. exact (proj1 (m_query_pre _ _ _ _ _ _ _ _ P H)).
Qed.

Theorem loop_invariant : forall k xs d0 s, reachable k xs d0 s ->
  firstn (Z.to_nat (index0 s + 1)) xs ++ opt_item (after s) ++ rem s = xs.
Proof.
  intros k xs d0 s R. destruct (reachable_pre _ _ _ _ R) as [i P].
  rewrite (pre_idx _ _ _ _ _ P), (pre_rest _ _ _ _ _ P).
  replace (Z.to_nat (Z.of_nat i - 1 + 1)) with i by lia. apply firstn_skipn.
Qed.

Theorem else_iff_empty : forall k filtered p d0 xs script o,
  run_for k filtered p d0 xs script = Some o ->
  map fst (visited o) = (if filtered then filter p xs else xs) /\
  (else_taken o = true <-> (if filtered then filter p xs else xs) = []).
Proof.
  intros k filtered p d0 xs script o H. unfold run_for in H. rewrite loop_refines in H.
  injection H as <-. cbn [visited else_taken]. unfold spec. rewrite spec_go_items. split; [reflexivity|].
  destruct (if filtered then filter p xs else xs) as [|x r]; cbn [spec_go].
  - tauto.
  - destruct (s_answers (x :: r) d0 0 x (hd [] script) None). split; congruence.
Qed.

Theorem run_for_total : forall k filtered p d0 xs script, exists o, run_for k filtered p d0 xs script = Some o.
Proof. intros. unfold run_for. rewrite loop_refines. eexists. reflexivity. Qed.

Theorem recursive_depth : forall t d0, rec_loop d0 t = levels d0 t.
Proof. intros t d0. reflexivity. Qed.

(* ------------------------------------------------------------------ loop controls *)

Lemma run_ctl_go_cut : forall fuel k s script ctls ind l,
  run_go fuel k s script = Some l ->
  run_ctl_go fuel k s script ctls ind =
  Some (cut ctls l, match l with [] => ind | _ => false end).
Proof.
  induction fuel as [|fuel IH]; intros k s script ctls ind l H; [discriminate|].
  cbn [run_go run_ctl_go] in *. destruct (m_next s) as [[x s1]|]; [|injection H as <-; reflexivity].
  destruct (m_queries k s1 (hd [] script)) as [s2 ans].
  destruct (run_go fuel k s2 (tl script)) as [l'|] eqn:R; [|discriminate]. injection H as <-.
  cbn [cut]. destruct (hd Go ctls); try reflexivity;
  rewrite (IH k s2 (tl script) (tl ctls) false l' R); destruct l'; reflexivity.
Qed.

Theorem else_iff_empty_ctl : forall k filtered p d0 xs script ctls o,
  run_for_ctl k filtered p d0 xs script ctls = Some o ->
  let src := if filtered then filter p xs else xs in
  visited o = cut ctls (spec src d0 script) /\
  map fst (visited o) = cut ctls src /\
  (else_taken o = true <-> src = []).
Proof.
  intros k filtered p d0 xs script ctls o H src. unfold run_for_ctl in H. fold src in H.
  pose proof (loop_refines (if filtered then Unsized else k) d0 src script) as R. unfold run in R.
  rewrite (run_ctl_go_cut _ _ _ _ ctls true _ R) in H. injection H as <-. cbn [visited else_taken].
  split; [reflexivity|]. split.
  - assert (G : forall A B (f : A -> B) c (l : list A), map f (cut c l) = cut c (map f l)).
    { intros A B f c l. revert c. induction l as [|e r IHl]; intros c; cbn [cut map]; [reflexivity|].
      f_equal. destruct (hd Go c); try reflexivity; apply IHl. }
    rewrite G. unfold spec. rewrite spec_go_items. reflexivity.
  - unfold spec. destruct src as [|x r]; cbn [spec_go]; [tauto|].
    destruct (s_answers (x :: r) d0 0 x (hd [] script) None). split; congruence.
Qed.

Theorem run_for_ctl_total : forall k filtered p d0 xs script ctls, exists o, run_for_ctl k filtered p d0 xs script ctls = Some o.
Proof.
  intros. unfold run_for_ctl.
  pose proof (loop_refines (if filtered then Unsized else k) d0 (if filtered then filter p xs else xs) script) as R.
  unfold run in R. rewrite (run_ctl_go_cut _ _ _ _ ctls true _ R). eexists. reflexivity.
Qed.
