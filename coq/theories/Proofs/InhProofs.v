(* C04 — proofs about Model/Inh.v against Spec/InhSpec.v *)
From Coq Require Import List NArith Bool Arith Lia.
Import ListNotations.
From JV Require Import Model.Inh Spec.InhSpec.

(* ------------------------------------------------------------------ generic *)
Section ItemInd.
  Variable P : item -> Prop.
  Hypothesis Ht : forall s, P (IText s).
  Hypothesis He : forall s, P (IStmt s).
  Hypothesis Hv : forall v, P (IVar v).
  Hypothesis Hb : forall b, P (IBlock b).
  Hypothesis Hu : forall k, P (ISuper k).
  Hypothesis Hs : forall b, P (ISelf b).
  Hypothesis Hf : forall iters body, Forall P body -> P (IFor iters body).
  Fixpoint item_ind' (it : item) : P it :=
    match it with
    | IText s => Ht s | IStmt s => He s | IVar v => Hv v | IBlock b => Hb b | ISuper k => Hu k | ISelf b => Hs b
    | IFor iters body =>
        Hf iters body ((fix go (l : list item) : Forall P l :=
                           match l with [] => Forall_nil P | x :: r => Forall_cons x (item_ind' x) (go r) end) body)
    end.
End ItemInd.

Lemma seqmap_ext_guard : forall (A : Type) (f g : A -> res) (l : list A),
  (forall a, In a l -> f a <> Err EFuel -> f a = g a) ->
  seqmap f l <> Err EFuel -> seqmap f l = seqmap g l.
Proof.
  intros A f g l. induction l as [|a r IH]; intros Hfg Hne; [reflexivity|].
  cbn [seqmap] in *.
  destruct (f a) as [o|e] eqn:Efa.
  - rewrite <- (Hfg a (or_introl eq_refl)) by (rewrite Efa; discriminate). rewrite Efa.
    assert (Hr : seqmap f r <> Err EFuel).
    { intro Hc. rewrite Hc in Hne. now apply Hne. }
    rewrite <- IH; [reflexivity| |exact Hr].
    intros a' Hin. apply Hfg. now right.
  - rewrite <- (Hfg a (or_introl eq_refl)) by (rewrite Efa; exact Hne). now rewrite Efa.
Qed.

Lemma seqmap_ext : forall (A : Type) (f g : A -> res) (l : list A),
  (forall a, In a l -> f a = g a) -> seqmap f l = seqmap g l.
Proof.
  intros A f g l. induction l as [|a r IH]; intros Hfg; [reflexivity|].
  cbn [seqmap]. rewrite (Hfg a (or_introl eq_refl)). rewrite IH; [reflexivity|].
  intros a' Hin. apply Hfg. now right.
Qed.

Lemma assoc_in_names : forall (A : Type) (n : N) (l : list (N * A)),
  existsb (N.eqb n) (map fst l) = match assoc n l with Some _ => true | None => false end.
Proof.
  intros A n l. induction l as [|[k a] r IH]; [reflexivity|].
  cbn [map fst existsb assoc]. rewrite N.eqb_sym. destruct (N.eqb k n); [reflexivity|exact IH].
Qed.

(* ------------------------------------------------------------------ definitions in chain order *)
Definition fids (view : list template) (n : name) : list fid :=
  map (fun x => (fst (fst x), n)) (defs view n).

Lemma defs_from_app : forall l1 l2 j n,
  defs_from j (l1 ++ l2) n = defs_from j l1 n ++ defs_from (j + length l1) l2 n.
Proof.
  induction l1 as [|t r IH]; intros l2 j n; cbn [app defs_from length].
  - now rewrite Nat.add_0_r.
  - rewrite IH. replace (S j + length r) with (j + S (length r)) by lia.
    destruct (assoc n (t_blocks t)); reflexivity.
Qed.

Lemma defs_from_entry : forall ts j0 n a j t d,
  nth_error (defs_from j0 ts n) a = Some (j, t, d) ->
  j0 <= j /\ nth_error ts (j - j0) = Some t /\ assoc n (t_blocks t) = Some d.
Proof.
  induction ts as [|t0 r IH]; intros j0 n a j t d H; cbn [defs_from] in H.
  - destruct a; discriminate.
  - destruct (assoc n (t_blocks t0)) as [d0|] eqn:E0.
    + destruct a as [|a'].
      * cbn in H. injection H as <- <- <-. rewrite Nat.sub_diag. repeat split; [lia|exact E0].
      * cbn in H. destruct (IH _ _ _ _ _ _ H) as [H1 [H2 H3]].
        replace (j - j0) with (S (j - S j0)) by lia. repeat split; [lia|exact H2|exact H3].
    + destruct (IH _ _ _ _ _ _ H) as [H1 [H2 H3]].
      replace (j - j0) with (S (j - S j0)) by lia. repeat split; [lia|exact H2|exact H3].
Qed.

Lemma defs_from_has : forall ts j0 n i t d,
  nth_error ts i = Some t -> assoc n (t_blocks t) = Some d ->
  exists a, nth_error (defs_from j0 ts n) a = Some (j0 + i, t, d).
Proof.
  induction ts as [|t0 r IH]; intros j0 n i t d Hn Ha; [destruct i; discriminate|].
  cbn [defs_from]. destruct i as [|i'].
  - cbn in Hn. injection Hn as ->. rewrite Ha. exists 0. cbn. now rewrite Nat.add_0_r.
  - cbn in Hn. destruct (IH (S j0) n i' t d Hn Ha) as [a Hx].
    replace (j0 + S i') with (S j0 + i') by lia.
    destruct (assoc n (t_blocks t0)); [exists (S a)|exists a]; exact Hx.
Qed.

Lemma index_of_defs : forall ts j0 n a j t d,
  nth_error (defs_from j0 ts n) a = Some (j, t, d) ->
  index_of (j, n) (map (fun x => (fst (fst x), n)) (defs_from j0 ts n)) = Some a.
Proof.
  induction ts as [|t0 r IH]; intros j0 n a j t d H; cbn [defs_from] in *.
  - destruct a; discriminate.
  - destruct (assoc n (t_blocks t0)) as [d0|] eqn:E0; [|exact (IH _ _ _ _ _ _ H)].
    cbn [map index_of fst]. destruct a as [|a'].
    + cbn in H. injection H as <- <- <-. unfold fid_eqb. cbn [fst snd].
      now rewrite Nat.eqb_refl, N.eqb_refl.
    + cbn in H. pose proof (defs_from_entry _ _ _ _ _ _ _ H) as [Hle _].
      unfold fid_eqb. cbn [fst snd]. replace (Nat.eqb j0 j) with false by (symmetry; apply Nat.eqb_neq; lia).
      cbn [andb]. now rewrite (IH _ _ _ _ _ _ H).
Qed.

(* the head of the stack is the running function only at depth 0 *)
Lemma head_is_self : forall view n a j t d j0 t0 d0,
  nth_error (defs view n) a = Some (j, t, d) ->
  nth_error (defs view n) 0 = Some (j0, t0, d0) ->
  fid_eqb (j0, n) (j, n) = Nat.eqb a 0.
Proof.
  intros view n a j t d j0 t0 d0 Ha H0.
  pose proof (index_of_defs _ _ _ _ _ _ _ Ha) as Hi.
  unfold defs in *. destruct (defs_from 0 view n) as [|x r] eqn:E; [discriminate|].
  cbn in H0. injection H0 as ->. cbn [map index_of fst] in Hi.
  destruct (fid_eqb (j0, n) (j, n)).
  - injection Hi as <-. reflexivity.
  - destruct a; [|reflexivity]. destruct (index_of _ _); discriminate.
Qed.

Lemma bref_super_spec : forall k d len, d < len ->
  bref_super k d len = if Nat.ltb (d + k) len then Some (d + k) else None.
Proof.
  induction k as [|k IH]; intros d len Hd; cbn [bref_super].
  - rewrite Nat.add_0_r. destruct (Nat.ltb_spec d len); [reflexivity|lia].
  - destruct (Nat.leb_spec len (d + 1)) as [Hl|Hl].
    + destruct (Nat.ltb_spec (d + S k) len); [lia|reflexivity].
    + rewrite IH by lia. replace (d + 1 + k) with (d + S k) by lia. reflexivity.
Qed.

(* ------------------------------------------------------------------ context.blocks vs the definitions *)
Definition Brel (B : blocks) (view : list template) : Prop :=
  forall n, assoc n B = match fids view n with [] => None | l => Some l end.

Lemma sda_assoc : forall B m f n,
  assoc n (setdefault_append m f B) = if N.eqb m n then Some (stack B n ++ [f]) else assoc n B.
Proof.
  induction B as [|[k st] r IH]; intros m f n; cbn [setdefault_append].
  - cbn [assoc]. unfold stack. cbn [assoc]. destruct (N.eqb m n); reflexivity.
  - destruct (N.eqb k m) eqn:Ekm.
    + apply N.eqb_eq in Ekm. subst k. cbn [assoc]. unfold stack. cbn [assoc].
      destruct (N.eqb m n); reflexivity.
    + cbn [assoc]. unfold stack. cbn [assoc]. destruct (N.eqb k n) eqn:Ekn.
      * apply N.eqb_eq in Ekn. subst k. rewrite N.eqb_sym in Ekm. now rewrite Ekm.
      * rewrite IH. unfold stack. reflexivity.
Qed.

Lemma register_fold_assoc : forall (j : nat) (l : list (name * bdef)) (B : blocks) (n : name),
  nodup_names (map fst l) = true ->
  assoc n (fold_left (fun B nb => setdefault_append (fst nb) (j, fst nb) B) l B) =
  match assoc n l with Some _ => Some (stack B n ++ [(j, n)]) | None => assoc n B end.
Proof.
  intros j l. induction l as [|[m d] r IH]; intros B n Hnd; [reflexivity|].
  cbn [map fst nodup_names] in Hnd. apply andb_true_iff in Hnd. destruct Hnd as [Hm Hr].
  cbn [fold_left fst assoc]. rewrite IH by exact Hr.
  destruct (N.eqb m n) eqn:Emn.
  - apply N.eqb_eq in Emn. subst m.
    rewrite assoc_in_names in Hm. destruct (assoc n r); [discriminate|].
    rewrite sda_assoc, N.eqb_refl. reflexivity.
  - unfold stack. rewrite sda_assoc, Emn. reflexivity.
Qed.

Lemma register_assoc : forall j t B n, template_wf t = true ->
  assoc n (register j t B) =
  match assoc n (t_blocks t) with Some _ => Some (stack B n ++ [(j, n)]) | None => assoc n B end.
Proof. intros. unfold register. now apply register_fold_assoc. Qed.

Lemma init_assoc : forall l n,
  assoc n (map (fun nb : name * bdef => (fst nb, [(0, fst nb)])) l) =
  match assoc n l with Some _ => Some [(0, n)] | None => None end.
Proof.
  induction l as [|[m d] r IH]; intros n; [reflexivity|].
  cbn [map fst assoc]. destruct (N.eqb m n) eqn:E; [|apply IH].
  apply N.eqb_eq in E. now subst.
Qed.

Lemma Brel_init : forall t0, Brel (init_blocks t0) [t0].
Proof.
  intros t0 n. unfold init_blocks, fids, defs. rewrite init_assoc. cbn [defs_from].
  destruct (assoc n (t_blocks t0)); reflexivity.
Qed.

Lemma Brel_register : forall B view tn, Brel B view -> template_wf tn = true ->
  Brel (register (length view) tn B) (view ++ [tn]).
Proof.
  intros B view tn HB Hwf n. rewrite register_assoc by exact Hwf.
  unfold fids, defs in *. rewrite defs_from_app, map_app. cbn [defs_from plus].
  unfold stack. rewrite (HB n). unfold fids, defs.
  destruct (assoc n (t_blocks tn)) as [d|].
  - cbn [map fst]. destruct (map _ (defs_from 0 view n)) as [|x r]; reflexivity.
  - cbn [map]. now rewrite app_nil_r.
Qed.

Lemma Brel_reg_from : forall ts B view, Brel B view -> forallb template_wf ts = true ->
  Brel (reg_from (length view) ts B) (view ++ ts).
Proof.
  induction ts as [|t r IH]; intros B view HB Hwf; cbn [reg_from].
  - now rewrite app_nil_r.
  - cbn [forallb] in Hwf. apply andb_true_iff in Hwf. destruct Hwf as [H1 H2].
    replace (view ++ t :: r) with ((view ++ [t]) ++ r) by (rewrite <- app_assoc; reflexivity).
    replace (S (length view)) with (length (view ++ [t])) by (rewrite app_length; cbn; lia).
    apply IH; [|exact H2]. now apply Brel_register.
Qed.

Lemma stack_order_gen : forall chain n, chain_wf chain = true ->
  stack (blocks_of_chain chain) n = fids chain n.
Proof.
  intros [|t0 r] n Hwf; [reflexivity|].
  unfold chain_wf in Hwf. cbn [forallb] in Hwf. apply andb_true_iff in Hwf. destruct Hwf as [_ H2].
  pose proof (Brel_reg_from r (init_blocks t0) [t0] (Brel_init t0) H2) as HB.
  cbn [length app] in HB. unfold blocks_of_chain, stack. rewrite (HB n).
  destruct (fids (t0 :: r) n); reflexivity.
Qed.

(* ------------------------------------------------------------------ calls *)
Section Calls.
  Variable whole view : list template.
  Variable B : blocks.
  Hypothesis HB : Brel B view.
  Hypothesis Hview : forall j t, nth_error view j = Some t -> nth_error whole j = Some t.

  Lemma entry_facts : forall n a j t d, nth_error (defs view n) a = Some (j, t, d) ->
    nth_error whole j = Some t /\ nth_error view j = Some t /\ assoc n (t_blocks t) = Some d.
  Proof.
    intros n a j t d H. destruct (defs_from_entry _ _ _ _ _ _ _ H) as [_ [H2 H3]].
    rewrite Nat.sub_0_r in H2. auto.
  Qed.

  Lemma stack_some : forall n a x, nth_error (defs view n) a = Some x ->
    assoc n B = Some (fids view n) /\ nth_error (fids view n) a = Some (fst (fst x), n).
  Proof.
    intros n a x H. split.
    - rewrite (HB n). unfold fids. destruct (defs view n); [destruct a; discriminate|reflexivity].
    - unfold fids. now rewrite nth_error_map, H.
  Qed.

  (* a required most-derived definition cannot be rendered *)
  Lemma run_block_required : forall fuel n j t d c,
    nth_error (defs view n) 0 = Some (j, t, d) -> b_required d = true ->
    run_block (S fuel) whole B (j, n) c = Err ERequired.
  Proof.
    intros fuel n j t d c H0 Hr. destruct (entry_facts _ _ _ _ _ H0) as [Hw [_ Ha]].
    destruct (stack_some _ _ _ H0) as [Hs Hn]. cbn [run_block fst snd].
    rewrite Hw, Ha, Hs, Hr. destruct (fids view n) as [|g r]; [discriminate|].
    cbn in Hn. injection Hn as ->. cbn [fst]. unfold fid_eqb. cbn [fst snd].
    now rewrite Nat.eqb_refl, N.eqb_refl.
  Qed.

  Definition call_ok (fu : nat) : Prop :=
    forall n a j t d c, nth_error (defs view n) a = Some (j, t, d) ->
      Nat.eqb a 0 && b_required d = false ->
      run_block fu whole B (j, n) c <> Err EFuel ->
      run_block fu whole B (j, n) c = s_call fu view n a c.

  (* call through a resolved reference (block site, self.b(), super chain) *)
  Lemma resolve_equiv : forall fu n a j t d c und, call_ok fu ->
    nth_error (defs view n) a = Some (j, t, d) ->
    run_block fu whole B (j, n) c <> Err EFuel ->
    run_block fu whole B (j, n) c = resolve (s_call fu view) view n a und c.
  Proof.
    intros fu n a j t d c und IH Ha Hne. unfold resolve. rewrite Ha.
    destruct (Nat.eqb a 0 && b_required d) eqn:E.
    - apply andb_true_iff in E. destruct E as [E1 E2]. apply Nat.eqb_eq in E1. subst a.
      destruct fu as [|fu']; [now cbn in Hne|]. now apply (run_block_required fu' n j t d c).
    - now apply IH with (t := t) (d := d).
  Qed.

  Lemma item_equiv : forall fu j t cur curS ctx, call_ok fu ->
    nth_error view j = Some t ->
    match cur, curS with
    | None, None => True
    | Some b, Some (b', a) => b = b' /\ exists d, nth_error (defs view b) a = Some (j, t, d)
    | _, _ => False
    end ->
    forall it L,
      exec_item (run_block fu whole B) B j t cur ctx L it <> Err EFuel ->
      exec_item (run_block fu whole B) B j t cur ctx L it =
      s_item (s_call fu view) view t curS ctx L it.
  Proof.
    intros fu j t cur curS ctx IH Ht Hcur it.
    induction it as [s|s|v|b|k|b|iters body IHb] using item_ind'; intros L Hne.
    - reflexivity.
    - reflexivity.
    - reflexivity.
    - (* block site *)
      cbn [exec_item s_item] in *. destruct (assoc b (t_blocks t)) as [d|] eqn:Ed; [|reflexivity].
      destruct (defs_from_has view 0 b j t d Ht Ed) as [a Ha]. cbn [plus] in Ha.
      destruct (defs view b) as [|[[j0 t0] d0] r] eqn:Edefs.
      { unfold defs in Edefs. rewrite Edefs in Ha. destruct a; discriminate. }
      assert (H0 : nth_error (defs view b) 0 = Some (j0, t0, d0)) by now rewrite Edefs.
      destruct (stack_some _ _ _ H0) as [Hs Hn]. rewrite Hs in *.
      assert (Hlen : length (fids view b) = S (length r)).
      { unfold fids. rewrite Edefs. cbn. now rewrite map_length. }
      destruct (b_required d && Nat.leb (length (fids view b)) 1) eqn:Esite.
      + (* the site's own test fires: the only definition is the site's, and it is required *)
        apply andb_true_iff in Esite. destruct Esite as [Erq Elen]. apply Nat.leb_le in Elen.
        assert (r = []) by (destruct r; [reflexivity|cbn in Hlen; lia]). subst r.
        unfold defs in Edefs. rewrite Edefs in Ha.
        destruct a as [|[|a']]; try discriminate. cbn in Ha. injection Ha as -> -> ->.
        unfold resolve. unfold defs. rewrite Edefs. cbn [nth_error Nat.eqb andb]. now rewrite Erq.
      + destruct (fids view b) as [|f fr] eqn:Ef; [discriminate|].
        cbn in Hn. injection Hn as ->. cbn [fst] in *.
        now apply resolve_equiv with (t := t0) (d := d0).
    - (* super chain *)
      cbn [exec_item s_item] in *. destruct cur as [b|], curS as [[b' a]|]; try contradiction; [|reflexivity].
      destruct Hcur as [<- [d Ha]].
      destruct (stack_some _ _ _ Ha) as [Hs _]. rewrite Hs in *.
      unfold defs in Ha. pose proof (index_of_defs _ _ _ _ _ _ _ Ha) as Hi.
      fold (defs view b) in Hi. fold (fids view b) in Hi. rewrite Hi in *.
      assert (Hlen : length (fids view b) = length (defs view b)) by (unfold fids; now rewrite map_length).
      assert (Halt : a < length (defs view b)).
      { apply nth_error_Some. unfold defs. rewrite Ha. discriminate. }
      unfold resolve.
      destruct (Nat.leb_spec (length (fids view b)) (a + 1)) as [Hl|Hl].
      + replace (nth_error (defs view b) (a + 1 + k)) with (@None (nat * template * bdef)); [reflexivity|].
        symmetry. apply nth_error_None. lia.
      + rewrite bref_super_spec in * by lia.
        destruct (Nat.ltb_spec (a + 1 + k) (length (fids view b))) as [Hk|Hk].
        * destruct (nth_error (defs view b) (a + 1 + k)) as [[[j' t'] d']|] eqn:En.
          2:{ apply nth_error_None in En. lia. }
          destruct (stack_some _ _ _ En) as [_ Hn']. rewrite Hn' in *. cbn [fst] in *.
          replace (Nat.eqb (a + 1 + k) 0) with false by (symmetry; apply Nat.eqb_neq; lia).
          cbn [andb]. apply IH with (t := t') (d := d'); [exact En| |exact Hne].
          replace (Nat.eqb (a + 1 + k) 0) with false by (symmetry; apply Nat.eqb_neq; lia). reflexivity.
        * replace (nth_error (defs view b) (a + 1 + k)) with (@None (nat * template * bdef)); [reflexivity|].
          symmetry. apply nth_error_None. lia.
    - (* self.b() *)
      cbn [exec_item s_item] in *. unfold resolve.
      destruct (defs view b) as [|[[j0 t0] d0] r] eqn:Edefs.
      + rewrite (HB b). unfold fids. rewrite Edefs. reflexivity.
      + assert (H0 : nth_error (defs view b) 0 = Some (j0, t0, d0)) by now rewrite Edefs.
        destruct (stack_some _ _ _ H0) as [Hs Hn]. rewrite Hs in *.
        destruct (fids view b) as [|f fr] eqn:Ef; [discriminate|].
        cbn in Hn. injection Hn as ->. cbn [fst] in *.
        pose proof (resolve_equiv fu b 0 j0 t0 d0 ctx EUndefined IH H0 Hne) as Hr.
        unfold resolve in Hr. rewrite Edefs in Hr. exact Hr.
    - (* for loop *)
      cbn [exec_item s_item] in *. apply seqmap_ext_guard; [|exact Hne].
      intros x _ Hx. apply seqmap_ext_guard; [|exact Hx].
      intros i Hin Hi. rewrite Forall_forall in IHb. now apply IHb.
  Qed.

  Lemma call_equiv : forall fu, call_ok fu.
  Proof.
    induction fu as [|fu IH]; intros n a j t d c Ha Hg Hne; [now cbn in Hne|].
    destruct (entry_facts _ _ _ _ _ Ha) as [Hw [Hv Hassoc]].
    destruct (stack_some _ _ _ Ha) as [Hs Hn].
    cbn [run_block s_call fst snd] in *. rewrite Hw, Hassoc, Hs in *. rewrite Ha.
    assert (Hpro : b_required d && match fids view n with g :: _ => fid_eqb g (j, n) | [] => false end = false).
    { destruct (defs view n) as [|[[j0 t0] d0] r] eqn:Edefs; [destruct a; discriminate|].
      assert (H0 : nth_error (defs view n) 0 = Some (j0, t0, d0)) by now rewrite Edefs.
      unfold fids. rewrite Edefs. cbn [map fst].
      rewrite <- Edefs in Ha.
      rewrite (head_is_self view n a j t d j0 t0 d0 Ha H0). now rewrite andb_comm. }
    rewrite Hpro in *. unfold exec_items in *.
    apply seqmap_ext_guard; [|exact Hne].
    intros it _ Hi. apply item_equiv with (curS := Some (n, a)); auto.
    split; [reflexivity|]. now exists d.
  Qed.
End Calls.

(* ------------------------------------------------------------------ the top level of one template *)
Lemma exec_top_parent : forall fuel whole j t next data tops known sofar B acc,
  1 <= sofar ->
  exec_top fuel whole j t next data known sofar true B acc tops =
  if extends_again tops then TErr EMultiple else TDone acc true B.
Proof.
  intros fuel whole j t next data tops. induction tops as [|[it|c] r IH]; intros known sofar B acc Hs.
  - reflexivity.
  - cbn [exec_top extends_again existsb orb]. rewrite orb_true_r. now apply IH.
  - cbn [exec_top extends_again existsb]. fold (extends_again r).
    destruct known.
    + destruct (executed c); [reflexivity|]. cbn [orb]. now apply IH.
    + destruct (executed c); cbn [orb].
      * destruct (Nat.ltb_spec 0 sofar); [reflexivity|lia].
      * apply IH. lia.
Qed.

Definition topres_of (fuel : nat) (whole : list template) (j : nat) (t : template) (next : option template)
    (data : vars) (B : blocks) (acc : str) (sofar : nat) (tops : list top) : topres :=
  match seqmap (exec_item (run_block fuel whole B) B j t None data []) (fst (split_top tops)) with
  | Err e => TErr e
  | Ok o =>
      match snd (split_top tops) with
      | None => TDone (acc ++ o) false B
      | Some post =>
          match next with
          | None => TErr ENotFound
          | Some tn => if extends_again post then TErr EMultiple
                       else TDone (acc ++ o) true (register (S j) tn B)
          end
      end
  end.

Lemma exec_top_split : forall fuel whole j t next data tops sofar B acc,
  exec_top fuel whole j t next data false sofar false B acc tops =
  topres_of fuel whole j t next data B acc sofar tops.
Proof.
  intros fuel whole j t next data tops. induction tops as [|[it|c] r IH]; intros sofar B acc.
  - unfold topres_of. cbn. now rewrite app_nil_r.
  - cbn [exec_top orb]. unfold topres_of in *. cbn [split_top].
    destruct (split_top r) as [pre e] eqn:Esp. cbn [fst snd seqmap] in *.
    destruct (exec_item _ _ _ _ _ _ _ it) as [o|er]; [|reflexivity].
    rewrite IH.
    destruct (seqmap _ pre) as [o'|er']; [|reflexivity].
    rewrite <- app_assoc. reflexivity.
  - cbn [exec_top]. unfold topres_of in *. cbn [split_top].
    destruct (executed c) eqn:Ec.
    + cbn [fst snd seqmap andb]. rewrite andb_false_r.
      destruct next as [tn|]; [|reflexivity].
      rewrite exec_top_parent by lia. now rewrite app_nil_r.
    + apply IH.
Qed.

Lemma nth_error_firstn_lt : forall (A : Type) (l : list A) n j, j < n ->
  nth_error (firstn n l) j = nth_error l j.
Proof.
  intros A l. induction l as [|a r IH]; intros n j H; [now rewrite firstn_nil|].
  destruct n as [|n']; [lia|]. destruct j as [|j']; [reflexivity|]. cbn. apply IH. lia.
Qed.

Lemma firstn_snoc : forall (A : Type) (l : list A) j x, nth_error l j = Some x ->
  firstn (S j) l = firstn j l ++ [x].
Proof.
  intros A l. induction l as [|a r IH]; intros j x H; [destruct j; discriminate|].
  destruct j as [|j']; cbn in *; [now injection H as ->|]. now rewrite (IH j' x H).
Qed.

Lemma run_root_spec : forall fuel whole data rest done B,
  whole = done ++ rest -> chain_wf whole = true ->
  Brel B (firstn (S (length done)) whole) ->
  run_root fuel whole (length done) rest data B <> Err EFuel ->
  run_root fuel whole (length done) rest data B = s_chain fuel whole (length done) rest data.
Proof.
  intros fuel whole data rest. induction rest as [|t rest' IH]; intros done B Hw Hwf HB Hne; [reflexivity|].
  cbn [run_root s_chain] in *.
  set (view := firstn (S (length done)) whole) in *.
  assert (Hjt : nth_error whole (length done) = Some t).
  { rewrite Hw, nth_error_app2, Nat.sub_diag by lia. reflexivity. }
  assert (Hview : forall j' t', nth_error view j' = Some t' -> nth_error whole j' = Some t').
  { intros j' t' H. unfold view in H. destruct (Nat.lt_ge_cases j' (S (length done))) as [Hlt|Hge].
    - now rewrite nth_error_firstn_lt in H by exact Hlt.
    - assert (Hn : nth_error (firstn (S (length done)) whole) j' = None).
      { apply nth_error_None. rewrite firstn_length. lia. }
      rewrite Hn in H. discriminate. }
  assert (Hvt : nth_error view (length done) = Some t).
  { unfold view. now rewrite nth_error_firstn_lt by lia. }
  rewrite exec_top_split in *. unfold topres_of in *.
  pose proof (call_equiv whole view B HB Hview fuel) as Hcall.
  assert (Hitems : forall its,
    seqmap (exec_item (run_block fuel whole B) B (length done) t None data []) its <> Err EFuel ->
    seqmap (exec_item (run_block fuel whole B) B (length done) t None data []) its =
    seqmap (s_item (s_call fuel view) view t None data []) its).
  { intros its Hx. apply seqmap_ext_guard; [|exact Hx]. intros it _ Hi.
    apply item_equiv with (whole := whole) (B := B) (j := length done) (cur := None) (curS := None); auto. }
  destruct (seqmap (exec_item _ _ _ _ _ _ _) (fst (split_top (t_top t)))) as [o|e] eqn:Epre.
  - rewrite <- Hitems by (rewrite Epre; discriminate). rewrite Epre.
    destruct (snd (split_top (t_top t))) as [post|]; [|reflexivity].
    destruct rest' as [|tn rest'']; [reflexivity|]. cbn [hd_error] in *.
    destruct (extends_again post); [reflexivity|].
    assert (Hw' : whole = (done ++ [t]) ++ tn :: rest'') by (rewrite <- app_assoc; exact Hw).
    assert (Hl : length (done ++ [t]) = S (length done)) by (rewrite app_length; cbn; lia).
    assert (Htn : nth_error whole (S (length done)) = Some tn).
    { rewrite Hw', nth_error_app2 by lia. rewrite Hl, Nat.sub_diag. reflexivity. }
    assert (HB' : Brel (register (S (length done)) tn B) (firstn (S (S (length done))) whole)).
    { rewrite (firstn_snoc _ whole (S (length done)) tn Htn).
      replace (S (length done)) with (length view) at 1.
      - apply Brel_register; [exact HB|].
        unfold chain_wf in Hwf. rewrite forallb_forall in Hwf. apply Hwf.
        eapply nth_error_In. exact Htn.
      - unfold view. rewrite firstn_length. apply Nat.min_l.
        assert (S (length done) < length whole) by (apply nth_error_Some; rewrite Htn; discriminate). lia. }
    rewrite <- Hl in *.
    rewrite <- (IH (done ++ [t]) _ Hw' Hwf HB').
    + reflexivity.
    + intro Hc. rewrite Hc in Hne. now apply Hne.
  - rewrite <- Hitems by (rewrite Epre; exact Hne). now rewrite Epre.
Qed.

Lemma inherit_correct_gen : forall fuel chain data, chain_wf chain = true ->
  render fuel chain data <> Err EFuel -> render fuel chain data = spec_render fuel chain data.
Proof.
  intros fuel [|t0 r] data Hwf Hne; [reflexivity|].
  unfold render, spec_render in *.
  apply (run_root_spec fuel (t0 :: r) data (t0 :: r) [] (init_blocks t0)); auto.
  cbn [length firstn]. apply Brel_init.
Qed.

(* ------------------------------------------------------------------ required blocks, at every call *)
Lemma required_site_gen : forall whole view B, Brel B view ->
  (forall j t, nth_error view j = Some t -> nth_error whole j = Some t) ->
  forall fuel j t cur ctx L b dsite jm tm dm,
    nth_error view j = Some t -> assoc b (t_blocks t) = Some dsite ->
    nth_error (defs view b) 0 = Some (jm, tm, dm) -> b_required dm = true ->
    exec_item (run_block (S fuel) whole B) B j t cur ctx L (IBlock b) = Err ERequired.
Proof.
  intros whole view B HB Hview fuel j t cur ctx L b dsite jm tm dm Ht Hsite H0 Hr.
  cbn [exec_item]. rewrite Hsite.
  destruct (stack_some view B HB _ _ _ H0) as [Hs Hn]. rewrite Hs.
  destruct (b_required dsite && Nat.leb (length (fids view b)) 1); [reflexivity|].
  destruct (fids view b) as [|f fr]; [discriminate|]. cbn in Hn. injection Hn as ->. cbn [fst].
  now apply (run_block_required whole view B HB Hview fuel b jm tm dm).
Qed.

Lemma required_self_gen : forall whole view B, Brel B view ->
  (forall j t, nth_error view j = Some t -> nth_error whole j = Some t) ->
  forall fuel j t cur ctx L b jm tm dm,
    nth_error (defs view b) 0 = Some (jm, tm, dm) -> b_required dm = true ->
    exec_item (run_block (S fuel) whole B) B j t cur ctx L (ISelf b) = Err ERequired.
Proof.
  intros whole view B HB Hview fuel j t cur ctx L b jm tm dm H0 Hr.
  cbn [exec_item]. destruct (stack_some view B HB _ _ _ H0) as [Hs Hn]. rewrite Hs.
  destruct (fids view b) as [|f fr]; [discriminate|]. cbn in Hn. injection Hn as ->. cbn [fst].
  now apply (run_block_required whole view B HB Hview fuel b jm tm dm).
Qed.

(* ------------------------------------------------------------------ child content after extends *)
Lemma exec_item_ext : forall call call' B j t t' cur ctx,
  (forall f c, call f c = call' f c) -> t_blocks t = t_blocks t' ->
  forall it L, exec_item call B j t cur ctx L it = exec_item call' B j t' cur ctx L it.
Proof.
  intros call call' B j t t' cur ctx Hc Ht it.
  induction it as [s|s|v|b|k|b|iters body IHb] using item_ind'; intros L; cbn [exec_item];
    try reflexivity.
  - rewrite <- Ht. destruct (assoc b (t_blocks t)); [|reflexivity].
    destruct (assoc b B) as [st|]; [|reflexivity].
    destruct (_ && _); [reflexivity|]. destruct st; [reflexivity|apply Hc].
  - destruct cur; [|reflexivity]. destruct (assoc n B) as [st|]; [|reflexivity].
    destruct (index_of _ _); [|reflexivity]. destruct (Nat.leb _ _); [reflexivity|].
    destruct (bref_super _ _ _); [|reflexivity]. destruct (nth_error _ _); [apply Hc|reflexivity].
  - destruct (assoc b B) as [st|]; [|reflexivity]. destruct st; [reflexivity|apply Hc].
  - apply seqmap_ext. intros x _. apply seqmap_ext. intros i Hin.
    rewrite Forall_forall in IHb. now apply IHb.
Qed.

Lemma run_block_strip : forall fuel whole B f c,
  run_block fuel (map strip_child whole) B f c = run_block fuel whole B f c.
Proof.
  induction fuel as [|fu IH]; intros whole B f c; [reflexivity|].
  cbn [run_block]. rewrite nth_error_map. destruct (nth_error whole (fst f)) as [t|]; [|reflexivity].
  cbn [option_map strip_child t_blocks].
  destruct (assoc (snd f) (t_blocks t)) as [d|]; [|reflexivity].
  destruct (assoc (snd f) B) as [st|]; [|reflexivity].
  destruct (_ && _); [reflexivity|]. unfold exec_items. apply seqmap_ext. intros it _.
  apply exec_item_ext; [intros; apply IH|reflexivity].
Qed.

Lemma exec_top_strip_parent : forall fuel whole whole' j t t' next next' data tops known sofar B acc,
  1 <= sofar ->
  exec_top fuel whole' j t' next' data known sofar true B acc (drop_post_items tops) =
  exec_top fuel whole j t next data known sofar true B acc tops.
Proof.
  intros. rewrite !exec_top_parent by assumption.
  replace (extends_again (drop_post_items tops)) with (extends_again tops); [reflexivity|].
  induction tops as [|[it|c] r IH]; [reflexivity| |]; cbn [drop_post_items extends_again existsb orb] in *.
  - exact IH.
  - fold (extends_again r). fold (extends_again (drop_post_items r)). now rewrite IH.
Qed.

Lemma exec_top_strip : forall fuel whole j t next data tops sofar B acc,
  exec_top fuel (map strip_child whole) j (strip_child t) (option_map strip_child next) data false sofar false B acc
    (drop_post tops) =
  exec_top fuel whole j t next data false sofar false B acc tops.
Proof.
  intros fuel whole j t next data tops. induction tops as [|[it|c] r IH]; intros sofar B acc.
  - reflexivity.
  - cbn [drop_post exec_top orb].
    rewrite (exec_item_ext (run_block fuel (map strip_child whole) B) (run_block fuel whole B) B j
               (strip_child t) t None data) by (intros; apply run_block_strip || reflexivity).
    destruct (exec_item _ _ _ _ _ _ _ it); [apply IH|reflexivity].
  - cbn [drop_post]. destruct (executed c) eqn:Ec; cbn [exec_top]; rewrite Ec.
    + rewrite andb_false_r. destruct next as [tn|]; [|reflexivity]. cbn [option_map].
      replace (register (S j) (strip_child tn) B) with (register (S j) tn B) by reflexivity.
      apply exec_top_strip_parent. lia.
    + apply IH.
Qed.

Lemma run_root_strip : forall fuel whole data rest j B,
  run_root fuel (map strip_child whole) j (map strip_child rest) data B = run_root fuel whole j rest data B.
Proof.
  intros fuel whole data rest. induction rest as [|t r IH]; intros j B; [reflexivity|].
  cbn [map run_root]. cbn [strip_child t_top].
  replace (hd_error (map strip_child r)) with (option_map strip_child (hd_error r)) by (destruct r; reflexivity).
  change (drop_post (t_top t)) with (drop_post (t_top t)).
  pose proof (exec_top_strip fuel whole j t (hd_error r) data (t_top t) 0 B []) as H.
  cbn [strip_child t_top] in H. rewrite H. clear H.
  destruct (exec_top fuel whole j t (hd_error r) data false 0 false B [] (t_top t)) as [o p B'|e]; [|reflexivity].
  destruct p; [|reflexivity]. now rewrite IH.
Qed.

Lemma no_child_output_gen : forall fuel chain data,
  render fuel (map strip_child chain) data = render fuel chain data.
Proof.
  intros fuel [|t0 r] data; [reflexivity|].
  unfold render. cbn [map]. change (strip_child t0 :: map strip_child r) with (map strip_child (t0 :: r)).
  replace (init_blocks (strip_child t0)) with (init_blocks t0) by reflexivity.
  apply run_root_strip.
Qed.

(* ------------------------------------------------------------------ fuel: more never changes a result *)
Lemma seqmap_mono : forall (A : Type) (f g : A -> res) (l : list A) r,
  (forall a r', In a l -> f a = r' -> r' <> Err EFuel -> g a = r') ->
  seqmap f l = r -> r <> Err EFuel -> seqmap g l = r.
Proof.
  intros A f g l. induction l as [|a rest IH]; intros r Hfg Hr Hne; [exact Hr|].
  cbn [seqmap] in *. destruct (f a) as [o|e] eqn:Efa.
  - rewrite (Hfg a (Ok o) (or_introl eq_refl) Efa) by discriminate.
    destruct (seqmap f rest) as [o'|e'] eqn:Er.
    + rewrite (IH (Ok o')); [exact Hr| |reflexivity|discriminate].
      intros a' r' Hin. apply Hfg. now right.
    + rewrite (IH (Err e')); [exact Hr| |reflexivity|].
      * intros a' r' Hin. apply Hfg. now right.
      * intro Hc. apply Hne. now rewrite <- Hr, Hc.
  - rewrite (Hfg a (Err e) (or_introl eq_refl) Efa); [exact Hr|]. now rewrite Hr.
Qed.

Lemma exec_item_mono : forall (call call' : fid -> vars -> res) B j t cur ctx,
  (forall f c r, call f c = r -> r <> Err EFuel -> call' f c = r) ->
  forall it L r, exec_item call B j t cur ctx L it = r -> r <> Err EFuel ->
                 exec_item call' B j t cur ctx L it = r.
Proof.
  intros call call' B j t cur ctx Hc it.
  induction it as [s|s|v|b|k|b|iters body IHb] using item_ind'; intros L r Hr Hne; cbn [exec_item] in *;
    try exact Hr.
  - destruct (assoc b (t_blocks t)); [|exact Hr]. destruct (assoc b B) as [st|]; [|exact Hr].
    destruct (_ && _); [exact Hr|]. destruct st; [exact Hr|now apply Hc].
  - destruct cur; [|exact Hr]. destruct (assoc n B) as [st|]; [|exact Hr].
    destruct (index_of _ _); [|exact Hr]. destruct (Nat.leb _ _); [exact Hr|].
    destruct (bref_super _ _ _); [|exact Hr]. destruct (nth_error _ _); [now apply Hc|exact Hr].
  - destruct (assoc b B) as [st|]; [|exact Hr]. destruct st; [exact Hr|now apply Hc].
  - eapply seqmap_mono; [|exact Hr|exact Hne]. intros x r' _ Hx Hne'.
    eapply seqmap_mono; [|exact Hx|exact Hne']. intros i r'' Hin Hi Hne''.
    rewrite Forall_forall in IHb. now apply (IHb i Hin).
Qed.

Lemma run_block_mono : forall fuel fuel' whole B f c r, fuel <= fuel' ->
  run_block fuel whole B f c = r -> r <> Err EFuel -> run_block fuel' whole B f c = r.
Proof.
  induction fuel as [|fu IH]; intros fuel' whole B f c r Hle Hr Hne.
  - cbn in Hr. now subst r.
  - destruct fuel' as [|fu']; [lia|]. cbn [run_block] in *.
    destruct (nth_error whole (fst f)) as [t|]; [|exact Hr].
    destruct (assoc (snd f) (t_blocks t)) as [d|]; [|exact Hr].
    destruct (assoc (snd f) B) as [st|]; [|exact Hr].
    destruct (_ && _); [exact Hr|]. unfold exec_items in *.
    eapply seqmap_mono; [|exact Hr|exact Hne]. intros it r' _ Hi Hne'.
    eapply exec_item_mono; [|exact Hi|exact Hne']. intros f' c' r'' Hx Hy. apply (IH fu'); [lia|exact Hx|exact Hy].
Qed.

Lemma exec_top_mono : forall fuel fuel' whole j t next data tops known sofar parent B acc r, fuel <= fuel' ->
  exec_top fuel whole j t next data known sofar parent B acc tops = r -> r <> TErr EFuel ->
  exec_top fuel' whole j t next data known sofar parent B acc tops = r.
Proof.
  intros fuel fuel' whole j t next data tops. induction tops as [|[it|c] rest IH];
    intros known sofar parent B acc r Hle Hr Hne; cbn [exec_top] in *.
  - exact Hr.
  - destruct (known || parent); [now apply IH|].
    destruct (exec_item (run_block fuel whole B) B j t None data [] it) as [o|e] eqn:Ei.
    + rewrite (exec_item_mono (run_block fuel whole B) (run_block fuel' whole B) B j t None data
                 (fun f c r' => run_block_mono fuel fuel' whole B f c r' Hle) it [] (Ok o) Ei) by discriminate.
      now apply IH.
    + rewrite (exec_item_mono (run_block fuel whole B) (run_block fuel' whole B) B j t None data
                 (fun f c r' => run_block_mono fuel fuel' whole B f c r' Hle) it [] (Err e) Ei); [exact Hr|].
      intro Hc. apply Hne. rewrite <- Hr. now injection Hc as ->.
  - destruct known.
    + destruct (executed c); [exact Hr|now apply IH].
    + destruct (executed c).
      * destruct (_ && _); [exact Hr|]. destruct next; [now apply IH|exact Hr].
      * now apply IH.
Qed.

Lemma run_root_mono : forall fuel fuel' whole data rest j B r, fuel <= fuel' ->
  run_root fuel whole j rest data B = r -> r <> Err EFuel -> run_root fuel' whole j rest data B = r.
Proof.
  intros fuel fuel' whole data rest. induction rest as [|t rest' IH]; intros j B r Hle Hr Hne; [exact Hr|].
  cbn [run_root] in *.
  destruct (exec_top fuel whole j t (hd_error rest') data false 0 false B [] (t_top t)) as [o p B'|e] eqn:Et.
  - rewrite (exec_top_mono fuel fuel' _ _ _ _ _ _ _ _ _ _ _ _ Hle Et) by discriminate.
    destruct p; [|exact Hr].
    destruct (run_root fuel whole (S j) rest' data B') as [o'|e'] eqn:Er.
    + now rewrite (IH (S j) B' (Ok o') Hle Er) by discriminate.
    + rewrite (IH (S j) B' (Err e') Hle Er); [exact Hr|]. intro Hc. apply Hne. now rewrite <- Hr, Hc.
  - rewrite (exec_top_mono fuel fuel' _ _ _ _ _ _ _ _ _ _ _ _ Hle Et); [exact Hr|].
    intro Hc. apply Hne. rewrite <- Hr. now injection Hc as ->.
Qed.

Lemma render_fuel_mono : forall fuel fuel' chain data r, fuel <= fuel' ->
  render fuel chain data = r -> r <> Err EFuel -> render fuel' chain data = r.
Proof.
  intros fuel fuel' [|t0 rest] data r Hle Hr Hne; [exact Hr|].
  unfold render in *. now apply (run_root_mono fuel fuel').
Qed.

(* ------------------------------------------------------------------ reachable block tables *)
Lemma Brel_chain : forall view, chain_wf view = true -> view <> [] -> Brel (blocks_of_chain view) view.
Proof.
  intros [|t0 r] Hwf Hne; [contradiction|].
  unfold chain_wf in Hwf. cbn [forallb] in Hwf. apply andb_true_iff in Hwf. destruct Hwf as [_ H2].
  exact (Brel_reg_from r (init_blocks t0) [t0] (Brel_init t0) H2).
Qed.

Lemma chain_wf_firstn : forall m whole, chain_wf whole = true -> chain_wf (firstn m whole) = true.
Proof.
  intros m whole. revert m. unfold chain_wf. induction whole as [|t r IH]; intros m H.
  - now rewrite firstn_nil.
  - destruct m as [|m']; [reflexivity|]. cbn [firstn forallb] in *.
    apply andb_true_iff in H. destruct H as [H1 H2]. rewrite H1. cbn [andb]. now apply IH.
Qed.

Lemma view_in_whole : forall (m : nat) (whole : list template) j t,
  nth_error (firstn m whole) j = Some t -> nth_error whole j = Some t.
Proof.
  intros m whole j t H. destruct (Nat.lt_ge_cases j m) as [Hlt|Hge].
  - now rewrite nth_error_firstn_lt in H by exact Hlt.
  - assert (Hn : nth_error (firstn m whole) j = None) by (apply nth_error_None; rewrite firstn_length; lia).
    rewrite Hn in H. discriminate.
Qed.
