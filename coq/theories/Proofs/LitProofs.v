(* C14 -- lemmas: string round trip (decode (encode style v) = v), integer token value. *)
From Coq Require Import List NArith ZArith Bool Lia Arith ZifyN ZifyBool.
Import ListNotations.
From JV Require Import Model.Lit Spec.LitSpec.
Open Scope N_scope.

Ltac Zify.zify_post_hook ::= Z.div_mod_to_equations.

(* ------------------------------------------------------------------ generic *)
Lemma forallb_below : forall (P : N -> bool) (n : nat),
  forallb P (map N.of_nat (seq 0 n)) = true -> forall k, k < N.of_nat n -> P k = true.
Proof.
  intros P n H k Hk. rewrite forallb_forall in H. apply H.
  rewrite in_map_iff. exists (N.to_nat k). split; [apply N2Nat.id|].
  apply in_seq. lia.
Qed.

(* ------------------------------------------------------------------ hex digits *)
Definition plainc (c : N) : bool :=
  negb (c =? 10) && negb (c =? 13) && negb (c =? 34) && negb (c =? 39) && negb (c =? 92) && (c <? 128).

Lemma hexdig_val : forall k, k < 16 -> digit_val (hexdig k) = Some k.
Proof.
  intros k Hk.
  assert (H := forallb_below (fun k => match digit_val (hexdig k) with Some k' => k' =? k | None => false end)
                 16 ltac:(vm_compute; reflexivity) k Hk).
  cbv beta in H. destruct (digit_val (hexdig k)) as [k'|]; [|discriminate].
  apply N.eqb_eq in H. now subst.
Qed.

Lemma hexdig_plain : forall k, k < 16 -> plainc (hexdig k) = true.
Proof. intros k Hk. exact (forallb_below (fun k => plainc (hexdig k)) 16 ltac:(vm_compute; reflexivity) k Hk). Qed.

Lemma mod16 : forall x, x mod 16 < 16. Proof. intro x. apply N.mod_lt. discriminate. Qed.

(* ------------------------------------------------------------------ the decoder *)
Lemma ufeed_app : forall a b st,
  ufeed st (a ++ b) =
  match ufeed st a with
  | inr e => inr e
  | inl (st', o) => match ufeed st' b with inr e => inr e | inl (st'', o') => inl (st'', o ++ o') end
  end.
Proof.
  induction a as [|c a IH]; intros b st; cbn [app ufeed].
  - destruct (ufeed st b) as [[st' o]|e]; reflexivity.
  - destruct (ustep st c) as [[st1 o1]|e]; [|reflexivity].
    rewrite IH. destruct (ufeed st1 a) as [[st2 o2]|e]; [|reflexivity].
    destruct (ufeed st2 b) as [[st3 o3]|e]; [|reflexivity]. now rewrite app_assoc.
Qed.

Lemma hex_step_mid : forall k acc d, d < 16 ->
  ustep (UHex (S (S k)) acc) (hexdig d) = inl (UHex (S k) (acc * 16 + d), []).
Proof. intros k acc d Hd. unfold ustep. rewrite (hexdig_val d Hd). reflexivity. Qed.

Lemma hex_step_end : forall acc d, d < 16 ->
  ustep (UHex 1 acc) (hexdig d) = if acc * 16 + d <? 1114112 then inl (UNormal, [acc * 16 + d]) else inr EIllegal.
Proof. intros acc d Hd. unfold ustep. rewrite (hexdig_val d Hd). reflexivity. Qed.

Lemma feed_hex2_mid : forall k acc c,
  ufeed (UHex (S (S (S k))) acc) (hex2 c) = inl (UHex (S k) (acc * 256 + c mod 256), []).
Proof.
  intros k acc c. unfold hex2. cbn [ufeed].
  rewrite hex_step_mid by apply mod16. rewrite hex_step_mid by apply mod16. cbn [app].
  replace ((acc * 16 + c / 16 mod 16) * 16 + c mod 16) with (acc * 256 + c mod 256) by lia. reflexivity.
Qed.

Lemma feed_hex2_end : forall acc c, acc * 256 + c mod 256 < 1114112 ->
  ufeed (UHex 2 acc) (hex2 c) = inl (UNormal, [acc * 256 + c mod 256]).
Proof.
  intros acc c H. unfold hex2. cbn [ufeed].
  rewrite hex_step_mid by apply mod16. rewrite hex_step_end by apply mod16.
  replace ((acc * 16 + c / 16 mod 16) * 16 + c mod 16) with (acc * 256 + c mod 256) by lia.
  apply N.ltb_lt in H. rewrite H. reflexivity.
Qed.

Lemma esc2_ok : forall c, c < 256 -> ufeed UNormal ([92; 120] ++ hex2 c) = inl (UNormal, [c]).
Proof.
  intros c H. rewrite ufeed_app. change (ufeed UNormal [92; 120]) with (@inl _ uerr (UHex 2 0, @nil N)). cbv beta iota.
  rewrite feed_hex2_end by lia. cbn [app]. do 3 f_equal. lia.
Qed.

Lemma esc4_ok : forall c, c < 65536 -> ufeed UNormal ([92; 117] ++ hex4 c) = inl (UNormal, [c]).
Proof.
  intros c H. rewrite ufeed_app. change (ufeed UNormal [92; 117]) with (@inl _ uerr (UHex 4 0, @nil N)). cbv beta iota.
  unfold hex4. rewrite ufeed_app, feed_hex2_mid. cbv beta iota. rewrite feed_hex2_end by lia. cbn [app]. do 3 f_equal. lia.
Qed.

Lemma esc8_ok : forall c, c < 1114112 -> ufeed UNormal ([92; 85] ++ hex8 c) = inl (UNormal, [c]).
Proof.
  intros c H. rewrite ufeed_app. change (ufeed UNormal [92; 85]) with (@inl _ uerr (UHex 8 0, @nil N)). cbv beta iota.
  unfold hex8, hex4. rewrite !ufeed_app. rewrite feed_hex2_mid. cbv beta iota. rewrite feed_hex2_mid. cbv beta iota.
  rewrite ufeed_app, feed_hex2_mid. cbv beta iota. rewrite feed_hex2_end by lia. cbn [app]. do 3 f_equal. lia.
Qed.

(* ------------------------------------------------------------------ one character *)
Lemma bsr_char_ascii : forall c, c < 128 -> bsr_char c = [c].
Proof. intros c H. unfold bsr_char. apply N.ltb_lt in H. now rewrite H. Qed.

Lemma bsr_app : forall a b, bsr (a ++ b) = bsr a ++ bsr b.
Proof. intros a b. unfold bsr. apply flat_map_app. Qed.

Lemma bsr_ascii : forall l, forallb (fun c => c <? 128) l = true -> bsr l = l.
Proof.
  induction l as [|c l IH]; intro H; [reflexivity|]. cbn [forallb] in H. apply andb_prop in H as [H1 H2].
  unfold bsr in *. cbn [flat_map]. rewrite bsr_char_ascii by now apply N.ltb_lt. rewrite IH by exact H2. reflexivity.
Qed.

Lemma plainc_lt : forall c, plainc c = true -> (c <? 128) = true.
Proof. intros c H. unfold plainc in H. apply andb_prop in H as [_ H]. exact H. Qed.

Lemma hex2_ascii : forall c, forallb (fun x => x <? 128) (hex2 c) = true.
Proof. intro c. unfold hex2. cbn [forallb]. rewrite !plainc_lt by (apply hexdig_plain, mod16). reflexivity. Qed.

Lemma esc_u_ascii : forall c, forallb (fun x => x <? 128) (esc_u c) = true.
Proof.
  intro c. unfold esc_u, hex8, hex4. destruct (c <? 65536); cbn [app forallb];
  rewrite ?forallb_app, !hex2_ascii; reflexivity.
Qed.

Lemma esc_u_ok : forall c, c < 1114112 -> ufeed UNormal (bsr (esc_u c)) = inl (UNormal, [c]).
Proof.
  intros c H. rewrite bsr_ascii by apply esc_u_ascii. unfold esc_u.
  destruct (c <? 65536) eqn:E; [apply esc4_ok; now apply N.ltb_lt|now apply esc8_ok].
Qed.

Lemma bsr_char_ok : forall c, 128 <= c -> c < 1114112 -> ufeed UNormal (bsr_char c) = inl (UNormal, [c]).
Proof.
  intros c H1 H2. unfold bsr_char.
  destruct (c <? 128) eqn:E1; [apply N.ltb_lt in E1; lia|].
  destruct (c <? 256) eqn:E2; [apply esc2_ok; now apply N.ltb_lt|].
  destruct (c <? 65536) eqn:E3; [apply esc4_ok; now apply N.ltb_lt|now apply esc8_ok].
Qed.

Definition styles : list style := [SRepr; SUni; SHex; SOct].
Definition rt_ok (st : style) (q c : N) : bool :=
  match ufeed UNormal (bsr (enc_char st q c)) with
  | inl (UNormal, [c']) => c' =? c
  | _ => false
  end.

(* the code points below 512 (all special cases of every style live here): by computation *)
Lemma char_roundtrip_low : forall c, c < 512 -> forall st q, In st styles -> In q [39; 34] -> rt_ok st q c = true.
Proof.
  intros c Hc st q Hs Hq.
  assert (H := forallb_below (fun c => forallb (fun st => forallb (fun q => rt_ok st q c) [39; 34]) styles)
                 512 ltac:(vm_compute; reflexivity) c Hc).
  cbv beta in H. rewrite forallb_forall in H. specialize (H st Hs). rewrite forallb_forall in H. exact (H q Hq).
Qed.

Lemma enc_char_high : forall st q c, 512 <= c -> is_quote q = true ->
  enc_char st q c = [c] \/ enc_char st q c = esc_u c.
Proof.
  intros st q c Hc Hq. unfold is_quote in Hq.
  assert (q = 39 \/ q = 34) as Hq' by (apply orb_prop in Hq as [H|H]; apply N.eqb_eq in H; auto).
  destruct st; unfold enc_char.
  - left.
    assert ((c =? 92) = false) as -> by (apply N.eqb_neq; lia).
    assert ((c =? q) = false) as -> by (apply N.eqb_neq; lia).
    assert ((c =? 10) = false) as -> by (apply N.eqb_neq; lia).
    assert ((c =? 13) = false) as -> by (apply N.eqb_neq; lia).
    assert ((c =? 9) = false) as -> by (apply N.eqb_neq; lia).
    assert ((c <? 32) = false) as -> by (apply N.ltb_ge; lia).
    assert ((c =? 127) = false) as -> by (apply N.eqb_neq; lia). reflexivity.
  - right. reflexivity.
  - right. assert ((c <? 256) = false) as -> by (apply N.ltb_ge; lia). reflexivity.
  - right. assert ((c <? 512) = false) as -> by (apply N.ltb_ge; lia). reflexivity.
Qed.

Lemma char_roundtrip : forall st q c, In st styles -> In q [39; 34] -> c < 1114112 ->
  ufeed UNormal (bsr (enc_char st q c)) = inl (UNormal, [c]).
Proof.
  intros st q c Hs Hq Hc. destruct (N.lt_ge_cases c 512) as [Hlo|Hhi].
  - pose proof (char_roundtrip_low c Hlo st q Hs Hq) as H. unfold rt_ok in H.
    destruct (ufeed UNormal (bsr (enc_char st q c))) as [[[| | |] [|c' [|]]]|]; try discriminate.
    apply N.eqb_eq in H. now subst.
  - assert (is_quote q = true) as Hq' by (destruct Hq as [<-|[<-|[]]]; reflexivity).
    destruct (enc_char_high st q c Hhi Hq') as [E|E]; rewrite E.
    + unfold bsr. cbn [flat_map]. rewrite app_nil_r. apply bsr_char_ok; lia.
    + now apply esc_u_ok.
Qed.

(* ------------------------------------------------------------------ the scanner side *)
(* l, read by string_re's body scanner from escape state e, contains no unescaped quote, no raw
   CR / LF and no non-ASCII character right after an unescaped backslash; the escape state after l *)
Fixpoint safe (q : N) (e : bool) (l : str) : option bool :=
  match l with
  | [] => Some e
  | c :: r =>
      if (c =? 10) || (c =? 13) then None
      else if e then (if 128 <=? c then None else safe q false r)
      else if c =? 92 then safe q true r
      else if c =? q then None
      else safe q false r
  end.

Lemma safe_app : forall q a b e e', safe q e a = Some e' -> safe q e (a ++ b) = safe q e' b.
Proof.
  induction a as [|c a IH]; intros b e e' H; cbn [safe app] in *.
  - now injection H as <-.
  - destruct ((c =? 10) || (c =? 13)); [discriminate|].
    destruct e; [destruct (128 <=? c); [discriminate|now apply IH]|].
    destruct (c =? 92); [now apply IH|]. destruct (c =? q); [discriminate|now apply IH].
Qed.

Lemma scan_body_app : forall q a r e e', safe q e a = Some e' ->
  scan_body q e (a ++ r) = option_map (Nat.add (length a)) (scan_body q e' r).
Proof.
  induction a as [|c a IH]; intros r e e' H; cbn [safe app] in *.
  - injection H as <-. destruct (scan_body q e r); reflexivity.
  - destruct ((c =? 10) || (c =? 13)); [discriminate|]. cbn [scan_body length].
    destruct e.
    + destruct (128 <=? c); [discriminate|]. rewrite (IH r false e' H). destruct (scan_body q e' r); reflexivity.
    + destruct (c =? 92).
      * rewrite (IH r true e' H). destruct (scan_body q e' r); reflexivity.
      * destruct (c =? q); [discriminate|]. rewrite (IH r false e' H). destruct (scan_body q e' r); reflexivity.
Qed.

Lemma normalize_app : forall nl q a r e e', safe q e a = Some e' -> normalize nl (a ++ r) = a ++ normalize nl r.
Proof.
  induction a as [|c a IH]; intros r e e' H; cbn [safe app] in *; [reflexivity|].
  destruct (c =? 10) eqn:E10; [discriminate|]. destruct (c =? 13) eqn:E13; [discriminate|]. cbn [orb] in H.
  apply N.eqb_neq in E10, E13.
  assert (Hn : forall t, normalize nl (c :: t) = c :: normalize nl t).
  { intro t. destruct c as [|p]; [reflexivity|].
    do 4 (destruct p as [p|p|]; try reflexivity); try lia; destruct p; try reflexivity; lia. }
  rewrite Hn. f_equal.
  destruct e; [destruct (128 <=? c); [discriminate|exact (IH r _ _ H)]|]. destruct (c =? 92); [exact (IH r _ _ H)|].
  destruct (c =? q); [discriminate|exact (IH r _ _ H)].
Qed.

Lemma protect_app : forall q a r e e', safe q e a = Some e' -> protect_go e (a ++ r) = a ++ protect_go e' r.
Proof.
  induction a as [|c a IH]; intros r e e' H; cbn [safe app] in *; [now injection H as <-|].
  destruct ((c =? 10) || (c =? 13)); [discriminate|]. cbn [protect_go].
  destruct e.
  - destruct (128 <=? c); [discriminate|]. now rewrite (IH r false e' H).
  - destruct (c =? 92) eqn:E92.
    + apply N.eqb_eq in E92. subst c. now rewrite (IH r true e' H).
    + destruct (c =? q); [discriminate|]. now rewrite (IH r false e' H).
Qed.

Definition safe_ok (st : style) (q c : N) : bool :=
  match safe q false (enc_char st q c) with Some false => true | _ => false end.

Lemma char_safe_low : forall c, c < 512 -> forall st q, In st styles -> In q [39; 34] -> safe_ok st q c = true.
Proof.
  intros c Hc st q Hs Hq.
  assert (H := forallb_below (fun c => forallb (fun st => forallb (fun q => safe_ok st q c) [39; 34]) styles)
                 512 ltac:(vm_compute; reflexivity) c Hc).
  cbv beta in H. rewrite forallb_forall in H. specialize (H st Hs). rewrite forallb_forall in H. exact (H q Hq).
Qed.

Lemma safe_plain : forall q c r, In q [39; 34] -> plainc c = true -> safe q false (c :: r) = safe q false r.
Proof.
  intros q c r Hq H. unfold plainc in H.
  apply andb_prop in H as [H _]. apply andb_prop in H as [H H92]. apply andb_prop in H as [H H39].
  apply andb_prop in H as [H H34]. apply andb_prop in H as [H10 H13].
  apply negb_true_iff in H10, H13, H34, H39, H92. cbn [safe]. rewrite H10, H13, H92. cbn [orb].
  destruct Hq as [<-|[<-|[]]]; [rewrite H39|rewrite H34]; reflexivity.
Qed.

Lemma safe_hex2 : forall q c r, In q [39; 34] -> safe q false (hex2 c ++ r) = safe q false r.
Proof.
  intros q c r Hq. unfold hex2. cbn [app].
  rewrite !safe_plain by (auto; apply hexdig_plain, mod16). reflexivity.
Qed.

Lemma safe_esc_u : forall q c, In q [39; 34] -> safe q false (esc_u c) = Some false.
Proof.
  intros q c Hq. unfold esc_u, hex8, hex4. destruct (c <? 65536); cbn [app safe N.eqb Pos.eqb orb];
  rewrite <- ?app_assoc, !safe_hex2 by exact Hq; try reflexivity.
  all: rewrite <- (app_nil_r (hex2 c)), safe_hex2 by exact Hq; reflexivity.
Qed.

Lemma char_safe : forall st q c, In st styles -> In q [39; 34] -> c < 1114112 ->
  safe q false (enc_char st q c) = Some false.
Proof.
  intros st q c Hs Hq Hc. destruct (N.lt_ge_cases c 512) as [Hlo|Hhi].
  - pose proof (char_safe_low c Hlo st q Hs Hq) as H. unfold safe_ok in H.
    destruct (safe q false (enc_char st q c)) as [[|]|]; try discriminate. reflexivity.
  - assert (is_quote q = true) as Hq' by (destruct Hq as [<-|[<-|[]]]; reflexivity).
    destruct (enc_char_high st q c Hhi Hq') as [E|E]; rewrite E; [|now apply safe_esc_u].
    cbn [safe].
    assert ((c =? 10) = false) as -> by (apply N.eqb_neq; lia).
    assert ((c =? 13) = false) as -> by (apply N.eqb_neq; lia).
    assert ((c =? 92) = false) as -> by (apply N.eqb_neq; lia).
    assert ((c =? q) = false) as -> by (apply N.eqb_neq; destruct Hq as [<-|[<-|[]]]; lia).
    reflexivity.
Qed.

(* ------------------------------------------------------------------ raw line breaks *)
Definition no_raw_breaks (s : str) : bool := forallb (fun c => negb ((c =? 10) || (c =? 13))) s.

Lemma normalize_no_breaks : forall nl s, no_raw_breaks s = true -> normalize nl s = s.
Proof.
  induction s as [|c s IH]; intro H; [reflexivity|]. cbn [no_raw_breaks forallb] in H.
  apply andb_prop in H as [Hc Hs]. apply negb_true_iff, orb_false_iff in Hc as [E10 E13].
  apply N.eqb_neq in E10, E13.
  assert (Hn : forall t, normalize nl (c :: t) = c :: normalize nl t).
  { intro t. destruct c as [|p]; [reflexivity|].
    do 4 (destruct p as [p|p|]; try reflexivity); try lia; destruct p; try reflexivity; lia. }
  rewrite Hn. f_equal. exact (IH Hs).
Qed.

Lemma uncontinue_no_breaks : forall n s, (length s <= n)%nat -> no_raw_breaks s = true -> uncontinue s = s.
Proof.
  induction n as [|n IH]; intros s Hn H.
  - destruct s; [reflexivity|cbn in Hn; lia].
  - destruct s as [|c r]; [reflexivity|]. cbn [no_raw_breaks forallb] in H. apply andb_prop in H as [Hc Hr].
    cbn [uncontinue]. cbn [length] in Hn. destruct (c =? 92).
    + destruct r as [|d r']; [reflexivity|]. cbn [forallb] in Hr. apply andb_prop in Hr as [Hd Hr'].
      apply negb_true_iff, orb_false_iff in Hd as [E10 _]. rewrite E10. cbn [length] in Hn.
      now rewrite (IH r' ltac:(lia) Hr').
    + now rewrite (IH r ltac:(lia) Hr).
Qed.

Lemma pre_no_breaks : forall nl s, no_raw_breaks s = true -> normalize nl (uncontinue (normalize [10] s)) = s.
Proof.
  intros nl s H. rewrite (normalize_no_breaks [10] s H), (uncontinue_no_breaks (length s) s (le_n _) H).
  exact (normalize_no_breaks nl s H).
Qed.

Lemma convert_config_independent : forall nl nl' body, no_raw_breaks body = true -> convert nl body = convert nl' body.
Proof. intros nl nl' body H. unfold convert. now rewrite !pre_no_breaks. Qed.

Lemma safe_no_breaks : forall q a e e', safe q e a = Some e' -> no_raw_breaks a = true.
Proof.
  induction a as [|c a IH]; intros e e' H; [reflexivity|]. cbn [safe] in H. cbn [no_raw_breaks forallb].
  destruct ((c =? 10) || (c =? 13)); [discriminate|]. cbn [negb andb].
  destruct e; [destruct (128 <=? c); [discriminate|exact (IH _ _ H)]|].
  destruct (c =? 92); [exact (IH _ _ H)|]. destruct (c =? q); [discriminate|exact (IH _ _ H)].
Qed.

(* ------------------------------------------------------------------ whole strings *)
Definition valid (v : str) : Prop := Forall (fun c => c < 1114112) v.

Lemma encode_cons : forall st q c v, encode st q (c :: v) = enc_char st q c ++ encode st q v.
Proof. reflexivity. Qed.

Lemma encode_safe : forall st q v, In st styles -> In q [39; 34] -> valid v -> safe q false (encode st q v) = Some false.
Proof.
  intros st q v Hs Hq Hv. induction Hv as [|c v Hc Hv IH]; [reflexivity|].
  rewrite encode_cons, (safe_app q _ _ false false) by now apply char_safe. exact IH.
Qed.

Lemma encode_normalize : forall nl st q v, In st styles -> In q [39; 34] -> valid v ->
  normalize nl (encode st q v) = encode st q v.
Proof.
  intros nl st q v Hs Hq Hv. induction Hv as [|c v Hc Hv IH]; [reflexivity|].
  rewrite encode_cons, (normalize_app nl q _ _ false false) by now apply char_safe. now rewrite IH.
Qed.

Lemma encode_protect : forall st q v, In st styles -> In q [39; 34] -> valid v ->
  protect (encode st q v) = encode st q v.
Proof.
  intros st q v Hs Hq Hv. unfold protect. induction Hv as [|c v Hc Hv IH]; [reflexivity|].
  rewrite encode_cons, (protect_app q _ _ false false) by now apply char_safe. now rewrite IH.
Qed.

Lemma encode_decode : forall st q v, In st styles -> In q [39; 34] -> valid v ->
  ufeed UNormal (bsr (encode st q v)) = inl (UNormal, v).
Proof.
  intros st q v Hs Hq Hv. induction Hv as [|c v Hc Hv IH]; [reflexivity|].
  rewrite encode_cons, bsr_app, ufeed_app, char_roundtrip by assumption. cbv beta iota. rewrite IH. reflexivity.
Qed.

Lemma string_roundtrip_convert : forall nl st q v, In st styles -> In q [39; 34] -> valid v ->
  convert nl (encode st q v) = inl v.
Proof.
  intros nl st q v Hs Hq Hv. unfold convert, unicode_escape.
  assert (Hb : no_raw_breaks (encode st q v) = true) by (eapply safe_no_breaks; apply encode_safe; eassumption).
  rewrite (pre_no_breaks nl _ Hb), encode_protect, encode_decode by assumption. cbn [ufinish]. now rewrite app_nil_r.
Qed.

Lemma string_roundtrip_lex : forall st q v rest, In st styles -> In q [39; 34] -> valid v ->
  lex_string (literal st q v ++ rest) = Some (length (literal st q v)).
Proof.
  intros st q v rest Hs Hq Hv. unfold literal. cbn [app lex_string].
  assert (is_quote q = true) as -> by (destruct Hq as [<-|[<-|[]]]; reflexivity).
  rewrite <- app_assoc, (scan_body_app q _ _ false false) by now apply encode_safe.
  cbn [app scan_body].
  assert ((q =? 92) = false) as -> by (destruct Hq as [<-|[<-|[]]]; reflexivity).
  rewrite N.eqb_refl. cbn [option_map length]. rewrite app_length. cbn [length]. f_equal.
Qed.

(* ------------------------------------------------------------------ integers *)
Definition step (base : N) (a : Z) (d : N) : Z := (a * Z.of_N base + Z.of_N d)%Z.

Lemma value_fold : forall b ds, value b ds = fold_left (step b) ds 0%Z.
Proof. reflexivity. Qed.

Lemma dval_not_us : forall b c d, dval b c = Some d -> (c =? US) = false.
Proof.
  intros b c d H. destruct (c =? US) eqn:E; [|reflexivity]. apply N.eqb_eq in E. subst c. discriminate.
Qed.

Lemma dval_mono : forall b b' c d, dval b c = Some d -> b <= b' -> dval b' c = Some d /\ d < b.
Proof.
  intros b b' c d H Hb. unfold dval in *. destruct (digit_val c) as [x|]; [|discriminate].
  destruct (x <? b) eqn:E; [|discriminate]. injection H as <-. apply N.ltb_lt in E.
  assert ((x <? b') = true) as -> by (apply N.ltb_lt; lia). split; [reflexivity|exact E].
Qed.

(* a string scanned entirely by the greedy group is in the grammar's group, and removing the
   underscores leaves exactly its digits *)
Lemma scan_group : forall b b' n s, b <= b' -> (length s <= n)%nat -> scan_us b s = length s ->
  exists ds, group b s = Some ds /\ length ds = length (remove_us s) /\
             (s <> [] -> ds <> []) /\
             forall acc, digits_val b' acc (remove_us s) = Some (fold_left (step b') ds acc).
Proof.
  intros b b' n. induction n as [|n IH]; intros s Hb Hn Hs.
  - destruct s; [|cbn in Hn; lia]. exists []. split; [reflexivity|]. split; [reflexivity|].
    split; [intro H; now elim H|reflexivity].
  - destruct s as [|c r].
    { exists []. split; [reflexivity|]. split; [reflexivity|]. split; [intro H; now elim H|reflexivity]. }
    cbn [scan_us length] in Hs. cbn [group].
    destruct (dval b c) as [d|] eqn:Ed.
    + injection Hs as Hs. cbn [length] in Hn.
      destruct (IH r Hb ltac:(lia) Hs) as (ds & G & L & _ & V).
      destruct (dval_mono _ _ _ _ Ed Hb) as [Ed' Hd].
      exists (d :: ds). rewrite G. unfold remove_us in *. cbn [filter]. rewrite (dval_not_us _ _ _ Ed). cbn [negb].
      split; [reflexivity|]. split; [cbn [length]; now rewrite L|]. split; [discriminate|].
      intro acc. cbn [digits_val fold_left]. rewrite Ed'. apply V.
    + destruct (c =? US) eqn:Eu; [|discriminate].
      destruct r as [|c' r']; [discriminate|]. destruct (dval b c') as [d|] eqn:Ed'; [|discriminate].
      cbn [length] in Hn, Hs. injection Hs as Hs.
      destruct (IH r' Hb ltac:(lia) Hs) as (ds & G & L & _ & V).
      destruct (dval_mono _ _ _ _ Ed' Hb) as [Ed'' Hd].
      exists (d :: ds). rewrite G. unfold remove_us in *. cbn [filter]. rewrite Eu, (dval_not_us _ _ _ Ed'). cbn [negb].
      split; [reflexivity|]. split; [cbn [length]; now rewrite L|]. split; [discriminate|].
      intro acc. cbn [digits_val fold_left]. rewrite Ed''. apply V.
Qed.

Lemma prefix_not_zero_group : forall c b r, prefix_base c = Some b -> scan_us 1 (c :: r) = O /\ (c =? US) = false.
Proof.
  intros c b r H. unfold prefix_base in H.
  destruct (c =? 98) eqn:E1; [apply N.eqb_eq in E1; subst; split; reflexivity|].
  destruct (c =? 66) eqn:E2; [apply N.eqb_eq in E2; subst; split; reflexivity|].
  destruct (c =? 111) eqn:E3; [apply N.eqb_eq in E3; subst; split; reflexivity|].
  destruct (c =? 79) eqn:E4; [apply N.eqb_eq in E4; subst; split; reflexivity|].
  destruct (c =? 120) eqn:E5; [apply N.eqb_eq in E5; subst; split; reflexivity|].
  destruct (c =? 88) eqn:E6; [apply N.eqb_eq in E6; subst; split; reflexivity|]. discriminate.
Qed.

(* the zero alternative  0(_?0)...  *)
Lemma dval1_zero : forall c d, dval 1 c = Some d -> c = 48.
Proof.
  intros c d H. unfold dval, digit_val, is_digit in H.
  destruct ((48 <=? c) && (c <=? 57)) eqn:E1.
  - apply andb_prop in E1 as [A B]. apply N.leb_le in A, B.
    destruct (c - 48 <? 1) eqn:E; [|discriminate]. apply N.ltb_lt in E. lia.
  - destruct ((97 <=? c) && (c <=? 102)) eqn:E2.
    + apply andb_prop in E2 as [A B]. apply N.leb_le in A, B.
      destruct (c - 87 <? 1) eqn:E; [|discriminate]. apply N.ltb_lt in E. lia.
    + destruct ((65 <=? c) && (c <=? 70)) eqn:E3; [|discriminate].
      apply andb_prop in E3 as [A B]. apply N.leb_le in A, B.
      destruct (c - 55 <? 1) eqn:E; [|discriminate]. apply N.ltb_lt in E. lia.
Qed.

Lemma zero_group : forall n s, (length s <= n)%nat -> scan_us 1 s = length s ->
  forallb (N.eqb 48) (remove_us s) = true /\ exists ds, group 1 s = Some ds.
Proof.
  induction n as [|n IH]; intros s Hn Hs.
  - destruct s; [|cbn in Hn; lia]. split; [reflexivity|now exists []].
  - destruct s as [|c r]; [split; [reflexivity|now exists []]|].
    cbn [scan_us length] in Hs. cbn [group]. unfold remove_us in *. cbn [filter].
    destruct (dval 1 c) as [d|] eqn:Ed.
    + injection Hs as Hs. cbn [length] in Hn. destruct (IH r ltac:(lia) Hs) as [Z [ds G]].
      rewrite (dval_not_us _ _ _ Ed). cbn [negb forallb]. rewrite (dval1_zero _ _ Ed), Z, G.
      split; [reflexivity|now eexists].
    + destruct (c =? US) eqn:Eu; [|discriminate].
      destruct r as [|c' r']; [discriminate|]. destruct (dval 1 c') as [d|] eqn:Ed'; [|discriminate].
      cbn [length] in Hn, Hs. injection Hs as Hs. destruct (IH r' ltac:(lia) Hs) as [Z [ds G]].
      cbn [negb filter]. rewrite (dval_not_us _ _ _ Ed'). cbn [negb forallb]. rewrite (dval1_zero _ _ Ed'), Z, G.
      split; [reflexivity|now eexists].
Qed.

Lemma digits_zeros : forall t, forallb (N.eqb 48) t = true -> digits_val 10 0%Z t = Some 0%Z.
Proof.
  induction t as [|c t IH]; intro H; [reflexivity|]. cbn [forallb] in H. apply andb_prop in H as [A B].
  apply N.eqb_eq in A. subst c. cbn [digits_val]. change (dval 10 48) with (Some 0). cbn. exact (IH B).
Qed.

Definition over_limit (limit : N) (s : str) : Prop := 0 < limit /\ limit < N.of_nat (length (remove_us s)).

Lemma int0_zeros : forall limit t, forallb (N.eqb 48) t = true ->
  int0 limit (48 :: t) = Ok 0%Z \/
  (int0 limit (48 :: t) = SyntaxErr /\ 0 < limit /\ limit < N.of_nat (length (48 :: t))).
Proof.
  intros limit t H. unfold int0. change (48 =? 48) with true. cbv iota.
  assert (Hdec : (if (0 <? limit) && (limit <? N.of_nat (length (48 :: t))) then @SyntaxErr Z
                  else match digits_val 10 0%Z (48 :: t) with
                       | Some v => if true && negb (Z.eqb v 0) then SyntaxErr else Ok v
                       | None => SyntaxErr end) = Ok 0%Z \/
                 ((if (0 <? limit) && (limit <? N.of_nat (length (48 :: t))) then @SyntaxErr Z
                  else match digits_val 10 0%Z (48 :: t) with
                       | Some v => if true && negb (Z.eqb v 0) then SyntaxErr else Ok v
                       | None => SyntaxErr end) = SyntaxErr /\ 0 < limit /\ limit < N.of_nat (length (48 :: t)))).
  { destruct ((0 <? limit) && (limit <? N.of_nat (length (48 :: t)))) eqn:E.
    - right. apply andb_prop in E as [A B]. apply N.ltb_lt in A, B. auto.
    - left. rewrite (digits_zeros (48 :: t)) by (cbn [forallb]; now rewrite H). reflexivity. }
  destruct t as [|c1 r1]; [exact Hdec|].
  cbn [forallb] in H. apply andb_prop in H as [A B]. apply N.eqb_eq in A. subst c1.
  change (prefix_base 48) with (@None N). exact Hdec.
Qed.

Lemma int_token_value_lemma : forall limit s, lex_integer s = Some (length s) ->
  exists v, py_int s = Some v /\
    (jinja_int limit s = Ok v \/ (jinja_int limit s = SyntaxErr /\ over_limit limit s)).
Proof.
  intros limit s H. destruct s as [|c0 r0]; [discriminate|]. cbn [lex_integer] in H. cbn [py_int].
  unfold jinja_int, over_limit.
  destruct (c0 =? 48) eqn:E0.
  - apply N.eqb_eq in E0. subst c0. cbn [length] in H.
    assert (Hrm : remove_us (48 :: r0) = 48 :: remove_us r0) by reflexivity.
    destruct r0 as [|c1 r1].
    + exists 0%Z. split; [reflexivity|]. rewrite Hrm.
      destruct (int0_zeros limit [] eq_refl) as [A|[A [B C]]]; [left; exact A|right; auto].
    + destruct (prefix_base c1) as [b|] eqn:Ep.
      * destruct (prefix_not_zero_group c1 b r1 Ep) as [Hz Hu].
        destruct (Nat.ltb 0 (scan_us b r1)) eqn:En.
        -- injection H as H. apply Nat.ltb_lt in En.
           destruct (scan_group b b (length r1) r1 ltac:(lia) ltac:(lia) H) as (ds & G & L & NE & V).
           assert (r1 <> []) as Hne by (intro; subst; cbn in En; lia).
           specialize (NE Hne). rewrite G. destruct ds as [|d ds]; [now elim NE|].
           exists (value b (d :: ds)). split; [reflexivity|]. left.
           unfold remove_us in *. cbn [filter]. change (48 =? US) with false. rewrite Hu. cbn [negb int0].
           change (48 =? 48) with true. cbv iota. rewrite Ep.
           destruct (filter (fun c : N => negb (c =? US)) r1) as [|x xs] eqn:Ef; [cbn in L; discriminate|].
           rewrite V. reflexivity.
        -- rewrite Hz in H. cbn in H. discriminate.
      * injection H as H.
        destruct (zero_group (length (c1 :: r1)) (c1 :: r1) ltac:(lia) H) as [Z [ds G]].
        rewrite G. exists 0%Z. split; [reflexivity|]. rewrite Hrm.
        destruct (int0_zeros limit _ Z) as [A|[A [B C]]]; [left; exact A|right; auto].
  - destruct (is_digit c0) eqn:Ed; [|discriminate]. injection H as H. cbn [length] in H. try injection H as H.
    destruct (scan_group 10 10 (length r0) r0 ltac:(lia) ltac:(lia) H) as (ds & G & L & _ & V).
    assert (Hd0 : dval 10 c0 = Some (c0 - 48)).
    { unfold dval, digit_val. rewrite Ed. unfold is_digit in Ed. apply andb_prop in Ed as [A B].
      apply N.leb_le in A, B. assert ((c0 - 48 <? 10) = true) as -> by (apply N.ltb_lt; lia). reflexivity. }
    rewrite Hd0, G. exists (value 10 ((c0 - 48) :: ds)). split; [reflexivity|].
    assert (Hrm : remove_us (c0 :: r0) = c0 :: remove_us r0).
    { unfold remove_us. cbn [filter]. now rewrite (dval_not_us _ _ _ Hd0). }
    rewrite Hrm. unfold int0. rewrite E0.
    destruct ((0 <? limit) && (limit <? N.of_nat (length (c0 :: remove_us r0)))) eqn:El.
    + right. split; [reflexivity|]. apply andb_prop in El as [A B]. apply N.ltb_lt in A, B. auto.
    + left. cbn [digits_val]. rewrite Hd0, V. cbn [andb]. reflexivity.
Qed.

(* ------------------------------------------------------------------ floats *)
Lemma skipn_all_nil : forall (l : str) n, length l = n -> skipn n l = [].
Proof. intros l n <-. apply skipn_all. Qed.

Lemma length_zero_nil : forall (l : str), length l = O -> l = [].
Proof. intros [|x l]; [reflexivity|discriminate]. Qed.

Lemma scan_us_le : forall b s, (scan_us b s <= length s)%nat.
Proof.
  intros b. fix IH 1. intros [|c r]; [cbn; lia|]. cbn [scan_us length].
  destruct (dval b c); [specialize (IH r); lia|].
  destruct (c =? US); [|lia]. destruct r as [|d r']; [lia|]. destruct (dval b d); [|lia].
  specialize (IH r'). cbn [length]. lia.
Qed.

Lemma scan_digitpart_le : forall s, (scan_digitpart s <= length s)%nat.
Proof. intros [|c r]; [cbn; lia|]. cbn [scan_digitpart length]. destruct (is_digit c); [pose proof (scan_us_le 10 r)|]; lia. Qed.

Lemma take_whole : forall r, scan_digitpart r = length r -> r <> [] -> take_digitpart r = (true, []).
Proof.
  intros r H Hne. unfold take_digitpart. rewrite H, skipn_all. destruct r; [now elim Hne|]. reflexivity.
Qed.

Lemma exp_whole : forall r, scan_exp r = length r -> r <> [] -> exponent_all r = true.
Proof.
  intros [|c r] H Hne; [now elim Hne|]. cbn [scan_exp exponent_all length] in *.
  destruct (is_e c); [|discriminate]. cbn [andb].
  destruct r as [|x r']; [discriminate|].
  destruct (is_sign x).
  - destruct (scan_digitpart r') as [|n] eqn:En; [discriminate|]. cbn [length] in H.
    assert (scan_digitpart r' = length r') as Hw by lia.
    rewrite take_whole; [reflexivity|exact Hw|intro; subst; discriminate].
  - destruct (scan_digitpart (x :: r')) as [|n] eqn:En; [discriminate|].
    assert (scan_digitpart (x :: r') = length (x :: r')) as Hw by (cbn [length] in *; lia).
    rewrite take_whole; [reflexivity|exact Hw|discriminate].
Qed.

Lemma float_token_lemma : forall prev s, lex_float prev s = Some (length s) -> py_float_ok s = true.
Proof.
  intros prev s H. unfold lex_float in H.
  destruct (match prev with Some p => p =? 46 | None => false end); [discriminate|].
  unfold py_float_ok, take_digitpart at 1.
  pose proof (scan_digitpart_le s) as Hle.
  destruct (scan_digitpart s) as [|n0] eqn:En1; [discriminate|].
  set (n1 := S n0) in *. set (r1 := skipn n1 s) in *.
  assert (Hl1 : length r1 = (length s - n1)%nat) by apply skipn_length.
  change (Nat.ltb 0 n1) with true. cbv zeta in H.
  destruct r1 as [|c r2] eqn:Er1.
  - (* nothing after the integer part: no match *)
    cbn [scan_frac skipn scan_exp] in H. discriminate.
  - unfold scan_frac in H. destruct (c =? 46) eqn:Ec.
    + unfold take_digitpart. pose proof (scan_digitpart_le r2) as Hle2.
      destruct (scan_digitpart r2) as [|m] eqn:Em.
      * (* a dot without digits: the exponent cannot start at the dot *)
        cbn [skipn scan_exp] in H. apply N.eqb_eq in Ec. subst c. cbn in H. discriminate.
      * change (Nat.ltb 0 (S m)) with true. cbn [orb andb].
        change (skipn (S (S m)) (c :: r2)) with (skipn (S m) r2) in H.
        set (r3 := skipn (S m) r2) in *.
        assert (Hl3 : length r3 = (length r2 - S m)%nat) by apply skipn_length.
        cbn [length] in Hl1.
        destruct (scan_exp r3) as [|k] eqn:Ek.
        -- injection H as H. assert (length r3 = O) by lia. now rewrite (length_zero_nil r3).
        -- injection H as H. assert (scan_exp r3 = length r3) by lia.
           destruct r3 as [|y r3'] eqn:E3; [cbn in Ek; discriminate|].
           apply exp_whole; [assumption|discriminate].
    + cbn [skipn] in H. cbn [andb]. cbn [length] in Hl1.
      destruct (scan_exp (c :: r2)) as [|k] eqn:Ek; [discriminate|].
      injection H as H. apply exp_whole; [cbn [length]; lia|discriminate].
Qed.

(* ------------------------------------------------------------------ one rule only *)
(* a spelling matched entirely by integer_re contains no '.', and an 'e' / 'E' only after 0x *)
Lemma scan_us_char : forall b s c, scan_us b s = length s -> In c s -> c = US \/ exists d, dval b c = Some d.
Proof.
  intros b. fix IH 1. intros [|x r] c H Hin; [now elim Hin|]. cbn [scan_us length] in H.
  destruct (dval b x) as [d|] eqn:Ed.
  - injection H as H. destruct Hin as [<-|Hin]; [right; eauto|exact (IH r c H Hin)].
  - destruct (x =? US) eqn:Eu; [|discriminate]. apply N.eqb_eq in Eu.
    destruct r as [|y r']; [discriminate|]. destruct (dval b y) as [d|] eqn:Ed'; [|discriminate].
    cbn [length] in H. injection H as H.
    destruct Hin as [<-|[<-|Hin]]; [left; exact Eu|right; eauto|exact (IH r' c H Hin)].
Qed.

Lemma in_skipn : forall (l : str) n x, In x (skipn n l) -> In x l.
Proof.
  induction l as [|y l IH]; intros [|n] x H; cbn [skipn] in H; auto. right. exact (IH n x H).
Qed.

Lemma float_marker : forall prev s, lex_float prev s = Some (length s) ->
  exists n0 c r2, scan_digitpart s = S n0 /\ skipn (S n0) s = c :: r2 /\ (c = 46 \/ is_e c = true).
Proof.
  intros prev s H. unfold lex_float in H.
  destruct (match prev with Some p => p =? 46 | None => false end); [discriminate|].
  destruct (scan_digitpart s) as [|n0] eqn:En1; [discriminate|]. cbv zeta in H.
  exists n0. destruct (skipn (S n0) s) as [|c r2] eqn:Er1.
  - cbn [scan_frac skipn scan_exp] in H. discriminate.
  - exists c, r2. split; [reflexivity|]. split; [reflexivity|].
    unfold scan_frac in H. destruct (c =? 46) eqn:Ec; [left; now apply N.eqb_eq|].
    cbn [skipn] in H. right. unfold scan_exp in H. destruct (is_e c); [reflexivity|discriminate].
Qed.

Lemma marker_not_digit : forall b c, b <= 10 -> (c = 46 \/ is_e c = true) -> c <> US /\ dval b c = None.
Proof.
  intros b c Hb [->|He].
  - split; [discriminate|reflexivity].
  - unfold is_e in He. apply orb_prop in He as [E|E]; apply N.eqb_eq in E; subst c; (split; [discriminate|]);
    unfold dval; cbn; destruct (_ <? b) eqn:E; try reflexivity; apply N.ltb_lt in E; lia.
Qed.

Lemma prefix_facts10 : forall c b r, prefix_base c = Some b ->
  scan_us 10 (c :: r) = O /\ c <> 46 /\ is_e c = false.
Proof.
  intros c b r H. unfold prefix_base in H.
  destruct (c =? 98) eqn:E1; [apply N.eqb_eq in E1; subst; repeat split; discriminate|].
  destruct (c =? 66) eqn:E2; [apply N.eqb_eq in E2; subst; repeat split; discriminate|].
  destruct (c =? 111) eqn:E3; [apply N.eqb_eq in E3; subst; repeat split; discriminate|].
  destruct (c =? 79) eqn:E4; [apply N.eqb_eq in E4; subst; repeat split; discriminate|].
  destruct (c =? 120) eqn:E5; [apply N.eqb_eq in E5; subst; repeat split; discriminate|].
  destruct (c =? 88) eqn:E6; [apply N.eqb_eq in E6; subst; repeat split; discriminate|]. discriminate.
Qed.

Lemma number_unique_lemma : forall prev s,
  ~ (lex_float prev s = Some (length s) /\ lex_integer s = Some (length s)).
Proof.
  intros prev s [Hf Hi]. destruct (float_marker prev s Hf) as (n0 & c & r2 & Hn & Hs & Hc).
  destruct s as [|c0 r0]; [discriminate|]. cbn [lex_integer length] in Hi.
  assert (Hin : In c r0).
  { cbn [skipn] in Hs. apply (in_skipn r0 n0). rewrite Hs. now left. }
  (* every character after the first is an underscore or a digit of a base <= 10 ... *)
  assert (Hall : forall b, b <= 10 -> scan_us b r0 = length r0 -> False).
  { intros b Hb Hw. destruct (marker_not_digit b c Hb Hc) as [Hu Hd].
    destruct (scan_us_char b r0 c Hw Hin) as [E|[d E]]; [contradiction|congruence]. }
  destruct (c0 =? 48) eqn:E0.
  - destruct r0 as [|c1 r1]; [now elim Hin|].
    destruct (prefix_base c1) as [b|] eqn:Ep.
    + (* ... or the spelling starts 0b / 0o / 0x, and then the float's digit part is just "0" *)
      destruct (prefix_facts10 c1 b r1 Ep) as (Hz & H46 & He).
      apply N.eqb_eq in E0. subst c0. cbn [scan_digitpart is_digit] in Hn. change ((48 <=? 48) && (48 <=? 57)) with true in Hn.
      cbv iota in Hn. rewrite Hz in Hn. injection Hn as <-. cbn [skipn] in Hs. injection Hs as <- _.
      destruct Hc as [Hc|Hc]; [contradiction|congruence].
    + injection Hi as Hi. apply (Hall 1 ltac:(lia)). exact Hi.
  - destruct (is_digit c0); [|discriminate]. injection Hi as Hi. apply (Hall 10 ltac:(lia)). exact Hi.
Qed.


(* ------------------------------------------------------------------ unknown escapes *)
Lemma unknown_escape_non_ascii : forall nl c, 128 <= c -> c < 1114112 -> convert nl [92; c] = inl [92; c].
Proof.
  intros nl c H1 H2. unfold convert, unicode_escape.
  assert (Hn : no_raw_breaks [92; c] = true).
  { cbn [no_raw_breaks forallb]. assert ((c =? 10) = false) as -> by (apply N.eqb_neq; lia).
    assert ((c =? 13) = false) as -> by (apply N.eqb_neq; lia). reflexivity. }
  rewrite (pre_no_breaks nl _ Hn). unfold protect. cbn [protect_go N.eqb Pos.eqb].
  assert ((128 <=? c) = true) as -> by (apply N.leb_le; exact H1).
  unfold bsr. cbn [flat_map]. rewrite !bsr_char_ascii by lia. rewrite app_nil_r. cbn [app].
  change (92 :: 92 :: bsr_char c) with ([92; 92] ++ bsr_char c). rewrite ufeed_app.
  change (ufeed UNormal [92; 92]) with (@inl _ uerr (UNormal, [92])). cbv beta iota.
  rewrite (bsr_char_ok c H1 H2). cbn [ufinish app]. reflexivity.
Qed.
