(* Lemmas about Model/Frames.v (C29, C37, C38). *)
From Coq Require Import List NArith Bool Lia.
Import ListNotations.
From JV Require Import Model.Frames.

Lemma region_eqb_eq a b : region_eqb a b = true <-> a = b.
Proof.
  split.
  - destruct a, b; cbn; intros H; try reflexivity; try discriminate. apply N.eqb_eq in H. now subst.
  - intros <-. destruct a; cbn; try reflexivity. apply N.eqb_refl.
Qed.

Lemma loc_eqb_eq a b : loc_eqb a b = true <-> a = b.
Proof.
  unfold loc_eqb. destruct a as [r n], b as [r' n']. cbn [fst snd]. rewrite andb_true_iff, region_eqb_eq, N.eqb_eq.
  split; [intros [-> ->]; reflexivity|intros H; injection H as -> ->; split; reflexivity].
Qed.

Definition agree (P : loc -> bool) (h1 h2 : heap) : Prop := forall l, P l = true -> h1 l = h2 l.
Definition depends_on {A} (P : loc -> bool) (f : heap -> A) : Prop := forall h1 h2, agree P h1 h2 -> f h1 = f h2.

(* ---- a step leaves alone every location outside its write footprint *)
Lemma apply_step_unwritten (P : region -> bool) s : forall h l,
  writes_only P s = true -> P (fst l) = false -> apply_step h s l = h l.
Proof.
  unfold apply_step. induction s as [|w s IH]; intros h l W N; cbn [fold_left]; [reflexivity|].
  cbn [writes_only forallb] in W. apply andb_true_iff in W as [W1 W2].
  rewrite (IH _ _ W2 N). unfold apply_wr, upd.
  destruct (loc_eqb l (fst w)) eqn:E; [|reflexivity].
  apply loc_eqb_eq in E. rewrite E in N. unfold wr, loc in *. congruence.
Qed.

Lemma run_unwritten (P : region -> bool) steps : forall h l,
  Forall (fun s => writes_only P s = true) steps -> P (fst l) = false -> run h steps l = h l.
Proof.
  unfold run. induction steps as [|s r IH]; intros h l A N; cbn [fold_left]; [reflexivity|].
  inversion A as [|? ? Hs Hr]; subst. rewrite (IH _ _ Hr N). exact (apply_step_unwritten P s h l Hs N).
Qed.

Lemma Forall_firstn {A} (Q : A -> Prop) k : forall l, Forall Q l -> Forall Q (firstn k l).
Proof.
  induction k as [|k IH]; intros [|x l] H; cbn; try constructor.
  - now inversion H.
  - apply IH. now inversion H.
Qed.

(* ---- steps whose written values depend only on P-locations preserve agreement on P *)
Definition step_reads (P : loc -> bool) (s : step) : Prop := Forall (fun w => depends_on P (snd w)) s.

Lemma apply_step_agree P s : forall h1 h2,
  step_reads P s -> agree P h1 h2 -> agree P (apply_step h1 s) (apply_step h2 s).
Proof.
  unfold apply_step. induction s as [|w s IH]; intros h1 h2 R A; cbn [fold_left]; [exact A|].
  inversion R as [|? ? Rw Rs]; subst. apply IH; [exact Rs|].
  intros l Hl. unfold apply_wr, upd. rewrite (Rw h1 h2 A).
  destruct (loc_eqb l (fst w)); [reflexivity|exact (A l Hl)].
Qed.

Lemma run_agree P steps : forall h1 h2,
  Forall (step_reads P) steps -> agree P h1 h2 -> agree P (run h1 steps) (run h2 steps).
Proof.
  unfold run. induction steps as [|s r IH]; intros h1 h2 R A; cbn [fold_left]; [exact A|].
  inversion R as [|? ? Rs Rr]; subst. apply IH; [exact Rr|]. exact (apply_step_agree P s h1 h2 Rs A).
Qed.

(* ---- a render that writes only its own region, cut short after k steps by an exception,
        leaves every location visible to another render as it was *)
Lemma aborted_render_invisible rid rid' steps k h :
  rid <> rid' -> Forall (fun s => writes_only (is_per_render rid) s = true) steps ->
  agree (visible rid') (run h (firstn k steps)) h.
Proof.
  intros Ne W l V. apply (run_unwritten (is_per_render rid)); [now apply Forall_firstn|].
  unfold visible in V. destruct (fst l) as [| | | | |n]; cbn in *; try reflexivity.
  apply N.eqb_eq in V. subst n. apply N.eqb_neq. congruence.
Qed.

(* the next render (id rid') computes what it would have computed had the failed one never run *)
Lemma next_render_unaffected {A} rid rid' steps1 k steps2 (out2 : heap -> A) h :
  rid <> rid' -> Forall (fun s => writes_only (is_per_render rid) s = true) steps1 ->
  Forall (step_reads (visible rid')) steps2 -> depends_on (visible rid') out2 ->
  out2 (run (run h (firstn k steps1)) steps2) = out2 (run h steps2).
Proof.
  intros Ne W R D. apply D. apply run_agree; [exact R|].
  exact (aborted_render_invisible rid rid' steps1 k h Ne W).
Qed.
