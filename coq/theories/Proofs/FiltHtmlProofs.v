(* C24 — lemmas about Model/FiltHtml.v. *)
From Coq Require Import List NArith ZArith Bool Lia.
Import ListNotations.
From JV Require Import Model.FiltStr Model.FiltHtml.
Ltac Zify.zify_post_hook ::= Z.to_euclidean_division_equations.

(* no less-than, greater-than, double or single quote *)
Definition clean (c : N) : Prop := c <> 60%N /\ c <> 62%N /\ c <> 34%N /\ c <> 39%N.
Definition Clean (s : str) : Prop := Forall clean s.

Ltac clean_const := repeat constructor; unfold clean; repeat split; discriminate.

Lemma esc1_clean c : Clean (esc1 c).
Proof.
  unfold esc1.
  destruct (N.eqb_spec c 38); [clean_const|]. destruct (N.eqb_spec c 60); [clean_const|].
  destruct (N.eqb_spec c 62); [clean_const|]. destruct (N.eqb_spec c 39); [clean_const|].
  destruct (N.eqb_spec c 34); [clean_const|]. constructor; [|constructor]. unfold clean. tauto.
Qed.

Lemma Forall_flat_map {X Y} (P : Y -> Prop) (f : X -> list Y) l :
  (forall x, Forall P (f x)) -> Forall P (flat_map f l).
Proof. intros H. induction l as [|x r IH]; cbn [flat_map]; [constructor|]. apply Forall_app. auto. Qed.

Lemma escape_clean s : Clean (escape s).
Proof. apply Forall_flat_map. exact esc1_clean. Qed.

Lemma escape_t_clean s : Clean (escape_t (Plain s)).
Proof. exact (escape_clean s). Qed.

(* ------------------------------------------------------------------ tojson *)
Definition enc1 (c : N) : str :=
  if (c =? 60)%N then u003c else if (c =? 62)%N then u003e else if (c =? 38)%N then u0026
  else if (c =? 39)%N then u0027 else [c].

Lemma replace4_app a b : replace4 (a ++ b) = replace4 a ++ replace4 b.
Proof. unfold replace4, replace_char. now rewrite !flat_map_app. Qed.

Lemma replace4_one c : replace4 [c] = enc1 c.
Proof.
  unfold enc1.
  destruct (N.eqb_spec c 60) as [->|H60]; [reflexivity|].
  destruct (N.eqb_spec c 62) as [->|H62]; [reflexivity|].
  destruct (N.eqb_spec c 38) as [->|H38]; [reflexivity|].
  destruct (N.eqb_spec c 39) as [->|H39]; [reflexivity|].
  unfold replace4, replace_char. cbn [flat_map app].
  apply N.eqb_neq in H60, H62, H38, H39.
  rewrite H60. cbn [flat_map app]. rewrite H62. cbn [flat_map app]. rewrite H38. cbn [flat_map app].
  rewrite H39. reflexivity.
Qed.

Lemma replace4_flat s : replace4 s = flat_map enc1 s.
Proof.
  induction s as [|c r IH]; [reflexivity|].
  change (c :: r) with ([c] ++ r). rewrite replace4_app, replace4_one, IH. reflexivity.
Qed.

Lemma enc1_no_meta c : forallb (fun x => negb (is_meta x)) (enc1 c) = true.
Proof.
  unfold enc1.
  destruct (N.eqb_spec c 60); [reflexivity|]. destruct (N.eqb_spec c 62); [reflexivity|].
  destruct (N.eqb_spec c 38); [reflexivity|]. destruct (N.eqb_spec c 39); [reflexivity|].
  cbn [forallb]. unfold is_meta.
  apply N.eqb_neq in n, n0, n1, n2. now rewrite n, n0, n1, n2.
Qed.

Lemma replace4_no_meta s : forallb (fun x => negb (is_meta x)) (replace4 s) = true.
Proof.
  rewrite replace4_flat. induction s as [|c r IH]; [reflexivity|].
  cbn [flat_map]. rewrite forallb_app, enc1_no_meta, IH. reflexivity.
Qed.

Lemma enc1_id c : is_meta c = false -> enc1 c = [c].
Proof.
  unfold is_meta, enc1. intros H. apply orb_false_elim in H. destruct H as [H H39].
  apply orb_false_elim in H. destruct H as [H H38]. apply orb_false_elim in H. destruct H as [H60 H62].
  now rewrite H60, H62, H38, H39.
Qed.

Lemma flat_enc1_id s : forallb (fun c => negb (is_meta c)) s = true -> flat_map enc1 s = s.
Proof.
  induction s as [|c r IH]; [reflexivity|]. cbn [forallb flat_map]. intros H.
  apply andb_prop in H. destruct H as [Hc Hr]. apply negb_true_iff in Hc.
  rewrite (enc1_id c Hc), (IH Hr). reflexivity.
Qed.

Lemma hexchar_not_meta d : (d < 16)%N -> is_meta (hexchar d) = false.
Proof.
  intros H. unfold hexchar, is_meta. destruct (N.ltb_spec d 10);
    repeat (apply orb_false_intro); apply N.eqb_neq; lia.
Qed.

Lemma protect_item_render i : item_wf i = true ->
  flat_map enc1 (render_item i) = render_item (protect_item i).
Proof.
  destruct i as [c|c|a b c d]; cbn [item_wf render_item protect_item]; intros H.
  - cbn [flat_map]. rewrite app_nil_r. unfold enc1, is_meta.
    destruct (N.eqb_spec c 60) as [->|]; [reflexivity|]. destruct (N.eqb_spec c 62) as [->|]; [reflexivity|].
    destruct (N.eqb_spec c 38) as [->|]; [reflexivity|]. destruct (N.eqb_spec c 39) as [->|]; reflexivity.
  - apply flat_enc1_id. cbn [forallb]. rewrite andb_true_r.
    repeat (apply orb_prop in H; destruct H as [H|H]); try (apply N.eqb_eq in H; subst c; reflexivity).
  - apply flat_enc1_id.
    apply andb_prop in H. destruct H as [H Hd]. apply andb_prop in H. destruct H as [H Hc].
    apply andb_prop in H. destruct H as [Ha Hb]. apply N.ltb_lt in Ha, Hb, Hc, Hd.
    cbn [forallb]. now rewrite !hexchar_not_meta by assumption.
Qed.

Lemma protect_item_decode i : decode_item (protect_item i) = decode_item i.
Proof.
  destruct i as [c|c|a b c d]; cbn [protect_item]; try reflexivity.
  destruct (is_meta c); [|reflexivity]. cbn [decode_item]. lia.
Qed.

Lemma protect_tok_render t : tok_wf t = true -> replace4 (render_tok t) = render_tok (protect_tok t).
Proof.
  rewrite replace4_flat. destruct t as [s|its]; cbn [tok_wf render_tok protect_tok]; intros H.
  - now apply flat_enc1_id.
  - cbn [flat_map]. rewrite flat_map_app. cbn [flat_map app].
    replace (enc1 34) with [34%N] by reflexivity. cbn [app]. f_equal. f_equal.
    induction its as [|i r IH]; [reflexivity|]. cbn [forallb] in H. apply andb_prop in H. destruct H as [Hi Hr].
    cbn [flat_map map]. rewrite flat_map_app, (protect_item_render i Hi), (IH Hr). reflexivity.
Qed.

Lemma protect_doc_render d : forallb tok_wf d = true ->
  replace4 (render_doc d) = render_doc (map protect_tok d).
Proof.
  unfold render_doc. induction d as [|t r IH]; [reflexivity|]. cbn [forallb flat_map map]. intros H.
  apply andb_prop in H. destruct H as [Ht Hr]. rewrite replace4_app, (protect_tok_render t Ht), (IH Hr). reflexivity.
Qed.

Lemma protect_doc_decode d : map decode_tok (map protect_tok d) = map decode_tok d.
Proof.
  rewrite map_map. apply map_ext. intros [s|its]; cbn [protect_tok decode_tok]; [reflexivity|].
  f_equal. rewrite map_map. apply map_ext. intros i. now rewrite protect_item_decode.
Qed.

(* ------------------------------------------------------------------ xmlattr *)
Definition key_ok (c : N) : Prop := clean c /\ bad_key_char c = false.

Lemma esc1_key_ok c : bad_key_char c = false -> Forall key_ok (esc1 c).
Proof.
  intros H. unfold esc1.
  destruct (N.eqb_spec c 38); [repeat constructor; unfold clean; repeat split; discriminate|].
  destruct (N.eqb_spec c 60); [repeat constructor; unfold clean; repeat split; discriminate|].
  destruct (N.eqb_spec c 62); [repeat constructor; unfold clean; repeat split; discriminate|].
  destruct (N.eqb_spec c 39); [repeat constructor; unfold clean; repeat split; discriminate|].
  destruct (N.eqb_spec c 34); [repeat constructor; unfold clean; repeat split; discriminate|].
  constructor; [|constructor]. split; [unfold clean; tauto|exact H].
Qed.

Lemma escape_key_ok k : existsb bad_key_char k = false -> Forall key_ok (escape k).
Proof.
  induction k as [|c r IH]; cbn [existsb escape flat_map]; [constructor|]. intros H.
  apply orb_false_elim in H. destruct H as [Hc Hr]. apply Forall_app. split; [now apply esc1_key_ok|now apply IH].
Qed.

Definition attr_shape (t : str) : Prop :=
  exists k v, t = k ++ [61; 34]%N ++ v ++ [34%N] /\ Forall key_ok k /\ Clean v.

Definition plain_or_clean (v : tstr) : Prop := match v with Plain _ => True | Mk s => Clean s end.

Lemma xmlattr_items_shape d : forall items,
  Forall (fun kv => match snd kv with Some v => plain_or_clean v | None => True end) d ->
  xmlattr_items d = Some items -> Forall attr_shape items.
Proof.
  induction d as [|[k [v|]] r IH]; intros items Hd H; cbn [xmlattr_items] in H.
  - injection H as <-. constructor.
  - inversion Hd as [|? ? Hv Hr]; subst. destruct (existsb bad_key_char k) eqn:E; [discriminate|].
    destruct (xmlattr_items r) as [l|]; [|discriminate]. injection H as <-.
    constructor; [|now apply IH]. exists (escape k), (escape_t v). split; [reflexivity|].
    split; [now apply escape_key_ok|]. destruct v; [apply escape_clean|exact Hv].
  - inversion Hd; subst. now apply IH.
Qed.

(* ------------------------------------------------------------------ urlize *)
Lemma Forall_firstn' {X} (P : X -> Prop) n (l : list X) : Forall P l -> Forall P (firstn n l).
Proof.
  intros H. rewrite <- (firstn_skipn n l) in H. apply Forall_app in H. tauto.
Qed.

Lemma Forall_flat_map_in {X Y} (P : Y -> Prop) (f : X -> list Y) l :
  (forall x, In x l -> Forall P (f x)) -> Forall P (flat_map f l).
Proof.
  induction l as [|x r IH]; intros H; cbn [flat_map]; [constructor|].
  apply Forall_app. split; [apply H; now left|apply IH; intros y Hy; apply H; now right].
Qed.

Lemma split_runs_forall (P : N -> Prop) : forall s cur b,
  Forall P s -> Forall P cur -> Forall (Forall P) (split_runs cur b s).
Proof.
  induction s as [|c r IH]; intros cur b Hs Hc; cbn [split_runs].
  - constructor; [now apply Forall_rev|constructor].
  - inversion Hs; subst. destruct (Bool.eqb (is_ws c) b).
    + apply IH; [assumption|now constructor].
    + constructor; [now apply Forall_rev|]. apply IH; [assumption|repeat constructor; assumption].
Qed.

Lemma split_runs_homog : forall s cur b,
  Forall (fun c => is_ws c = b) cur ->
  Forall (fun w => Forall (fun c => is_ws c = true) w \/ Forall (fun c => is_ws c = false) w) (split_runs cur b s).
Proof.
  induction s as [|c r IH]; intros cur b Hc; cbn [split_runs].
  - constructor; [|constructor]. destruct b; [left|right]; now apply Forall_rev.
  - destruct (Bool.eqb (is_ws c) b) eqn:E.
    + apply IH. constructor; [now apply Bool.eqb_prop|assumption].
    + constructor; [destruct b; [left|right]; now apply Forall_rev|]. apply IH. repeat constructor.
Qed.

Section Urlize.
  Variable http_match email_match extra_match other_guards : str -> bool.
  Variable split3 : str -> str * str * str.
  Variable trim_limit : option nat.
  (* the punctuation trimming only cuts the word in three *)
  Hypothesis split3_law : forall w, let '(h, m, t) := split3 w in h ++ m ++ t = w.

  Definition noWs (s : str) : Prop := Forall (fun c => is_ws c = false) s.
  Definition piece_ok (rel target : option tstr) (p : piece) : Prop :=
    match p with
    | Text s => Clean s
    | Anchor h a t => Clean h /\ Clean t /\ (a = [] \/ a = attrs_of rel target)
    end.
  Definition href_nows (p : piece) : Prop := match p with Text _ => True | Anchor h _ _ => noWs h end.

  Lemma trim_url_clean x : Clean x -> Clean (trim_url trim_limit x).
  Proof.
    intros H. unfold trim_url. destruct trim_limit as [n|]; [|exact H].
    destruct (Nat.ltb n (length (unescape5 x))); [|exact H]. apply Forall_app. split; [apply escape_clean|clean_const].
  Qed.

  Lemma link_ok rel target m : Clean m ->
    piece_ok rel target (link http_match email_match extra_match other_guards trim_limit rel target m).
  Proof.
    intros Hm. unfold link.
    assert (Hs : Clean (s_https ++ m)) by (apply Forall_app; split; [clean_const|exact Hm]).
    assert (Hmt : Clean (s_mailto ++ m)) by (apply Forall_app; split; [clean_const|exact Hm]).
    assert (H7 : Clean (skipn 7 m)).
    { unfold Clean. rewrite <- (firstn_skipn 7 m) in Hm. apply Forall_app in Hm. tauto. }
    destruct (http_match m).
    - destruct (starts_with s_https m || starts_with s_http m); cbn [piece_ok];
        (split; [assumption|split; [now apply trim_url_clean|now right]]).
    - destruct (starts_with s_mailto m && email_match (skipn 7 m)); [cbn; auto|].
      destruct (other_guards m && email_match m); [cbn; auto|].
      destruct (extra_match m); [cbn; auto|exact Hm].
  Qed.

  Lemma link_nows rel target m : noWs m ->
    href_nows (link http_match email_match extra_match other_guards trim_limit rel target m).
  Proof.
    intros Hm. unfold link.
    assert (Hs : noWs (s_https ++ m)) by (apply Forall_app; split; [repeat constructor|exact Hm]).
    assert (Hmt : noWs (s_mailto ++ m)) by (apply Forall_app; split; [repeat constructor|exact Hm]).
    destruct (http_match m).
    - destruct (starts_with s_https m || starts_with s_http m); cbn [href_nows]; assumption.
    - destruct (starts_with s_mailto m && email_match (skipn 7 m)); [exact Hm|].
      destruct (other_guards m && email_match m); [exact Hmt|].
      destruct (extra_match m); [exact Hm|exact I].
  Qed.

  Lemma word_pieces_ok rel target w : Clean w ->
    Forall (piece_ok rel target) (urlize_word http_match email_match extra_match other_guards split3 trim_limit rel target w).
  Proof.
    intros Hw. unfold urlize_word. pose proof (split3_law w) as L. destruct (split3 w) as [[h m] t].
    rewrite <- L in Hw. apply Forall_app in Hw. destruct Hw as [Hh Hw]. apply Forall_app in Hw. destruct Hw as [Hm Ht].
    repeat constructor; try assumption. now apply link_ok.
  Qed.

  Lemma word_pieces_nows rel target w : noWs w ->
    Forall href_nows (urlize_word http_match email_match extra_match other_guards split3 trim_limit rel target w).
  Proof.
    intros Hw. unfold urlize_word. pose proof (split3_law w) as L. destruct (split3 w) as [[h m] t].
    rewrite <- L in Hw. apply Forall_app in Hw. destruct Hw as [Hh Hw]. apply Forall_app in Hw. destruct Hw as [Hm Ht].
    repeat constructor. now apply link_nows.
  Qed.

  Lemma urlize_pieces_ok s rel target :
    Forall (piece_ok rel target)
           (urlize_pieces http_match email_match extra_match other_guards split3 trim_limit (Plain s) rel target).
  Proof.
    unfold urlize_pieces. apply Forall_flat_map_in.
    pose proof (split_runs_forall clean (escape_t (Plain s)) [] false (escape_clean s) (Forall_nil _)) as Hw.
    fold (words_of (escape_t (Plain s))) in Hw. rewrite Forall_forall in Hw.
    intros w Hin. apply word_pieces_ok. exact (Hw w Hin).
  Qed.

  (* whitespace runs are never linked by the real regexes; for every behaviour of the oracles
     on the other words, hrefs contain no whitespace *)
  Hypothesis ws_not_linked : forall m, Forall (fun c => is_ws c = true) m ->
    http_match m = false /\ email_match m = false /\ email_match (skipn 7 m) = false /\ extra_match m = false.

  Lemma ws_sub (h m t : str) : Forall (fun c => is_ws c = true) (h ++ m ++ t) -> Forall (fun c => is_ws c = true) m.
  Proof. intros H. apply Forall_app in H. destruct H as [_ H]. apply Forall_app in H. tauto. Qed.

  Lemma urlize_pieces_nows s rel target :
    Forall href_nows
           (urlize_pieces http_match email_match extra_match other_guards split3 trim_limit (Plain s) rel target).
  Proof.
    unfold urlize_pieces. apply Forall_flat_map_in.
    pose proof (split_runs_homog (escape_t (Plain s)) [] false (Forall_nil _)) as Hw.
    fold (words_of (escape_t (Plain s))) in Hw. rewrite Forall_forall in Hw.
    intros w Hin. destruct (Hw w Hin) as [Hws|Hnw]; [|now apply word_pieces_nows].
    unfold urlize_word. pose proof (split3_law w) as L. destruct (split3 w) as [[h m] t].
    rewrite <- L in Hws. apply ws_sub in Hws. destruct (ws_not_linked m Hws) as (A & B & C & D).
    repeat constructor. unfold link. rewrite A, B, C, D. rewrite !andb_false_r. exact I.
  Qed.
End Urlize.
