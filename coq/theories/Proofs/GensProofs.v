(* Lemmas for C36 (Model/Gens.v). *)
From Coq Require Import List NArith Bool Arith Lia.
Import ListNotations.
From JV Require Import Model.Gens.

Definition all_ok (l : list (ptkind * path)) : Prop := Forall (fun kp => path_ok (snd kp) = true) l.

Lemma all_ok_app a b : all_ok a -> all_ok b -> all_ok (a ++ b).
Proof. unfold all_ok. intros. apply Forall_app. now split. Qed.

Lemma path_ok_add_side g p : g = true -> path_ok p = true -> path_ok (add_side g p) = true.
Proof.
  intros -> H. destruct p as [|f r]; [reflexivity|]. cbn in *.
  apply andb_true_iff in H as [Hf Hr]. unfold frame_ok in *. cbn. rewrite Hr. 
  apply andb_true_iff in Hf as [H1 H2]. now rewrite H1, H2.
Qed.

(* every configuration reached inside a guarded tree, started from a guarded path, is guarded:
   the live generators are exactly the creation sites on the way to the current item *)
Lemma points_item_ok : forall i p, guarded_item i = true -> path_ok p = true -> all_ok (points_item p i).
Proof.
  fix IH 1. intros i p G P. destruct i as [| | |g c|g b|c]; cbn [points_item].
  - repeat constructor. exact P.
  - repeat constructor. exact P.
  - repeat constructor. exact P.
  - cbn [guarded_item] in G. apply andb_true_iff in G as [Hg Hc]. subst g.
    induction c as [|x r IHr]; [constructor|].
    apply andb_true_iff in Hc as [Hx Hr]. apply all_ok_app.
    + apply IH; [exact Hx|]. unfold path_ok in *. cbn [forallb frame_ok link sides andb]. exact P.
    + exact (IHr Hr).
  - cbn [guarded_item] in G. apply andb_true_iff in G as [Hg Hb]. subst g.
    induction b as [|x r IHr]; [constructor|].
    apply andb_true_iff in Hb as [Hx Hr]. apply all_ok_app.
    + apply IH; [exact Hx|]. now apply path_ok_add_side.
    + exact (IHr Hr).
  - cbn [guarded_item] in G. unfold all_ok. rewrite Forall_map. cbn [snd].
    induction c as [|x r IHr]; [constructor|].
    apply andb_true_iff in G as [Hx Hr]. apply Forall_app. split.
    + apply IH; [exact Hx|]. unfold path_ok in *. cbn [forallb frame_ok link sides andb]. exact P.
    + exact (IHr Hr).
Qed.

Lemma points_ok t : forall p, all_guarded t = true -> path_ok p = true -> all_ok (points p t).
Proof.
  induction t as [|x r IH]; intros p G P; [constructor|].
  cbn in G. apply andb_true_iff in G as [Hx Hr]. unfold points. cbn [flat_map].
  apply all_ok_app; [now apply points_item_ok|exact (IH p Hr P)].
Qed.

Lemma count_false_all_true l : forallb (fun b => b) l = true -> count_false l = 0.
Proof.
  unfold count_false. induction l as [|b l IH]; [reflexivity|]. cbn. intros H.
  apply andb_true_iff in H as [-> H]. cbn. exact (IH H).
Qed.

Lemma leak_up_ok p : path_ok p = true -> leak_up p = 0.
Proof.
  induction p as [|f r IH]; [reflexivity|]. intros H. cbn [path_ok forallb] in H. apply andb_true_iff in H as [Hf Hr].
  unfold frame_ok in Hf. apply andb_true_iff in Hf as [_ Hs].
  change (leak_up (f :: r)) with (count_false (sides f) + leak_up r).
  rewrite (count_false_all_true _ Hs), (IH Hr). reflexivity.
Qed.

Lemma leak_down_ok l : forallb frame_ok l = true -> leak_down l = 0.
Proof.
  induction l as [|f r IH]; [reflexivity|]. intros H. cbn [forallb] in H. apply andb_true_iff in H as [Hf Hr].
  cbn [leak_down]. unfold frame_ok in Hf. apply andb_true_iff in Hf as [_ Hs]. rewrite (count_false_all_true _ Hs).
  destruct r as [|c r']; [reflexivity|].
  assert (Hc : link c = true).
  { cbn [forallb] in Hr. apply andb_true_iff in Hr as [Hc _]. unfold frame_ok in Hc. now apply andb_true_iff in Hc as [Hc _]. }
  rewrite Hc. exact (IH Hr).
Qed.

Lemma path_ok_rev p : path_ok p = true -> forallb frame_ok (rev p) = true.
Proof.
  unfold path_ok. rewrite !forallb_forall. intros H x Hx. apply H. now apply in_rev.
Qed.

Lemma nth_error_all_ok l k kp : all_ok l -> nth_error l k = Some kp -> path_ok (snd kp) = true.
Proof.
  intros A N. unfold all_ok in A. rewrite Forall_forall in A. apply A. exact (nth_error_In _ _ N).
Qed.

Lemma all_ok_filter f l : all_ok l -> all_ok (filter f l).
Proof.
  unfold all_ok. rewrite !Forall_forall. intros H x Hx. apply filter_In in Hx as [Hx _]. now apply H.
Qed.

(* main theorem *)
Lemma all_guarded_no_leak t top o :
  all_guarded t = true -> path_ok top = true -> leaked top t o = 0.
Proof.
  intros G P. pose proof (points_ok t top G P) as A. destruct o as [|k|k|k]; cbn [leaked]; [reflexivity| | |].
  - destruct (nth_error (points top t) k) as [kp|] eqn:E; [|reflexivity].
    apply leak_up_ok. exact (nth_error_all_ok _ _ _ A E).
  - destruct (nth_error (filter (is_kind PEmit) (points top t)) k) as [kp|] eqn:E; [|reflexivity].
    apply leak_down_ok, path_ok_rev. exact (nth_error_all_ok _ _ _ (all_ok_filter _ _ A) E).
  - destruct (nth_error (filter (is_kind PAwait) (points top t)) k) as [kp|] eqn:E; [|reflexivity].
    apply leak_up_ok. exact (nth_error_all_ok _ _ _ (all_ok_filter _ _ A) E).
Qed.

(* an up-going exception never depends on the re-yield guards: only element-yielding children
   (loop filters) can be left behind by it *)
Lemma leak_up_links p q :
  map sides p = map sides q -> leak_up p = leak_up q.
Proof.
  revert q. induction p as [|f r IH]; intros [|g s] H; cbn in H; try discriminate; [reflexivity|].
  injection H as H1 H2. change (count_false (sides f) + leak_up r = count_false (sides g) + leak_up s).
  now rewrite H1, (IH s H2).
Qed.

(* all_guarded is exactly "every creation-site guard of the tree is true" *)
Lemma guarded_item_guards : forall i, guarded_item i = forallb (fun b => b) (guards_item i).
Proof.
  fix IH 1. intros i. destruct i as [| | |g c|g b|c]; cbn [guarded_item guards_item forallb]; try reflexivity.
  - f_equal. induction c as [|x r IHr]; [reflexivity|]. rewrite forallb_app, <- IHr, <- IH. reflexivity.
  - f_equal. induction b as [|x r IHr]; [reflexivity|]. rewrite forallb_app, <- IHr, <- IH. reflexivity.
  - induction c as [|x r IHr]; [reflexivity|]. rewrite forallb_app, <- IHr, <- IH. reflexivity.
Qed.

Lemma all_guarded_guards t : all_guarded t = forallb (fun b => b) (tree_guards t).
Proof.
  unfold all_guarded, tree_guards. induction t as [|x r IH]; [reflexivity|].
  cbn [forallb flat_map]. now rewrite forallb_app, <- IH, guarded_item_guards.
Qed.

(* a tree whose Sub / Side guards all come from rows of a table that satisfies the obligation *)
Lemma sites_ok_guarded (tab : list (skind * bool)) t :
  sites_ok tab = true ->
  (forall g, In g (tree_guards t) -> exists k, k <> KCollect /\ In (k, g) tab) ->
  all_guarded t = true.
Proof.
  intros T H. rewrite all_guarded_guards. apply forallb_forall. intros g Hg.
  destruct (H g Hg) as [k [Hk Hin]]. unfold sites_ok in T. rewrite forallb_forall in T.
  specialize (T _ Hin). unfold site_ok in T. cbn in T. destruct k; try exact T. congruence.
Qed.

(* when every re-yield site on the path is guarded, a consumer that stops leaves open exactly
   what an up-going exception leaves open: the unguarded element-yielding children *)
Lemma leak_down_links_true l : forallb link l = true -> leak_down l = leak_up l.
Proof.
  induction l as [|f r IH]; [reflexivity|]. intros H. cbn [forallb] in H. apply andb_true_iff in H as [_ Hr].
  change (leak_up (f :: r)) with (count_false (sides f) + leak_up r). cbn [leak_down].
  destruct r as [|c r']; [reflexivity|].
  assert (Hc : link c = true) by (cbn [forallb] in Hr; now apply andb_true_iff in Hr as [Hc _]).
  rewrite Hc. now rewrite (IH Hr).
Qed.

Lemma leak_up_count p : leak_up p = length (filter negb (flat_map sides p)).
Proof.
  induction p as [|f r IH]; [reflexivity|].
  change (leak_up (f :: r)) with (count_false (sides f) + leak_up r). cbn [flat_map].
  rewrite filter_app, app_length, <- IH. reflexivity.
Qed.
