(* C03 — alpha invariance of the reference interpreter on the proved fragment: renaming the
   template's variables (and the render arguments) by an injective function that fixes the two
   reserved names the semantics mentions (loop, namespace) renames the scopes and nothing else. *)
From Coq Require Import List NArith ZArith Bool Arith Lia.
Import ListNotations.
From JV Require Import Model.ScopeAst Model.ScopeIdTrack Model.ScopeGuards Model.ScopeFrameExec Spec.ScopeSpecStmt
  Proofs.ScopeDictProofs Proofs.ScopeC03Proofs.

Lemma core2_go_alpha : forall l, (fix go (l : list stmt) : bool := match l with [] => true | x :: r => core2_stmt x && go r end) l = core2_prog l.
Proof. induction l as [|x r IH]; cbn; [reflexivity|rewrite IH; reflexivity]. Qed.

Section Alpha.
  Variable rho : name -> name.
  Hypothesis rho_inj : forall x y, rho x = rho y -> x = y.
  Hypothesis rho_loop : rho n_loop = n_loop.
  Hypothesis rho_ns : rho n_namespace = n_namespace.

  Fixpoint rexpr (e : expr) : expr :=
    match e with
    | EName x => EName (rho x)
    | EInt z => EInt z
    | EStr s => EStr s
    | ECat a b => ECat (rexpr a) (rexpr b)
    | EAdd a b => EAdd (rexpr a) (rexpr b)
    | EAttr x a => EAttr (rho x) a
    end.
  Fixpoint rstmt (s : stmt) : stmt :=
    let fix go (l : list stmt) : list stmt := match l with [] => [] | x :: r => rstmt x :: go r end in
    match s with
    | SOut es => SOut (map rexpr es)
    | SIf t b ei el => SIf (rexpr t) (go b) (go ei) (go el)
    | SFor tg it te b el => SFor (rho tg) (rexpr it) (option_map rexpr te) (go b) (go el)
    | SSet x e => SSet (rho x) (rexpr e)
    | SSetAttr x a e => SSetAttr (rho x) a (rexpr e)
    | SNsNew x kvs => SNsNew (rho x) (map (fun ae => (fst ae, rexpr (snd ae))) kvs)
    | SSetBlock x b => SSetBlock (rho x) (go b)
    | SWith bs b => SWith (map (fun xe => (rho (fst xe), rexpr (snd xe))) bs) (go b)
    | SFilter k b => SFilter k (go b)
    | SMacro m ps b => SMacro (rho m) (map rho ps) (go b)
    | SCallOut g args => SCallOut (rho g) (map rexpr args)
    | SCallBlock ps g args b => SCallBlock (map rho ps) (rho g) (map rexpr args) (go b)
    end.
  Fixpoint rprog (l : list stmt) : list stmt := match l with [] => [] | x :: r => rstmt x :: rprog r end.
  Lemma rgo : forall l, (fix go (l : list stmt) : list stmt := match l with [] => [] | x :: r => rstmt x :: go r end) l = rprog l.
  Proof. induction l as [|x r IH]; cbn; [reflexivity|rewrite IH; reflexivity]. Qed.

  Definition rscope (sc : scope) : scope := map (fun xv => (rho (fst xv), snd xv)) sc.
  Definition rstate (ss : sstate) : sstate := mkS (map rscope (s_scopes ss)) (s_heap ss).
  Definition rres (r : res (sstate * str)) : res (sstate * str) :=
    match r with Ok (ss, o) => Ok (rstate ss, o) | Err e => Err e end.

  Lemma dget_r : forall x (sc : scope), dget N.eqb (rho x) (rscope sc) = dget N.eqb x sc.
  Proof.
    intros x sc. unfold rscope. induction sc as [|[k v] r IH]; cbn; [reflexivity|].
    destruct (N.eqb_spec x k) as [->|Hne]; [rewrite N.eqb_refl; reflexivity|].
    destruct (N.eqb_spec (rho x) (rho k)) as [E|_]; [apply rho_inj in E; contradiction|exact IH].
  Qed.
  Lemma dset_r : forall x v (sc : scope), rscope (dset N.eqb x v sc) = dset N.eqb (rho x) v (rscope sc).
  Proof.
    intros x v sc. unfold rscope. induction sc as [|[k w] r IH]; cbn; [reflexivity|].
    destruct (N.eqb_spec x k) as [->|Hne]; [rewrite N.eqb_refl; reflexivity|].
    destruct (N.eqb_spec (rho x) (rho k)) as [E|_]; [apply rho_inj in E; contradiction|]. cbn. rewrite IH. reflexivity.
  Qed.
  Lemma nth_r : forall i (scopes : list scope), nth i (map rscope scopes) [] = rscope (nth i scopes []).
  Proof. intros i scopes. change (@nil (name * value)) with (rscope []) at 1. apply map_nth. Qed.
  Lemma lookup_r : forall env (scopes : list scope) x, lookup_env (map rscope scopes) env (rho x) = lookup_env scopes env x.
  Proof.
    induction env as [|i E IH]; intros scopes x; cbn [lookup_env]; [reflexivity|].
    rewrite nth_r, dget_r, IH. reflexivity.
  Qed.

  Variable d : list (name * value).
  Definition rd : list (name * value) := rscope d.

  Lemma slk_r : forall env ss x, slk rd env (rstate ss) (rho x) = slk d env ss x.
  Proof.
    intros env ss x. unfold slk, rstate, rd; cbn [s_scopes]. rewrite lookup_r, dget_r.
    destruct (lookup_env (s_scopes ss) env x); [reflexivity|]. destruct (dget N.eqb x d); [reflexivity|].
    unfold spec_globals. cbn [dget].
    destruct (N.eqb_spec x n_namespace) as [->|Hne]; [rewrite rho_ns, N.eqb_refl; reflexivity|].
    destruct (N.eqb_spec (rho x) n_namespace) as [E|_]; [rewrite <- rho_ns in E; apply rho_inj in E; contradiction|reflexivity].
  Qed.
  Lemma eval_r : forall env ss h e, eval (slk rd env (rstate ss)) h (rexpr e) = eval (slk d env ss) h e.
  Proof.
    intros env ss h e. induction e; cbn [eval rexpr]; try reflexivity.
    - apply slk_r.
    - rewrite IHe1, IHe2. reflexivity.
    - rewrite IHe1, IHe2. reflexivity.
    - rewrite slk_r. reflexivity.
  Qed.
  Lemma eval_out_r : forall env ss h es, eval_out (slk rd env (rstate ss)) h (map rexpr es) = eval_out (slk d env ss) h es.
  Proof. intros env ss h es. induction es as [|e r IH]; cbn [eval_out map]; [reflexivity|]. rewrite eval_r, IH. reflexivity. Qed.
  Lemma eval_list_r : forall env ss h es, eval_list (slk rd env (rstate ss)) h (map rexpr es) = eval_list (slk d env ss) h es.
  Proof. intros env ss h es. induction es as [|e r IH]; cbn [eval_list map]; [reflexivity|]. rewrite eval_r, IH. reflexivity. Qed.
  Lemma eval_kvs_r : forall env ss h kvs,
    eval_kvs (slk rd env (rstate ss)) h (map (fun ae => (fst ae, rexpr (snd ae))) kvs) = eval_kvs (slk d env ss) h kvs.
  Proof. intros env ss h kvs. induction kvs as [|[a e] r IH]; cbn [eval_kvs map fst snd]; [reflexivity|]. rewrite eval_r, IH. reflexivity. Qed.

  Lemma upd_r : forall (scopes : list scope) i x v,
    map rscope (upd_scope scopes i x v) = upd_scope (map rscope scopes) i (rho x) v.
  Proof.
    induction scopes as [|s r IH]; intros [|i] x v; cbn [upd_scope map]; try reflexivity.
    - rewrite dset_r. reflexivity.
    - rewrite IH. reflexivity.
  Qed.
  Lemma sassign_r : forall env ss x v, rstate (sassign env ss x v) = sassign env (rstate ss) (rho x) v.
  Proof. intros [|i E] ss x v; unfold sassign, rstate; cbn [s_scopes s_heap]; [reflexivity|]. rewrite upd_r. reflexivity. Qed.
  Lemma new_scope_r : forall ss sc,
    new_scope (rstate ss) (rscope sc) = (fst (new_scope ss sc), rstate (snd (new_scope ss sc))).
  Proof.
    intros ss sc. unfold new_scope, rstate; cbn [fst snd s_scopes s_heap]. rewrite map_length, map_app. reflexivity.
  Qed.
  Lemma new_scope_r_nil : forall ss, new_scope (rstate ss) [] = (fst (new_scope ss []), rstate (snd (new_scope ss []))).
  Proof. intros ss. exact (new_scope_r ss []). Qed.
  Lemma heap_r : forall ss h, rstate (sset_heap ss h) = sset_heap (rstate ss) h. Proof. reflexivity. Qed.
  Lemma fold_bind_r : forall xs vs acc,
    fold_left (fun a xv => dset N.eqb (fst xv) (snd xv) a) (combine (map rho xs) vs) (rscope acc) =
    rscope (fold_left (fun a xv => dset N.eqb (fst xv) (snd xv) a) (combine xs vs) acc).
  Proof.
    induction xs as [|x r IH]; intros vs acc; [reflexivity|]. destruct vs as [|v vs]; [reflexivity|].
    cbn [map combine fold_left fst snd]. rewrite <- dset_r. apply IH.
  Qed.

  Lemma sx_r : forall fuel env ss l, core2_prog l = true ->
    sx rd fuel env (rstate ss) (rprog l) = rres (sx d fuel env ss l).
  Proof.
    induction fuel as [|f IH]; intros env ss l Hc; [reflexivity|].
    destruct l as [|s rest]; [reflexivity|].
    cbn [core2_prog] in Hc. apply andb_true_iff in Hc. destruct Hc as [Hcs Hcr].
    cbn [rprog sx].
    assert (Step : forall X X', X' = rres X ->
              (do (st1, o1) <- X'; do (st2, o2) <- sx rd f env st1 (rprog rest); Ok (st2, o1 ++ o2)) =
              rres (do (st1, o1) <- X; do (st2, o2) <- sx d f env st1 rest; Ok (st2, o1 ++ o2))).
    { intros X X' ->. destruct X as [[st1 o1]|e]; cbn [rres bind]; [|reflexivity].
      rewrite (IH env st1 rest Hcr). destruct (sx d f env st1 rest) as [[st2 o2]|e]; reflexivity. }
    apply Step. clear Step.
    destruct s as [es|t b ei el|tg it te b el|x e|x a e|x kvs|x b|bs b|k b|m ps b|g args|ps g args b]; cbn [core2_stmt] in Hcs; try discriminate; cbn [rstmt].
    - rewrite eval_out_r. cbn [s_heap rstate]. destruct (eval_out (slk d env ss) (s_heap ss) es); reflexivity.
    - rewrite !rgo. rewrite (core2_go_alpha b), (core2_go_alpha ei), (core2_go_alpha el) in Hcs.
      apply andb_true_iff in Hcs. destruct Hcs as [Hcs H3]. apply andb_true_iff in Hcs. destruct Hcs as [H1 H2].
      rewrite eval_r. cbn [s_heap rstate]. destruct (eval (slk d env ss) (s_heap ss) t) as [v|e]; cbn [bind]; [|reflexivity].
      destruct (truthy v); [apply IH; exact H1|].
      clear H1. induction ei as [|s r IHr]; cbn [rprog]; [apply IH; exact H3|].
      cbn [core2_prog] in H2. apply andb_true_iff in H2. destruct H2 as [H2a H2b].
      destruct s; cbn [rstmt]; try (apply IHr; exact H2b).
      rewrite eval_r. cbn [s_heap rstate]. destruct (eval (slk d env ss) (s_heap ss) test) as [v2|e]; cbn [bind]; [|reflexivity].
      destruct (truthy v2); [|apply IHr; exact H2b].
      rewrite rgo. apply IH. cbn [core2_stmt] in H2a. rewrite (core2_go_alpha body) in H2a.
      apply andb_true_iff in H2a. destruct H2a as [H2a _]. apply andb_true_iff in H2a. destruct H2a as [H2a _]. exact H2a.
    - rewrite !rgo. rewrite (core2_go_alpha b), (core2_go_alpha el) in Hcs. apply andb_true_iff in Hcs. destruct Hcs as [H1 H2].
      rewrite eval_r. cbn [s_heap rstate]. destruct (eval (slk d env ss) (s_heap ss) it) as [v|e]; cbn [bind]; [|reflexivity].
      destruct (iter_items v) as [items|e]; cbn [bind]; [|reflexivity].
      assert (It : forall items idx st out,
                (fix iter (items : list value) (idx : N) (st : sstate) (out : str) {struct items} : res (sstate * str * N) :=
                   match items with
                   | [] => Ok (st, out, idx)
                   | item :: more =>
                       do ok <- match option_map rexpr te with
                                | Some t => let '(i, stt) := new_scope st [(rho tg, item)] in
                                            do tv <- eval (slk rd (i :: env) stt) (s_heap stt) t; Ok (truthy tv)
                                | None => Ok true
                                end;
                       if ok then
                         let '(i, st0) := new_scope st [(rho tg, item); (n_loop, VLoop (idx + 1))] in
                         do (st1, o) <- sx rd f (i :: env) st0 (rprog b); iter more (idx + 1)%N st1 (out ++ o)
                       else iter more idx st out
                   end) items idx (rstate st) out =
                match (fix iter (items : list value) (idx : N) (st : sstate) (out : str) {struct items} : res (sstate * str * N) :=
                   match items with
                   | [] => Ok (st, out, idx)
                   | item :: more =>
                       do ok <- match te with
                                | Some t => let '(i, stt) := new_scope st [(tg, item)] in
                                            do tv <- eval (slk d (i :: env) stt) (s_heap stt) t; Ok (truthy tv)
                                | None => Ok true
                                end;
                       if ok then
                         let '(i, st0) := new_scope st [(tg, item); (n_loop, VLoop (idx + 1))] in
                         do (st1, o) <- sx d f (i :: env) st0 b; iter more (idx + 1)%N st1 (out ++ o)
                       else iter more idx st out
                   end) items idx st out with
                | Ok (st', out', n) => Ok (rstate st', out', n)
                | Err e => Err e
                end).
      { induction items0 as [|item more IHm]; intros idx st out; [reflexivity|].
        assert (Ok_eq : match option_map rexpr te with
                        | Some t => let '(i, stt) := new_scope (rstate st) [(rho tg, item)] in
                                    do tv <- eval (slk rd (i :: env) stt) (s_heap stt) t; Ok (truthy tv)
                        | None => Ok true
                        end =
                        match te with
                        | Some t => let '(i, stt) := new_scope st [(tg, item)] in
                                    do tv <- eval (slk d (i :: env) stt) (s_heap stt) t; Ok (truthy tv)
                        | None => Ok true
                        end).
        { destruct te as [t|]; [|reflexivity]. cbn [option_map].
          change [(rho tg, item)] with (rscope [(tg, item)]). rewrite new_scope_r.
          unfold new_scope; cbn [fst snd]. rewrite eval_r. reflexivity. }
        rewrite Ok_eq. clear Ok_eq.
        destruct (match te with
                  | Some t => let '(i, stt) := new_scope st [(tg, item)] in
                              do tv <- eval (slk d (i :: env) stt) (s_heap stt) t; Ok (truthy tv)
                  | None => Ok true
                  end) as [ok|e]; cbn [bind]; [|reflexivity].
        destruct ok; [|apply IHm].
        replace [(rho tg, item); (n_loop, VLoop (idx + 1))] with (rscope [(tg, item); (n_loop, VLoop (idx + 1))])
          by (cbn; rewrite rho_loop; reflexivity).
        rewrite new_scope_r. unfold new_scope; cbn [fst snd].
        rewrite (IH _ _ b H1). destruct (sx d f (length (s_scopes st) :: env) _ b) as [[st1 o]|e]; cbn [rres bind]; [|reflexivity].
        apply IHm. }
      rewrite It. clear It.
      match goal with |- context [match ?X with Ok _ => _ | Err _ => _ end] => destruct X as [[[st1 out] n]|e] end; cbn [bind rres]; [|reflexivity].
      destruct el as [|e0 el']; [reflexivity|]. cbn [rprog]. destruct (N.eqb n 0); [|reflexivity].
      rewrite new_scope_r_nil. unfold new_scope; cbn [fst snd].
      change (rstmt e0 :: rprog el') with (rprog (e0 :: el')). rewrite (IH _ _ (e0 :: el') H2).
      destruct (sx d f _ _ (e0 :: el')) as [[st3 o]|e]; reflexivity.
    - rewrite eval_r. cbn [s_heap rstate]. destruct (eval (slk d env ss) (s_heap ss) e) as [v|er]; cbn [bind rres]; [|reflexivity].
      rewrite sassign_r. reflexivity.
    - rewrite slk_r. destruct (slk d env ss x) as [c|er]; cbn [bind]; [|reflexivity].
      destruct c; try reflexivity. rewrite eval_r. cbn [s_heap rstate].
      destruct (eval (slk d env ss) (s_heap ss) e) as [v|er]; reflexivity.
    - rewrite <- rho_ns at 1. rewrite slk_r. destruct (slk d env ss n_namespace) as [c|er]; cbn [bind]; [|reflexivity].
      rewrite eval_kvs_r. cbn [s_heap rstate]. destruct (eval_kvs (slk d env ss) (s_heap ss) kvs) as [vs|er]; cbn [bind]; [|reflexivity].
      destruct c; try reflexivity. cbn [rres]. rewrite sassign_r. reflexivity.
    - rewrite rgo. rewrite (core2_go_alpha b) in Hcs.
      rewrite new_scope_r_nil. unfold new_scope; cbn [fst snd].
      rewrite (IH _ _ b Hcs). destruct (sx d f _ _ b) as [[st2 o]|e]; cbn [rres bind]; [|reflexivity].
      rewrite sassign_r. reflexivity.
    - rewrite rgo. rewrite (core2_go_alpha b) in Hcs.
      rewrite !map_map. cbn [fst snd].
      replace (map (fun x : name * expr => rexpr (snd x)) bs) with (map rexpr (map snd bs)) by (rewrite map_map; reflexivity).
      rewrite eval_list_r. cbn [s_heap rstate]. destruct (eval_list (slk d env ss) (s_heap ss) (map snd bs)) as [vs|e]; cbn [bind]; [|reflexivity].
      replace (map (fun x : name * expr => rho (fst x)) bs) with (map rho (map fst bs)) by (rewrite map_map; reflexivity).
      match goal with |- context [new_scope (rstate ss) ?sc] =>
        replace sc with (rscope (fold_left (fun a xv => dset N.eqb (fst xv) (snd xv) a) (combine (map fst bs) vs) []))
          by (symmetry; exact (fold_bind_r (map fst bs) vs [])) end.
      rewrite new_scope_r. unfold new_scope; cbn [fst snd].
      rewrite (IH _ _ b Hcs). destruct (sx d f _ _ b) as [[st2 o]|e]; reflexivity.
    - rewrite rgo. rewrite (core2_go_alpha b) in Hcs.
      rewrite new_scope_r_nil. unfold new_scope; cbn [fst snd].
      rewrite (IH _ _ b Hcs). destruct (sx d f _ _ b) as [[st2 o]|e]; reflexivity.
  Qed.

  Variables priv priv' : name -> bool.
  Hypothesis priv_r : forall x, priv' (rho x) = priv x.

  Definition robs (r : res observable) : res observable :=
    match r with Ok (o, ex) => Ok (o, map (fun xs => (rho (fst xs), snd xs)) ex) | Err e => Err e end.

  Lemma sexported_r : forall ss, sexported priv' (rstate ss) = map (fun xs => (rho (fst xs), snd xs)) (sexported priv ss).
  Proof.
    intros ss. unfold sexported, rstate; cbn [s_scopes]. rewrite nth_r. generalize (nth 0 (s_scopes ss) []). intros sc.
    unfold rscope. induction sc as [|[k v] r IH]; cbn [map filter fst snd]; [reflexivity|].
    rewrite priv_r. destruct (negb (priv k)); cbn [map fst snd]; rewrite IH; reflexivity.
  Qed.

  Theorem srender_alpha : forall fuel p, core2_prog p = true ->
    srender priv' rd fuel (rprog p) = robs (srender priv d fuel p).
  Proof.
    intros fuel p Hc. unfold srender.
    change (mkS [[]] []) with (rstate (mkS [[]] [])) at 1. rewrite (sx_r fuel [0] (mkS [[]] []) p Hc).
    destruct (sx d fuel [0] (mkS [[]] []) p) as [[ss o]|e]; cbn [rres bind robs]; [|reflexivity].
    rewrite sexported_r. reflexivity.
  Qed.

  (* corollary for the generated code, through scoping_correct_loopfilter_with on both programs *)
  Theorem frender_alpha : forall pynorm fuel p,
    core2_prog p = true -> wf_names p = true -> noalias pynorm p = true -> guard_rbw p d = true ->
    core2_prog (rprog p) = true -> wf_names (rprog p) = true -> noalias pynorm (rprog p) = true -> guard_rbw (rprog p) rd = true ->
    frender pynorm priv' rd fuel (rprog p) = robs (frender pynorm priv d fuel p).
  Proof.
    intros pynorm fuel p H1 H2 H3 H4 H5 H6 H7 H8.
    rewrite (scoping_correct_ext_thm pynorm priv' rd (rprog p) H5 H6 H7 H8 fuel).
    rewrite (scoping_correct_ext_thm pynorm priv d p H1 H2 H3 H4 fuel).
    apply srender_alpha. exact H1.
  Qed.
End Alpha.
